(** * BellFacts6: accuracy of the DECLINED estimate of [bellerophon] (what the slow path needs).

    When [bellerophon] declines (negative exponent), the estimate handed to the slow path,
    [fp' = (mant fp, exp fp - INVALID_FP)], is a normalised 64-bit significand whose truncation
    to the format, [rd_bits f fp'] (proofs/SlowFacts2c.v), is the correctly rounded result or its
    predecessor:   rd_bits f fp' <= RN f v <= rd_bits f fp' + 1.

    IMPORTANT: for a truncated significand this needs the truncation error (up to [2^(lz+1) + 1]
    units of the 64-bit significand, times the final shift) to stay below half a cell of the
    target precision, [4 * 2^(lz64 w + 1) + 16 < 2^(62 - MANTISSA_SIZE f)]; the bare [2^40 <= w]
    is not enough for f64 ([declined_estimate_needs_long_w] is a counterexample).  The crate's
    truncated significands have 19 digits, which satisfies the condition for f32 and f64
    ([trunc_ok_19_digits]).

    The exponent of [fp'] is at least [-64], and [-64] does occur ([declined_m64_occurs]): then the
    value is next to half the smallest subnormal, [rd_bits f fp' = 0] and [RN f v] is 0 or 1. *)
From Coq Require Import ZArith QArith Qreals Reals List Bool Lia Lra.
From Flocq Require Import Core.Core.
From ML Require Import base.RustSem model.Fmt model.Num model.Number model.Rounding
  model.Bellerophon gen.Consts gen.BTables spec.Decimal spec.Round spec.RoundFacts spec.RneBridge
  proofs.RoundingFactsZ proofs.Glue proofs.TableFacts proofs.SlowFacts2c
  proofs.BellFacts0 proofs.BellFacts1 proofs.BellFacts2 proofs.BellFacts3 proofs.BellFacts4
  proofs.BellFacts5.
Open Scope Z_scope.
Local Arguments Z.pow : simpl never.

(** ** 1. the sharp error bound (the code's count [errs] has an 8x margin the slow path cannot afford) *)
Definition terr (w : Z) (t : bool) : Z := if t then 2 ^ (lz64 w + 1) + 4 else 3.

Theorem stage2_bound_sharp q w t (x : R) :
  0 < w < 2 ^ 64 -> 0 <= q + BIAS -> lidx q < NLARGE -> (t = true -> 2 <= w) ->
  (if t then (IZR w * bpow r10 q <= x < IZR (w + 1) * bpow r10 q)%R
   else x = (IZR w * bpow r10 q)%R) ->
  let x3 := fst (stage2 q w) in let e3 := snd (stage2 q w) in
  ((IZR x3 - 1) * bpow radix2 e3 <= x <= (IZR x3 + IZR (terr w t)) * bpow radix2 e3)%R.
Proof.
  intros Hw H0 H1 Ht Hx. cbv zeta.
  destruct (stage2_V q w Hw H0 H1) as [[HV1 HV2] _]. cbv zeta in HV1, HV2.
  destruct (index_facts q H0 H1) as (Hsi & Hli & Hq).
  destruct (stage2_range q w Hw Hsi Hli) as [[Hx3l Hx3] _].
  assert (P61 : 0 < 2 ^ 61) by (vm_compute; reflexivity).
  set (x3 := fst (stage2 q w)) in *. set (e3 := snd (stage2 q w)) in *.
  pose proof (bpow_gt_0 radix2 e3) as Pe. pose proof (bpow_gt_0 radix2 (- e3)) as Pe'.
  pose proof (bpow_opp_mul radix2 e3) as I.
  set (G := (bpow r10 q * bpow radix2 (- e3))%R) in *.
  assert (HG : (0 < G)%R) by (apply Rmult_lt_0_compat; [apply bpow_gt_0|exact Pe']).
  replace (IZR w * bpow r10 q * bpow radix2 (- e3))%R with (IZR w * G)%R in * by (unfold G; ring).
  assert (Hsuff : forall T lo hi : R, (x = T * bpow radix2 e3 -> lo <= T <= hi ->
             lo * bpow radix2 e3 <= x <= hi * bpow radix2 e3)%R).
  { intros T lo hi -> [Ha Hb]. split; apply Rmult_le_compat_r; lra. }
  assert (ET : (x = x * bpow radix2 (- e3) * bpow radix2 e3)%R).
  { rewrite Rmult_assoc, (Rmult_comm (bpow radix2 (- e3))), I. ring. }
  apply (Hsuff _ _ _ ET). clear Hsuff ET.
  unfold terr. destruct t.
  - specialize (Ht eq_refl). destruct Hx as [Hx1 Hx2].
    destruct (lz64_spec w Hw) as [Hlz Hnw].
    set (k := lz64 w + 1) in *.
    assert (Hk : 2 ^ 64 + 2 <= (2 ^ k + 1) * w).
    { unfold k. rewrite pow2_succ by lia. change (2 ^ 64) with (2 * 2 ^ 63). nia. }
    apply IZR_le in Hk. rewrite plus_IZR, mult_IZR, plus_IZR, c64_IZR in Hk.
    simpl (IZR 2) in Hk. simpl (IZR 1) in Hk.
    assert (Hw0 : (0 < IZR w)%R) by (apply IZR_lt; lia).
    destruct (IZR_range64 x3 ltac:(lia)) as [_ Hx3c].
    assert (HGk : (G <= IZR (2 ^ k) + 1)%R).
    { apply Rmult_le_reg_r with (IZR w); [exact Hw0|]. rewrite (Rmult_comm G). lra. }
    assert (HT1 : (IZR w * G <= x * bpow radix2 (- e3))%R).
    { unfold G. rewrite <- Rmult_assoc. apply Rmult_le_compat_r; lra. }
    assert (HT2 : (x * bpow radix2 (- e3) <= IZR w * G + G)%R).
    { replace (IZR w * G + G)%R with (IZR (w + 1) * bpow r10 q * bpow radix2 (- e3))%R
        by (unfold G; rewrite plus_IZR; ring).
      apply Rmult_le_compat_r; lra. }
    rewrite plus_IZR. simpl (IZR 4). split; lra.
  - subst x. replace (IZR w * bpow r10 q * bpow radix2 (- e3))%R with (IZR w * G)%R by (unfold G; ring).
    simpl (IZR 3). split; lra.
Qed.

(** ** 2. what a declined answer looks like *)
Theorem bellerophon_declined_inv : forall f b w q t, bell_ok f = true ->
  0 <= w < 2 ^ 64 -> - 2 ^ 31 <= q < 2 ^ 31 ->
  forall fp, bellerophon BTABLES f b (mkNumber q w t) = Ok fp -> exp fp < 0 ->
  w <> 0 /\ 0 <= q + BIAS /\ lidx q < NLARGE /\
  let x3 := fst (stage2 q w) in let e3 := snd (stage2 q w) in
  let s4 := lz64 x3 in let M := x3 * 2 ^ s4 in
  let e5 := e3 - s4 + EXPONENT_BIAS f in let err := errs q w t * 2 ^ s4 in
  fp = mkExt M (e5 + INVALID_FP f) /\ acc f err M e5 = false /\ - 64 <= e5.
Proof.
  intros f b w q t Hok Hw Hq fp Hfp Hneg.
  destruct (bell_ok_props f Hok) as (Hbf & Hbb & Hs & Hms & Hunder & Htop0 & Hover).
  destruct (bell_fmt_ok_props f Hbf) as (Hr & HB & Hi & Hsum).
  destruct (rfmt_ok_props f Hr) as [Pms Pew _ _ _ _ Pinf _ _ _ _].
  destruct (Z.eq_dec w 0) as [Hw0|Hw0].
  { rewrite bellerophon_zero_exit in Hfp by (try lia; left; exact Hw0).
    injection Hfp as <-. cbn [exp bfp_zero] in Hneg. lia. }
  destruct (Z_lt_ge_dec (q + BIAS) 0) as [Hlow|Hlow].
  { rewrite bellerophon_zero_exit in Hfp by (try lia; right; exact Hlow).
    injection Hfp as <-. cbn [exp bfp_zero] in Hneg. lia. }
  destruct bt_props_true as [[Hs0 Hs1] _ _ _ _ _ _ _].
  destruct (Z_le_gt_dec NLARGE (lidx q)) as [Hhigh|Hhigh].
  { assert (Hex : NLARGE * STEP <= q + BIAS).
    { unfold lidx in Hhigh. pose proof (Z.mul_div_le (q + BIAS) STEP ltac:(lia)). nia. }
    rewrite bellerophon_inf_exit in Hfp by (try lia; assumption).
    injection Hfp as <-. cbn [exp bfp_inf] in Hneg.
    pose proof (pow2_pos (ewidth f) ltac:(lia)). lia. }
  apply Z.ge_le in Hlow. apply Z.gt_lt in Hhigh.
  split; [exact Hw0|]. split; [exact Hlow|]. split; [exact Hhigh|].
  assert (Hw' : 0 < w < 2 ^ 64) by lia.
  pose proof (bellerophon_core f b q w t Hbf Hw' Hlow Hhigh) as Hcore. cbv zeta in Hcore |- *.
  destruct (index_facts q Hlow Hhigh) as (Hsi & Hli & Hqe).
  destruct (stage2_range q w Hw' Hsi Hli) as [Hx3 He3].
  destruct (lz64_le2 _ Hx3) as [Hs4 HM].
  set (x3 := fst (stage2 q w)) in *. set (e3 := snd (stage2 q w)) in *.
  set (s4 := lz64 x3) in *. set (M := x3 * 2 ^ s4) in *.
  set (e5 := e3 - s4 + EXPONENT_BIAS f) in *. set (err := errs q w t * 2 ^ s4) in *.
  rewrite Hcore in Hfp. clear Hcore.
  destruct (65 <? 1 - e5) eqn:E1.
  { injection Hfp as <-. cbn [exp bfp_zero] in Hneg. lia. }
  destruct (negb (acc f err M e5)) eqn:E2.
  { injection Hfp as <-. split; [reflexivity|]. split; [apply negb_true_iff; exact E2|].
    apply Z.ltb_ge in E1. lia. }
  destruct (1 - e5 =? 65) eqn:E3.
  { injection Hfp as <-. cbn [exp bfp_zero] in Hneg. lia. }
  injection Hfp as <-. exfalso.
  apply Z.ltb_ge in E1. apply Z.eqb_neq in E3.
  assert (H20 : 2 ^ 20 = 1048576) by reflexivity. assert (H30 : 2 ^ 30 = 1073741824) by reflexivity.
  pose proof (round_spec_shape f Hr (rnd_ne M) M e5 HM ltac:(unfold e5; lia)
                (fun s Hs => rnd_ne_bounds M s ltac:(lia))) as (Hsh & _).
  lia.
Qed.

Corollary bellerophon_declined_nonzero : forall f b w q t, bell_ok f = true ->
  0 <= w < 2 ^ 64 -> - 2 ^ 31 <= q < 2 ^ 31 ->
  forall fp, bellerophon BTABLES f b (mkNumber q w t) = Ok fp -> exp fp < 0 ->
  w <> 0 /\ - BIAS <= q < NLARGE * STEP - BIAS /\ - 4096 < q < 4096.
Proof.
  intros f b w q t Hok Hw Hq fp Hfp Hneg.
  destruct (bellerophon_declined_inv f b w q t Hok Hw Hq fp Hfp Hneg) as (H1 & H2 & H3 & _).
  destruct bt_props_true as [[Hs0 Hs1] [Hb0 Hb1] _ _ _ _ _ Htop].
  assert (Hlt : q + BIAS < NLARGE * STEP).
  { unfold lidx in H3. pose proof (Z.div_mod (q + BIAS) STEP ltac:(lia)).
    pose proof (Z.mod_pos_bound (q + BIAS) STEP ltac:(lia)). nia. }
  change (2 ^ 12) with 4096 in *. repeat split; try assumption; lia.
Qed.

(** ** 3. the truncated estimate against the rounded neighbours, at the level of integers *)
Lemma rnd_ne_ge s q y : 1 <= s -> (2 * q - 1) * 2 ^ (s - 1) < y -> q <= rnd_ne y s.
Proof.
  intros Hs Hy. pose proof (rnd_ne_closed_cell s y Hs) as [_ Hc]. cbv zeta in Hc.
  pose proof (pow2_pos (s - 1) ltac:(lia)). nia.
Qed.

Lemma rnd_ne_le s q y : 1 <= s -> y < (2 * q + 1) * 2 ^ (s - 1) -> rnd_ne y s <= q.
Proof.
  intros Hs Hy. pose proof (rnd_ne_closed_cell s y Hs) as [Hc _]. cbv zeta in Hc.
  pose proof (pow2_pos (s - 1) ltac:(lia)). nia.
Qed.

Lemma res_vs_rd f M e y : rfmt_ok f = true ->
  2 ^ 63 <= M < 2 ^ 64 -> - 63 <= e <= 2 ^ 30 ->
  M / 2 ^ bshift f e <= rnd_ne y (bshift f e) <= M / 2 ^ bshift f e + 1 ->
  rd_bits f (mkExt M e) <= res f y e <= rd_bits f (mkExt M e) + 1.
Proof.
  intros Hr HM He Hy. unfold rd_bits, rd_fields, res. cbn [mant exp].
  change (bshift f e) with (rd_shift f e) in Hy.
  rewrite (pack_round_spec_gen f Hr (rnd_ne y) M e (rnd_ne y (rd_shift f e) - M / 2 ^ rd_shift f e) HM He)
    by lia.
  rewrite (pack_round_spec_gen f Hr (fun s => M / 2 ^ s) M e 0 HM He) by lia.
  destruct (e <=? - (63 - MANTISSA_SIZE f)); [lia|].
  destruct (INFINITE_POWER f <=? e + (63 - MANTISSA_SIZE f)); lia.
Qed.

Lemma rd_bits_same f M M' e : M / 2 ^ bshift f e = M' / 2 ^ bshift f e ->
  rd_bits f (mkExt M e) = rd_bits f (mkExt M' e).
Proof.
  intros H. unfold rd_bits, rd_fields. cbn [mant exp]. f_equal.
  apply round_spec_ext. exact H.
Qed.

Lemma bshift_range f e : rfmt_ok f = true -> - 63 <= e ->
  63 - MANTISSA_SIZE f <= bshift f e <= 64 /\ (bshift f e <= 63 -> - 62 <= e).
Proof.
  intros Hr He. destruct (rfmt_ok_props f Hr) as [Pms _ _ _ _ _ _ _ _ _ _].
  unfold bshift. destruct (e <=? - (63 - MANTISSA_SIZE f)) eqn:E.
  - apply Z.leb_le in E. lia.
  - apply Z.leb_gt in E. lia.
Qed.

(** the band [M - dlo, M + D] with [dlo] below a quarter cell and [D] below half a cell *)
Theorem estimate_band_RN f M e dlo D (v : Q) :
  rfmt_ok f = true -> bfmt_ok f = true -> sfmt_ok f = true ->
  2 ^ 63 <= M < 2 ^ 64 -> - 63 <= e <= 2 ^ 30 - 1 ->
  1 <= dlo -> 4 * dlo < 2 ^ (63 - MANTISSA_SIZE f) ->
  0 <= D -> 2 * D < 2 ^ (63 - MANTISSA_SIZE f) ->
  (IZR (M - dlo) * bpow radix2 (e - EXPONENT_BIAS f) <= Q2R v
   <= IZR (M + D) * bpow radix2 (e - EXPONENT_BIAS f))%R ->
  rd_bits f (mkExt M e) <= RN f v <= rd_bits f (mkExt M e) + 1.
Proof.
  intros Hr Hb Hs HM He Hd Hq HD0 HD [Hlo Hhi].
  destruct (rfmt_ok_props f Hr) as [Pms _ _ _ _ _ _ _ _ _ _].
  destruct (bshift_range f e Hr ltac:(lia)) as [Hsr Hs63].
  set (B := EXPONENT_BIAS f) in *. set (s := bshift f e) in *. set (sh := 63 - MANTISSA_SIZE f) in *.
  assert (H30 : 2 ^ 30 = 1073741824) by reflexivity.
  assert (H64 : 2 ^ 64 = 2 * 2 ^ 63) by reflexivity.
  assert (H63 : 2 ^ 63 = 2 * 2 ^ 62) by reflexivity.
  assert (P62 : 0 < 2 ^ 62) by (vm_compute; reflexivity).
  pose proof (pow2_pred s ltac:(lia)) as HP. pose proof (pow2_pos (s - 1) ltac:(lia)) as Hh.
  pose proof (pow2_pred sh ltac:(unfold sh; lia)) as HPsh.
  pose proof (pow2_le (sh - 1) (s - 1) ltac:(unfold sh in *; lia)) as Hshs.
  pose proof (pow2_le sh 62 ltac:(unfold sh; lia)) as Hsh62.
  assert (Ediv : M = 2 ^ s * (M / 2 ^ s) + M mod 2 ^ s) by (apply Z.div_mod; lia).
  assert (Bmod : 0 <= M mod 2 ^ s < 2 ^ s) by (apply Z.mod_pos_bound; lia).
  set (qM := M / 2 ^ s) in *. set (r := M mod 2 ^ s) in *.
  set (rd := rd_bits f (mkExt M e)).
  assert (Hv0 : (0 <= v)%Q).
  { apply Rle_Qle. rewrite RMicromega.Q2R_0. eapply Rle_trans; [|exact Hlo].
    apply Rmult_le_pos; [apply IZR_le; lia|apply bpow_ge_0]. }
  (* lower side *)
  assert (Llo : rd <= RN f v).
  { destruct (Z_le_gt_dec (2 ^ 63) (M - dlo)) as [Hc|Hc].
    - set (vlo := ext_num f (M - dlo) e # Z.to_pos (ext_den f e)).
      assert (Hle : (vlo <= v)%Q) by (apply Rle_Qle; unfold vlo; rewrite Q2R_ext; exact Hlo).
      assert (H0 : (0 <= vlo)%Q).
      { apply Rle_Qle. unfold vlo. rewrite RMicromega.Q2R_0, Q2R_ext.
        apply Rmult_le_pos; [apply IZR_le; lia|apply bpow_ge_0]. }
      pose proof (RN_monotone f Hs vlo v H0 Hle) as Mono.
      unfold vlo in Mono. rewrite res_RN in Mono by (try assumption; lia).
      assert (Hres : rd <= res f (M - dlo) e).
      { apply res_vs_rd; try assumption; try lia. fold s. fold qM. split.
        - apply rnd_ne_ge; [lia|]. rewrite HP in Ediv. nia.
        - apply rnd_ne_le; [lia|]. rewrite HP in Ediv, Bmod. nia. }
      lia.
    - destruct (Z.eq_dec s 64) as [E64|NE64].
      + (* everything is cut: the truncated pattern is 0 *)
        assert (rd = 0); [|pose proof (RN_range f Hs v Hv0); lia].
        unfold rd, rd_bits, rd_fields. cbn [mant exp].
        rewrite (pack_round_spec_gen f Hr (fun s => M / 2 ^ s) M e 0 HM ltac:(lia)) by
          (try lia; change (rd_shift f e) with s; lia).
        change (rd_shift f e) with s. fold qM.
        assert (qM = 0) by (unfold qM; rewrite E64; apply Z.div_small; lia).
        unfold s, bshift in E64. destruct (e <=? - (63 - MANTISSA_SIZE f)) eqn:E; [lia|].
        unfold sh in *. lia.
      + specialize (Hs63 ltac:(lia)).
        assert (HRM : rnd_ne M s * 2 ^ s = 2 ^ 63).
        { rewrite (rnd_ne_near_pow M 63 s) by lia. rewrite <- pow2_split by lia. f_equal. lia. }
        pose proof (res_lower_corner f M e (M - dlo) Hr Hs63 ltac:(fold s; lia) HRM ltac:(lia)
                      ltac:(fold sh; lia)) as Hcorner.
        set (vlo := ext_num f (2 * (M - dlo)) (e - 1) # Z.to_pos (ext_den f (e - 1))).
        assert (Hval : Q2R vlo = (IZR (M - dlo) * bpow radix2 (e - B))%R).
        { unfold vlo. rewrite Q2R_ext. fold B. rewrite mult_IZR.
          replace (e - B) with (1 + (e - 1 - B)) by lia. rewrite bpow_plus.
          change (bpow radix2 1) with 2%R. ring. }
        assert (Hle : (vlo <= v)%Q) by (apply Rle_Qle; rewrite Hval; exact Hlo).
        assert (H0 : (0 <= vlo)%Q).
        { apply Rle_Qle. rewrite RMicromega.Q2R_0, Hval.
          apply Rmult_le_pos; [apply IZR_le; lia|apply bpow_ge_0]. }
        pose proof (RN_monotone f Hs vlo v H0 Hle) as Mono.
        unfold vlo in Mono. rewrite res_RN in Mono by (try assumption; lia).
        rewrite Hcorner in Mono.
        assert (Hres : rd <= res f M e).
        { apply res_vs_rd; try assumption; try lia. fold s. apply rnd_ne_bounds. lia. }
        lia. }
  (* upper side *)
  assert (Lhi : RN f v <= rd + 1).
  { destruct (Z_lt_ge_dec (M + D) (2 ^ 64)) as [Hc|Hc].
    - set (vhi := ext_num f (M + D) e # Z.to_pos (ext_den f e)).
      assert (Hle : (v <= vhi)%Q) by (apply Rle_Qle; unfold vhi; rewrite Q2R_ext; exact Hhi).
      pose proof (RN_monotone f Hs v vhi Hv0 Hle) as Mono.
      unfold vhi in Mono. rewrite res_RN in Mono by (try assumption; lia).
      assert (Hres : res f (M + D) e <= rd + 1).
      { apply res_vs_rd; try assumption; try lia. fold s. fold qM. split.
        - apply rnd_ne_ge; [lia|]. rewrite HP in Ediv. nia.
        - apply rnd_ne_le; [lia|]. rewrite HP in Ediv, Bmod. nia. }
      lia.
    - (* the band crosses 2^64: compare with the top significand 2^64 - 1 *)
      set (Mt := 2 ^ 64 - 1).
      assert (HRt : rnd_ne Mt s * 2 ^ s = 2 ^ 64).
      { rewrite (rnd_ne_near_pow Mt 64 s) by (unfold Mt; lia). rewrite <- pow2_split by lia. f_equal. lia. }
      set (h2 := (M + D + 1) / 2).
      assert (Hh2a : M + D <= 2 * h2 <= M + D + 1).
      { unfold h2. pose proof (Z.div_mod (M + D + 1) 2 ltac:(lia)).
        pose proof (Z.mod_pos_bound (M + D + 1) 2 ltac:(lia)). lia. }
      pose proof (res_upper_corner f Mt e h2 Hr ltac:(lia) ltac:(fold s; lia) HRt ltac:(lia)
                    ltac:(fold s; lia)) as Hcorner.
      set (vhi := ext_num f h2 (e + 1) # Z.to_pos (ext_den f (e + 1))).
      assert (Hle : (v <= vhi)%Q).
      { apply Rle_Qle. unfold vhi. rewrite Q2R_ext. fold B.
        eapply Rle_trans; [exact Hhi|].
        replace (e + 1 - B) with (1 + (e - B)) by lia. rewrite bpow_plus.
        change (bpow radix2 1) with 2%R. rewrite <- Rmult_assoc, <- (mult_IZR h2 2).
        apply Rmult_le_compat_r; [apply bpow_ge_0|]. apply IZR_le. lia. }
      pose proof (RN_monotone f Hs v vhi Hv0 Hle) as Mono.
      unfold vhi in Mono. rewrite res_RN in Mono by (try assumption; lia).
      rewrite Hcorner in Mono.
      assert (Eq : M / 2 ^ s = Mt / 2 ^ s).
      { fold qM. apply Z.div_unique with (r := r + (Mt - M)); [|lia].
        left. unfold Mt.
        assert (E64 : 2 ^ 64 = 2 ^ (64 - s) * 2 ^ s) by (rewrite <- pow2_split by lia; f_equal; lia).
        pose proof (pow2_pos (64 - s) ltac:(lia)) as Hc0.
        set (c := 2 ^ (64 - s)) in *. rewrite HP in *. set (h := 2 ^ (s - 1)) in *.
        assert (c <= qM + 1) by nia. nia. }
      assert (Hres : res f Mt e <= rd + 1).
      { unfold rd. rewrite (rd_bits_same f M Mt e Eq).
        apply res_vs_rd; try assumption; try (unfold Mt; lia). fold s. apply rnd_ne_bounds. lia. }
      lia. }
  lia.
Qed.

(** the same at exponent [-64]: the truncated pattern is zero and the value rounds to 0 or 1 *)
Lemma rd_bits_m64 f M : rfmt_ok f = true -> 0 <= M < 2 ^ 64 -> rd_bits f (mkExt M (-64)) = 0.
Proof.
  intros Hr HM. destruct (rfmt_ok_props f Hr) as [Pms _ _ _ _ _ _ _ _ _ _].
  unfold rd_bits, rd_fields, round_spec. cbn [mant exp]. cbv zeta.
  replace (-64 <=? - (63 - MANTISSA_SIZE f)) with true by (symmetry; apply Z.leb_le; lia).
  change (1 - -64) with 65. rewrite Z.div_small by (change (2 ^ 65) with (2 * 2 ^ 64); lia).
  pose proof (pow2_pos (MANTISSA_SIZE f) ltac:(lia)).
  replace (2 ^ MANTISSA_SIZE f <=? 0) with false by (symmetry; apply Z.leb_gt; lia).
  reflexivity.
Qed.

Theorem estimate_m64_RN f M D (v : Q) :
  rfmt_ok f = true -> bfmt_ok f = true -> sfmt_ok f = true ->
  2 ^ 63 <= M < 2 ^ 64 -> 0 <= D < 2 ^ 62 ->
  (0 <= Q2R v <= IZR (M + D) * bpow radix2 (- 64 - EXPONENT_BIAS f))%R ->
  rd_bits f (mkExt M (-64)) <= RN f v <= rd_bits f (mkExt M (-64)) + 1.
Proof.
  intros Hr Hb Hs HM HD [H0 Hhi]. rewrite (rd_bits_m64 f M Hr ltac:(lia)).
  destruct (rfmt_ok_props f Hr) as [Pms _ _ _ _ _ _ _ _ _ _].
  assert (Hv0 : (0 <= v)%Q) by (apply Rle_Qle; rewrite RMicromega.Q2R_0; exact H0).
  split; [apply (RN_range f Hs v Hv0)|].
  assert (H64 : 2 ^ 64 = 2 * 2 ^ 63) by reflexivity.
  assert (H63 : 2 ^ 63 = 2 * 2 ^ 62) by reflexivity.
  assert (P62 : 0 < 2 ^ 62) by (vm_compute; reflexivity).
  assert (H30 : 2 ^ 30 = 1073741824) by reflexivity.
  set (h2 := Z.max (2 ^ 63) ((M + D + 1) / 2)).
  assert (Hh2a : M + D <= 2 * h2 /\ 2 ^ 63 <= h2 < 2 ^ 64).
  { unfold h2. pose proof (Z.div_mod (M + D + 1) 2 ltac:(lia)).
    pose proof (Z.mod_pos_bound (M + D + 1) 2 ltac:(lia)). lia. }
  set (B := EXPONENT_BIAS f) in *.
  set (vhi := ext_num f h2 (-63) # Z.to_pos (ext_den f (-63))).
  assert (Hle : (v <= vhi)%Q).
  { apply Rle_Qle. unfold vhi. rewrite Q2R_ext. fold B.
    eapply Rle_trans; [exact Hhi|].
    replace (-63 - B) with (1 + (-64 - B)) by lia. rewrite bpow_plus.
    change (bpow radix2 1) with 2%R. rewrite <- Rmult_assoc, <- (mult_IZR h2 2).
    apply Rmult_le_compat_r; [apply bpow_ge_0|]. apply IZR_le. lia. }
  pose proof (RN_monotone f Hs v vhi Hv0 Hle) as Mono.
  unfold vhi in Mono. rewrite res_RN in Mono by (try assumption; lia).
  assert (Hres : res f h2 (-63) <= 1).
  { pose proof (rnd_ne_bounds h2 64 ltac:(lia)) as Hb2.
    rewrite (Z.div_small h2 (2 ^ 64)) in Hb2 by lia.
    unfold res.
    rewrite (pack_round_spec_gen f Hr (rnd_ne h2) h2 (-63) (rnd_ne h2 64) ltac:(lia) ltac:(lia)).
    - replace (-63 <=? - (63 - MANTISSA_SIZE f)) with true by (symmetry; apply Z.leb_le; lia).
      assert (Es : rd_shift f (-63) = 64).
      { unfold rd_shift. replace (-63 <=? - (63 - MANTISSA_SIZE f)) with true by (symmetry; apply Z.leb_le; lia).
        reflexivity. }
      rewrite Es. rewrite (Z.div_small h2 (2 ^ 64)) by lia. lia.
    - assert (Es : rd_shift f (-63) = 64).
      { unfold rd_shift. replace (-63 <=? - (63 - MANTISSA_SIZE f)) with true by (symmetry; apply Z.leb_le; lia).
        reflexivity. }
      rewrite Es. rewrite (Z.div_small h2 (2 ^ 64)) by lia. lia.
    - lia. }
  lia.
Qed.

(** ** 4. the theorem *)
(** a truncated significand must be long enough for the format *)
Definition trunc_ok (f : format) (w : Z) : Prop :=
  4 * 2 ^ (lz64 w + 1) + 16 < 2 ^ (62 - MANTISSA_SIZE f).

Theorem bellerophon_declined_estimate : forall f b w q t, bell_ok f = true ->
  0 <= w < 2 ^ 64 -> - 2 ^ 31 <= q < 2 ^ 31 -> (t = true -> trunc_ok f w) ->
  forall fp, bellerophon BTABLES f b (mkNumber q w t) = Ok fp -> exp fp < 0 ->
  let fp' := mkExt (mant fp) (exp fp - INVALID_FP f) in
  2 ^ 63 <= mant fp' < 2 ^ 64 /\ - 64 <= exp fp' <= 2 ^ 20 /\
  (exp fp' = - 64 -> rd_bits f fp' = 0) /\
  forall v : Q, (if t then (inject_Z w * pow10Q q <= v /\ v < inject_Z (w + 1) * pow10Q q)%Q
                 else (v == inject_Z w * pow10Q q)%Q) ->
    rd_bits f fp' <= RN f v <= rd_bits f fp' + 1.
Proof.
  intros f b w q t Hok Hw Hq Ht fp Hfp Hneg.
  destruct (bellerophon_declined_inv f b w q t Hok Hw Hq fp Hfp Hneg) as (Hw0 & Hlow & Hhigh & Hinv).
  cbv zeta in Hinv. destruct Hinv as (Efp & _ & He64).
  destruct (bell_ok_props f Hok) as (Hbf & Hbb & Hs & Hms & _).
  destruct (bell_fmt_ok_props f Hbf) as (Hr & HB & Hi & Hsum).
  destruct (rfmt_ok_props f Hr) as [Pms _ _ _ _ _ _ _ _ _ _].
  assert (Hw' : 0 < w < 2 ^ 64) by lia.
  destruct (index_facts q Hlow Hhigh) as (Hsi & Hli & Hqe).
  destruct (stage2_range q w Hw' Hsi Hli) as [Hx3 He3].
  destruct (lz64_le2 _ Hx3) as [Hs4 HM].
  set (B := EXPONENT_BIAS f) in *.
  set (x3 := fst (stage2 q w)) in *. set (e3 := snd (stage2 q w)) in *.
  set (s4 := lz64 x3) in *. set (M := x3 * 2 ^ s4) in *.
  set (e5 := e3 - s4 + B) in *.
  subst fp. cbv zeta. cbn [mant exp]. replace (e5 + INVALID_FP f - INVALID_FP f) with e5 by lia.
  assert (H20 : 2 ^ 20 = 1048576) by reflexivity. assert (H30 : 2 ^ 30 = 1073741824) by reflexivity.
  split; [exact HM|]. split; [unfold e5; lia|].
  split; [intros ->; apply rd_bits_m64; [exact Hr|lia]|].
  intros v Hv. apply value_R in Hv.
  assert (Hp4 : 1 <= 2 ^ s4 <= 4).
  { pose proof (pow2_le s4 2 ltac:(lia)). pose proof (pow2_pos s4 ltac:(lia)). change (2 ^ 2) with 4 in *. lia. }
  (* the deviation of the true significand *)
  set (D := terr w t * 2 ^ s4).
  assert (Hsh5 : 32 <= 2 ^ (63 - MANTISSA_SIZE f)).
  { pose proof (pow2_le 5 (63 - MANTISSA_SIZE f) ltac:(lia)) as H5. change (2 ^ 5) with 32 in H5. exact H5. }
  assert (Hpsh : 2 ^ (63 - MANTISSA_SIZE f) = 2 * 2 ^ (62 - MANTISSA_SIZE f)).
  { replace (63 - MANTISSA_SIZE f) with ((62 - MANTISSA_SIZE f) + 1) by lia. apply pow2_succ. lia. }
  assert (HD : 0 <= D /\ 2 * D < 2 ^ (63 - MANTISSA_SIZE f)).
  { unfold D, terr. destruct t.
    - specialize (Ht eq_refl). unfold trunc_ok in Ht.
      destruct (lz64_spec w Hw') as [Hlz _]. pose proof (pow2_pos (lz64 w + 1) ltac:(lia)). nia.
    - nia. }
  assert (Ht2 : t = true -> 2 <= w).
  { intros E. specialize (Ht E). unfold trunc_ok in Ht.
    destruct (lz64_spec w Hw') as [Hlz Hn].
    destruct (Z_le_gt_dec 2 w) as [|Hgt]; [assumption|exfalso].
    assert (w = 1) by lia. subst w. rewrite Z.mul_1_l in Hn.
    pose proof (pow2_le (62 - MANTISSA_SIZE f) 61 ltac:(lia)).
    assert (2 ^ 63 = 4 * 2 ^ 61) by reflexivity. rewrite pow2_succ in Ht by lia. lia. }
  pose proof (stage2_bound_sharp q w t (Q2R v) Hw' Hlow Hhigh Ht2 Hv) as [G1 G2]. cbv zeta in G1, G2.
  fold x3 e3 in G1, G2.
  assert (Ee : bpow radix2 e3 = (IZR (2 ^ s4) * bpow radix2 (e5 - B))%R).
  { rewrite IZR_pow2 by lia. rewrite <- bpow_plus. f_equal. unfold e5. lia. }
  assert (Hband : (IZR (M - 2 ^ s4) * bpow radix2 (e5 - B) <= Q2R v
                   <= IZR (M + D) * bpow radix2 (e5 - B))%R).
  { rewrite Ee in G1, G2. split.
    - eapply Rle_trans; [|exact G1]. unfold M. rewrite minus_IZR, mult_IZR. apply Req_le. ring.
    - eapply Rle_trans; [exact G2|]. unfold M, D. rewrite plus_IZR, !mult_IZR. apply Req_le. ring. }
  destruct (Z.eq_dec e5 (- 64)) as [E64|NE64].
  - rewrite E64 in *. apply (estimate_m64_RN f M D v); try assumption.
    + pose proof (pow2_le (63 - MANTISSA_SIZE f) 62 ltac:(lia)). lia.
    + destruct Hband as [Hb1 Hb2]. split; [|exact Hb2].
      eapply Rle_trans; [|exact Hb1]. apply Rmult_le_pos; [apply IZR_le; lia|apply bpow_ge_0].
  - apply (estimate_band_RN f M e5 (2 ^ s4) D v); try assumption; try lia.
Qed.

(** the crate's truncated significands (19 digits) qualify for both formats *)
Lemma trunc_ok_of_size f w : 0 <= MANTISSA_SIZE f <= 56 -> 2 ^ (MANTISSA_SIZE f + 5) <= w < 2 ^ 64 ->
  trunc_ok f w.
Proof.
  intros Hms Hw. unfold trunc_ok. set (ms := MANTISSA_SIZE f) in *.
  pose proof (pow2_pos (ms + 5) ltac:(lia)) as Hp.
  destruct (lz64_spec w ltac:(lia)) as [Hlz Hn].
  (* w * 2^lz < 2^64 and w >= 2^(ms+5) give lz <= 58 - ms *)
  assert (Hl : lz64 w <= 58 - ms).
  { destruct (Z_le_gt_dec (lz64 w) (58 - ms)) as [|Hgt]; [assumption|exfalso].
    pose proof (pow2_le (59 - ms) (lz64 w) ltac:(lia)) as Hle.
    assert (E : 2 ^ 64 = 2 ^ (ms + 5) * 2 ^ (59 - ms)) by (rewrite <- pow2_split by lia; f_equal; lia).
    pose proof (pow2_pos (59 - ms) ltac:(lia)). nia. }
  pose proof (pow2_le (lz64 w + 1) (59 - ms) ltac:(lia)) as H1.
  assert (E1 : 2 ^ (62 - ms) = 8 * 2 ^ (59 - ms)).
  { replace (62 - ms) with (3 + (59 - ms)) by lia. rewrite pow2_split by lia. reflexivity. }
  pose proof (pow2_le 3 (59 - ms) ltac:(lia)) as H3. change (2 ^ 3) with 8 in H3. lia.
Qed.

Lemma trunc_ok_19_digits w : 10 ^ 18 <= w < 2 ^ 64 -> trunc_ok F64 w /\ trunc_ok F32 w.
Proof.
  intros Hw.
  assert (H57 : 2 ^ (52 + 5) <= 10 ^ 18) by (apply Z.leb_le; vm_compute; reflexivity).
  assert (H28 : 2 ^ (23 + 5) <= 10 ^ 18) by (apply Z.leb_le; vm_compute; reflexivity).
  split; apply trunc_ok_of_size.
  - change (MANTISSA_SIZE F64) with 52. lia.
  - change (MANTISSA_SIZE F64) with 52. lia.
  - change (MANTISSA_SIZE F32) with 23. lia.
  - change (MANTISSA_SIZE F32) with 23. lia.
Qed.

(** ** examples *)
(** the requested hypothesis [2^40 <= w] is not enough for f64: declined, yet the true rounding is
    2048 patterns above the truncated estimate *)
Example declined_estimate_needs_long_w :
  let fp := mkExt 9223372036863164416 (-31716) in
  bellerophon BTABLES F64 release_build (mkNumber 0 (2 ^ 40 + 1) true) = Ok fp /\
  (inject_Z (2 ^ 40 + 1) * pow10Q 0 <= (2 * (2 ^ 40 + 1) + 1) # 2 /\
   (2 * (2 ^ 40 + 1) + 1) # 2 < inject_Z (2 ^ 40 + 1 + 1) * pow10Q 0)%Q /\
  RN F64 ((2 * (2 ^ 40 + 1) + 1) # 2) = rd_bits F64 (mkExt (mant fp) (exp fp - INVALID_FP F64)) + 2048.
Proof.
  cbv zeta. split; [vm_compute; reflexivity|]. split; [split; vm_compute; [discriminate|reflexivity]|vm_compute; reflexivity].
Qed.

(** exponent -64 occurs (a truncated 13-digit significand next to half the smallest f64 subnormal) *)
Example declined_m64_occurs :
  bellerophon BTABLES F64 release_build (mkNumber (-336) (10 ^ 336 / 2 ^ 1075) true)
  = Ok (mkExt 18446744073707813814 (-64 + INVALID_FP F64)).
Proof. vm_compute. reflexivity. Qed.

(** the theorem applies: the F1 witness (19 digits, truncated) is declined with estimate
    [(13768166668992357363, -5)]; whatever the dropped digits, the result is its truncation or the next pattern *)
Example declined_estimate_F1 : forall v : Q,
  (inject_Z 1062871587088380183 * pow10Q (-324) <= v /\
   v < inject_Z (1062871587088380183 + 1) * pow10Q (-324))%Q ->
  let fp' := mkExt 13768166668992357363 (-5) in
  rd_bits F64 fp' <= RN F64 v <= rd_bits F64 fp' + 1.
Proof.
  intros v Hv.
  assert (E : bellerophon BTABLES F64 checked_build (mkNumber (-324) 1062871587088380183 true)
              = Ok (mkExt 13768166668992357363 (-5 + INVALID_FP F64))) by (vm_compute; reflexivity).
  assert (R : 10 ^ 18 <= 1062871587088380183 < 2 ^ 64) by (split; [apply Z.leb_le|apply Z.ltb_lt]; vm_compute; reflexivity).
  assert (R31 : - 2 ^ 31 <= -324 < 2 ^ 31) by (split; [apply Z.leb_le|apply Z.ltb_lt]; vm_compute; reflexivity).
  pose proof (bellerophon_declined_estimate F64 checked_build 1062871587088380183 (-324) true bell_ok_F64
                ltac:(lia) R31 (fun _ => proj1 (trunc_ok_19_digits _ R)) _ E ltac:(vm_compute; reflexivity))
    as (_ & _ & _ & H).
  cbv zeta in H. cbn [mant exp] in H.
  replace (-5 + INVALID_FP F64 - INVALID_FP F64) with (-5) in H by lia.
  exact (H v Hv).
Qed.

Print Assumptions bellerophon_declined_inv.
Print Assumptions bellerophon_declined_nonzero.
Print Assumptions bellerophon_declined_estimate.
