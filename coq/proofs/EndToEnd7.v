(** * EndToEnd7: the end-to-end properties as corollaries of [parse_float_correct].
    Domain: [valid_inputb] (ASCII digits, integer part without leading zero, any i32 exponent) and at
    most 2^28 digits.  [deep_ok] is the one residual premise, needed only for the non-compact
    (Eisel-Lemire) configurations: the declined estimate never has a biased exponent below -64
    (see proofs/EndToEnd4.v, proofs/DeepFallback*.v).  For the four compact configurations every
    statement below is unconditional. *)
From Coq Require Import ZArith QArith Qabs List Bool Lia.
From ML Require Import base.RustSem model.Fmt model.Num model.Number model.Parse model.Top
  spec.Decimal spec.Round spec.RoundFacts spec.DigitsSuffice gen.Consts gen.Tables gen.BTables gen.PowDump
  proofs.ParseFacts proofs.EndToEnd proofs.EndToEnd4 proofs.EndToEnd6.
Import ListNotations.
Open Scope Z_scope.

Definition in_domain (i fr : list Z) (e : Z) : Prop :=
  valid_inputb i fr e = true /\ zlen i + zlen fr <= 2 ^ 28.

Definition deep_ok (c : config) (f : format) (b : build) (i fr : list Z) (e : Z) : Prop :=
  compact c = false -> no_deep_fallback_at f b (parse_spec i fr e).

Lemma deep_ok_compact : forall c f b i fr e, compact c = true -> deep_ok c f b i fr e.
Proof. intros c f b i fr e H H'. rewrite H in H'. discriminate. Qed.

Notation PF c f b i fr e := (parse_float c TABLES BTABLES LIMITS f b i fr e).

(** C01 / C02: correctly rounded, for f64 and f32 *)
Theorem C01_f64_correctly_rounded : forall c b i fr e, In c ALL_CONFIGS -> in_domain i fr e ->
  deep_ok c F64 b i fr e -> PF c F64 b i fr e = Ok (RN F64 (dec_value i fr e)).
Proof. intros c b i fr e Hc [V L] D. apply parse_float_correct; auto. Qed.

Theorem C02_f32_correctly_rounded : forall c b i fr e, In c ALL_CONFIGS -> in_domain i fr e ->
  deep_ok c F32 b i fr e -> PF c F32 b i fr e = Ok (RN F32 (dec_value i fr e)).
Proof. intros c b i fr e Hc [V L] D. apply parse_float_correct; auto. Qed.

(** never NaN, never negative *)
Theorem result_in_range : forall c f b i fr e r, In c ALL_CONFIGS -> f = F32 \/ f = F64 ->
  in_domain i fr e -> deep_ok c f b i fr e -> PF c f b i fr e = Ok r ->
  0 <= r <= RoundFacts.inf_bits f.
Proof.
  intros c f b i fr e r Hc Hf [V L] D P. rewrite (parse_float_correct c f b i fr e Hc Hf V L D) in P.
  injection P as <-.
  assert (Hs : sfmt_ok f = true) by (destruct Hf; subst; [exact sfmt_ok_F32|exact sfmt_ok_F64]).
  apply (RN_range f Hs). apply dec_value_nonneg; exact V.
Qed.

(** C04: valid input never panics, in release and checked builds *)
Theorem C04_no_panic : forall c f b i fr e, In c ALL_CONFIGS -> f = F32 \/ f = F64 ->
  in_domain i fr e -> deep_ok c f b i fr e -> exists bits, PF c f b i fr e = Ok bits.
Proof. intros c f b i fr e Hc Hf [V L] D. eexists. apply parse_float_correct; eauto. Qed.

(** C05: all configurations and build modes agree *)
Theorem C05_config_independent : forall c1 c2 f b1 b2 i fr e, In c1 ALL_CONFIGS -> In c2 ALL_CONFIGS ->
  f = F32 \/ f = F64 -> in_domain i fr e -> deep_ok c1 f b1 i fr e -> deep_ok c2 f b2 i fr e ->
  PF c1 f b1 i fr e = PF c2 f b2 i fr e.
Proof.
  intros c1 c2 f b1 b2 i fr e H1 H2 Hf [V L] D1 D2.
  rewrite (parse_float_correct c1 f b1 i fr e H1 Hf V L D1), (parse_float_correct c2 f b2 i fr e H2 Hf V L D2).
  reflexivity.
Qed.

(** C09: monotone in the decimal value *)
Theorem C09_monotone : forall c f b i1 f1 e1 i2 f2 e2 r1 r2, In c ALL_CONFIGS -> f = F32 \/ f = F64 ->
  in_domain i1 f1 e1 -> in_domain i2 f2 e2 -> deep_ok c f b i1 f1 e1 -> deep_ok c f b i2 f2 e2 ->
  (dec_value i1 f1 e1 <= dec_value i2 f2 e2)%Q ->
  PF c f b i1 f1 e1 = Ok r1 -> PF c f b i2 f2 e2 = Ok r2 -> r1 <= r2.
Proof.
  intros c f b i1 f1 e1 i2 f2 e2 r1 r2 Hc Hf [V1 L1] [V2 L2] D1 D2 Hle P1 P2.
  rewrite (parse_float_correct c f b i1 f1 e1 Hc Hf V1 L1 D1) in P1.
  rewrite (parse_float_correct c f b i2 f2 e2 Hc Hf V2 L2 D2) in P2.
  injection P1 as <-. injection P2 as <-.
  assert (Hs : sfmt_ok f = true) by (destruct Hf; subst; [exact sfmt_ok_F32|exact sfmt_ok_F64]).
  apply (RN_monotone f Hs); [apply dec_value_nonneg; exact V1|exact Hle].
Qed.

(** C10: equal values, identical bits *)
Theorem C10_value_invariant : forall c f b i1 f1 e1 i2 f2 e2, In c ALL_CONFIGS -> f = F32 \/ f = F64 ->
  in_domain i1 f1 e1 -> in_domain i2 f2 e2 -> deep_ok c f b i1 f1 e1 -> deep_ok c f b i2 f2 e2 ->
  (dec_value i1 f1 e1 == dec_value i2 f2 e2)%Q ->
  PF c f b i1 f1 e1 = PF c f b i2 f2 e2.
Proof.
  intros c f b i1 f1 e1 i2 f2 e2 Hc Hf [V1 L1] [V2 L2] D1 D2 Heq.
  rewrite (parse_float_correct c f b i1 f1 e1 Hc Hf V1 L1 D1), (parse_float_correct c f b i2 f2 e2 Hc Hf V2 L2 D2).
  f_equal. assert (Hs : sfmt_ok f = true) by (destruct Hf; subst; [exact sfmt_ok_F32|exact sfmt_ok_F64]).
  apply (RN_Qeq f Hs); [apply dec_value_nonneg; exact V1|exact Heq].
Qed.

(** C03: round trips.  (a) any rendering whose value is exactly x; (b) any decimal within half a
    unit of the 17th / 9th significant digit of x *)
Theorem C03_roundtrip_exact : forall c f b i fr e x, In c ALL_CONFIGS -> f = F32 \/ f = F64 ->
  in_domain i fr e -> deep_ok c f b i fr e ->
  0 <= x < RoundFacts.inf_bits f -> (dec_value i fr e == value_Q f x)%Q ->
  PF c f b i fr e = Ok x.
Proof.
  intros c f b i fr e x Hc Hf [V L] D Hx Heq.
  rewrite (parse_float_correct c f b i fr e Hc Hf V L D). f_equal.
  assert (Hs : sfmt_ok f = true) by (destruct Hf; subst; [exact sfmt_ok_F32|exact sfmt_ok_F64]).
  rewrite (RN_Qeq f Hs _ _ (dec_value_nonneg _ _ _ V) Heq). apply (RN_fixpoint f Hs); exact Hx.
Qed.

Theorem C03_roundtrip_17_digits : forall c b i fr e x e10, In c ALL_CONFIGS ->
  in_domain i fr e -> deep_ok c F64 b i fr e -> 0 < x < RoundFacts.inf_bits F64 ->
  (pow10Q e10 <= value_Q F64 x)%Q ->
  (Qabs (dec_value i fr e - value_Q F64 x) <= pow10Q (e10 - 17 + 1) * (1 # 2))%Q ->
  PF c F64 b i fr e = Ok x.
Proof.
  intros c b i fr e x e10 Hc [V L] D Hx H10 Hd.
  rewrite (parse_float_correct c F64 b i fr e Hc (or_intror eq_refl) V L D). f_equal.
  exact (digits_suffice_F64 x e10 (dec_value i fr e) Hx H10 Hd).
Qed.

Theorem C03_roundtrip_9_digits : forall c b i fr e x e10, In c ALL_CONFIGS ->
  in_domain i fr e -> deep_ok c F32 b i fr e -> 0 < x < RoundFacts.inf_bits F32 ->
  (pow10Q e10 <= value_Q F32 x)%Q ->
  (Qabs (dec_value i fr e - value_Q F32 x) <= pow10Q (e10 - 9 + 1) * (1 # 2))%Q ->
  PF c F32 b i fr e = Ok x.
Proof.
  intros c b i fr e x e10 Hc [V L] D Hx H10 Hd.
  rewrite (parse_float_correct c F32 b i fr e Hc (or_introl eq_refl) V L D). f_equal.
  exact (digits_suffice_F32 x e10 (dec_value i fr e) Hx H10 Hd).
Qed.

(** C07: the range ends *)
Theorem C07_overflow_underflow : forall c f b i fr e, In c ALL_CONFIGS -> f = F32 \/ f = F64 ->
  in_domain i fr e -> deep_ok c f b i fr e ->
  ((overflow_thresholdQ f <= dec_value i fr e)%Q -> PF c f b i fr e = Ok (RoundFacts.inf_bits f)) /\
  ((dec_value i fr e <= underflow_thresholdQ f)%Q -> PF c f b i fr e = Ok 0) /\
  (digits_to_Z (i ++ fr) = 0 -> PF c f b i fr e = Ok 0).
Proof.
  intros c f b i fr e Hc Hf [V L] D.
  assert (Hs : sfmt_ok f = true) by (destruct Hf; subst; [exact sfmt_ok_F32|exact sfmt_ok_F64]).
  rewrite (parse_float_correct c f b i fr e Hc Hf V L D). repeat split; intros H; f_equal.
  - apply (overflow_threshold f Hs); exact H.
  - apply (underflow_threshold f Hs); [apply dec_value_nonneg; exact V|exact H].
  - apply RN_zero_digits; assumption.
Qed.
