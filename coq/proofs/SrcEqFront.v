(** * gen/SrcFront{Simple,Etc,Fuzz,Test}.v = model/FrontEnd.v
    (examples/simple.rs, etc/correctness/test-parse-golang/main.rs, fuzz/fuzz_targets/parse.rs,
     tests/integration_tests.rs: the four shipped copies of the string front-end)

    The Gallina text that tools/rs2coq generates from the four copies of the front-end is equal to
    the hand-written model, for every build mode [b] and every list of integers [s] (the "bytes" need
    not even be in [0, 256): every operation on them - comparison with a literal, `to_digit`, xor -
    is the same total function of Z on both sides).

    Helper functions (tag = simple | etc | fuzz | test; proved for [simple], the other three tags are
    convertible to it, lemmas [rs_etc_*_same], [rs_fuzz_*_same], [rs_test_*_same], all closed by
    [reflexivity]):

      rs_simple_parse_sign_eq      rs_simple_parse_sign b s = Ok (parse_sign s)
      rs_simple_to_digit_eq        rs_simple_to_digit b c = Ok (if is_digit c then Some (c - 48) else None)
      rs_simple_is_digit_eq        rs_simple_is_digit b c = Ok (is_digit c)
      rs_simple_split_at_index_eq  0 <= n <= zlen s -> rs_simple_split_at_index b s n = Ok (firstn n s, skipn n s)
      rs_simple_consume_digits_eq  zlen s < 2^64 -> rs_simple_consume_digits b s = Ok (consume_digits s)
      rs_simple_ltrim_zero_eq      rs_simple_ltrim_zero b s = Ok (ltrim_zero s)
      rs_simple_rtrim_zero_eq      zlen s < 2^64 -> rs_simple_rtrim_zero b s = Ok (rtrim_zero s)
      rs_simple_parse_exponent_eq  Forall digit l -> rs_simple_parse_exponent b l pos = Ok (parse_exponent l pos)
      rs_fuzz_case_insensitive_starts_with_eq
                                   rs_fuzz_case_insensitive_starts_with b x y = Ok (ci_starts_with x y)

    Main theorems.  [pf_eq_at c T BT L f b s] is the library equality at the one triple of arguments
    that the front-end passes ([x := lex s], proofs/FrontEndFacts.v):
        rs_parse_float c T BT L f b (ltrim_zero (lx_int x)) (rtrim_zero (lx_frac x)) (lx_exp x)
          = parse_float c T BT L f b (ltrim_zero (lx_int x)) (rtrim_zero (lx_frac x)) (lx_exp x)

      rs_simple_parse_float_eq, rs_etc_parse_float_eq :
        zlen s < 2^64 -> pf_eq_at c T BT L f b s ->
        rs_<tag>_parse_float c T BT L f b s = fe_simple c T BT L f b s
      rs_fuzz_parse_float_eq, rs_test_parse_float_eq : the same with fe_fuzz.

      pf_eq_at_digits : the premise follows from the library equality on digit strings [i], [fr] with
        [zlen i + zlen fr <= zlen s] and an i32 exponent;  pf_eq_at_all : ... from the equality for all
        arguments;  rs_<tag>_parse_float_eq_all : the four theorems under
        [forall i fr e, rs_parse_float c T BT L f b i fr e = parse_float c T BT L f b i fr e].
      Module Battery: both sides evaluated on ~65 byte strings x {F32, F64} x {release, checked}.

    Hypotheses, and why.
    - [zlen s < 2^64]: `index += 1` (usize, consume_digits) and `bytes.len() - count` (usize,
      rtrim_zero) are exact iff the length is a usize.  Real slices have fewer than 2^63 bytes.
      With 2^64 digits or more the source panics (checked build) / wraps (release build) where the
      model goes on; no counterexample can be *evaluated* (it needs a list of 2^64 elements).
    - No hypothesis on the format: `from_bits`, `u64_shr`, the masks are the same text on both sides.
    - parse_exponent: `to_digit( *c).unwrap()` panics on a non-digit where the model computes
      [ch - 48]: see [parse_exponent_nondigit_differs].  Not reachable from parse_float: the exponent
      digits come from consume_digits ([consume_digits_spec]). *)
From Coq Require Import ZArith List Bool Lia Znumtheory.
From Coq Require String Ascii.
From Coq Require Import ZifyBool.
From ML Require Import base.RustSem model.Fmt model.FloatOps model.Num model.Number model.Vec
  model.SrcLib model.SrcLibFront model.Top model.FrontEnd
  gen.Consts gen.Tables gen.BTables gen.PowDump gen.SrcParse
  gen.SrcFrontSimple gen.SrcFrontEtc gen.SrcFrontFuzz gen.SrcFrontTest.
From ML Require Import proofs.SrcEqBase proofs.FrontEndFacts.
Import ListNotations.
Open Scope Z_scope.
Open Scope rust_scope.
Arguments Z.pow : simpl never.

(** ** small facts about lists and slices *)
Lemma zlen_cons {A} (x : A) l : zlen (x :: l) = zlen l + 1.
Proof. unfold zlen. cbn [length]. lia. Qed.
Lemma zlen_nil {A} : zlen (@nil A) = 0.
Proof. reflexivity. Qed.
Lemma zlen_ge0 {A} (l : list A) : 0 <= zlen l.
Proof. unfold zlen. lia. Qed.

Lemma slice_from_ok l n : 0 <= n <= zlen l -> slice_from l n = Ok (skipn (Z.to_nat n) l).
Proof. intros H. unfold slice_from. replace ((0 <=? n) && (n <=? zlen l)) with true by lia. reflexivity. Qed.
Lemma slice_to_ok l n : 0 <= n <= zlen l -> slice_to l n = Ok (firstn (Z.to_nat n) l).
Proof. intros H. unfold slice_to. replace ((0 <=? n) && (n <=? zlen l)) with true by lia. reflexivity. Qed.
Lemma slice_from_cons c r : slice_from (c :: r) 1 = Ok r.
Proof. rewrite slice_from_ok; [reflexivity|]. rewrite zlen_cons. pose proof (zlen_ge0 r). lia. Qed.
Lemma slice_to_0 l : slice_to l 0 = Ok [].
Proof. rewrite slice_to_ok; [reflexivity|]. pose proof (zlen_ge0 l). lia. Qed.
Lemma slice_get_opt_0 c r : slice_get_opt (c :: r) 0 = Some c.
Proof.
  unfold slice_get_opt. rewrite zlen_cons. pose proof (zlen_ge0 r).
  replace ((0 <=? 0) && (0 <? zlen r + 1)) with true by lia. reflexivity.
Qed.
Lemma slice_get_mid pre c r : slice_get (pre ++ c :: r) (zlen pre) = Ok c.
Proof.
  unfold slice_get, slice_get_opt. rewrite FrontEndFacts.zlen_app, zlen_cons.
  pose proof (zlen_ge0 pre). pose proof (zlen_ge0 r).
  replace ((0 <=? zlen pre) && (zlen pre <? zlen pre + (zlen r + 1))) with true by lia.
  unfold zlen. rewrite Nat2Z.id, app_nth2, Nat.sub_diag by lia. reflexivity.
Qed.

(** the generated code matches byte literals ([Some 43 => ..]) like the model: nested matches on
    binary positives.  Restated with [=?]. *)
Ltac byte_cases c :=
  destruct c as [|?p|?p]; try reflexivity;
  do 8 (try (match goal with p : positive |- _ => destruct p as [p|p|]; try reflexivity end)).

Lemma is_some_43 o : (match o with Some 43 => true | _ => false end) = match o with Some c => c =? 43 | None => false end.
Proof. destruct o as [c|]; [|reflexivity]. byte_cases c. Qed.
Lemma is_some_45 o : (match o with Some 45 => true | _ => false end) = match o with Some c => c =? 45 | None => false end.
Proof. destruct o as [c|]; [|reflexivity]. byte_cases c. Qed.
Lemma is_some_46 o : (match o with Some 46 => true | _ => false end) = match o with Some c => c =? 46 | None => false end.
Proof. destruct o as [c|]; [|reflexivity]. byte_cases c. Qed.
Lemma is_some_101 o : (match o with Some 101 => true | _ => false end) = match o with Some c => c =? 101 | None => false end.
Proof. destruct o as [c|]; [|reflexivity]. byte_cases c. Qed.
Lemma is_some_69 o : (match o with Some 69 => true | _ => false end) = match o with Some c => c =? 69 | None => false end.
Proof. destruct o as [c|]; [|reflexivity]. byte_cases c. Qed.

(** ** parse_sign *)
Theorem rs_simple_parse_sign_eq : forall b s, rs_simple_parse_sign b s = Ok (parse_sign s).
Proof.
  intros b s. unfold rs_simple_parse_sign. cbv zeta. rewrite parse_sign_eq.
  rewrite is_some_43, is_some_45.
  destruct s as [|c r]; [reflexivity|].
  rewrite slice_get_opt_0, slice_from_cons.
  destruct (c =? 43); [reflexivity|]. destruct (c =? 45); reflexivity.
Qed.

(** ** to_digit, is_digit *)
Theorem rs_simple_to_digit_eq : forall b c,
  rs_simple_to_digit b c = Ok (if is_digit c then Some (c - 48) else None).
Proof. reflexivity. Qed.

Theorem rs_simple_is_digit_eq : forall b c, rs_simple_is_digit b c = Ok (is_digit c).
Proof.
  intros b c. unfold rs_simple_is_digit, rs_simple_to_digit, u8_to_digit10, is_digit. cbn [bind].
  destruct ((48 <=? c) && (c <=? 57)); reflexivity.
Qed.

(** ** split_at_index, consume_digits *)
Theorem rs_simple_split_at_index_eq : forall b s n, 0 <= n <= zlen s ->
  rs_simple_split_at_index b s n = Ok (firstn (Z.to_nat n) s, skipn (Z.to_nat n) s).
Proof.
  intros b s n H. unfold rs_simple_split_at_index.
  rewrite slice_to_ok, slice_from_ok by exact H. reflexivity.
Qed.

(** out of range the source panics (`&digits[..index]`) *)
Example rs_simple_split_at_index_oob :
  rs_simple_split_at_index checked_build [49; 50] 3 = Panic PkIndex /\
  rs_simple_split_at_index release_build [49; 50] 3 = Panic PkIndex.
Proof. split; reflexivity. Qed.

Lemma consume_digits_fst_len : forall s, zlen (fst (consume_digits s)) <= zlen s.
Proof.
  intros s. destruct (consume_digits s) as [d r] eqn:E.
  destruct (consume_digits_spec _ _ _ E) as (-> & _ & _). cbn [fst].
  rewrite FrontEndFacts.zlen_app. pose proof (zlen_ge0 r). lia.
Qed.

(** the index loop: from index [zlen pre] (everything before is consumed) the loop stops at the
    first non-digit of [l] *)
Lemma cd_loop b : forall l pre fuel,
  (length l < fuel)%nat -> zlen (pre ++ l) < 2 ^ 64 ->
  rs_loop (St := Z) (R := Empty_set) fuel (fun v_index =>
        t3 <- (if (v_index <? (zlen (pre ++ l))) then (
            t1 <- slice_get (pre ++ l) v_index ;;
            t2 <- rs_simple_is_digit b t1 ;;
            let t3 := t2 in
            Ok t3
        ) else (
            let t3 := false in
            Ok t3
        )) ;;
        if t3 then (
            t4 <- usize_add b v_index 1 ;;
            let v_index := t4 in
            Ok (Next v_index)
        ) else (
            Ok (Break v_index)
        ))
      (zlen pre)
  = Ok (inl (zlen pre + zlen (fst (consume_digits l)))).
Proof.
  induction l as [|c r IH]; intros pre fuel Hf Hl.
  - destruct fuel as [|fuel]; [inversion Hf|]. cbn [rs_loop]. rewrite app_nil_r, Z.ltb_irrefl.
    cbv zeta. cbn [bind consume_digits fst]. rewrite zlen_nil, Z.add_0_r. reflexivity.
  - destruct fuel as [|fuel]; [inversion Hf|]. cbn [length] in Hf. cbn [rs_loop].
    pose proof (zlen_ge0 pre) as Hp. pose proof (zlen_ge0 r) as Hr.
    assert (Hlen : zlen (pre ++ c :: r) = zlen pre + zlen r + 1)
      by (rewrite FrontEndFacts.zlen_app, zlen_cons; lia).
    replace (zlen pre <? zlen (pre ++ c :: r)) with true by lia.
    rewrite slice_get_mid. cbn [bind]. rewrite rs_simple_is_digit_eq. cbv zeta. cbn [bind consume_digits].
    destruct (is_digit c).
    + rewrite usize_add_ok by (unfold u64_ok; lia). cbn [bind].
      replace (zlen pre + 1) with (zlen (pre ++ [c])) by (rewrite FrontEndFacts.zlen_app; reflexivity).
      replace (pre ++ c :: r) with ((pre ++ [c]) ++ r) in * by (rewrite <- app_assoc; reflexivity).
      rewrite IH by (assumption || lia).
      destruct (consume_digits r) as [d rest]. cbn [fst]. rewrite zlen_cons, (FrontEndFacts.zlen_app pre).
      do 2 f_equal. change (zlen [c]) with 1. lia.
    + cbn [fst]. rewrite zlen_nil, Z.add_0_r. reflexivity.
Qed.

Theorem rs_simple_consume_digits_eq : forall b s, zlen s < 2 ^ 64 ->
  rs_simple_consume_digits b s = Ok (consume_digits s).
Proof.
  intros b s H. unfold rs_simple_consume_digits.
  assert (HL := cd_loop b s [] (S (length s)) (Nat.lt_succ_diag_r _) H).
  cbn [app] in HL. change (zlen (@nil Z)) with 0 in HL. rewrite Z.add_0_l in HL.
  cbv zeta in HL |- *. rewrite HL.
  cbn [bind no_return].
  pose proof (consume_digits_fst_len s). pose proof (zlen_ge0 (fst (consume_digits s))).
  rewrite rs_simple_split_at_index_eq by lia. cbn [bind]. f_equal.
  destruct (consume_digits s) as [d r] eqn:E.
  destruct (consume_digits_spec _ _ _ E) as (-> & _ & _). cbn [fst].
  unfold zlen. rewrite Nat2Z.id.
  rewrite firstn_app, skipn_app, Nat.sub_diag, firstn_all, skipn_all. cbn [firstn skipn app].
  rewrite app_nil_r. reflexivity.
Qed.

(** ** ltrim_zero, rtrim_zero *)
Lemma twc_range p : forall l, 0 <= take_while_count p l <= zlen l.
Proof.
  induction l as [|x r IH]; cbn [take_while_count]; [unfold zlen; cbn [length]; lia|].
  rewrite zlen_cons. destruct (p x); lia.
Qed.

Lemma skipn_twc : forall l,
  skipn (Z.to_nat (take_while_count (fun v_si => v_si =? 48) l)) l = ltrim_zero l.
Proof.
  induction l as [|x r IH]; [reflexivity|].
  rewrite ltrim_zero_cons. cbn [take_while_count].
  pose proof (twc_range (fun v_si => v_si =? 48) r).
  destruct (x =? 48); [|reflexivity].
  replace (Z.to_nat (1 + take_while_count (fun v_si => v_si =? 48) r))
    with (S (Z.to_nat (take_while_count (fun v_si => v_si =? 48) r))) by lia.
  cbn [skipn]. exact IH.
Qed.

Theorem rs_simple_ltrim_zero_eq : forall b s, rs_simple_ltrim_zero b s = Ok (ltrim_zero s).
Proof.
  intros b s. unfold rs_simple_ltrim_zero. cbv zeta.
  rewrite slice_from_ok by apply twc_range. cbn [bind]. rewrite skipn_twc. reflexivity.
Qed.

Theorem rs_simple_rtrim_zero_eq : forall b s, zlen s < 2 ^ 64 ->
  rs_simple_rtrim_zero b s = Ok (rtrim_zero s).
Proof.
  intros b s H. unfold rs_simple_rtrim_zero, rtrim_zero. cbv zeta.
  pose proof (twc_range (fun v_si => v_si =? 48) (rev s)) as Hc.
  assert (Hr : zlen (rev s) = zlen s) by (unfold zlen; rewrite rev_length; reflexivity).
  rewrite Hr in Hc. unfold usize_sub. rewrite uop_ok by (apply in_u_n; lia). cbn [bind].
  rewrite slice_to_ok by lia. cbn [bind]. f_equal.
  rewrite <- skipn_twc, skipn_rev, rev_involutive. f_equal. unfold zlen in *. lia.
Qed.

(** ** parse_exponent *)
Lemma digit_to_digit c : digit c -> u8_to_digit10 c = Some (c - 48).
Proof. unfold digit, u8_to_digit10. intros H. replace ((48 <=? c) && (c <=? 57)) with true by lia. reflexivity. Qed.
Lemma digit_as_i32 c : digit c -> as_i32 (c - 48) = c - 48.
Proof. unfold digit. intros H. apply as_i32_small. unfold i32_ok. rewrite pow2_31. lia. Qed.

Definition loop_val (x : (Z * list Z) + Z) : Z := match x with inl (s, _) => s | inr r => r end.

Lemma pe_for_pos b : forall l v, Forall digit l -> exists x,
  rs_for_iter (St := Z) l (fun v_value v_c =>
            t1 <- rs_simple_to_digit b v_c ;;
            t2 <- unwrap t1 ;;
            t3 <- rs_simple_add_digit_i32 b v_value t2 ;;
            match t3 with Some v_v => (
                let t4 := v_v in
                let v_value := t4 in
                Ok (Next v_value)
            ) | None => (
                Ok (Return 2147483647)
            ) end) v = Ok x /\ loop_val x = pe_loop true l v.
Proof.
  induction l as [|c r IH]; intros v H.
  - eexists. split; reflexivity.
  - inversion H as [|? ? Hc Hr]; subst. cbn [rs_for_iter pe_loop]. cbv zeta.
    unfold rs_simple_to_digit, rs_simple_add_digit_i32. rewrite (digit_to_digit c Hc). cbn [bind unwrap].
    rewrite (digit_as_i32 c Hc).
    destruct (i32_checked_mul v 10) as [t|]; cbn [bind].
    + destruct (i32_checked_add t (c - 48)) as [v'|]; cbn [bind].
      * apply IH. exact Hr.
      * eexists. split; reflexivity.
    + eexists. split; reflexivity.
Qed.

Lemma pe_for_neg b : forall l v, Forall digit l -> exists x,
  rs_for_iter (St := Z) l (fun v_value v_c =>
            t6 <- rs_simple_to_digit b v_c ;;
            t7 <- unwrap t6 ;;
            t8 <- rs_simple_sub_digit_i32 b v_value t7 ;;
            match t8 with Some v_v => (
                let t9 := v_v in
                let v_value := t9 in
                Ok (Next v_value)
            ) | None => (
                Ok (Return (-2147483648))
            ) end) v = Ok x /\ loop_val x = pe_loop false l v.
Proof.
  induction l as [|c r IH]; intros v H.
  - eexists. split; reflexivity.
  - inversion H as [|? ? Hc Hr]; subst. cbn [rs_for_iter pe_loop]. cbv zeta.
    unfold rs_simple_to_digit, rs_simple_sub_digit_i32. rewrite (digit_to_digit c Hc). cbn [bind unwrap].
    rewrite (digit_as_i32 c Hc).
    destruct (i32_checked_mul v 10) as [t|]; cbn [bind].
    + destruct (i32_checked_sub t (c - 48)) as [v'|]; cbn [bind].
      * apply IH. exact Hr.
      * eexists. split; reflexivity.
    + eexists. split; reflexivity.
Qed.

Theorem rs_simple_parse_exponent_eq : forall b l pos, Forall digit l ->
  rs_simple_parse_exponent b l pos = Ok (parse_exponent l pos).
Proof.
  intros b l pos H. unfold rs_simple_parse_exponent, parse_exponent, rs_for. cbv zeta.
  destruct pos.
  - destruct (pe_for_pos b l 0 H) as (x & Hx & <-). cbv zeta in Hx. rewrite Hx. cbn [bind].
    destruct x as [[s ?]|r]; reflexivity.
  - destruct (pe_for_neg b l 0 H) as (x & Hx & <-). cbv zeta in Hx. rewrite Hx. cbn [bind].
    destruct x as [[s ?]|r]; reflexivity.
Qed.

(** FINDING (unreachable from parse_float): on a non-digit `to_digit( *c).unwrap()` panics, in both
    build modes, where the model computes with [ch - 48] *)
Example parse_exponent_nondigit_differs :
  rs_simple_parse_exponent checked_build [49; 47] true = Panic PkUnwrap /\
  rs_simple_parse_exponent release_build [49; 47] true = Panic PkUnwrap /\
  rs_simple_parse_exponent release_build [58] false = Panic PkUnwrap /\
  parse_exponent [49; 47] true = 9 /\ parse_exponent [58] false = -10.
Proof. vm_compute. auto 6. Qed.

(** ** case_insensitive_starts_with *)
Lemma ci_loop : forall y x fuel, (length y < fuel)%nat ->
  rs_loop (St := ((list Z) * (list Z))) (R := bool) fuel (fun '(v_x, v_y) =>
        let '(t1, v_y) := iter_next v_y in
        let v_yi := t1 in
        if (match v_yi with Some _ => false | None => true end) then (
            Ok (Return true)
        ) else (
            t2 <- unwrap v_yi ;;
            let v_yi := t2 in
            let '(t3, v_x) := iter_next v_x in
            let v_is_not_equal := (match t3 with Some v_xi => (let v_xor := (Z.lxor v_xi v_yi) in ((negb (v_xor =? 0)) && (negb (v_xor =? 32)))) | None => true end) in
            if v_is_not_equal then (
                Ok (Return false)
            ) else (
                Ok (Next (v_x, v_y))
            )
        ))
      (x, y) = Ok (inr (ci_starts_with x y)).
Proof.
  induction y as [|yi y IH]; intros x fuel Hf; (destruct fuel as [|fuel]; [inversion Hf|]).
  - destruct x; reflexivity.
  - cbn [length] in Hf. cbn [rs_loop iter_next unwrap bind ci_starts_with]. cbv zeta.
    destruct x as [|xi x]; [reflexivity|]. cbn [iter_next ci_starts_with]. cbv zeta.
    destruct (negb (Z.lxor xi yi =? 0) && negb (Z.lxor xi yi =? 32)); [reflexivity|].
    cbn [bind]. apply IH. lia.
Qed.

Theorem rs_fuzz_case_insensitive_starts_with_eq : forall b x y,
  rs_fuzz_case_insensitive_starts_with b x y = Ok (ci_starts_with x y).
Proof.
  intros b x y. unfold rs_fuzz_case_insensitive_starts_with.
  match goal with |- bind ?m _ = _ =>
    rewrite (ci_loop y x (S (length y)) (Nat.lt_succ_diag_r _) : m = _) end.
  reflexivity.
Qed.

(** ** the other three copies: the same text up to the names of the functions *)
Lemma rs_etc_parse_sign_same : rs_etc_parse_sign = rs_simple_parse_sign. Proof. reflexivity. Qed.
Lemma rs_etc_to_digit_same : rs_etc_to_digit = rs_simple_to_digit. Proof. reflexivity. Qed.
Lemma rs_etc_add_digit_i32_same : rs_etc_add_digit_i32 = rs_simple_add_digit_i32. Proof. reflexivity. Qed.
Lemma rs_etc_sub_digit_i32_same : rs_etc_sub_digit_i32 = rs_simple_sub_digit_i32. Proof. reflexivity. Qed.
Lemma rs_etc_is_digit_same : rs_etc_is_digit = rs_simple_is_digit. Proof. reflexivity. Qed.
Lemma rs_etc_split_at_index_same : rs_etc_split_at_index = rs_simple_split_at_index. Proof. reflexivity. Qed.
Lemma rs_etc_consume_digits_same : rs_etc_consume_digits = rs_simple_consume_digits. Proof. reflexivity. Qed.
Lemma rs_etc_ltrim_zero_same : rs_etc_ltrim_zero = rs_simple_ltrim_zero. Proof. reflexivity. Qed.
Lemma rs_etc_rtrim_zero_same : rs_etc_rtrim_zero = rs_simple_rtrim_zero. Proof. reflexivity. Qed.
Lemma rs_etc_parse_exponent_same : rs_etc_parse_exponent = rs_simple_parse_exponent. Proof. reflexivity. Qed.
Lemma rs_etc_parse_float_same : rs_etc_parse_float = rs_simple_parse_float. Proof. reflexivity. Qed.

Lemma rs_fuzz_parse_sign_same : rs_fuzz_parse_sign = rs_simple_parse_sign. Proof. reflexivity. Qed.
Lemma rs_fuzz_to_digit_same : rs_fuzz_to_digit = rs_simple_to_digit. Proof. reflexivity. Qed.
Lemma rs_fuzz_add_digit_i32_same : rs_fuzz_add_digit_i32 = rs_simple_add_digit_i32. Proof. reflexivity. Qed.
Lemma rs_fuzz_sub_digit_i32_same : rs_fuzz_sub_digit_i32 = rs_simple_sub_digit_i32. Proof. reflexivity. Qed.
Lemma rs_fuzz_is_digit_same : rs_fuzz_is_digit = rs_simple_is_digit. Proof. reflexivity. Qed.
Lemma rs_fuzz_split_at_index_same : rs_fuzz_split_at_index = rs_simple_split_at_index. Proof. reflexivity. Qed.
Lemma rs_fuzz_consume_digits_same : rs_fuzz_consume_digits = rs_simple_consume_digits. Proof. reflexivity. Qed.
Lemma rs_fuzz_ltrim_zero_same : rs_fuzz_ltrim_zero = rs_simple_ltrim_zero. Proof. reflexivity. Qed.
Lemma rs_fuzz_rtrim_zero_same : rs_fuzz_rtrim_zero = rs_simple_rtrim_zero. Proof. reflexivity. Qed.
Lemma rs_fuzz_parse_exponent_same : rs_fuzz_parse_exponent = rs_simple_parse_exponent. Proof. reflexivity. Qed.

Lemma rs_test_parse_sign_same : rs_test_parse_sign = rs_simple_parse_sign. Proof. reflexivity. Qed.
Lemma rs_test_to_digit_same : rs_test_to_digit = rs_simple_to_digit. Proof. reflexivity. Qed.
Lemma rs_test_add_digit_i32_same : rs_test_add_digit_i32 = rs_simple_add_digit_i32. Proof. reflexivity. Qed.
Lemma rs_test_sub_digit_i32_same : rs_test_sub_digit_i32 = rs_simple_sub_digit_i32. Proof. reflexivity. Qed.
Lemma rs_test_is_digit_same : rs_test_is_digit = rs_simple_is_digit. Proof. reflexivity. Qed.
Lemma rs_test_split_at_index_same : rs_test_split_at_index = rs_simple_split_at_index. Proof. reflexivity. Qed.
Lemma rs_test_consume_digits_same : rs_test_consume_digits = rs_simple_consume_digits. Proof. reflexivity. Qed.
Lemma rs_test_ltrim_zero_same : rs_test_ltrim_zero = rs_simple_ltrim_zero. Proof. reflexivity. Qed.
Lemma rs_test_rtrim_zero_same : rs_test_rtrim_zero = rs_simple_rtrim_zero. Proof. reflexivity. Qed.
Lemma rs_test_parse_exponent_same : rs_test_parse_exponent = rs_simple_parse_exponent. Proof. reflexivity. Qed.
Lemma rs_test_case_insensitive_starts_with_same :
  rs_test_case_insensitive_starts_with = rs_fuzz_case_insensitive_starts_with. Proof. reflexivity. Qed.
Lemma rs_test_parse_float_same : rs_test_parse_float = rs_fuzz_parse_float. Proof. reflexivity. Qed.

(** ** lengths of the pieces *)
Lemma parse_sign_len : forall s p r, parse_sign s = (p, r) -> zlen r <= zlen s.
Proof.
  intros s p r H. destruct (parse_sign_spec _ _ _ H) as [(-> & _)|[(-> & _)|(-> & _)]];
    rewrite ?zlen_cons; lia.
Qed.
Lemma consume_digits_len : forall s d r, consume_digits s = (d, r) -> zlen d + zlen r = zlen s.
Proof.
  intros s d r H. destruct (consume_digits_spec _ _ _ H) as (-> & _ & _).
  rewrite FrontEndFacts.zlen_app. reflexivity.
Qed.
Lemma lex_frac_len : forall s2 frac s3, lex_frac s2 = (frac, s3) -> zlen frac + zlen s3 <= zlen s2.
Proof.
  intros s2 frac s3 H. rewrite lex_frac_eq in H. destruct s2 as [|x r].
  - inversion H. subst. change (zlen (@nil Z)) with 0. lia.
  - destruct (is_dot x).
    + apply consume_digits_len in H. rewrite zlen_cons. lia.
    + inversion H. subst. rewrite zlen_nil. lia.
Qed.

(** ** the two optional parts of parse_float (zeta-normal form of the generated text) *)
Lemma frac_block b s2 : zlen s2 < 2 ^ 64 ->
  (if (match hd_error s2 with Some 46 => true | _ => false end) then (
      t4 <- slice_from s2 1 ;;
      t5 <- rs_simple_consume_digits b t4 ;;
      Ok t5
   ) else (
      t6 <- slice_to s2 0 ;;
      Ok (t6, s2)
   )) = Ok (lex_frac s2).
Proof.
  intros H. rewrite lex_frac_eq, is_some_46. destruct s2 as [|x r]; cbn [hd_error].
  - rewrite slice_to_0. reflexivity.
  - unfold is_dot. destruct (x =? 46).
    + rewrite slice_from_cons. cbn [bind]. rewrite zlen_cons in H. pose proof (zlen_ge0 r).
      rewrite rs_simple_consume_digits_eq by lia. reflexivity.
    + rewrite slice_to_0. reflexivity.
Qed.

Lemma exp_block b s3 : zlen s3 < 2 ^ 64 ->
  (if ((match hd_error s3 with Some 101 => true | _ => false end) || (match hd_error s3 with Some 69 => true | _ => false end)) then (
      t9 <- slice_from s3 1 ;;
      t10 <- rs_simple_parse_sign b t9 ;;
      let '(v_is_positive', v_bytes') := t10 in
      t11 <- rs_simple_consume_digits b v_bytes' ;;
      let '(v_exponent, v_bytes') := t11 in
      t12 <- rs_simple_parse_exponent b v_exponent v_is_positive' ;;
      Ok (t12, v_bytes')
   ) else (
      Ok (0, s3)
   )) = Ok (lex_exp s3).
Proof.
  intros H. rewrite lex_exp_eq, is_some_101, is_some_69. destruct s3 as [|x r]; cbn [hd_error]; [reflexivity|].
  unfold is_emark. destruct ((x =? 101) || (x =? 69)); [|reflexivity].
  rewrite slice_from_cons. cbn [bind]. rewrite rs_simple_parse_sign_eq. cbn [bind].
  destruct (parse_sign r) as [epos r1] eqn:E1. apply parse_sign_len in E1.
  rewrite zlen_cons in H.
  rewrite rs_simple_consume_digits_eq by lia. cbn [bind].
  destruct (consume_digits r1) as [ed r2] eqn:E2.
  destruct (consume_digits_spec _ _ _ E2) as (_ & Hd & _).
  rewrite rs_simple_parse_exponent_eq by exact Hd. reflexivity.
Qed.

Lemma ci_len : forall y x, ci_starts_with x y = true -> zlen y <= zlen x.
Proof.
  intros y x H. apply ci_starts_with_spec in H. destruct H as (x1 & x2 & -> & Hl & _).
  rewrite FrontEndFacts.zlen_app. unfold zlen at 1 2. rewrite Hl. pose proof (zlen_ge0 x2). lia.
Qed.

(** ** parse_float *)
Section Main.
Variables (c : config) (T : tables) (BT : btables) (L : limits) (f : format) (b : build).

(** the premise: the library's parse_float at the arguments computed by the front-end *)
Definition pf_eq_at (s : list Z) : Prop :=
  let x := lex s in
  rs_parse_float c T BT L f b (ltrim_zero (lx_int x)) (rtrim_zero (lx_frac x)) (lx_exp x)
  = parse_float c T BT L f b (ltrim_zero (lx_int x)) (rtrim_zero (lx_frac x)) (lx_exp x).

Theorem rs_simple_parse_float_eq : forall s, zlen s < 2 ^ 64 -> pf_eq_at s ->
  rs_simple_parse_float c T BT L f b s = fe_simple c T BT L f b s.
Proof.
  intros s Hs. rewrite fe_simple_lex. unfold rs_simple_parse_float.
  unfold pf_eq_at, fe_numeric, lex. cbv zeta. cbn [andb].
  rewrite rs_simple_parse_sign_eq. cbn [bind].
  destruct (parse_sign s) as [pos s1] eqn:E1. apply parse_sign_len in E1.
  rewrite rs_simple_consume_digits_eq by lia. cbn [bind].
  destruct (consume_digits s1) as [int s2] eqn:E2. apply consume_digits_len in E2.
  pose proof (zlen_ge0 int).
  rewrite frac_block by lia. cbn [bind].
  destruct (lex_frac s2) as [frac s3] eqn:E3. apply lex_frac_len in E3.
  pose proof (zlen_ge0 frac). pose proof (zlen_ge0 s3).
  rewrite exp_block by lia. cbn [bind].
  destruct (lex_exp s3) as [e s4] eqn:E4. cbn [lx_int lx_frac lx_exp lx_rest lx_pos].
  intros Hpf.
  rewrite rs_simple_ltrim_zero_eq. cbn [bind].
  rewrite rs_simple_rtrim_zero_eq by lia. cbn [bind].
  rewrite Hpf.
  destruct (parse_float c T BT L f b (ltrim_zero int) (rtrim_zero frac) e); cbn [bind]; try reflexivity.
  destruct pos; reflexivity.
Qed.

Theorem rs_etc_parse_float_eq : forall s, zlen s < 2 ^ 64 -> pf_eq_at s ->
  rs_etc_parse_float c T BT L f b s = fe_simple c T BT L f b s.
Proof. rewrite rs_etc_parse_float_same. exact rs_simple_parse_float_eq. Qed.

Theorem rs_fuzz_parse_float_eq : forall s, zlen s < 2 ^ 64 -> pf_eq_at s ->
  rs_fuzz_parse_float c T BT L f b s = fe_fuzz c T BT L f b s.
Proof.
  intros s Hs. unfold fe_fuzz. rewrite fe_core_unfold. unfold rs_fuzz_parse_float.
  rewrite rs_fuzz_parse_sign_same, rs_fuzz_consume_digits_same, rs_fuzz_parse_exponent_same,
    rs_fuzz_ltrim_zero_same, rs_fuzz_rtrim_zero_same.
  unfold pf_eq_at, fe_numeric, lex, lit_nan, lit_infinity, lit_inf. cbv zeta. cbn [andb].
  rewrite rs_simple_parse_sign_eq. cbn [bind].
  destruct (parse_sign s) as [pos s1] eqn:E1. apply parse_sign_len in E1.
  rewrite !rs_fuzz_case_insensitive_starts_with_eq. cbn [bind].
  destruct (ci_starts_with s1 [78; 97; 78]) eqn:Enan.
  { intros _. apply ci_len in Enan. change (zlen [78; 97; 78]) with 3 in Enan.
    rewrite slice_from_ok by lia. change (Z.to_nat 3) with 3%nat.
    destruct (u64_shr b (HIDDEN_BIT_MASK f) 1) as [h| |]; cbn [bind]; try reflexivity.
    destruct (from_bits f b (Z.lor (EXPONENT_MASK f) h)) as [v| |]; cbn [bind]; try reflexivity.
    destruct pos; reflexivity. }
  destruct (ci_starts_with s1 [73; 110; 102; 105; 110; 105; 116; 121]) eqn:Einfinity.
  { intros _. apply ci_len in Einfinity.
    change (zlen [73; 110; 102; 105; 110; 105; 116; 121]) with 8 in Einfinity.
    rewrite slice_from_ok by lia. change (Z.to_nat 8) with 8%nat.
    destruct (from_bits f b (EXPONENT_MASK f)) as [v| |]; cbn [bind]; try reflexivity.
    destruct pos; reflexivity. }
  destruct (ci_starts_with s1 [105; 110; 102]) eqn:Einf.
  { intros _. apply ci_len in Einf. change (zlen [105; 110; 102]) with 3 in Einf.
    rewrite slice_from_ok by lia. change (Z.to_nat 3) with 3%nat.
    destruct (from_bits f b (EXPONENT_MASK f)) as [v| |]; cbn [bind]; try reflexivity.
    destruct pos; reflexivity. }
  rewrite rs_simple_consume_digits_eq by lia. cbn [bind].
  destruct (consume_digits s1) as [int s2] eqn:E2. apply consume_digits_len in E2.
  pose proof (zlen_ge0 int).
  rewrite frac_block by lia. cbn [bind].
  destruct (lex_frac s2) as [frac s3] eqn:E3. apply lex_frac_len in E3.
  pose proof (zlen_ge0 frac). pose proof (zlen_ge0 s3).
  rewrite exp_block by lia. cbn [bind].
  destruct (lex_exp s3) as [e s4] eqn:E4. cbn [lx_int lx_frac lx_exp lx_rest lx_pos].
  intros Hpf.
  destruct (zlen s4 =? zlen s); [reflexivity|].
  rewrite rs_simple_ltrim_zero_eq. cbn [bind].
  rewrite rs_simple_rtrim_zero_eq by lia. cbn [bind].
  rewrite Hpf.
  destruct (parse_float c T BT L f b (ltrim_zero int) (rtrim_zero frac) e); cbn [bind]; try reflexivity.
  destruct pos; reflexivity.
Qed.

Theorem rs_test_parse_float_eq : forall s, zlen s < 2 ^ 64 -> pf_eq_at s ->
  rs_test_parse_float c T BT L f b s = fe_fuzz c T BT L f b s.
Proof. rewrite rs_test_parse_float_same. exact rs_fuzz_parse_float_eq. Qed.
End Main.

(** ** ways to establish the premise *)

(** from the library equality on digit strings no longer than the input (what the front-end passes:
    [lex_int_digits], [lex_frac_digits], [lex_lengths], [lex_exp_in_i32]) *)
Lemma pf_eq_at_digits : forall c T BT L f b s,
  (forall i fr e, Forall digit i -> Forall digit fr -> zlen i + zlen fr <= zlen s -> in_s 32 e = true ->
     rs_parse_float c T BT L f b i fr e = parse_float c T BT L f b i fr e) ->
  pf_eq_at c T BT L f b s.
Proof.
  intros c T BT L f b s H. unfold pf_eq_at. cbv zeta. apply H.
  - apply ltrim_zero_Forall, lex_int_digits.
  - apply rtrim_zero_Forall, lex_frac_digits.
  - pose proof (lex_lengths s). pose proof (zlen_ge0 (lx_rest (lex s))).
    pose proof (ltrim_zero_zlen (lx_int (lex s))). pose proof (rtrim_zero_zlen (lx_frac (lex s))). lia.
  - apply lex_exp_in_i32.
Qed.

Lemma pf_eq_at_all : forall c T BT L f b s,
  (forall i fr e, rs_parse_float c T BT L f b i fr e = parse_float c T BT L f b i fr e) ->
  pf_eq_at c T BT L f b s.
Proof. intros. apply pf_eq_at_digits. auto. Qed.

(** ** the main theorems with the library equality as a plain premise *)
Section MainAll.
Variables (c : config) (T : tables) (BT : btables) (L : limits) (f : format) (b : build).
Hypothesis Hpf : forall i fr e, rs_parse_float c T BT L f b i fr e = parse_float c T BT L f b i fr e.

Corollary rs_simple_parse_float_eq_all : forall s, zlen s < 2 ^ 64 ->
  rs_simple_parse_float c T BT L f b s = fe_simple c T BT L f b s.
Proof. intros. apply rs_simple_parse_float_eq; [assumption | apply pf_eq_at_all, Hpf]. Qed.
Corollary rs_etc_parse_float_eq_all : forall s, zlen s < 2 ^ 64 ->
  rs_etc_parse_float c T BT L f b s = fe_simple c T BT L f b s.
Proof. intros. apply rs_etc_parse_float_eq; [assumption | apply pf_eq_at_all, Hpf]. Qed.
Corollary rs_fuzz_parse_float_eq_all : forall s, zlen s < 2 ^ 64 ->
  rs_fuzz_parse_float c T BT L f b s = fe_fuzz c T BT L f b s.
Proof. intros. apply rs_fuzz_parse_float_eq; [assumption | apply pf_eq_at_all, Hpf]. Qed.
Corollary rs_test_parse_float_eq_all : forall s, zlen s < 2 ^ 64 ->
  rs_test_parse_float c T BT L f b s = fe_fuzz c T BT L f b s.
Proof. intros. apply rs_test_parse_float_eq; [assumption | apply pf_eq_at_all, Hpf]. Qed.
End MainAll.

(** the helper equalities for the other tags, as corollaries (shown for the ones with a hypothesis) *)
Corollary rs_fuzz_consume_digits_eq : forall b s, zlen s < 2 ^ 64 ->
  rs_fuzz_consume_digits b s = Ok (consume_digits s).
Proof. rewrite rs_fuzz_consume_digits_same. exact rs_simple_consume_digits_eq. Qed.
Corollary rs_fuzz_parse_sign_eq : forall b s, rs_fuzz_parse_sign b s = Ok (parse_sign s).
Proof. rewrite rs_fuzz_parse_sign_same. exact rs_simple_parse_sign_eq. Qed.
Corollary rs_fuzz_is_digit_eq : forall b c, rs_fuzz_is_digit b c = Ok (is_digit c).
Proof. rewrite rs_fuzz_is_digit_same. exact rs_simple_is_digit_eq. Qed.
Corollary rs_fuzz_ltrim_zero_eq : forall b s, rs_fuzz_ltrim_zero b s = Ok (ltrim_zero s).
Proof. rewrite rs_fuzz_ltrim_zero_same. exact rs_simple_ltrim_zero_eq. Qed.
Corollary rs_fuzz_rtrim_zero_eq : forall b s, zlen s < 2 ^ 64 -> rs_fuzz_rtrim_zero b s = Ok (rtrim_zero s).
Proof. rewrite rs_fuzz_rtrim_zero_same. exact rs_simple_rtrim_zero_eq. Qed.
Corollary rs_fuzz_parse_exponent_eq : forall b l pos, Forall digit l ->
  rs_fuzz_parse_exponent b l pos = Ok (parse_exponent l pos).
Proof. rewrite rs_fuzz_parse_exponent_same. exact rs_simple_parse_exponent_eq. Qed.
Corollary rs_test_case_insensitive_starts_with_eq : forall b x y,
  rs_test_case_insensitive_starts_with b x y = Ok (ci_starts_with x y).
Proof. rewrite rs_test_case_insensitive_starts_with_same. exact rs_fuzz_case_insensitive_starts_with_eq. Qed.

(** ** evaluated instances: both sides computed independently by [vm_compute] *)
Module Battery.
Import Coq.Strings.String.
Definition B (s : String.string) : list Z :=
  map (fun a => Z.of_N (Ascii.N_of_ascii a)) (String.list_ascii_of_string s).
Definition pk_eqb (x y : panic_kind) : bool :=
  match x, y with
  | PkOverflow, PkOverflow | PkAssert, PkAssert | PkUnwrap, PkUnwrap | PkIndex, PkIndex
  | PkFuel, PkFuel | PkNoDump, PkNoDump => true
  | _, _ => false
  end.
Definition outcome_eqb {A} (eqb : A -> A -> bool) (x y : outcome A) : bool :=
  match x, y with
  | Ok a, Ok a' => eqb a a'
  | Panic k, Panic k' => pk_eqb k k'
  | _, _ => false
  end.
Fixpoint list_eqb (l l' : list Z) : bool :=
  match l, l' with
  | [], [] => true
  | x :: r, x' :: r' => (x =? x') && list_eqb r r'
  | _, _ => false
  end.
Definition res_eqb (x y : Z * list Z) := (fst x =? fst y) && list_eqb (snd x) (snd y).
Definition pair_eqb (x y : list Z * list Z) := list_eqb (fst x) (fst y) && list_eqb (snd x) (snd y).
Definition sign_eqb (x y : bool * list Z) := Bool.eqb (fst x) (fst y) && list_eqb (snd x) (snd y).
Definition inputs : list (list Z) :=
  map B [""; "+"; "-"; "1"; "+1.5"; "-0.25e3"; "1e"; "1e+"; "1e-"; "."; ".5"; "5."; "e5"; "00012.3400";
         "1e99999999999"; "1e-99999999999"; "nan"; "NaN"; "nAn"; "inf"; "Infinity"; "infinit"; "-inf"; "nax";
         "12abc"; "+nan"; "-NaN"; "-Infinityx"; "iNFINITY"; "in"; "na"; "+-1"; "--1"; "1.5e+-3"; "1e5.5"; "1.2.3";
         "E5"; "1E5"; "0"; "000"; "0.000"; ".e5"; "-.e-5"; "123456789012345678901234567890";
         "9007199254740993.000000000000000000001"; "1e2147483647"; "1e2147483648"; "1e-2147483648"; "1e-2147483649";
         "0000"; "100"; "0010"]%string
  ++ [[128]; [255]; [49; 200]; [200; 49]; [49; 46; 255]; [49; 101; 200]; [46; 128]; [78; 97; 110];
      [78; 65; 78; 128]; [110; 129; 110]; [14; 65; 78]; [-1]; [256 + 49]; [49; -3; 1000]].
Definition builds := [release_build; checked_build].
Definition fmts := [F32; F64].
Definition all (P : build -> format -> list Z -> bool) :=
  forallb (fun b => forallb (fun f => forallb (P b f) inputs) fmts) builds.
Definition allb (P : build -> list Z -> bool) := forallb (fun b => forallb (P b) inputs) builds.

Example simple_battery : all (fun b f s => outcome_eqb res_eqb
  (rs_simple_parse_float CFG_s TABLES BTABLES LIMITS f b s) (fe_simple CFG_s TABLES BTABLES LIMITS f b s)) = true.
Proof. vm_compute. reflexivity. Qed.
Example etc_battery : all (fun b f s => outcome_eqb res_eqb
  (rs_etc_parse_float CFG_s TABLES BTABLES LIMITS f b s) (fe_simple CFG_s TABLES BTABLES LIMITS f b s)) = true.
Proof. vm_compute. reflexivity. Qed.
Example fuzz_battery : all (fun b f s => outcome_eqb res_eqb
  (rs_fuzz_parse_float CFG_s TABLES BTABLES LIMITS f b s) (fe_fuzz CFG_s TABLES BTABLES LIMITS f b s)) = true.
Proof. vm_compute. reflexivity. Qed.
Example test_battery : all (fun b f s => outcome_eqb res_eqb
  (rs_test_parse_float CFG_s TABLES BTABLES LIMITS f b s) (fe_fuzz CFG_s TABLES BTABLES LIMITS f b s)) = true.
Proof. vm_compute. reflexivity. Qed.

Example helpers_battery :
  allb (fun b s => outcome_eqb sign_eqb (rs_simple_parse_sign b s) (Ok (parse_sign s))) = true /\
  allb (fun b s => outcome_eqb sign_eqb (rs_fuzz_parse_sign b s) (Ok (parse_sign s))) = true /\
  allb (fun b s => outcome_eqb pair_eqb (rs_simple_consume_digits b s) (Ok (consume_digits s))) = true /\
  allb (fun b s => outcome_eqb pair_eqb (rs_fuzz_consume_digits b s) (Ok (consume_digits s))) = true /\
  allb (fun b s => outcome_eqb list_eqb (rs_simple_ltrim_zero b s) (Ok (ltrim_zero s))) = true /\
  allb (fun b s => outcome_eqb list_eqb (rs_simple_rtrim_zero b s) (Ok (rtrim_zero s))) = true /\
  allb (fun b s => outcome_eqb list_eqb (rs_fuzz_rtrim_zero b s) (Ok (rtrim_zero s))) = true /\
  allb (fun b s => forallb (fun pos => outcome_eqb Z.eqb
          (rs_simple_parse_exponent b (fst (consume_digits s)) pos)
          (Ok (parse_exponent (fst (consume_digits s)) pos))) [true; false]) = true /\
  allb (fun b s => forallb (fun y => outcome_eqb Bool.eqb
          (rs_fuzz_case_insensitive_starts_with b s y) (Ok (ci_starts_with s y)))
          [lit_nan; lit_infinity; lit_inf; []; [200; -5]]) = true /\
  allb (fun b s => forallb (fun c => outcome_eqb Bool.eqb (rs_simple_is_digit b c) (Ok (is_digit c))) s) = true.
Proof. vm_compute. repeat split. Qed.

(** what the four copies return on some of the inputs (F64, checked build; bit patterns):
    "" and "e5" and "." are accepted by [simple] (value 0) - a property of the source, equally of
    the model; the [fuzz] copy returns 0 and consumes nothing when nothing was consumed *)
Example some_values :
  rs_simple_parse_float CFG_s TABLES BTABLES LIMITS F64 checked_build (B "-0.25e3x") = Ok (13866372146441224192, [120]) /\
  rs_simple_parse_float CFG_s TABLES BTABLES LIMITS F64 checked_build (B "nan") = Ok (0, [110; 97; 110]) /\
  rs_fuzz_parse_float CFG_s TABLES BTABLES LIMITS F64 checked_build (B "-nAn!") = Ok (18444492273895866368, [33]) /\
  rs_fuzz_parse_float CFG_s TABLES BTABLES LIMITS F64 checked_build (B "Infinity") = Ok (9218868437227405312, []) /\
  rs_fuzz_parse_float CFG_s TABLES BTABLES LIMITS F64 checked_build (B "infinit") = Ok (9218868437227405312, [105; 110; 105; 116]) /\
  rs_fuzz_parse_float CFG_s TABLES BTABLES LIMITS F32 release_build (B "-inf") = Ok (4286578688, []) /\
  rs_fuzz_parse_float CFG_s TABLES BTABLES LIMITS F64 checked_build (B "1e99999999999") = Ok (9218868437227405312, []) /\
  rs_fuzz_parse_float CFG_s TABLES BTABLES LIMITS F64 checked_build [49; 46; 255] = Ok (4607182418800017408, [255]).
Proof. vm_compute. repeat split. Qed.

(** the hypotheses of the main theorems are satisfiable: an input with sign, fraction and exponent,
    and one that reaches the slow path of the library *)
Example main_hypotheses_example : forall b f, In b builds -> In f fmts ->
  let s1 := B "-00.2500e3x" in
  let s2 := B "9007199254740993.000000000000000000001" in
  zlen s1 < 2 ^ 64 /\ pf_eq_at CFG_s TABLES BTABLES LIMITS f b s1 /\
  zlen s2 < 2 ^ 64 /\ pf_eq_at CFG_s TABLES BTABLES LIMITS f b s2.
Proof.
  intros b f Hb Hf. cbv zeta. unfold pf_eq_at.
  cbn [In builds fmts] in Hb, Hf.
  destruct Hb as [<-|[<-|[]]]; destruct Hf as [<-|[<-|[]]]; vm_compute; repeat split.
Qed.
End Battery.

Print Assumptions rs_simple_parse_float_eq.
Print Assumptions rs_etc_parse_float_eq.
Print Assumptions rs_fuzz_parse_float_eq.
Print Assumptions rs_test_parse_float_eq.
Print Assumptions rs_simple_parse_float_eq_all.
Print Assumptions rs_etc_parse_float_eq_all.
Print Assumptions rs_fuzz_parse_float_eq_all.
Print Assumptions rs_test_parse_float_eq_all.
Print Assumptions rs_simple_consume_digits_eq.
Print Assumptions rs_simple_rtrim_zero_eq.
Print Assumptions rs_simple_parse_exponent_eq.
Print Assumptions rs_fuzz_case_insensitive_starts_with_eq.
