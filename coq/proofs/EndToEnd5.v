(** * EndToEnd5: the compact configurations (Bellerophon + big integers), declined case and the
    complete end-to-end theorem.  No residual premise: Bellerophon's declined estimate always has a
    biased exponent >= -64 ([bellerophon_declined_estimate]). *)
From Coq Require Import ZArith QArith List Bool Lia.
From ML Require Import base.RustSem model.Fmt model.Num model.Number model.Parse model.Bellerophon model.Slow model.Top
  spec.Decimal spec.Round spec.RoundFacts spec.RneZ spec.RneBridge gen.Consts gen.Tables gen.BTables gen.PowDump
  proofs.ParseFacts proofs.FastPathFacts proofs.EndToEnd proofs.EndToEnd2 proofs.EndToEnd4
  proofs.RoundingFactsZ proofs.BellFacts3 proofs.BellFacts5 proofs.BellFacts6
  proofs.SlowFacts1 proofs.SlowFacts2c proofs.SlowFacts3 proofs.SlowFacts3b.
Import ListNotations.
Open Scope Z_scope.

Theorem parse_float_compact_declined_correct : forall c f b i fr e fp,
  In c ALL_CONFIGS -> compact c = true -> f = F32 \/ f = F64 ->
  valid_inputb i fr e = true -> bounded_input i fr e ->
  fast_path_applies f (parse_spec i fr e) = false ->
  bellerophon BTABLES f b (parse_spec i fr e) = Ok fp -> exp fp < 0 ->
  parse_float c TABLES BTABLES LIMITS f b i fr e = Ok (RN f (dec_value i fr e)).
Proof.
  intros c f b i fr e fp Hc Hcomp Hf V Hb Hnf Hbell Hneg.
  pose proof (bounded_unsaturated i fr e Hb) as Hsat. destruct Hb as [HX HL].
  pose proof (fast_ok_shipped c f Hc Hf) as Hok.
  assert (Hbo : bell_ok f = true) by (destruct Hf; subst; [exact bell_ok_F32|exact bell_ok_F64]).
  unfold parse_float. rewrite (parse_number_exact b i fr e V). cbn [bind].
  destruct (parse_number_spec b i fr e V) as (n & Hn & Hm & He & S).
  assert (Hnn : n = parse_spec i fr e) by (rewrite (parse_number_exact b i fr e V) in Hn; congruence).
  subst n. clear Hn.
  rewrite (try_fast_path_eq c TABLES f b Hok (parse_spec i fr e)) by (unfold i32_min, i32_max in He; lia).
  rewrite Hnf. cbn [bind]. unfold moderate_path. rewrite Hcomp. rewrite Hbell. cbn [bind].
  destruct (exp fp <? 0) eqn:Elt; [|apply Z.ltb_ge in Elt; lia].
  set (n := parse_spec i fr e) in *. cbv zeta in S.
  destruct S as (_ & _ & _ & _ & Sb & _).
  assert (Hmk : n = mkNumber (nexp n) (nmant n) (many n)) by (destruct n; reflexivity).
  assert (Hq : - 2 ^ 31 <= nexp n < 2 ^ 31) by (unfold i32_min, i32_max in He; lia).
  assert (Htr : many n = true -> trunc_ok f (nmant n)).
  { intros Ht. destruct (Sb Ht) as [[Hl Hh] _].
    assert (H19 : 10 ^ 19 < 2 ^ 64) by (vm_compute; reflexivity).
    assert (Hw19 : 10 ^ 18 <= nmant n < 2 ^ 64).
    { revert Hl Hh. generalize (nmant n). intros z Hl Hh. split; [exact Hl|exact (Z.lt_trans _ _ _ Hh H19)]. }
    destruct (trunc_ok_19_digits (nmant n) Hw19) as [T64 T32]. destruct Hf; subst f; assumption. }
  rewrite Hmk in Hbell.
  destruct (bellerophon_declined_estimate f b (nmant n) (nexp n) (many n) Hbo Hm Hq Htr fp Hbell Hneg)
    as (Hmant & Hexp & _ & Hbr).
  destruct (bellerophon_declined_nonzero f b (nmant n) (nexp n) (many n) Hbo Hm Hq fp Hbell Hneg)
    as (Hw0 & Hqr0 & _).
  cbv zeta in Hmant, Hexp, Hbr. cbn [mant exp] in Hmant, Hexp.
  assert (H20 : 2 ^ 20 = 1048576) by reflexivity.
  assert (Hsub : i32_sub b (exp fp) (INVALID_FP f) = Ok (exp fp - INVALID_FP f)).
  { unfold i32_sub, sop. replace (in_s 32 (exp fp - INVALID_FP f)) with true; [reflexivity|].
    symmetry. unfold in_s. apply andb_true_iff. split; [apply Z.leb_le|apply Z.ltb_lt];
    change (2 ^ (32 - 1)) with 2147483648; lia. }
  rewrite Hsub. cbn [bind].
  assert (Hqr : - 400 <= nexp n <= slow_P - 19).
  { assert (- 400 <= - BIAS /\ NLARGE * STEP - BIAS <= slow_P - 19) by (vm_compute; split; discriminate). lia. }
  assert (Hv0 : (0 <= dec_value i fr e)%Q) by (apply dec_value_nonneg; exact V).
  assert (Hest : rd_bits f (mkExt (mant fp) (exp fp - INVALID_FP f)) <= RN f (dec_value i fr e)
                 <= rd_bits f (mkExt (mant fp) (exp fp - INVALID_FP f)) + 1).
  { apply Hbr.
    destruct (parse_number_value_bracket b i fr e n V (parse_number_exact b i fr e V)) as [Hex Hmn].
    unfold unsaturated in Hsat.
    destruct (many n) eqn:Emany.
    - destruct (Hmn eq_refl) as (k & Hk1 & Hk & Hne & Hlo' & Hhi').
      assert (HXk : nexp n = e - zlen fr + k).
      { rewrite Hne. apply clamp_i32_id. subst k.
        replace (Z.max 0 (zlen (strip0 (i ++ fr)) - 19)) with (zlen (strip0 (i ++ fr)) - 19) in Hsat by lia. lia. }
      rewrite HXk. split; assumption.
    - destruct (Hex eq_refl) as [Hval0 Hne].
      assert (Hshort : many n = (19 <? zlen (strip0 (i ++ fr)))) by reflexivity.
      rewrite Emany in Hshort. symmetry in Hshort. apply Z.ltb_ge in Hshort.
      assert (HX0 : nexp n = e - zlen fr).
      { rewrite Hne. apply clamp_i32_id. replace (Z.max 0 (zlen (strip0 (i ++ fr)) - 19)) with 0 in Hsat by lia. lia. }
      rewrite HX0. exact Hval0. }
  assert (H30 : 2 ^ 30 = 1073741824) by reflexivity.
  assert (Hw0' : 0 < nmant n) by lia.
  destruct (slow_correct_q c f b i fr e (mkExt (mant fp) (exp fp - INVALID_FP f)) Hf V HX HL Hw0' Hmant
              ltac:(cbn [exp]; lia) Hqr (fun _ => Hest)) as (r & w & Hslow & Hext & Hw).
  fold n in Hslow. rewrite Hslow. cbn [bind]. rewrite Hext, Hw. reflexivity.
Qed.

(** ** The end-to-end theorem for the compact configurations: NO premise beyond the input domain *)
Theorem parse_float_correct_compact : forall c f b i fr e,
  In c ALL_CONFIGS -> compact c = true -> f = F32 \/ f = F64 ->
  valid_inputb i fr e = true -> bounded_input i fr e ->
  parse_float c TABLES BTABLES LIMITS f b i fr e = Ok (RN f (dec_value i fr e)).
Proof.
  intros c f b i fr e Hc Hcomp Hf V Hb.
  destruct (fast_path_applies f (parse_spec i fr e)) eqn:Efast.
  - apply parse_float_fast_correct; assumption.
  - assert (Hbo : bell_ok f = true) by (destruct Hf; subst; [exact bell_ok_F32|exact bell_ok_F64]).
    destruct (parse_number_spec b i fr e V) as (n & Hn & Hm & He & S).
    assert (Hnn : n = parse_spec i fr e) by (rewrite (parse_number_exact b i fr e V) in Hn; congruence).
    subst n. clear Hn. cbv zeta in S. destruct S as (_ & _ & _ & _ & Sb & _).
    set (n := parse_spec i fr e) in *.
    assert (Hmk : n = mkNumber (nexp n) (nmant n) (many n)) by (destruct n; reflexivity).
    assert (Hq : - 2 ^ 31 <= nexp n < 2 ^ 31) by (unfold i32_min, i32_max in He; lia).
    assert (Hw40 : many n = true -> 2 ^ 40 <= nmant n).
    { intros Ht. destruct (Sb Ht) as [[Hl _] _]. revert Hl. generalize (nmant n). intros z Hl.
      assert (H : 2 ^ 40 <= 10 ^ 18) by (vm_compute; discriminate). exact (Z.le_trans _ _ _ H Hl). }
    destruct (bellerophon_sound f b (nmant n) (nexp n) (many n) Hbo Hm Hq Hw40) as (fp & Hb' & _).
    rewrite <- Hmk in Hb'.
    destruct (Z_lt_ge_dec (exp fp) 0) as [Hneg|Hpos].
    + apply (parse_float_compact_declined_correct c f b i fr e fp); assumption.
    + apply (parse_float_compact_definite_correct c f b LIMITS i fr e fp); try assumption; [|lia].
      apply bounded_unsaturated. exact Hb.
Qed.
