(** * BellFacts3: [bellerophon] as a closed expression (no panic in any build), Stages C-D prep.

    For a non-zero significand and a decimal exponent inside the table range the function
    computes [stage2] (two [mul]s, or an exact integer multiply and one [mul]), normalises, and
    takes one of four exits ([bellerophon_core]).  Outside the table range it answers zero or
    infinity ([bellerophon_zero_exit], [bellerophon_inf_exit]). *)
From Coq Require Import ZArith List Bool Lia Znumtheory.
From Coq Require Import ZifyBool.
From ML Require Import base.RustSem model.Fmt model.Mask model.Num model.Number model.Rounding
  model.Bellerophon gen.Consts gen.BTables proofs.RoundingFactsZ proofs.TableFacts
  proofs.BellFacts0 proofs.BellFacts1.
Ltac Zify.zify_post_hook ::= Z.div_mod_to_equations.
Open Scope Z_scope.
Local Arguments Z.pow : simpl never.

Notation STEP := (BELL_STEP BTABLES).
Notation BIAS := (BELL_BIAS BTABLES).
Notation NLARGE := (zlen (BELL_LARGE BTABLES)).

Definition sidx (q : Z) : Z := (q + BIAS) mod STEP.
Definition lidx (q : Z) : Z := (q + BIAS) / STEP.

(** significand and exponent after the small power *)
Definition stage1 (q w : Z) : Z * Z :=
  let si := sidx q in
  if 2 ^ 64 <=? w * 10 ^ si
  then ((w * 2 ^ lz64 w * small_m si + 2 ^ 63) / 2 ^ 64, - lz64 w + lexp si + 64)
  else (w * 10 ^ si * 2 ^ lz64 (w * 10 ^ si), - lz64 (w * 10 ^ si)).

(** ... and after the large power *)
Definition stage2 (q w : Z) : Z * Z :=
  ((fst (stage1 q w) * large_m (lidx q) + 2 ^ 63) / 2 ^ 64,
   snd (stage1 q w) + lexp (large_k (lidx q)) + 64).

(** the error count before the final normalisation *)
Definition errs (q w : Z) (t : bool) : Z :=
  let e0 := if t then 8 * 2 ^ Z.min (lz64 w + 1) 24 else 0 in
  let e1 := if 2 ^ 64 <=? w * 10 ^ sidx q then e0 + 4 else e0 in
  (if 0 <? e1 then e1 + 1 else e1) + 4.

(** what the format must satisfy (beyond the rounding code's own [rfmt_ok]) *)
Definition bell_fmt_ok (f : format) : bool :=
  rfmt_ok f && (0 <=? EXPONENT_BIAS f) && (EXPONENT_BIAS f <=? 2 ^ 20) &&
  (- 2 ^ 20 <=? INVALID_FP f) &&
  (lexp (STEP - 1) + lexp (large_k (NLARGE - 1)) + 128 + EXPONENT_BIAS f <? - INVALID_FP f).

Lemma bell_fmt_ok_props f : bell_fmt_ok f = true ->
  rfmt_ok f = true /\ 0 <= EXPONENT_BIAS f <= 2 ^ 20 /\ - 2 ^ 20 <= INVALID_FP f /\
  lexp (STEP - 1) + lexp (large_k (NLARGE - 1)) + 128 + EXPONENT_BIAS f < - INVALID_FP f.
Proof.
  unfold bell_fmt_ok. intros H.
  apply andb_prop in H. destruct H as [H H4]. apply andb_prop in H. destruct H as [H H3].
  apply andb_prop in H. destruct H as [H H2]. apply andb_prop in H. destruct H as [H H1].
  split; [exact H|]. lia.
Qed.

Lemma index_facts q : 0 <= q + BIAS -> lidx q < NLARGE ->
  0 <= sidx q < STEP /\ 0 <= lidx q < NLARGE /\ q = sidx q + large_k (lidx q).
Proof.
  intros H0 H1. destruct bt_props_true as [[Hs0 Hs1] _ _ _ _ _ _ _].
  unfold sidx, lidx, large_k in *.
  pose proof (Z.div_mod (q + BIAS) STEP ltac:(lia)) as E.
  pose proof (Z.mod_pos_bound (q + BIAS) STEP ltac:(lia)) as B.
  assert (0 <= (q + BIAS) / STEP) by (apply Z.div_pos; lia).
  repeat split; try lia.
Qed.

Lemma pow10_pos k : 0 <= k -> 0 < 10 ^ k.
Proof. intros. apply Z.pow_pos_nonneg; lia. Qed.

Lemma stage1_range q w : 0 < w < 2 ^ 64 -> 0 <= sidx q < STEP ->
  2 ^ 62 <= fst (stage1 q w) < 2 ^ 64 /\
  - 63 + lexp 0 <= snd (stage1 q w) <= lexp (STEP - 1) + 64.
Proof.
  intros Hw Hs. unfold stage1. cbv zeta.
  pose proof (lexp_mono 0 (sidx q) ltac:(lia)) as Hm0.
  pose proof (lexp_mono (sidx q) (STEP - 1) ltac:(lia)) as Hm1.
  pose proof (lexp_mono 0 (STEP - 1) ltac:(lia)) as Hm2.
  assert (Hl0 : lexp 0 = - 63).
  { unfold lexp. rewrite Z.mul_0_r. rewrite Z.div_0_l; [lia|].
    destruct bt_props_true as [_ _ _ [? ?] _ _ _ _]. pose proof (pow2_pos (BELL_LOG2_SHIFT BTABLES)); lia. }
  destruct (2 ^ 64 <=? w * 10 ^ sidx q) eqn:Eo; cbn [fst snd].
  - destruct (lz64_spec w Hw) as [Hk Hr].
    pose proof (bell_entry_range _ _ _ (small_entry_ok (sidx q) Hs)) as Hp.
    pose proof (bmul_range (w * 2 ^ lz64 w) (small_m (sidx q)) ltac:(lia) Hp) as Hb. cbv zeta in Hb.
    assert (2 ^ 62 <= (w * 2 ^ lz64 w) / 2).
    { apply Z.div_le_lower_bound; [lia|]. change (2 ^ 63) with (2 * 2 ^ 62) in Hr. lia. }
    split; lia.
  - pose proof (pow10_pos (sidx q) ltac:(lia)) as Hp.
    assert (Hmm : 0 < w * 10 ^ sidx q < 2 ^ 64) by nia.
    destruct (lz64_spec _ Hmm) as [Hk Hr].
    assert (2 ^ 62 < 2 ^ 63) by (vm_compute; reflexivity).
    split; lia.
Qed.

Lemma stage2_range q w : 0 < w < 2 ^ 64 -> 0 <= sidx q < STEP -> 0 <= lidx q < NLARGE ->
  2 ^ 61 <= fst (stage2 q w) < 2 ^ 64 /\
  - 2 ^ 20 <= snd (stage2 q w) <= lexp (STEP - 1) + lexp (large_k (NLARGE - 1)) + 128.
Proof.
  intros Hw Hs Hl. destruct (stage1_range q w Hw Hs) as [Hx He].
  unfold stage2. cbn [fst snd].
  pose proof (bell_entry_range _ _ _ (large_entry_ok (lidx q) Hl)) as Hp.
  pose proof (bmul_range (fst (stage1 q w)) (large_m (lidx q)) ltac:(lia) Hp) as Hb. cbv zeta in Hb.
  assert (2 ^ 61 <= fst (stage1 q w) / 2).
  { apply Z.div_le_lower_bound; [lia|]. change (2 ^ 62) with (2 * 2 ^ 61) in Hx. lia. }
  pose proof (large_k_range (lidx q) Hl) as Hk.
  pose proof (large_k_range (NLARGE - 1) ltac:(lia)) as Hk1.
  assert (Hkm : large_k (lidx q) <= large_k (NLARGE - 1)).
  { unfold large_k. destruct bt_props_true as [[Hs0 Hs1] _ _ _ _ _ _ _]. nia. }
  pose proof (lexp_mono _ _ Hkm) as Hm.
  assert (H12 : 2 ^ 12 = 4096) by reflexivity. assert (H15 : 2 ^ 15 = 32768) by reflexivity.
  assert (H18 : 2 ^ 18 = 262144) by reflexivity. assert (H20 : 2 ^ 20 = 1048576) by reflexivity.
  pose proof (lexp_bound (large_k (lidx q)) ltac:(lia)) as Hb1.
  pose proof (lexp_bound 0 ltac:(lia)) as Hb0.
  split; lia.
Qed.

Lemma errs_range q w t : 0 < w < 2 ^ 64 -> 4 <= errs q w t <= 2 ^ 27 + 9.
Proof.
  intros Hw. unfold errs. cbv zeta. destruct (lz64_spec w Hw) as [Hk _].
  assert (H27 : 8 * 2 ^ 24 = 2 ^ 27) by reflexivity.
  assert (He0 : 0 <= (if t then 8 * 2 ^ Z.min (lz64 w + 1) 24 else 0) <= 2 ^ 27).
  { destruct t; [|lia]. pose proof (pow2_le (Z.min (lz64 w + 1) 24) 24 ltac:(lia)).
    pose proof (pow2_pos (Z.min (lz64 w + 1) 24) ltac:(lia)). lia. }
  set (e0 := if t then _ else _) in *. clearbody e0.
  destruct (2 ^ 64 <=? w * 10 ^ sidx q); destruct (0 <? _) eqn:E; lia.
Qed.

(** ** the exits outside the table range *)
Theorem bellerophon_zero_exit f b q w t : - 2 ^ 31 <= q < 2 ^ 31 ->
  w = 0 \/ q + BIAS < 0 -> bellerophon BTABLES f b (mkNumber q w t) = Ok bfp_zero.
Proof.
  intros Hq Hc. destruct bt_props_true as [[Hs0 Hs1] [Hb0 Hb1] _ _ _ _ _ _].
  assert (H12 : 2 ^ 12 = 4096) by reflexivity. assert (H31 : 2 ^ 31 = 2147483648) by reflexivity.
  unfold bellerophon. cbn [nmant nexp many].
  destruct ((w =? 0) || (q <=? -4096)) eqn:E1; [reflexivity|].
  replace (4096 <=? q) with false by lia.
  unfold i32_add. rewrite sop32_ok by lia. cbn [bind].
  replace (STEP =? 0) with false by lia. cbn [bind].
  replace (q + BIAS <? 0) with true by lia. reflexivity.
Qed.

Theorem bellerophon_inf_exit f b q w t : - 2 ^ 31 <= q < 2 ^ 31 ->
  w <> 0 -> NLARGE * STEP <= q + BIAS -> bellerophon BTABLES f b (mkNumber q w t) = Ok (bfp_inf f).
Proof.
  intros Hq Hw Hc. destruct bt_props_true as [[Hs0 Hs1] [Hb0 Hb1] _ _ _ _ [Hl0 Hl1] Htop].
  assert (H12 : 2 ^ 12 = 4096) by reflexivity. assert (H31 : 2 ^ 31 = 2147483648) by reflexivity.
  assert (H6 : 2 ^ 6 = 64) by reflexivity. assert (H8 : 2 ^ 8 = 256) by reflexivity.
  assert (H64 : 2 ^ 64 = 18446744073709551616) by reflexivity.
  unfold bellerophon. cbn [nmant nexp many].
  replace ((w =? 0) || (q <=? -4096)) with false by lia.
  destruct (4096 <=? q) eqn:E2; [reflexivity|].
  unfold i32_add. rewrite sop32_ok by lia. cbn [bind].
  replace (STEP =? 0) with false by lia. cbn [bind].
  replace (q + BIAS <? 0) with false by lia.
  rewrite Z.quot_div_nonneg by lia.
  assert (Hq2 : NLARGE <= (q + BIAS) / STEP) by (apply Z.div_le_lower_bound; lia).
  assert (Hq3 : (q + BIAS) / STEP <= q + BIAS) by (apply Z.div_le_upper_bound; nia).
  rewrite as_usize_small by lia.
  replace (NLARGE <=? (q + BIAS) / STEP) with true by lia. reflexivity.
Qed.

(** ** the common tail: normalised significand [M], exponent [e4], error count [E] shifted by [s] *)
Lemma bell_tail_ok f b E s M e4 :
  bell_fmt_ok f = true -> 0 <= s <= 2 -> 4 <= E <= 2 ^ 27 + 9 -> 2 ^ 63 <= M < 2 ^ 64 ->
  - 2 ^ 21 <= e4 -> e4 + EXPONENT_BIAS f < - INVALID_FP f ->
  (errors4 <- u32_shl b E s;;
   e5 <- i32_add b e4 (EXPONENT_BIAS f);;
   ne <- i32_neg b e5;;
   ne1 <- i32_add b ne 1;;
   (if 65 <? ne1
    then Ok bfp_zero
    else
     acc <- error_is_accurate f b errors4 {| mant := M; exp := e5 |};;
     (if negb acc
      then e6 <- i32_add b e5 (INVALID_FP f);; Ok {| mant := M; exp := e6 |}
      else
       if ne1 =? 65
       then Ok bfp_zero
       else
        round f b {| mant := M; exp := e5 |}
          (fun (fp : extfloat) (s : Z) => round_nearest_tie_even b fp s cb_nearest_even)))) =
  (if 65 <? 1 - (e4 + EXPONENT_BIAS f)
   then Ok bfp_zero
   else
    if negb (acc f (E * 2 ^ s) M (e4 + EXPONENT_BIAS f))
    then Ok {| mant := M; exp := e4 + EXPONENT_BIAS f + INVALID_FP f |}
    else
     if 1 - (e4 + EXPONENT_BIAS f) =? 65
     then Ok bfp_zero
     else Ok (round_spec f (rnd_ne M) (e4 + EXPONENT_BIAS f))).
Proof.
  intros Hf Hs HE HM He4 Hinv.
  destruct (bell_fmt_ok_props f Hf) as (Hr & HB & Hi & Hsum).
  assert (H20 : 2 ^ 20 = 1048576) by reflexivity. assert (H21 : 2 ^ 21 = 2097152) by reflexivity.
  assert (H27 : 2 ^ 27 = 134217728) by reflexivity.
  assert (H30 : 2 ^ 30 = 1073741824) by reflexivity.
  assert (H31 : 2 ^ 31 = 2147483648) by reflexivity.
  assert (H32 : 2 ^ 32 = 4294967296) by reflexivity.
  assert (H64 : 2 ^ 64 = 18446744073709551616) by reflexivity.
  assert (Hp : 1 <= 2 ^ s <= 4).
  { pose proof (pow2_le s 2 ltac:(lia)). pose proof (pow2_pos s ltac:(lia)). change (2 ^ 2) with 4 in *. lia. }
  rewrite u32_shl_ok by nia. cbn [bind].
  unfold i32_add at 1. rewrite sop32_ok by lia. cbn [bind].
  set (e5 := e4 + EXPONENT_BIAS f) in *.
  unfold i32_neg. rewrite sop32_ok by lia. cbn [bind].
  unfold i32_add at 1. rewrite sop32_ok by lia. cbn [bind].
  replace (- e5 + 1) with (1 - e5) by lia.
  destruct (65 <? 1 - e5) eqn:E1; [reflexivity|].
  rewrite error_is_accurate_ok by (first [assumption | lia | nia]). cbn [bind].
  destruct (negb (acc f (E * 2 ^ s) M e5)) eqn:E2.
  - unfold i32_add. rewrite sop32_ok by lia. reflexivity.
  - destruct (1 - e5 =? 65) eqn:E3; [reflexivity|].
    apply round_ne_Z; [assumption|assumption|lia].
Qed.

(** ** inside the table range *)
Theorem bellerophon_core f b q w t :
  bell_fmt_ok f = true -> 0 < w < 2 ^ 64 -> 0 <= q + BIAS -> lidx q < NLARGE ->
  let x3 := fst (stage2 q w) in let e3 := snd (stage2 q w) in
  let s4 := lz64 x3 in let M := x3 * 2 ^ s4 in
  let e5 := e3 - s4 + EXPONENT_BIAS f in let err := errs q w t * 2 ^ s4 in
  bellerophon BTABLES f b (mkNumber q w t) =
    if 65 <? 1 - e5 then Ok bfp_zero
    else if negb (acc f err M e5) then Ok (mkExt M (e5 + INVALID_FP f))
    else if 1 - e5 =? 65 then Ok bfp_zero
    else Ok (round_spec f (rnd_ne M) e5).
Proof.
  intros Hf Hw H0 H1. cbv zeta.
  destruct (index_facts q H0 H1) as (Hsi & Hli & Hq).
  destruct bt_props_true as [[Hs0 Hs1] [Hb0 Hb1] _ _ _ _ [Hl0 Hl1] Htop].
  destruct (bell_fmt_ok_props f Hf) as (Hr & HB & Hi & Hsum).
  pose proof (stage1_range q w Hw Hsi) as [R1m R1e].
  pose proof (stage2_range q w Hw Hsi Hli) as [R2m R2e].
  pose proof (errs_range q w t Hw) as Rerr.
  assert (H6 : 2 ^ 6 = 64) by reflexivity. assert (H8 : 2 ^ 8 = 256) by reflexivity.
  assert (H12 : 2 ^ 12 = 4096) by reflexivity. assert (H15 : 2 ^ 15 = 32768) by reflexivity.
  assert (H18 : 2 ^ 18 = 262144) by reflexivity. assert (H20 : 2 ^ 20 = 1048576) by reflexivity.
  assert (H27 : 2 ^ 27 = 134217728) by reflexivity.
  assert (H30 : 2 ^ 30 = 1073741824) by reflexivity.
  assert (H31 : 2 ^ 31 = 2147483648) by reflexivity.
  assert (H32 : 2 ^ 32 = 4294967296) by reflexivity.
  assert (H61 : 2 ^ 61 = 2305843009213693952) by reflexivity.
  assert (H62 : 2 ^ 62 = 4611686018427387904) by reflexivity.
  assert (H63 : 2 ^ 63 = 9223372036854775808) by reflexivity.
  assert (H64 : 2 ^ 64 = 18446744073709551616) by reflexivity.
  assert (Hqr : - 4096 < q < 4096).
  { unfold lidx in H1. assert ((q + BIAS) < NLARGE * STEP); [|lia].
    pose proof (Z.div_mod (q + BIAS) STEP ltac:(lia)). pose proof (Z.mod_pos_bound (q + BIAS) STEP ltac:(lia)). nia. }
  pose proof (lexp_bound 0 ltac:(lia)) as Hb0'.
  pose proof (lexp_bound (sidx q) ltac:(lia)) as Hbs.
  pose proof (large_k_range (lidx q) Hli) as Hlk.
  pose proof (lexp_bound (large_k (lidx q)) ltac:(lia)) as Hbl.
  unfold bellerophon. cbn [nmant nexp many].
  replace ((w =? 0) || (q <=? -4096)) with false by lia.
  replace (4096 <=? q) with false by lia.
  unfold i32_add at 1. rewrite sop32_ok by lia. cbn [bind].
  replace (STEP =? 0) with false by lia. cbn [bind].
  replace (q + BIAS <? 0) with false by lia.
  rewrite Z.quot_div_nonneg by lia. rewrite Z.rem_mod_nonneg by lia.
  fold (sidx q). fold (lidx q).
  rewrite !as_usize_small by lia.
  replace (NLARGE <=? lidx q) with false by lia.
  (* the initial error count *)
  destruct (lz64_spec w Hw) as [Hlzw Hnw].
  assert (He0 : (if t then e0 <- u32_shl b error_scale (Z.min (lz64 w + 1) 24) ;; u32_add b 0 e0 else Ok 0)
                = Ok (if t then 8 * 2 ^ Z.min (lz64 w + 1) 24 else 0)).
  { destruct t; [|reflexivity]. unfold error_scale.
    pose proof (pow2_le (Z.min (lz64 w + 1) 24) 24 ltac:(lia)) as Hle.
    pose proof (pow2_pos (Z.min (lz64 w + 1) 24) ltac:(lia)) as Hpos.
    assert (H24 : 2 ^ 24 = 16777216) by reflexivity.
    rewrite u32_shl_ok by lia. cbn [bind]. unfold u32_add. rewrite uop_ok by lia.
    rewrite Z.add_0_l. reflexivity. }
  rewrite He0. cbn [bind]. clear He0.
  unfold errs. cbv zeta.
  set (e0 := if t then 8 * 2 ^ Z.min (lz64 w + 1) 24 else 0) in *.
  assert (Be0 : 0 <= e0 <= 2 ^ 27).
  { unfold e0. destruct t; [|lia]. pose proof (pow2_le (Z.min (lz64 w + 1) 24) 24 ltac:(lia)).
    pose proof (pow2_pos (Z.min (lz64 w + 1) 24) ltac:(lia)).
    assert (H24 : 2 ^ 24 = 16777216) by reflexivity. lia. }
  clearbody e0.
  rewrite get_small_int_ok by lia. cbn [bind].
  unfold u64_overflowing_mul.
  unfold stage2, stage1 in *. cbv zeta in *.
  pose proof (bell_entry_range _ _ _ (small_entry_ok (sidx q) Hsi)) as Hps.
  pose proof (bell_entry_range _ _ _ (large_entry_ok (lidx q) Hli)) as Hpl.
  pose proof (pow10_pos (sidx q) ltac:(lia)) as Hp10.
  destruct (2 ^ 64 <=? w * 10 ^ sidx q) eqn:Eo; cbn [fst snd] in *.
  - (* the product overflows: normalise, multiply by the small extended power *)
    rewrite bnormalize_ok by lia. cbn [bind].
    rewrite get_small_ok by lia. cbn [bind].
    rewrite bmul_ok by (cbn [mant exp]; lia). cbn [bind mant exp].
    unfold u32_add at 1. unfold error_halfscale. rewrite uop_ok by lia. cbn [bind].
    rewrite get_large_ok by lia. cbn [bind].
    rewrite bmul_ok by (cbn [mant exp]; lia). cbn [bind mant exp].
    replace (0 <? e0 + 4) with true by lia.
    unfold u32_add at 1. rewrite uop_ok by lia. cbn [bind].
    unfold u32_add at 1. rewrite uop_ok by lia. cbn [bind].
    replace (0 - lz64 w) with (- lz64 w) by lia.
    set (x3 := (_ * large_m (lidx q) + 2 ^ 63) / 2 ^ 64) in *.
    set (e3 := - lz64 w + lexp (sidx q) + 64 + lexp (large_k (lidx q)) + 64) in *.
    clearbody x3 e3.
    destruct (lz64_spec x3 ltac:(lia)) as [Hlz3 Hn3].
    assert (Hlz2 : lz64 x3 <= 2).
    { destruct (Z_le_gt_dec (lz64 x3) 2) as [|Hgt]; [assumption|exfalso].
      pose proof (pow2_le 3 (lz64 x3) ltac:(lia)) as Hle. change (2 ^ 3) with 8 in Hle. nia. }
    rewrite bnormalize_ok by lia. cbn [bind mant exp].
    replace (e3 - lz64 x3 + EXPONENT_BIAS f + INVALID_FP f)
      with (e3 - lz64 x3 + EXPONENT_BIAS f + INVALID_FP f) by reflexivity.
    apply bell_tail_ok; try assumption; try lia.
  - (* exact integer product *)
    assert (Hmm : 0 < w * 10 ^ sidx q < 2 ^ 64) by nia.
    unfold wrapu. rewrite Z.mod_small by lia.
    destruct (lz64_spec _ Hmm) as [Hlzm Hnm].
    rewrite bnormalize_ok by lia. cbn [bind mant exp].
    rewrite get_large_ok by lia. cbn [bind].
    rewrite bmul_ok by (cbn [mant exp]; lia). cbn [bind mant exp].
    assert (Hu : (if 0 <? e0 then u32_add b e0 1 else Ok e0) = Ok (if 0 <? e0 then e0 + 1 else e0)).
    { destruct (0 <? e0); [|reflexivity]. unfold u32_add. rewrite uop_ok by lia. reflexivity. }
    rewrite Hu. cbn [bind]. clear Hu.
    assert (Be1 : 0 <= (if 0 <? e0 then e0 + 1 else e0) <= 2 ^ 27 + 1) by (destruct (0 <? e0); lia).
    set (e1 := if 0 <? e0 then e0 + 1 else e0) in *. clearbody e1.
    unfold u32_add at 1. unfold error_halfscale. rewrite uop_ok by lia. cbn [bind].
    replace (0 - lz64 (w * 10 ^ sidx q)) with (- lz64 (w * 10 ^ sidx q)) by lia.
    set (x3 := (_ * large_m (lidx q) + 2 ^ 63) / 2 ^ 64) in *.
    set (e3 := - lz64 (w * 10 ^ sidx q) + lexp (large_k (lidx q)) + 64) in *.
    clearbody x3 e3.
    destruct (lz64_spec x3 ltac:(lia)) as [Hlz3 Hn3].
    assert (Hlz2 : lz64 x3 <= 2).
    { destruct (Z_le_gt_dec (lz64 x3) 2) as [|Hgt]; [assumption|exfalso].
      pose proof (pow2_le 3 (lz64 x3) ltac:(lia)) as Hle. change (2 ^ 3) with 8 in Hle. nia. }
    rewrite bnormalize_ok by lia. cbn [bind mant exp].
    apply bell_tail_ok; try assumption; try lia.
Qed.
