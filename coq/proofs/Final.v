(** * Final: the end-to-end theorems with NO residual premise.
    [no_deep_fallback] (proofs/DeepFallback.v: a verified Euclid-like modular search, run by the
    kernel's VM over every deep (q, lz) instance of both formats on the regenerated table) discharges
    [deep_ok], so [parse_float_correct] and every corollary of proofs/EndToEnd7.v / EndToEnd8.v hold
    for all eight configurations unconditionally. *)
From Coq Require Import ZArith QArith Qabs List Bool Lia.
From ML Require Import base.RustSem model.Fmt model.Num model.FloatOps model.Number model.Parse model.Top model.FrontEnd
  spec.Decimal spec.Round spec.RoundFacts spec.DigitsSuffice gen.Consts gen.Tables gen.BTables gen.PowDump
  proofs.ParseFacts proofs.FrontEndFacts proofs.EndToEnd proofs.EndToEnd4 proofs.EndToEnd6 proofs.EndToEnd7 proofs.EndToEnd8
  proofs.DeepFallback2.
Import ListNotations.
Open Scope Z_scope.

Lemma deep_ok_always : forall c f b i fr e, f = F32 \/ f = F64 -> valid_inputb i fr e = true ->
  deep_ok c f b i fr e.
Proof. intros c f b i fr e Hf V _. apply no_deep_fallback_parse_spec; assumption. Qed.

Notation PF c f b i fr e := (parse_float c TABLES BTABLES LIMITS f b i fr e).

(** THE theorem: every shipped configuration, both formats, both build modes, every valid input of at
    most 2^28 digits, every i32 exponent. *)
Theorem parse_float_correct_final : forall c f b i fr e,
  In c ALL_CONFIGS -> f = F32 \/ f = F64 ->
  valid_inputb i fr e = true -> zlen i + zlen fr <= 2 ^ 28 ->
  PF c f b i fr e = Ok (RN f (dec_value i fr e)).
Proof.
  intros c f b i fr e Hc Hf V L. apply parse_float_correct; try assumption.
  apply (deep_ok_always c f b i fr e Hf V).
Qed.

Theorem C01_final : forall c b i fr e, In c ALL_CONFIGS -> in_domain i fr e ->
  PF c F64 b i fr e = Ok (RN F64 (dec_value i fr e)).
Proof. intros c b i fr e Hc [V L]. apply parse_float_correct_final; auto. Qed.

Theorem C02_final : forall c b i fr e, In c ALL_CONFIGS -> in_domain i fr e ->
  PF c F32 b i fr e = Ok (RN F32 (dec_value i fr e)).
Proof. intros c b i fr e Hc [V L]. apply parse_float_correct_final; auto. Qed.

Theorem result_in_range_final : forall c f b i fr e r, In c ALL_CONFIGS -> f = F32 \/ f = F64 ->
  in_domain i fr e -> PF c f b i fr e = Ok r -> 0 <= r <= RoundFacts.inf_bits f.
Proof. intros c f b i fr e r Hc Hf D. apply result_in_range; auto. destruct D. apply deep_ok_always; auto. Qed.

Theorem C04_final : forall c f b i fr e, In c ALL_CONFIGS -> f = F32 \/ f = F64 ->
  in_domain i fr e -> exists bits, PF c f b i fr e = Ok bits.
Proof. intros c f b i fr e Hc Hf D. apply C04_no_panic; auto. destruct D. apply deep_ok_always; auto. Qed.

Theorem C05_final : forall c1 c2 f b1 b2 i fr e, In c1 ALL_CONFIGS -> In c2 ALL_CONFIGS ->
  f = F32 \/ f = F64 -> in_domain i fr e -> PF c1 f b1 i fr e = PF c2 f b2 i fr e.
Proof. intros c1 c2 f b1 b2 i fr e H1 H2 Hf D. apply C05_config_independent; auto; destruct D; apply deep_ok_always; auto. Qed.

Theorem C09_final : forall c f b i1 f1 e1 i2 f2 e2 r1 r2, In c ALL_CONFIGS -> f = F32 \/ f = F64 ->
  in_domain i1 f1 e1 -> in_domain i2 f2 e2 -> (dec_value i1 f1 e1 <= dec_value i2 f2 e2)%Q ->
  PF c f b i1 f1 e1 = Ok r1 -> PF c f b i2 f2 e2 = Ok r2 -> r1 <= r2.
Proof.
  intros c f b i1 f1 e1 i2 f2 e2 r1 r2 Hc Hf D1 D2. apply C09_monotone; auto;
  [destruct D1|destruct D2]; apply deep_ok_always; auto.
Qed.

Theorem C10_final : forall c f b i1 f1 e1 i2 f2 e2, In c ALL_CONFIGS -> f = F32 \/ f = F64 ->
  in_domain i1 f1 e1 -> in_domain i2 f2 e2 -> (dec_value i1 f1 e1 == dec_value i2 f2 e2)%Q ->
  PF c f b i1 f1 e1 = PF c f b i2 f2 e2.
Proof.
  intros c f b i1 f1 e1 i2 f2 e2 Hc Hf D1 D2. apply C10_value_invariant; auto;
  [destruct D1|destruct D2]; apply deep_ok_always; auto.
Qed.

Theorem C03_exact_final : forall c f b i fr e x, In c ALL_CONFIGS -> f = F32 \/ f = F64 ->
  in_domain i fr e -> 0 <= x < RoundFacts.inf_bits f -> (dec_value i fr e == value_Q f x)%Q ->
  PF c f b i fr e = Ok x.
Proof. intros c f b i fr e x Hc Hf D. apply C03_roundtrip_exact; auto. destruct D. apply deep_ok_always; auto. Qed.

Theorem C03_17_digits_final : forall c b i fr e x e10, In c ALL_CONFIGS -> in_domain i fr e ->
  0 < x < RoundFacts.inf_bits F64 -> (pow10Q e10 <= value_Q F64 x)%Q ->
  (Qabs (dec_value i fr e - value_Q F64 x) <= pow10Q (e10 - 17 + 1) * (1 # 2))%Q ->
  PF c F64 b i fr e = Ok x.
Proof. intros c b i fr e x e10 Hc D. apply C03_roundtrip_17_digits; auto. destruct D. apply deep_ok_always; auto. Qed.

Theorem C03_9_digits_final : forall c b i fr e x e10, In c ALL_CONFIGS -> in_domain i fr e ->
  0 < x < RoundFacts.inf_bits F32 -> (pow10Q e10 <= value_Q F32 x)%Q ->
  (Qabs (dec_value i fr e - value_Q F32 x) <= pow10Q (e10 - 9 + 1) * (1 # 2))%Q ->
  PF c F32 b i fr e = Ok x.
Proof. intros c b i fr e x e10 Hc D. apply C03_roundtrip_9_digits; auto. destruct D. apply deep_ok_always; auto. Qed.

Theorem C07_final : forall c f b i fr e, In c ALL_CONFIGS -> f = F32 \/ f = F64 -> in_domain i fr e ->
  ((overflow_thresholdQ f <= dec_value i fr e)%Q -> PF c f b i fr e = Ok (RoundFacts.inf_bits f)) /\
  ((dec_value i fr e <= underflow_thresholdQ f)%Q -> PF c f b i fr e = Ok 0) /\
  (digits_to_Z (i ++ fr) = 0 -> PF c f b i fr e = Ok 0).
Proof. intros c f b i fr e Hc Hf D. apply C07_overflow_underflow; auto. destruct D. apply deep_ok_always; auto. Qed.

Theorem C19_final : forall c f b s, In c ALL_CONFIGS -> f = F32 \/ f = F64 -> zlen s <= 2 ^ 28 ->
  let x := lex s in
  fe_simple c TABLES BTABLES LIMITS f b s =
    Ok ((let v := RN f (dec_value (lx_int x) (lx_frac x) (lx_exp x)) in
         if lx_pos x then v else f_neg f v), lx_rest x).
Proof.
  intros c f b s Hc Hf Hlen x. apply front_end_value; try assumption.
  apply deep_ok_always; [exact Hf|].
  apply (lex_establishes_preconditions_len s).
  assert (2 ^ 28 = 268435456) by reflexivity. assert (2 ^ 31 = 2147483648) by reflexivity. lia.
Qed.
