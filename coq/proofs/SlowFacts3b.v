(** * SlowFacts3b: the big-integer slow path returns the correctly rounded value (composition).

    [slow_correct]: for binary32 / binary64, every configuration, every build mode, every valid
    input whose first-stage number is [parse_spec i fr e] with a non-zero significand, and a
    normalised estimate [fp]:  [slow] does not panic and its result packs to
    [RN f (dec_value i fr e)], PROVIDED
      - (negative branch only) the ESTIMATE PREMISE
          [rd_bits f fp <= RN f (dec_value i fr e) <= rd_bits f fp + 1]
        (the truncated estimate `b` is the correctly rounded float or its predecessor), and
      - (negative branch only) [- slow_K f <= exponent]   ([slow_K f = MAX_DIGITS f + 400]),
      - (positive branch only) [X + D <= slow_P]          ([slow_P = 1100]),
    where [exponent = X + D - cnt] is the decimal exponent of the last digit kept
    ([X = e - zlen fr], [D] = number of significant digits, [cnt] = digits kept by
    [parse_mantissa]).  The two numeric bounds make all big-integer operations fit the 62-limb
    capacity (SlowFacts3.v, [slow_capacity]); real callers satisfy them with a wide margin (the
    slow path is only reached for a decimal exponent [q] of the 19-digit significand in
    [-342, 308] for binary64, [-65, 38] for binary32, which gives [-1111 <= exponent] and
    [X + D <= 327]).

    Ingredients: [slow_parse_branch] (SlowFacts3), [positive_digit_comp_correct] (SlowFacts1b),
    [negative_digit_comp_correct_64] (SlowFacts2d), [slow_capacity] (SlowFacts3),
    [truncation_preserves_rounding] (TruncFacts2) through [pm_out_RN], [rne_bits_decQ]. *)
From Coq Require Import ZArith QArith List Bool Lia.
From Coq Require Import ZifyBool.
From ML Require Import base.RustSem model.Fmt model.Mask model.Num model.Number model.Rounding
  model.Vec model.Bigint model.Slow spec.Decimal spec.Round spec.RoundFacts spec.RneZ spec.RneBridge
  gen.Consts gen.Tables gen.PowDump.
From ML Require Import proofs.TableFacts proofs.ParseFacts proofs.LimbVal proofs.BigintFacts1
  proofs.BigintFacts2 proofs.RoundingFactsZ proofs.NumFacts proofs.TruncFacts proofs.TruncFacts2
  proofs.SlowFacts1 proofs.SlowFacts1b proofs.SlowFacts2 proofs.SlowFacts2b proofs.SlowFacts2c
  proofs.SlowFacts2d proofs.SlowFacts3.
Import ListNotations.
Open Scope Z_scope.

Local Opaque Z.pow.
Arguments Z.pow : simpl never.

(** ** 1. The big integer of [parse_mantissa] rounds like the exact decimal value *)

Lemma strip0_hd l : strip0 l <> [] -> hd 48 (strip0 l) <> 48.
Proof.
  intros Hne. destruct (strip0 l) as [|ch r] eqn:E; [congruence|]. cbn [hd].
  exact (strip0_head l ch r E).
Qed.

(** [pm_out] keeps the first [MAX_DIGITS] significant digits, plus a sticky digit: the correctly
    rounded value is unchanged *)
Theorem pm_out_RN f s X :
  sfmt_ok f = true -> trunc_ok f = true ->
  forallb digitb s = true -> hd 48 s <> 48 ->
  let N := fst (pm_out (MAX_DIGITS f) [] s) in
  let cnt := snd (pm_out (MAX_DIGITS f) [] s) in
  RN f (decQ (digits_to_Z s) X) = RN f (decQ N (X + zlen s - cnt)).
Proof.
  intros Hok Ht Hs Hhd. cbv zeta.
  assert (Hm : 1 <= MAX_DIGITS f) by (unfold trunc_ok in Ht; lia).
  destruct (Z_le_gt_dec (zlen s) (MAX_DIGITS f)) as [Hle|Hgt].
  - rewrite pm_out_short by exact Hle. cbn [fst snd].
    replace (X + zlen s - zlen s) with X by lia. reflexivity.
  - rewrite pm_out_long by lia.
    destruct (truncation_preserves_rounding f Hok Ht s X Hs Hhd ltac:(lia)) as (_ & Hne & Hz).
    cbv zeta in Hne, Hz.
    destruct (SlowFacts1.all0 (skipn (Z.to_nat (MAX_DIGITS f)) s)) eqn:Ea; cbn [fst snd].
    + destruct (Hz Ea) as (_ & _ & R). exact R.
    + rewrite (Hne Ea). f_equal. f_equal. lia.
Qed.

(** the two fraction forms of [rne_bits] used by the two branches *)
Lemma rne_bits_pos_RN f N q w :
  sfmt_ok f = true -> 0 <= N -> 0 <= q ->
  rne_bits f (N * 10 ^ q) 1 w -> RN f (decQ N q) = w.
Proof.
  intros Hok HN Hq H. apply (rne_bits_decQ f N q w Hok HN).
  unfold dec_num, dec_den. replace (0 <=? q) with true by lia. exact H.
Qed.

Lemma RN_rne_bits_neg f N q :
  sfmt_ok f = true -> 0 <= N -> q < 0 ->
  rne_bits f N (10 ^ (- q)) (RN f (decQ N q)).
Proof.
  intros Hok HN Hq. pose proof (proj2 (rne_bits_decQ f N q _ Hok HN) eq_refl) as H.
  unfold dec_num, dec_den in H. replace (0 <=? q) with false in H by lia. exact H.
Qed.

(** ** 2. The main theorem *)

(** upper bound on [X + D] (the value is below [10^(X + D)]) in the positive branch *)
Definition slow_P : Z := 1100.

Lemma slow_P_fits : 10 ^ slow_P <= B64 ^ 62.
Proof. vm_compute. discriminate. Qed.

Section Gen.
Variable f : format.
Hypothesis Hs : sfmt_ok f = true.
Hypothesis Ht : trunc_ok f = true.
Hypothesis OK : fmt_ok f = true.
Hypothesis Hf : rfmt_ok f = true.
Hypothesis Hcap : cap_ok f (slow_K f) = true.

Theorem slow_correct_gen c b i fr e fp :
  slow_side c TABLES LIMITS f = true ->
  valid_inputb i fr e = true ->
  let s := strip0 (i ++ fr) in
  let D := zlen s in
  let X := e - zlen fr in
  let n := parse_spec i fr e in
  let exponent := X + D - snd (pm_out (MAX_DIGITS f) [] s) in
  - 2 ^ 29 <= X <= 2 ^ 29 -> zlen i + zlen fr <= 2 ^ 29 ->
  0 < nmant n ->
  2 ^ 63 <= mant fp < 2 ^ 64 -> - 64 <= exp fp <= 2 ^ 30 ->
  (0 <= exponent -> X + D <= slow_P) ->
  (exponent < 0 -> - slow_K f <= exponent) ->
  (exponent < 0 -> rd_bits f fp <= RN f (dec_value i fr e) <= rd_bits f fp + 1) ->
  exists r w, slow c TABLES LIMITS f b n fp i fr = Ok r /\
              extended_to_float f b r = Ok w /\
              w = RN f (dec_value i fr e).
Proof.
  intros Hside V s D X n exponent HX Hlen Hnm Hfp Hfe Hhi Hlo Hest.
  destruct (valid_input_inv _ _ _ V) as (Hi & Hfr & Hlead & _ & _).
  assert (Hne : s <> []).
  { intros E. unfold n, parse_spec in Hnm. cbn [nmant] in Hnm. fold s in Hnm. rewrite E in Hnm.
    cbn [firstn] in Hnm. rewrite digits_to_Z_nil in Hnm. lia. }
  assert (Hsd : forallb digitb s = true).
  { apply strip0_digits. rewrite forallb_app, Hi, Hfr. reflexivity. }
  assert (Hhd : hd 48 s <> 48) by (apply strip0_hd; exact Hne).
  assert (Hmax : 0 < MAX_DIGITS f) by (unfold trunc_ok in Ht; lia).
  assert (Hpdc : pdc_side c TABLES LIMITS f = true).
  { unfold slow_side in Hside. do 4 (apply andb_prop in Hside; destruct Hside as [Hside _]). exact Hside. }
  destruct (slow_parse_branch c TABLES LIMITS f b fp i fr e Hside Hfp Hi Hfr Hlead Hne HX Hlen)
    as (v & cnt & E & Vp & G & Hpos & Hcnt & Hr & Hslow).
  fold s D X in Vp, Hr, Hslow. cbv zeta in Hr, Hslow.
  set (N := lval (vl v)) in *.
  assert (HN : N = fst (pm_out (MAX_DIGITS f) [] s)) by (rewrite <- Vp; reflexivity).
  assert (Hc : cnt = snd (pm_out (MAX_DIGITS f) [] s)) by (rewrite <- Vp; reflexivity).
  assert (Hexp : exponent = X + D - cnt) by (unfold exponent; rewrite <- Hc; reflexivity).
  rewrite <- Hexp in Hr, Hslow. clearbody exponent.
  (* the value *)
  assert (Hval : RN f (dec_value i fr e) = RN f (decQ N exponent)).
  { unfold dec_value. fold X. rewrite <- (strip0_value (i ++ fr)). fold s.
    change (inject_Z (digits_to_Z s) * pow10Q X)%Q with (decQ (digits_to_Z s) X).
    rewrite (pm_out_RN f s X Hs Ht Hsd Hhd). cbv zeta. rewrite <- HN, <- Hc. fold D.
    rewrite <- Hexp. reflexivity. }
  unfold n. rewrite Hslow. destruct (Z.leb_spec 0 exponent) as [Hge|Hlt].
  - (* positive branch *)
    assert (Hfit : N * 10 ^ exponent < B64 ^ BIGINT_LIMBS LIMITS).
    { change (BIGINT_LIMBS LIMITS) with 62.
      pose proof (pm_out_lt (MAX_DIGITS f) s Hmax Hsd) as [Hb _]. rewrite <- HN, <- Hc in Hb.
      assert (H10 : 0 < 10 ^ exponent) by (apply Z.pow_pos_nonneg; lia).
      assert (N * 10 ^ exponent < 10 ^ cnt * 10 ^ exponent) by (apply Z.mul_lt_mono_pos_r; lia).
      rewrite <- Z.pow_add_r in H by lia.
      assert (10 ^ (cnt + exponent) <= 10 ^ slow_P) by (apply Z.pow_le_mono_r; lia).
      pose proof slow_P_fits. lia. }
    assert (H231 : 2 ^ 30 < 2 ^ 31) by (vm_compute; reflexivity).
    destruct (positive_digit_comp_correct c TABLES LIMITS f b v exponent Hpdc G ltac:(lia)
                ltac:(lia) Hfit) as (r & w & R & W & S).
    exists r, w. split; [exact R|]. split; [exact W|].
    rewrite Hval. symmetry. apply (rne_bits_pos_RN f N exponent w Hs); [lia|lia|exact S].
  - (* negative branch *)
    pose (w := RN f (dec_value i fr e)).
    assert (Hrne : rne_bits f N (10 ^ (- exponent)) w).
    { unfold w. rewrite Hval. apply (RN_rne_bits_neg f N exponent Hs); lia. }
    specialize (Hlo Hlt). specialize (Hest Hlt).
    destruct (slow_capacity f fp exponent N w OK Hf Hcap Hfp ltac:(lia) Hpos ltac:(lia) Hrne
                ltac:(lia)) as [CA CB].
    destruct G as (G1 & G2 & G3 & G4 & G5).
    destruct (negative_digit_comp_correct_64 c f b v fp exponent N Hf OK G1 G2 eq_refl ltac:(lia)
                G4 G5 G3 Hfp Hfe ltac:(lia) CA CB w Hrne Hest) as (r & R & W).
    exists r, w. split; [exact R|]. split; [exact W|reflexivity].
Qed.

End Gen.

(** *** the two formats of the crate, every configuration *)
Theorem slow_correct c f b i fr e fp :
  f = F32 \/ f = F64 ->
  valid_inputb i fr e = true ->
  let s := strip0 (i ++ fr) in
  let D := zlen s in
  let X := e - zlen fr in
  let n := parse_spec i fr e in
  let exponent := X + D - snd (pm_out (MAX_DIGITS f) [] s) in
  - 2 ^ 29 <= X <= 2 ^ 29 -> zlen i + zlen fr <= 2 ^ 29 ->
  0 < nmant n ->
  2 ^ 63 <= mant fp < 2 ^ 64 -> - 64 <= exp fp <= 2 ^ 30 ->
  (0 <= exponent -> X + D <= slow_P) ->                                   (* dec_hi *)
  (exponent < 0 -> - slow_K f <= exponent) ->                             (* exponent_lo *)
  (exponent < 0 ->                                                        (* estimate premise *)
     rd_bits f fp <= RN f (dec_value i fr e) <= rd_bits f fp + 1) ->
  exists r w, slow c TABLES LIMITS f b n fp i fr = Ok r /\
              extended_to_float f b r = Ok w /\
              w = RN f (dec_value i fr e).
Proof.
  intros [->| ->].
  - apply (slow_correct_gen F32 sfmt_ok_F32 trunc_ok_F32 F32_ok rfmt_ok_F32 cap_ok_F32 c b i fr e fp
             (slow_side_F32 c)).
  - apply (slow_correct_gen F64 sfmt_ok_F64 trunc_ok_F64 F64_ok rfmt_ok_F64 cap_ok_F64 c b i fr e fp
             (slow_side_F64 c)).
Qed.

(** *** the same with the two numeric bounds derived from the range of the decimal exponent
    [q = nexp n] of the 19-digit significand (what the Eisel-Lemire / Bellerophon stage was given):
    [exponent >= q - MAX_DIGITS f] and [X + D <= q + 19].  Eisel-Lemire declines only for
    [SMALLEST_POWER_OF_TEN f <= q <= LARGEST_POWER_OF_TEN f] ([-342, 308] / [-65, 38]) and
    Bellerophon only for [-350 <= q]: both inside [-400, slow_P - 19 = 1081]. *)
Lemma pm_out_cnt maxd s :
  0 < maxd ->
  (zlen s <= maxd -> snd (pm_out maxd [] s) = zlen s) /\
  (maxd < zlen s -> maxd <= snd (pm_out maxd [] s) <= maxd + 1).
Proof.
  intros Hm. split; intros H.
  - rewrite pm_out_short by exact H. reflexivity.
  - rewrite pm_out_long by lia. destruct (SlowFacts1.all0 _); cbn [snd]; lia.
Qed.

Corollary slow_correct_q c f b i fr e fp :
  f = F32 \/ f = F64 ->
  valid_inputb i fr e = true ->
  let s := strip0 (i ++ fr) in
  let D := zlen s in
  let X := e - zlen fr in
  let n := parse_spec i fr e in
  let exponent := X + D - snd (pm_out (MAX_DIGITS f) [] s) in
  - 2 ^ 29 <= X <= 2 ^ 29 -> zlen i + zlen fr <= 2 ^ 29 ->
  0 < nmant n ->
  2 ^ 63 <= mant fp < 2 ^ 64 -> - 64 <= exp fp <= 2 ^ 30 ->
  - 400 <= nexp n <= slow_P - 19 ->                                       (* range of q *)
  (exponent < 0 ->                                                        (* estimate premise *)
     rd_bits f fp <= RN f (dec_value i fr e) <= rd_bits f fp + 1) ->
  exists r w, slow c TABLES LIMITS f b n fp i fr = Ok r /\
              extended_to_float f b r = Ok w /\
              w = RN f (dec_value i fr e).
Proof.
  intros Hf V s D X n exponent HX Hlen Hnm Hfp Hfe Hq Hest.
  assert (Hmax : 0 < MAX_DIGITS f) by (destruct Hf as [->| ->]; vm_compute; reflexivity).
  assert (HD : 1 <= D <= zlen i + zlen fr).
  { unfold D. split.
    - destruct s as [|x r] eqn:Es; [|rewrite ParseFacts.zlen_cons; pose proof (zlen_nonneg r); lia].
      exfalso. unfold n, parse_spec in Hnm. cbn [nmant] in Hnm. fold s in Hnm. rewrite Es in Hnm.
      cbn [firstn] in Hnm. rewrite digits_to_Z_nil in Hnm. lia.
    - unfold s. pose proof (strip0_len (i ++ fr)) as H. rewrite ParseFacts.zlen_app in H. exact H. }
  assert (H229 : 2 ^ 29 + 2 ^ 29 = 2 ^ 30) by reflexivity.
  assert (H230 : 2 ^ 30 + 2 ^ 30 = 2 ^ 31) by reflexivity.
  assert (Hnexp : nexp n = X + Z.max 0 (D - 19)).
  { unfold n, parse_spec. cbn [nexp]. fold s D X. apply clamp_i32_id. unfold i32_min, i32_max. lia. }
  destruct (pm_out_cnt (MAX_DIGITS f) s Hmax) as [C1 C2]. fold D in C1, C2.
  apply (slow_correct c f b i fr e fp Hf V HX Hlen Hnm Hfp Hfe); fold s D X exponent.
  - intros _. unfold slow_P in *. lia.
  - intros _. unfold slow_K, exponent.
    destruct (Z_le_gt_dec D (MAX_DIGITS f)) as [Hle|Hgt]; [rewrite (C1 Hle)|specialize (C2 ltac:(lia))]; unfold slow_P in Hq; lia.
  - exact Hest.
Qed.

(** ** 3. The hypotheses are satisfiable *)

(** negative branch: 1.00000000000000011102230246251565404236316680908203125 = 1 + 2^-53 (54
    digits), the midpoint of 1.0 and its successor, with the estimate (2^63 + 2^10, 1012) whose
    truncation is 1.0: every configuration and build returns 1.0 (tie to even) *)
Definition ex_neg_i : list Z := [49].
Definition ex_neg_fr : list Z := zdigits 53 11102230246251565404236316680908203125 [].

Example slow_correct_neg_hyps :
  let i := ex_neg_i in let fr := ex_neg_fr in let e := 0 in let fp := ex_fp in
  let s := strip0 (i ++ fr) in
  let D := zlen s in
  let X := e - zlen fr in
  let n := parse_spec i fr e in
  let exponent := X + D - snd (pm_out (MAX_DIGITS F64) [] s) in
  valid_inputb i fr e = true /\ X = -53 /\ D = 54 /\ exponent = -53 /\
  digits_to_Z (i ++ fr) = ex_N /\
  (- 2 ^ 29 <= X <= 2 ^ 29) /\ zlen i + zlen fr <= 2 ^ 29 /\ 0 < nmant n /\
  2 ^ 63 <= mant fp < 2 ^ 64 /\ - 64 <= exp fp <= 2 ^ 30 /\
  X + D <= slow_P /\ - slow_K F64 <= exponent /\
  rd_bits F64 fp = 0x3ff0000000000000 /\ RN F64 (dec_value i fr e) = 0x3ff0000000000000.
Proof.
  vm_compute. repeat split; try reflexivity; discriminate.
Qed.

Example slow_correct_neg_inst c b :
  exists r, slow c TABLES LIMITS F64 b (parse_spec ex_neg_i ex_neg_fr 0) ex_fp ex_neg_i ex_neg_fr = Ok r /\
            extended_to_float F64 b r = Ok 0x3ff0000000000000.
Proof.
  destruct slow_correct_neg_hyps as
    (H1 & H2 & H3 & H4 & H5 & H6 & H7 & H8 & H9 & H10 & H11 & H12 & H13 & H14).
  destruct (slow_correct c F64 b ex_neg_i ex_neg_fr 0 ex_fp (or_intror eq_refl) H1 H6 H7 H8 H9 H10)
    as (r & w & R & W & S).
  - intros _. exact H11.
  - intros _. exact H12.
  - intros _. rewrite H13, H14. lia.
  - exists r. split; [exact R|]. rewrite W, S, H14. reflexivity.
Qed.

(** positive branch: a 40-digit integer; the estimate plays no role *)
Definition ex_pos_i : list Z := zdigits 40 1234567890123456789012345678901234567890 [].

Example slow_correct_pos_hyps :
  let i := ex_pos_i in let fr := @nil Z in let e := 0 in let fp := mkExt (2 ^ 63) 0 in
  let s := strip0 (i ++ fr) in
  let D := zlen s in
  let X := e - zlen fr in
  let n := parse_spec i fr e in
  let exponent := X + D - snd (pm_out (MAX_DIGITS F64) [] s) in
  valid_inputb i fr e = true /\ X = 0 /\ D = 40 /\ exponent = 0 /\
  digits_to_Z (i ++ fr) = 1234567890123456789012345678901234567890 /\
  (- 2 ^ 29 <= X <= 2 ^ 29) /\ zlen i + zlen fr <= 2 ^ 29 /\ 0 < nmant n /\
  2 ^ 63 <= mant fp < 2 ^ 64 /\ - 64 <= exp fp <= 2 ^ 30 /\
  X + D <= slow_P.
Proof.
  vm_compute. repeat split; try reflexivity; discriminate.
Qed.

Example slow_correct_pos_inst c b :
  exists r w, slow c TABLES LIMITS F64 b (parse_spec ex_pos_i [] 0) (mkExt (2 ^ 63) 0) ex_pos_i [] = Ok r /\
            extended_to_float F64 b r = Ok w /\ w = RN F64 (dec_value ex_pos_i [] 0).
Proof.
  apply (slow_correct c F64 b ex_pos_i [] 0 (mkExt (2 ^ 63) 0) (or_intror eq_refl)).
  - vm_compute. reflexivity.
  - vm_compute. split; discriminate.
  - vm_compute. discriminate.
  - vm_compute. reflexivity.
  - vm_compute. split; [discriminate|reflexivity].
  - vm_compute. split; discriminate.
  - intros _. vm_compute. discriminate.
  - intros H. exfalso. vm_compute in H. discriminate H.
  - intros H. exfalso. vm_compute in H. discriminate H.
Qed.

(** truncation: the same tie followed by 745 zeros and a final 1 (800 significant digits, only 769
    are kept, plus the sticky digit: [exponent = -799 + 800 - 770 = -769]); the value is just
    above the midpoint: every configuration and build returns the successor of 1.0 *)
Definition ex_trunc_fr : list Z := ex_neg_fr ++ zeros 745 ++ [49].

Example slow_correct_trunc_hyps :
  let i := ex_neg_i in let fr := ex_trunc_fr in let e := 0 in let fp := ex_fp in
  let s := strip0 (i ++ fr) in
  let D := zlen s in
  let X := e - zlen fr in
  let n := parse_spec i fr e in
  let exponent := X + D - snd (pm_out (MAX_DIGITS F64) [] s) in
  valid_inputb i fr e = true /\ X = -799 /\ D = 800 /\ exponent = -769 /\
  (- 2 ^ 29 <= X <= 2 ^ 29) /\ zlen i + zlen fr <= 2 ^ 29 /\ 0 < nmant n /\
  2 ^ 63 <= mant fp < 2 ^ 64 /\ - 64 <= exp fp <= 2 ^ 30 /\
  - 400 <= nexp n <= slow_P - 19 /\
  rd_bits F64 fp = 0x3ff0000000000000 /\ RN F64 (dec_value i fr e) = 0x3ff0000000000001.
Proof.
  vm_compute. repeat split; try reflexivity; discriminate.
Qed.

Example slow_correct_trunc_inst c b :
  exists r, slow c TABLES LIMITS F64 b (parse_spec ex_neg_i ex_trunc_fr 0) ex_fp ex_neg_i ex_trunc_fr = Ok r /\
            extended_to_float F64 b r = Ok 0x3ff0000000000001.
Proof.
  destruct slow_correct_trunc_hyps as
    (H1 & H2 & H3 & H4 & H5 & H6 & H7 & H8 & H9 & H10 & H11 & H12).
  destruct (slow_correct_q c F64 b ex_neg_i ex_trunc_fr 0 ex_fp (or_intror eq_refl) H1 H5 H6 H7 H8 H9 H10)
    as (r & w & R & W & S).
  - intros _. rewrite H11, H12. lia.
  - exists r. split; [exact R|]. rewrite W, S, H12. reflexivity.
Qed.

Print Assumptions pm_out_RN.
Print Assumptions slow_correct_gen.
Print Assumptions slow_correct.
Print Assumptions slow_correct_q.
