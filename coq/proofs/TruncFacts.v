(** * TruncFacts: the number theory behind "arbitrarily long digit strings are still rounded
    correctly" (property C06), part 1: integers and rationals only (no real numbers).

    The slow path keeps at most [MAX_DIGITS f] significant decimal digits and replaces a non-zero
    tail by one sticky digit [1].  This is harmless because every rounding boundary of the format
    (midpoint of two adjacent floats, incl. the underflow and the overflow threshold) is a
    terminating decimal with few significant digits, so none of them lies strictly inside a
    "cell" [(N0 * 10^k, (N0+1) * 10^k)] whose left end has [MAX_DIGITS f] digits.

    Contents
    - [dlt]/[dle], [dlt_Q], [dle_Q], [deq_Q] : comparing [a * 10^j] and [b * 10^k] (any integer
      exponents) with integers only, and the link to [inject_Z a * pow10Q j] in [Q];
    - [boundary f M E], [bndQ M E = (2M+1) * 2^(E-1)] : the rounding boundaries;
    - [digits_ok f D], [trunc_ok f] (the side condition, tight: it holds for f64 iff
      [768 <= MAX_DIGITS]), [trunc_ok_strict f] (boundaries have at most [MAX_DIGITS - 1] digits);
      [trunc_ok_F32], [trunc_ok_F64], [trunc_ok_strict_F32/64] by [vm_compute];
    - B: [boundary_digits_Z], [boundary_digits] (and [_strict]);
    - C: [cell_core] (integers), [no_boundary_in_cell] (in [Q]);
    - digit strings: [all0_iff], [trunc_split], [trunc_value_in_cell], [sticky_in_cell],
      [trunc_all_zero_value].
    Part 2 (proofs/TruncFacts2.v) connects this to [RN] through Flocq. *)
From Coq Require Import ZArith List Bool Lia Znumtheory QArith Qpower.
From Coq Require Import ZifyBool.
From ML Require Import base.RustSem model.Fmt gen.Consts spec.Decimal spec.RoundFacts
  proofs.ParseFacts.
Import ListNotations.
Open Scope Z_scope.
Local Opaque Z.pow.

(** ** Comparing  a * 10^j  with  b * 10^k  *)

Definition dlt (a j b k : Z) : Prop := a * 10 ^ (j - Z.min j k) < b * 10 ^ (k - Z.min j k).
Definition dle (a j b k : Z) : Prop := a * 10 ^ (j - Z.min j k) <= b * 10 ^ (k - Z.min j k).

(** the value  a * 10^j  as a rational: the uniform notation of this development *)
Definition decQ (a j : Z) : Q := (inject_Z a * pow10Q j)%Q.

Lemma decQ_shift a j t : (decQ a j == inject_Z a * pow10Q (j - t) * pow10Q t)%Q.
Proof.
  unfold decQ. replace j with ((j - t) + t) at 1 by lia. rewrite pow10Q_add. ring.
Qed.

Lemma decQ_norm a j t : t <= j -> (decQ a j == inject_Z (a * 10 ^ (j - t)) * pow10Q t)%Q.
Proof.
  intros H. rewrite (decQ_shift a j t), pow10Q_nonneg_inj by lia.
  rewrite inject_Z_mult. reflexivity.
Qed.

Lemma dlt_Q a j b k : (decQ a j < decQ b k)%Q <-> dlt a j b k.
Proof.
  unfold dlt. set (t := Z.min j k).
  rewrite (decQ_norm a j t), (decQ_norm b k t) by lia.
  rewrite Qmult_lt_r by apply pow10Q_pos. rewrite <- Zlt_Qlt. reflexivity.
Qed.

Lemma dle_Q a j b k : (decQ a j <= decQ b k)%Q <-> dle a j b k.
Proof.
  unfold dle. set (t := Z.min j k).
  rewrite (decQ_norm a j t), (decQ_norm b k t) by lia.
  rewrite Qmult_le_r by apply pow10Q_pos. rewrite <- Zle_Qle. reflexivity.
Qed.

Lemma deq_Q a j b k :
  (decQ a j == decQ b k)%Q <-> a * 10 ^ (j - Z.min j k) = b * 10 ^ (k - Z.min j k).
Proof.
  split.
  - intros H. apply Z.le_antisymm.
    + apply (dle_Q a j b k). rewrite H. apply Qle_refl.
    + pose proof (proj1 (dle_Q b k a j)) as H1. unfold dle in H1. rewrite (Z.min_comm k j) in H1.
      apply H1. rewrite H. apply Qle_refl.
  - intros H. apply Qle_antisym.
    + apply dle_Q. unfold dle. lia.
    + apply dle_Q. unfold dle. rewrite (Z.min_comm k j). lia.
Qed.

Lemma decQ_pos a j : 0 < a -> (0 < decQ a j)%Q.
Proof.
  intros H. unfold decQ. apply Qmult_lt_0_compat; [|apply pow10Q_pos].
  change 0%Q with (inject_Z 0). rewrite <- Zlt_Qlt. exact H.
Qed.

Lemma decQ_nonneg a j : 0 <= a -> (0 <= decQ a j)%Q.
Proof.
  intros H. unfold decQ. apply Qmult_le_0_compat; [|apply Qlt_le_weak, pow10Q_pos].
  change 0%Q with (inject_Z 0). rewrite <- Zle_Qle. exact H.
Qed.

(** appending zeros: [a * 10^r * 10^X = a * 10^(X+r)] *)
Lemma decQ_scale a r X : 0 <= r -> (decQ (a * 10 ^ r) X == decQ a (X + r))%Q.
Proof.
  intros H. apply deq_Q. rewrite Z.min_l by lia.
  replace (X - X) with 0 by lia. replace (X + r - X) with r by lia.
  rewrite Z.pow_0_r. ring.
Qed.

(** ** Boundaries *)

(** [(M, E)] names the boundary [(2M+1) * 2^(E-1)]: the midpoint of the floats [M * 2^E] and
    [(M+1) * 2^E].  [M = 0, E = femin] is the underflow threshold, [M = 2^prec - 1,
    E = emax - prec] the overflow threshold.  (Non-canonical pairs are allowed: the set is only
    larger.) *)
Definition boundary (f : format) (M E : Z) : Prop :=
  femin f <= E <= emax f - prec f /\ 0 <= M < 2 ^ prec f.

Definition bndQ (M E : Z) : Q := (inject_Z (2 * M + 1) * pow2Q (E - 1))%Q.

(** all boundaries of [f] have fewer than [D + 1] significant decimal digits *)
Definition digits_ok (f : format) (D : Z) : bool :=
  (0 <=? prec f) && (femin f <=? 1) && (prec f <=? emax f) &&
  ((2 ^ (prec f + 1) - 1) * 5 ^ (1 - femin f) <? 10 ^ D) &&
  (2 ^ emax f <=? 10 ^ D).

(** the side condition of the truncation argument: boundaries have at most [MAX_DIGITS] digits.
    (For f64 the largest boundary numerator [(2^54 - 1) * 5^1075] has 768 digits, so this holds
    iff [768 <= MAX_DIGITS]; the crate has 769.) *)
Definition trunc_ok (f : format) : bool := (1 <=? MAX_DIGITS f) && digits_ok f (MAX_DIGITS f).

(** the sharper fact: they have at most [MAX_DIGITS - 1] digits *)
Definition trunc_ok_strict (f : format) : bool :=
  (2 <=? MAX_DIGITS f) && digits_ok f (MAX_DIGITS f - 1).

Lemma trunc_ok_F32 : trunc_ok F32 = true. Proof. vm_compute; reflexivity. Qed.
Lemma trunc_ok_F64 : trunc_ok F64 = true. Proof. vm_compute; reflexivity. Qed.
Lemma trunc_ok_strict_F32 : trunc_ok_strict F32 = true. Proof. vm_compute; reflexivity. Qed.
Lemma trunc_ok_strict_F64 : trunc_ok_strict F64 = true. Proof. vm_compute; reflexivity. Qed.

(** tightness: one digit less than the crate's slack and the condition fails *)
Example digits_ok_F64_768 : digits_ok F64 768 = true. Proof. vm_compute; reflexivity. Qed.
Example digits_ok_F64_767 : digits_ok F64 767 = false. Proof. vm_compute; reflexivity. Qed.
Example digits_ok_F32_113 : digits_ok F32 113 = true. Proof. vm_compute; reflexivity. Qed.
Example digits_ok_F32_112 : digits_ok F32 112 = false. Proof. vm_compute; reflexivity. Qed.

Lemma digits_ok_mono f D D' : D <= D' -> digits_ok f D = true -> digits_ok f D' = true.
Proof.
  intros HD H. unfold digits_ok in *.
  destruct (Z_lt_le_dec D 0) as [Hn|Hn].
  - exfalso. rewrite (Z.pow_neg_r 10 D) in H by lia.
    assert (0 < 2 ^ emax f).
    { apply Z.pow_pos_nonneg; [lia|]. lia. }
    lia.
  - assert (10 ^ D <= 10 ^ D') by (apply Z.pow_le_mono_r; lia). lia.
Qed.

Lemma trunc_ok_of_strict f : trunc_ok_strict f = true -> trunc_ok f = true.
Proof.
  unfold trunc_ok_strict, trunc_ok. intros H.
  apply andb_true_iff in H as [H1 H2].
  apply andb_true_iff. split; [lia|].
  apply (digits_ok_mono f (MAX_DIGITS f - 1)); [lia|exact H2].
Qed.

Lemma pow2Q_nonneg k : 0 <= k -> pow2Q k = inject_Z (2 ^ k).
Proof. destruct k as [|p|p]; intros H; try lia; reflexivity. Qed.

Lemma pow2Q_neg k : 0 < k -> pow2Q (- k) = (1 # Z.to_pos (2 ^ k))%Q.
Proof. destruct k as [|p|p]; intros H; try lia; reflexivity. Qed.

Lemma pow10Q_neg k : 0 < k -> pow10Q (- k) = (1 # Z.to_pos (10 ^ k))%Q.
Proof. destruct k as [|p|p]; intros H; try lia; reflexivity. Qed.

Lemma pow_2_5_10 k : 0 <= k -> 2 ^ k * 5 ^ k = 10 ^ k.
Proof. intros H. rewrite <- Z.pow_mul_l. reflexivity. Qed.

(** B, integer form.  The boundary [(2M+1) * 2^(E-1)] is [c * 10^j] with [0 < c < 10^D]:
    for [E >= 1] it is the integer [c = (2M+1) * 2^(E-1) < 2^emax] ([j = 0]);
    for [E <= 0] it is [(2M+1) * 5^(1-E) * 10^(E-1)]. *)
Lemma boundary_digits_Z f D M E :
  digits_ok f D = true -> boundary f M E ->
  exists c j, 0 < c < 10 ^ D /\
    ((1 <= E /\ j = 0 /\ c = (2 * M + 1) * 2 ^ (E - 1)) \/
     (E <= 0 /\ j = E - 1 /\ c = (2 * M + 1) * 5 ^ (1 - E) /\
      c * 2 ^ (1 - E) = (2 * M + 1) * 10 ^ (1 - E))).
Proof.
  intros Hd ((HE1 & HE2) & HM1 & HM2). unfold digits_ok in Hd.
  assert (Hp : 0 <= prec f) by lia.
  assert (HP1 : 2 ^ (prec f + 1) = 2 * 2 ^ prec f).
  { rewrite Z.pow_add_r by lia. rewrite Z.pow_1_r. ring. }
  destruct (Z_le_gt_dec 1 E) as [Hpos|Hneg].
  - exists ((2 * M + 1) * 2 ^ (E - 1)), 0.
    assert (H2 : 0 < 2 ^ (E - 1)) by (apply Z.pow_pos_nonneg; lia).
    split; [|left; auto].
    split; [nia|].
    assert (H3 : 2 ^ (E - 1) <= 2 ^ (emax f - prec f - 1)) by (apply Z.pow_le_mono_r; lia).
    assert (H4 : 2 ^ emax f = 2 ^ (prec f + 1) * 2 ^ (emax f - prec f - 1)).
    { rewrite <- Z.pow_add_r by lia. f_equal. lia. }
    assert (H5 : 0 < 2 ^ (emax f - prec f - 1)) by (apply Z.pow_pos_nonneg; lia).
    assert ((2 * M + 1) * 2 ^ (E - 1) < 2 ^ (prec f + 1) * 2 ^ (emax f - prec f - 1)); [|lia].
    apply Z.le_lt_trans with ((2 * M + 1) * 2 ^ (emax f - prec f - 1)).
    + apply Z.mul_le_mono_nonneg_l; lia.
    + apply Z.mul_lt_mono_pos_r; lia.
  - exists ((2 * M + 1) * 5 ^ (1 - E)), (E - 1).
    assert (H5 : 0 < 5 ^ (1 - E)) by (apply Z.pow_pos_nonneg; lia).
    assert (H6 : 5 ^ (1 - E) <= 5 ^ (1 - femin f)) by (apply Z.pow_le_mono_r; lia).
    split; [|right; split; [lia|split; [reflexivity|split; [reflexivity|]]]].
    + split; [nia|].
      apply Z.le_lt_trans with ((2 ^ (prec f + 1) - 1) * 5 ^ (1 - femin f)); [|lia].
      apply Z.mul_le_mono_nonneg; lia.
    + rewrite <- (pow_2_5_10 (1 - E)) by lia. ring.
Qed.

(** B, in [Q] *)
Theorem boundary_digits_gen f D M E :
  digits_ok f D = true -> boundary f M E ->
  exists c j, 0 < c < 10 ^ D /\ (bndQ M E == decQ c j)%Q.
Proof.
  intros Hd Hb. destruct (boundary_digits_Z f D M E Hd Hb) as (c & j & Hc & H).
  exists c, j. split; [exact Hc|].
  destruct H as [(HE & -> & ->)|(HE & -> & Hc5 & Hc2)]; unfold bndQ, decQ.
  - rewrite pow2Q_nonneg by lia. cbn [pow10Q]. rewrite inject_Z_mult. ring.
  - replace (E - 1) with (- (1 - E)) by lia.
    rewrite pow2Q_neg, pow10Q_neg by lia.
    assert (H2 : 0 < 2 ^ (1 - E)) by (apply Z.pow_pos_nonneg; lia).
    assert (H10 : 0 < 10 ^ (1 - E)) by (apply Z.pow_pos_nonneg; lia).
    unfold Qeq, Qmult, inject_Z. cbn [Qnum Qden Pos.mul].
    rewrite !Z2Pos.id by assumption. lia.
Qed.

Corollary boundary_digits f M E :
  trunc_ok f = true -> boundary f M E ->
  exists c j, 0 < c < 10 ^ MAX_DIGITS f /\ (bndQ M E == decQ c j)%Q.
Proof.
  intros Ht. apply andb_true_iff in Ht as [_ Hd]. apply boundary_digits_gen, Hd.
Qed.

Corollary boundary_digits_strict f M E :
  trunc_ok_strict f = true -> boundary f M E ->
  exists c j, 0 < c < 10 ^ (MAX_DIGITS f - 1) /\ (bndQ M E == decQ c j)%Q.
Proof.
  intros Ht. apply andb_true_iff in Ht as [_ Hd]. apply boundary_digits_gen, Hd.
Qed.

(** ** C: no short decimal strictly inside a cell *)

(** integers only: [c * 10^j] with [c < 10^D] is not strictly between [N0 * 10^k] and
    [(N0+1) * 10^k] when [N0] has at least [D] digits *)
Theorem cell_core D N0 k c j :
  0 < D -> 10 ^ (D - 1) <= N0 -> 0 < c < 10 ^ D ->
  dlt N0 k c j -> dlt c j (N0 + 1) k -> False.
Proof.
  intros HD HN Hc H1 H2. unfold dlt in *. rewrite (Z.min_comm j k) in H2.
  destruct (Z_le_gt_dec k j) as [Hkj|Hkj].
  - rewrite Z.min_l in * by lia. replace (k - k) with 0 in * by lia.
    rewrite Z.pow_0_r in *. lia.
  - rewrite Z.min_r in * by lia. replace (j - j) with 0 in * by lia.
    rewrite Z.pow_0_r in *.
    assert (H10 : 10 ^ 1 <= 10 ^ (k - j)) by (apply Z.pow_le_mono_r; lia).
    rewrite Z.pow_1_r in H10.
    assert (HDD : 10 ^ D = 10 ^ (D - 1) * 10).
    { replace D with ((D - 1) + 1) at 1 by lia. rewrite Z.pow_add_r by lia.
      rewrite Z.pow_1_r. reflexivity. }
    assert (0 < 10 ^ (D - 1)) by (apply Z.pow_pos_nonneg; lia).
    assert (10 ^ (D - 1) * 10 <= N0 * 10 ^ (k - j)) by (apply Z.mul_le_mono_nonneg; lia).
    lia.
Qed.

Theorem no_boundary_in_cell_gen f D N0 k M E :
  0 < D -> digits_ok f D = true -> boundary f M E -> 10 ^ (D - 1) <= N0 ->
  (decQ N0 k < bndQ M E)%Q -> (bndQ M E < decQ (N0 + 1) k)%Q -> False.
Proof.
  intros HD Hd Hb HN H1 H2.
  destruct (boundary_digits_gen f D M E Hd Hb) as (c & j & Hc & Heq).
  rewrite Heq in H1, H2. apply dlt_Q in H1, H2.
  exact (cell_core D N0 k c j HD HN Hc H1 H2).
Qed.

(** C *)
Theorem no_boundary_in_cell f N0 k M E :
  trunc_ok f = true -> boundary f M E -> 10 ^ (MAX_DIGITS f - 1) <= N0 ->
  (decQ N0 k < bndQ M E)%Q -> (bndQ M E < decQ (N0 + 1) k)%Q -> False.
Proof.
  intros Ht. apply andb_true_iff in Ht as [H1 Hd].
  apply no_boundary_in_cell_gen; [lia|exact Hd].
Qed.

(** ** Digit strings: where the exact value and the sticky value lie *)

Definition all0 (l : list Z) : bool := forallb (fun c => c =? 48) l.

Lemma all0_iff l : forallb digitb l = true -> (all0 l = true <-> digits_to_Z l = 0).
Proof.
  intros Hd. rewrite <- (strip0_nil_iff l Hd). clear Hd.
  induction l as [|c r IH].
  - split; reflexivity.
  - cbn [all0 forallb strip0]. fold (all0 r).
    destruct (c =? 48) eqn:Ec; cbn [andb].
    + exact IH.
    + split; discriminate.
Qed.

(** so does the value with the sticky digit *)
Lemma sticky_in_cell N0 k :
  (decQ N0 k < decQ (N0 * 10 + 1) (k - 1))%Q /\ (decQ (N0 * 10 + 1) (k - 1) < decQ (N0 + 1) k)%Q.
Proof.
  split; apply dlt_Q; unfold dlt.
  - rewrite Z.min_r by lia. replace (k - 1 - (k - 1)) with 0 by lia.
    replace (k - (k - 1)) with 1 by lia. rewrite Z.pow_0_r, Z.pow_1_r. lia.
  - rewrite Z.min_l by lia. replace (k - 1 - (k - 1)) with 0 by lia.
    replace (k - (k - 1)) with 1 by lia. rewrite Z.pow_0_r, Z.pow_1_r. lia.
Qed.

Lemma firstn_lower m l :
  (1 <= m)%nat -> forallb digitb l = true -> hd 48 l <> 48 -> (m <= length l)%nat ->
  10 ^ (Z.of_nat m - 1) <= digits_to_Z (firstn m l).
Proof.
  intros Hm Hl Hh Hlen.
  destruct m as [|m]; [lia|]. destruct l as [|c t]; [cbn in Hh; lia|].
  cbn [hd] in Hh. cbn [firstn]. cbn [length] in Hlen.
  assert (Hf : forallb digitb (c :: firstn m t) = true).
  { cbn [forallb] in *. apply andb_true_iff in Hl as [Hc Ht].
    apply andb_true_iff. split; [exact Hc|].
    rewrite <- (firstn_skipn m t) in Ht. exact (forallb_app_l _ _ _ _ Ht). }
  pose proof (digits_lower c (firstn m t) Hf Hh) as H.
  assert (Hz : zlen (firstn m t) = Z.of_nat (S m) - 1).
  { rewrite zlen_firstn. unfold zlen. lia. }
  rewrite <- Hz. exact H.
Qed.

Section Digits.
Variable maxd : Z.
Variable s : list Z.
Hypothesis Hmax : 1 <= maxd.
Hypothesis Hs : forallb digitb s = true.
Hypothesis Hhd : hd 48 s <> 48.
Hypothesis Hlen : maxd < zlen s.

Let n := Z.to_nat maxd.
Let N0 := digits_to_Z (firstn n s).
Let rest := skipn n s.
Let R := digits_to_Z rest.
Let r := zlen s - maxd.

Lemma trunc_rest_len : zlen rest = r.
Proof. unfold rest, r, n. rewrite zlen_skipn. lia. Qed.

Lemma trunc_split : digits_to_Z s = N0 * 10 ^ r + R.
Proof. unfold N0, R, rest. rewrite <- trunc_rest_len. apply digits_split. Qed.

Lemma trunc_digits : forallb digitb (firstn n s) = true /\ forallb digitb rest = true.
Proof.
  rewrite <- (firstn_skipn n s) in Hs. split.
  - exact (forallb_app_l _ _ _ _ Hs).
  - exact (forallb_app_r _ _ _ _ Hs).
Qed.

Lemma trunc_N0_range : 10 ^ (maxd - 1) <= N0 < 10 ^ maxd.
Proof.
  destruct trunc_digits as [Hf _].
  assert (Hl : zlen (firstn n s) = maxd) by (unfold n; rewrite zlen_firstn; lia).
  pose proof (digits_bound _ Hf) as Hb. rewrite Hl in Hb. fold N0 in Hb.
  split; [|lia].
  replace (maxd - 1) with (Z.of_nat n - 1) by (unfold n; lia).
  apply firstn_lower; try assumption; unfold n, zlen in *; lia.
Qed.

Lemma trunc_R_range : 0 <= R < 10 ^ r.
Proof.
  destruct trunc_digits as [_ Hr]. pose proof (digits_bound _ Hr) as H.
  rewrite trunc_rest_len in H. exact H.
Qed.

Lemma trunc_R_pos : all0 rest = false -> 0 < R.
Proof.
  intros H. destruct trunc_digits as [_ Hr]. pose proof trunc_R_range.
  assert (R <> 0); [|lia]. intros HR0. apply (all0_iff rest Hr) in HR0. congruence.
Qed.

(** the exact value lies strictly inside the cell of its first [maxd] digits *)
Lemma trunc_value_in_cell X : all0 rest = false ->
  (decQ N0 (X + r) < decQ (digits_to_Z s) X)%Q /\
  (decQ (digits_to_Z s) X < decQ (N0 + 1) (X + r))%Q.
Proof.
  intros H. pose proof (trunc_R_pos H). pose proof trunc_R_range.
  assert (Hr : 0 < r) by (unfold r; lia).
  rewrite trunc_split. split; apply dlt_Q; unfold dlt.
  - rewrite Z.min_r by lia. replace (X - X) with 0 by lia. replace (X + r - X) with r by lia.
    rewrite Z.pow_0_r. lia.
  - rewrite Z.min_l by lia. replace (X - X) with 0 by lia. replace (X + r - X) with r by lia.
    rewrite Z.pow_0_r. lia.
Qed.

(** an all-zero tail: the value is exactly that of the kept digits *)
Lemma trunc_all_zero_value X : all0 rest = true ->
  digits_to_Z s = N0 * 10 ^ r /\ (decQ (digits_to_Z s) X == decQ N0 (X + r))%Q.
Proof.
  intros H. destruct trunc_digits as [_ Hr]. apply (all0_iff rest Hr) in H. fold R in H.
  assert (E : digits_to_Z s = N0 * 10 ^ r) by (rewrite trunc_split; lia).
  split; [exact E|]. rewrite E. apply decQ_scale. unfold r. lia.
Qed.

End Digits.

(** trailing zeros: appending [z] zeros and lowering the exponent by [z] is the same value *)
Definition zeros (z : nat) : list Z := repeat 48 z.

Lemma zeros_value z : digits_to_Z (zeros z) = 0.
Proof.
  unfold zeros. induction z as [|z IH]; [reflexivity|]. cbn [repeat].
  rewrite digits_to_Z_cons_lin, IH. lia.
Qed.

Lemma trailing_zeros_value s z X :
  (decQ (digits_to_Z (s ++ zeros z)) (X - Z.of_nat z) == decQ (digits_to_Z s) X)%Q.
Proof.
  rewrite digits_to_Z_app, zeros_value, Z.add_0_r.
  assert (Hl : zlen (zeros z) = Z.of_nat z)
    by (unfold zlen, zeros; rewrite repeat_length; reflexivity).
  rewrite Hl, decQ_scale by lia. replace (X - Z.of_nat z + Z.of_nat z) with X by lia. reflexivity.
Qed.

(** ** Examples *)
(* the largest f64 boundary numerator has exactly 768 digits *)
Example largest_boundary_F64 :
  10 ^ 767 <= (2 ^ 54 - 1) * 5 ^ 1075 < 10 ^ 768.
Proof. vm_compute. split; [discriminate|reflexivity]. Qed.
Example largest_boundary_F32 :
  10 ^ 112 <= (2 ^ 25 - 1) * 5 ^ 150 < 10 ^ 113.
Proof. vm_compute. split; [discriminate|reflexivity]. Qed.
(* hypotheses of [boundary_digits] / [no_boundary_in_cell] on a concrete instance:
   the boundary 1 + 2^-53 of binary64 = 10000000000000001110223024625156540423631668090820312 5 * 10^-53 *)
Example boundary_ex : boundary F64 (2 ^ 52) (-52).
Proof. vm_compute. repeat split; discriminate. Qed.
Example boundary_ex_digits :
  (bndQ (2 ^ 52) (-52) == decQ ((2 ^ 53 + 1) * 5 ^ 53) (-53))%Q.
Proof. vm_compute. reflexivity. Qed.
Example cell_core_ex : ~ (dlt 100 0 1005 (-1) /\ dlt 1005 (-1) 101 0 /\ 1005 < 10 ^ 3).
Proof. vm_compute. intros (_ & _ & H). discriminate. Qed.
Example dlt_ex : dlt 100 0 1005 (-1) /\ dlt 1005 (-1) 101 0.
Proof. vm_compute. split; reflexivity. Qed.

Print Assumptions boundary_digits_Z.
Print Assumptions boundary_digits.
Print Assumptions boundary_digits_strict.
Print Assumptions cell_core.
Print Assumptions no_boundary_in_cell.
Print Assumptions trunc_value_in_cell.
Print Assumptions sticky_in_cell.
Print Assumptions trunc_all_zero_value.
Print Assumptions trailing_zeros_value.
