(** * EndToEnd8: the shipped string front end returns the correctly rounded, correctly signed value
    of the literal it matched, and exactly the unconsumed suffix (C19), by composing the lexer
    theorems (proofs/FrontEndFacts.v) with [parse_float_correct]. *)
From Coq Require Import ZArith QArith List Bool Lia.
From ML Require Import base.RustSem model.Fmt model.Num model.FloatOps model.Number model.Top model.FrontEnd
  spec.Decimal spec.Round gen.Consts gen.Tables gen.BTables gen.PowDump
  proofs.ParseFacts proofs.FrontEndFacts proofs.EndToEnd4 proofs.EndToEnd6 proofs.EndToEnd7.
Import ListNotations.
Open Scope Z_scope.

(** For every byte string s of at most 2^28 bytes: with (pos, int, frac, e, rest) := lex s - the
    maximal-munch decomposition sign / digits / '.' digits / exponent / rest, the exponent saturated
    to i32 ([lex_spec], [lex_unique], [lex_longest_prefix]) - the front end returns the pattern of
    +- RN (int.frac x 10^e) (the value of the literal AS WRITTEN, before trimming) and [rest]. *)
Theorem front_end_value : forall c f b s,
  In c ALL_CONFIGS -> f = F32 \/ f = F64 -> zlen s <= 2 ^ 28 ->
  let x := lex s in
  deep_ok c f b (ltrim_zero (lx_int x)) (rtrim_zero (lx_frac x)) (lx_exp x) ->
  fe_simple c TABLES BTABLES LIMITS f b s =
    Ok ((let v := RN f (dec_value (lx_int x) (lx_frac x) (lx_exp x)) in
         if lx_pos x then v else f_neg f v), lx_rest x).
Proof.
  intros c f b s Hc Hf Hlen x Hdeep.
  rewrite fe_simple_lex. unfold fe_numeric. cbn [andb]. fold x.
  assert (H28 : 2 ^ 28 = 268435456) by reflexivity. assert (H31 : 2 ^ 31 = 2147483648) by reflexivity.
  assert (V : valid_inputb (ltrim_zero (lx_int x)) (rtrim_zero (lx_frac x)) (lx_exp x) = true).
  { apply (lex_establishes_preconditions_len s). lia. }
  assert (L : zlen (ltrim_zero (lx_int x)) + zlen (rtrim_zero (lx_frac x)) <= 2 ^ 28).
  { pose proof (lex_lengths s). pose proof (zlen_nonneg (lx_rest (lex s))).
    pose proof (ltrim_zero_zlen (lx_int (lex s))). pose proof (rtrim_zero_zlen (lx_frac (lex s))).
    unfold x. lia. }
  rewrite (parse_float_correct c f b _ _ _ Hc Hf V L Hdeep). cbn [bind].
  assert (Hs : RoundFacts.sfmt_ok f = true)
    by (destruct Hf; subst; [exact RoundFacts.sfmt_ok_F32|exact RoundFacts.sfmt_ok_F64]).
  rewrite (RoundFacts.RN_Qeq f Hs _ (dec_value (lx_int x) (lx_frac x) (lx_exp x))
             (EndToEnd.dec_value_nonneg _ _ _ V) (trim_preserves_value _ _ _)).
  reflexivity.
Qed.
