(** * RoundingFactsZ: integer-level characterisation of src/mask.rs and src/rounding.rs (C18).

    Everything here is about [Z]; the link with Flocq's real-number rounding is in
    proofs/RoundingFacts.v.  All statements are for an arbitrary build [b] (overflow checks and
    debug assertions on or off): in the stated ranges no operation panics or wraps.

    Contents: 1. mask helpers ([nth_bit_ok], [lower_n_mask_ok], [lower_n_halfway_ok], behaviour
    outside the domain); 2. [round_nearest_tie_even_Z] (any direction callback, shift >= 1),
    [round_nearest_tie_even_shift0] (the shift-0 quirk), [round_down_Z]; 3. [rfmt_ok],
    [round_spec], [round_Z] (any shifting callback returning floor or floor + 1), [round_ne_Z],
    [round_cb_Z], [round_down_round_Z], [round_spec_fields]; the packed word
    ([extended_to_float_fields], [round_ne_packed_Z], [round_down_packed_Z]). *)
From Coq Require Import ZArith List Bool Lia Znumtheory.
From Coq Require Import ZifyBool.
From ML Require Import base.RustSem model.Fmt model.Mask model.Num model.Rounding gen.Consts.
Local Ltac Zify.zify_post_hook ::= Z.div_mod_to_equations.
Open Scope Z_scope.

(** ** Small facts about the machine operations *)

Lemma bind_Ok {A B} (a : A) (k : A -> outcome B) : bind (Ok a) k = k a.
Proof. reflexivity. Qed.

Lemma bind_ok_inv {A B} (x : outcome A) (k : A -> outcome B) r :
  bind x k = Ok r -> exists a, x = Ok a /\ k a = Ok r.
Proof. destruct x as [a| |]; cbn [bind]; intros H; [exists a; auto|discriminate|discriminate]. Qed.

Lemma debug_assert_true b c : c = true -> debug_assert b c = Ok tt.
Proof. intros ->. unfold debug_assert. cbn [negb]. rewrite andb_false_r. reflexivity. Qed.

Lemma debug_assert_false_dbg b c : c = false -> dbg b = true -> debug_assert b c = Panic PkAssert.
Proof. intros -> H. unfold debug_assert. rewrite H. reflexivity. Qed.

Lemma debug_assert_nodbg b c : dbg b = false -> debug_assert b c = Ok tt.
Proof. intros H. unfold debug_assert. rewrite H. reflexivity. Qed.

Lemma uop_ok b n r : 0 <= r < 2 ^ n -> uop b n r = Ok r.
Proof.
  intros H. unfold uop, in_u.
  replace ((0 <=? r) && (r <? 2 ^ n)) with true by lia. reflexivity.
Qed.

Lemma sop32_ok b r : - 2 ^ 31 <= r < 2 ^ 31 -> sop b 32 r = Ok r.
Proof.
  intros H. unfold sop, in_s. change (32 - 1) with 31.
  replace ((- 2 ^ 31 <=? r) && (r <? 2 ^ 31)) with true by lia. reflexivity.
Qed.

Lemma pow2_pos k : 0 <= k -> 0 < 2 ^ k.
Proof. intros. apply Z.pow_pos_nonneg; lia. Qed.

Lemma pow2_succ k : 0 <= k -> 2 ^ (k + 1) = 2 * 2 ^ k.
Proof. intros. rewrite Z.pow_add_r by lia. change (2 ^ 1) with 2. lia. Qed.

Lemma pow2_pred k : 1 <= k -> 2 ^ k = 2 * 2 ^ (k - 1).
Proof. intros. replace k with ((k - 1) + 1) at 1 by lia. apply pow2_succ. lia. Qed.

Lemma pow2_lt a c : 0 <= a < c -> 2 ^ a < 2 ^ c.
Proof. intros. apply Z.pow_lt_mono_r; lia. Qed.

Lemma pow2_le a c : 0 <= a <= c -> 2 ^ a <= 2 ^ c.
Proof. intros. apply Z.pow_le_mono_r; lia. Qed.

Lemma pow2_split a c : 0 <= a -> 0 <= c -> 2 ^ (a + c) = 2 ^ a * 2 ^ c.
Proof. intros. apply Z.pow_add_r; lia. Qed.

Lemma u64_shl_1 b k : 0 <= k < 64 -> u64_shl b 1 k = Ok (2 ^ k).
Proof.
  intros H. unfold u64_shl, shl_u.
  replace ((0 <=? k) && (k <? 64)) with true by lia.
  unfold wrapu. rewrite Z.mul_1_l. rewrite Z.mod_small; [reflexivity|].
  split; [apply Z.lt_le_incl, pow2_pos; lia|apply pow2_lt; lia].
Qed.

Lemma u64_shr_ok b x k : 0 <= k < 64 -> u64_shr b x k = Ok (x / 2 ^ k).
Proof.
  intros H. unfold u64_shr, shr_u.
  replace ((0 <=? k) && (k <? 64)) with true by lia. reflexivity.
Qed.

Lemma as_u64_small k : 0 <= k < 2 ^ 64 -> as_u64 k = k.
Proof. intros. unfold as_u64, wrapu. apply Z.mod_small; assumption. Qed.

Lemma small_lt_2_64 k : 0 <= k <= 64 -> 0 <= k < 2 ^ 64.
Proof.
  intros. split; [lia|]. apply Z.le_lt_trans with 64; [lia|]. vm_compute. reflexivity.
Qed.

(** ** 1. The mask helpers, all widths *)

Theorem nth_bit_ok b n : 0 <= n < 64 -> nth_bit b n = Ok (2 ^ n).
Proof.
  intros H. unfold nth_bit. rewrite debug_assert_true by lia. cbn [bind].
  apply u64_shl_1; assumption.
Qed.

Theorem lower_n_mask_ok b n : 0 <= n <= 64 -> lower_n_mask b n = Ok (2 ^ n - 1).
Proof.
  intros H. unfold lower_n_mask. rewrite debug_assert_true by lia. cbn [bind].
  destruct (n =? 64) eqn:E.
  - apply Z.eqb_eq in E. subst n. reflexivity.
  - apply Z.eqb_neq in E. rewrite u64_shl_1 by lia. cbn [bind].
    unfold u64_sub. apply uop_ok.
    pose proof (pow2_pos n ltac:(lia)). pose proof (pow2_lt n 64 ltac:(lia)). lia.
Qed.

Theorem lower_n_halfway_ok b n :
  0 <= n <= 64 -> lower_n_halfway b n = Ok (if n =? 0 then 0 else 2 ^ (n - 1)).
Proof.
  intros H. unfold lower_n_halfway. rewrite debug_assert_true by lia. cbn [bind].
  destruct (n =? 0) eqn:E; [reflexivity|]. apply Z.eqb_neq in E.
  unfold u64_sub. rewrite uop_ok.
  - cbn [bind]. apply nth_bit_ok. lia.
  - split; [lia|]. apply Z.lt_trans with 64; [lia|]. vm_compute. reflexivity.
Qed.

(** Outside the documented domain.  With debug assertions the helpers panic; without debug
    assertions but with overflow checks the shift panics; a plain release build masks the
    shift amount (`1 << 65` is `1 << 1`, `1 << 64` is `1 << 0`). *)
Theorem nth_bit_64_debug b : dbg b = true -> nth_bit b 64 = Panic PkAssert.
Proof. intros H. unfold nth_bit. rewrite debug_assert_false_dbg by (auto; reflexivity). reflexivity. Qed.

Theorem lower_n_mask_65_debug b : dbg b = true -> lower_n_mask b 65 = Panic PkAssert.
Proof. intros H. unfold lower_n_mask. rewrite debug_assert_false_dbg by (auto; reflexivity). reflexivity. Qed.

Theorem lower_n_halfway_65_debug b : dbg b = true -> lower_n_halfway b 65 = Panic PkAssert.
Proof. intros H. unfold lower_n_halfway. rewrite debug_assert_false_dbg by (auto; reflexivity). reflexivity. Qed.

Theorem mask_helpers_release_outside :
  nth_bit release_build 64 = Ok 1 /\
  lower_n_mask release_build 65 = Ok 1 /\
  lower_n_halfway release_build 65 = Ok 1 /\
  nth_bit (mkBuild true false) 64 = Panic PkOverflow /\
  lower_n_mask (mkBuild true false) 65 = Panic PkOverflow /\
  lower_n_halfway (mkBuild true false) 65 = Panic PkOverflow.
Proof. repeat split; vm_compute; reflexivity. Qed.

(** ** Bit-operation facts used by the rounding code *)

Lemma land_mask a k : 0 <= k -> Z.land a (2 ^ k - 1) = a mod 2 ^ k.
Proof.
  intros H. rewrite <- Z.land_ones by assumption. rewrite Z.ones_equiv. reflexivity.
Qed.

Lemma land_1_odd a : (Z.land a 1 =? 1) = Z.odd a.
Proof.
  change 1 with (2 ^ 1 - 1) at 1. rewrite land_mask by lia. change (2 ^ 1) with 2.
  rewrite Zmod_odd. destruct (Z.odd a); reflexivity.
Qed.

(** the carry test: for [m <= 2^k], bit [k] is set exactly when [m = 2^k] *)
Lemma land_pow2 m k : 0 <= k -> 0 <= m <= 2 ^ k ->
  (Z.land m (2 ^ k) =? 2 ^ k) = (m =? 2 ^ k).
Proof.
  intros Hk Hm. pose proof (pow2_pos k Hk) as Hp.
  destruct (m =? 2 ^ k) eqn:E.
  - apply Z.eqb_eq in E. rewrite E. rewrite Z.land_diag. apply Z.eqb_refl.
  - apply Z.eqb_neq in E. apply Z.eqb_neq. intros H.
    assert (Hb : Z.testbit (Z.land m (2 ^ k)) k = true).
    { rewrite H. apply Z.pow2_bits_true. assumption. }
    rewrite Z.land_spec in Hb. apply andb_prop in Hb. destruct Hb as [Hb _].
    apply Z.testbit_true in Hb; [|assumption].
    rewrite Z.div_small in Hb by lia. discriminate Hb.
Qed.

(** ** 2. [round_nearest_tie_even] and [round_down] at the level of integers *)

(** shift right by [s] and round to nearest, ties to even *)
Definition rnd_ne (mant s : Z) : Z :=
  let q := mant / 2 ^ s in
  let r := mant mod 2 ^ s in
  if (2 * r >? 2 ^ s) || ((2 * r =? 2 ^ s) && Z.odd q) then q + 1 else q.

(** the same with an arbitrary direction callback [cb is_odd is_halfway is_above] *)
Definition rnd_cb (cb : bool -> bool -> bool -> bool) (mant s : Z) : Z :=
  let q := mant / 2 ^ s in
  let r := mant mod 2 ^ s in
  q + (if cb (Z.odd q) (2 * r =? 2 ^ s) (2 * r >? 2 ^ s) then 1 else 0).

Lemma rnd_cb_nearest_even mant s : rnd_cb cb_nearest_even mant s = rnd_ne mant s.
Proof.
  unfold rnd_cb, rnd_ne, cb_nearest_even. cbv zeta.
  rewrite (andb_comm (Z.odd _)).
  destruct (_ || _); lia.
Qed.

Lemma rnd_cb_bounds cb mant s : 0 <= s ->
  mant / 2 ^ s <= rnd_cb cb mant s <= mant / 2 ^ s + 1.
Proof. intros. unfold rnd_cb. cbv zeta. destruct (cb _ _ _); lia. Qed.

Lemma rnd_ne_bounds mant s : 0 <= s -> mant / 2 ^ s <= rnd_ne mant s <= mant / 2 ^ s + 1.
Proof. intros. rewrite <- rnd_cb_nearest_even. apply rnd_cb_bounds. assumption. Qed.

Lemma div_pow2_lt mant s : 0 <= mant < 2 ^ 64 -> 0 <= s <= 64 ->
  0 <= mant / 2 ^ s < 2 ^ (64 - s).
Proof.
  intros Hm Hs. pose proof (pow2_pos s ltac:(lia)).
  split; [apply Z.div_pos; lia|].
  apply Z.div_lt_upper_bound; [lia|]. rewrite <- pow2_split by lia.
  replace (s + (64 - s)) with 64 by lia. lia.
Qed.

(** the right shift of the model: [shift == 64] is special-cased to 0, which is also [mant / 2^64] *)
Lemma shr_or_zero b mant s : 0 <= mant < 2 ^ 64 -> 0 <= s <= 64 ->
  (if s =? 64 then Ok 0 else u64_shr b mant s) = Ok (mant / 2 ^ s).
Proof.
  intros Hm Hs. destruct (s =? 64) eqn:E.
  - apply Z.eqb_eq in E. subst s. rewrite Z.div_small by lia. reflexivity.
  - apply Z.eqb_neq in E. apply u64_shr_ok. lia.
Qed.

(** General callback, shift at least one (every call made by the crate: see [round]). *)
Theorem round_nearest_tie_even_Z b mant exp s cb :
  0 <= mant < 2 ^ 64 -> 1 <= s <= 64 -> - 2 ^ 31 <= exp + s < 2 ^ 31 ->
  round_nearest_tie_even b (mkExt mant exp) s cb = Ok (mkExt (rnd_cb cb mant s) (exp + s)).
Proof.
  intros Hm Hs He. unfold round_nearest_tie_even. cbn [Num.mant Num.exp].
  rewrite debug_assert_true by lia. cbn [bind].
  rewrite as_u64_small by (apply small_lt_2_64; lia).
  rewrite lower_n_mask_ok by lia. cbn [bind].
  rewrite lower_n_halfway_ok by lia. cbn [bind].
  replace (s =? 0) with false by lia.
  rewrite shr_or_zero by lia. cbn [bind].
  unfold i32_add. rewrite sop32_ok by lia. cbn [bind].
  rewrite land_mask by lia. rewrite land_1_odd.
  pose proof (pow2_pred s ltac:(lia)) as H2.
  pose proof (pow2_pos (s - 1) ltac:(lia)) as Hp.
  set (q := mant / 2 ^ s). set (r := mant mod 2 ^ s).
  assert (Hr : 0 <= r < 2 ^ s) by (apply Z.mod_pos_bound; lia).
  replace (2 ^ (s - 1) <? r) with (2 * r >? 2 ^ s) by lia.
  replace (r =? 2 ^ (s - 1)) with (2 * r =? 2 ^ s) by lia.
  assert (Hq : 0 <= q < 2 ^ 63).
  { pose proof (div_pow2_lt mant s Hm ltac:(lia)) as Hq. fold q in Hq.
    pose proof (pow2_le (64 - s) 63 ltac:(lia)). lia. }
  unfold u64_add. rewrite uop_ok.
  - cbn [bind]. unfold rnd_cb. cbv zeta. fold q r. reflexivity.
  - change (2 ^ 64) with (2 * 2 ^ 63). destruct (cb _ _ _); lia.
Qed.

Theorem round_nearest_tie_even_ne_Z b mant exp s :
  0 <= mant < 2 ^ 64 -> 1 <= s <= 64 -> - 2 ^ 31 <= exp + s < 2 ^ 31 ->
  round_nearest_tie_even b (mkExt mant exp) s cb_nearest_even
  = Ok (mkExt (rnd_ne mant s) (exp + s)).
Proof. intros. rewrite round_nearest_tie_even_Z by assumption. rewrite rnd_cb_nearest_even. reflexivity. Qed.

(** Shift zero (never requested by the crate, reachable through the public function only):
    the halfway mark is 0 and so are the truncated bits, hence the model (like the Rust code)
    reports [is_halfway = true], [is_above = false]: an odd significand is *incremented* by the
    nearest-even callback although nothing was shifted out, and [mant = 2^64 - 1] overflows the
    addition. *)
Theorem round_nearest_tie_even_shift0 b mant exp cb :
  0 <= mant < 2 ^ 64 -> - 2 ^ 31 <= exp < 2 ^ 31 ->
  round_nearest_tie_even b (mkExt mant exp) 0 cb
  = (m' <- u64_add b mant (if cb (Z.odd mant) true false then 1 else 0) ;; Ok (mkExt m' exp)).
Proof.
  intros Hm He. unfold round_nearest_tie_even. cbn [Num.mant Num.exp].
  rewrite debug_assert_true by lia. cbn [bind].
  rewrite as_u64_small by (apply small_lt_2_64; lia).
  rewrite lower_n_mask_ok by lia. cbn [bind].
  rewrite lower_n_halfway_ok by lia. cbn [bind].
  change (0 =? 0) with true. change (0 =? 64) with false. cbv iota.
  rewrite u64_shr_ok by lia. cbn [bind].
  unfold i32_add. rewrite Z.add_0_r. rewrite sop32_ok by lia. cbn [bind].
  change (2 ^ 0) with 1. rewrite Z.div_1_r. change (1 - 1) with 0. rewrite Z.land_0_r.
  rewrite land_1_odd. reflexivity.
Qed.

Corollary round_nearest_tie_even_shift0_odd b mant exp :
  0 <= mant < 2 ^ 64 - 1 -> Z.odd mant = true -> - 2 ^ 31 <= exp < 2 ^ 31 ->
  round_nearest_tie_even b (mkExt mant exp) 0 cb_nearest_even = Ok (mkExt (mant + 1) exp).
Proof.
  intros Hm Ho He. rewrite round_nearest_tie_even_shift0 by lia. rewrite Ho.
  unfold cb_nearest_even. cbn [orb andb]. unfold u64_add. rewrite uop_ok by lia. reflexivity.
Qed.

Example round_nearest_tie_even_shift0_witness :
  round_nearest_tie_even release_build (mkExt 3 0) 0 cb_nearest_even = Ok (mkExt 4 0) /\
  round_nearest_tie_even checked_build (mkExt (2 ^ 64 - 1) 0) 0 cb_nearest_even = Panic PkOverflow /\
  round_nearest_tie_even release_build (mkExt (2 ^ 64 - 1) 0) 0 cb_nearest_even = Ok (mkExt 0 0).
Proof. repeat split; vm_compute; reflexivity. Qed.

Theorem round_down_Z b mant exp s :
  0 <= mant < 2 ^ 64 -> 0 <= s <= 64 -> - 2 ^ 31 <= exp + s < 2 ^ 31 ->
  round_down b (mkExt mant exp) s = Ok (mkExt (mant / 2 ^ s) (exp + s)).
Proof.
  intros Hm Hs He. unfold round_down. cbn [Num.mant Num.exp].
  rewrite shr_or_zero by lia. cbn [bind].
  unfold i32_add. rewrite sop32_ok by lia. reflexivity.
Qed.

(** ** 3. [round] at the level of integers *)

(** What the rounding code needs to know about a format.  Everything is checked on the generated
    constants by computation ([rfmt_ok_F32], [rfmt_ok_F64]). *)
Definition rfmt_ok (f : format) : bool :=
  (0 <? MANTISSA_SIZE f) && (MANTISSA_SIZE f <? 62) &&
  (2 <=? ewidth f) && ((fbits f =? 32) || (fbits f =? 64)) &&
  (HIDDEN_BIT_MASK f =? 2 ^ MANTISSA_SIZE f) &&
  (CARRY_MASK f =? 2 ^ (MANTISSA_SIZE f + 1)) &&
  (MANTISSA_MASK f =? 2 ^ MANTISSA_SIZE f - 1) &&
  (INFINITE_POWER f =? 2 ^ ewidth f - 1) &&
  (EXPONENT_BIAS f =? emax f - 1 + MANTISSA_SIZE f) &&
  (EXPONENT_MASK f =? (2 ^ ewidth f - 1) * 2 ^ MANTISSA_SIZE f) &&
  (DENORMAL_EXPONENT f =? femin f) &&
  (prec f <? emax f).

Lemma rfmt_ok_F32 : rfmt_ok F32 = true.
Proof. vm_compute; reflexivity. Qed.
Lemma rfmt_ok_F64 : rfmt_ok F64 = true.
Proof. vm_compute; reflexivity. Qed.

Record rfmt_props (f : format) : Prop := {
  rp_ms : 0 < MANTISSA_SIZE f < 62;
  rp_ew : 2 <= ewidth f;
  rp_bits : fbits f = 32 \/ fbits f = 64;
  rp_hidden : HIDDEN_BIT_MASK f = 2 ^ MANTISSA_SIZE f;
  rp_carry : CARRY_MASK f = 2 ^ (MANTISSA_SIZE f + 1);
  rp_mmask : MANTISSA_MASK f = 2 ^ MANTISSA_SIZE f - 1;
  rp_inf : INFINITE_POWER f = 2 ^ ewidth f - 1;
  rp_bias : EXPONENT_BIAS f = emax f - 1 + MANTISSA_SIZE f;
  rp_emask : EXPONENT_MASK f = (2 ^ ewidth f - 1) * 2 ^ MANTISSA_SIZE f;
  rp_denorm : DENORMAL_EXPONENT f = femin f;
  rp_prec : prec f < emax f
}.

Lemma rfmt_ok_props f : rfmt_ok f = true -> rfmt_props f.
Proof.
  unfold rfmt_ok. intros H.
  repeat (apply andb_prop in H; let H' := fresh "H" in destruct H as [H H']).
  constructor; try (apply Z.eqb_eq; assumption); try lia.
Qed.

(** The fields returned by [round] when the shifting callback returns significand [g s] for
    shift [s] (three regimes: subnormal, normal, overflow). *)
Definition round_spec (f : format) (g : Z -> Z) (exp : Z) : extfloat :=
  let ms := MANTISSA_SIZE f in
  let sh := 63 - ms in
  if exp <=? - sh then
    let m := g (1 - exp) in
    mkExt m (if 2 ^ ms <=? m then 1 else 0)
  else
    let m1 := g sh in
    let carry := m1 =? 2 ^ (ms + 1) in
    let m2 := if carry then 2 ^ ms else m1 in
    let e2 := if carry then exp + sh + 1 else exp + sh in
    if INFINITE_POWER f <=? e2 then mkExt 0 (INFINITE_POWER f)
    else mkExt (m2 - 2 ^ ms) e2.

(** [round] with any shifting callback that returns the floor of the shifted significand or
    the floor plus one (this covers [round_down], [round_nearest_tie_even] with any direction
    callback, hence every use in the crate). *)
Theorem round_Z f b mant exp cb g :
  rfmt_ok f = true ->
  2 ^ 63 <= mant < 2 ^ 64 -> - 63 <= exp <= 2 ^ 30 ->
  (forall s, 1 <= s <= 64 -> cb (mkExt mant exp) s = Ok (mkExt (g s) (exp + s))) ->
  (forall s, 1 <= s <= 64 -> mant / 2 ^ s <= g s <= mant / 2 ^ s + 1) ->
  round f b (mkExt mant exp) cb = Ok (round_spec f g exp).
Proof.
  intros Hf Hm He Hcb Hg. destruct (rfmt_ok_props f Hf) as [Pms Pew Pbits Phid Pcarry Pmmask Pinf Pbias Pemask Pden Pprec].
  assert (H30 : 2 ^ 30 < 2 ^ 31) by (vm_compute; reflexivity).
  assert (H31 : 64 < 2 ^ 30) by (vm_compute; reflexivity).
  unfold round, round_spec. cbn [Num.mant Num.exp]. cbv zeta.
  set (ms := MANTISSA_SIZE f) in *.
  replace (64 - ms - 1) with (63 - ms) by lia. set (sh := 63 - ms).
  unfold i32_neg. rewrite sop32_ok by lia. cbn [bind].
  replace (sh <=? - exp) with (exp <=? - sh) by lia.
  destruct (exp <=? - sh) eqn:Esub.
  - (* subnormal branch *)
    unfold i32_add. rewrite sop32_ok by lia. cbn [bind].
    rewrite debug_assert_true by lia. cbn [bind].
    replace (Z.min (- exp + 1) 64) with (1 - exp) by lia.
    rewrite Hcb by lia. cbn [bind Num.mant Num.exp]. rewrite Phid. reflexivity.
  - (* normal branch *)
    rewrite Hcb by lia. cbn [bind Num.mant Num.exp].
    rewrite Pcarry.
    assert (Hg1 : 2 ^ ms <= g sh <= 2 ^ (ms + 1)).
    { pose proof (Hg sh ltac:(lia)) as Hg1.
      pose proof (div_pow2_lt mant sh ltac:(lia) ltac:(lia)) as Hq.
      replace (64 - sh) with (ms + 1) in Hq by lia.
      assert (2 ^ ms <= mant / 2 ^ sh).
      { apply Z.div_le_lower_bound; [apply pow2_pos; lia|].
        rewrite <- pow2_split by lia. replace (sh + ms) with 63 by lia. lia. }
      lia. }
    rewrite land_pow2 by lia.
    pose proof (pow2_succ ms ltac:(lia)) as Hsucc.
    pose proof (pow2_pos ms ltac:(lia)) as Hpos.
    destruct (g sh =? 2 ^ (ms + 1)) eqn:Ecarry.
    + apply Z.eqb_eq in Ecarry. rewrite Ecarry.
      assert (Hms1 : 0 <= 1 < 64) by lia.
      rewrite u64_shr_ok by exact Hms1. cbn [bind].
      unfold i32_add. rewrite sop32_ok by lia. cbn [bind Num.mant Num.exp].
      change (2 ^ 1) with 2. rewrite Hsucc. rewrite Z.mul_comm, Z.div_mul by lia.
      destruct (INFINITE_POWER f <=? exp + sh + 1); [reflexivity|].
      rewrite Pmmask. fold ms. rewrite land_mask by lia.
      rewrite Z.mod_same by lia. replace (2 ^ ms - 2 ^ ms) with 0 by lia. reflexivity.
    + cbn [bind Num.mant Num.exp]. apply Z.eqb_neq in Ecarry.
      destruct (INFINITE_POWER f <=? exp + sh); [reflexivity|].
      rewrite Pmmask. fold ms. rewrite land_mask by lia.
      f_equal. f_equal.
      assert (Hlt : 2 ^ ms <= g sh < 2 * 2 ^ ms) by lia.
      symmetry. apply Z.mod_unique_pos with (q := 1); lia.
Qed.

(** the two callbacks of the property *)
Theorem round_ne_Z f b mant exp :
  rfmt_ok f = true -> 2 ^ 63 <= mant < 2 ^ 64 -> - 63 <= exp <= 2 ^ 30 ->
  round f b (mkExt mant exp) (fun fp s => round_nearest_tie_even b fp s cb_nearest_even)
  = Ok (round_spec f (rnd_ne mant) exp).
Proof.
  intros Hf Hm He.
  assert (H30 : 2 ^ 30 + 64 < 2 ^ 31) by (vm_compute; reflexivity).
  apply round_Z; try assumption.
  - intros s Hs. apply round_nearest_tie_even_ne_Z; lia.
  - intros s Hs. apply rnd_ne_bounds. lia.
Qed.

Theorem round_cb_Z f b mant exp cb :
  rfmt_ok f = true -> 2 ^ 63 <= mant < 2 ^ 64 -> - 63 <= exp <= 2 ^ 30 ->
  round f b (mkExt mant exp) (fun fp s => round_nearest_tie_even b fp s cb)
  = Ok (round_spec f (rnd_cb cb mant) exp).
Proof.
  intros Hf Hm He.
  assert (H30 : 2 ^ 30 + 64 < 2 ^ 31) by (vm_compute; reflexivity).
  apply round_Z; try assumption.
  - intros s Hs. apply round_nearest_tie_even_Z; lia.
  - intros s Hs. apply rnd_cb_bounds. lia.
Qed.

Theorem round_down_round_Z f b mant exp :
  rfmt_ok f = true -> 2 ^ 63 <= mant < 2 ^ 64 -> - 63 <= exp <= 2 ^ 30 ->
  round f b (mkExt mant exp) (round_down b)
  = Ok (round_spec f (fun s => mant / 2 ^ s) exp).
Proof.
  intros Hf Hm He.
  assert (H30 : 2 ^ 30 + 64 < 2 ^ 31) by (vm_compute; reflexivity).
  apply round_Z; try assumption.
  - intros s Hs. apply round_down_Z; lia.
  - intros s Hs. cbv beta. generalize (mant / 2 ^ s). intros; lia.
Qed.

(** Below the property's exponent range the subnormal shift exceeds 64: [exp = -64] gives
    [shift = 65], clamped to 64 (allowed by the assertion); [exp = -65] trips the
    [debug_assert!(shift <= 65)] of debug builds. *)
Example round_exp_below_range :
  round F64 checked_build (mkExt (2 ^ 63) (-64))
        (fun fp s => round_nearest_tie_even checked_build fp s cb_nearest_even) = Ok (mkExt 0 0) /\
  round F64 checked_build (mkExt (2 ^ 63) (-65))
        (fun fp s => round_nearest_tie_even checked_build fp s cb_nearest_even) = Panic PkAssert /\
  round F64 release_build (mkExt (2 ^ 64 - 1) (-65))
        (fun fp s => round_nearest_tie_even release_build fp s cb_nearest_even) = Ok (mkExt 1 0).
Proof. repeat split; vm_compute; reflexivity. Qed.

(** ** Shape of the returned fields *)

Lemma round_spec_fields f g mant exp :
  rfmt_ok f = true -> 2 ^ 63 <= mant < 2 ^ 64 -> - 63 <= exp <= 2 ^ 30 ->
  (forall s, 1 <= s <= 64 -> mant / 2 ^ s <= g s <= mant / 2 ^ s + 1) ->
  let r := round_spec f g exp in
  let ms := MANTISSA_SIZE f in
  0 <= Num.exp r <= INFINITE_POWER f /\
  (Num.exp r = 0 -> 0 <= Num.mant r < 2 ^ ms) /\
  (Num.exp r = 1 -> 0 <= Num.mant r <= 2 ^ ms) /\
  (1 < Num.exp r < INFINITE_POWER f -> 0 <= Num.mant r < 2 ^ ms) /\
  (Num.exp r = INFINITE_POWER f -> Num.mant r = 0).
Proof.
  intros Hf Hm He Hg. destruct (rfmt_ok_props f Hf) as [Pms Pew Pbits Phid Pcarry Pmmask Pinf Pbias Pemask Pden Pprec]. cbv zeta.
  unfold round_spec. cbv zeta. set (ms := MANTISSA_SIZE f) in *. set (sh := 63 - ms).
  pose proof (pow2_pos ms ltac:(lia)) as Hpos.
  pose proof (pow2_succ ms ltac:(lia)) as Hsucc.
  assert (Hinf : 3 <= INFINITE_POWER f).
  { rewrite Pinf. pose proof (pow2_le 2 (ewidth f) ltac:(lia)) as H.
    change (2 ^ 2) with 4 in H. lia. }
  destruct (exp <=? - sh) eqn:Esub.
  - pose proof (Hg (1 - exp) ltac:(lia)) as Hg1.
    pose proof (div_pow2_lt mant (1 - exp) ltac:(lia) ltac:(lia)) as Hq.
    pose proof (pow2_le (64 - (1 - exp)) ms ltac:(lia)) as Hle.
    cbn [Num.mant Num.exp].
    destruct (2 ^ ms <=? g (1 - exp)) eqn:E; repeat split; intros; try lia.
  - assert (Hg1 : 2 ^ ms <= g sh <= 2 ^ (ms + 1)).
    { pose proof (Hg sh ltac:(lia)) as Hg1.
      pose proof (div_pow2_lt mant sh ltac:(lia) ltac:(lia)) as Hq.
      replace (64 - sh) with (ms + 1) in Hq by lia.
      assert (2 ^ ms <= mant / 2 ^ sh).
      { apply Z.div_le_lower_bound; [apply pow2_pos; lia|].
        rewrite <- pow2_split by lia. replace (sh + ms) with 63 by lia. lia. }
      lia. }
    destruct (g sh =? 2 ^ (ms + 1)) eqn:Ec.
    + destruct (INFINITE_POWER f <=? exp + sh + 1) eqn:Ei; cbn [Num.mant Num.exp];
        repeat split; intros; try lia.
    + destruct (INFINITE_POWER f <=? exp + sh) eqn:Ei; cbn [Num.mant Num.exp];
        repeat split; intros; try lia.
Qed.

(** disjoint [Z.lor] is addition *)
Lemma land_low_high m e k : 0 <= k -> 0 <= m < 2 ^ k -> Z.land m (e * 2 ^ k) = 0.
Proof.
  intros Hk Hm. apply Z.bits_inj'. intros i Hi. rewrite Z.land_spec, Z.bits_0.
  destruct (Z.lt_ge_cases i k) as [Hlt|Hge].
  - rewrite <- Z.shiftl_mul_pow2 by assumption. rewrite Z.shiftl_spec_low by assumption.
    apply andb_false_r.
  - replace m with (m mod 2 ^ k) by (apply Z.mod_small; assumption).
    rewrite Z.mod_pow2_bits_high by lia. reflexivity.
Qed.

Lemma lor_low_high m e k : 0 <= k -> 0 <= m < 2 ^ k -> Z.lor m (e * 2 ^ k) = m + e * 2 ^ k.
Proof.
  intros Hk Hm. pose proof (land_low_high m e k Hk Hm) as H.
  rewrite <- Z.lxor_lor by exact H. symmetry. apply Z.add_nocarry_lxor. exact H.
Qed.

(** ** The packed word: [extended_to_float] on the fields returned by [round] *)
Section Pack.
Variable f : format.
Hypothesis Hf : rfmt_ok f = true.
Let ms := MANTISSA_SIZE f.

Lemma emax_ge_2 : 2 <= emax f.
Proof.
  destruct (rfmt_ok_props f Hf) as [Pms Pew Pbits Phid Pcarry Pmmask Pinf Pbias Pemask Pden Pprec].
  unfold emax.
  pose proof (pow2_le 1 (ewidth f - 1) ltac:(lia)) as H. change (2 ^ 1) with 2 in H. lia.
Qed.

Lemma inf_power_emax : INFINITE_POWER f = 2 * emax f - 1.
Proof.
  destruct (rfmt_ok_props f Hf) as [Pms Pew Pbits Phid Pcarry Pmmask Pinf Pbias Pemask Pden Pprec].
  rewrite Pinf. unfold emax.
  rewrite (pow2_pred (ewidth f)) by lia. reflexivity.
Qed.

Lemma femin_bias : femin f = 1 - EXPONENT_BIAS f.
Proof.
  destruct (rfmt_ok_props f Hf) as [Pms Pew Pbits Phid Pcarry Pmmask Pinf Pbias Pemask Pden Pprec].
  rewrite Pbias. unfold femin, prec. lia.
Qed.

Definition pack_fields (r : extfloat) : Z := Z.lor (Num.mant r) (Num.exp r * 2 ^ ms).

(** the shape of the pairs [round] returns (see [round_spec_fields]) *)
Definition fields_shape (r : extfloat) : Prop :=
  0 <= Num.exp r <= INFINITE_POWER f /\
  (Num.exp r = 0 -> 0 <= Num.mant r < 2 ^ ms) /\
  (Num.exp r = 1 -> 0 <= Num.mant r <= 2 ^ ms) /\
  (1 < Num.exp r < INFINITE_POWER f -> 0 <= Num.mant r < 2 ^ ms) /\
  (Num.exp r = INFINITE_POWER f -> Num.mant r = 0).

Lemma round_spec_shape g mant exp :
  2 ^ 63 <= mant < 2 ^ 64 -> - 63 <= exp <= 2 ^ 30 ->
  (forall s, 1 <= s <= 64 -> mant / 2 ^ s <= g s <= mant / 2 ^ s + 1) ->
  fields_shape (round_spec f g exp).
Proof. intros Hm He Hg. exact (round_spec_fields f g mant exp Hf Hm He Hg). Qed.

(** the packed word as a sum of an effective fraction below [2^ms] and a shifted exponent *)
Lemma pack_fields_sum r : fields_shape r ->
  exists m e, pack_fields r = m + e * 2 ^ ms /\ 0 <= m < 2 ^ ms /\ 0 <= e < 2 ^ ewidth f /\
    e = Num.exp r /\
    ((m = Num.mant r) \/ (Num.exp r = 1 /\ Num.mant r = 2 ^ ms /\ m = 0)).
Proof.
  intros (He & H0 & H1 & H2 & H3). destruct (rfmt_ok_props f Hf) as [Pms Pew Pbits Phid Pcarry Pmmask Pinf Pbias Pemask Pden Pprec].
  fold ms in Pms. pose proof (pow2_pos ms ltac:(lia)) as Hpos.
  pose proof (pow2_le 2 (ewidth f) ltac:(lia)) as Hew. change (2 ^ 2) with 4 in Hew.
  unfold pack_fields. destruct r as [m' e']. cbn [Num.mant Num.exp] in *.
  destruct (Z.eq_dec m' (2 ^ ms)) as [Hov|Hno].
  - assert (e' = 1) by lia. subst e'. exists 0, 1. rewrite Hov, Z.mul_1_l, Z.lor_diag.
    repeat split; lia.
  - assert (Hm : 0 <= m' < 2 ^ ms) by lia.
    exists m', e'. rewrite lor_low_high by lia. repeat split; lia.
Qed.

Lemma pack_fields_range r : fields_shape r -> 0 <= pack_fields r < 2 ^ (fbits f - 1).
Proof.
  intros Hs. destruct (pack_fields_sum r Hs) as (m & e & -> & Hm & He & _).
  destruct (rfmt_ok_props f Hf) as [Pms Pew Pbits Phid Pcarry Pmmask Pinf Pbias Pemask Pden Pprec].
  fold ms in Pms. replace (fbits f - 1) with (ewidth f + ms) by (unfold ewidth; fold ms; lia).
  rewrite pow2_split by lia. nia.
Qed.

Theorem extended_to_float_fields b r : fields_shape r ->
  extended_to_float f b r = Ok (pack_fields r).
Proof.
  intros Hs. pose proof (pack_fields_range r Hs) as Hr.
  destruct Hs as (He & _).
  destruct (rfmt_ok_props f Hf) as [Pms Pew Pbits Phid Pcarry Pmmask Pinf Pbias Pemask Pden Pprec].
  fold ms in Pms. pose proof (pow2_pos ms ltac:(lia)) as Hpos.
  assert (Hsplit : 2 ^ (fbits f - 1) = 2 ^ ewidth f * 2 ^ ms).
  { replace (fbits f - 1) with (ewidth f + ms) by (unfold ewidth; fold ms; lia).
    apply pow2_split; lia. }
  assert (H63 : 2 ^ (fbits f - 1) <= 2 ^ 63) by (apply pow2_le; lia).
  assert (H64 : 2 ^ 64 = 2 * 2 ^ 63) by reflexivity.
  assert (Hesh : 0 <= Num.exp r * 2 ^ ms < 2 ^ 64).
  { rewrite Pinf in He. nia. }
  unfold extended_to_float. fold ms.
  rewrite as_u64_small by nia.
  unfold u64_shl, shl_u. replace ((0 <=? ms) && (ms <? 64)) with true by lia.
  unfold wrapu. rewrite (Z.mod_small _ _ Hesh). cbn [bind]. fold (pack_fields r).
  unfold from_bits. destruct Pbits as [H32|H64'].
  - rewrite H32. change (32 =? 32) with true. cbv iota.
    rewrite H32 in Hr. change (2 ^ (32 - 1)) with 2147483648 in Hr.
    rewrite debug_assert_true by lia. cbn [bind]. unfold as_u32, wrapu.
    rewrite Z.mod_small; [reflexivity|]. change (2 ^ 32) with 4294967296. lia.
  - rewrite H64'. change (64 =? 32) with false. reflexivity.
Qed.

(** both callbacks, end to end at the level of integers: no panic, and the packed word *)
Theorem round_ne_packed_Z b mant exp :
  2 ^ 63 <= mant < 2 ^ 64 -> - 63 <= exp <= 2 ^ 30 ->
  let r := round_spec f (rnd_ne mant) exp in
  round f b (mkExt mant exp) (fun fp s => round_nearest_tie_even b fp s cb_nearest_even) = Ok r /\
  extended_to_float f b r = Ok (pack_fields r) /\
  0 <= pack_fields r < 2 ^ (fbits f - 1).
Proof.
  intros Hm He r.
  assert (Hs : fields_shape r).
  { apply (round_spec_shape _ mant); try assumption. intros; apply rnd_ne_bounds; lia. }
  split; [apply round_ne_Z; assumption|].
  split; [apply extended_to_float_fields; exact Hs|apply pack_fields_range; exact Hs].
Qed.

Theorem round_down_packed_Z b mant exp :
  2 ^ 63 <= mant < 2 ^ 64 -> - 63 <= exp <= 2 ^ 30 ->
  let r := round_spec f (fun s => mant / 2 ^ s) exp in
  round f b (mkExt mant exp) (round_down b) = Ok r /\
  extended_to_float f b r = Ok (pack_fields r) /\
  0 <= pack_fields r < 2 ^ (fbits f - 1).
Proof.
  intros Hm He r.
  assert (Hs : fields_shape r).
  { apply (round_spec_shape _ mant); try assumption.
    intros; cbv beta; generalize (mant / 2 ^ s); intros; lia. }
  split; [apply round_down_round_Z; assumption|].
  split; [apply extended_to_float_fields; exact Hs|apply pack_fields_range; exact Hs].
Qed.

End Pack.

Print Assumptions nth_bit_ok.
Print Assumptions lower_n_mask_ok.
Print Assumptions lower_n_halfway_ok.
Print Assumptions round_nearest_tie_even_Z.
Print Assumptions round_down_Z.
Print Assumptions round_Z.
Print Assumptions round_ne_packed_Z.
Print Assumptions round_down_packed_Z.
