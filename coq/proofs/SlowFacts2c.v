(** * SlowFacts2c (part C/D): `negative_digit_comp` returns the correctly rounded value.

    [negative_digit_comp_correct]: every configuration (stack / heap back-end, compact or not) with
    the generated tables, every build mode.  Given the digits [N] (a
    normalised big integer), a negative decimal exponent, and a declined estimate [fp] whose
    truncation to the format is the pattern [bbits = rd_bits f fp]: if the correctly rounded
    pattern [w] of N * 10^exponent ([rne_bits]) is [bbits] or [bbits + 1], and the two scaled
    integers fit the capacity, then the function does not panic and its result packs to [w].
    All cases of [bbits] are covered: zero, subnormal, subnormal -> normal transition, binade
    boundary, largest finite (successor +infinity) and even [bbits] = +infinity. *)
From Coq Require Import ZArith List Bool Lia Znumtheory.
From Coq Require Import ZifyBool.
From ML Require Import base.RustSem model.Fmt model.Mask model.Num model.Rounding model.Vec model.Number
  model.Bigint model.Slow.
From ML Require Import gen.Consts gen.PowDump gen.Tables spec.RneZ.
From ML Require Import proofs.LimbVal proofs.BigintFacts2 proofs.BigintFacts1 proofs.RoundingFactsZ
  proofs.NumFacts proofs.SlowFacts2 proofs.SlowFacts2b.
Import ListNotations.
Open Scope Z_scope.
Local Opaque Z.pow.
Arguments Z.pow : simpl never.

(** ** 0. Small facts about the machine operations *)

Lemma land_top_bit m : 2 ^ 63 <= m < 2 ^ 64 -> negb (Z.land m (2 ^ 63) =? 0) = true.
Proof.
  intros Hm. apply negb_true_iff, Z.eqb_neq. intros H.
  assert (Hb : Z.testbit (Z.land m (2 ^ 63)) 63 = true).
  { rewrite Z.land_spec, Z.pow2_bits_true by lia. rewrite andb_true_r.
    apply Z.testbit_true; [lia|].
    assert (m / 2 ^ 63 = 1) as ->; [|reflexivity].
    symmetry. apply Z.div_unique with (r := m - 2 ^ 63); [|lia].
    change (2 ^ 64) with (2 * 2 ^ 63) in Hm. lia. }
  rewrite H, Z.bits_0 in Hb. discriminate.
Qed.

(** ** 1. The packed result of [round] for a callback returning floor + u *)

Definition rd_shift (f : format) (e : Z) : Z :=
  if e <=? - (63 - MANTISSA_SIZE f) then 1 - e else 63 - MANTISSA_SIZE f.

(** the fields / the pattern of the estimate truncated to the format (`b` of the Rust code) *)
Definition rd_fields (f : format) (fp : extfloat) : extfloat :=
  round_spec f (fun s => mant fp / 2 ^ s) (exp fp).
Definition rd_bits (f : format) (fp : extfloat) : Z := pack_fields f (rd_fields f fp).

Section C.
Variable f : format.
Hypothesis Hf : rfmt_ok f = true.
Hypothesis OK : fmt_ok f = true.

Local Notation ms := (MANTISSA_SIZE f).
Local Notation sh := (63 - MANTISSA_SIZE f).

Lemma rd_model b fp :
  2 ^ 63 <= mant fp < 2 ^ 64 -> - 63 <= exp fp <= 2 ^ 30 ->
  round f b fp (round_down b) = Ok (rd_fields f fp) /\
  extended_to_float f b (rd_fields f fp) = Ok (rd_bits f fp) /\
  0 <= rd_bits f fp < 2 ^ (fbits f - 1).
Proof.
  intros Hm He. destruct fp as [m e]. cbn [mant exp] in *.
  exact (round_down_packed_Z f Hf b m e Hm He).
Qed.

Lemma rd_q_bounds m e :
  2 ^ 63 <= m < 2 ^ 64 -> - 63 <= e ->
  let q := m / 2 ^ rd_shift f e in
  (e <= - sh -> 0 <= q < 2 ^ ms) /\ (- sh < e -> 2 ^ ms <= q < 2 * 2 ^ ms).
Proof.
  intros Hm He q. destruct (rfmt_ok_props f Hf) as [Pms _ _ _ _ _ _ _ _ _ _].
  unfold q, rd_shift. split; intros H.
  - replace (e <=? - sh) with true by lia.
    pose proof (div_pow2_lt m (1 - e) ltac:(lia) ltac:(lia)) as Hq.
    pose proof (RoundingFactsZ.pow2_le (64 - (1 - e)) ms ltac:(lia)). lia.
  - replace (e <=? - sh) with false by lia.
    pose proof (div_pow2_lt m sh ltac:(lia) ltac:(lia)) as Hq.
    replace (64 - sh) with (ms + 1) in Hq by lia.
    rewrite RoundingFactsZ.pow2_succ in Hq by lia. split; [|lia].
    apply Z.div_le_lower_bound; [apply RoundingFactsZ.pow2_pos; lia|].
    rewrite <- RoundingFactsZ.pow2_split by lia. replace (sh + ms) with 63 by lia. lia.
Qed.

Lemma inf_bits_power : inf_bits f = INFINITE_POWER f * 2 ^ ms.
Proof. destruct (rfmt_ok_props f Hf) as [_ _ _ _ _ _ Pinf _ _ _ _]. rewrite Pinf. reflexivity. Qed.

Lemma pack_round_spec_gen g m e u :
  2 ^ 63 <= m < 2 ^ 64 -> - 63 <= e <= 2 ^ 30 ->
  let q := m / 2 ^ rd_shift f e in
  g (rd_shift f e) = q + u -> 0 <= u <= 1 ->
  pack_fields f (round_spec f g e) =
    if e <=? - sh then q + u
    else if INFINITE_POWER f <=? e + sh then inf_bits f
    else (e + sh) * 2 ^ ms + (q + u - 2 ^ ms).
Proof.
  intros Hm He q Hg Hu.
  destruct (rfmt_ok_props f Hf) as [Pms Pew _ _ _ _ Pinf _ _ _ _].
  destruct (rd_q_bounds m e Hm ltac:(lia)) as [Qs Qn]. fold q in Qs, Qn.
  pose proof (RoundingFactsZ.pow2_pos ms ltac:(lia)) as Hpos.
  pose proof (RoundingFactsZ.pow2_succ ms ltac:(lia)) as Hsucc.
  rewrite inf_bits_power.
  unfold round_spec, pack_fields. cbv zeta.
  destruct (e <=? - sh) eqn:Esub.
  - assert (Hs0 : rd_shift f e = 1 - e) by (unfold rd_shift; rewrite Esub; reflexivity).
    rewrite Hs0 in Hg. specialize (Qs ltac:(lia)). rewrite Hg. cbn [mant exp].
    destruct (2 ^ ms <=? q + u) eqn:E1.
    + assert (E : q + u = 2 ^ ms) by lia. rewrite E, Z.mul_1_l. apply Z.lor_diag.
    + rewrite Z.mul_0_l. apply Z.lor_0_r.
  - assert (Hs0 : rd_shift f e = sh) by (unfold rd_shift; rewrite Esub; reflexivity).
    rewrite Hs0 in Hg. specialize (Qn ltac:(lia)). rewrite Hg.
    destruct (q + u =? 2 ^ (ms + 1)) eqn:Ec.
    + assert (E : q + u = 2 * 2 ^ ms) by lia.
      destruct (INFINITE_POWER f <=? e + sh + 1) eqn:E1;
        destruct (INFINITE_POWER f <=? e + sh) eqn:E2; cbn [mant exp]; try lia.
      * apply Z.lor_0_l.
      * rewrite Z.lor_0_l. assert (INFINITE_POWER f = e + sh + 1) by lia. nia.
      * replace (2 ^ ms - 2 ^ ms) with 0 by lia. rewrite Z.lor_0_l. nia.
    + destruct (INFINITE_POWER f <=? e + sh) eqn:E2; cbn [mant exp].
      * apply Z.lor_0_l.
      * rewrite lor_low_high by lia. lia.
Qed.

(** the decoded pair of the truncated pattern *)
Lemma rd_bits_decode fp :
  2 ^ 63 <= mant fp < 2 ^ 64 -> - 63 <= exp fp <= 2 ^ 30 ->
  let e := exp fp in
  let q := mant fp / 2 ^ rd_shift f e in
  rd_bits f fp = (if e <=? - sh then q
                  else if INFINITE_POWER f <=? e + sh then inf_bits f
                  else (e + sh) * 2 ^ ms + (q - 2 ^ ms)) /\
  ((e <= - sh \/ e + sh < INFINITE_POWER f) ->
   0 <= rd_bits f fp < inf_bits f /\ dec_mant f (rd_bits f fp) = q).
Proof.
  intros Hm He e q. destruct fp as [m e']. cbn [mant exp] in *. subst e.
  destruct (rfmt_ok_props f Hf) as [Pms Pew _ _ _ _ Pinf _ _ _ _].
  destruct (fmt_ok_facts f OK).
  pose proof (pack_round_spec_gen (fun s => m / 2 ^ s) m e' 0 Hm He ltac:(cbv beta; lia) ltac:(lia)) as P.
  fold q in P. rewrite !Z.add_0_r in P.
  unfold rd_bits, rd_fields. cbn [mant exp]. split; [exact P|]. rewrite P. clear P.
  destruct (rd_q_bounds m e' Hm ltac:(lia)) as [Qs Qn]. fold q in Qs, Qn.
  pose proof (RoundingFactsZ.pow2_pos ms ltac:(lia)) as Hpos.
  assert (EW : 4 <= 2 ^ ewidth f) by (change 4 with (2 ^ 2); apply RoundingFactsZ.pow2_le; lia).
  rewrite inf_bits_power.
  intros Hfin. destruct (e' <=? - sh) eqn:Esub.
  - specialize (Qs ltac:(lia)).
    destruct (pack_spec f OK release_build 0 q ltac:(lia) Qs) as (_ & EF & FF' & _).
    rewrite Z.mul_0_l, Z.add_0_l in EF, FF'.
    split; [nia|]. unfold dec_mant. rewrite EF, FF'. reflexivity.
  - specialize (Qn ltac:(lia)). replace (INFINITE_POWER f <=? e' + sh) with false by lia.
    destruct (pack_spec f OK release_build (e' + sh) (q - 2 ^ ms) ltac:(lia) ltac:(lia)) as (_ & EF & FF' & _).
    split; [nia|]. unfold dec_mant. rewrite EF, FF'.
    replace (e' + sh =? 0) with false by lia. lia.
Qed.

(** ** 2. [rne_bits] never exceeds the infinity pattern *)
Lemma rne_bits_le_inf n d w : 0 < n -> 0 < d -> rne_bits f n d w -> 0 <= w <= inf_bits f.
Proof.
  intros Hn Hd Hr. destruct (rfmt_ok_props f Hf) as [Pms Pew _ _ _ _ _ _ _ _ Pprec].
  assert (EW2 : 2 <= ewidth f) by exact Pew.
  destruct (pow2_prec_ms f OK) as (P1 & P2 & P3).
  assert (EW : 4 <= 2 ^ ewidth f) by (change 4 with (2 ^ 2); apply RoundingFactsZ.pow2_le; lia).
  pose proof (emax_double f OK) as ED.
  assert (Hinf : 0 <= inf_bits f) by (unfold inf_bits; apply Z.mul_nonneg_nonneg; lia).
  destruct Hr as [[_ ->]|[(_ & _ & ->)|(_ & Hfin & M & E & Hc & Hne & ->)]]; [lia|lia|].
  destruct (canon_exp_norm f OK n d E Hd Hc) as (HE & HW & Hc1 & Hc2).
  destruct (nearest_even_norm f OK n d M E Hd HE Hne) as ((Hlo & Hhi) & _).
  set (n' := n * 2 ^ (- femin f)) in *. set (W := 2 ^ (E - femin f) * d) in *.
  pose proof (femin_nonpos f OK) as HF.
  assert (Hn' : 0 < n') by (apply Z.mul_pos_pos; [lia|apply RoundingFactsZ.pow2_pos; lia]).
  (* M is between 0 and 2^prec *)
  assert (HM : 0 <= M <= 2 * 2 ^ ms).
  { split.
    - destruct (Z_lt_le_dec M 0) as [Hneg|]; [exfalso|assumption].
      assert ((2 * M + 1) * W <= (-1) * W) by (apply Z.mul_le_mono_nonneg_r; lia). lia.
    - destruct (Z_lt_le_dec (2 * 2 ^ ms) M) as [Hbig|]; [exfalso|assumption].
      assert ((4 * 2 ^ ms + 1) * W <= (2 * M - 1) * W) by (apply Z.mul_le_mono_nonneg_r; lia). lia. }
  (* E is at most emax - prec *)
  assert (HEmax : E <= emax f - prec f).
  { destruct Hc2 as [Hz|Hc2]; [unfold femin in *; lia|].
    destruct (Z_le_gt_dec E (emax f - prec f)) as [|Hbig]; [assumption|exfalso].
    assert (Hn'lt : n' < 2 ^ emax f * 2 ^ (- femin f) * d).
    { unfold n'. replace (2 ^ emax f * 2 ^ (- femin f) * d) with ((2 ^ emax f * d) * 2 ^ (- femin f)) by ring.
      apply Z.mul_lt_mono_pos_r; [apply RoundingFactsZ.pow2_pos; lia|exact Hfin]. }
    assert (Hemax0 : 0 <= emax f) by lia.
    assert (Hle : 2 ^ emax f * 2 ^ (- femin f) <= 2 ^ ms * 2 ^ (E - femin f)).
    { rewrite <- !RoundingFactsZ.pow2_split by lia. apply RoundingFactsZ.pow2_le. unfold prec in *. lia. }
    assert (2 ^ emax f * 2 ^ (- femin f) * d <= 2 ^ ms * 2 ^ (E - femin f) * d)
      by (apply Z.mul_le_mono_nonneg_r; lia).
    unfold W in Hc2. lia. }
  rewrite encode_offset. unfold inf_bits.
  destruct (M <? 2 ^ ms) eqn:EM.
  - split; [lia|]. assert (1 * 2 ^ ms <= (2 ^ ewidth f - 1) * 2 ^ ms) by (apply Z.mul_le_mono_nonneg_r; lia). lia.
  - assert (0 <= (E - femin f + 1) * 2 ^ ms) by (apply Z.mul_nonneg_nonneg; lia).
    split; [lia|].
    assert ((E - femin f + 2) * 2 ^ ms <= (2 ^ ewidth f - 1) * 2 ^ ms)
      by (apply Z.mul_le_mono_nonneg_r; unfold femin in *; lia). lia.
Qed.

End C.

(** ** 4. `negative_digit_comp` as: prologue, [scale_digits], comparison, final rounding *)
Lemma ndc_unfold c T L f b bigmant fp exponent :
  negative_digit_comp c T L f b bigmant fp exponent =
  (debug_assert b (negb (Z.land (mant fp) (2 ^ 63) =? 0)) ;;;
   debug_assert b (exponent <? 0) ;;;
   bfp <- round f b fp (round_down b) ;;
   bbits <- extended_to_float f b bfp ;;
   theor <- float_bh f b bbits ;;
   '(theor_digits, real_digits) <- scale_digits c T L b (mant theor) (exp theor) bigmant exponent ;;
   round f b fp (fun fp s =>
     round_nearest_tie_even b fp s (fun is_odd _ _ =>
       mid_up (vcompare (vl real_digits) (vl theor_digits)) is_odd))).
Proof.
  unfold negative_digit_comp, scale_digits, mid_up.
  destruct (debug_assert b (negb (Z.land (mant fp) (2 ^ 63) =? 0))); cbn [bind]; [|reflexivity|reflexivity].
  destruct (debug_assert b (exponent <? 0)); cbn [bind]; [|reflexivity|reflexivity].
  destruct (round f b fp (round_down b)) as [bfp| |]; cbn [bind]; [|reflexivity|reflexivity].
  destruct (extended_to_float f b bfp) as [bbits| |]; cbn [bind]; [|reflexivity|reflexivity].
  destruct (float_bh f b bbits) as [theor| |]; cbn [bind]; [|reflexivity|reflexivity].
  destruct (from_u64 c L b (mant theor)) as [t0| |]; cbn [bind]; [|reflexivity|reflexivity].
  destruct (i32_sub b (exp theor) exponent) as [be| |]; cbn [bind]; [|reflexivity|reflexivity].
  destruct (i32_neg b exponent) as [he| |]; cbn [bind]; [|reflexivity|reflexivity].
  destruct (if negb (he =? 0)
            then o <- bigint_pow c T L b t0 5 (as_u32 he);; unwrap o
            else Ok t0) as [t1| |]; cbn [bind]; reflexivity.
Qed.

(** ** 5. The main theorem *)
Section Main.
Variable c : config.
Variable T : tables.
Variable L : limits.
Variable f : format.
Variable b : build.
Hypothesis Hf : rfmt_ok f = true.
Hypothesis OK : fmt_ok f = true.
Hypothesis HT : pow5_tables_ok T = true.
Hypothesis HK : pow5_large_ok T L = true.
Hypothesis HL : LIMB_BITS L = 64.
Hypothesis Hcap : 2 <= BIGINT_LIMBS L < 2 ^ 63.

Local Notation ms := (MANTISSA_SIZE f).
Local Notation sh := (63 - MANTISSA_SIZE f).

Theorem negative_digit_comp_correct_gen bigmant fp exponent N :
  limbs_ok (vl bigmant) -> is_normalized (vl bigmant) = true -> lval (vl bigmant) = N -> 0 < N ->
  BIGINT_LIMBS L <= vcap bigmant -> (alloc c = false -> vcap bigmant = BIGINT_LIMBS L) ->
  zlen (vl bigmant) <= vcap bigmant ->
  2 ^ 63 <= mant fp < 2 ^ 64 -> - 63 <= exp fp <= 2 ^ 30 -> - 2 ^ 30 <= exponent < 0 ->
  let bbits := rd_bits f fp in
  let Mb := dec_mant f bbits in
  let Eb := dec_exp f bbits in
  let beta := Eb - 1 - exponent in
  N * 2 ^ Z.max 0 (- beta) < B64 ^ BIGINT_LIMBS L ->
  (2 * Mb + 1) * 5 ^ (- exponent) * 2 ^ Z.max 0 beta < B64 ^ BIGINT_LIMBS L ->
  forall w, rne_bits f N (10 ^ (- exponent)) w -> bbits <= w <= bbits + 1 ->
  exists r, negative_digit_comp c T L f b bigmant fp exponent = Ok r /\
            extended_to_float f b r = Ok w.
Proof.
  intros Hbo Hbn HbN HN Hbc0 Hbc Hbl Hm He Hex bbits Mb Eb beta Hfr Hft w Hr Hw.
  destruct (rfmt_ok_props f Hf) as [Pms Pew _ _ _ _ Pinf _ _ _ Pprec].
  destruct (rd_model f Hf b fp Hm He) as (R1 & R2 & R3). fold bbits in R2, R3.
  rewrite ndc_unfold.
  rewrite (debug_assert_true b _ (land_top_bit (mant fp) Hm)). cbn [bind].
  rewrite (debug_assert_true b (exponent <? 0)) by lia. cbn [bind].
  rewrite R1. cbn [bind]. rewrite R2. cbn [bind].
  rewrite (float_bh_spec f OK b bbits). cbn [bind mant exp]. fold Mb Eb.
  (* the scaling code *)
  pose proof (dec_mant_range f OK bbits) as HMb. fold Mb in HMb.
  pose proof (dec_exp_range f OK bbits) as HEb. fold Eb in HEb.
  pose proof (ms_pow_small f OK) as MS.
  assert (HEb' : - 2 ^ 30 <= Eb - 1 < 2 ^ 30).
  { destruct (fmt_ok_facts f OK). pose proof (emax_double f OK) as ED.
    pose proof (ew_pow_small f OK) as ES.
    change (2 ^ 30) with 1073741824. rewrite ff_denexp, ff_bias in HEb. rewrite ff_maxexp, ff_infpow, ff_bias in HEb.
    lia. }
  assert (HMh : 0 < 2 * Mb + 1 < 2 ^ 64) by (change (2 ^ 64) with (2 * 2 ^ 63); lia).
  destruct (scale_digits_ok c T L b HT HK HL Hcap (2 * Mb + 1) (Eb - 1) bigmant exponent N
              HMh HEb' Hex Hbo Hbn HbN HN Hbc0 Hbc Hbl Hfr Hft) as (td & rd & ES & EC).
  rewrite ES. cbn [bind]. rewrite EC. clear ES EC.
  (* the comparison is the comparison with the midpoint *)
  set (k := - exponent) in *.
  assert (Hk : 0 < k) by (unfold k; lia).
  pose proof (scaled_compare_mid N (2 * Mb + 1) (Eb - 1) k Hk) as SC. cbv zeta in SC.
  replace (Eb - 1 + k) with (Eb - 1 - exponent) in SC by (unfold k; lia). rewrite SC. clear SC.
  set (ord := sc_num N (Eb - 1) ?= (2 * Mb + 1) * sc_den (10 ^ k) (Eb - 1)).
  (* the final rounding *)
  destruct fp as [m e]. cbn [mant exp] in *.
  rewrite (round_cb_Z f b m e (fun is_odd _ _ => mid_up ord is_odd) Hf Hm He).
  set (cb := fun (is_odd _ _ : bool) => mid_up ord is_odd).
  eexists. split; [reflexivity|].
  assert (Hshape : fields_shape f (round_spec f (rnd_cb cb m) e)).
  { apply (round_spec_shape f Hf _ m); try assumption. intros s Hs. apply rnd_cb_bounds. lia. }
  rewrite (extended_to_float_fields f Hf b _ Hshape). f_equal.
  (* the packed word *)
  set (q := m / 2 ^ rd_shift f e).
  set (u := if mid_up ord (Z.odd q) then 1 else 0).
  assert (Hg : rnd_cb cb m (rd_shift f e) = q + u) by reflexivity.
  assert (Hu : 0 <= u <= 1) by (unfold u; destruct (mid_up ord (Z.odd q)); lia).
  rewrite (pack_round_spec_gen f Hf (rnd_cb cb m) m e u Hm He Hg Hu). fold q.
  destruct (rd_bits_decode f Hf OK (mkExt m e) Hm He) as (RB & RD).
  cbn [mant exp] in RB, RD. fold bbits q in RB, RD.
  assert (H10 : 0 < 10 ^ k) by (apply Z.pow_pos_nonneg; lia).
  destruct (Z_le_gt_dec (INFINITE_POWER f) (e + sh)) as [Hinf|Hfin].
  - (* the truncated estimate is already +infinity: so is the correctly rounded value *)
    destruct (Z.leb_spec e (- sh)) as [Hs|Hs]; [exfalso|].
    { assert (4 <= 2 ^ ewidth f) by (change 4 with (2 ^ 2); apply RoundingFactsZ.pow2_le; lia). lia. }
    replace (INFINITE_POWER f <=? e + sh) with true in * by lia.
    pose proof (rne_bits_le_inf f Hf OK N (10 ^ k) w HN H10 Hr). lia.
  - destruct (RD ltac:(lia)) as (Hx & HM). fold Mb in HM.
    pose proof (rne_bits_succ_mid_cmp f OK Pew bbits N (10 ^ k) w Hx HN H10 Hr Hw) as HW.
    cbv zeta in HW. fold Mb Eb ord in HW. rewrite HM in HW. fold u in HW.
    rewrite HW, RB.
    destruct (e <=? - sh); [lia|].
    replace (INFINITE_POWER f <=? e + sh) with false by lia. lia.
Qed.

End Main.

(** ** 6. The generated tables and limits *)
Theorem negative_digit_comp_correct c f b bigmant fp exponent N :
  rfmt_ok f = true -> fmt_ok f = true ->
  limbs_ok (vl bigmant) -> is_normalized (vl bigmant) = true -> lval (vl bigmant) = N -> 0 < N ->
  62 <= vcap bigmant -> (alloc c = false -> vcap bigmant = 62) -> zlen (vl bigmant) <= vcap bigmant ->
  2 ^ 63 <= mant fp < 2 ^ 64 -> - 63 <= exp fp <= 2 ^ 30 -> - 2 ^ 30 <= exponent < 0 ->
  let bbits := rd_bits f fp in
  let Mb := dec_mant f bbits in
  let Eb := dec_exp f bbits in
  let beta := Eb - 1 - exponent in
  N * 2 ^ Z.max 0 (- beta) < B64 ^ 62 ->
  (2 * Mb + 1) * 5 ^ (- exponent) * 2 ^ Z.max 0 beta < B64 ^ 62 ->
  forall w, rne_bits f N (10 ^ (- exponent)) w -> bbits <= w <= bbits + 1 ->
  exists r, negative_digit_comp c TABLES LIMITS f b bigmant fp exponent = Ok r /\
            extended_to_float f b r = Ok w.
Proof.
  intros Hf OK Hbo Hbn HbN HN Hbc0 Hbc Hbl Hm He Hex bbits Mb Eb beta Hfr Hft w Hr Hw.
  apply (negative_digit_comp_correct_gen c TABLES LIMITS f b Hf OK pow5_tables_ok_TABLES
           pow5_large_ok_TABLES eq_refl LIMITS_cap bigmant fp exponent N); assumption.
Qed.

(** the same with [bbits] characterised by the model's own computation of `b` *)
Corollary negative_digit_comp_correct_b c f b bigmant fp exponent N bfp bbits :
  rfmt_ok f = true -> fmt_ok f = true ->
  limbs_ok (vl bigmant) -> is_normalized (vl bigmant) = true -> lval (vl bigmant) = N -> 0 < N ->
  62 <= vcap bigmant -> (alloc c = false -> vcap bigmant = 62) -> zlen (vl bigmant) <= vcap bigmant ->
  2 ^ 63 <= mant fp < 2 ^ 64 -> - 63 <= exp fp <= 2 ^ 30 -> - 2 ^ 30 <= exponent < 0 ->
  round f b fp (round_down b) = Ok bfp -> extended_to_float f b bfp = Ok bbits ->
  let beta := dec_exp f bbits - 1 - exponent in
  N * 2 ^ Z.max 0 (- beta) < B64 ^ 62 ->
  (2 * dec_mant f bbits + 1) * 5 ^ (- exponent) * 2 ^ Z.max 0 beta < B64 ^ 62 ->
  forall w, rne_bits f N (10 ^ (- exponent)) w -> bbits <= w <= bbits + 1 ->
  exists r, negative_digit_comp c TABLES LIMITS f b bigmant fp exponent = Ok r /\
            extended_to_float f b r = Ok w.
Proof.
  intros Hf OK Hbo Hbn HbN HN Hbc0 Hbc Hbl Hm He Hex Hr1 Hr2.
  destruct (rd_model f Hf b fp Hm He) as (R1 & R2 & _).
  rewrite R1 in Hr1. injection Hr1 as <-. rewrite R2 in Hr2. injection Hr2 as <-.
  apply negative_digit_comp_correct; assumption.
Qed.

(** [bbits] is what the function computes as `b` *)
Theorem rd_bits_is_b f b fp :
  rfmt_ok f = true -> 2 ^ 63 <= mant fp < 2 ^ 64 -> - 63 <= exp fp <= 2 ^ 30 ->
  (bfp <- round f b fp (round_down b) ;; extended_to_float f b bfp) = Ok (rd_bits f fp).
Proof.
  intros Hf Hm He. destruct (rd_model f Hf b fp Hm He) as (R1 & R2 & _).
  rewrite R1. cbn [bind]. exact R2.
Qed.

(** ** 7. Examples *)

(** little-endian limbs of a non-negative integer *)
Fixpoint to_limbs (fuel : nat) (n : Z) : list Z :=
  match fuel with
  | O => []
  | S k => if n =? 0 then [] else (n mod B64) :: to_limbs k (n / B64)
  end.
Definition big (n : Z) : vec := mkVec (to_limbs 62 n) 62.

(** The hypotheses of the main theorem are satisfiable.  The classic hard case
    1.00000000000000011102230246251565404236316680908203125 = 1 + 2^-53, the midpoint of 1.0 and
    its successor: N = (2^53 + 1) * 5^53, exponent -53, estimate (2^63 + 2^10, 1012); the tie
    goes to the even significand, w = 1.0. *)
Definition ex_N := 100000000000000011102230246251565404236316680908203125.
Definition ex_fp := mkExt 0x8000000000000400 1012.

Example negative_digit_comp_correct_hyps :
  let bigmant := big ex_N in
  let bbits := rd_bits F64 ex_fp in
  let beta := dec_exp F64 bbits - 1 - (-53) in
  rfmt_ok F64 = true /\ fmt_ok F64 = true /\
  limbs_ok (vl bigmant) /\ is_normalized (vl bigmant) = true /\ lval (vl bigmant) = ex_N /\ 0 < ex_N /\
  62 <= vcap bigmant /\ vcap bigmant = 62 /\ zlen (vl bigmant) <= vcap bigmant /\
  2 ^ 63 <= mant ex_fp < 2 ^ 64 /\ - 63 <= exp ex_fp <= 2 ^ 30 /\ - 2 ^ 30 <= -53 < 0 /\
  bbits = 0x3ff0000000000000 /\
  ex_N * 2 ^ Z.max 0 (- beta) < B64 ^ 62 /\
  (2 * dec_mant F64 bbits + 1) * 5 ^ (- (-53)) * 2 ^ Z.max 0 beta < B64 ^ 62 /\
  rne_bits F64 ex_N (10 ^ (- (-53))) 0x3ff0000000000000 /\
  bbits <= 0x3ff0000000000000 <= bbits + 1.
Proof.
  cbv zeta.
  split; [vm_compute; reflexivity|]. split; [vm_compute; reflexivity|].
  split; [apply limbs_ok_forallb; vm_compute; reflexivity|].
  split; [vm_compute; reflexivity|]. split; [vm_compute; reflexivity|]. split; [vm_compute; reflexivity|].
  split; [vm_compute; congruence|]. split; [reflexivity|]. split; [vm_compute; congruence|].
  split; [vm_compute; split; congruence|]. split; [vm_compute; split; congruence|].
  split; [vm_compute; split; congruence|].
  split; [vm_compute; reflexivity|]. split; [vm_compute; reflexivity|]. split; [vm_compute; reflexivity|].
  split; [|vm_compute; split; congruence].
  right. right. split; [vm_compute; reflexivity|]. split; [vm_compute; reflexivity|].
  exists (2 ^ 52), (-52). split; [|split].
  - unfold canon_exp. vm_compute. split; [congruence|]. split; [reflexivity|right; congruence].
  - unfold nearest_even. vm_compute. split; [congruence|reflexivity].
  - vm_compute. reflexivity.
Qed.

(** ... and the theorem then gives the result for every configuration and build mode at once *)
Example negative_digit_comp_halfway_inst c b :
  exists r, negative_digit_comp c TABLES LIMITS F64 b (big ex_N) ex_fp (-53) = Ok r /\
            extended_to_float F64 b r = Ok 0x3ff0000000000000.
Proof.
  destruct negative_digit_comp_correct_hyps as
    (H1 & H2 & H3 & H4 & H5 & H6 & H7 & H8 & H9 & H10 & H11 & H12 & H13 & H14 & H15 & H16 & H17).
  apply (negative_digit_comp_correct c F64 b (big ex_N) ex_fp (-53) ex_N); auto.
Qed.

(** Direct runs of the model on the special cases (checked build):
    - the tie above, and one unit in the last decimal place more (rounds up);
    - +0 / smallest subnormal: 2^-1075 = 5^1075 * 10^-1075 is half the smallest subnormal (tie, M = 0
      even: result +0); one more unit in the last place gives the smallest subnormal;
    - largest subnormal -> smallest normal: the midpoint (2^53 - 1) * 2^-1075, M = 2^52 - 1 odd: up,
      through the hidden-bit overlap of [round]'s subnormal branch; just below it: down;
    - largest finite -> +infinity: the midpoint (2^54 - 1) * 2^970 (written with exponent -1),
      M = 2^53 - 1 odd: up, the carry yields the infinity fields; just below it: down. *)
Definition run_ndc (N : Z) (fp : extfloat) (exponent : Z) : outcome Z :=
  r <- negative_digit_comp CFG_s TABLES LIMITS F64 checked_build (big N) fp exponent ;;
  extended_to_float F64 checked_build r.

Example negative_digit_comp_runs :
  run_ndc ex_N ex_fp (-53) = Ok 0x3ff0000000000000 /\
  run_ndc (ex_N + 1) ex_fp (-53) = Ok 0x3ff0000000000001 /\
  run_ndc (5 ^ 1075) (mkExt (2 ^ 63) (-63)) (-1075) = Ok 0 /\
  run_ndc (5 ^ 1075 + 1) (mkExt (2 ^ 63) (-63)) (-1075) = Ok 1 /\
  run_ndc ((2 ^ 53 - 1) * 5 ^ 1075) (mkExt ((2 ^ 53 - 1) * 2 ^ 11) (-11)) (-1075) = Ok 0x0010000000000000 /\
  run_ndc ((2 ^ 53 - 1) * 5 ^ 1075 - 1) (mkExt ((2 ^ 53 - 1) * 2 ^ 11 - 1) (-11)) (-1075) = Ok 0x000fffffffffffff /\
  run_ndc ((2 ^ 54 - 1) * 2 ^ 970 * 10) (mkExt ((2 ^ 54 - 1) * 2 ^ 10) 2035) (-1) = Ok 0x7ff0000000000000 /\
  run_ndc ((2 ^ 54 - 1) * 2 ^ 970 * 10 - 1) (mkExt ((2 ^ 54 - 1) * 2 ^ 10 - 1) 2035) (-1) = Ok 0x7fefffffffffffff.
Proof. vm_compute. repeat split; reflexivity. Qed.

(** the halfway case and the overflow case on all eight generated configurations (stack / heap,
    compact or not, 32- or 64-bit limb dumps), both build modes *)
Example negative_digit_comp_runs_all_configs :
  forallb (fun c => forallb (fun b =>
    match (r <- negative_digit_comp c TABLES LIMITS F64 b (big ex_N) ex_fp (-53) ;;
           extended_to_float F64 b r),
          (r <- negative_digit_comp c TABLES LIMITS F64 b (big ((2 ^ 54 - 1) * 2 ^ 970 * 10))
                  (mkExt ((2 ^ 54 - 1) * 2 ^ 10) 2035) (-1) ;;
           extended_to_float F64 b r) with
    | Ok w1, Ok w2 => (w1 =? 0x3ff0000000000000) && (w2 =? 0x7ff0000000000000)
    | _, _ => false
    end) [release_build; checked_build]) ALL_CONFIGS = true.
Proof. vm_compute. reflexivity. Qed.

Print Assumptions negative_digit_comp_correct_gen.
Print Assumptions negative_digit_comp_correct.
Print Assumptions negative_digit_comp_correct_b.
