(** * gen/SrcBigint.v = model/Bigint.v : the arithmetic half of src/bigint.rs
    (scalar_mul, small_add_from, small_add, small_mul, large_add_from, large_add, long_mul,
    large_mul, pow; `Bigint::pow` is in proofs/SrcEqBigintC.v).

    Every theorem [rs_<name>_eq] states that the Gallina text generated from the Rust source by
    tools/rs2coq equals the hand-written model function, for every build mode, both vector
    back-ends ([alloc c]), all tables and limits, under range hypotheses only:
    - limbs and scalar operands are u64 ([limbs_ok], [u64_ok]) where the source multiplies in u128
      (small_mul and everything built on it); the additions need no such hypothesis;
    - `usize` values are non-negative ([0 <= start]) and lengths / sums of lengths that the source
      computes in `usize` are below 2^64 (the model computes them in Z);
    - for `pow`: the exponent is a u32, the table entries are u64, [0 < LARGE_POW5_STEP T].
    [start <= vlen v] is NOT needed for small_add_from / large_add_from.
    Where a hypothesis is necessary, an [Example] next to the theorem gives the counterexample
    ([rs_small_add_from_neg_start], [rs_large_add_from_neg_start],
    [rs_large_add_from_usize_overflow], [rs_pow_zero_step]). *)
From Coq Require Import ZArith List Bool Lia Znumtheory.
From Coq Require Import ZifyBool.
From ML Require Import base.RustSem model.Fmt model.Vec model.Number model.Bigint model.SrcLib.
From ML Require Import gen.Src gen.SrcBigint gen.Consts gen.Tables gen.PowDump.
From ML Require Import proofs.LimbVal proofs.BigintFacts1 proofs.SrcEqBase.
Import ListNotations.
Ltac Zify.zify_post_hook ::= Z.div_mod_to_equations.
Open Scope Z_scope.
Open Scope rust_scope.
Local Opaque Z.pow.
Arguments Z.pow : simpl never.

(** ** generalities *)
Lemma B64_2_64 : B64 = 2 ^ 64. Proof. reflexivity. Qed.

Lemma vec_eta v : mkVec (vl v) (vcap v) = v.
Proof. destruct v; reflexivity. Qed.

Lemma zlen_ge0 {A} (l : list A) : 0 <= zlen l.
Proof. unfold zlen. lia. Qed.

Lemma limbs_ok_u64 l x : limbs_ok l -> In x l -> u64_ok x.
Proof. unfold limbs_ok, u64_ok. rewrite Forall_forall, B64_2_64. auto. Qed.

Lemma nth_app_mid (pre : list Z) x suf d : nth (length pre) (pre ++ x :: suf) d = x.
Proof. rewrite app_nth2 by lia. rewrite Nat.sub_diag. reflexivity. Qed.

Lemma list_set_app_mid (pre : list Z) x suf y :
  list_set (pre ++ x :: suf) (length pre) y = pre ++ y :: suf.
Proof. induction pre as [|p pre IH]; cbn [list_set app length]; [reflexivity|]. rewrite IH. reflexivity. Qed.

Lemma slice_get_opt_mid pre x suf :
  slice_get_opt (pre ++ x :: suf) (zlen pre) = Some x.
Proof.
  unfold slice_get_opt. pose proof (zlen_ge0 pre).
  rewrite zlen_app, zlen_cons. pose proof (zlen_ge0 suf).
  replace ((0 <=? zlen pre) && (zlen pre <? zlen pre + (zlen suf + 1))) with true by lia.
  unfold zlen. rewrite Nat2Z.id, nth_app_mid. reflexivity.
Qed.

Lemma vec_get_mid v pre x suf : vl v = pre ++ x :: suf -> vec_get v (zlen pre) = Ok x.
Proof. intros E. unfold vec_get, slice_get. rewrite E, slice_get_opt_mid. reflexivity. Qed.

Lemma vec_set_mid v pre x suf y : vl v = pre ++ x :: suf ->
  vec_set v (zlen pre) y = Ok (mkVec (pre ++ y :: suf) (vcap v)).
Proof.
  intros E. unfold vec_set. rewrite E. pose proof (zlen_ge0 pre). pose proof (zlen_ge0 suf).
  rewrite zlen_app, zlen_cons.
  replace ((0 <=? zlen pre) && (zlen pre <? zlen pre + (zlen suf + 1))) with true by lia.
  unfold zlen. rewrite Nat2Z.id, list_set_app_mid. reflexivity.
Qed.

(** ** scalar operations (also proved in proofs/SrcEqBigintA.v; local copies, hence the suffix) *)
Lemma rs_scalar_add_eq_local b x y : rs_scalar_add b x y = Ok (scalar_add x y).
Proof. reflexivity. Qed.

Lemma rs_scalar_mul_eq_local : forall b x y carry, u64_ok x -> u64_ok y -> u64_ok carry ->
  rs_scalar_mul b x y carry = Ok (scalar_mul x y carry).
Proof.
  intros b x y carry Hx Hy Hc. unfold rs_scalar_mul, scalar_mul, u128_mul, u128_add, u128_shr, as_u128.
  rewrite !wrapu_small by rng.
  assert (Hp : 0 <= x * y < 2 ^ 128).
  { unfold u64_ok in *. change (2 ^ 128) with (2 ^ 64 * 2 ^ 64). nia. }
  assert (Hq : 0 <= x * y + carry < 2 ^ 128).
  { unfold u64_ok in *. change (2 ^ 128) with (2 ^ 64 * 2 ^ 64). nia. }
  rewrite uop_ok by (apply in_u_n; exact Hp). heads.
  rewrite uop_ok by (apply in_u_n; exact Hq). heads.
  rewrite shr_u_ok by reflexivity. heads.
  unfold as_u64, wrapu. rewrite B64_2_64. f_equal. f_equal.
  apply Z.mod_small.
  split; [apply Z.div_pos; lia|].
  apply Z.div_lt_upper_bound; [lia|]. change (2 ^ 128) with (2 ^ 64 * 2 ^ 64) in Hq. lia.
Qed.

Example rs_scalar_mul_example :
  rs_scalar_mul checked_build (2 ^ 64 - 1) (2 ^ 64 - 1) (2 ^ 64 - 1) = Ok (0, 2 ^ 64 - 1).
Proof. vm_compute. reflexivity. Qed.

(** ** `for xi in x.iter_mut()` with a carry = structural recursion with a carry *)
Lemma for_mut_mul_carry (body : Z -> Z -> outcome (Z * Z)) y :
  (forall carry x, u64_ok carry -> u64_ok x ->
     body carry x = Ok (snd (scalar_mul x y carry), fst (scalar_mul x y carry))) ->
  u64_ok y ->
  forall l carry, limbs_ok l -> u64_ok carry ->
  rs_for_mut l body carry = Ok (snd (mul_carry l y carry), fst (mul_carry l y carry)).
Proof.
  intros Hb Hy. induction l as [|x r IH]; intros carry Hl Hc; cbn [rs_for_mut mul_carry].
  - reflexivity.
  - apply limbs_ok_cons in Hl. destruct Hl as [Hx Hr].
    assert (Hx' : u64_ok x) by (unfold u64_ok; rewrite <- B64_2_64; exact Hx).
    rewrite (Hb carry x Hc Hx'). heads.
    pose proof (scalar_mul_spec x y carry Hx) as S. rewrite B64_2_64 in S.
    specialize (S Hy Hc).
    destruct (scalar_mul x y carry) as [lo hi]. cbn [fst snd]. destruct S as [_ [Hhi _]].
    rewrite (IH hi Hr Hhi). heads.
    destruct (mul_carry r y hi) as [r' c']. reflexivity.
Qed.

(** ** small_mul *)
Theorem rs_small_mul_eq : forall c b v y, limbs_ok (vl v) -> u64_ok y ->
  rs_small_mul c b v y = Ok (small_mul c v y).
Proof.
  intros c b v y Hl Hy. unfold rs_small_mul. cbv zeta.
  rewrite (for_mut_mul_carry _ y) with (carry := 0); try assumption.
  - heads. rewrite small_mul_unfold. cbv zeta.
    destruct (mul_carry (vl v) y 0) as [l carry]. cbn [fst snd].
    destruct (negb (carry =? 0)); [|reflexivity].
    destruct (try_push (alloc c) (vset_list v l) carry); reflexivity.
  - intros carry x Hc Hx. rewrite (rs_scalar_mul_eq_local b x y carry Hx Hy Hc). reflexivity.
  - unfold u64_ok. split; [lia|reflexivity].
Qed.

Example rs_small_mul_example :
  rs_small_mul CFG_s checked_build (mkVec (repeat (2 ^ 64 - 1) 62) 62) 3 = Ok None /\
  rs_small_mul CFG_sa release_build (mkVec [2 ^ 64 - 1; 5] 2) (2 ^ 64 - 1)
    = Ok (Some (mkVec [1; 2 ^ 64 - 7; 5] 4)).
Proof. vm_compute. auto. Qed.

(** ** small_add_from: the index loop `while carry != 0 && index < x.len()` *)
(** the loop invariant: the limbs below [index] are final ([pre]), the rest ([suf]) is untouched;
    what the loop leaves is [add_carry suf carry] *)
Lemma small_add_loop (body : Z * Z * vec -> outcome (ctl (Z * Z * vec) Empty_set)) b :
  (forall carry index v,
     body (carry, index, v) =
       if negb (carry =? 0) && (index <? vlen v) then
         t1 <- vec_get v index ;;
         v' <- vec_set v index (fst (scalar_add t1 carry)) ;;
         t3 <- usize_add b index 1 ;;
         Ok (Next ((if snd (scalar_add t1 carry) then 1 else 0), t3, v'))
       else Ok (Break (carry, index, v))) ->
  forall suf pre carry fuel v,
  vl v = pre ++ suf -> (length suf < fuel)%nat -> zlen (pre ++ suf) < 2 ^ 64 ->
  exists i',
    rs_loop fuel body (carry, zlen pre, v)
    = Ok (inl (snd (add_carry suf carry), i', mkVec (pre ++ fst (add_carry suf carry)) (vcap v))).
Proof.
  intros Hb. induction suf as [|x r IH]; intros pre carry fuel v Ev Hf Hlen;
    (destruct fuel as [|fuel]; [cbn [length] in Hf; lia|]); cbn [rs_loop add_carry]; rewrite Hb.
  - unfold vlen. rewrite Ev, app_nil_r. rewrite Z.ltb_irrefl, andb_false_r. heads.
    exists (zlen pre). cbn [fst snd]. rewrite app_nil_r in *. rewrite <- Ev, vec_eta. reflexivity.
  - unfold vlen. rewrite Ev.
    pose proof (zlen_ge0 pre) as Hp. pose proof (zlen_ge0 r) as Hr.
    rewrite zlen_app, zlen_cons in Hlen |- *.
    destruct (carry =? 0) eqn:Ec; cbn [negb andb].
    + heads. exists (zlen pre). cbn [fst snd]. assert (carry = 0) by lia. subst carry.
      rewrite <- Ev, vec_eta. reflexivity.
    + replace (zlen pre <? zlen pre + (zlen r + 1)) with true by lia.
      destruct (scalar_add x carry) as [s cf] eqn:Es.
      specialize (IH (pre ++ [s]) (if cf then 1 else 0) fuel (mkVec (pre ++ s :: r) (vcap v))).
      rewrite !zlen_app, zlen_cons, (@zlen_nil Z) in IH. cbn [vl vcap] in IH.
      destruct IH as [i' E].
      * rewrite <- app_assoc. reflexivity.
      * cbn [length] in Hf. lia.
      * lia.
      * exists i'.
        rewrite (vec_get_mid v pre x r Ev). heads. rewrite Es. cbn [fst snd].
        rewrite (vec_set_mid v pre x r _ Ev). heads.
        rewrite usize_add_ok by (unfold u64_ok; lia). heads.
        replace (zlen pre + (0 + 1)) with (zlen pre + 1) in E by lia. rewrite E.
        destruct (add_carry r (if cf then 1 else 0)) as [r' c']. cbn [fst snd].
        rewrite <- app_assoc. reflexivity.
Qed.

Lemma firstn_all_ge {A} (l : list A) n : (length l <= n)%nat -> firstn n l = l.
Proof. intros. apply firstn_all2. assumption. Qed.

Theorem rs_small_add_from_eq : forall c b v y start,
  0 <= start -> zlen (vl v) < 2 ^ 64 ->
  rs_small_add_from c b v y start = Ok (small_add_from c v y start).
Proof.
  intros c b v y start Hs Hlen. unfold rs_small_add_from. cbv zeta.
  rewrite small_add_from_unfold. cbv zeta.
  set (n := Z.to_nat start).
  match goal with |- context [rs_loop ?f ?bd ?st] => set (body := bd) end.
  assert (Hb : forall carry index v0,
     body (carry, index, v0) =
       if negb (carry =? 0) && (index <? vlen v0) then
         t1 <- vec_get v0 index ;;
         v' <- vec_set v0 index (fst (scalar_add t1 carry)) ;;
         t3 <- usize_add b index 1 ;;
         Ok (Next ((if snd (scalar_add t1 carry) then 1 else 0), t3, v'))
       else Ok (Break (carry, index, v0))).
  { intros. unfold body. destruct (negb (carry =? 0) && (index <? vlen v0)); [|reflexivity].
    destruct (vec_get v0 index); reflexivity. }
  destruct (Z_le_gt_dec start (zlen (vl v))) as [Hle|Hgt].
  - (* start within the vector *)
    assert (Hn : (n <= length (vl v))%nat) by (unfold zlen in Hle; lia).
    destruct (small_add_loop body b Hb (skipn n (vl v)) (firstn n (vl v)) y (S (length (vl v))) v)
      as [i' E].
    + symmetry. apply firstn_skipn.
    + rewrite skipn_length. lia.
    + rewrite firstn_skipn. exact Hlen.
    + rewrite zlen_firstn in E by exact Hn. unfold n in E at 1. rewrite Z2Nat.id in E by exact Hs.
      rewrite E. heads. cbn [no_return].
      destruct (add_carry (skipn n (vl v)) y) as [suf carry]. cbn [fst snd]. unfold vset_list.
      destruct (negb (carry =? 0)); [|reflexivity].
      destruct (try_push _ _ carry); reflexivity.
  - (* start beyond the end: the loop does not run *)
    cbn [rs_loop]. rewrite Hb. unfold vlen.
    replace (start <? zlen (vl v)) with false by lia. rewrite andb_false_r. heads. cbn [no_return].
    assert (Hn : (length (vl v) <= n)%nat) by (unfold zlen in Hgt; lia).
    rewrite (skipn_all2 (vl v) Hn), (firstn_all_ge (vl v) n Hn). cbn [add_carry fst snd].
    rewrite app_nil_r. unfold vset_list. rewrite vec_eta.
    destruct (negb (y =? 0)); [|reflexivity].
    destruct (try_push _ _ y); reflexivity.
Qed.

(** the statement is false for a negative [start] (not a `usize`): the source indexes, the model
    clamps [Z.to_nat start] to 0 *)
Example rs_small_add_from_neg_start :
  rs_small_add_from CFG_s release_build (mkVec [5] 62) 1 (-1) = Panic PkIndex /\
  small_add_from CFG_s (mkVec [5] 62) 1 (-1) = Some (mkVec [6] 62).
Proof. vm_compute. auto. Qed.

Example rs_small_add_from_example :
  rs_small_add_from CFG_s checked_build (mkVec (repeat (2 ^ 64 - 1) 62) 62) 1 3 = Ok None /\
  rs_small_add_from CFG_sa release_build (mkVec [7; 2 ^ 64 - 1; 2 ^ 64 - 1] 3) 1 1
    = Ok (Some (mkVec [7; 0; 0; 1] 6)).
Proof. vm_compute. auto. Qed.

Theorem rs_small_add_eq : forall c b v y, zlen (vl v) < 2 ^ 64 ->
  rs_small_add c b v y = Ok (small_add c v y).
Proof.
  intros. unfold rs_small_add, small_add. rewrite rs_small_add_from_eq by (lia || assumption).
  reflexivity.
Qed.

(** ** large_add_from: the `for (index, &yi) in y.iter().enumerate()` loop on `x[start + index]` *)
Lemma add_lists_length : forall y x carry, (length y <= length x)%nat ->
  length (fst (add_lists x y carry)) = length x.
Proof.
  induction y as [|yi y IH]; intros x carry H; [rewrite add_lists_nil; reflexivity|].
  destruct x as [|xi x]; [cbn [length] in H; lia|]. cbn [add_lists].
  destruct (scalar_add xi yi) as [s c1].
  destruct (if carry then scalar_add s 1 else (s, false)) as [s' c2].
  specialize (IH x (c1 || c2) ltac:(cbn [length] in H; lia)).
  destruct (add_lists x y (c1 || c2)) as [r cf]. cbn [fst length] in *. lia.
Qed.

Lemma large_add_loop (body : bool * vec -> Z * Z -> outcome (ctl (bool * vec) Empty_set)) b start :
  (forall carry v index yi,
     body (carry, v) (index, yi) =
       t2 <- usize_add b start index ;;
       unwrap (slice_get_opt (vl v) t2) ;;;
       t3 <- vec_get v t2 ;;
       v1 <- vec_set v t2 (fst (scalar_add t3 yi)) ;;
       '(tmp, v2) <- (if carry then
                        t5 <- vec_get v1 t2 ;;
                        v2 <- vec_set v1 t2 (fst (scalar_add t5 1)) ;;
                        Ok (snd (scalar_add t3 yi) || snd (scalar_add t5 1), v2)
                      else Ok (snd (scalar_add t3 yi), v1)) ;;
       Ok (Next (tmp, v2))) ->
  forall ys xs pre k carry v,
  vl v = pre ++ xs -> (ys <> [] -> zlen pre = start + k) -> (length ys <= length xs)%nat ->
  zlen (pre ++ xs) < 2 ^ 64 ->
  rs_for_iter (enumerate_from k ys) body (carry, v)
  = Ok (inl (snd (add_lists xs ys carry), mkVec (pre ++ fst (add_lists xs ys carry)) (vcap v), [])).
Proof.
  intros Hb. induction ys as [|yi ys IH]; intros xs pre k carry v Ev Hk Hlen Hmax;
    cbn [enumerate_from rs_for_iter add_lists].
  - rewrite add_lists_nil. cbn [fst snd]. rewrite <- Ev, vec_eta. reflexivity.
  - destruct xs as [|xi xs]; [cbn [length] in Hlen; lia|]. cbn [add_lists].
    specialize (Hk ltac:(discriminate)).
    pose proof (zlen_ge0 pre) as Hp. pose proof (zlen_ge0 xs) as Hx.
    rewrite zlen_app, zlen_cons in Hmax.
    rewrite Hb. rewrite usize_add_ok by (unfold u64_ok; lia). heads. rewrite <- Hk.
    rewrite Ev, slice_get_opt_mid. cbn [unwrap]. heads.
    rewrite (vec_get_mid v pre xi xs Ev). heads.
    rewrite (vec_set_mid v pre xi xs _ Ev). heads.
    destruct (scalar_add xi yi) as [s c1]. cbn [fst snd].
    assert (Hfin : forall s' cc,
      rs_for_iter (enumerate_from (k + 1) ys) body (cc, mkVec (pre ++ s' :: xs) (vcap v))
      = Ok (inl (snd (let '(r, cf) := add_lists xs ys cc in (s' :: r, cf)),
                 mkVec (pre ++ fst (let '(r, cf) := add_lists xs ys cc in (s' :: r, cf))) (vcap v), []))).
    { intros s' cc.
      rewrite (IH xs (pre ++ [s']) (k + 1) cc (mkVec (pre ++ s' :: xs) (vcap v))).
      + cbn [vcap]. destruct (add_lists xs ys cc) as [r cf]. cbn [fst snd].
        rewrite <- app_assoc. reflexivity.
      + cbn [vl]. rewrite <- app_assoc. reflexivity.
      + intros _. rewrite zlen_app, zlen_cons, (@zlen_nil Z). lia.
      + cbn [length] in Hlen. lia.
      + rewrite !zlen_app, zlen_cons, (@zlen_nil Z). lia. }
    destruct carry.
    + rewrite (vec_get_mid (mkVec (pre ++ s :: xs) (vcap v)) pre s xs eq_refl). heads.
      rewrite (vec_set_mid (mkVec (pre ++ s :: xs) (vcap v)) pre s xs _ eq_refl). heads. cbn [vcap].
      destruct (scalar_add s 1) as [s' c2]. cbn [fst snd]. apply Hfin.
    + heads. rewrite orb_false_r. apply Hfin.
Qed.

Theorem rs_large_add_from_eq : forall c b v y start,
  0 <= start -> zlen (vl v) < 2 ^ 64 -> zlen y + start < 2 ^ 64 ->
  rs_large_add_from c b v y start = Ok (large_add_from c v y start).
Proof.
  intros c b v y start Hs Hlen Hsum. unfold rs_large_add_from.
  lazymatch goal with
  | |- context [match try_resize _ _ _ _ with Some vx => @?F vx | None => _ end] => pose (k1 := F)
  end.
  rewrite large_add_from_unfold.
  set (n := Z.to_nat start).
  assert (Hk1 : forall v1, zlen y <= zlen (skipn n (vl v1)) -> zlen (vl v1) < 2 ^ 64 ->
     k1 v1 = Ok (let r := add_lists (skipn n (vl v1)) y false in
                 let v2 := vset_list v1 (firstn n (vl v1) ++ fst r) in
                 if snd r then small_add_from c v2 1 (zlen y + start) else Some v2)).
  { intros v1 Hy Hl1. unfold k1. cbv zeta.
    match goal with |- context [rs_for ?l ?bd ?st] => set (body := bd) end.
    unfold rs_for.
    rewrite (large_add_loop body b start) with (xs := skipn n (vl v1)) (pre := firstn n (vl v1)).
    - heads. cbn [no_return]. cbn [vcap].
      pose proof (add_lists_length y (skipn n (vl v1)) false ltac:(unfold zlen in Hy; lia)) as HL.
      destruct (add_lists (skipn n (vl v1)) y false) as [suf carry]. cbn [fst snd] in *.
      unfold vset_list. destruct carry; [|reflexivity].
      rewrite usize_add_ok by (unfold u64_ok; pose proof (zlen_ge0 y); lia). heads.
      rewrite rs_small_add_from_eq.
      + heads. destruct (small_add_from _ _ _ _); reflexivity.
      + pose proof (zlen_ge0 y); lia.
      + cbn [vl]. unfold zlen in *. rewrite app_length, HL, <- app_length, firstn_skipn. exact Hl1.
    - intros carry v0 index yi. unfold body. reflexivity.
    - symmetry. apply firstn_skipn.
    - intros Hne. rewrite zlen_firstn; [unfold n; lia|].
      assert (0 < zlen y) by (destruct y; [congruence|rewrite zlen_cons; pose proof (zlen_ge0 y); lia]).
      rewrite zlen_skipn in Hy. unfold zlen in *. lia.
    - unfold zlen in Hy. lia.
    - rewrite firstn_skipn. exact Hl1. }
  unfold vlen.
  destruct (usize_saturating_sub (zlen (vl v)) start <? zlen y) eqn:E.
  - rewrite usize_add_ok at 1 by (unfold u64_ok; pose proof (zlen_ge0 y); lia). heads.
    destruct (try_resize (alloc c) v (zlen y + start) 0) as [v1|] eqn:Er; [|reflexivity].
    pose proof (large_add_prep_Some (alloc c) v y start v1 Hs) as P. unfold vlen in P.
    rewrite E in P. specialize (P Er). destruct P as [_ [P1 [P2 _]]].
    apply Hk1; [exact P2|]. rewrite P1. unfold large_add_len. rewrite E. exact Hsum.
  - apply Hk1; [|exact Hlen].
    rewrite zlen_skipn. unfold usize_saturating_sub in E. unfold zlen in *. lia.
Qed.

(** false for a negative [start] (not a `usize`) *)
Example rs_large_add_from_neg_start :
  rs_large_add_from CFG_s release_build (mkVec [5] 62) [1] (-1) = Panic PkUnwrap /\
  large_add_from CFG_s (mkVec [5] 62) [1] (-1) = Some (mkVec [6] 62).
Proof. vm_compute. auto. Qed.

Example rs_large_add_from_example :
  rs_large_add_from CFG_s checked_build (mkVec (repeat (2 ^ 64 - 1) 62) 62) [1] 61 = Ok None /\
  rs_large_add_from CFG_s checked_build (mkVec [1] 62) [2 ^ 64 - 1; 2 ^ 64 - 1] 3
    = Ok (Some (mkVec [1; 0; 0; 2 ^ 64 - 1; 2 ^ 64 - 1] 62)) /\
  rs_large_add_from CFG_sa release_build (mkVec [1; 2 ^ 64 - 1; 2 ^ 64 - 1] 3) [2 ^ 64 - 1; 1] 1
    = Ok (Some (mkVec [1; 2 ^ 64 - 2; 1; 1] 6)).
Proof. vm_compute. auto. Qed.

Theorem rs_large_add_eq : forall c b v y, zlen (vl v) < 2 ^ 64 -> zlen y < 2 ^ 64 ->
  rs_large_add c b v y = Ok (large_add c v y).
Proof.
  intros. unfold rs_large_add, large_add. rewrite rs_large_add_from_eq by (lia || assumption).
  reflexivity.
Qed.

(** the hypothesis [zlen y + start < 2 ^ 64] is needed: `y.len() + start` is computed in `usize`
    before the resize; the model computes it in Z *)
Example rs_large_add_from_usize_overflow :
  rs_large_add_from CFG_s release_build (mkVec [5] 62) [1] (2 ^ 64 - 1) = Panic PkUnwrap /\
  rs_large_add_from CFG_s checked_build (mkVec [5] 62) [1] (2 ^ 64 - 1) = Panic PkOverflow /\
  large_add_from CFG_s (mkVec [5] 62) [1] (2 ^ 64 - 1) = None.
Proof. vm_compute. auto. Qed.

(** ** normalize, local copy (also in proofs/SrcEqBigintA.v) (the `while let Some(&value) = x.get(x.len().wrapping_sub(1))` loop) *)
Lemma strip_zeros_cons x r : strip_zeros (x :: r) = if x =? 0 then strip_zeros r else x :: r.
Proof. destruct x; reflexivity. Qed.

Lemma normalize_loop (body : vec -> outcome (ctl vec Empty_set)) b :
  (forall v, body v =
     match slice_get_opt (vl v) (usize_wrapping_sub (vlen v) 1) with
     | Some value =>
         if value =? 0 then
           t1 <- usize_sub b (vlen v) 1 ;; v' <- vec_set_len v t1 ;; Ok (Next v')
         else Ok (Break v)
     | None => Ok (Break v)
     end) ->
  forall r fuel cap, (length r < fuel)%nat -> zlen r < 2 ^ 64 ->
  rs_loop fuel body (mkVec (rev r) cap) = Ok (inl (mkVec (rev (strip_zeros r)) cap)).
Proof.
  intros Hb. induction r as [|x r IH]; intros fuel cap Hf Hlen;
    (destruct fuel as [|fuel]; [cbn [length] in Hf; lia|]); cbn [rs_loop]; rewrite Hb; unfold vlen; cbn [vl rev].
  - unfold slice_get_opt. change (zlen (@nil Z)) with 0.
    replace ((0 <=? usize_wrapping_sub 0 1) && (usize_wrapping_sub 0 1 <? 0)) with false by lia.
    reflexivity.
  - rewrite zlen_cons in Hlen. pose proof (zlen_ge0 r) as Hr.
    assert (Hrev : zlen (rev r) = zlen r) by (unfold zlen; rewrite rev_length; reflexivity).
    rewrite zlen_app, zlen_cons, (@zlen_nil Z), Hrev. unfold usize_wrapping_sub.
    replace (zlen r + (0 + 1) - 1) with (zlen r) by lia.
    rewrite wrapu_small by lia. rewrite <- Hrev at 1. rewrite slice_get_opt_mid.
    rewrite strip_zeros_cons. destruct (x =? 0) eqn:Ex; [|reflexivity].
    unfold usize_sub. replace (zlen r + (0 + 1) - 1) with (zlen r) by lia.
    rewrite uop_ok by (apply in_u_n; lia). heads.
    unfold vec_set_len. cbn [vl vcap]. rewrite zlen_app, zlen_cons, (@zlen_nil Z), Hrev.
    replace ((0 <=? zlen r) && (zlen r <=? zlen r + (0 + 1))) with true by lia. heads.
    replace (Z.to_nat (zlen r)) with (length (rev r)) by (unfold zlen in *; lia).
    rewrite firstn_app_exact by reflexivity.
    apply IH; [cbn [length] in Hf; lia | lia].
Qed.

Lemma rs_bigint_normalize_eq_local : forall b v, zlen (vl v) < 2 ^ 64 ->
  rs_bigint_normalize b v = Ok (vset_list v (normalize_list (vl v))).
Proof.
  intros b v Hlen. unfold rs_bigint_normalize, normalize_list, vset_list.
  match goal with |- context [rs_loop ?f ?bd ?st] => set (body := bd) end.
  rewrite <- (vec_eta v) at 2. rewrite <- (rev_involutive (vl v)) at 2.
  rewrite (normalize_loop body b).
  - heads. cbn [no_return]. reflexivity.
  - intros v0. unfold body. reflexivity.
  - rewrite rev_length. lia.
  - unfold zlen in *. rewrite rev_length. exact Hlen.
Qed.

(** ** long_mul *)
(** one step of the loop of `long_mul` on the model side: ranges and lengths are preserved *)
Lemma small_mul_facts c v y v' : limbs_ok (vl v) -> u64_ok y -> small_mul c v y = Some v' ->
  limbs_ok (vl v') /\ zlen (vl v') <= zlen (vl v) + 1.
Proof.
  intros Hl Hy E. apply small_mul_spec in E; [|exact Hl|exact Hy].
  destruct E as [_ [O [Len _]]]. split; [exact O|].
  destruct (_ <=? _) in Len; lia.
Qed.

Lemma large_add_from_facts c v y start v' :
  limbs_ok (vl v) -> limbs_ok y -> 0 <= start -> large_add_from c v y start = Some v' ->
  limbs_ok (vl v') /\ zlen (vl v') <= Z.max (zlen (vl v)) (zlen y + start) + 1.
Proof.
  intros Hl Hy Hs E. apply large_add_from_spec in E; [|exact Hl|exact Hy|exact Hs].
  cbv zeta in E. destruct E as [_ [O [_ [Len _]]]]. split; [exact O|].
  assert (large_add_len v y start <= Z.max (zlen (vl v)) (zlen y + start)).
  { unfold large_add_len. destruct (_ <? _); lia. }
  destruct (_ <=? _) in Len; lia.
Qed.

Lemma long_mul_for (body : vec -> Z * Z -> outcome (ctl vec (option vec))) c L b x :
  (forall z index yi,
     body z (index, yi) =
       if negb (yi =? 0) then
         match try_from (alloc c) L x with
         | None => Ok (Return None)
         | Some zi =>
             t5 <- rs_small_mul c b zi yi ;;
             match t5 with
             | None => Ok (Return None)
             | Some zi' =>
                 t6 <- rs_large_add_from c b z (vl zi') index ;;
                 match t6 with
                 | None => Ok (Return None)
                 | Some z' => Ok (Next z')
                 end
             end
         end
       else Ok (Next z)) ->
  limbs_ok x ->
  forall ys k z, limbs_ok ys -> limbs_ok (vl z) -> 0 <= k ->
  zlen (vl z) <= zlen x + k + 1 -> zlen x + k + zlen ys + 1 < 2 ^ 64 ->
  rs_for_iter (enumerate_from k ys) body z
    = Ok (match long_mul_loop c L x ys k z with Some z' => inl (z', []) | None => inr None end) /\
  (forall z', long_mul_loop c L x ys k z = Some z' ->
     limbs_ok (vl z') /\ zlen (vl z') <= zlen x + k + zlen ys + 1).
Proof.
  intros Hb Hx. induction ys as [|yi ys IH]; intros k z Hys Hz Hk Hlz Hmax.
  - cbn [enumerate_from rs_for_iter]. rewrite long_mul_loop_nil. split; [reflexivity|].
    intros z' [= <-]. split; [exact Hz|]. rewrite (@zlen_nil Z). lia.
  - cbn [enumerate_from rs_for_iter]. rewrite long_mul_loop_cons, Hb.
    apply limbs_ok_cons in Hys. destruct Hys as [Hyi Hys].
    rewrite zlen_cons in Hmax |- *. pose proof (zlen_ge0 ys) as Hy0. pose proof (zlen_ge0 x) as Hx0.
    destruct (negb (yi =? 0)).
    + destruct (try_from (alloc c) L x) as [zi|] eqn:Et; [|cbn [bind]; split; [reflexivity|discriminate]].
      apply try_from_Some in Et. destruct Et as [Ezi _].
      rewrite rs_small_mul_eq by (rewrite ?Ezi; assumption). cbn [bind].
      destruct (small_mul c zi yi) as [zi'|] eqn:Es; [|cbn [bind]; split; [reflexivity|discriminate]].
      apply small_mul_facts in Es; [|rewrite Ezi; exact Hx|exact Hyi]. rewrite Ezi in Es.
      destruct Es as [Ozi Lzi].
      rewrite rs_large_add_from_eq by lia. cbn [bind].
      destruct (large_add_from c z (vl zi') k) as [z'|] eqn:El; [|cbn [bind]; split; [reflexivity|discriminate]].
      apply large_add_from_facts in El; [|assumption..]. destruct El as [Oz' Lz'].
      cbn [bind]. destruct (IH (k + 1) z' Hys Oz' ltac:(lia) ltac:(lia) ltac:(lia)) as [IH1 IH2].
      split; [exact IH1|]. intros z2 E2. specialize (IH2 z2 E2). split; [tauto|lia].
    + cbn [bind]. destruct (IH (k + 1) z Hys Hz ltac:(lia) ltac:(lia) ltac:(lia)) as [IH1 IH2].
      split; [exact IH1|]. intros z2 E2. specialize (IH2 z2 E2). split; [tauto|lia].
Qed.

Lemma normalize_list_length l : zlen (normalize_list l) <= zlen l.
Proof. destruct (normalize_list_spec l) as [_ [_ [_ [H _]]]]. unfold zlen. lia. Qed.

Lemma normalize_list_limbs_ok l : limbs_ok l -> limbs_ok (normalize_list l).
Proof. destruct (normalize_list_spec l) as [_ [_ [H _]]]. exact H. Qed.

Lemma slice_get_0 x l : slice_get (x :: l) 0 = Ok x.
Proof.
  unfold slice_get, slice_get_opt. rewrite zlen_cons. pose proof (zlen_ge0 l).
  replace ((0 <=? 0) && (0 <? zlen l + 1)) with true by lia. reflexivity.
Qed.

Theorem rs_long_mul_eq_facts : forall c L b x y,
  limbs_ok x -> limbs_ok y -> zlen x + zlen y + 1 < 2 ^ 64 ->
  rs_long_mul c L b x y = Ok (long_mul c L x y) /\
  (forall z, long_mul c L x y = Some z -> limbs_ok (vl z) /\ zlen (vl z) <= zlen x + zlen y + 1).
Proof.
  intros c L b x y Hx Hy Hlen. unfold rs_long_mul. cbv zeta. rewrite long_mul_unfold.
  pose proof (zlen_ge0 x) as Hx0. pose proof (zlen_ge0 y) as Hy0.
  destruct (try_from (alloc c) L x) as [z0|] eqn:Et; [|split; [reflexivity|discriminate]].
  destruct (try_from_Some _ _ _ _ Et) as [Ez0 _].
  assert (Hnorm : forall z, limbs_ok (vl z) -> zlen (vl z) <= zlen x + zlen y + 1 ->
            (v_z <- rs_bigint_normalize b z ;; Ok (Some v_z)) = Ok (Some (vset_list z (normalize_list (vl z)))) /\
            forall z', Some (vset_list z (normalize_list (vl z))) = Some z' ->
              limbs_ok (vl z') /\ zlen (vl z') <= zlen x + zlen y + 1).
  { intros z Oz Lz. split.
    - rewrite rs_bigint_normalize_eq_local by lia. reflexivity.
    - intros z' [= <-]. cbn [vset_list vl]. split; [apply normalize_list_limbs_ok, Oz|].
      pose proof (normalize_list_length (vl z)). lia. }
  destruct y as [|y0 ys].
  - cbn [negb]. change (zlen (@nil Z) =? 0) with true. cbn [negb].
    apply Hnorm; rewrite Ez0; [exact Hx|lia].
  - apply limbs_ok_cons in Hy. destruct Hy as [Hy0' Hys].
    rewrite zlen_cons in *. pose proof (zlen_ge0 ys) as Hys0.
    replace (zlen ys + 1 =? 0) with false by lia. cbn [negb].
    rewrite slice_get_0. cbn [bind].
    rewrite rs_small_mul_eq by (rewrite ?Ez0; assumption). cbn [bind].
    destruct (small_mul c z0 y0) as [z1|] eqn:Es; [|split; [reflexivity|discriminate]].
    apply small_mul_facts in Es; [|rewrite Ez0; exact Hx|exact Hy0']. rewrite Ez0 in Es.
    destruct Es as [Oz1 Lz1].
    cbn [enumerate_from skipn].
    match goal with |- context [rs_for ?l ?bd ?st] => set (body := bd) end.
    unfold rs_for.
    destruct (long_mul_for body c L b x) with (ys := ys) (k := 0 + 1) (z := z1) as [E1 E2];
      try assumption; try lia.
    { intros z index yi. unfold body. rewrite Et. reflexivity. }
    rewrite E1. change (0 + 1) with 1 in *.
    destruct (long_mul_loop c L x ys 1 z1) as [z2|]; cbn [bind]; [|split; [reflexivity|discriminate]].
    destruct (E2 z2 eq_refl) as [Oz2 Lz2].
    apply Hnorm; [exact Oz2|lia].
Qed.

Theorem rs_long_mul_eq : forall c L b x y,
  limbs_ok x -> limbs_ok y -> zlen x + zlen y + 1 < 2 ^ 64 ->
  rs_long_mul c L b x y = Ok (long_mul c L x y).
Proof. intros. apply rs_long_mul_eq_facts; assumption. Qed.

Example rs_long_mul_example :
  rs_long_mul CFG_s LIMITS checked_build (repeat (2 ^ 64 - 1) 31) (repeat (2 ^ 64 - 1) 32) = Ok None /\
  rs_long_mul CFG_s LIMITS release_build [2 ^ 64 - 1; 2 ^ 64 - 1] [2 ^ 64 - 1; 0; 1; 0]
    = Ok (Some (mkVec [1; 2 ^ 64 - 1; 2 ^ 64 - 3; 0; 1] 62)).
Proof. vm_compute. auto. Qed.

(** ** large_mul *)
Theorem rs_large_mul_eq_facts : forall c L b v y,
  limbs_ok (vl v) -> limbs_ok y -> zlen (vl v) + zlen y + 1 < 2 ^ 64 ->
  rs_large_mul c L b v y = Ok (large_mul c L v y) /\
  (forall v', large_mul c L v y = Some v' ->
     limbs_ok (vl v') /\ zlen (vl v') <= zlen (vl v) + zlen y + 1).
Proof.
  intros c L b v y Hv Hy Hlen. unfold rs_large_mul. cbv zeta. rewrite large_mul_unfold.
  assert (Hlong : (t3 <- rs_long_mul c L b y (vl v) ;;
                   match t3 with Some t4 => Ok (Some t4) | None => Ok None end)
                  = Ok (long_mul c L y (vl v)) /\
                  (forall v', long_mul c L y (vl v) = Some v' ->
                     limbs_ok (vl v') /\ zlen (vl v') <= zlen (vl v) + zlen y + 1)).
  { destruct (rs_long_mul_eq_facts c L b y (vl v) Hy Hv ltac:(lia)) as [E F].
    rewrite E. cbn [bind]. split; [destruct (long_mul c L y (vl v)); reflexivity|].
    intros v' Ev'. specialize (F v' Ev'). split; [tauto|lia]. }
  destruct y as [|y0 [|y1 ys]].
  - change (zlen (@nil Z) =? 1) with false. cbv iota. exact Hlong.
  - change (zlen [y0] =? 1) with true. cbv iota. rewrite slice_get_0. cbn [bind].
    apply limbs_ok_cons in Hy. destruct Hy as [Hy0 _].
    rewrite rs_small_mul_eq by assumption. cbn [bind]. split.
    + destruct (small_mul c v y0); reflexivity.
    + intros v' Ev'. apply small_mul_facts in Ev'; [|assumption..].
      change (zlen [y0]) with 1. split; [tauto|lia].
  - rewrite !zlen_cons in *. pose proof (zlen_ge0 ys).
    replace (zlen ys + 1 + 1 =? 1) with false by lia. cbv iota. exact Hlong.
Qed.

Theorem rs_large_mul_eq : forall c L b v y,
  limbs_ok (vl v) -> limbs_ok y -> zlen (vl v) + zlen y + 1 < 2 ^ 64 ->
  rs_large_mul c L b v y = Ok (large_mul c L v y).
Proof. intros. apply rs_large_mul_eq_facts; assumption. Qed.

Example rs_large_mul_example :
  rs_large_mul CFG_s LIMITS checked_build (mkVec (repeat (2 ^ 64 - 1) 62) 62) [2] = Ok None /\
  rs_large_mul CFG_sa LIMITS release_build (mkVec [2 ^ 64 - 1; 2 ^ 64 - 1] 2) [2 ^ 64 - 1; 0; 1; 0]
    = Ok (Some (mkVec [1; 2 ^ 64 - 1; 2 ^ 64 - 3; 0; 1] 62)).
Proof. vm_compute. auto. Qed.

(** ** pow *)
(** the table entries are limbs / u64 values (by their Rust types `[Limb; N]`, `[u64; N]`) *)
Definition pow_tables_ok (T : tables) : Prop :=
  limbs_ok (LARGE_POW5 T) /\ limbs_ok (SMALL_INT_POW5 T).

Lemma pow_tables_ok_TABLES : pow_tables_ok TABLES.
Proof. split; apply limbs_ok_forallb; vm_compute; reflexivity. Qed.

Lemma int_pow_fast_path_u64 c T b k sp :
  (compact c = false -> limbs_ok (SMALL_INT_POW5 T)) ->
  int_pow_fast_path c T b k false = Ok sp -> u64_ok sp.
Proof.
  intros HT. unfold int_pow_fast_path. destruct (compact c).
  - apply uop_range. lia.
  - specialize (HT eq_refl). unfold index_unchecked. destruct (_ && _) eqn:E; [|discriminate]. intros [= <-].
    apply (limbs_ok_u64 _ _ HT). apply nth_In. lia.
Qed.

Lemma u32_sub_ok b x y : 0 <= x - y < 2 ^ 32 -> u32_sub b x y = Ok (x - y).
Proof. intros. apply uop_ok, in_u_n, H. Qed.

(** `while exp >= LARGE_POW5_STEP { large_mul(x, &LARGE_POW5)?; exp -= LARGE_POW5_STEP; }` *)
Lemma pow_large_for (body : Z * vec -> outcome (ctl (Z * vec) (option vec))) c T L b :
  (forall e v,
     body (e, v) =
       if LARGE_POW5_STEP T <=? e then
         t1 <- rs_large_mul c L b v (LARGE_POW5 T) ;;
         match t1 with
         | None => Ok (Return None)
         | Some v' => t2 <- u32_sub b e (LARGE_POW5_STEP T) ;; Ok (Next (t2, v'))
         end
       else Ok (Break (e, v))) ->
  limbs_ok (LARGE_POW5 T) -> 0 < LARGE_POW5_STEP T ->
  forall fuel e v, limbs_ok (vl v) -> 0 <= e < 2 ^ 32 ->
  (Z.to_nat (e / LARGE_POW5_STEP T) < fuel)%nat ->
  zlen (vl v) + (e / LARGE_POW5_STEP T) * (zlen (LARGE_POW5 T) + 1) < 2 ^ 64 ->
  rs_loop fuel body (e, v)
    = Ok (match pow_large_loop c T L fuel v e with
          | Some (v', e') => inl (e', v') | None => inr None end) /\
  (forall v' e', pow_large_loop c T L fuel v e = Some (v', e') -> limbs_ok (vl v') /\ 0 <= e' <= e).
Proof.
  intros Hb HLP Hstep. set (s := LARGE_POW5_STEP T) in *. set (W := zlen (LARGE_POW5 T) + 1).
  assert (HW : 0 < W) by (unfold W; pose proof (zlen_ge0 (LARGE_POW5 T)); lia).
  induction fuel as [|fuel IH]; intros e v Hv He Hf Hlen; [lia|].
  cbn [rs_loop]. rewrite Hb, pow_large_loop_eq. fold s.
  destruct (s <=? e) eqn:Ese.
  - assert (Hq : (e - s) / s = e / s - 1) by (apply div_sub_step; exact Hstep).
    assert (Hq1 : 1 <= e / s) by (apply Z.div_le_lower_bound; lia).
    assert (HqW : (e / s - 1) * W = e / s * W - W) by ring.
    assert (HqW1 : W <= e / s * W) by nia.
    destruct (rs_large_mul_eq_facts c L b v (LARGE_POW5 T) Hv HLP ltac:(unfold W in *; lia)) as [E F].
    rewrite E. cbn [bind].
    destruct (large_mul c L v (LARGE_POW5 T)) as [v'|] eqn:Em; cbn [bind];
      [|split; [reflexivity|discriminate]].
    destruct (F v' eq_refl) as [Ov' Lv'].
    rewrite u32_sub_ok by lia. cbn [bind].
    destruct (IH (e - s) v' Ov' ltac:(lia)) as [IH1 IH2].
    + rewrite Hq. lia.
    + rewrite Hq, HqW. unfold W in *. lia.
    + split; [exact IH1|]. intros v2 e2 E2. specialize (IH2 v2 e2 E2). split; [tauto|lia].
  - cbn [bind]. split; [reflexivity|]. intros v' e' [= <- <-]. split; [exact Hv|lia].
Qed.

(** `while exp >= small_step { small_mul(x, max_native)?; exp -= small_step; }` *)
Lemma pow_small_for (body : Z * vec -> outcome (ctl (Z * vec) (option vec))) c b :
  (forall e v,
     body (e, v) =
       if small_step <=? e then
         t4 <- rs_small_mul c b v max_native5 ;;
         match t4 with
         | None => Ok (Return None)
         | Some v' => t5 <- u32_sub b e small_step ;; Ok (Next (t5, v'))
         end
       else Ok (Break (e, v))) ->
  forall fuel e v, limbs_ok (vl v) -> 0 <= e < 2 ^ 32 ->
  (Z.to_nat (e / small_step) < fuel)%nat ->
  rs_loop fuel body (e, v)
    = Ok (match pow_small_loop c fuel v e with
          | Some (v', e') => inl (e', v') | None => inr None end) /\
  (forall v' e', pow_small_loop c fuel v e = Some (v', e') -> limbs_ok (vl v')).
Proof.
  intros Hb. unfold small_step in *.
  induction fuel as [|fuel IH]; intros e v Hv He Hf; [lia|].
  cbn [rs_loop]. rewrite Hb, pow_small_loop_eq. unfold small_step.
  destruct (27 <=? e) eqn:Ese.
  - assert (Hq : (e - 27) / 27 = e / 27 - 1) by (apply div_sub_step; lia).
    assert (Hq1 : 1 <= e / 27) by (apply Z.div_le_lower_bound; lia).
    rewrite rs_small_mul_eq by (assumption || (vm_compute; split; congruence)). cbn [bind].
    destruct (small_mul c v max_native5) as [v'|] eqn:Em; cbn [bind];
      [|split; [reflexivity|discriminate]].
    apply small_mul_facts in Em; [|exact Hv|vm_compute; split; congruence]. destruct Em as [Ov' _].
    rewrite u32_sub_ok by lia. cbn [bind].
    apply (IH (e - 27) v' Ov'); [lia|]. rewrite Hq. lia.
  - cbn [bind]. split; [reflexivity|]. intros v' e' [= <- <-]. exact Hv.
Qed.

Theorem rs_pow_eq_facts : forall c T L b v e,
  (compact c = false ->
     pow_tables_ok T /\ 0 < LARGE_POW5_STEP T /\
     zlen (vl v) + (e / LARGE_POW5_STEP T) * (zlen (LARGE_POW5 T) + 1) < 2 ^ 64) ->
  limbs_ok (vl v) -> 0 <= e < 2 ^ 32 ->
  rs_pow c T L b v e = pow5 c T L b v e /\
  (forall v', pow5 c T L b v e = Ok (Some v') -> limbs_ok (vl v')).
Proof.
  intros c T L b v e Hnc Hv He.
  assert (HSP : compact c = false -> limbs_ok (SMALL_INT_POW5 T)) by (intros H; apply Hnc, H).
  cbv beta delta [rs_pow].
  lazymatch goal with
  | |- (let k := ?f in @?g k) = ?r /\ ?Q => pose (k1 := f); change (g k1 = r /\ Q); cbv beta
  end.
  unfold pow5.
  (* the part after the large-power loop *)
  assert (Hk1 : forall e1 v1, limbs_ok (vl v1) -> 0 <= e1 < 2 ^ 32 ->
    k1 (e1, v1) =
      obind (Ok (pow_small_loop c (S (Z.to_nat (e1 / small_step))) v1 e1))
        (fun x => let '(v2, e2) := x in
           if negb (e2 =? 0)
           then sp <- int_pow_fast_path c T b (as_usize e2) false ;; Ok (small_mul c v2 sp)
           else Ok (Some v2)) /\
    (forall v', obind (Ok (pow_small_loop c (S (Z.to_nat (e1 / small_step))) v1 e1))
        (fun x => let '(v2, e2) := x in
           if negb (e2 =? 0)
           then sp <- int_pow_fast_path c T b (as_usize e2) false ;; Ok (small_mul c v2 sp)
           else Ok (Some v2)) = Ok (Some v') -> limbs_ok (vl v'))).
  { intros e1 v1 Hv1 He1. unfold k1. cbv zeta beta iota.
    match goal with |- context [rs_loop ?f ?bd ?st] => set (body := bd) end.
    destruct (pow_small_for body c b) with (fuel := S (Z.to_nat (e1 / 27))) (e := e1) (v := v1)
      as [E F]; try assumption.
    { intros e0 v0. unfold body. reflexivity. }
    { unfold small_step. lia. }
    rewrite E. unfold obind, small_step in *. cbn [bind].
    destruct (pow_small_loop c (S (Z.to_nat (e1 / 27))) v1 e1) as [[v2 e2]|];
      [|split; [reflexivity|discriminate]].
    specialize (F v2 e2 eq_refl).
    destruct (negb (e2 =? 0)); [|split; [reflexivity|intros v' [= <-]; exact F]].
    destruct (int_pow_fast_path c T b (as_usize e2) false) as [sp| |] eqn:Esp; cbn [bind];
      [|split; [reflexivity|discriminate]..].
    pose proof (int_pow_fast_path_u64 c T b _ sp HSP Esp) as Hsp.
    rewrite rs_small_mul_eq by assumption. cbn [bind]. split.
    - destruct (small_mul c v2 sp); reflexivity.
    - intros v' [= Ev']. apply small_mul_facts in Ev'; [tauto|assumption..]. }
  clear HSP. destruct (compact c).
  - unfold obind at 1. cbn [bind]. apply Hk1; assumption.
  - destruct (Hnc eq_refl) as [[HLP _] [Hstep Hlen]].
    replace (LARGE_POW5_STEP T <=? 0) with false by lia.
    match goal with |- context [rs_loop ?f ?bd ?st] => set (body := bd) end.
    destruct (pow_large_for body c T L b) with (fuel := S (Z.to_nat (e / LARGE_POW5_STEP T)))
      (e := e) (v := v) as [E F]; try assumption.
    { intros e0 v0. unfold body. reflexivity. }
    { lia. }
    rewrite E. unfold obind at 1. unfold obind at 2. cbn [bind].
    destruct (pow_large_loop c T L (S (Z.to_nat (e / LARGE_POW5_STEP T))) v e) as [[v1 e1]|];
      [|split; [reflexivity|discriminate]].
    destruct (F v1 e1 eq_refl) as [Ov1 He1].
    apply Hk1; [assumption|lia].
Qed.

(** `pow(x, exp)` (multiply by 5^exp).  [e] is a `u32`; the tables hold u64 values; the step is
    positive (it is 135); the last hypothesis says that the vector cannot outgrow `usize`:
    each multiplication by LARGE_POW5 adds at most its length + 1 limbs. *)
Theorem rs_pow_eq : forall c T L b v e,
  pow_tables_ok T -> 0 < LARGE_POW5_STEP T ->
  limbs_ok (vl v) -> 0 <= e < 2 ^ 32 ->
  zlen (vl v) + (e / LARGE_POW5_STEP T) * (zlen (LARGE_POW5 T) + 1) < 2 ^ 64 ->
  rs_pow c T L b v e = pow5 c T L b v e.
Proof. intros. apply rs_pow_eq_facts; auto. Qed.

(** compact builds (`feature = "compact"`): no large-power loop, no table *)
Theorem rs_pow_eq_compact : forall c T L b v e,
  compact c = true -> limbs_ok (vl v) -> 0 <= e < 2 ^ 32 ->
  rs_pow c T L b v e = pow5 c T L b v e.
Proof. intros c T L b v e Hc Hv He. apply rs_pow_eq_facts; try assumption. rewrite Hc. discriminate. Qed.

(** with the crate's tables: any vector of fewer than 2^63 limbs *)
Corollary rs_pow_eq_TABLES : forall c L b v e,
  limbs_ok (vl v) -> 0 <= e < 2 ^ 32 -> zlen (vl v) < 2 ^ 63 ->
  rs_pow c TABLES L b v e = pow5 c TABLES L b v e.
Proof.
  intros c L b v e Hv He Hlen. apply rs_pow_eq; try assumption.
  - apply pow_tables_ok_TABLES.
  - reflexivity.
  - change (LARGE_POW5_STEP TABLES) with 135. change (zlen (LARGE_POW5 TABLES) + 1) with 6.
    rewrite pow2_32 in He. rewrite pow2_63 in Hlen. rewrite pow2_64. lia.
Qed.

(** the hypothesis [0 < LARGE_POW5_STEP T] is needed: with a zero step the Rust loop never
    terminates by itself; the model reports [Panic PkFuel] outright, the translated text
    runs the body once and so sees `large_mul` fail first *)
Example rs_pow_zero_step :
  let T0 := mkTables (-342) 308 [] (SMALL_INT_POW5 TABLES) [] [] [] (LARGE_POW5 TABLES) 0 in
  let full := mkVec (repeat (2 ^ 64 - 1) 62) 62 in
  rs_pow CFG_s T0 LIMITS release_build full 5 = Ok None /\
  pow5 CFG_s T0 LIMITS release_build full 5 = Panic PkFuel.
Proof. vm_compute. auto. Qed.

Example rs_pow_example :
  (match rs_pow CFG_s TABLES LIMITS checked_build (mkVec [3] 62) 300 with
   | Ok (Some v) => (lval (vl v) =? 3 * 5 ^ 300) && (vcap v =? 62)
   | _ => false
   end) = true /\
  rs_pow CFG_s TABLES LIMITS checked_build (mkVec (repeat (2 ^ 64 - 1) 62) 62) 1 = Ok None.
Proof. vm_compute. auto. Qed.

(** ** the hypotheses are satisfiable *)
Example hyps_small_add_from :
  0 <= 1 /\ zlen (vl (mkVec [7; 2 ^ 64 - 1] 62)) < 2 ^ 64.
Proof. split; [lia|reflexivity]. Qed.
Example hyps_small_mul : limbs_ok (vl (mkVec [7; 2 ^ 64 - 1] 62)) /\ u64_ok (2 ^ 64 - 1).
Proof. split; [apply limbs_ok_forallb; reflexivity|vm_compute; split; congruence]. Qed.
Example hyps_large_add_from :
  0 <= 3 /\ zlen (vl (mkVec [7; 2 ^ 64 - 1] 62)) < 2 ^ 64 /\ zlen [1; 2; 3] + 3 < 2 ^ 64.
Proof. repeat split; try lia; reflexivity. Qed.
Example hyps_long_mul :
  limbs_ok [7; 2 ^ 64 - 1] /\ limbs_ok [0; 5; 2 ^ 64 - 1] /\
  zlen [7; 2 ^ 64 - 1] + zlen [0; 5; 2 ^ 64 - 1] + 1 < 2 ^ 64.
Proof. repeat split; try (apply limbs_ok_forallb; reflexivity); reflexivity. Qed.
Example hyps_pow :
  pow_tables_ok TABLES /\ 0 < LARGE_POW5_STEP TABLES /\ limbs_ok (vl (mkVec [3] 62)) /\
  0 <= 300 < 2 ^ 32 /\
  zlen (vl (mkVec [3] 62)) + (300 / LARGE_POW5_STEP TABLES) * (zlen (LARGE_POW5 TABLES) + 1) < 2 ^ 64.
Proof.
  split; [apply pow_tables_ok_TABLES|]. split; [reflexivity|].
  split; [apply limbs_ok_forallb; reflexivity|]. split; [split; [lia|reflexivity]|reflexivity].
Qed.

Print Assumptions rs_scalar_mul_eq_local.
Print Assumptions rs_small_add_from_eq.
Print Assumptions rs_small_add_eq.
Print Assumptions rs_small_mul_eq.
Print Assumptions rs_large_add_from_eq.
Print Assumptions rs_large_add_eq.
Print Assumptions rs_bigint_normalize_eq_local.
Print Assumptions rs_long_mul_eq.
Print Assumptions rs_large_mul_eq.
Print Assumptions rs_pow_eq.
Print Assumptions rs_pow_eq_compact.
Print Assumptions rs_pow_eq_TABLES.
