(** * LimbVal: the natural number a little-endian limb list denotes, and basic facts. *)
From Coq Require Import ZArith List Bool Lia.
From ML Require Import base.RustSem model.Bigint.
Import ListNotations.
Open Scope Z_scope.

Fixpoint lval (l : list Z) : Z :=
  match l with
  | [] => 0
  | x :: r => x + B64 * lval r
  end.

(** every limb is a u64 *)
Definition limbs_ok (l : list Z) : Prop := Forall (fun x => 0 <= x < B64) l.

Lemma B64_pos : 0 < B64. Proof. reflexivity. Qed.
Lemma B64_eq : B64 = 2 ^ 64. Proof. reflexivity. Qed.

Lemma lval_app l1 l2 : lval (l1 ++ l2) = lval l1 + B64 ^ zlen l1 * lval l2.
Proof.
  induction l1 as [|x l1 IH]; cbn [app lval].
  - unfold zlen; cbn [length Z.of_nat]. rewrite Z.pow_0_r. lia.
  - rewrite IH. unfold zlen. cbn [length]. rewrite Nat2Z.inj_succ, Z.pow_succ_r by lia. ring.
Qed.

Lemma lval_nonneg l : limbs_ok l -> 0 <= lval l.
Proof.
  induction 1 as [|x l Hx _ IH]; cbn [lval]; [lia|]. pose proof B64_pos. nia.
Qed.

Lemma lval_bound l : limbs_ok l -> lval l < B64 ^ zlen l.
Proof.
  induction 1 as [|x l Hx _ IH]; cbn [lval].
  - unfold zlen; cbn [length Z.of_nat]. rewrite Z.pow_0_r. lia.
  - unfold zlen in *. cbn [length]. rewrite Nat2Z.inj_succ, Z.pow_succ_r by lia.
    pose proof B64_pos. nia.
Qed.

Lemma lval_repeat0 n : lval (repeat 0 n) = 0.
Proof. induction n as [|n IH]; cbn [repeat lval]; lia. Qed.
