(** * TruncFacts2: truncating a long digit string to [MAX_DIGITS] digits plus a sticky digit does
    not change the correctly rounded result (property C06), part 2: the link to [RN].

    Part 1 (proofs/TruncFacts.v, integers and rationals only) shows that no rounding boundary
    lies strictly inside a cell [(N0 * 10^k, (N0+1) * 10^k)] when [N0] has [MAX_DIGITS f] digits.
    Here (through Flocq's [round_N_le_midp]/[round_N_ge_midp] and spec/RoundFacts.v):
    - A: [RN_differs_boundary] / [RN_const_between]: if [RN f v1 <> RN f v2] for [0 <= v1 <= v2]
      then a boundary [(2M+1) * 2^(E-1)] of a canonical float [M * 2^E < 2^emax] lies in
      [[v1, v2]];  [RN_above_mid], [RN_below_mid]: what [RN] is on each side of a boundary;
    - [RN_cell_const]: [RN f] is constant on every open cell;
    - D: [truncation_preserves_rounding] (+ the [rne_bits] form [truncation_preserves_rne_bits]);
    - E: [tie_cell_above], [tie_cell_below], [far_digit_breaks_tie],
      [nines_below_tie_round_down], [trailing_zeros_irrelevant]. *)
From Coq Require Import ZArith QArith Qpower Qreals Reals List Bool Lia Lra.
From Coq Require Import ZifyBool.
From Flocq Require Import Core.Core.
From ML Require Import base.RustSem model.Fmt model.FloatOps gen.Consts spec.Decimal spec.Round
  spec.RoundFacts proofs.ParseFacts proofs.TruncFacts.
Import ListNotations.
Open Scope Z_scope.
Local Arguments Z.pow : simpl never.

(** canonical (significand, exponent) pairs of the non-negative floats of the format, zero being
    [(0, femin)]: the right disjunct of [canonME] *)
Definition canon0 (f : format) (M E : Z) : Prop :=
  femin f <= E /\ 0 <= M < 2 ^ prec f /\ (E = femin f \/ 2 ^ (prec f - 1) <= M).

(** the float [M * 2^E] as a rational *)
Definition floatQ (M E : Z) : Q := (inject_Z M * pow2Q E)%Q.

Lemma Q2R_floatQ M E : Q2R (floatQ M E) = F2R (Float radix2 M E).
Proof. unfold floatQ. rewrite Q2R_mult, Q2R_inject_Z, Q2R_pow2Q. reflexivity. Qed.

Lemma Q2R_bndQ M E : Q2R (bndQ M E) = F2R (Float radix2 (2 * M + 1) (E - 1)).
Proof. unfold bndQ. rewrite Q2R_mult, Q2R_inject_Z, Q2R_pow2Q. reflexivity. Qed.

Lemma mid_eq M E :
  ((F2R (Float radix2 M E) + F2R (Float radix2 (M + 1) E)) / 2
   = F2R (Float radix2 (2 * M + 1) (E - 1)))%R.
Proof.
  unfold F2R. cbn [Fnum Fexp].
  replace (bpow radix2 E) with (2 * bpow radix2 (E - 1))%R.
  - rewrite !plus_IZR, mult_IZR. simpl (IZR 2). simpl (IZR 1). field.
  - replace E with ((E - 1) + 1) at 2 by lia. rewrite bpow_plus.
    change (bpow radix2 1) with 2%R. ring.
Qed.

Lemma F2R_mid_gt M E :
  (F2R (Float radix2 M E) < F2R (Float radix2 (2 * M + 1) (E - 1)))%R.
Proof.
  rewrite (F2R_change_exp radix2 (E - 1) M E) by lia. apply F2R_lt.
  replace (E - (E - 1)) with 1 by lia. change (radix2 ^ 1) with 2. lia.
Qed.

Lemma F2R_mid_lt M E :
  (F2R (Float radix2 (2 * M + 1) (E - 1)) < F2R (Float radix2 (M + 1) E))%R.
Proof.
  rewrite (F2R_change_exp radix2 (E - 1) (M + 1) E) by lia. apply F2R_lt.
  replace (E - (E - 1)) with 1 by lia. change (radix2 ^ 1) with 2. lia.
Qed.

Section T.
Variable f : format.
Hypothesis Hok : sfmt_ok f = true.
Notation mw := (MANTISSA_SIZE f).
Notation fexp := (FLT_exp (femin f) (prec f)).
Notation rnd := (round radix2 fexp ZnearestE).

Local Instance prec_gt_0_T : Prec_gt_0 (prec f) := prec_gt_0_f f Hok.

Lemma canon0_canonME M E : canon0 f M E -> canonME f M E.
Proof. intros (H1 & H2 & H3). right. split; [lia|split; [lia|exact H3]]. Qed.

Lemma canon0_boundary M E : canon0 f M E -> E + prec f <= emax f -> boundary f M E.
Proof. intros (H1 & H2 & H3) HE. unfold boundary. lia. Qed.

Lemma canon0_generic M E :
  canon0 f M E -> generic_format radix2 fexp (F2R (Float radix2 M E)).
Proof.
  intros H. apply (canonME_generic f Hok); [destruct H as (_ & H & _); lia|].
  apply canon0_canonME, H.
Qed.

Lemma canon0_zero : canon0 f 0 (femin f) /\ femin f + prec f <= emax f.
Proof.
  pose proof (prec_bounds f Hok) as PB.
  assert (0 < 2 ^ prec f) by (apply Z.pow_pos_nonneg; lia).
  unfold canon0, femin. repeat split; lia.
Qed.

Lemma succ_canon0 M E : canon0 f M E ->
  succ radix2 fexp (F2R (Float radix2 M E)) = F2R (Float radix2 (M + 1) E).
Proof.
  intros HC. pose proof (canon0_canonME M E HC) as HC'. destruct HC as (HE & HM & Hn).
  pose proof (prec_bounds f Hok) as PB.
  rewrite succ_eq_pos by (apply F2R_ge_0; cbn [Fnum]; lia).
  destruct (Z.eq_dec M 0) as [->|N0].
  - assert (E = femin f).
    { destruct Hn as [Hn|Hn]; [exact Hn|].
      assert (0 < 2 ^ (prec f - 1)) by (apply Z.pow_pos_nonneg; lia). lia. }
    subst E. rewrite F2R_0, ulp_FLT_0, Rplus_0_l by exact prec_gt_0_T.
    change (0 + 1) with 1. rewrite F2R_bpow. reflexivity.
  - rewrite ulp_neq_0 by (apply F2R_neq_0; exact N0).
    rewrite (cexp_F2R f M E N0).
    rewrite (proj2 (canon_digits f Hok M E ltac:(lia)) HC').
    unfold F2R. cbn [Fnum Fexp]. rewrite plus_IZR. simpl (IZR 1). ring.
Qed.

(** the two sides of a boundary, on the rounded real *)
Lemma rnd_above_mid M E x : canon0 f M E ->
  (F2R (Float radix2 (2 * M + 1) (E - 1)) < x)%R -> (F2R (Float radix2 (M + 1) E) <= rnd x)%R.
Proof.
  intros HC Hx. pose proof (canon0_generic M E HC) as Hg.
  rewrite <- (succ_canon0 M E HC).
  apply round_N_ge_midp; auto with typeclass_instances.
  - apply generic_format_succ; auto with typeclass_instances.
  - rewrite pred_succ by (auto with typeclass_instances).
    rewrite (succ_canon0 M E HC), Rplus_comm, mid_eq. exact Hx.
Qed.

Lemma rnd_below_mid M E x : canon0 f M E ->
  (x < F2R (Float radix2 (2 * M + 1) (E - 1)))%R -> (rnd x <= F2R (Float radix2 M E))%R.
Proof.
  intros HC Hx. pose proof (canon0_generic M E HC) as Hg.
  apply round_N_le_midp; auto with typeclass_instances.
  rewrite (succ_canon0 M E HC), mid_eq. exact Hx.
Qed.

(** every non-negative float below [2^emax] is [M * 2^E] for a canonical pair *)
Lemma float_repr u :
  (0 <= u)%R -> generic_format radix2 fexp u -> (u < bpow radix2 (emax f))%R ->
  exists M E, canon0 f M E /\ E + prec f <= emax f /\ u = F2R (Float radix2 M E).
Proof.
  intros H0 Hg Hlt. destruct (generic_canonME f Hok u H0 Hg) as (A1 & A2 & A3 & A4).
  set (M := Ztrunc (scaled_mantissa radix2 fexp u)) in *.
  set (E := cexp radix2 fexp u) in *.
  destruct (Z.eq_dec M 0) as [Z0|N0].
  - exists 0, (femin f). destruct canon0_zero as [C1 C2].
    split; [exact C1|]. split; [exact C2|]. rewrite A3, Z0, !F2R_0. reflexivity.
  - exists M, E. destruct A2 as [A2|(B1 & B2 & B3)]; [lia|].
    split; [unfold canon0; repeat split; try lia; exact B3|].
    split; [apply A4; assumption|exact A3].
Qed.

(** ** A: a change of [RN] between two values exhibits a boundary between them *)
Theorem RN_differs_boundary v1 v2 :
  (0 <= v1)%Q -> (v1 <= v2)%Q -> RN f v1 <> RN f v2 ->
  exists M E, canon0 f M E /\ E + prec f <= emax f /\
              (v1 <= bndQ M E)%Q /\ (bndQ M E <= v2)%Q.
Proof.
  intros H0 Hle Hne.
  assert (H2 : (0 <= v2)%Q) by (eapply Qle_trans; eassumption).
  assert (Hx : (Q2R v1 <= Q2R v2)%R) by (apply Qle_Rle, Hle).
  assert (Hr : rnd (Q2R v1) <> rnd (Q2R v2)).
  { intros Heq. apply Hne. rewrite !(RN_bitsR f Hok) by assumption. rewrite Heq. reflexivity. }
  assert (Hrle : (rnd (Q2R v1) <= rnd (Q2R v2))%R) by (apply (rnd_le f Hok), Hx).
  assert (Hlt1 : RN f v1 < inf_bits f).
  { pose proof (RN_monotone f Hok v1 v2 H0 Hle). pose proof (RN_range f Hok v2 H2). lia. }
  destruct (RN_finite_decode f Hok v1 H0 Hlt1) as (_ & _ & _ & _ & _ & Hfin).
  destruct (float_repr (rnd (Q2R v1))) as (M & E & HC & HE & Hu).
  { apply (rnd_nonneg f Hok), Q2R_nonneg, H0. }
  { apply (rnd_generic f Hok). }
  { exact Hfin. }
  exists M, E. split; [exact HC|]. split; [exact HE|]. split.
  - apply Rle_Qle. rewrite Q2R_bndQ. apply Rnot_lt_le. intros Hgt.
    pose proof (rnd_above_mid M E _ HC Hgt) as H. rewrite Hu in H.
    assert (F2R (Float radix2 M E) < F2R (Float radix2 (M + 1) E))%R by (apply F2R_lt; lia).
    lra.
  - apply Rle_Qle. rewrite Q2R_bndQ. apply Rnot_lt_le. intros Hgt.
    pose proof (rnd_below_mid M E _ HC Hgt) as H. rewrite <- Hu in H.
    apply Hr. apply Rle_antisym; assumption.
Qed.

Corollary RN_const_between v1 v2 :
  (0 <= v1)%Q -> (v1 <= v2)%Q ->
  (forall M E, boundary f M E -> (v1 <= bndQ M E)%Q -> (bndQ M E <= v2)%Q -> False) ->
  RN f v1 = RN f v2.
Proof.
  intros H0 Hle Hno. destruct (Z.eq_dec (RN f v1) (RN f v2)) as [He|Hne]; [exact He|exfalso].
  destruct (RN_differs_boundary v1 v2 H0 Hle Hne) as (M & E & HC & HE & H1 & H2).
  exact (Hno M E (canon0_boundary M E HC HE) H1 H2).
Qed.

(** ** Bit patterns of neighbouring floats *)
Lemma encode_canon0 M E : canon0 f M E ->
  encode f M E = (E - femin f) * 2 ^ mw + M.
Proof.
  intros (HE & HM & Hn). rewrite (prec_mw f) in Hn. pose proof (pow_mw_pos f Hok).
  unfold encode. destruct (M <? 2 ^ mw) eqn:Hlt; [|lia].
  assert (E = femin f) by lia. subst E. lia.
Qed.

Lemma canon0_succ M E : canon0 f M E -> E + prec f <= emax f ->
  (M + 1 = 2 ^ prec f /\ E = emax f - prec f /\ encode f M E + 1 = inf_bits f) \/
  exists M' E', canon0 f M' E' /\ E' + prec f <= emax f /\
    encode f M' E' = encode f M E + 1 /\
    F2R (Float radix2 M' E') = F2R (Float radix2 (M + 1) E).
Proof.
  intros HC HE. pose proof (encode_canon0 M E HC) as Henc.
  destruct HC as (HE1 & HM & Hn).
  pose proof (prec_bounds f Hok) as PB. pose proof (pow_prec f Hok) as PP.
  pose proof (pow_mw_pos f Hok) as PM. pose proof (prec_mw f) as PW.
  destruct (Z_lt_le_dec (M + 1) (2 ^ prec f)) as [Hlt|Hge].
  - right. exists (M + 1), E.
    assert (HC' : canon0 f (M + 1) E) by (unfold canon0; repeat split; lia).
    split; [exact HC'|]. split; [exact HE|]. split; [|reflexivity].
    rewrite (encode_canon0 _ _ HC'), Henc. ring.
  - assert (HM1 : M + 1 = 2 ^ prec f) by lia.
    destruct (Z.eq_dec E (emax f - prec f)) as [Htop|Hnt].
    + left. split; [exact HM1|]. split; [exact Htop|].
      rewrite Henc. unfold inf_bits. rewrite (pow_ewidth f Hok). subst E. unfold femin. nia.
    + right. exists (2 ^ (prec f - 1)), (E + 1).
      assert (HC' : canon0 f (2 ^ (prec f - 1)) (E + 1)).
      { unfold canon0. rewrite PW. repeat split; lia. }
      split; [exact HC'|]. split; [lia|]. split.
      * rewrite (encode_canon0 _ _ HC'), Henc, PW. nia.
      * rewrite (F2R_change_exp radix2 E (2 ^ (prec f - 1)) (E + 1)) by lia.
        f_equal. f_equal. replace (E + 1 - E) with 1 by lia.
        change (radix2 ^ 1) with 2. rewrite PW. lia.
Qed.

Lemma canon0_pred M E : canon0 f M E -> E + prec f <= emax f -> M <> 0 ->
  exists M' E', canon0 f M' E' /\ E' + prec f <= emax f /\
    encode f M' E' + 1 = encode f M E /\
    F2R (Float radix2 (M' + 1) E') = F2R (Float radix2 M E).
Proof.
  intros HC HE HM0. pose proof (encode_canon0 M E HC) as Henc.
  destruct HC as (HE1 & HM & Hn).
  pose proof (prec_bounds f Hok) as PB. pose proof (pow_prec f Hok) as PP.
  pose proof (pow_mw_pos f Hok) as PM. pose proof (prec_mw f) as PW.
  destruct (Z.eq_dec E (femin f)) as [Hmin|Hnm].
  - exists (M - 1), E.
    assert (HC' : canon0 f (M - 1) E) by (unfold canon0; repeat split; lia).
    split; [exact HC'|]. split; [exact HE|]. split.
    + rewrite (encode_canon0 _ _ HC'), Henc. ring.
    + replace (M - 1 + 1) with M by lia. reflexivity.
  - destruct (Z.eq_dec M (2 ^ (prec f - 1))) as [Hlow|Hnl].
    + exists (2 ^ prec f - 1), (E - 1).
      assert (HC' : canon0 f (2 ^ prec f - 1) (E - 1)).
      { unfold canon0. rewrite PW. repeat split; lia. }
      split; [exact HC'|]. split; [lia|]. split.
      * rewrite (encode_canon0 _ _ HC'), Henc. rewrite Hlow, PW. nia.
      * replace (2 ^ prec f - 1 + 1) with (2 ^ prec f) by lia.
        rewrite (F2R_change_exp radix2 (E - 1) M E) by lia.
        f_equal. f_equal. replace (E - (E - 1)) with 1 by lia.
        change (radix2 ^ 1) with 2. rewrite Hlow, PW. lia.
    + exists (M - 1), E.
      assert (HC' : canon0 f (M - 1) E) by (unfold canon0; repeat split; lia).
      split; [exact HC'|]. split; [exact HE|]. split.
      * rewrite (encode_canon0 _ _ HC'), Henc. ring.
      * replace (M - 1 + 1) with M by lia. reflexivity.
Qed.

Lemma bitsR_canon0 M E : canon0 f M E -> E + prec f <= emax f ->
  bitsR f (F2R (Float radix2 M E)) = encode f M E.
Proof.
  intros HC HE. apply (bitsR_F2R f Hok); [destruct HC as (_ & H & _); lia| |exact HE].
  apply canon0_canonME, HC.
Qed.

(** [RN] of a float is its bit pattern *)
Theorem RN_floatQ M E : canon0 f M E -> E + prec f <= emax f ->
  RN f (floatQ M E) = encode f M E.
Proof.
  intros HC HE.
  assert (H0 : (0 <= floatQ M E)%Q).
  { apply Rle_Qle. rewrite RMicromega.Q2R_0, Q2R_floatQ. apply F2R_ge_0.
    destruct HC as (_ & H & _). cbn [Fnum]; lia. }
  rewrite (RN_bitsR f Hok) by exact H0. rewrite Q2R_floatQ.
  rewrite round_generic by (auto with typeclass_instances; apply canon0_generic, HC).
  apply bitsR_canon0; assumption.
Qed.

(** above the boundary of [M * 2^E] the result is at least the next pattern ... *)
Theorem RN_above_mid M E v : canon0 f M E -> E + prec f <= emax f ->
  (bndQ M E < v)%Q -> encode f M E + 1 <= RN f v.
Proof.
  intros HC HE Hv.
  assert (H0 : (0 <= v)%Q).
  { apply Qlt_le_weak. eapply Qle_lt_trans; [|exact Hv].
    apply Rle_Qle. rewrite RMicromega.Q2R_0, Q2R_bndQ. apply F2R_ge_0.
    destruct HC as (_ & H & _). cbn [Fnum]; lia. }
  apply Qlt_Rlt in Hv. rewrite Q2R_bndQ in Hv.
  pose proof (rnd_above_mid M E _ HC Hv) as Hr.
  destruct (canon0_succ M E HC HE) as [(HM & HEt & Hinf)|(M' & E' & HC' & HE' & Henc & HF)].
  - rewrite Hinf. assert (RN f v = inf_bits f); [|lia].
    apply (RN_of_round_overflow f Hok); [exact H0|].
    eapply Rle_trans; [|exact Hr]. rewrite HM, HEt.
    rewrite <- (F2R_bpow radix2 (emax f)).
    pose proof (prec_bounds f Hok).
    rewrite (F2R_change_exp radix2 (emax f - prec f) 1 (emax f)) by lia.
    replace (emax f - (emax f - prec f)) with (prec f) by lia.
    change (radix2 ^ prec f) with (2 ^ prec f). rewrite Z.mul_1_l. apply Rle_refl.
  - rewrite <- Henc, <- (bitsR_canon0 M' E' HC' HE'). rewrite (RN_bitsR f Hok) by exact H0.
    apply (bitsR_mono f Hok).
    + apply F2R_ge_0. destruct HC' as (_ & H & _). cbn [Fnum]; lia.
    + apply canon0_generic, HC'.
    + apply (rnd_generic f Hok).
    + rewrite HF. exact Hr.
Qed.

(** ... and below it at most the pattern of [M * 2^E] *)
Theorem RN_below_mid M E v : canon0 f M E -> E + prec f <= emax f ->
  (0 <= v)%Q -> (v < bndQ M E)%Q -> RN f v <= encode f M E.
Proof.
  intros HC HE H0 Hv.
  apply Qlt_Rlt in Hv. rewrite Q2R_bndQ in Hv.
  pose proof (rnd_below_mid M E _ HC Hv) as Hr.
  rewrite <- (bitsR_canon0 M E HC HE). rewrite (RN_bitsR f Hok) by exact H0.
  apply (bitsR_mono f Hok).
  - apply (rnd_nonneg f Hok), Q2R_nonneg, H0.
  - apply (rnd_generic f Hok).
  - apply canon0_generic, HC.
  - exact Hr.
Qed.

(** on the boundary itself: one of the two (which one is decided by parity) *)
Corollary RN_at_mid M E : canon0 f M E -> E + prec f <= emax f ->
  encode f M E <= RN f (bndQ M E) <= encode f M E + 1.
Proof.
  intros HC HE.
  assert (Hb0 : (0 <= bndQ M E)%Q).
  { apply Rle_Qle. rewrite RMicromega.Q2R_0, Q2R_bndQ. apply F2R_ge_0.
    destruct HC as (_ & H & _). cbn [Fnum]; lia. }
  assert (Hf0 : (0 <= floatQ M E)%Q).
  { apply Rle_Qle. rewrite RMicromega.Q2R_0, Q2R_floatQ. apply F2R_ge_0.
    destruct HC as (_ & H & _). cbn [Fnum]; lia. }
  split.
  - rewrite <- (RN_floatQ M E HC HE). apply (RN_monotone f Hok); [exact Hf0|].
    apply Rle_Qle. rewrite Q2R_floatQ, Q2R_bndQ. apply Rlt_le, F2R_mid_gt.
  - destruct (canon0_succ M E HC HE) as [(HM & HEt & Hinf)|(M' & E' & HC' & HE' & Henc & HF)].
    + rewrite Hinf. apply (RN_range f Hok), Hb0.
    + rewrite <- Henc, <- (RN_floatQ M' E' HC' HE'). apply (RN_monotone f Hok); [exact Hb0|].
      apply Rle_Qle. rewrite Q2R_floatQ, Q2R_bndQ, HF. apply Rlt_le, F2R_mid_lt.
Qed.

(** ** [RN] is constant on every open cell *)
Section Cell.
Hypothesis Ht : trunc_ok f = true.
Notation maxd := (MAX_DIGITS f).

Lemma maxd_pos : 1 <= maxd.
Proof. unfold trunc_ok in Ht. lia. Qed.

Lemma cell_left_pos a k : 10 ^ (maxd - 1) <= a -> (0 < decQ a k)%Q.
Proof.
  intros Ha. apply decQ_pos. pose proof maxd_pos.
  assert (0 < 10 ^ (maxd - 1)) by (apply Z.pow_pos_nonneg; lia). lia.
Qed.

Lemma RN_cell_const_le a k v1 v2 :
  10 ^ (maxd - 1) <= a ->
  (decQ a k < v1)%Q -> (v1 <= v2)%Q -> (v2 < decQ (a + 1) k)%Q -> RN f v1 = RN f v2.
Proof.
  intros Ha H1 H12 H2. pose proof (cell_left_pos a k Ha) as Hp.
  apply RN_const_between.
  - apply Qlt_le_weak. eapply Qlt_trans; eassumption.
  - exact H12.
  - intros M E Hb Hb1 Hb2.
    apply (no_boundary_in_cell f a k M E Ht Hb Ha).
    + eapply Qlt_le_trans; eassumption.
    + eapply Qle_lt_trans; eassumption.
Qed.

Theorem RN_cell_const a k v1 v2 :
  10 ^ (maxd - 1) <= a ->
  (decQ a k < v1)%Q -> (v1 < decQ (a + 1) k)%Q ->
  (decQ a k < v2)%Q -> (v2 < decQ (a + 1) k)%Q -> RN f v1 = RN f v2.
Proof.
  intros Ha A1 A2 B1 B2. destruct (Qlt_le_dec v2 v1) as [Hlt|Hle].
  - symmetry. apply (RN_cell_const_le a k); try assumption. apply Qlt_le_weak, Hlt.
  - apply (RN_cell_const_le a k); assumption.
Qed.

(** ** D: truncation with a sticky digit preserves the correctly rounded result *)
Theorem truncation_preserves_rounding (s : list Z) (X : Z) :
  forallb digitb s = true -> hd 48 s <> 48 -> maxd < zlen s ->
  let n := Z.to_nat maxd in
  let N0 := digits_to_Z (firstn n s) in
  let rest := skipn n s in
  let k := X + zlen s - maxd in
  10 ^ (maxd - 1) <= N0 < 10 ^ maxd /\
  (all0 rest = false ->
     RN f (decQ (digits_to_Z s) X) = RN f (decQ (N0 * 10 + 1) (k - 1))) /\
  (all0 rest = true ->
     digits_to_Z s = N0 * 10 ^ (zlen s - maxd) /\
     (decQ (digits_to_Z s) X == decQ N0 k)%Q /\
     RN f (decQ (digits_to_Z s) X) = RN f (decQ N0 k)).
Proof.
  intros Hs Hhd Hlen n N0 rest k. pose proof maxd_pos as Hm.
  pose proof (trunc_N0_range maxd s Hm Hs Hhd Hlen) as HN. fold n N0 in HN.
  split; [exact HN|]. split.
  - intros Hr.
    destruct (trunc_value_in_cell maxd s Hm Hs Hlen X Hr) as [V1 V2]. fold n N0 in V1, V2.
    replace (X + (zlen s - maxd)) with k in V1, V2 by (unfold k; lia).
    destruct (sticky_in_cell N0 k) as [S1 S2].
    apply (RN_cell_const N0 k); try assumption. lia.
  - intros Hr.
    destruct (trunc_all_zero_value maxd s Hm Hs Hlen X Hr) as [E1 E2]. fold n N0 in E1, E2.
    replace (X + (zlen s - maxd)) with k in E2 by (unfold k; lia).
    split; [exact E1|]. split; [exact E2|].
    apply (RN_Qeq f Hok); [|exact E2]. apply decQ_nonneg.
    pose proof (digits_bound s Hs). lia.
Qed.

(** ** E: ties *)

(** a value in the cell just above a tie rounds to the upper neighbour ... *)
Theorem tie_cell_above a k M E v :
  canon0 f M E -> E + prec f <= emax f ->
  10 ^ (maxd - 1) <= a -> (decQ a k == bndQ M E)%Q ->
  (decQ a k < v)%Q -> (v < decQ (a + 1) k)%Q ->
  RN f v = encode f M E + 1.
Proof.
  intros HC HE Ha Htie V1 V2. pose proof (cell_left_pos a k Ha) as Hp.
  assert (H0 : (0 <= v)%Q) by (apply Qlt_le_weak; eapply Qlt_trans; eassumption).
  apply Z.le_antisymm; [|apply RN_above_mid; try assumption; rewrite <- Htie; exact V1].
  destruct (canon0_succ M E HC HE) as [(HM & HEt & Hinf)|(M' & E' & HC' & HE' & Henc & HF)].
  - rewrite Hinf. apply (RN_range f Hok), H0.
  - rewrite <- Henc. apply RN_below_mid; try assumption.
    destruct (Qlt_le_dec v (bndQ M' E')) as [Hlt|Hge]; [exact Hlt|exfalso].
    apply (no_boundary_in_cell f a k M' E' Ht (canon0_boundary M' E' HC' HE') Ha).
    + rewrite Htie. apply Rlt_Qlt. rewrite !Q2R_bndQ.
      eapply Rlt_trans; [apply F2R_mid_lt|]. rewrite <- HF. apply F2R_mid_gt.
    + eapply Qle_lt_trans; eassumption.
Qed.

(** ... and a value in the cell just below it to the lower neighbour *)
Theorem tie_cell_below a k M E v :
  canon0 f M E -> E + prec f <= emax f ->
  10 ^ (maxd - 1) <= a - 1 -> (decQ a k == bndQ M E)%Q ->
  (decQ (a - 1) k < v)%Q -> (v < decQ a k)%Q ->
  RN f v = encode f M E.
Proof.
  intros HC HE Ha Htie V1 V2. pose proof (cell_left_pos (a - 1) k Ha) as Hp.
  assert (H0 : (0 <= v)%Q) by (apply Qlt_le_weak; eapply Qlt_trans; eassumption).
  apply Z.le_antisymm; [apply RN_below_mid; try assumption; rewrite <- Htie; exact V2|].
  destruct (Z.eq_dec M 0) as [HM0|HM0].
  - subst M. rewrite (encode_0 f Hok). apply (RN_range f Hok), H0.
  - destruct (canon0_pred M E HC HE HM0) as (M' & E' & HC' & HE' & Henc & HF).
    rewrite <- Henc. apply RN_above_mid; try assumption.
    destruct (Qlt_le_dec (bndQ M' E') v) as [Hlt|Hge]; [exact Hlt|exfalso].
    apply (no_boundary_in_cell f (a - 1) k M' E' Ht (canon0_boundary M' E' HC' HE') Ha).
    + eapply Qlt_le_trans; eassumption.
    + replace (a - 1 + 1) with a by lia. rewrite Htie. apply Rlt_Qlt. rewrite !Q2R_bndQ.
      eapply Rlt_trans; [apply F2R_mid_lt|]. rewrite HF. apply F2R_mid_gt.
Qed.

(** digit-string form: the first [maxd] digits spell a tie exactly, some later digit (at any
    depth) is non-zero: the exact value and the truncated value with its sticky digit both
    round to the upper neighbour *)
Theorem far_digit_breaks_tie (s : list Z) (X M E : Z) :
  forallb digitb s = true -> hd 48 s <> 48 -> maxd < zlen s ->
  canon0 f M E -> E + prec f <= emax f ->
  let n := Z.to_nat maxd in
  let N0 := digits_to_Z (firstn n s) in
  let rest := skipn n s in
  let k := X + zlen s - maxd in
  (decQ N0 k == bndQ M E)%Q -> all0 rest = false ->
  RN f (decQ (digits_to_Z s) X) = encode f M E + 1 /\
  RN f (decQ (N0 * 10 + 1) (k - 1)) = encode f M E + 1.
Proof.
  intros Hs Hhd Hlen HC HE n N0 rest k Htie Hr. pose proof maxd_pos as Hm.
  pose proof (trunc_N0_range maxd s Hm Hs Hhd Hlen) as HN. fold n N0 in HN.
  destruct (trunc_value_in_cell maxd s Hm Hs Hlen X Hr) as [V1 V2]. fold n N0 in V1, V2.
  replace (X + (zlen s - maxd)) with k in V1, V2 by (unfold k; lia).
  destruct (sticky_in_cell N0 k) as [S1 S2].
  split; apply (tie_cell_above N0 k M E); try assumption; lia.
Qed.

(** a tail of nines (or anything else) below a tie written with [maxd] digits: the value
    [(T - 1) * 10^k + tail] with [0 < tail < 10^k] rounds to the lower neighbour *)
Theorem nines_below_tie_round_down (s : list Z) (X M E : Z) :
  forallb digitb s = true -> hd 48 s <> 48 -> maxd < zlen s ->
  canon0 f M E -> E + prec f <= emax f ->
  let n := Z.to_nat maxd in
  let N0 := digits_to_Z (firstn n s) in
  let rest := skipn n s in
  let k := X + zlen s - maxd in
  (decQ (N0 + 1) k == bndQ M E)%Q -> all0 rest = false ->
  RN f (decQ (digits_to_Z s) X) = encode f M E /\
  RN f (decQ (N0 * 10 + 1) (k - 1)) = encode f M E.
Proof.
  intros Hs Hhd Hlen HC HE n N0 rest k Htie Hr. pose proof maxd_pos as Hm.
  pose proof (trunc_N0_range maxd s Hm Hs Hhd Hlen) as HN. fold n N0 in HN.
  destruct (trunc_value_in_cell maxd s Hm Hs Hlen X Hr) as [V1 V2]. fold n N0 in V1, V2.
  replace (X + (zlen s - maxd)) with k in V1, V2 by (unfold k; lia).
  destruct (sticky_in_cell N0 k) as [S1 S2].
  split; apply (tie_cell_below (N0 + 1) k M E); try assumption;
    replace (N0 + 1 - 1) with N0 by lia; try assumption; lia.
Qed.

End Cell.

(** trailing zeros (with the exponent lowered accordingly) do not change the result *)
Theorem trailing_zeros_irrelevant (s : list Z) (z : nat) (X : Z) :
  forallb digitb s = true ->
  (decQ (digits_to_Z (s ++ zeros z)) (X - Z.of_nat z) == decQ (digits_to_Z s) X)%Q /\
  RN f (decQ (digits_to_Z (s ++ zeros z)) (X - Z.of_nat z)) = RN f (decQ (digits_to_Z s) X).
Proof.
  intros Hs. pose proof (trailing_zeros_value s z X) as H. split; [exact H|].
  symmetry. apply (RN_Qeq f Hok); [|symmetry; exact H].
  apply decQ_nonneg. pose proof (digits_bound s Hs). lia.
Qed.

End T.

(** ** The same in the integer-only vocabulary of spec/RneZ.v *)
From ML Require spec.RneZ spec.RneBridge.

Lemma sfmt_bfmt f : sfmt_ok f = true -> RneBridge.bfmt_ok f = true.
Proof. unfold sfmt_ok, RneBridge.bfmt_ok. lia. Qed.

Lemma decQ_frac w q : (RneZ.dec_num w q # Z.to_pos (RneZ.dec_den q) == decQ w q)%Q.
Proof.
  unfold RneZ.dec_num, RneZ.dec_den, decQ. destruct (0 <=? q) eqn:Hq.
  - rewrite pow10Q_nonneg_inj by lia. rewrite <- inject_Z_mult. reflexivity.
  - replace q with (- (- q)) at 2 by lia. rewrite pow10Q_neg by lia.
    unfold Qeq, Qmult, inject_Z. cbn [Qnum Qden Pos.mul]. ring.
Qed.

Lemma dec_frac_pos w q : 0 <= w -> 0 <= RneZ.dec_num w q /\ 0 < RneZ.dec_den q.
Proof.
  intros Hw. unfold RneZ.dec_num, RneZ.dec_den. destruct (0 <=? q) eqn:Hq.
  - assert (0 < 10 ^ q) by (apply Z.pow_pos_nonneg; lia). nia.
  - assert (0 < 10 ^ (- q)) by (apply Z.pow_pos_nonneg; lia). lia.
Qed.

(** [rne_bits] of a decimal value [w * 10^q] is [RN] of [decQ w q] *)
Theorem rne_bits_decQ f w q bits : sfmt_ok f = true -> 0 <= w ->
  (RneZ.rne_bits f (RneZ.dec_num w q) (RneZ.dec_den q) bits <-> RN f (decQ w q) = bits).
Proof.
  intros Hok Hw. destruct (dec_frac_pos w q Hw) as [Hn Hd].
  rewrite (RneBridge.rne_bits_iff_RN f (sfmt_bfmt f Hok) _ _ bits Hn Hd).
  rewrite (RN_Qeq f Hok _ (decQ w q)); [reflexivity| |apply decQ_frac].
  unfold Qle. cbn [Qnum Qden]. lia.
Qed.

(** D for [rne_bits]: a bit pattern is correct for the truncated value with its sticky digit
    iff it is correct for the full digit string *)
Theorem truncation_preserves_rne_bits f (s : list Z) (X : Z) :
  sfmt_ok f = true -> trunc_ok f = true ->
  forallb digitb s = true -> hd 48 s <> 48 -> MAX_DIGITS f < zlen s ->
  let n := Z.to_nat (MAX_DIGITS f) in
  let N0 := digits_to_Z (firstn n s) in
  let k := X + zlen s - MAX_DIGITS f in
  all0 (skipn n s) = false ->
  forall bits,
    RneZ.rne_bits f (RneZ.dec_num (N0 * 10 + 1) (k - 1)) (RneZ.dec_den (k - 1)) bits <->
    RneZ.rne_bits f (RneZ.dec_num (digits_to_Z s) X) (RneZ.dec_den X) bits.
Proof.
  intros Hok Ht Hs Hhd Hlen n N0 k Hr bits.
  destruct (truncation_preserves_rounding f Hok Ht s X Hs Hhd Hlen) as (HN & Hne & _).
  fold n N0 k in HN, Hne. specialize (Hne Hr).
  assert (0 < 10 ^ (MAX_DIGITS f - 1)).
  { apply Z.pow_pos_nonneg; [lia|]. unfold trunc_ok in Ht. lia. }
  pose proof (digits_bound s Hs).
  rewrite !rne_bits_decQ by (assumption || lia). rewrite Hne. reflexivity.
Qed.

(** ** Instances and examples *)
Definition truncation_preserves_rounding_F64 :=
  truncation_preserves_rounding F64 sfmt_ok_F64 trunc_ok_F64.
Definition truncation_preserves_rounding_F32 :=
  truncation_preserves_rounding F32 sfmt_ok_F32 trunc_ok_F32.

(** decimal digits (ASCII codes) of [n], [len] of them *)
Fixpoint zdigits (len : nat) (n : Z) (acc : list Z) : list Z :=
  match len with
  | O => acc
  | S l => zdigits l (n / 10) ((n mod 10 + 48) :: acc)
  end.

(** binary32: the tie 1 + 2^-24 = 1.000000059604644775390625 between 1.0 (0x3f800000, even) and
    its successor, followed by zeros up to 200 digits and a final 7 *)
Definition ex32_tie : Z := 1000000059604644775390625.
Definition ex32_s : list Z := zdigits 25 ex32_tie [] ++ zeros 174 ++ [55].
Definition ex32_X : Z := -199.

Example ex32_hyps :
  forallb digitb ex32_s = true /\ hd 48 ex32_s <> 48 /\ MAX_DIGITS F32 < zlen ex32_s /\
  all0 (skipn (Z.to_nat (MAX_DIGITS F32)) ex32_s) = false /\
  canon0 F32 (2 ^ 23) (-23) /\ -23 + prec F32 <= emax F32 /\
  (decQ (digits_to_Z (firstn (Z.to_nat (MAX_DIGITS F32)) ex32_s))
        (ex32_X + zlen ex32_s - MAX_DIGITS F32) == bndQ (2 ^ 23) (-23))%Q.
Proof.
  vm_compute. repeat split; try discriminate; try reflexivity. right. discriminate.
Qed.

Example ex32_values :
  RN F32 (decQ ex32_tie (-24)) = 1065353216 /\                       (* the tie: to even, 1.0 *)
  RN F32 (decQ (digits_to_Z ex32_s) ex32_X) = 1065353217 /\           (* broken upward *)
  RN F32 (decQ (digits_to_Z (firstn 114 ex32_s) * 10 + 1) (ex32_X + 200 - 114 - 1)) = 1065353217 /\
  encode F32 (2 ^ 23) (-23) + 1 = 1065353217.
Proof. vm_compute. repeat split; reflexivity. Qed.

Example ex32_by_theorem :
  RN F32 (decQ (digits_to_Z ex32_s) ex32_X) = encode F32 (2 ^ 23) (-23) + 1.
Proof.
  destruct ex32_hyps as (H1 & H2 & H3 & H4 & H5 & H6 & H7).
  exact (proj1 (far_digit_breaks_tie F32 sfmt_ok_F32 trunc_ok_F32 ex32_s ex32_X _ _
                  H1 H2 H3 H5 H6 H7 H4)).
Qed.

(** the same tie approached from below: 1.000000059604644775390624 999...9 (200 digits) rounds
    down to 1.0 *)
Definition ex32_nines : list Z := zdigits 25 (ex32_tie - 1) [] ++ repeat 57 175.
Example ex32_nines_hyps :
  forallb digitb ex32_nines = true /\ hd 48 ex32_nines <> 48 /\ MAX_DIGITS F32 < zlen ex32_nines /\
  all0 (skipn (Z.to_nat (MAX_DIGITS F32)) ex32_nines) = false /\
  (decQ (digits_to_Z (firstn (Z.to_nat (MAX_DIGITS F32)) ex32_nines) + 1)
        (ex32_X + zlen ex32_nines - MAX_DIGITS F32) == bndQ (2 ^ 23) (-23))%Q.
Proof. vm_compute. repeat split; try discriminate; reflexivity. Qed.

Example ex32_nines_by_theorem :
  RN F32 (decQ (digits_to_Z ex32_nines) ex32_X) = encode F32 (2 ^ 23) (-23) /\
  encode F32 (2 ^ 23) (-23) = 1065353216.
Proof.
  destruct ex32_nines_hyps as (H1 & H2 & H3 & H4 & H7).
  destruct ex32_hyps as (_ & _ & _ & _ & H5 & H6 & _).
  split; [|vm_compute; reflexivity].
  exact (proj1 (nines_below_tie_round_down F32 sfmt_ok_F32 trunc_ok_F32 ex32_nines ex32_X _ _
                  H1 H2 H3 H5 H6 H7 H4)).
Qed.

(** binary64: the deepest boundaries.  [(2^54 - 3) * 2^-1075] is the tie between the subnormal/
    normal seam floats with significands [2^53 - 2] (even) and [2^53 - 1]; it has 768 digits.
    A 1 placed 1000 digits further breaks it upward. *)
Definition ex64_c : Z := (2 ^ 54 - 3) * 5 ^ 1075.
Definition ex64_s : list Z := zdigits 768 ex64_c [] ++ zeros 1000 ++ [49].

Example ex64_hyps :
  forallb digitb ex64_s = true /\ hd 48 ex64_s <> 48 /\ MAX_DIGITS F64 < zlen ex64_s /\
  all0 (skipn (Z.to_nat (MAX_DIGITS F64)) ex64_s) = false /\
  digits_to_Z (zdigits 768 ex64_c []) = ex64_c.
Proof. vm_compute. repeat split; try discriminate; reflexivity. Qed.

Example ex64_values :
  (bndQ (2 ^ 53 - 2) (-1074) == decQ ex64_c (-1075))%Q /\
  RN F64 (decQ ex64_c (-1075)) = 2 ^ 53 - 2 /\
  RN F64 (decQ (digits_to_Z ex64_s) (-1075 - 1001)) = 2 ^ 53 - 1 /\
  RN F64 (decQ (digits_to_Z (firstn 769 ex64_s) * 10 + 1) (-1075 - 1001 + 1769 - 769 - 1))
    = 2 ^ 53 - 1.
Proof. vm_compute. repeat split; reflexivity. Qed.

(** Why [MAX_DIGITS] may not be smaller than 768 for binary64: keep only 767 digits of the
    768-digit tie [(2^54 - 1) * 2^-1075] (odd significand [2^53 - 1]: the tie rounds up to
    [2^53]) and the sticky digit lands below the tie: the result is one ulp too small. *)
Definition bad64_c : Z := (2 ^ 54 - 1) * 5 ^ 1075.
Example max_digits_767_is_wrong :
  10 ^ 767 <= bad64_c < 10 ^ 768 /\
  RN F64 (decQ bad64_c (-1075)) = 2 ^ 53 /\
  RN F64 (decQ (bad64_c / 10 * 10 + 1) (-1075)) = 2 ^ 53 - 1.
Proof. vm_compute. repeat split; try reflexivity. discriminate. Qed.

Print Assumptions RN_differs_boundary.
Print Assumptions RN_const_between.
Print Assumptions RN_above_mid.
Print Assumptions RN_below_mid.
Print Assumptions RN_cell_const.
Print Assumptions truncation_preserves_rounding.
Print Assumptions truncation_preserves_rne_bits.
Print Assumptions tie_cell_above.
Print Assumptions tie_cell_below.
Print Assumptions far_digit_breaks_tie.
Print Assumptions nines_below_tie_round_down.
Print Assumptions trailing_zeros_irrelevant.
