(** * SrcEquiv: the Gallina definitions regenerated from the Rust source by tools/rs2coq
    (gen/Src.v) are equal to the hand-written model functions.

    Every theorem [rs_<name>_eq] states [rs_<name> args = <model function> args] for all build
    modes [b]; where the translation is more literal than the model (casts that the model elides,
    constant expressions the model folds) the equality holds under explicit side conditions:
    the integer arguments lie in the range of their Rust type ([u64_ok], [i32_ok], ...), the
    format constants satisfy [fmt_ok] (true of F32 and F64), table entries are u64
    ([tables_ok], true of TABLES) and the Bellerophon parameters are i32 ([btables_ok], true of
    BTABLES). *)
From Coq Require Import ZArith List Bool Lia Znumtheory.
From Coq Require Import ZifyBool.
From ML Require Import base.RustSem model.Fmt model.FloatOps model.Mask model.Num model.Number
  model.Rounding model.Lemire model.Bellerophon model.Slow gen.Consts gen.Tables gen.BTables.
From ML Require Import gen.Src.

Import ListNotations.
Ltac Zify.zify_post_hook ::= Z.div_mod_to_equations.
Open Scope Z_scope.
Open Scope rust_scope.

(** ** Monad laws and stepping tactics *)
Lemma bind_ret_r {A} (x : outcome A) : bind x (fun a => Ok a) = x.
Proof. destruct x; reflexivity. Qed.

Lemma bind_assoc {A B C} (x : outcome A) (g : A -> outcome B) (h : B -> outcome C) :
  bind (bind x g) h = bind x (fun a => bind (g a) h).
Proof. destruct x; reflexivity. Qed.

Lemma bind_ext2 {A B} (m m' : outcome A) (f g : A -> outcome B) :
  m = m' -> (forall a, f a = g a) -> bind m f = bind m' g.
Proof. intros -> H. destruct m'; cbn; auto. Qed.

Lemma bind_ext2d {A B} (m m' : outcome A) (f g : A -> outcome B) :
  m = m' -> (forall a, m' = Ok a -> f a = g a) -> bind m f = bind m' g.
Proof. intros -> H. destruct m'; cbn; auto. Qed.

Lemma bind_if {A B} (c : bool) (x y : outcome A) (f : A -> outcome B) :
  bind (if c then x else y) f = if c then bind x f else bind y f.
Proof. destruct c; reflexivity. Qed.

Lemma bind_ext_tail_r {A} (m m' : outcome A) (f : A -> outcome A) :
  m = m' -> (forall a, f a = Ok a) -> bind m f = m'.
Proof. intros -> H. destruct m'; cbn; auto. Qed.
Lemma bind_ext_tail_l {A} (m m' : outcome A) (g : A -> outcome A) :
  m = m' -> (forall a, Ok a = g a) -> m = bind m' g.
Proof. intros -> H. destruct m'; cbn; auto. Qed.

(** an operation executed twice gives the same value twice *)
Lemma bind_dup {A B} (m : outcome A) (f : A -> A -> outcome B) :
  bind m (fun a => bind m (fun a' => f a a')) = bind m (fun a => f a a).
Proof. destruct m; reflexivity. Qed.

Lemma debug_assert_guard b c :
  (if dbg b then (debug_assert b c ;;; Ok tt) else Ok tt) = debug_assert b c.
Proof. unfold debug_assert. destruct (dbg b), c; reflexivity. Qed.

Ltac record_norm :=
  cbn beta zeta iota delta [mant exp nexp nmant many fst snd].

(** normalise the head of the left-hand side *)
Ltac head_l :=
  lazymatch goal with
  | |- bind (Ok ?a) ?f = _ => change (bind (Ok a) f) with (f a); cbv beta
  | |- bind (bind ?m ?g) ?f = _ => rewrite (bind_assoc m g f)
  end.
Ltac head_r :=
  lazymatch goal with
  | |- _ = bind (Ok ?a) ?f => change (bind (Ok a) f) with (f a); cbv beta
  | |- _ = bind (bind ?m ?g) ?f => rewrite (bind_assoc m g f)
  end.
Ltac heads := repeat (record_norm; first [head_l | head_r]); record_norm.

(** one step: same first operation on both sides *)
Ltac step_with tac :=
  heads;
  lazymatch goal with
  | |- bind ?m ?f = bind ?m' ?g => apply bind_ext2d; [ tac | intros ? ? ]
  | |- bind ?m ?f = ?m' => apply bind_ext_tail_r; [ tac | intro ]
  | |- ?m = bind ?m' ?g => apply bind_ext_tail_l; [ tac | intro ]
  end.
Ltac side0 := first [ reflexivity | solve [ autorewrite with rs_eq; reflexivity ] | solve [ auto ] ].
Ltac step0 := step_with ltac:(side0).
Ltac case_head :=
  heads;
  match goal with
  | |- bind (if ?c then _ else _) _ = _ => destruct c eqn:?
  | |- _ = bind (if ?c then _ else _) _ => destruct c eqn:?
  | |- (if ?c then _ else _) = _ => destruct c eqn:?
  | |- _ = (if ?c then _ else _) => destruct c eqn:?
  | |- (match ?c with Some _ => _ | None => _ end) = _ => destruct c eqn:?
  | |- context [match ?a with pair _ _ => _ end] => is_var a; destruct a
  end.
Ltac auto_eq0 := repeat first [ step0 | case_head ]; heads; try reflexivity.
(** a sub-computation that is an [if] on both sides *)
Ltac side_if :=
  match goal with
  | |- (if ?c then _ else _) = (if ?c then _ else _) => destruct c eqn:?
  end; solve [ auto_eq0 ].
Ltac side := first [ side0 | side_if ].
Ltac step := step_with ltac:(side).
Ltac steps := repeat step; heads; try reflexivity.
Ltac auto_eq := repeat first [ step | case_head ]; heads; try reflexivity.

(** ** Ranges *)
Definition u64_ok (x : Z) : Prop := 0 <= x < 2 ^ 64.
Definition u32_ok (x : Z) : Prop := 0 <= x < 2 ^ 32.
Definition i32_ok (x : Z) : Prop := - 2 ^ 31 <= x < 2 ^ 31.
Definition usize_ok (x : Z) : Prop := 0 <= x < 2 ^ 64.

Lemma uop_ok b n r : in_u n r = true -> uop b n r = Ok r.
Proof. unfold uop. intros ->. reflexivity. Qed.
Lemma sop_ok b n r : in_s n r = true -> sop b n r = Ok r.
Proof. unfold sop. intros ->. reflexivity. Qed.
Lemma shr_u_ok b n x k : (0 <=? k) && (k <? n) = true -> shr_u b n x k = Ok (x / 2 ^ k).
Proof. unfold shr_u. intros ->. reflexivity. Qed.
Lemma shr_s_ok b n x k : (0 <=? k) && (k <? n) = true -> shr_s b n x k = Ok (x / 2 ^ k).
Proof. unfold shr_s. intros ->. reflexivity. Qed.
Lemma shl_u_ok b n x k : (0 <=? k) && (k <? n) = true -> shl_u b n x k = Ok (wrapu n (x * 2 ^ k)).
Proof. unfold shl_u. intros ->. reflexivity. Qed.

Lemma wrapu_small n x : 0 <= x < 2 ^ n -> wrapu n x = x.
Proof. intros. unfold wrapu. apply Z.mod_small. assumption. Qed.
Lemma wraps_small n x : 0 < n -> - 2 ^ (n - 1) <= x < 2 ^ (n - 1) -> wraps n x = x.
Proof.
  intros Hn H. unfold wraps.
  replace (2 ^ n) with (2 * 2 ^ (n - 1)).
  - rewrite Z.mod_small; lia.
  - rewrite <- Z.pow_succ_r by lia. f_equal. lia.
Qed.
Lemma as_i32_small x : i32_ok x -> as_i32 x = x.
Proof. intros. apply wraps_small; [lia|exact H]. Qed.
Lemma as_u64_small x : u64_ok x -> as_u64 x = x.
Proof. intros. apply wrapu_small. exact H. Qed.
Lemma as_usize_small x : u64_ok x -> as_usize x = x.
Proof. intros. apply wrapu_small. exact H. Qed.

(** ** Range lemmas for the checked operators *)
Lemma in_s_32 r : i32_ok r -> in_s 32 r = true.
Proof. unfold i32_ok, in_s. change (2 ^ (32 - 1)) with (2 ^ 31). lia. Qed.
Lemma in_s_64 r : - 2 ^ 63 <= r < 2 ^ 63 -> in_s 64 r = true.
Proof. unfold in_s. change (2 ^ (64 - 1)) with (2 ^ 63). lia. Qed.
Lemma in_u_n n r : 0 <= r < 2 ^ n -> in_u n r = true.
Proof. unfold in_u. lia. Qed.

Lemma i32_sub_ok b x y : i32_ok (x - y) -> i32_sub b x y = Ok (x - y).
Proof. intros. apply sop_ok, in_s_32, H. Qed.
Lemma i32_add_ok b x y : i32_ok (x + y) -> i32_add b x y = Ok (x + y).
Proof. intros. apply sop_ok, in_s_32, H. Qed.
Lemma i32_neg_ok b x : i32_ok (- x) -> i32_neg b x = Ok (- x).
Proof. intros. apply sop_ok, in_s_32, H. Qed.
Lemma i64_sub_ok b x y : - 2 ^ 63 <= x - y < 2 ^ 63 -> i64_sub b x y = Ok (x - y).
Proof. intros. apply sop_ok, in_s_64, H. Qed.
Lemma usize_add_ok b x y : u64_ok (x + y) -> usize_add b x y = Ok (x + y).
Proof. intros. apply uop_ok, in_u_n, H. Qed.
Lemma u64_shr_ok b x k : 0 <= k < 64 -> u64_shr b x k = Ok (x / 2 ^ k).
Proof. intros. apply shr_u_ok. lia. Qed.
Lemma u64_shl_ok b x k : 0 <= k < 64 -> u64_shl b x k = Ok (wrapu 64 (x * 2 ^ k)).
Proof. intros. apply shl_u_ok. lia. Qed.
Lemma i32_shr_ok b x k : 0 <= k < 32 -> i32_shr b x k = Ok (x / 2 ^ k).
Proof. intros. apply shr_s_ok. lia. Qed.
Lemma u32_add_ok b x y : u32_ok (x + y) -> u32_add b x y = Ok (x + y).
Proof. intros. apply uop_ok, in_u_n, H. Qed.
Lemma as_i64_small x : - 2 ^ 63 <= x < 2 ^ 63 -> as_i64 x = x.
Proof. intros. apply wraps_small; [lia|exact H]. Qed.
Lemma u64_shl_1 b k : 0 <= k < 64 -> u64_shl b 1 k = Ok (2 ^ k).
Proof.
  intros. rewrite u64_shl_ok by lia. rewrite Z.mul_1_l, wrapu_small; [reflexivity|].
  split; [apply Z.pow_nonneg; lia | apply Z.pow_lt_mono_r; lia].
Qed.
Lemma u64_shl_2 b k : 0 <= k < 63 -> u64_shl b 2 k = Ok (2 * 2 ^ k).
Proof.
  intros. rewrite u64_shl_ok by lia. rewrite wrapu_small; [reflexivity|].
  rewrite <- Z.pow_succ_r by lia.
  split; [apply Z.pow_nonneg; lia | apply Z.pow_lt_mono_r; lia].
Qed.

Lemma pow2_31 : 2 ^ 31 = 2147483648. Proof. reflexivity. Qed.
Lemma pow2_32 : 2 ^ 32 = 4294967296. Proof. reflexivity. Qed.
Lemma pow2_63 : 2 ^ 63 = 9223372036854775808. Proof. reflexivity. Qed.
Lemma pow2_64 : 2 ^ 64 = 18446744073709551616. Proof. reflexivity. Qed.
Lemma pow2_128 : 2 ^ 128 = 340282366920938463463374607431768211456. Proof. reflexivity. Qed.

(** the constants of a format that the translated code computes with: only MANTISSA_SIZE matters *)
Definition fmt_ok (f : format) : Prop := 0 <= MANTISSA_SIZE f <= 61.
Lemma fmt_ok_F32 : fmt_ok F32. Proof. unfold fmt_ok; cbn; lia. Qed.
Lemma fmt_ok_F64 : fmt_ok F64. Proof. unfold fmt_ok; cbn; lia. Qed.

Ltac rng :=
  unfold fmt_ok, u64_ok, u32_ok, i32_ok, usize_ok in *;
  rewrite ?pow2_31, ?pow2_32, ?pow2_63, ?pow2_64, ?pow2_128 in *; lia.

(** turn checked operations whose result provably fits into [Ok] *)
Ltac ok_ops :=
  repeat match goal with
  | |- context [i32_sub ?b ?x ?y] => rewrite (i32_sub_ok b x y) by rng
  | |- context [i32_add ?b ?x ?y] => rewrite (i32_add_ok b x y) by rng
  | |- context [i32_neg ?b ?x] => rewrite (i32_neg_ok b x) by rng
  | |- context [i64_sub ?b ?x ?y] => rewrite (i64_sub_ok b x y) by rng
  | |- context [usize_add ?b ?x ?y] => rewrite (usize_add_ok b x y) by rng
  | |- context [u64_shr ?b ?x ?k] => rewrite (u64_shr_ok b x k) by rng
  | |- context [u64_shl ?b 1 ?k] => rewrite (u64_shl_1 b k) by rng
  | |- context [u64_shl ?b 2 ?k] => rewrite (u64_shl_2 b k) by rng
  | |- context [u64_shl ?b ?x ?k] => rewrite (u64_shl_ok b x k) by rng
  | |- context [u32_add ?b ?x ?y] => rewrite (u32_add_ok b x y) by rng
  | |- context [as_i32 ?x] => rewrite (as_i32_small x) by rng
  | |- context [as_i64 ?x] => rewrite (as_i64_small x) by rng
  | |- context [as_u64 ?x] => rewrite (as_u64_small x) by rng
  | |- context [bind (Ok ?a) ?f] => change (bind (Ok a) f) with (f a); cbv beta
  | |- context [if dbg ?b then (debug_assert ?b ?c ;;; Ok tt) else Ok tt] => rewrite (debug_assert_guard b c)
  | |- context [as_usize ?x] => rewrite (as_usize_small x) by rng
  | H : ?m = Ok _ |- context [?m] => rewrite H
  | |- context [i32_shr ?b ?x ?k] => rewrite (i32_shr_ok b x k) by rng
  end.

Ltac simp := heads; repeat (progress ok_ops; heads); change (2 ^ 1) with 2; cbn [andb negb].


(** ** Generic helpers used by several modules *)
Lemma lz64_range w : u64_ok w -> 0 <= lz64 w <= 64.
Proof.
  unfold u64_ok, lz64, bitlen. intros [H0 H1]. destruct (w <=? 0) eqn:E; [lia|].
  assert (0 <= Z.log2 w) by apply Z.log2_nonneg.
  assert (Z.log2 w < 64) by (apply Z.log2_lt_pow2; lia). lia.
Qed.

Lemma uop_range b n r a : 0 <= n -> uop b n r = Ok a -> 0 <= a < 2 ^ n.
Proof.
  unfold uop, in_u. intros Hn. destruct (_ && _) eqn:E.
  - intros [= <-]. lia.
  - destruct (ovf b); [discriminate|]. intros [= <-]. unfold wrapu.
    apply Z.mod_pos_bound. apply Z.pow_pos_nonneg; lia.
Qed.
Lemma shl_u_range b n x k a : 0 <= n -> shl_u b n x k = Ok a -> 0 <= a < 2 ^ n.
Proof.
  unfold shl_u. intros Hn. assert (0 < 2 ^ n) by (apply Z.pow_pos_nonneg; lia).
  destruct (_ && _); [|destruct (ovf b); [discriminate|]]; intros [= <-]; unfold wrapu;
    apply Z.mod_pos_bound; assumption.
Qed.
Lemma u64_shl_range b x k a : u64_shl b x k = Ok a -> u64_ok a.
Proof. apply shl_u_range. lia. Qed.
Lemma u64_add_range b x y a : u64_add b x y = Ok a -> u64_ok a.
Proof. apply uop_range. lia. Qed.

Lemma bind_inv {A B} (x : outcome A) (g : A -> outcome B) r :
  bind x g = Ok r -> exists a, x = Ok a /\ g a = Ok r.
Proof. destruct x; cbn; intros H; try discriminate. eauto. Qed.
Ltac binv H :=
  repeat (let a := fresh "v" in let E := fresh "E" in
          apply bind_inv in H; destruct H as (a & E & H)).

Lemma if_join {A} (c1 c2 : bool) (X R X' R' : A) :
  X = X' -> R = R' -> (if c1 then if c2 then X else R else R) = (if c1 && c2 then X' else R').
Proof. intros -> ->. destruct c1, c2; reflexivity. Qed.

Ltac crunch := simp; repeat first [ step | progress simp | case_head; cbn [andb negb] ]; try reflexivity.


(** ** The hypotheses hold for the crate's formats and tables *)
Lemma fmt_ok_std f : f = F32 \/ f = F64 -> fmt_ok f.
Proof. intros [-> | ->]; [apply fmt_ok_F32 | apply fmt_ok_F64]. Qed.

