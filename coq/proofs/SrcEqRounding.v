(** * gen/Src.v = model: src/rounding.rs *)
From Coq Require Import ZArith List Bool Lia Znumtheory.
From Coq Require Import ZifyBool.
From ML Require Import base.RustSem model.Fmt model.FloatOps model.Mask model.Num model.Number
  model.Rounding model.Lemire model.Bellerophon model.Slow gen.Consts gen.Tables gen.BTables.
From ML Require Import gen.Src.
From ML Require Import proofs.SrcEqBase proofs.SrcEqMask.
Import ListNotations.
Ltac Zify.zify_post_hook ::= Z.div_mod_to_equations.
Open Scope Z_scope.
Open Scope rust_scope.
(** ** rounding.rs *)
Theorem rs_round_nearest_tie_even_eq : forall b fp shift cb,
  rs_round_nearest_tie_even b fp shift cb = round_nearest_tie_even b fp shift cb.
Proof. intros. unfold rs_round_nearest_tie_even, round_nearest_tie_even. auto_eq. Qed.
#[export] Hint Rewrite rs_round_nearest_tie_even_eq : rs_eq.

Theorem rs_round_down_eq : forall b fp shift, rs_round_down b fp shift = round_down b fp shift.
Proof. intros. unfold rs_round_down, round_down. auto_eq. Qed.
#[export] Hint Rewrite rs_round_down_eq : rs_eq.

Theorem rs_round_eq : forall f b fp cb, fmt_ok f -> rs_round f b fp cb = round f b fp cb.
Proof.
  intros f b fp cb Hf. unfold rs_round, round. simp. step. case_head.
  - rewrite H. auto_eq.
  - auto_eq.
Qed.

(** [round] only applies its callback *)
Lemma round_ext : forall f b fp cb1 cb2,
  (forall x s, cb1 x s = cb2 x s) -> round f b fp cb1 = round f b fp cb2.
Proof. intros f b fp cb1 cb2 H. unfold round. auto_eq. Qed.

Corollary rs_round_eq_std : forall f b fp cb, f = F32 \/ f = F64 ->
  rs_round f b fp cb = round f b fp cb.
Proof. intros. apply rs_round_eq, fmt_ok_std. assumption. Qed.


Print Assumptions rs_round_nearest_tie_even_eq.
Print Assumptions rs_round_down_eq.
Print Assumptions rs_round_eq.
Print Assumptions rs_round_eq_std.
