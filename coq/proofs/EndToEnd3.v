(** * EndToEnd3: parse_float is correct whenever the Eisel-Lemire stage (default, non-compact
    configurations) returns a definite answer.
    [parse_float_lemire_definite_correct]: every valid input (exponent not saturated), every
    non-compact configuration, both formats, both build modes: if the fast path does not apply and
    `lemire` is definite, parse_float returns exactly RN (dec_value ..).  With
    [parse_float_fast_correct] and [parse_float_compact_definite_correct] the end-to-end statement
    is closed for every input that does not need the big-integer path, in ALL eight configurations. *)
From Coq Require Import ZArith QArith List Bool Lia.
From ML Require Import base.RustSem model.Fmt model.Num model.Number model.Parse model.Lemire model.Top
  spec.Decimal spec.Round spec.RoundFacts spec.RneZ spec.RneBridge gen.Consts gen.Tables gen.BTables gen.PowDump
  proofs.ParseFacts proofs.FastPathFacts proofs.EndToEnd proofs.EndToEnd2 proofs.LemireFacts0 proofs.LemireFacts5.
Import ListNotations.
Open Scope Z_scope.

(** w * 10^q as a rational equals the fraction dec_num / dec_den *)
Lemma dec_frac_Q : forall w q, 0 <= w ->
  (inject_Z w * pow10Q q == dec_num w q # Z.to_pos (dec_den q))%Q.
Proof.
  intros w q Hw. unfold dec_num, dec_den, pow10Q.
  destruct q as [|p|p].
  - change (0 <=? 0) with true. cbv iota. rewrite Z.pow_0_r, Z.mul_1_r. unfold Qeq, inject_Z. cbn [Qnum Qden Qmult]. cbn [Z.to_pos]. lia.
  - change (0 <=? Z.pos p) with true. cbv iota. unfold Qeq, inject_Z, Qmult. cbn [Qnum Qden Z.to_pos]. rewrite Pos.mul_1_l. lia.
  - change (0 <=? Z.neg p) with false. cbv iota. change (- Z.neg p) with (Z.pos p).
    unfold Qeq, inject_Z, Qmult. cbn [Qnum Qden]. rewrite Pos.mul_1_l. lia.
Qed.

Theorem parse_float_lemire_definite_correct : forall c f b BT L i fr e fp,
  In c ALL_CONFIGS -> compact c = false -> f = F32 \/ f = F64 ->
  valid_inputb i fr e = true -> unsaturated i fr e ->
  fast_path_applies f (parse_spec i fr e) = false ->
  lemire TABLES f b (parse_spec i fr e) = Ok fp -> 0 <= exp fp ->
  parse_float c TABLES BT L f b i fr e = Ok (RN f (dec_value i fr e)).
Proof.
  intros c f b BT L i fr e fp Hc Hcomp Hf V Hsat Hnf Hlem Hexp.
  pose proof (fast_ok_shipped c f Hc Hf) as Hok.
  assert (Hlo : lfmt_ok f = true) by (destruct Hf; subst; [exact lfmt_ok_F32|exact lfmt_ok_F64]).
  assert (Hbf : bfmt_ok f = true) by (destruct Hf; subst; [exact bfmt_ok_F32|exact bfmt_ok_F64]).
  assert (Hs : sfmt_ok f = true) by (destruct Hf; subst; [exact sfmt_ok_F32|exact sfmt_ok_F64]).
  assert (Hbits : fbits f = 32 \/ fbits f = 64) by (destruct Hf; subst; [left|right]; reflexivity).
  unfold parse_float. rewrite (parse_number_exact b i fr e V). cbn [bind].
  destruct (parse_number_spec b i fr e V) as (n & Hn & Hm & He & S).
  assert (Hnn : n = parse_spec i fr e) by (rewrite (parse_number_exact b i fr e V) in Hn; congruence).
  subst n. clear Hn.
  rewrite (try_fast_path_eq c TABLES f b Hok (parse_spec i fr e)) by (unfold i32_min, i32_max in He; lia).
  rewrite Hnf. cbn [bind]. unfold moderate_path. rewrite Hcomp.
  set (n := parse_spec i fr e) in *. cbv zeta in S.
  destruct S as (_ & _ & _ & _ & Sb & _).
  assert (Hmw : many n = true -> 0 < nmant n /\ nmant n + 1 < 2 ^ 64).
  { intros Ht. destruct (Sb Ht) as [[Hl Hh] _].
    revert Hl Hh. generalize (nmant n). intros z Hl Hh. clear - Hl Hh.
    assert (H18 : 0 < 10 ^ 18) by (vm_compute; reflexivity). assert (H19 : 10 ^ 19 < 2 ^ 64) by (vm_compute; reflexivity).
    split; [exact (Z.lt_le_trans _ _ _ H18 Hl)|].
    pose proof (Zlt_le_succ _ _ Hh) as Hs'. unfold Z.succ in Hs'. exact (Z.le_lt_trans _ _ _ Hs' H19). }
  destruct (lemire_sound f b n Hlo Hm Hmw) as (fp' & Hl' & Hs').
  rewrite Hlem in Hl'. injection Hl' as <-. rewrite Hlem. cbn [bind].
  destruct (exp fp <? 0) eqn:Elt; [apply Z.ltb_lt in Elt; lia|]. cbn [bind].
  destruct (Hs' Hexp) as (_ & Hfields & Hr1 & Hr2).
  rewrite (pack_extended_to_float f b fp (lfmt_ok_spec f Hlo) Hfields Hbits). f_equal.
  (* the value relation *)
  destruct (parse_number_value_bracket b i fr e n V (parse_number_exact b i fr e V)) as [Hex Hmn].
  unfold unsaturated in Hsat.
  assert (Hden : forall q, 0 < dec_den q) by (intro q; unfold dec_den; destruct (0 <=? q) eqn:Eq; [lia|apply Z.leb_gt in Eq; apply Z.pow_pos_nonneg; lia]).
  assert (Hnum : forall w q, 0 <= w -> 0 <= dec_num w q).
  { intros w q Hw. unfold dec_num. destruct (0 <=? q) eqn:Eq; [|exact Hw].
    apply Z.mul_nonneg_nonneg; [exact Hw|apply Z.pow_nonneg; lia]. }
  pose proof (rne_bits_RN f Hbf _ _ _ (Hnum (nmant n) (nexp n) ltac:(lia)) (Hden (nexp n)) Hr1) as HR1.
  destruct (many n) eqn:Emany.
  - destruct (Hmn eq_refl) as (k & Hk1 & Hk & Hne & Hlo' & Hhi').
    assert (HX : nexp n = e - zlen fr + k).
    { rewrite Hne. apply clamp_i32_id. subst k.
      replace (Z.max 0 (zlen (strip0 (i ++ fr)) - 19)) with (zlen (strip0 (i ++ fr)) - 19) in Hsat by lia. lia. }
    destruct (Hr2 eq_refl) as [_ Hr2'].
    pose proof (rne_bits_RN f Hbf _ _ _ (Hnum (nmant n + 1) (nexp n) ltac:(lia)) (Hden (nexp n)) Hr2') as HR2.
    rewrite <- HX in Hlo', Hhi'.
    (* sandwich: RN at w*10^q and at (w+1)*10^q agree, RN is monotone *)
    assert (Hv0 : (0 <= dec_value i fr e)%Q) by (apply dec_value_nonneg; exact V).
    assert (Hw0 : (0 <= inject_Z (nmant n) * pow10Q (nexp n))%Q).
    { apply Qmult_le_0_compat; [change 0%Q with (inject_Z 0); rewrite <- Zle_Qle; lia|apply Qlt_le_weak, ParseFacts.pow10Q_pos]. }
    pose proof (RN_monotone f Hs _ _ Hw0 Hlo') as M1.
    pose proof (RN_monotone f Hs _ _ Hv0 (Qlt_le_weak _ _ Hhi')) as M2.
    rewrite (RN_Qeq f Hs _ _ Hw0 (dec_frac_Q (nmant n) (nexp n) ltac:(lia))) in M1.
    assert (Hw1 : (0 <= inject_Z (nmant n + 1) * pow10Q (nexp n))%Q).
    { apply Qmult_le_0_compat; [change 0%Q with (inject_Z 0); rewrite <- Zle_Qle; lia|apply Qlt_le_weak, ParseFacts.pow10Q_pos]. }
    rewrite (RN_Qeq f Hs _ _ Hw1 (dec_frac_Q (nmant n + 1) (nexp n) ltac:(lia))) in M2.
    rewrite HR1 in M1. rewrite HR2 in M2. lia.
  - destruct (Hex eq_refl) as [Hval0 Hne].
    assert (Hshort : many n = (19 <? zlen (strip0 (i ++ fr)))) by reflexivity.
    rewrite Emany in Hshort. symmetry in Hshort. apply Z.ltb_ge in Hshort.
    assert (HX : nexp n = e - zlen fr).
    { rewrite Hne. apply clamp_i32_id. replace (Z.max 0 (zlen (strip0 (i ++ fr)) - 19)) with 0 in Hsat by lia. lia. }
    rewrite <- HX in Hval0. rewrite <- HR1. symmetry.
    assert (Hv0 : (0 <= dec_value i fr e)%Q) by (apply dec_value_nonneg; exact V).
    rewrite (RN_Qeq f Hs _ _ Hv0 Hval0).
    apply (RN_Qeq f Hs); [|apply dec_frac_Q; lia].
    apply Qmult_le_0_compat; [change 0%Q with (inject_Z 0); rewrite <- Zle_Qle; lia|apply Qlt_le_weak, ParseFacts.pow10Q_pos].
Qed.
