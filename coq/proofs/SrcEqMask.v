(** * gen/Src.v = model: src/mask.rs (regenerated source, see SrcEqBase.v) *)
From Coq Require Import ZArith List Bool Lia Znumtheory.
From Coq Require Import ZifyBool.
From ML Require Import base.RustSem model.Fmt model.FloatOps model.Mask model.Num model.Number
  model.Rounding model.Lemire model.Bellerophon model.Slow gen.Consts gen.Tables gen.BTables.
From ML Require Import gen.Src.
From ML Require Import proofs.SrcEqBase.
Import ListNotations.
Ltac Zify.zify_post_hook ::= Z.div_mod_to_equations.
Open Scope Z_scope.
Open Scope rust_scope.
(** ** mask.rs *)
Theorem rs_nth_bit_eq : forall b n, rs_nth_bit b n = nth_bit b n.
Proof. intros. unfold rs_nth_bit, nth_bit. steps. Qed.
#[export] Hint Rewrite rs_nth_bit_eq : rs_eq.

Theorem rs_lower_n_mask_eq : forall b n, rs_lower_n_mask b n = lower_n_mask b n.
Proof.
  intros. unfold rs_lower_n_mask, lower_n_mask. step.
  destruct (n =? 64); steps.
Qed.
#[export] Hint Rewrite rs_lower_n_mask_eq : rs_eq.

Theorem rs_lower_n_halfway_eq : forall b n, rs_lower_n_halfway b n = lower_n_halfway b n.
Proof.
  intros. unfold rs_lower_n_halfway, lower_n_halfway. step.
  destruct (n =? 0); steps.
Qed.
#[export] Hint Rewrite rs_lower_n_halfway_eq : rs_eq.


Print Assumptions rs_nth_bit_eq.
Print Assumptions rs_lower_n_mask_eq.
Print Assumptions rs_lower_n_halfway_eq.
