(** * LemireFacts2: Eisel-Lemire, stage 1: 0 <= q <= 55 (exact table entries). *)
From Coq Require Import ZArith List Bool Lia Znumtheory Zpow_facts.
From Coq Require Import ZifyBool.
From ML Require Import base.RustSem model.Fmt model.Num model.Number model.Lemire
  gen.Consts gen.Tables spec.RneZ proofs.TableFacts proofs.LemireFacts0 proofs.LemireFacts1.
Import ListNotations.
Open Scope Z_scope.

Arguments Z.pow : simpl never.
Local Opaque Z.pow.

(** ** what the table check says for 0 <= q <= 55 *)
Lemma qcheck_exact q : 0 <= q <= 55 -> qX q = T128 q * qY q.
Proof.
  intros H. pose proof (qcheck_ok q ltac:(lia)) as C. unfold qcheck in C. cbv zeta in C.
  replace ((0 <=? q) && (q <=? 55)) with true in C by lia.
  apply andb_prop in C. destruct C as [C _]. lia.
Qed.

Lemma qcheck_low q : 0 <= q <= 27 -> Tlo q = 0 /\ Thi q mod 2 = 0.
Proof.
  intros H. pose proof (qcheck_ok q ltac:(lia)) as C. unfold qcheck in C. cbv zeta in C.
  replace ((0 <=? q) && (q <=? 27)) with true in C by lia.
  apply andb_prop in C. destruct C as [_ C]. lia.
Qed.

Lemma pw_nonneg_q q : 0 <= q -> 63 <= pw q.
Proof.
  intros H. unfold pw. rewrite p2_16.
  pose proof (Z.div_pos (217706 * q) 65536 ltac:(lia) ltac:(lia)). lia.
Qed.

Lemma rel_prime_5_2 : rel_prime 5 2.
Proof. apply Zgcd_1_rel_prime. reflexivity. Qed.

(** a power of five dividing [2^j * M] divides [M] *)
Lemma pow5_divides q j M : 0 <= q -> 0 <= j -> (5 ^ q | 2 ^ j * M) -> (5 ^ q | M).
Proof.
  intros Hq Hj H. apply (Gauss _ (2 ^ j)); [exact H|].
  apply rel_prime_Zpower; try lia. exact rel_prime_5_2.
Qed.

Lemma pow10_split q : 0 <= q -> 10 ^ q = 2 ^ q * 5 ^ q.
Proof. intros. change 10 with (2 * 5). apply Z.pow_mul_l. Qed.

Lemma p2d_pow e : exists j, 0 <= j /\ p2d e = 2 ^ j.
Proof.
  unfold p2d. destruct (0 <=? e) eqn:E.
  - exists 0. split; [lia|reflexivity].
  - exists (- e). split; [lia|reflexivity].
Qed.

Lemma facts_exact f q w lo hi : lfmt f -> 0 < w < 2 ^ 64 -> 0 <= q <= 55 ->
  0 <= lo < 2 ^ 64 -> 2 ^ 62 <= hi < 2 ^ 64 ->
  refined_pair (w * 2 ^ lz64 w) q lo hi \/
  unrefined_pair (w * 2 ^ lz64 w) q (61 - MANTISSA_SIZE f) lo hi ->
  facts_ok f q w lo hi.
Proof.
  intros L Hw Hq Hlo Hhi Hpair.
  pose proof (lz64_spec w Hw) as (Hlz & Hw').
  set (lz := lz64 w) in *. set (w' := w * 2 ^ lz) in *.
  pose proof (lfmt_emax f L) as (He1 & He2 & He3 & He4 & He5).
  pose proof (lf_ms f L) as HMS.
  pose proof (prod_floor f q w' lo hi L ltac:(lia) Hw' Hlo Hhi Hpair) as PF. cbv zeta in PF.
  pose proof (pair_facts f q w' lo hi L ltac:(lia) Hw' Hlo ltac:(lia) Hpair) as [_ PP]. cbv zeta in PP.
  pose proof (M_range f hi L Hhi) as MR. cbv zeta in MR.
  unfold facts_ok. cbv zeta. fold lz. fold w'.
  set (u := hi / 2 ^ 63) in *. set (sh := u + 61 - MANTISSA_SIZE f) in *.
  set (M := hi / 2 ^ sh) in *. set (G := 2 ^ (128 + sh)) in *.
  set (P := w' * T128 q) in *.
  destruct MR as (Hu & Hub & HM). destruct PF as [PF _].
  pose proof (qY_pos q) as HY.
  assert (HG : 0 < G) by (unfold G; apply pow2_pos; unfold sh; lia).
  assert (EA : w' * qX q = P * qY q).
  { rewrite qcheck_exact by lia. unfold P. ring. }
  rewrite EA.
  assert (ED : forall m, m * (G * qY q) = (m * G) * qY q) by (intros; ring).
  rewrite !ED.
  assert (Hsh : 0 <= sh) by (unfold sh; lia).
  pose proof (pow2_pos sh Hsh) as Hpsh.
  assert (EG : G = 2 ^ sh * (2 ^ 64 * 2 ^ 64)).
  { unfold G. rewrite Z.add_comm, pow2_add by lia. rewrite p2_128. reflexivity. }
  pose proof (Z.div_mod hi (2 ^ sh) ltac:(lia)) as Ehi. fold M in Ehi.
  pose proof (Z.mod_pos_bound hi (2 ^ sh) ltac:(lia)) as Bhi.
  split; [|split].
  - (* floor *)
    clear - PF HY. split; nia.
  - (* ties *)
    intros _. split.
    + intros Et. unfold cf_tie in Et. cbv zeta in Et. fold u in Et. fold sh in Et. fold M in Et.
      apply andb_prop in Et; destruct Et as [Et Ez]. apply andb_prop in Et; destruct Et as [Et Em4].
      apply andb_prop in Et; destruct Et as [Et Emax]. apply andb_prop in Et; destruct Et as [Elo Emin].
      pose proof (lf_maxrte f L) as Hmax.
      destruct (qcheck_low q ltac:(lia)) as [Hl0 Hh0].
      assert (EP : P = (w' * Thi q) * 2 ^ 64).
      { unfold P, T128. rewrite Hl0. ring. }
      assert (EH : hi * 2 ^ 64 + lo = w' * Thi q).
      { rewrite Hl0 in PP. clear - PP EP. destruct PP as [PR|[PU _]]; nia. }
      assert (Hlo0 : lo = 0).
      { pose proof (Z.div_mod (Thi q) 2 ltac:(lia)) as E2. rewrite Hh0 in E2.
        rewrite E2 in EH. set (z := w' * (Thi q / 2)).
        assert (hi * 2 ^ 64 + lo = 2 * z) by (unfold z; lia).
        rewrite p2_64 in *. lia. }
      f_equal. rewrite EP, <- EH, Hlo0, EG.
      assert (Ehi' : hi = 2 ^ sh * M) by lia. clear - Ehi'. nia.
    + intros EAD Hm4.
      assert (EPM : P = M * G).
      { clear - EAD HY. nia. }
      (* q is in the round-to-even window *)
      assert (Hwin : q <= MAX_EXPONENT_ROUND_TO_EVEN f).
      { destruct (Z_le_gt_dec q (MAX_EXPONENT_ROUND_TO_EVEN f)) as [|Hgt]; [assumption|exfalso].
        pose proof (lf_maxrte f L) as Hmax. pose proof (lf_maxrte5 f L) as Hmax5.
        assert (H5 : 5 ^ (MAX_EXPONENT_ROUND_TO_EVEN f + 1) <= 5 ^ q) by (apply Z.pow_le_mono_r; lia).
        assert (Hdiv : (5 ^ q | M)).
        { destruct (p2d_pow (qs q)) as (j & Hj & Ej).
          apply (pow5_divides q (128 + sh + j)); [lia|lia|].
          rewrite pow2_add by lia. fold G. rewrite <- Ej.
          replace (G * p2d (qs q) * M) with (M * G * qY q).
          2:{ unfold qY, tenD. replace (0 <=? q) with true by lia. ring. }
          rewrite <- EAD, <- EA. unfold qX, tenN. replace (0 <=? q) with true by lia.
          rewrite pow10_split by lia.
          exists (w' * 2 ^ q * p2n (qs q)). ring. }
        apply Z.divide_pos_le in Hdiv; lia. }
      destruct (qcheck_low q ltac:(pose proof (lf_maxrte f L); lia)) as [Hl0 Hh0].
      assert (EP : P = (w' * Thi q) * 2 ^ 64).
      { unfold P, T128. rewrite Hl0. ring. }
      assert (EH : hi * 2 ^ 64 + lo = w' * Thi q).
      { rewrite Hl0 in PP. clear - PP EP. destruct PP as [PR|[PU _]]; nia. }
      assert (Ez : hi mod 2 ^ sh * 2 ^ 64 + lo = 0).
      { rewrite EP, <- EH, EG in EPM.
        assert ((hi * 2 ^ 64 + lo) = M * 2 ^ sh * 2 ^ 64) by (clear - EPM; nia).
        rewrite Ehi in H at 1. clear - H. nia. }
      unfold cf_tie. cbv zeta. fold u. fold sh. fold M.
      pose proof (lf_minrte f L) as Hmin.
      assert (lo = 0 /\ hi mod 2 ^ sh = 0) by (clear - Ez Bhi Hlo; nia).
      lia.
  - (* no subnormal results for q >= 0 *)
    intros Hp. exfalso. pose proof (pw_nonneg_q q ltac:(lia)).
    pose proof (lf_minexp_lt f L). lia.
Qed.

(** ** Stage 1 *)
Theorem compute_float_sound_exact f b q w : lfmt_ok f = true ->
  0 <= w < 2 ^ 64 -> 0 <= q <= 55 -> cf_sound f b q w.
Proof.
  intros Lok Hw Hq. pose proof (lfmt_ok_spec f Lok) as L.
  pose proof (lf_sp10 f L) as Hsp.
  destruct (Z.eq_dec w 0) as [->|Hw0].
  - exists fp_zero. split.
    + unfold compute_float. reflexivity.
    + intros _. split.
      * unfold fields_ok, fp_zero. cbn [mant exp]. pose proof (lf_inf f L). pose proof (lf_ew f L).
        pose proof (pow2_pos (ewidth f) ltac:(lia)). pose proof (pow2_pos (MANTISSA_SIZE f) ltac:(pose proof (lf_ms f L); lia)).
        lia.
      * rewrite pack_zero. apply rne_zero_value.
  - destruct (Z_lt_le_dec (LARGEST_POWER_OF_TEN f) q) as [Hbig|Hin].
    + exists (fp_inf f). split.
      * unfold compute_float.
        replace ((w =? 0) || (q <? SMALLEST_POWER_OF_TEN f)) with false by lia.
        replace (LARGEST_POWER_OF_TEN f <? q) with true by lia. reflexivity.
      * intros _. split.
        { unfold fields_ok, fp_inf. cbn [mant exp]. pose proof (lf_inf f L). pose proof (lf_ew f L).
          pose proof (pow2_pos (ewidth f) ltac:(lia)). pose proof (pow2_pos (MANTISSA_SIZE f) ltac:(pose proof (lf_ms f L); lia)).
          lia. }
        rewrite pack_inf by assumption. apply rne_overflow; [assumption|lia|assumption].
    + apply cf_driver; [assumption|lia|lia|].
      intros lo hi Hlo Hhi Hpair _. apply facts_exact; try assumption; lia.
Qed.

(** examples: the tie 2^53 + 1 (rounds to even, down), 2^53 + 3 (rounds up), an inexact product,
    overflow to infinity in the f32 table range *)
Example ex_tie_down : compute_float TABLES F64 release_build 0 9007199254740993 = Ok (mkExt 0 1076).
Proof. vm_compute. reflexivity. Qed.
Example ex_tie_up : compute_float TABLES F64 checked_build 0 9007199254740995 = Ok (mkExt 2 1076).
Proof. vm_compute. reflexivity. Qed.
Example ex_q23 : compute_float TABLES F64 checked_build 23 9007199254740993 = Ok (mkExt 1456864850168567 1152).
Proof. vm_compute. reflexivity. Qed.
Example ex_f32_tie : compute_float TABLES F32 checked_build 10 16777217 = Ok (mkExt 1377018 184).
Proof. vm_compute. reflexivity. Qed.
Example ex_f32_inf : compute_float TABLES F32 checked_build 38 4 = Ok (mkExt 0 255).
Proof. vm_compute. reflexivity. Qed.
(** the hypotheses of the stage-1 theorem are satisfiable *)
Example ex_stage1_hyps : lfmt_ok F64 = true /\ 0 <= 9007199254740993 < 2 ^ 64 /\ 0 <= 0 <= 55.
Proof. split; [exact lfmt_ok_F64|]. split; [split; [lia|reflexivity]|lia]. Qed.

Print Assumptions compute_float_sound_exact.
