(** * LemireFacts1: Eisel-Lemire, the generic rounding argument.
    [cf_run]: [compute_float] never panics and equals an explicit arithmetic expression [cf_main]
    (or the declined estimate).  [cf_main_sound]: under the "floor" and "tie" facts about the
    128-bit product, [cf_main] is the correctly rounded value. *)
From Coq Require Import ZArith List Bool Lia Znumtheory.
From Coq Require Import ZifyBool.
From ML Require Import base.RustSem model.Fmt model.Num model.Number model.Lemire
  gen.Consts gen.Tables spec.RneZ proofs.TableFacts proofs.LemireFacts0.
Import ListNotations.
Open Scope Z_scope.

Arguments Z.pow : simpl never.
Local Opaque Z.pow.

(** ** small arithmetic lemmas *)
Lemma even_mod2 r : r mod 2 = 0 -> Z.even r = true.
Proof.
  intros H. apply Z.even_spec. exists (r / 2).
  pose proof (Z.div_mod r 2 ltac:(lia)). lia.
Qed.

Lemma ne_transfer N Dn A D2 m : 0 < Dn -> 0 < D2 -> N * D2 = A * Dn ->
  2 * Z.abs (A - m * D2) <= D2 /\ (2 * Z.abs (A - m * D2) = D2 -> Z.even m = true) ->
  2 * Z.abs (N - m * Dn) <= Dn /\ (2 * Z.abs (N - m * Dn) = Dn -> Z.even m = true).
Proof.
  intros HDn HD2 Heq [H1 H2].
  assert (K : Z.abs (N - m * Dn) * D2 = Z.abs (A - m * D2) * Dn).
  { transitivity (Z.abs ((N - m * Dn) * D2)).
    { rewrite Z.abs_mul, (Z.abs_eq D2) by lia. reflexivity. }
    transitivity (Z.abs ((A - m * D2) * Dn)).
    { f_equal. nia. }
    rewrite Z.abs_mul, (Z.abs_eq Dn) by lia. reflexivity. }
  pose proof (Z.abs_nonneg (N - m * Dn)). pose proof (Z.abs_nonneg (A - m * D2)).
  split.
  - nia.
  - intros E. apply H2. nia.
Qed.

(** round-half-up on the last bit, with the tie correction *)
Lemma half_round A Dh m (tie : bool) : 0 < Dh -> 0 <= m -> m * Dh <= A < (m + 1) * Dh ->
  (tie = true -> A = m * Dh /\ m mod 4 = 1) ->
  (A = m * Dh -> m mod 2 = 1 -> tie = true \/ m mod 4 = 3) ->
  let m' := if tie then m - 1 else m in
  let r := (m' + m' mod 2) / 2 in
  (2 * Z.abs (A - r * (2 * Dh)) <= 2 * Dh /\
   (2 * Z.abs (A - r * (2 * Dh)) = 2 * Dh -> Z.even r = true)) /\
  m - 1 <= 2 * r <= m + 1.
Proof.
  intros HD Hm HA Ht1 Ht2.
  destruct tie; cbv zeta iota beta.
  - destruct (Ht1 eq_refl) as [EA Em]. clear Ht1 Ht2.
    set (r := (m - 1 + (m - 1) mod 2) / 2).
    assert (Er : 2 * r = m - 1).
    { unfold r. clear - Em. Z.div_mod_to_equations. lia. }
    assert (Er2 : r mod 2 = 0).
    { unfold r. clear - Em. Z.div_mod_to_equations. lia. }
    assert (EP : r * (2 * Dh) = m * Dh - Dh) by nia.
    rewrite EP. replace (A - (m * Dh - Dh)) with Dh by lia. rewrite Z.abs_eq by lia.
    split; [split; [lia|]|lia]. intros _. apply even_mod2. exact Er2.
  - clear Ht1. set (r := (m + m mod 2) / 2).
    destruct (Z.eq_dec (m mod 2) 0) as [E0|E1].
    + assert (Er : 2 * r = m). { unfold r. clear - E0. Z.div_mod_to_equations. lia. }
      assert (EP : r * (2 * Dh) = m * Dh) by nia. rewrite EP.
      rewrite Z.abs_eq by lia. split; [split; [lia|]|lia]. intros E. exfalso. lia.
    + assert (E1' : m mod 2 = 1) by (clear - E1; Z.div_mod_to_equations; lia).
      assert (Er : 2 * r = m + 1). { unfold r. clear - E1'. Z.div_mod_to_equations. lia. }
      assert (EP : r * (2 * Dh) = m * Dh + Dh) by nia. rewrite EP.
      rewrite Z.abs_neq by lia. split; [split; [lia|]|lia]. intros E.
      assert (EA : A = m * Dh) by lia.
      destruct (Ht2 EA E1') as [?|E3]; [discriminate|].
      apply even_mod2. unfold r. clear - E3. Z.div_mod_to_equations. lia.
Qed.

(** from a bound on the scaled fraction back to a bound on the value *)
Lemma sc_lt n d E a c : 0 < d -> 0 <= n -> 0 <= a -> 0 <= c -> a + E <= c ->
  sc_num n E < 2 ^ a * sc_den d E -> n < 2 ^ c * d.
Proof.
  intros Hd Hn Ha Hc Hac H. unfold sc_num, sc_den in H.
  pose proof (pow2_pos a Ha). pose proof (pow2_pos c Hc).
  destruct (0 <=? E) eqn:EE.
  - assert (2 ^ a * 2 ^ E <= 2 ^ c) by (rewrite <- pow2_add by lia; apply pow2_le; lia). nia.
  - pose proof (pow2_pos (- E) ltac:(lia)).
    destruct (Z_le_gt_dec 0 (a + E)).
    + assert (2 ^ a = 2 ^ (a + E) * 2 ^ (- E)) by (rewrite <- pow2_add by lia; f_equal; lia).
      assert (2 ^ (a + E) <= 2 ^ c) by (apply pow2_le; lia).
      pose proof (pow2_pos (a + E) ltac:(lia)). nia.
    + assert (2 ^ (- E) = 2 ^ a * 2 ^ (- E - a)) by (rewrite <- pow2_add by lia; f_equal; lia).
      pose proof (pow2_pos (- E - a) ltac:(lia)).
      assert (n * 2 ^ (- E - a) < d) by nia. nia.
Qed.

Lemma sc_ge n d E a c : 0 < d -> 0 <= n -> 0 <= a -> 0 <= c -> c <= a + E ->
  2 ^ a * sc_den d E <= sc_num n E -> 2 ^ c * d <= n.
Proof.
  intros Hd Hn Ha Hc Hac H. unfold sc_num, sc_den in H.
  pose proof (pow2_pos a Ha). pose proof (pow2_pos c Hc).
  destruct (0 <=? E) eqn:EE.
  - assert (2 ^ c <= 2 ^ a * 2 ^ E) by (rewrite <- pow2_add by lia; apply pow2_le; lia). nia.
  - pose proof (pow2_pos (- E) ltac:(lia)).
    assert (2 ^ a = 2 ^ (a + E) * 2 ^ (- E)) by (rewrite <- pow2_add by lia; f_equal; lia).
    assert (2 ^ c <= 2 ^ (a + E)) by (apply pow2_le; lia).
    pose proof (pow2_pos (a + E) ltac:(lia)). nia.
Qed.

Lemma sc_den_pos d E : 0 < d -> 0 < sc_den d E.
Proof. intros. rewrite sc_den_eq. pose proof (p2n_pos E). nia. Qed.

Lemma lor_add a c k : 0 <= k -> 0 <= a < 2 ^ k -> Z.lor a (c * 2 ^ k) = a + c * 2 ^ k.
Proof.
  intros Hk Ha.
  assert (L : Z.land a (c * 2 ^ k) = 0).
  { apply Z.bits_inj'. intros n Hn. rewrite Z.land_spec, Z.bits_0.
    destruct (Z.ltb_spec n k).
    - rewrite Z.mul_pow2_bits_low by lia. apply andb_false_r.
    - replace a with (a mod 2 ^ k) by (apply Z.mod_small; lia).
      rewrite Z.mod_pow2_bits_high by lia. reflexivity. }
  rewrite <- Z.lxor_lor by exact L. symmetry. apply Z.add_nocarry_lxor. exact L.
Qed.

(** ** [compute_float] as an arithmetic expression *)
Definition cf_main (f : format) (q lz lo hi : Z) : extfloat :=
  let MS := MANTISSA_SIZE f in
  let u := hi / 2 ^ 63 in
  let sh := u + 61 - MS in
  let M := hi / 2 ^ sh in
  let power2 := pw q + u - lz - MINIMUM_EXPONENT f in
  if power2 <=? 0 then
    if 64 <=? 1 - power2 then fp_zero
    else let m1 := M / 2 ^ (1 - power2) in
         let m3 := (m1 + m1 mod 2) / 2 in
         mkExt m3 (if 2 ^ MS <=? m3 then 1 else 0)
  else
    let tie := (lo <=? 1) && (MIN_EXPONENT_ROUND_TO_EVEN f <=? q) && (q <=? MAX_EXPONENT_ROUND_TO_EVEN f)
               && (M mod 4 =? 1) && (hi mod 2 ^ sh =? 0) in
    let M1 := if tie then M - 1 else M in
    let m3 := (M1 + M1 mod 2) / 2 in
    let c := 2 * 2 ^ MS <=? m3 in
    let m4 := if c then 2 ^ MS else m3 in
    let p2' := if c then power2 + 1 else power2 in
    if INFINITE_POWER f <=? p2' then fp_inf f else mkExt (m4 - 2 ^ MS) p2'.

Lemma M_range f hi : lfmt f -> 2 ^ 62 <= hi < 2 ^ 64 ->
  let u := hi / 2 ^ 63 in
  let sh := u + 61 - MANTISSA_SIZE f in
  0 <= u <= 1 /\ 2 ^ (62 + u) <= hi < 2 ^ (63 + u) /\
  2 ^ (MANTISSA_SIZE f + 1) <= hi / 2 ^ sh < 2 ^ (MANTISSA_SIZE f + 2).
Proof.
  intros L Hhi u sh. destruct L.
  assert (Hu : 0 <= u <= 1 /\ 2 ^ (62 + u) <= hi < 2 ^ (63 + u)).
  { unfold u. destruct (Z_lt_le_dec hi (2 ^ 63)).
    - rewrite Z.div_small by (change (2 ^ 62) with 4611686018427387904 in *; lia).
      change (62 + 0) with 62. change (63 + 0) with 63. lia.
    - replace (hi / 2 ^ 63) with 1.
      + change (62 + 1) with 63. change (63 + 1) with 64. lia.
      + apply (Z.div_unique_pos _ _ _ (hi - 2 ^ 63)).
        * rewrite p2_63, p2_64 in *. lia.
        * lia. }
  destruct Hu as [Hu Hb]. split; [exact Hu|]. split; [exact Hb|].
  assert (Hsh : 0 <= sh) by (unfold sh; lia).
  pose proof (pow2_pos sh Hsh).
  assert (E1 : 2 ^ (62 + u) = 2 ^ sh * 2 ^ (MANTISSA_SIZE f + 1)).
  { rewrite <- pow2_add by lia. f_equal. unfold sh. lia. }
  assert (E2 : 2 ^ (63 + u) = 2 ^ sh * 2 ^ (MANTISSA_SIZE f + 2)).
  { rewrite <- pow2_add by lia. f_equal. unfold sh. lia. }
  split.
  - apply Z.div_le_lower_bound; lia.
  - apply Z.div_lt_upper_bound; lia.
Qed.

Lemma cf_run f b q w lo hi : lfmt f -> 0 < w < 2 ^ 64 ->
  SMALLEST_POWER_OF_TEN f <= q <= LARGEST_POWER_OF_TEN f ->
  compute_product_approx TABLES b q (w * 2 ^ lz64 w) (MANTISSA_SIZE f + 3) = Ok (lo, hi) ->
  0 <= lo < 2 ^ 64 -> 2 ^ 62 <= hi < 2 ^ 64 ->
  compute_float TABLES f b q w =
  if (lo =? u64_max) && negb ((-27 <=? q) && (q <=? 55))
  then compute_error_scaled f b q hi (lz64 w)
  else Ok (cf_main f q (lz64 w) lo hi).
Proof.
  intros L Hw Hq Hcpa Hlo Hhi.
  pose proof (lfmt_emax f L) as (He1 & He2 & He3 & He4 & He5).
  pose proof (M_range f hi L Hhi) as MR. cbv zeta in MR. destruct MR as (Hu & Hub & HM).
  pose proof (lz64_spec w Hw) as (Hlz & Hw').
  destruct L.
  pose proof (pw_bounds q ltac:(lia)) as Hpw.
  unfold compute_float.
  replace ((w =? 0) || (q <? SMALLEST_POWER_OF_TEN f)) with false by lia.
  replace (LARGEST_POWER_OF_TEN f <? q) with false by lia.
  rewrite shl64_ok by lia. rewrite Z.mod_small by lia. cbn [bind].
  rewrite Hcpa. cbn [bind].
  destruct ((lo =? u64_max) && negb ((-27 <=? q) && (q <=? 55))); [reflexivity|].
  unfold cf_main. cbv zeta.
  set (u := hi / 2 ^ 63) in *.
  replace (u + 64 - MANTISSA_SIZE f - 3) with (u + 61 - MANTISSA_SIZE f) by lia.
  set (sh := u + 61 - MANTISSA_SIZE f) in *.
  set (M := hi / 2 ^ sh) in *.
  assert (Hsh : 0 <= sh < 64) by (unfold sh; lia).
  rewrite shr64_ok by lia. cbn [bind]. fold M.
  rewrite power_ok by lia. cbn [bind].
  unfold i32_add, i32_sub, i32_neg.
  rewrite !sop32_ok by lia. cbn [bind].
  rewrite !sop32_ok by lia. cbn [bind].
  rewrite !sop32_ok by lia. cbn [bind].
  set (power2 := pw q + u - lz64 w - MINIMUM_EXPONENT f) in *.
  assert (HMS : 0 < 2 ^ MANTISSA_SIZE f) by (apply pow2_pos; lia).
  assert (HM2 : 2 ^ (MANTISSA_SIZE f + 2) = 4 * 2 ^ MANTISSA_SIZE f).
  { rewrite pow2_add by lia. change (2 ^ 2) with 4. lia. }
  assert (HM1 : 2 ^ (MANTISSA_SIZE f + 1) = 2 * 2 ^ MANTISSA_SIZE f).
  { rewrite pow2_add by lia. change (2 ^ 1) with 2. lia. }
  assert (HM64 : 4 * 2 ^ MANTISSA_SIZE f <= 2 ^ 62).
  { rewrite <- HM2. apply pow2_le. lia. }
  change (2 ^ 62) with 4611686018427387904 in HM64.
  destruct (power2 <=? 0) eqn:Ep.
  - rewrite !sop32_ok by lia. cbn [bind].
    rewrite !sop32_ok by lia. cbn [bind].
    replace (- power2 + 1) with (1 - power2) by lia.
    destruct (64 <=? 1 - power2) eqn:E64; [reflexivity|].
    rewrite shr64_ok by lia. cbn [bind].
    set (m1 := M / 2 ^ (1 - power2)).
    assert (Hm1 : 0 <= m1 <= M).
    { unfold m1. split.
      - apply Z.div_pos; [lia|apply pow2_pos; lia].
      - apply Z.div_le_upper_bound; [apply pow2_pos; lia|].
        pose proof (pow2_pos (1 - power2) ltac:(lia)). nia. }
    rewrite land_1. unfold u64_add.
    pose proof (Z.mod_pos_bound m1 2 ltac:(lia)).
    rewrite uop64_ok by (rewrite p2_64; lia). cbn [bind]. reflexivity.
  - assert (HMhi : M * 2 ^ sh <= hi).
    { unfold M. pose proof (Z.mul_div_le hi (2 ^ sh) ltac:(apply pow2_pos; lia)). lia. }
    pose proof (pow2_pos sh ltac:(lia)) as Hpsh.
    rewrite shl64_ok by lia. rewrite (Z.mod_small (M * 2 ^ sh)) by nia. cbn [bind].
    rewrite land_3.
    assert (Eback : (M * 2 ^ sh =? hi) = (hi mod 2 ^ sh =? 0)).
    { pose proof (Z.div_mod hi (2 ^ sh) ltac:(lia)). fold M in H.
      destruct (M * 2 ^ sh =? hi) eqn:E1; destruct (hi mod 2 ^ sh =? 0) eqn:E2; lia. }
    rewrite Eback.
    set (tie := (lo <=? 1) && (MIN_EXPONENT_ROUND_TO_EVEN f <=? q) && (q <=? MAX_EXPONENT_ROUND_TO_EVEN f)
               && (M mod 4 =? 1) && (hi mod 2 ^ sh =? 0)).
    assert (EM1 : (if tie then Z.land M (u64_not 1) else M) = (if tie then M - 1 else M)).
    { destruct tie eqn:Et; [|reflexivity].
      apply clear_bit0; [rewrite p2_64; lia|].
      unfold tie in Et. repeat (apply andb_prop in Et; destruct Et as [Et ?]).
      assert (M mod 4 = 1) by lia. Z.div_mod_to_equations. lia. }
    rewrite EM1.
    set (M1 := if tie then M - 1 else M).
    assert (HM1r : M - 1 <= M1 <= M) by (unfold M1; destruct tie; lia).
    rewrite land_1. unfold u64_add.
    pose proof (Z.mod_pos_bound M1 2 ltac:(lia)).
    rewrite uop64_ok by (rewrite p2_64; lia). cbn [bind].
    set (m3 := (M1 + M1 mod 2) / 2).
    assert (Hm3 : 2 ^ MANTISSA_SIZE f <= m3 <= 2 * 2 ^ MANTISSA_SIZE f).
    { unfold m3. Z.div_mod_to_equations. lia. }
    destruct (2 * 2 ^ MANTISSA_SIZE f <=? m3) eqn:Ec.
    + rewrite sop32_ok by lia. cbn [bind].
      destruct (INFINITE_POWER f <=? power2 + 1); [reflexivity|].
      rewrite clear_bit; try lia.
      * reflexivity.
      * rewrite Z.div_same by lia. reflexivity.
    + cbn [bind].
      destruct (INFINITE_POWER f <=? power2); [reflexivity|].
      rewrite clear_bit; try lia.
      * reflexivity.
      * replace (m3 / 2 ^ MANTISSA_SIZE f) with 1; [reflexivity|].
        apply (Z.div_unique_pos _ _ _ (m3 - 2 ^ MANTISSA_SIZE f)); lia.
Qed.

(** ** the declined estimate never panics and has a negative exponent *)
Lemma ces_ok f b q hi lz : lfmt f -> -342 <= q <= 308 -> 0 <= hi < 2 ^ 64 -> 0 <= lz <= 63 ->
  exists fp, compute_error_scaled f b q hi lz = Ok fp /\ exp fp < 0.
Proof.
  intros L Hq Hhi Hlz. destruct L.
  pose proof (pw_bounds q ltac:(lia)) as Hpw.
  unfold compute_error_scaled.
  assert (Hu : hi / 2 ^ 63 = 0 \/ hi / 2 ^ 63 = 1).
  { rewrite p2_63, p2_64 in *. Z.div_mod_to_equations. lia. }
  assert (Hx : 0 <= Z.lxor (hi / 2 ^ 63) 1 <= 1).
  { destruct Hu as [-> | ->]; cbn; lia. }
  rewrite shl64_ok by lia. cbn [bind].
  rewrite power_ok by lia. cbn [bind].
  unfold i32_add, i32_sub.
  rewrite !sop32_ok by lia. cbn [bind].
  rewrite !sop32_ok by lia. cbn [bind].
  rewrite !sop32_ok by lia. cbn [bind].
  rewrite !sop32_ok by lia. cbn [bind].
  rewrite !sop32_ok by lia. cbn [bind].
  eexists. split; [reflexivity|]. cbn [exp]. lia.
Qed.

(** ** packaging a rounded significand into the result word *)
Definition fields_ok (f : format) (fp : extfloat) : Prop :=
  0 <= exp fp <= INFINITE_POWER f /\
  (0 <= mant fp < 2 ^ MANTISSA_SIZE f \/ (mant fp = 2 ^ MANTISSA_SIZE f /\ exp fp = 1)).

Lemma rne_finish f n d E m3 : lfmt f -> 0 < n -> 0 < d -> femin f <= E ->
  2 ^ MANTISSA_SIZE f * sc_den d E <= sc_num n E ->
  sc_num n E < 2 ^ (MANTISSA_SIZE f + 1) * sc_den d E ->
  nearest_even n d m3 E ->
  2 ^ MANTISSA_SIZE f <= m3 <= 2 * 2 ^ MANTISSA_SIZE f ->
  let e := E - femin f + 1 in
  let c := 2 * 2 ^ MANTISSA_SIZE f <=? m3 in
  let m4 := if c then 2 ^ MANTISSA_SIZE f else m3 in
  let p2' := if c then e + 1 else e in
  let fp := if INFINITE_POWER f <=? p2' then fp_inf f else mkExt (m4 - 2 ^ MANTISSA_SIZE f) p2' in
  fields_ok f fp /\ rne_bits f n d (pack f fp).
Proof.
  intros L Hn Hd HE Hlow Hupp Hne Hm3 e c m4 p2' fp.
  pose proof (lfmt_emax f L) as (He1 & He2 & He3 & He4 & He5).
  pose proof (lf_ms f L) as HMS.
  assert (HP : 0 < 2 ^ MANTISSA_SIZE f) by (apply pow2_pos; lia).
  assert (He : 1 <= e) by (unfold e; lia).
  assert (Hp2 : e <= p2' <= e + 1) by (unfold p2'; destruct c; lia).
  unfold fp. destruct (INFINITE_POWER f <=? p2') eqn:Einf.
  - split.
    + unfold fields_ok, fp_inf. cbn [mant exp]. lia.
    + rewrite pack_inf by assumption.
      destruct (Z_lt_le_dec n (2 ^ emax f * d)) as [Hlt|Hge].
      * right; right. split; [lia|]. split; [exact Hlt|].
        exists m3, E. split; [|split; [exact Hne|]].
        { unfold canon_exp. unfold prec. replace (MANTISSA_SIZE f + 1 - 1) with (MANTISSA_SIZE f) by lia.
          split; [exact HE|]. split; [exact Hupp|]. right. exact Hlow. }
        assert (Hee : e < INFINITE_POWER f).
        { destruct (Z_lt_le_dec e (INFINITE_POWER f)) as [|Hc]; [assumption|exfalso].
          assert (Hc' : emax f <= MANTISSA_SIZE f + E) by (unfold e in Hc; lia).
          assert (Hn0 : 0 <= n) by lia. assert (Hm0 : 0 <= MANTISSA_SIZE f) by lia.
          assert (He0 : 0 <= emax f) by lia.
          pose proof (sc_ge n d E (MANTISSA_SIZE f) (emax f) Hd Hn0 Hm0 He0 Hc' Hlow). lia. }
        assert (Hc : c = true).
        { unfold p2' in Einf. destruct c; [reflexivity|lia]. }
        unfold p2' in Einf. rewrite Hc in Einf. unfold c in Hc.
        assert (m3 = 2 * 2 ^ MANTISSA_SIZE f) by lia.
        unfold inf_bits, encode. replace (m3 <? 2 ^ MANTISSA_SIZE f) with false by lia.
        fold e. rewrite <- (lf_inf f L). nia.
      * right; left. split; [lia|]. split; [exact Hge|reflexivity].
  - assert (Hlt : n < 2 ^ emax f * d).
    { apply (sc_lt n d E (MANTISSA_SIZE f + 1) (emax f)); try lia; unfold e in *; lia. }
    assert (Hm4 : 0 <= m4 - 2 ^ MANTISSA_SIZE f < 2 ^ MANTISSA_SIZE f).
    { unfold m4, c. destruct (2 * 2 ^ MANTISSA_SIZE f <=? m3) eqn:Ec; lia. }
    split.
    + unfold fields_ok. cbn [mant exp]. lia.
    + right; right. split; [lia|]. split; [exact Hlt|].
      exists m3, E. split; [|split; [exact Hne|]].
      { unfold canon_exp. unfold prec. replace (MANTISSA_SIZE f + 1 - 1) with (MANTISSA_SIZE f) by lia.
        split; [exact HE|]. split; [exact Hupp|]. right. exact Hlow. }
      unfold pack. cbn [mant exp]. rewrite lor_add by lia.
      unfold encode. replace (m3 <? 2 ^ MANTISSA_SIZE f) with false by lia. fold e.
      unfold m4, p2', c. destruct (2 * 2 ^ MANTISSA_SIZE f <=? m3) eqn:Ec; nia.
Qed.

Lemma rne_finish_sub f n d m3 : lfmt f -> 0 < n -> 0 < d ->
  sc_num n (femin f) < 2 ^ MANTISSA_SIZE f * sc_den d (femin f) ->
  nearest_even n d m3 (femin f) ->
  0 <= m3 <= 2 ^ MANTISSA_SIZE f ->
  let fp := mkExt m3 (if 2 ^ MANTISSA_SIZE f <=? m3 then 1 else 0) in
  fields_ok f fp /\ rne_bits f n d (pack f fp).
Proof.
  intros L Hn Hd Hupp Hne Hm3 fp.
  pose proof (lfmt_emax f L) as (He1 & He2 & He3 & He4 & He5).
  pose proof (lf_ms f L) as HMS.
  assert (HP : 0 < 2 ^ MANTISSA_SIZE f) by (apply pow2_pos; lia).
  assert (Hlt : n < 2 ^ emax f * d).
  { apply (sc_lt n d (femin f) (MANTISSA_SIZE f) (emax f)); try lia. }
  pose proof (sc_den_pos d (femin f) Hd) as HDn.
  split.
  - unfold fields_ok, fp. cbn [mant exp].
    destruct (2 ^ MANTISSA_SIZE f <=? m3) eqn:E; lia.
  - right; right. split; [lia|]. split; [exact Hlt|].
    exists m3, (femin f). split; [|split; [exact Hne|]].
    { unfold canon_exp. split; [lia|]. split; [|left; reflexivity].
      unfold prec. rewrite pow2_S by lia. nia. }
    unfold pack, fp, encode. cbn [mant exp].
    destruct (2 ^ MANTISSA_SIZE f <=? m3) eqn:E.
    + assert (m3 = 2 ^ MANTISSA_SIZE f) by lia. subst m3.
      rewrite Z.mul_1_l, Z.lor_diag. replace (2 ^ MANTISSA_SIZE f <? 2 ^ MANTISSA_SIZE f) with false by lia.
      lia.
    + rewrite Z.mul_0_l, Z.lor_0_r. replace (m3 <? 2 ^ MANTISSA_SIZE f) with true by lia. reflexivity.
Qed.


(** ** soundness of [cf_main] from the floor / tie facts *)
Definition cf_tie (f : format) (q lo hi : Z) : bool :=
  let u := hi / 2 ^ 63 in
  let sh := u + 61 - MANTISSA_SIZE f in
  let M := hi / 2 ^ sh in
  (lo <=? 1) && (MIN_EXPONENT_ROUND_TO_EVEN f <=? q) && (q <=? MAX_EXPONENT_ROUND_TO_EVEN f)
  && (M mod 4 =? 1) && (hi mod 2 ^ sh =? 0).

Theorem cf_main_sound f q w lo hi : lfmt f -> 0 < w < 2 ^ 64 ->
  SMALLEST_POWER_OF_TEN f <= q <= LARGEST_POWER_OF_TEN f -> 2 ^ 62 <= hi < 2 ^ 64 ->
  let lz := lz64 w in
  let u := hi / 2 ^ 63 in
  let sh := u + 61 - MANTISSA_SIZE f in
  let M := hi / 2 ^ sh in
  let power2 := pw q + u - lz - MINIMUM_EXPONENT f in
  let A := w * 2 ^ lz * qX q in
  let D := 2 ^ (128 + sh) * qY q in
  M * D <= A < (M + 1) * D ->
  (0 < power2 -> (cf_tie f q lo hi = true -> A = M * D) /\
                 (A = M * D -> M mod 4 = 1 -> cf_tie f q lo hi = true)) ->
  (power2 <= 0 -> forall j, A <> (2 * j + 1) * (D * 2 ^ (1 - power2))) ->
  fields_ok f (cf_main f q lz lo hi) /\
  rne_bits f (dec_num w q) (dec_den q) (pack f (cf_main f q lz lo hi)).
Proof.
  intros L Hw Hq Hhi lz u sh M power2 A D F1 Ftie Fsub.
  pose proof (lfmt_emax f L) as (He1 & He2 & He3 & He4 & He5).
  pose proof (M_range f hi L Hhi) as MR. cbv zeta in MR. fold u in MR. fold sh in MR. fold M in MR.
  destruct MR as (Hu & Hub & HM).
  pose proof (lz64_spec w Hw) as (Hlz & Hw'). fold lz in Hlz, Hw'.
  pose proof (lf_ms f L) as HMS. pose proof (lf_sp10 f L) as Hsp. pose proof (lf_lp10 f L) as Hlp.
  pose proof (pw_bounds q ltac:(lia)) as Hpw.
  assert (HP : 0 < 2 ^ MANTISSA_SIZE f) by (apply pow2_pos; lia).
  assert (HM2 : 2 ^ (MANTISSA_SIZE f + 2) = 4 * 2 ^ MANTISSA_SIZE f).
  { rewrite pow2_add by lia. change (2 ^ 2) with 4. lia. }
  assert (HM1 : 2 ^ (MANTISSA_SIZE f + 1) = 2 * 2 ^ MANTISSA_SIZE f).
  { rewrite pow2_add by lia. change (2 ^ 1) with 2. lia. }
  assert (Hsh : 0 <= sh) by (unfold sh; lia).
  pose proof (qY_pos q) as HY. pose proof (qX_pos q) as HX.
  assert (HG : 0 < 2 ^ (128 + sh)) by (apply pow2_pos; lia).
  assert (HD : 0 < D) by (unfold D; apply Z.mul_pos_pos; lia).
  assert (Hn : 0 < dec_num w q).
  { rewrite dec_num_eq. pose proof (tenN_pos q). apply Z.mul_pos_pos; lia. }
  assert (Hd : 0 < dec_den q).
  { rewrite dec_den_eq. apply tenD_pos. }
  unfold cf_main. cbv zeta. fold u. fold sh. fold M. fold lz. fold power2.
  destruct (power2 <=? 0) eqn:Ep.
  - (* subnormal *)
    assert (Hnp : 1 <= 1 - power2) by lia.
    set (np1 := 1 - power2) in *.
    pose proof (pow2_pos np1 ltac:(lia)) as Hpn.
    set (Dh := D * 2 ^ np1).
    assert (HDh : 0 < Dh) by (unfold Dh; apply Z.mul_pos_pos; lia).
    set (m1 := M / 2 ^ np1).
    assert (Hm1 : m1 * 2 ^ np1 <= M < (m1 + 1) * 2 ^ np1).
    { unfold m1. pose proof (Z.div_mod M (2 ^ np1) ltac:(lia)).
      pose proof (Z.mod_pos_bound M (2 ^ np1) ltac:(lia)). clear - H H0. nia. }
    assert (Hm1' : 0 <= m1 < 2 * 2 ^ MANTISSA_SIZE f).
    { split.
      - unfold m1. apply Z.div_pos; lia.
      - unfold m1. apply Z.div_lt_upper_bound; [lia|].
        assert (2 ^ 1 <= 2 ^ np1) by (apply pow2_le; lia). change (2 ^ 1) with 2 in *.
        clear - H HM HM2 HP. nia. }
    assert (HA1 : m1 * Dh <= A < (m1 + 1) * Dh).
    { unfold Dh. clear - Hm1 F1 HD Hpn. split; nia. }
    pose proof (half_round A Dh m1 false HDh ltac:(lia) HA1 ltac:(discriminate)) as HR.
    cbv zeta iota in HR.
    assert (Hnt : A = m1 * Dh -> m1 mod 2 = 1 -> false = true \/ m1 mod 4 = 3).
    { intros EA Eo. exfalso. apply (Fsub ltac:(lia) (m1 / 2)). fold np1. fold Dh.
      rewrite EA. f_equal. clear - Eo. Z.div_mod_to_equations. lia. }
    specialize (HR Hnt). set (m3 := (m1 + m1 mod 2) / 2) in *.
    destruct HR as [HNE Hr].
    assert (Hsc : sc_num (dec_num w q) (femin f) * (2 * Dh) = A * sc_den (dec_den q) (femin f)).
    { pose proof (scaling w q lz (femin f)) as S.
      assert (Es : femin f + qs q = 129 + sh + np1 - lz).
      { unfold qs, np1, power2, sh. lia. }
      rewrite Es in S. specialize (S ltac:(lia) ltac:(lia)).
      unfold A. rewrite <- S. f_equal. unfold Dh, D.
      replace (2 ^ lz * 2 ^ (129 + sh + np1 - lz)) with (2 * 2 ^ (128 + sh) * 2 ^ np1); [ring|].
      rewrite <- pow2_S, <- !pow2_add by lia. f_equal. lia. }
    pose proof (sc_den_pos (dec_den q) (femin f) Hd) as HDn.
    assert (HD2 : 0 < 2 * Dh) by lia.
    assert (HNEt := ne_transfer _ _ _ _ m3 HDn HD2 Hsc HNE).
    assert (Hupp : sc_num (dec_num w q) (femin f) < 2 ^ MANTISSA_SIZE f * sc_den (dec_den q) (femin f)).
    { apply (Z.mul_lt_mono_pos_r (2 * Dh)); [lia|]. rewrite Hsc.
      assert (A < 2 * 2 ^ MANTISSA_SIZE f * Dh) by (clear - HA1 Hm1' HDh; nia).
      clear - H HDn. nia. }
    assert (Hm3 : 0 <= m3 <= 2 ^ MANTISSA_SIZE f) by lia.
    pose proof (rne_finish_sub f _ _ m3 L Hn Hd Hupp HNEt Hm3) as HF. cbv zeta in HF.
    destruct (64 <=? np1) eqn:E64; [|exact HF].
    assert (Em1 : m1 = 0).
    { unfold m1. apply Z.div_small.
      assert (2 ^ 64 <= 2 ^ np1) by (apply pow2_le; lia).
      assert (2 ^ (MANTISSA_SIZE f + 2) <= 2 ^ 64) by (apply pow2_le; lia). lia. }
    assert (Em3 : m3 = 0) by (unfold m3; rewrite Em1; reflexivity).
    rewrite Em3 in HF. replace (2 ^ MANTISSA_SIZE f <=? 0) with false in HF by lia. exact HF.
  - (* normal *)
    fold (cf_tie f q lo hi) in *. set (tie := cf_tie f q lo hi) in *.
    destruct (Ftie ltac:(lia)) as [Ft1 Ft2].
    assert (HT1 : tie = true -> A = M * D /\ M mod 4 = 1).
    { intros Et. split; [exact (Ft1 Et)|].
      unfold tie, cf_tie in Et. cbv zeta in Et. fold u in Et. fold sh in Et. fold M in Et.
      repeat (apply andb_prop in Et; destruct Et as [Et ?]). lia. }
    assert (HT2 : A = M * D -> M mod 2 = 1 -> tie = true \/ M mod 4 = 3).
    { intros EA Eo. destruct (Z.eq_dec (M mod 4) 1) as [E1|E1].
      - left. exact (Ft2 EA E1).
      - right. clear - Eo E1. Z.div_mod_to_equations. lia. }
    pose proof (half_round A D M tie HD ltac:(lia) F1 HT1 HT2) as HR. cbv zeta in HR.
    set (M1 := if tie then M - 1 else M) in *.
    set (m3 := (M1 + M1 mod 2) / 2) in *.
    destruct HR as [HNE Hr].
    set (E := power2 - 1 + femin f).
    assert (Hsc : sc_num (dec_num w q) E * (2 * D) = A * sc_den (dec_den q) E).
    { pose proof (scaling w q lz E) as S.
      assert (Es : E + qs q = 129 + sh - lz).
      { unfold E, qs, power2, sh. lia. }
      rewrite Es in S. specialize (S ltac:(lia) ltac:(lia)).
      unfold A. rewrite <- S. f_equal. unfold D.
      replace (2 ^ lz * 2 ^ (129 + sh - lz)) with (2 * 2 ^ (128 + sh)); [ring|].
      rewrite <- pow2_S, <- !pow2_add by lia. f_equal. lia. }
    pose proof (sc_den_pos (dec_den q) E Hd) as HDn.
    assert (HD2 : 0 < 2 * D) by lia.
    assert (HNEt := ne_transfer _ _ _ _ m3 HDn HD2 Hsc HNE).
    assert (Hupp : sc_num (dec_num w q) E < 2 ^ (MANTISSA_SIZE f + 1) * sc_den (dec_den q) E).
    { apply (Z.mul_lt_mono_pos_r (2 * D)); [lia|]. rewrite Hsc.
      assert (A < 4 * 2 ^ MANTISSA_SIZE f * D) by (clear - F1 HM HM2 HD; nia).
      rewrite HM1. clear - H HDn. nia. }
    assert (Hlow : 2 ^ MANTISSA_SIZE f * sc_den (dec_den q) E <= sc_num (dec_num w q) E).
    { apply (Z.mul_le_mono_pos_r _ _ (2 * D)); [lia|]. rewrite Hsc.
      assert (2 * 2 ^ MANTISSA_SIZE f * D <= A) by (clear - F1 HM HM1 HD; nia).
      clear - H HDn. nia. }
    assert (Hm3 : 2 ^ MANTISSA_SIZE f <= m3 <= 2 * 2 ^ MANTISSA_SIZE f) by lia.
    pose proof (rne_finish f _ _ E m3 L Hn Hd ltac:(unfold E; lia) Hlow Hupp HNEt Hm3) as HF.
    cbv zeta in HF. replace (E - femin f + 1) with power2 in HF by (unfold E; lia).
    exact HF.
Qed.

(** ** the 128-bit product and the pair returned by [compute_product_approx] *)
Lemma mod_ones_le x a c : 0 <= c <= a -> x mod 2 ^ a = 2 ^ a - 1 -> x mod 2 ^ c = 2 ^ c - 1.
Proof.
  intros Hc H. pose proof (pow2_pos c ltac:(lia)). pose proof (pow2_pos (a - c) ltac:(lia)).
  pose proof (Z.div_mod x (2 ^ a) ltac:(apply Z.pow_nonzero; lia)) as E. rewrite H in E.
  rewrite (pow2_split c a) in E by lia.
  symmetry. apply (Z.mod_unique_pos _ _ ((x / (2 ^ c * 2 ^ (a - c))) * 2 ^ (a - c) + 2 ^ (a - c) - 1)); [lia|].
  rewrite E at 1. ring.
Qed.

Lemma pair_facts f q w' lo hi : lfmt f -> -342 <= q <= 308 -> 2 ^ 63 <= w' < 2 ^ 64 ->
  0 <= lo < 2 ^ 64 -> 0 <= hi < 2 ^ 64 ->
  refined_pair w' q lo hi \/ unrefined_pair w' q (61 - MANTISSA_SIZE f) lo hi ->
  let P := w' * T128 q in
  let H := hi * 2 ^ 64 + lo in
  2 ^ 62 <= hi /\
  ((H * 2 ^ 64 <= P < (H + 1) * 2 ^ 64) \/
   (P = H * 2 ^ 64 + w' * Tlo q /\ hi mod 2 ^ (61 - MANTISSA_SIZE f) <> 2 ^ (61 - MANTISSA_SIZE f) - 1)).
Proof.
  intros L Hq Hw Hlo Hhi HP P H.
  pose proof (tentry_range q Hq) as (HT1 & HT2 & HT).
  rewrite p2_127, p2_128 in HT.
  destruct HP as [HR|[HU1 HU2]].
  - unfold refined_pair in HR. fold P in HR. fold H in HR.
    assert (HPb : 2 ^ 63 * (2 ^ 63 * 2 ^ 64) <= P) by (unfold P; nia).
    pose proof (Z.div_mod P (2 ^ 64) ltac:(lia)) as E.
    pose proof (Z.mod_pos_bound P (2 ^ 64) ltac:(lia)) as B.
    rewrite <- HR in E.
    split.
    + unfold H in *. rewrite p2_63, p2_64 in *. change (2 ^ 62) with 4611686018427387904. lia.
    + left. lia.
  - fold H in HU1.
    assert (HThi : 2 ^ 63 <= Thi q).
    { unfold T128 in HT. rewrite p2_63, p2_64 in *. lia. }
    split.
    + assert (2 ^ 63 * 2 ^ 63 <= H) by (rewrite HU1; nia).
      unfold H in *. rewrite p2_63, p2_64 in *. change (2 ^ 62) with 4611686018427387904. lia.
    + right. split; [|exact HU2]. unfold P, T128. rewrite HU1. ring.
Qed.

Lemma prod_floor f q w' lo hi : lfmt f -> -342 <= q <= 308 -> 2 ^ 63 <= w' < 2 ^ 64 ->
  0 <= lo < 2 ^ 64 -> 2 ^ 62 <= hi < 2 ^ 64 ->
  refined_pair w' q lo hi \/ unrefined_pair w' q (61 - MANTISSA_SIZE f) lo hi ->
  let P := w' * T128 q in
  let u := hi / 2 ^ 63 in
  let sh := u + 61 - MANTISSA_SIZE f in
  let M := hi / 2 ^ sh in
  let G := 2 ^ (128 + sh) in
  M * G <= P < (M + 1) * G /\
  (lo <> 2 ^ 64 - 1 \/ unrefined_pair w' q (61 - MANTISSA_SIZE f) lo hi -> P + w' <= (M + 1) * G).
Proof.
  intros L Hq Hw Hlo Hhi HP P u sh M G.
  pose proof (M_range f hi L Hhi) as MR. cbv zeta in MR. fold u in MR. fold sh in MR. fold M in MR.
  destruct MR as (Hu & Hub & HM).
  pose proof (lf_ms f L) as HMS.
  pose proof (pair_facts f q w' lo hi L Hq Hw Hlo ltac:(lia) HP) as [_ PF]. cbv zeta in PF. fold P in PF.
  pose proof (tentry_range q Hq) as (HT1 & HT2 & HT).
  assert (Hsh : 0 <= sh) by (unfold sh; lia).
  pose proof (pow2_pos sh Hsh) as Hpsh.
  assert (EG : G = 2 ^ sh * (2 ^ 64 * 2 ^ 64)).
  { unfold G. rewrite Z.add_comm, pow2_add by lia. rewrite p2_128. reflexivity. }
  pose proof (Z.div_mod hi (2 ^ sh) ltac:(lia)) as Ehi. fold M in Ehi.
  pose proof (Z.mod_pos_bound hi (2 ^ sh) ltac:(lia)) as Bhi.
  set (r := hi mod 2 ^ sh) in *.
  assert (HMG : M * G = (hi - r) * (2 ^ 64 * 2 ^ 64)) by (rewrite EG; nia).
  assert (HMG1 : (M + 1) * G = (hi - r + 2 ^ sh) * (2 ^ 64 * 2 ^ 64)) by (rewrite EG; nia).
  rewrite HMG, HMG1.
  destruct PF as [PR|[PU1 PU2]].
  - split; [nia|]. intros [Hl|[_ HU]]; [nia|].
    assert (r <> 2 ^ sh - 1).
    { intros Er. apply HU. apply (mod_ones_le hi sh); [unfold sh; lia|exact Er]. }
    nia.
  - assert (r <> 2 ^ sh - 1).
    { intros Er. apply PU2. apply (mod_ones_le hi sh); [unfold sh; lia|exact Er]. }
    assert (0 <= w' * Tlo q) by nia.
    assert (w' * (Tlo q + 1) <= 2 ^ 64 * 2 ^ 64) by nia.
    split; [nia|]. intros _. nia.
Qed.

(** ** the driver: [compute_float] is sound wherever the floor / tie facts hold for the pair *)
Definition facts_ok (f : format) (q w lo hi : Z) : Prop :=
  let lz := lz64 w in
  let u := hi / 2 ^ 63 in
  let sh := u + 61 - MANTISSA_SIZE f in
  let M := hi / 2 ^ sh in
  let power2 := pw q + u - lz - MINIMUM_EXPONENT f in
  let A := w * 2 ^ lz * qX q in
  let D := 2 ^ (128 + sh) * qY q in
  M * D <= A < (M + 1) * D /\
  (0 < power2 -> (cf_tie f q lo hi = true -> A = M * D) /\
                 (A = M * D -> M mod 4 = 1 -> cf_tie f q lo hi = true)) /\
  (power2 <= 0 -> forall j, A <> (2 * j + 1) * (D * 2 ^ (1 - power2))).

Definition cf_sound (f : format) (b : build) (q w : Z) : Prop :=
  exists fp, compute_float TABLES f b q w = Ok fp /\
    (0 <= exp fp -> fields_ok f fp /\ rne_bits f (dec_num w q) (dec_den q) (pack f fp)).

Lemma cf_driver f b q w : lfmt f -> 0 < w < 2 ^ 64 ->
  SMALLEST_POWER_OF_TEN f <= q <= LARGEST_POWER_OF_TEN f ->
  (forall lo hi, 0 <= lo < 2 ^ 64 -> 2 ^ 62 <= hi < 2 ^ 64 ->
     refined_pair (w * 2 ^ lz64 w) q lo hi \/
     unrefined_pair (w * 2 ^ lz64 w) q (61 - MANTISSA_SIZE f) lo hi ->
     (lo =? u64_max) && negb ((-27 <=? q) && (q <=? 55)) = false ->
     facts_ok f q w lo hi) ->
  cf_sound f b q w.
Proof.
  intros L Hw Hq HF.
  pose proof (lf_ms f L) as HMS. pose proof (lf_sp10 f L) as Hsp. pose proof (lf_lp10 f L) as Hlp.
  pose proof (lz64_spec w Hw) as (Hlz & Hw').
  destruct (compute_product_approx_spec b q (w * 2 ^ lz64 w) (MANTISSA_SIZE f + 3)
              ltac:(lia) ltac:(lia) ltac:(lia)) as (lo & hi & Hcpa & Hlo & Hhi & Hpair).
  replace (64 - (MANTISSA_SIZE f + 3)) with (61 - MANTISSA_SIZE f) in Hpair by lia.
  pose proof (pair_facts f q _ lo hi L ltac:(lia) Hw' Hlo Hhi Hpair) as [Hhi62 _].
  unfold cf_sound.
  rewrite (cf_run f b q w lo hi L Hw Hq Hcpa Hlo ltac:(lia)).
  destruct ((lo =? u64_max) && negb ((-27 <=? q) && (q <=? 55))) eqn:Efb.
  - destruct (ces_ok f b q hi (lz64 w) L ltac:(lia) Hhi Hlz) as (fp & Hfp & Hneg).
    exists fp. split; [exact Hfp|]. intros. lia.
  - eexists. split; [reflexivity|]. intros _.
    specialize (HF lo hi Hlo ltac:(lia) Hpair Efb). unfold facts_ok in HF. cbv zeta in HF.
    destruct HF as (F1 & F2 & F3).
    exact (cf_main_sound f q w lo hi L Hw Hq ltac:(lia) F1 F2 F3).
Qed.

Print Assumptions cf_run.
Print Assumptions cf_main_sound.
Print Assumptions cf_driver.
