(** * EndToEnd4: the declined case - parse_float through the big-integer slow path.
    [parse_float_lemire_declined_correct]: non-compact configurations.  Every valid input (bounded
    length / exponent so that nothing saturates), fast path not applicable, `lemire` declines:
    parse_float returns exactly RN (dec_value ..), provided the declined estimate's biased exponent is
    at least -64 (premise [deep]: it can only fail if the all-ones fallback of compute_float fired on
    a value below 2^(femin-2), see [lemire_declined_exp_ge] - the residual "no deep fallback"
    number-theoretic fact; without debug assertions the premise is not needed for correctness but the
    theorem is stated uniformly). *)
From Coq Require Import ZArith QArith List Bool Lia.
From ML Require Import base.RustSem model.Fmt model.Num model.Number model.Parse model.Lemire model.Slow model.Top
  spec.Decimal spec.Round spec.RoundFacts spec.RneZ spec.RneBridge gen.Consts gen.Tables gen.BTables gen.PowDump
  proofs.ParseFacts proofs.FastPathFacts proofs.EndToEnd proofs.EndToEnd2 proofs.EndToEnd3
  proofs.RoundingFactsZ proofs.LemireFacts0 proofs.LemireFacts5 proofs.LemireFacts6
  proofs.SlowFacts1 proofs.SlowFacts2c proofs.SlowFacts3 proofs.SlowFacts3b.
Import ListNotations.
Open Scope Z_scope.

(** inputs short enough that no exponent arithmetic saturates (2^29 digits, |exponent| <= 2^29) *)
Definition bounded_input (i fr : list Z) (e : Z) : Prop :=
  - 2 ^ 29 <= e - zlen fr <= 2 ^ 29 /\ zlen i + zlen fr <= 2 ^ 29.

Lemma bounded_unsaturated : forall i fr e, bounded_input i fr e -> unsaturated i fr e.
Proof.
  intros i fr e [HX HL]. unfold unsaturated.
  pose proof (strip0_len (i ++ fr)) as Hs. rewrite ParseFacts.zlen_app in Hs.
  pose proof (zlen_nonneg _ (strip0 (i ++ fr))).
  assert (2 ^ 29 = 536870912) by reflexivity. unfold i32_min, i32_max.
  assert (2 ^ 31 = 2147483648) by reflexivity. lia.
Qed.

(** a Q inequality between  inject_Z a * pow10Q q  and  v  as integer cross-multiplication *)
Lemma dec_le_cross : forall w q (v : Q), 0 <= w ->
  (inject_Z w * pow10Q q <= v)%Q -> dec_num w q * Zpos (Qden v) <= Qnum v * dec_den q.
Proof.
  intros w q v Hw H. rewrite (dec_frac_Q w q Hw) in H. unfold Qle in H. cbn [Qnum Qden] in H.
  assert (Hd : 0 < dec_den q) by (unfold dec_den; destruct (0 <=? q) eqn:E; [lia|apply Z.leb_gt in E; apply Z.pow_pos_nonneg; lia]).
  rewrite Z2Pos.id in H by exact Hd. exact H.
Qed.
Lemma dec_ge_cross : forall w q (v : Q), 0 <= w ->
  (v <= inject_Z w * pow10Q q)%Q -> Qnum v * dec_den q <= dec_num w q * Zpos (Qden v).
Proof.
  intros w q v Hw H. rewrite (dec_frac_Q w q Hw) in H. unfold Qle in H. cbn [Qnum Qden] in H.
  assert (Hd : 0 < dec_den q) by (unfold dec_den; destruct (0 <=? q) eqn:E; [lia|apply Z.leb_gt in E; apply Z.pow_pos_nonneg; lia]).
  rewrite Z2Pos.id in H by exact Hd. exact H.
Qed.

Theorem parse_float_lemire_declined_correct : forall c f b BT i fr e fp,
  In c ALL_CONFIGS -> compact c = false -> f = F32 \/ f = F64 ->
  valid_inputb i fr e = true -> bounded_input i fr e ->
  fast_path_applies f (parse_spec i fr e) = false ->
  lemire TABLES f b (parse_spec i fr e) = Ok fp -> exp fp < 0 ->
  - 64 <= exp fp - INVALID_FP f ->                                  (* [deep] *)
  parse_float c TABLES BT LIMITS f b i fr e = Ok (RN f (dec_value i fr e)).
Proof.
  intros c f b BT i fr e fp Hc Hcomp Hf V Hb Hnf Hlem Hneg Hdeep.
  pose proof (bounded_unsaturated i fr e Hb) as Hsat. destruct Hb as [HX HL].
  pose proof (fast_ok_shipped c f Hc Hf) as Hok.
  assert (Hlo : lfmt_ok f = true) by (destruct Hf; subst; [exact lfmt_ok_F32|exact lfmt_ok_F64]).
  assert (Hrf : rfmt_ok f = true) by (destruct Hf; subst; [exact rfmt_ok_F32|exact rfmt_ok_F64]).
  assert (Hbf : bfmt_ok f = true) by (destruct Hf; subst; [exact bfmt_ok_F32|exact bfmt_ok_F64]).
  assert (Hs : sfmt_ok f = true) by (destruct Hf; subst; [exact sfmt_ok_F32|exact sfmt_ok_F64]).
  unfold parse_float. rewrite (parse_number_exact b i fr e V). cbn [bind].
  destruct (parse_number_spec b i fr e V) as (n & Hn & Hm & He & S).
  assert (Hnn : n = parse_spec i fr e) by (rewrite (parse_number_exact b i fr e V) in Hn; congruence).
  subst n. clear Hn.
  rewrite (try_fast_path_eq c TABLES f b Hok (parse_spec i fr e)) by (unfold i32_min, i32_max in He; lia).
  rewrite Hnf. cbn [bind]. unfold moderate_path. rewrite Hcomp. rewrite Hlem. cbn [bind].
  destruct (exp fp <? 0) eqn:Elt; [|apply Z.ltb_ge in Elt; lia].
  set (n := parse_spec i fr e) in *. cbv zeta in S.
  destruct S as (_ & _ & _ & _ & Sb & _).
  assert (Hmw : many n = true -> 2 ^ (MANTISSA_SIZE f + 3) <= nmant n /\ nmant n + 1 < 2 ^ 64).
  { intros Ht. destruct (Sb Ht) as [[Hl Hh] _]. revert Hl Hh. generalize (nmant n). intros z Hl Hh.
    assert (H18 : 2 ^ (MANTISSA_SIZE f + 3) <= 10 ^ 18) by (destruct Hf; subst f; vm_compute; discriminate).
    assert (H19 : 10 ^ 19 < 2 ^ 64) by (vm_compute; reflexivity).
    split; [exact (Z.le_trans _ _ _ H18 Hl)|].
    pose proof (Zlt_le_succ _ _ Hh) as Hs'. unfold Z.succ in Hs'. exact (Z.le_lt_trans _ _ _ Hs' H19). }
  assert (Hmw' : many n = true -> 0 < nmant n /\ nmant n + 1 < 2 ^ 64).
  { intros Ht. destruct (Hmw Ht) as [H1 H2]. split; [|exact H2].
    assert (0 < 2 ^ (MANTISSA_SIZE f + 3)) by (destruct Hf; subst f; vm_compute; reflexivity). lia. }
  destruct (lemire_declined_estimate f b n fp Hlo Hrf Hm Hmw Hlem Hneg) as (Hmant & _ & Hehi & Hbr).
  cbv zeta in Hmant, Hehi, Hbr. cbn [mant exp] in Hmant, Hehi.
  destruct (lemire_declines_only_in_range f b n fp Hlo Hm Hmw' Hlem Hneg) as [Hq Hw0].
  (* exp fp - INVALID_FP f does not overflow *)
  assert (H15 : 2 ^ 15 = 32768) by reflexivity.
  assert (Hsub : i32_sub b (exp fp) (INVALID_FP f) = Ok (exp fp - INVALID_FP f)).
  { unfold i32_sub, sop. replace (in_s 32 (exp fp - INVALID_FP f)) with true; [reflexivity|].
    symmetry. unfold in_s. apply andb_true_iff. split; [apply Z.leb_le|apply Z.ltb_lt];
    change (2 ^ (32 - 1)) with 2147483648; lia. }
  rewrite Hsub. cbn [bind].
  (* the range of q *)
  assert (Hqr : - 400 <= nexp n <= slow_P - 19).
  { assert (- 400 <= SMALLEST_POWER_OF_TEN f /\ LARGEST_POWER_OF_TEN f <= slow_P - 19)
      by (destruct Hf; subst f; vm_compute; split; discriminate). lia. }
  (* the estimate premise at dec_value *)
  assert (Hv0 : (0 <= dec_value i fr e)%Q) by (apply dec_value_nonneg; exact V).
  assert (Hest : rd_bits f (mkExt (mant fp) (exp fp - INVALID_FP f)) <= RN f (dec_value i fr e)
                 <= rd_bits f (mkExt (mant fp) (exp fp - INVALID_FP f)) + 1).
  { set (v := dec_value i fr e) in *.
    assert (Hvn : 0 <= Qnum v).
    { unfold Qle in Hv0. change (Qnum 0) with 0 in Hv0. change (QDen 0) with 1 in Hv0. lia. }
    pose proof (RN_rne_bits f Hbf (Qnum v) (Zpos (Qden v)) Hvn ltac:(lia)) as Hrb.
    assert (Hveq : (Qnum v # Z.to_pos (Zpos (Qden v)))%Q = v) by (destruct v; reflexivity).
    rewrite Hveq in Hrb.
    destruct (parse_number_value_bracket b i fr e n V (parse_number_exact b i fr e V)) as [Hex Hmn].
    unfold unsaturated in Hsat.
    apply (Hbr (Qnum v) (Zpos (Qden v)) _ ltac:(lia)); [| |exact Hrb].
    - (* lower end *)
      apply dec_le_cross; [lia|].
      destruct (many n) eqn:Emany.
      + destruct (Hmn eq_refl) as (k & Hk1 & Hk & Hne & Hlo' & Hhi').
        assert (HXk : nexp n = e - zlen fr + k).
        { rewrite Hne. apply clamp_i32_id. subst k.
          replace (Z.max 0 (zlen (strip0 (i ++ fr)) - 19)) with (zlen (strip0 (i ++ fr)) - 19) in Hsat by lia. lia. }
        rewrite HXk. exact Hlo'.
      + destruct (Hex eq_refl) as [Hval0 Hne].
        assert (Hshort : many n = (19 <? zlen (strip0 (i ++ fr)))) by reflexivity.
        rewrite Emany in Hshort. symmetry in Hshort. apply Z.ltb_ge in Hshort.
        assert (HX0 : nexp n = e - zlen fr).
        { rewrite Hne. apply clamp_i32_id. replace (Z.max 0 (zlen (strip0 (i ++ fr)) - 19)) with 0 in Hsat by lia. lia. }
        rewrite HX0. apply Qle_lteq. right. symmetry. exact Hval0.
    - (* upper end *)
      destruct (many n) eqn:Emany.
      + apply dec_ge_cross; [lia|].
        destruct (Hmn eq_refl) as (k & Hk1 & Hk & Hne & Hlo' & Hhi').
        assert (HXk : nexp n = e - zlen fr + k).
        { rewrite Hne. apply clamp_i32_id. subst k.
          replace (Z.max 0 (zlen (strip0 (i ++ fr)) - 19)) with (zlen (strip0 (i ++ fr)) - 19) in Hsat by lia. lia. }
        rewrite HXk. apply Qlt_le_weak. exact Hhi'.
      + apply dec_ge_cross; [lia|].
        destruct (Hex eq_refl) as [Hval0 Hne].
        assert (Hshort : many n = (19 <? zlen (strip0 (i ++ fr)))) by reflexivity.
        rewrite Emany in Hshort. symmetry in Hshort. apply Z.ltb_ge in Hshort.
        assert (HX0 : nexp n = e - zlen fr).
        { rewrite Hne. apply clamp_i32_id. replace (Z.max 0 (zlen (strip0 (i ++ fr)) - 19)) with 0 in Hsat by lia. lia. }
        rewrite HX0. apply Qle_lteq. right. exact Hval0. }
  assert (H30 : 2 ^ 30 = 1073741824) by reflexivity.
  destruct (slow_correct_q c f b i fr e (mkExt (mant fp) (exp fp - INVALID_FP f)) Hf V HX HL Hw0 Hmant
              ltac:(cbn [exp]; lia) Hqr (fun _ => Hest)) as (r & w & Hslow & Hext & Hw).
  fold n in Hslow. rewrite Hslow. cbn [bind]. rewrite Hext, Hw. reflexivity.
Qed.

(** ** The end-to-end theorem for the non-compact configurations (Eisel-Lemire + big integers) *)

(** the residual number-theoretic premise: a declined estimate never has a biased exponent below -64
    (false only if compute_float's all-ones fallback fired on a value below 2^(femin-2)) *)
Definition no_deep_fallback_at (f : format) (b : build) (n : number) : Prop :=
  forall fp, lemire TABLES f b n = Ok fp -> exp fp < 0 -> - 64 <= exp fp - INVALID_FP f.

Theorem parse_float_correct_noncompact : forall c f b BT i fr e,
  In c ALL_CONFIGS -> compact c = false -> f = F32 \/ f = F64 ->
  valid_inputb i fr e = true -> bounded_input i fr e ->
  no_deep_fallback_at f b (parse_spec i fr e) ->
  parse_float c TABLES BT LIMITS f b i fr e = Ok (RN f (dec_value i fr e)).
Proof.
  intros c f b BT i fr e Hc Hcomp Hf V Hb Hdeep.
  destruct (fast_path_applies f (parse_spec i fr e)) eqn:Efast.
  - apply parse_float_fast_correct; assumption.
  - assert (Hlo : lfmt_ok f = true) by (destruct Hf; subst; [exact lfmt_ok_F32|exact lfmt_ok_F64]).
    destruct (parse_number_spec b i fr e V) as (n & Hn & Hm & He & S).
    assert (Hnn : n = parse_spec i fr e) by (rewrite (parse_number_exact b i fr e V) in Hn; congruence).
    subst n. clear Hn. cbv zeta in S. destruct S as (_ & _ & _ & _ & Sb & _).
    assert (Hmw : many (parse_spec i fr e) = true ->
                  0 < nmant (parse_spec i fr e) /\ nmant (parse_spec i fr e) + 1 < 2 ^ 64).
    { intros Ht. destruct (Sb Ht) as [[Hl Hh] _]. revert Hl Hh. generalize (nmant (parse_spec i fr e)).
      intros z Hl Hh.
      assert (H18 : 0 < 10 ^ 18) by (vm_compute; reflexivity).
      assert (H19 : 10 ^ 19 < 2 ^ 64) by (vm_compute; reflexivity).
      split; [exact (Z.lt_le_trans _ _ _ H18 Hl)|].
      pose proof (Zlt_le_succ _ _ Hh) as Hs'. unfold Z.succ in Hs'. exact (Z.le_lt_trans _ _ _ Hs' H19). }
    destruct (lemire_sound f b (parse_spec i fr e) Hlo Hm Hmw) as (fp & Hl & _).
    destruct (Z_lt_ge_dec (exp fp) 0) as [Hneg|Hpos].
    + apply (parse_float_lemire_declined_correct c f b BT i fr e fp); try assumption.
      exact (Hdeep fp Hl Hneg).
    + apply (parse_float_lemire_definite_correct c f b BT LIMITS i fr e fp); try assumption; [|lia].
      apply bounded_unsaturated. exact Hb.
Qed.

(** the premise holds whenever the decline is not compute_float's own all-ones fallback *)
Lemma no_deep_fallback_from_shape : forall f b n,
  f = F32 \/ f = F64 -> 0 <= nmant n < 2 ^ 64 ->
  (many n = true -> 2 ^ (MANTISSA_SIZE f + 3) <= nmant n /\ nmant n + 1 < 2 ^ 64) ->
  ~ declined_at f b (nexp n) (nmant n) -> ~ declined_at f b (nexp n) (nmant n + 1) ->
  no_deep_fallback_at f b n.
Proof.
  intros f b n Hf Hm Hmw H1 H2 fp Hl Hneg.
  assert (Hlo : lfmt_ok f = true) by (destruct Hf; subst; [exact lfmt_ok_F32|exact lfmt_ok_F64]).
  assert (Hrf : rfmt_ok f = true) by (destruct Hf; subst; [exact rfmt_ok_F32|exact rfmt_ok_F64]).
  exact (lemire_declined_exp_ge f b n fp Hlo Hrf Hm Hmw Hl Hneg H1 H2).
Qed.

(** non-vacuity: a 54-digit input on the slow path (1 + 2^-53 exactly) satisfies every hypothesis *)
Example noncompact_hyps :
  let i := [49] in
  let fr := [48;48;48;48;48;48;48;48;48;48;48;48;48;48;48;49;49;49;48;50;50;51;48;50;52;54;50;53;49;53;54;53;52;48;52;50;51;54;51;49;54;54;56;48;57;48;56;50;48;51;49;50;53] in
  valid_inputb i fr 0 = true /\ fast_path_applies F64 (parse_spec i fr 0) = false /\
  (exists fp, lemire TABLES F64 checked_build (parse_spec i fr 0) = Ok fp /\ exp fp < 0 /\
              - 64 <= exp fp - INVALID_FP F64) /\
  parse_float CFG_s TABLES BTABLES LIMITS F64 checked_build i fr 0 = Ok 4607182418800017408.
Proof.
  cbv zeta. split; [vm_compute; reflexivity|]. split; [vm_compute; reflexivity|]. split.
  - eexists. split; [vm_compute; reflexivity|]. split; vm_compute; [reflexivity|discriminate].
  - vm_compute. reflexivity.
Qed.
