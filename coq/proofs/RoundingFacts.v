(** * RoundingFacts: the rounding primitive of src/rounding.rs is IEEE rounding (C18).

    The integer-level characterisation is in proofs/RoundingFactsZ.v; this file links it with
    Flocq's [round radix2 (FLT_exp emin prec) ZnearestE] (and [Zfloor] for the truncating
    variant), for any format [f] satisfying [rfmt_ok] (checked on the generated [F32], [F64]).

    Main theorems (all for an arbitrary build [b], [2^63 <= mant < 2^64], [-63 <= exp <= 2^30]):
    - [round_nearest_correct], [round_down_correct]: the returned fields denote the Flocq
      rounding of [mant * 2^(exp - bias)], or are [(0, INFINITE_POWER)] exactly on overflow;
    - [round_nearest_packed], [round_down_packed]: the same for the packed word read by
      [sf_of_bits];
    - [round_nearest_is_binary_normalize]: the packed word decodes to
      [SpecFloat.binary_normalize prec emax mant (exp - bias) false];
    - [..._F32], [..._F64]: instances with the exponent ranges of the property.
    The purely integer statement against [rne_bits] is in proofs/RoundingFactsRne.v. *)
From Coq Require Import ZArith Reals List Bool Lia Lra Znumtheory.
From Coq Require Import ZifyBool.
From Coq Require Import Floats.SpecFloat.
From Flocq Require Import Core.Core Calc.Bracket Calc.Round IEEE754.BinarySingleNaN.
From ML Require Import base.RustSem model.Fmt model.Mask model.Num model.Rounding
  model.FloatOps gen.Consts proofs.RoundingFactsZ.
Local Ltac Zify.zify_post_hook ::= Z.div_mod_to_equations.
Open Scope Z_scope.

(** ** Core: shifting right by [s] bits with the crate's tie-to-even rule / by truncation is
    Flocq's rounding whenever [s] is the distance to the canonical exponent *)
Section Core.
Variables emin p : Z.
Context (Hp : Prec_gt_0 p).
Let fexp := FLT_exp emin p.

Lemma pow2_even s : 0 < s -> Z.even (2 ^ s) = true.
Proof. intros H. rewrite (pow2_pred s) by lia. apply Z.even_mul. Qed.

Theorem shift_round_NE mant E s :
  0 < s ->
  cexp radix2 fexp (F2R (Float radix2 mant E)) = E + s ->
  Generic_fmt.round radix2 fexp ZnearestE (F2R (Float radix2 mant E))
  = F2R (Float radix2 (rnd_ne mant s) (E + s)).
Proof.
  intros Hs Hcexp. set (x := F2R (Float radix2 mant E)) in *.
  assert (Hin0 : inbetween_float radix2 mant E x loc_Exact) by (apply inbetween_Exact; reflexivity).
  pose proof (inbetween_float_new_location radix2 x mant E loc_Exact s Hs Hin0) as Hin.
  rewrite <- Hcexp in Hin at 1.
  rewrite (inbetween_float_NE radix2 fexp x _ _ Hin). rewrite Hcexp. f_equal. f_equal.
  unfold rnd_ne. cbv zeta. change (Zpower radix2 s) with (2 ^ s).
  set (m := mant / 2 ^ s). set (tr := mant mod 2 ^ s).
  pose proof (pow2_pos s ltac:(lia)) as Hpos.
  assert (Htr : 0 <= tr < 2 ^ s) by (apply Z.mod_pos_bound; lia).
  unfold new_location. rewrite pow2_even by assumption. unfold new_location_even.
  rewrite Z.negb_even.
  destruct (Zeq_bool tr 0) eqn:E0.
  - apply Zeq_bool_eq in E0. cbn [round_N cond_incr].
    replace (2 * tr >? 2 ^ s) with false by lia.
    replace (2 * tr =? 2 ^ s) with false by lia. reflexivity.
  - destruct (Z.compare_spec (2 * tr) (2 ^ s)) as [Heq|Hlt|Hgt]; cbn [round_N].
    + replace (2 * tr >? 2 ^ s) with false by lia.
      replace (2 * tr =? 2 ^ s) with true by lia.
      cbn [orb andb]. destruct (Z.odd m); reflexivity.
    + replace (2 * tr >? 2 ^ s) with false by lia.
      replace (2 * tr =? 2 ^ s) with false by lia. reflexivity.
    + replace (2 * tr >? 2 ^ s) with true by lia. reflexivity.
Qed.

Theorem shift_round_DN mant E s :
  0 < s ->
  cexp radix2 fexp (F2R (Float radix2 mant E)) = E + s ->
  Generic_fmt.round radix2 fexp Zfloor (F2R (Float radix2 mant E))
  = F2R (Float radix2 (mant / 2 ^ s) (E + s)).
Proof.
  intros Hs Hcexp. set (x := F2R (Float radix2 mant E)) in *.
  assert (Hin0 : inbetween_float radix2 mant E x loc_Exact) by (apply inbetween_Exact; reflexivity).
  pose proof (inbetween_float_new_location radix2 x mant E loc_Exact s Hs Hin0) as Hin.
  rewrite <- Hcexp in Hin at 1.
  rewrite (inbetween_float_DN radix2 fexp x _ _ Hin). rewrite Hcexp. reflexivity.
Qed.

Lemma Zdigits_64 mant : 2 ^ 63 <= mant < 2 ^ 64 -> Zdigits radix2 mant = 64.
Proof.
  intros H. apply Zdigits_unique. rewrite Z.abs_eq by lia.
  change (Zpower radix2 (64 - 1)) with (2 ^ 63). change (Zpower radix2 64) with (2 ^ 64). lia.
Qed.

Lemma cexp_64 mant E : 2 ^ 63 <= mant < 2 ^ 64 ->
  cexp radix2 fexp (F2R (Float radix2 mant E)) = Z.max (64 + E - p) emin.
Proof.
  intros H. unfold cexp. rewrite mag_F2R_Zdigits by lia. rewrite Zdigits_64 by assumption.
  unfold fexp, FLT_exp. reflexivity.
Qed.

End Core.

Lemma F2R_pow2 k e : 0 <= k -> F2R (Float radix2 (2 ^ k) e) = bpow radix2 (k + e).
Proof.
  intros Hk. unfold F2R. cbn [Fnum Fexp].
  change (2 ^ k) with (Zpower radix2 k). rewrite IZR_Zpower by assumption.
  symmetry. apply bpow_plus.
Qed.

(** ** The value denoted by the input and by the returned fields *)

(** [mant * 2^(exp - EXPONENT_BIAS)] *)
Definition ext_val (f : format) (mant exp : Z) : R :=
  F2R (Float radix2 mant (exp - EXPONENT_BIAS f)).

(** integer significand and exponent denoted by a (fraction field, biased exponent field) pair
    with exponent field below [INFINITE_POWER].  In the subnormal branch [round] may return the
    fraction [2^MANTISSA_SIZE] with exponent field 1: the hidden bit is already in the
    fraction (the two coincide once packed with [Z.lor]). *)
Definition decode_fields (f : format) (m' e' : Z) : Z * Z :=
  if e' =? 0 then (m', femin f)
  else ((if m' <? 2 ^ MANTISSA_SIZE f then m' + 2 ^ MANTISSA_SIZE f else m'), e' - 1 + femin f).

Definition fields_val (f : format) (r : extfloat) : R :=
  let '(M, E) := decode_fields f (Num.mant r) (Num.exp r) in F2R (Float radix2 M E).

Definition ffexp (f : format) : Z -> Z := FLT_exp (femin f) (prec f).

Section WithFormat.
Variable f : format.
Hypothesis Hf : rfmt_ok f = true.
Let ms := MANTISSA_SIZE f.
Let B := EXPONENT_BIAS f.

Lemma prec_gt_0_f : Prec_gt_0 (prec f).
Proof. destruct (rfmt_ok_props f Hf) as [Pms Pew Pbits Phid Pcarry Pmmask Pinf Pbias Pemask Pden Pprec]. unfold Prec_gt_0, prec. lia. Qed.

(** Generic link: [g s] is the significand the shifting callback returns for shift [s], and it
    agrees with the Flocq rounding [rnd] whenever [s] is the distance to the canonical exponent. *)
Lemma round_spec_flocq (rnd : R -> Z) g mant exp :
  2 ^ 63 <= mant < 2 ^ 64 -> - 63 <= exp <= 2 ^ 30 ->
  (forall s, 1 <= s <= 64 -> mant / 2 ^ s <= g s <= mant / 2 ^ s + 1) ->
  (forall s, 1 <= s <= 64 ->
     cexp radix2 (ffexp f) (ext_val f mant exp) = exp - B + s ->
     Generic_fmt.round radix2 (ffexp f) rnd (ext_val f mant exp)
     = F2R (Float radix2 (g s) (exp - B + s))) ->
  let r := round_spec f g exp in
  let rx := Generic_fmt.round radix2 (ffexp f) rnd (ext_val f mant exp) in
  (Num.exp r < INFINITE_POWER f -> fields_val f r = rx /\ (0 <= rx < bpow radix2 (emax f))%R) /\
  (Num.exp r = INFINITE_POWER f -> Num.mant r = 0 /\ (bpow radix2 (emax f) <= rx)%R).
Proof.
  intros Hm He Hg Hrnd. cbv zeta. destruct (rfmt_ok_props f Hf) as [Pms Pew Pbits Phid Pcarry Pmmask Pinf Pbias Pemask Pden Pprec].
  pose proof (emax_ge_2 f Hf) as Hemax. pose proof (inf_power_emax f Hf) as Hinf.
  pose proof (femin_bias f Hf) as Hfemin. fold B in Hfemin.
  fold ms in Pms.
  assert (Hcexp : cexp radix2 (ffexp f) (ext_val f mant exp) = Z.max (exp + (63 - ms) - B) (1 - B)).
  { unfold ext_val, ffexp. rewrite cexp_64 by assumption. rewrite Hfemin. unfold prec. fold ms B.
    f_equal. lia. }
  pose proof (pow2_pos ms ltac:(lia)) as Hpos.
  pose proof (pow2_succ ms ltac:(lia)) as Hsucc.
  unfold round_spec. cbv zeta. fold ms. set (sh := 63 - ms) in *.
  destruct (exp <=? - sh) eqn:Esub.
  - (* subnormal *)
    assert (Hs : 1 <= 1 - exp <= 64) by lia.
    rewrite (Hrnd (1 - exp) Hs) by (rewrite Hcexp; lia).
    replace (exp - B + (1 - exp)) with (femin f) by lia.
    pose proof (Hg (1 - exp) Hs) as Hg1.
    pose proof (div_pow2_lt mant (1 - exp) ltac:(lia) ltac:(lia)) as Hq.
    pose proof (pow2_le (64 - (1 - exp)) ms ltac:(lia)) as Hle.
    set (m := g (1 - exp)) in *.
    assert (Hm0 : 0 <= m <= 2 ^ ms) by lia.
    cbn [Num.mant Num.exp]. split.
    + intros _. split.
      * unfold fields_val, decode_fields. cbn [Num.mant Num.exp]. fold ms.
        destruct (2 ^ ms <=? m) eqn:E.
        -- change (1 =? 0) with false. cbv iota.
           replace (m <? 2 ^ ms) with false by lia. f_equal; f_equal; lia.
        -- change (0 =? 0) with true. cbv iota. reflexivity.
      * split; [apply F2R_ge_0; cbn [Fnum]; lia|].
        apply Rle_lt_trans with (F2R (Float radix2 (2 ^ ms) (femin f))).
        -- apply F2R_le. lia.
        -- rewrite F2R_pow2 by lia. apply bpow_lt. rewrite Hfemin. unfold B. rewrite Pbias.
           fold ms. lia.
    + intros Habs. exfalso. destruct (2 ^ ms <=? m); lia.
  - (* normal *)
    assert (Hs : 1 <= sh <= 64) by lia.
    rewrite (Hrnd sh Hs) by (rewrite Hcexp; lia).
    assert (Hg1 : 2 ^ ms <= g sh <= 2 ^ (ms + 1)).
    { pose proof (Hg sh Hs) as Hg1.
      pose proof (div_pow2_lt mant sh ltac:(lia) ltac:(lia)) as Hq.
      replace (64 - sh) with (ms + 1) in Hq by lia.
      assert (2 ^ ms <= mant / 2 ^ sh).
      { apply Z.div_le_lower_bound; [apply pow2_pos; lia|].
        rewrite <- pow2_split by lia. replace (sh + ms) with 63 by lia. lia. }
      lia. }
    (* normalised significand and exponent after the carry step *)
    set (carry := g sh =? 2 ^ (ms + 1)).
    set (m2 := if carry then 2 ^ ms else g sh).
    set (e2 := if carry then exp + sh + 1 else exp + sh).
    assert (Hval : F2R (Float radix2 (g sh) (exp - B + sh)) = F2R (Float radix2 m2 (e2 - B))).
    { unfold m2, e2, carry. destruct (g sh =? 2 ^ (ms + 1)) eqn:Ec.
      - apply Z.eqb_eq in Ec. rewrite Ec. rewrite !F2R_pow2 by lia. f_equal. lia.
      - f_equal. f_equal. lia. }
    assert (Hm2 : 2 ^ ms <= m2 < 2 ^ (ms + 1)).
    { unfold m2, carry. destruct (g sh =? 2 ^ (ms + 1)) eqn:Ec; lia. }
    assert (He2 : 1 <= e2) by (unfold e2; destruct carry; lia).
    rewrite Hval.
    destruct (INFINITE_POWER f <=? e2) eqn:Ei; cbn [Num.mant Num.exp].
    + split; [intros Habs; exfalso; lia|]. intros _. split; [reflexivity|].
      apply Rle_trans with (F2R (Float radix2 (2 ^ ms) (e2 - B))).
      * rewrite F2R_pow2 by lia. apply bpow_le. unfold B. rewrite Pbias. fold ms. lia.
      * apply F2R_le. lia.
    + split; [|intros Habs; exfalso; lia]. intros _. split.
      * unfold fields_val, decode_fields. cbn [Num.mant Num.exp]. fold ms.
        replace (e2 =? 0) with false by lia.
        replace (m2 - 2 ^ ms <? 2 ^ ms) with true by lia.
        f_equal. f_equal; lia.
      * split; [apply F2R_ge_0; cbn [Fnum]; lia|].
        apply Rlt_le_trans with (F2R (Float radix2 (2 ^ (ms + 1)) (e2 - B))).
        -- apply F2R_lt. lia.
        -- rewrite F2R_pow2 by lia. apply bpow_le. unfold B. rewrite Pbias. fold ms. lia.
Qed.

(** ** 4. Main theorems *)

(** Round to nearest, ties to even. *)
Theorem round_nearest_correct b mant exp :
  2 ^ 63 <= mant < 2 ^ 64 -> - 63 <= exp <= 2 ^ 30 ->
  let rx := Generic_fmt.round radix2 (ffexp f) ZnearestE (ext_val f mant exp) in
  exists r,
    Rounding.round f b (mkExt mant exp)
      (fun fp s => round_nearest_tie_even b fp s cb_nearest_even) = Ok r /\
    r = round_spec f (rnd_ne mant) exp /\
    0 <= Num.exp r <= INFINITE_POWER f /\
    (Num.exp r < INFINITE_POWER f ->
       fields_val f r = rx /\ (0 <= rx < bpow radix2 (emax f))%R) /\
    (Num.exp r = INFINITE_POWER f ->
       Num.mant r = 0 /\ (bpow radix2 (emax f) <= rx)%R).
Proof.
  intros Hm He rx. eexists. split; [apply round_ne_Z; assumption|]. split; [reflexivity|].
  assert (Hg : forall s, 1 <= s <= 64 -> mant / 2 ^ s <= rnd_ne mant s <= mant / 2 ^ s + 1)
    by (intros; apply rnd_ne_bounds; lia).
  split; [apply (round_spec_fields f (rnd_ne mant) mant exp Hf Hm He Hg)|].
  apply round_spec_flocq; try assumption.
  intros s Hs Hc. unfold ext_val, ffexp in *.
  replace (exp - B + s) with (exp - EXPONENT_BIAS f + s) by reflexivity.
  apply shift_round_NE; [lia|exact Hc].
Qed.

(** Truncation (the value is non-negative, so this is rounding toward zero as well as down). *)
Theorem round_down_correct b mant exp :
  2 ^ 63 <= mant < 2 ^ 64 -> - 63 <= exp <= 2 ^ 30 ->
  let x := ext_val f mant exp in
  let rx := Generic_fmt.round radix2 (ffexp f) Zfloor x in
  exists r,
    Rounding.round f b (mkExt mant exp) (round_down b) = Ok r /\
    r = round_spec f (fun s => mant / 2 ^ s) exp /\
    0 <= Num.exp r <= INFINITE_POWER f /\
    (Num.exp r < INFINITE_POWER f ->
       fields_val f r = rx /\ (0 <= rx < bpow radix2 (emax f))%R /\ (x < bpow radix2 (emax f))%R) /\
    (Num.exp r = INFINITE_POWER f ->
       Num.mant r = 0 /\ (bpow radix2 (emax f) <= rx)%R /\ (bpow radix2 (emax f) <= x)%R).
Proof.
  intros Hm He x rx. eexists. split; [apply round_down_round_Z; assumption|].
  split; [reflexivity|].
  assert (Hg : forall s, 1 <= s <= 64 ->
            mant / 2 ^ s <= (fun s => mant / 2 ^ s) s <= (fun s => mant / 2 ^ s) s + 1)
    by (intros; cbv beta; generalize (mant / 2 ^ s); intros; lia).
  split; [apply (round_spec_fields f _ mant exp Hf Hm He Hg)|].
  assert (HF : forall s, 1 <= s <= 64 ->
     cexp radix2 (ffexp f) (ext_val f mant exp) = exp - B + s ->
     Generic_fmt.round radix2 (ffexp f) Zfloor (ext_val f mant exp)
     = F2R (Float radix2 ((fun s => mant / 2 ^ s) s) (exp - B + s))).
  { intros s Hs Hc. unfold ext_val, ffexp in *.
    replace (exp - B + s) with (exp - EXPONENT_BIAS f + s) by reflexivity.
    apply shift_round_DN; [lia|exact Hc]. }
  pose proof (round_spec_flocq Zfloor _ mant exp Hm He Hg HF) as [H1 H2].
  cbv zeta in H1, H2. fold x rx in H1, H2.
  assert (Hfmt : generic_format radix2 (ffexp f) (bpow radix2 (emax f))).
  { apply generic_format_bpow. unfold ffexp, FLT_exp, femin, prec.
    destruct (rfmt_ok_props f Hf) as [Pms Pew Pbits Phid Pcarry Pmmask Pinf Pbias Pemask Pden Pprec]. pose proof (emax_ge_2 f Hf). lia. }
  pose proof (FLT_exp_valid (femin f) (prec f) (prec_gt_0_ := prec_gt_0_f)) as Hvalid.
  split.
  - intros Hlt. destruct (H1 Hlt) as [Ha Hb]. repeat split; try tauto.
    destruct (Rlt_or_le x (bpow radix2 (emax f))) as [Hx|Hx]; [exact Hx|exfalso].
    assert (bpow radix2 (emax f) <= rx)%R.
    { unfold rx. apply round_ge_generic; try assumption. apply valid_rnd_DN. }
    lra.
  - intros Heq. destruct (H2 Heq) as [Ha Hb]. repeat split; try assumption.
    apply Rle_trans with rx; [exact Hb|]. unfold rx. apply round_DN_pt. exact Hvalid.
Qed.


(** ** The packed word

    [extended_to_float] packs the two fields with [Z.lor] and a shift; the resulting bit pattern,
    decoded by [sf_of_bits], is the finite float of value [fields_val], or +infinity. *)

Lemma sf_of_bits_sum m e : 0 <= m < 2 ^ ms -> 0 <= e < 2 ^ ewidth f ->
  sf_of_bits f (m + e * 2 ^ ms) =
  if e =? 0 then
    match m with Zpos p => S754_finite false p (femin f) | _ => S754_zero false end
  else if e =? 2 ^ ewidth f - 1 then
    (if m =? 0 then S754_infinity false else S754_nan)
  else
    match m + 2 ^ ms with Zpos p => S754_finite false p (e + femin f - 1) | _ => S754_nan end.
Proof.
  intros Hm He. destruct (rfmt_ok_props f Hf) as [Pms Pew Pbits Phid Pcarry Pmmask Pinf Pbias Pemask Pden Pprec].
  fold ms in Pms. pose proof (pow2_pos ms ltac:(lia)) as Hpos.
  pose proof (pow2_pos (ewidth f) ltac:(lia)) as Hpose.
  unfold sf_of_bits. cbv zeta. fold ms.
  assert (E1 : (m + e * 2 ^ ms) mod 2 ^ ms = m).
  { rewrite Z.mod_add by lia. apply Z.mod_small. assumption. }
  assert (E2 : (m + e * 2 ^ ms) / 2 ^ ms = e).
  { rewrite Z.div_add by lia. rewrite Z.div_small by assumption. lia. }
  assert (E3 : (m + e * 2 ^ ms) / 2 ^ (ms + ewidth f) = 0).
  { apply Z.div_small. rewrite pow2_split by lia. nia. }
  rewrite E1, E2, E3. rewrite (Z.mod_small e) by assumption.
  change (0 mod 2 =? 0) with true. cbn [negb]. reflexivity.
Qed.

Theorem sf_of_bits_fields r : fields_shape f r ->
  let z := sf_of_bits f (pack_fields f r) in
  (Num.exp r < INFINITE_POWER f ->
     is_finite_SF z = true /\ sign_SF z = false /\ SF2R radix2 z = fields_val f r) /\
  (Num.exp r = INFINITE_POWER f -> z = S754_infinity false).
Proof.
  intros Hs. cbv zeta.
  destruct (pack_fields_sum f Hf r Hs) as (m & e & -> & Hm & He & Hee & Hmm).
  fold ms in Hm, Hmm |- *.
  rewrite sf_of_bits_sum by assumption.
  destruct Hs as (Her & H0 & H1 & H2 & H3).
  destruct (rfmt_ok_props f Hf) as [Pms Pew Pbits Phid Pcarry Pmmask Pinf Pbias Pemask Pden Pprec].
  fold ms in Pms. pose proof (pow2_pos ms ltac:(lia)) as Hpos.
  pose proof (pow2_le 2 (ewidth f) ltac:(lia)) as Hew. change (2 ^ 2) with 4 in Hew.
  unfold fields_val, decode_fields. fold ms. rewrite <- Pinf. rewrite <- Hee.
  split.
  - intros Hlt. replace (e =? INFINITE_POWER f) with false by lia.
    destruct (e =? 0) eqn:E0.
    + destruct Hmm as [Hmm|Hmm]; [|lia]. rewrite <- Hmm.
      destruct m as [|p|p]; [| |lia].
      * repeat split. cbn [SF2R]. symmetry. apply F2R_0.
      * repeat split.
    + assert (Hpos' : 0 < m + 2 ^ ms) by lia.
      destruct (m + 2 ^ ms) as [|p|p] eqn:Emp; [lia| |lia].
      repeat split. cbn [SF2R cond_Zopp]. rewrite <- Emp.
      destruct Hmm as [Hmm|(Hm1 & Hm2 & Hm3)].
      * rewrite <- Hmm. replace (m <? 2 ^ ms) with true by lia. f_equal; f_equal; lia.
      * rewrite Hm2. replace (2 ^ ms <? 2 ^ ms) with false by lia. f_equal; f_equal; lia.
  - intros Heq. replace (e =? 0) with false by lia. replace (e =? INFINITE_POWER f) with true by lia.
    destruct Hmm as [Hmm|Hmm]; [|lia]. rewrite Hmm, (H3 ltac:(lia)). reflexivity.
Qed.

(** ** C18, as worded: the packed result of the rounding primitive is the IEEE encoding of the
    correctly rounded value, or of +infinity on overflow. *)
Theorem round_nearest_packed b mant exp :
  2 ^ 63 <= mant < 2 ^ 64 -> - 63 <= exp <= 2 ^ 30 ->
  let rx := Generic_fmt.round radix2 (ffexp f) ZnearestE (ext_val f mant exp) in
  exists r w,
    Rounding.round f b (mkExt mant exp)
      (fun fp s => round_nearest_tie_even b fp s cb_nearest_even) = Ok r /\
    extended_to_float f b r = Ok w /\
    w = pack_fields f r /\ 0 <= w < 2 ^ (fbits f - 1) /\
    ((rx < bpow radix2 (emax f))%R ->
       is_finite_SF (sf_of_bits f w) = true /\ sign_SF (sf_of_bits f w) = false /\
       SF2R radix2 (sf_of_bits f w) = rx) /\
    ((bpow radix2 (emax f) <= rx)%R -> sf_of_bits f w = S754_infinity false).
Proof.
  intros Hm He rx.
  destruct (round_nearest_correct b mant exp Hm He) as (r & Hr & Hspec & Hrange & Hfin & Hinf).
  fold rx in Hfin, Hinf.
  assert (Hshape : fields_shape f r).
  { rewrite Hspec. apply (round_spec_fields f (rnd_ne mant) mant exp Hf Hm He).
    intros; apply rnd_ne_bounds; lia. }
  exists r, (pack_fields f r). split; [exact Hr|].
  split; [apply extended_to_float_fields; [exact Hf|exact Hshape]|]. split; [reflexivity|].
  split; [apply pack_fields_range; [exact Hf|exact Hshape]|].
  destruct (sf_of_bits_fields r Hshape) as [S1 S2].
  destruct (Z_lt_le_dec (Num.exp r) (INFINITE_POWER f)) as [Hlt|Hge].
  - destruct (Hfin Hlt) as [Hv Hb]. destruct (S1 Hlt) as (F1 & F2 & F3). split.
    + intros _. rewrite F3, Hv. auto.
    + intros Habs. exfalso. lra.
  - assert (Heq : Num.exp r = INFINITE_POWER f) by lia. destruct (Hinf Heq) as [_ Hb]. split.
    + intros Habs. exfalso. lra.
    + intros _. apply S2. exact Heq.
Qed.

Theorem round_down_packed b mant exp :
  2 ^ 63 <= mant < 2 ^ 64 -> - 63 <= exp <= 2 ^ 30 ->
  let x := ext_val f mant exp in
  let rx := Generic_fmt.round radix2 (ffexp f) Zfloor x in
  exists r w,
    Rounding.round f b (mkExt mant exp) (round_down b) = Ok r /\
    extended_to_float f b r = Ok w /\
    w = pack_fields f r /\ 0 <= w < 2 ^ (fbits f - 1) /\
    ((x < bpow radix2 (emax f))%R ->
       is_finite_SF (sf_of_bits f w) = true /\ sign_SF (sf_of_bits f w) = false /\
       SF2R radix2 (sf_of_bits f w) = rx) /\
    ((bpow radix2 (emax f) <= x)%R -> sf_of_bits f w = S754_infinity false).
Proof.
  intros Hm He x rx.
  destruct (round_down_correct b mant exp Hm He) as (r & Hr & Hspec & Hrange & Hfin & Hinf).
  fold x rx in Hfin, Hinf.
  assert (Hshape : fields_shape f r).
  { rewrite Hspec. apply (round_spec_fields f _ mant exp Hf Hm He).
    intros; cbv beta; generalize (mant / 2 ^ s); intros; lia. }
  exists r, (pack_fields f r). split; [exact Hr|].
  split; [apply extended_to_float_fields; [exact Hf|exact Hshape]|]. split; [reflexivity|].
  split; [apply pack_fields_range; [exact Hf|exact Hshape]|].
  destruct (sf_of_bits_fields r Hshape) as [S1 S2].
  destruct (Z_lt_le_dec (Num.exp r) (INFINITE_POWER f)) as [Hlt|Hge].
  - destruct (Hfin Hlt) as (Hv & Hb & Hx). destruct (S1 Hlt) as (F1 & F2 & F3). split.
    + intros _. rewrite F3, Hv. auto.
    + intros Habs. exfalso. lra.
  - assert (Heq : Num.exp r = INFINITE_POWER f) by lia. destruct (Hinf Heq) as (_ & Hb & Hx). split.
    + intros Habs. exfalso. lra.
    + intros _. apply S2. exact Heq.
Qed.

End WithFormat.

(** ** The packed word is the result of the standard library's IEEE rounding

    [SpecFloat.binary_normalize prec emax m e false] is Coq's executable specification of
    "round [m * 2^e] to nearest even into the binary format, overflow to infinity" (it is what
    [spec/Round.v] and [model/FloatOps.v] use).  The rounding primitive followed by the packing
    yields exactly the bit pattern that decodes to it. *)

Lemma binary_round_aux_equiv p emx sx mx ex lx :
  SpecFloat.binary_round_aux p emx sx mx ex lx
  = BinarySingleNaN.binary_round_aux p emx mode_NE sx mx ex lx.
Proof.
  unfold SpecFloat.binary_round_aux, binary_round_aux.
  destruct (shr_fexp p emx mx ex lx) as [mrs' e']. cbn [fst snd].
  replace (choice_mode mode_NE sx (shr_m mrs') (loc_of_shr_record mrs'))
    with (round_nearest_even (shr_m mrs') (loc_of_shr_record mrs')); [reflexivity|].
  destruct (loc_of_shr_record mrs') as [|c]; [reflexivity|].
  destruct c; cbn [round_nearest_even choice_mode round_N]; try reflexivity.
  unfold cond_incr. destruct (Z.even (shr_m mrs')); reflexivity.
Qed.

Lemma binary_round_equiv p emx sx mx ex :
  SpecFloat.binary_round p emx sx mx ex = BinarySingleNaN.binary_round p emx mode_NE sx mx ex.
Proof.
  unfold SpecFloat.binary_round, binary_round, shl_align_fexp.
  destruct (shl_align mx ex _) as [mz ez]. apply binary_round_aux_equiv.
Qed.

Section IEEE.
Variable f : format.
Hypothesis Hf : rfmt_ok f = true.
Let ms := MANTISSA_SIZE f.

Lemma prec_lt_emax_f : Prec_lt_emax (prec f) (emax f).
Proof.
  destruct (rfmt_ok_props f Hf) as [Pms Pew Pbits Phid Pcarry Pmmask Pinf Pbias Pemask Pden Pprec].
  exact Pprec.
Qed.

Lemma sf_unique z1 z2 :
  SpecFloat.valid_binary (prec f) (emax f) z1 = true ->
  SpecFloat.valid_binary (prec f) (emax f) z2 = true ->
  is_finite_SF z1 = true -> is_finite_SF z2 = true ->
  sign_SF z1 = sign_SF z2 -> SF2R radix2 z1 = SF2R radix2 z2 -> z1 = z2.
Proof.
  intros V1 V2 F1 F2 S R.
  rewrite <- (B2SF_SF2B (prec f) (emax f) z1 V1), <- (B2SF_SF2B (prec f) (emax f) z2 V2).
  f_equal. apply B2R_Bsign_inj.
  - rewrite is_finite_SF2B. exact F1.
  - rewrite is_finite_SF2B. exact F2.
  - rewrite !B2R_SF2B. exact R.
  - rewrite !Bsign_SF2B. exact S.
Qed.

Lemma bounded_intro (p : positive) E :
  Z.max (Zdigits radix2 (Zpos p) + E - prec f) (femin f) = E -> E <= emax f - prec f ->
  SpecFloat.bounded (prec f) (emax f) p E = true.
Proof.
  intros H1 H2. unfold SpecFloat.bounded, SpecFloat.canonical_mantissa, SpecFloat.fexp, SpecFloat.emin.
  rewrite Zpos_digits2_pos. apply andb_true_intro. split.
  - apply Zeq_bool_true. exact H1.
  - apply Z.leb_le. exact H2.
Qed.

Theorem valid_sf_of_bits_fields r : fields_shape f r ->
  SpecFloat.valid_binary (prec f) (emax f) (sf_of_bits f (pack_fields f r)) = true.
Proof.
  intros Hs.
  destruct (pack_fields_sum f Hf r Hs) as (m & e & -> & Hm & He & Hee & Hmm).
  fold ms in Hm, Hmm |- *.
  rewrite sf_of_bits_sum by assumption.
  destruct Hs as (Her & H0 & H1 & H2 & H3).
  destruct (rfmt_ok_props f Hf) as [Pms Pew Pbits Phid Pcarry Pmmask Pinf Pbias Pemask Pden Pprec].
  pose proof (inf_power_emax f Hf) as Hinf. pose proof (emax_ge_2 f Hf) as Hemax.
  fold ms in Pms. pose proof (pow2_pos ms ltac:(lia)) as Hpos.
  pose proof (pow2_succ ms ltac:(lia)) as Hsucc.
  rewrite <- Pinf. fold ms.
  destruct (e =? 0) eqn:E0.
  - destruct m as [|p|p]; [reflexivity| |lia].
    cbn [SpecFloat.valid_binary]. apply bounded_intro.
    + assert (Hd : Zdigits radix2 (Zpos p) <= ms).
      { apply Zdigits_le_Zpower. rewrite Z.abs_eq by lia. change (Zpower radix2 ms) with (2 ^ ms). lia. }
      unfold prec. fold ms. lia.
    + unfold femin. lia.
  - destruct (e =? INFINITE_POWER f) eqn:Ei.
    + destruct (m =? 0); reflexivity.
    + assert (Hpos' : 0 < m + 2 ^ ms) by lia.
      destruct (m + 2 ^ ms) as [|p|p] eqn:Emp; [lia| |lia].
      cbn [SpecFloat.valid_binary]. apply bounded_intro.
      * assert (Hd : Zdigits radix2 (Zpos p) = ms + 1).
        { apply Zdigits_unique. rewrite Z.abs_eq by lia.
          change (Zpower radix2 (ms + 1 - 1)) with (2 ^ (ms + 1 - 1)).
          change (Zpower radix2 (ms + 1)) with (2 ^ (ms + 1)).
          replace (ms + 1 - 1) with ms by lia. lia. }
        rewrite Hd. unfold prec. fold ms. lia.
      * unfold femin. lia.
Qed.

Theorem round_nearest_is_binary_normalize b mant exp :
  2 ^ 63 <= mant < 2 ^ 64 -> - 63 <= exp <= 2 ^ 30 ->
  exists r w,
    Rounding.round f b (mkExt mant exp)
      (fun fp s => round_nearest_tie_even b fp s cb_nearest_even) = Ok r /\
    extended_to_float f b r = Ok w /\
    0 <= w < 2 ^ (fbits f - 1) /\
    sf_of_bits f w
    = SpecFloat.binary_normalize (prec f) (emax f) mant (exp - EXPONENT_BIAS f) false.
Proof.
  intros Hm He.
  destruct (round_nearest_packed f Hf b mant exp Hm He) as (r & w & Hr & Hw & Hwp & Hwr & Hfin & Hinf).
  exists r, w. split; [exact Hr|]. split; [exact Hw|]. split; [exact Hwr|].
  assert (Hshape : fields_shape f r).
  { rewrite (round_ne_Z f b mant exp Hf Hm He) in Hr. injection Hr as <-.
    apply (round_spec_shape f Hf _ mant); try assumption. intros; apply rnd_ne_bounds; lia. }
  pose proof (valid_sf_of_bits_fields r Hshape) as Hvalid. rewrite <- Hwp in Hvalid.
  destruct mant as [|p|p]; [lia| |lia].
  cbn [SpecFloat.binary_normalize]. rewrite binary_round_equiv.
  pose proof (binary_round_correct (prec f) (emax f) (prec_gt_0_f f Hf) prec_lt_emax_f
                mode_NE false p (exp - EXPONENT_BIAS f)) as [V H].
  cbv zeta in H. cbn [cond_Zopp round_mode] in H.
  change (F2R (Float radix2 (Zpos p) (exp - EXPONENT_BIAS f))) with (ext_val f (Zpos p) exp) in H.
  change (SpecFloat.fexp (prec f) (emax f)) with (ffexp f) in H.
  set (rx := Generic_fmt.round radix2 (ffexp f) ZnearestE (ext_val f (Zpos p) exp)) in *.
  assert (Hrx0 : (0 <= rx)%R).
  { unfold rx. apply round_ge_generic.
    - apply (FLT_exp_valid (femin f) (prec f) (prec_gt_0_ := prec_gt_0_f f Hf)).
    - apply valid_rnd_N.
    - apply generic_format_0.
    - apply F2R_ge_0. cbn [Fnum]. lia. }
  rewrite Rabs_pos_eq in H by exact Hrx0.
  destruct (Rlt_bool_spec rx (bpow radix2 (emax f))) as [Hlt|Hge].
  - destruct H as (R2 & F2 & S2). destruct (Hfin Hlt) as (F1 & S1 & R1).
    apply sf_unique; try assumption; congruence.
  - rewrite H. rewrite (Hinf Hge). reflexivity.
Qed.

End IEEE.

(** ** 5. The two formats of the crate, with the exponent ranges of property C18 *)

Lemma exp_range_64 exp : - 63 <= exp <= 2100 -> - 63 <= exp <= 2 ^ 30.
Proof. intros H. assert (2100 <= 2 ^ 30) by (vm_compute; discriminate). lia. Qed.
Lemma exp_range_32 exp : - 63 <= exp <= 320 -> - 63 <= exp <= 2 ^ 30.
Proof. intros H. assert (320 <= 2 ^ 30) by (vm_compute; discriminate). lia. Qed.

Corollary round_nearest_correct_F64 b mant exp :
  2 ^ 63 <= mant < 2 ^ 64 -> - 63 <= exp <= 2100 ->
  let rx := Generic_fmt.round radix2 (ffexp F64) ZnearestE (ext_val F64 mant exp) in
  exists r,
    Rounding.round F64 b (mkExt mant exp)
      (fun fp s => round_nearest_tie_even b fp s cb_nearest_even) = Ok r /\
    r = round_spec F64 (rnd_ne mant) exp /\
    0 <= Num.exp r <= INFINITE_POWER F64 /\
    (Num.exp r < INFINITE_POWER F64 ->
       fields_val F64 r = rx /\ (0 <= rx < bpow radix2 (emax F64))%R) /\
    (Num.exp r = INFINITE_POWER F64 ->
       Num.mant r = 0 /\ (bpow radix2 (emax F64) <= rx)%R).
Proof. intros Hm He. apply (round_nearest_correct F64 rfmt_ok_F64 b mant exp Hm (exp_range_64 _ He)). Qed.

Corollary round_nearest_correct_F32 b mant exp :
  2 ^ 63 <= mant < 2 ^ 64 -> - 63 <= exp <= 320 ->
  let rx := Generic_fmt.round radix2 (ffexp F32) ZnearestE (ext_val F32 mant exp) in
  exists r,
    Rounding.round F32 b (mkExt mant exp)
      (fun fp s => round_nearest_tie_even b fp s cb_nearest_even) = Ok r /\
    r = round_spec F32 (rnd_ne mant) exp /\
    0 <= Num.exp r <= INFINITE_POWER F32 /\
    (Num.exp r < INFINITE_POWER F32 ->
       fields_val F32 r = rx /\ (0 <= rx < bpow radix2 (emax F32))%R) /\
    (Num.exp r = INFINITE_POWER F32 ->
       Num.mant r = 0 /\ (bpow radix2 (emax F32) <= rx)%R).
Proof. intros Hm He. apply (round_nearest_correct F32 rfmt_ok_F32 b mant exp Hm (exp_range_32 _ He)). Qed.

Corollary round_down_correct_F64 b mant exp :
  2 ^ 63 <= mant < 2 ^ 64 -> - 63 <= exp <= 2100 ->
  let x := ext_val F64 mant exp in
  let rx := Generic_fmt.round radix2 (ffexp F64) Zfloor x in
  exists r,
    Rounding.round F64 b (mkExt mant exp) (round_down b) = Ok r /\
    r = round_spec F64 (fun s => mant / 2 ^ s) exp /\
    0 <= Num.exp r <= INFINITE_POWER F64 /\
    (Num.exp r < INFINITE_POWER F64 ->
       fields_val F64 r = rx /\ (0 <= rx < bpow radix2 (emax F64))%R /\ (x < bpow radix2 (emax F64))%R) /\
    (Num.exp r = INFINITE_POWER F64 ->
       Num.mant r = 0 /\ (bpow radix2 (emax F64) <= rx)%R /\ (bpow radix2 (emax F64) <= x)%R).
Proof. intros Hm He. apply (round_down_correct F64 rfmt_ok_F64 b mant exp Hm (exp_range_64 _ He)). Qed.

Corollary round_down_correct_F32 b mant exp :
  2 ^ 63 <= mant < 2 ^ 64 -> - 63 <= exp <= 320 ->
  let x := ext_val F32 mant exp in
  let rx := Generic_fmt.round radix2 (ffexp F32) Zfloor x in
  exists r,
    Rounding.round F32 b (mkExt mant exp) (round_down b) = Ok r /\
    r = round_spec F32 (fun s => mant / 2 ^ s) exp /\
    0 <= Num.exp r <= INFINITE_POWER F32 /\
    (Num.exp r < INFINITE_POWER F32 ->
       fields_val F32 r = rx /\ (0 <= rx < bpow radix2 (emax F32))%R /\ (x < bpow radix2 (emax F32))%R) /\
    (Num.exp r = INFINITE_POWER F32 ->
       Num.mant r = 0 /\ (bpow radix2 (emax F32) <= rx)%R /\ (bpow radix2 (emax F32) <= x)%R).
Proof. intros Hm He. apply (round_down_correct F32 rfmt_ok_F32 b mant exp Hm (exp_range_32 _ He)). Qed.

Corollary round_nearest_packed_F64 b mant exp :
  2 ^ 63 <= mant < 2 ^ 64 -> - 63 <= exp <= 2100 ->
  let rx := Generic_fmt.round radix2 (ffexp F64) ZnearestE (ext_val F64 mant exp) in
  exists r w,
    Rounding.round F64 b (mkExt mant exp)
      (fun fp s => round_nearest_tie_even b fp s cb_nearest_even) = Ok r /\
    extended_to_float F64 b r = Ok w /\
    w = pack_fields F64 r /\ 0 <= w < 2 ^ 63 /\
    ((rx < bpow radix2 (emax F64))%R ->
       is_finite_SF (sf_of_bits F64 w) = true /\ sign_SF (sf_of_bits F64 w) = false /\
       SF2R radix2 (sf_of_bits F64 w) = rx) /\
    ((bpow radix2 (emax F64) <= rx)%R -> sf_of_bits F64 w = S754_infinity false).
Proof. intros Hm He. apply (round_nearest_packed F64 rfmt_ok_F64 b mant exp Hm (exp_range_64 _ He)). Qed.

Corollary round_nearest_packed_F32 b mant exp :
  2 ^ 63 <= mant < 2 ^ 64 -> - 63 <= exp <= 320 ->
  let rx := Generic_fmt.round radix2 (ffexp F32) ZnearestE (ext_val F32 mant exp) in
  exists r w,
    Rounding.round F32 b (mkExt mant exp)
      (fun fp s => round_nearest_tie_even b fp s cb_nearest_even) = Ok r /\
    extended_to_float F32 b r = Ok w /\
    w = pack_fields F32 r /\ 0 <= w < 2 ^ 31 /\
    ((rx < bpow radix2 (emax F32))%R ->
       is_finite_SF (sf_of_bits F32 w) = true /\ sign_SF (sf_of_bits F32 w) = false /\
       SF2R radix2 (sf_of_bits F32 w) = rx) /\
    ((bpow radix2 (emax F32) <= rx)%R -> sf_of_bits F32 w = S754_infinity false).
Proof. intros Hm He. apply (round_nearest_packed F32 rfmt_ok_F32 b mant exp Hm (exp_range_32 _ He)). Qed.

Corollary round_down_packed_F64 b mant exp :
  2 ^ 63 <= mant < 2 ^ 64 -> - 63 <= exp <= 2100 ->
  let x := ext_val F64 mant exp in
  let rx := Generic_fmt.round radix2 (ffexp F64) Zfloor x in
  exists r w,
    Rounding.round F64 b (mkExt mant exp) (round_down b) = Ok r /\
    extended_to_float F64 b r = Ok w /\
    w = pack_fields F64 r /\ 0 <= w < 2 ^ 63 /\
    ((x < bpow radix2 (emax F64))%R ->
       is_finite_SF (sf_of_bits F64 w) = true /\ sign_SF (sf_of_bits F64 w) = false /\
       SF2R radix2 (sf_of_bits F64 w) = rx) /\
    ((bpow radix2 (emax F64) <= x)%R -> sf_of_bits F64 w = S754_infinity false).
Proof. intros Hm He. apply (round_down_packed F64 rfmt_ok_F64 b mant exp Hm (exp_range_64 _ He)). Qed.

Corollary round_down_packed_F32 b mant exp :
  2 ^ 63 <= mant < 2 ^ 64 -> - 63 <= exp <= 320 ->
  let x := ext_val F32 mant exp in
  let rx := Generic_fmt.round radix2 (ffexp F32) Zfloor x in
  exists r w,
    Rounding.round F32 b (mkExt mant exp) (round_down b) = Ok r /\
    extended_to_float F32 b r = Ok w /\
    w = pack_fields F32 r /\ 0 <= w < 2 ^ 31 /\
    ((x < bpow radix2 (emax F32))%R ->
       is_finite_SF (sf_of_bits F32 w) = true /\ sign_SF (sf_of_bits F32 w) = false /\
       SF2R radix2 (sf_of_bits F32 w) = rx) /\
    ((bpow radix2 (emax F32) <= x)%R -> sf_of_bits F32 w = S754_infinity false).
Proof. intros Hm He. apply (round_down_packed F32 rfmt_ok_F32 b mant exp Hm (exp_range_32 _ He)). Qed.

Corollary round_nearest_is_binary_normalize_F64 b mant exp :
  2 ^ 63 <= mant < 2 ^ 64 -> - 63 <= exp <= 2100 ->
  exists r w,
    Rounding.round F64 b (mkExt mant exp)
      (fun fp s => round_nearest_tie_even b fp s cb_nearest_even) = Ok r /\
    extended_to_float F64 b r = Ok w /\
    0 <= w < 2 ^ 63 /\
    sf_of_bits F64 w
    = SpecFloat.binary_normalize (prec F64) (emax F64) mant (exp - EXPONENT_BIAS F64) false.
Proof. intros Hm He. apply (round_nearest_is_binary_normalize F64 rfmt_ok_F64 b mant exp Hm (exp_range_64 _ He)). Qed.

Corollary round_nearest_is_binary_normalize_F32 b mant exp :
  2 ^ 63 <= mant < 2 ^ 64 -> - 63 <= exp <= 320 ->
  exists r w,
    Rounding.round F32 b (mkExt mant exp)
      (fun fp s => round_nearest_tie_even b fp s cb_nearest_even) = Ok r /\
    extended_to_float F32 b r = Ok w /\
    0 <= w < 2 ^ 31 /\
    sf_of_bits F32 w
    = SpecFloat.binary_normalize (prec F32) (emax F32) mant (exp - EXPONENT_BIAS F32) false.
Proof. intros Hm He. apply (round_nearest_is_binary_normalize F32 rfmt_ok_F32 b mant exp Hm (exp_range_32 _ He)). Qed.

(** ** Examples (f64; the hypotheses of the theorems are the two range conditions, satisfied by
    each instance below) *)

Definition rn64 (b : build) (m e : Z) : outcome extfloat :=
  Rounding.round F64 b (mkExt m e) (fun fp s => round_nearest_tie_even b fp s cb_nearest_even).
Definition rd64 (b : build) (m e : Z) : outcome extfloat :=
  Rounding.round F64 b (mkExt m e) (round_down b).

Example ex_hyps : (2 ^ 63 <= 2 ^ 64 - 1 < 2 ^ 64) /\ (- 63 <= - 11 <= 2100).
Proof. split; split; vm_compute; discriminate || reflexivity. Qed.

(** normal: (1 + 12345 * 2^-52 + tiny) * 2^0 -> fraction 12345, biased exponent 1023 *)
Example ex_normal : rn64 checked_build (2 ^ 63 + 12345 * 2 ^ 11 + 5) 1012 = Ok (mkExt 12345 1023).
Proof. vm_compute; reflexivity. Qed.
(** ties: exactly half an ulp above an even / an odd significand *)
Example ex_tie_even_down : rn64 checked_build (2 ^ 63 + 2 ^ 10) 1012 = Ok (mkExt 0 1023).
Proof. vm_compute; reflexivity. Qed.
Example ex_tie_even_up : rn64 checked_build (2 ^ 63 + 2 ^ 11 + 2 ^ 10) 1012 = Ok (mkExt 2 1023).
Proof. vm_compute; reflexivity. Qed.
(** subnormal result: exponent field 0 *)
Example ex_subnormal : rn64 checked_build (2 ^ 63 + 2 ^ 62) (-20) = Ok (mkExt (3 * 2 ^ 41) 0).
Proof. vm_compute; reflexivity. Qed.
(** the largest subnormal plus almost one ulp rounds up to the smallest normal: the fraction
    carries the hidden bit and the exponent field is 1; the packed word is 2^52 *)
Example ex_subnormal_to_normal :
  rn64 checked_build (2 ^ 64 - 1) (-11) = Ok (mkExt (2 ^ 52) 1) /\
  pack_fields F64 (mkExt (2 ^ 52) 1) = 2 ^ 52 /\
  sf_of_bits F64 (2 ^ 52) = S754_finite false (2 ^ 52)%positive (-1074) /\
  rd64 checked_build (2 ^ 64 - 1) (-11) = Ok (mkExt (2 ^ 52 - 1) 0).
Proof. repeat split; vm_compute; reflexivity. Qed.
(** carry into the next binade *)
Example ex_carry : rn64 checked_build (2 ^ 64 - 1) 100 = Ok (mkExt 0 112).
Proof. vm_compute; reflexivity. Qed.
(** overflow: by the exponent alone, by a carry out of the top binade; truncation stays finite *)
Example ex_overflow :
  rn64 checked_build (2 ^ 63) 2036 = Ok (mkExt 0 2047) /\
  rn64 checked_build (2 ^ 64 - 1) 2035 = Ok (mkExt 0 2047) /\
  rn64 checked_build (2 ^ 64 - 2 ^ 11) 2035 = Ok (mkExt (2 ^ 52 - 1) 2046) /\
  rd64 checked_build (2 ^ 64 - 1) 2035 = Ok (mkExt (2 ^ 52 - 1) 2046).
Proof. repeat split; vm_compute; reflexivity. Qed.
(** the bottom of the range: a 64-bit shift; 2^63 * 2^(-63-1075) is half the smallest subnormal
    and ties to zero, anything above rounds to the smallest subnormal *)
Example ex_shift_64 :
  rn64 checked_build (2 ^ 63) (-63) = Ok (mkExt 0 0) /\
  rn64 checked_build (2 ^ 63 + 1) (-63) = Ok (mkExt 1 0) /\
  rd64 checked_build (2 ^ 64 - 1) (-63) = Ok (mkExt 0 0).
Proof. repeat split; vm_compute; reflexivity. Qed.

(** cross-check of [round_nearest_is_binary_normalize] by computation on the instances above *)
Definition sf_eqb (x y : spec_float) : bool :=
  match x, y with
  | S754_finite s1 m1 e1, S754_finite s2 m2 e2 => Bool.eqb s1 s2 && Pos.eqb m1 m2 && Z.eqb e1 e2
  | S754_zero s1, S754_zero s2 => Bool.eqb s1 s2
  | S754_infinity s1, S754_infinity s2 => Bool.eqb s1 s2
  | _, _ => false
  end.
Definition check_normalize (f : format) (b : build) (m e : Z) : bool :=
  match Rounding.round f b (mkExt m e) (fun fp s => round_nearest_tie_even b fp s cb_nearest_even) with
  | Ok r =>
      match extended_to_float f b r with
      | Ok w => sf_eqb (sf_of_bits f w)
                  (SpecFloat.binary_normalize (prec f) (emax f) m (e - EXPONENT_BIAS f) false)
      | _ => false
      end
  | _ => false
  end.
Example ex_binary_normalize :
  forallb (fun '(m, e) => check_normalize F64 checked_build m e && check_normalize F64 release_build m e)
    ((2 ^ 64 - 1, -11) :: (2 ^ 64 - 1, -10) :: (2 ^ 63, -63) :: (2 ^ 63 + 1, -63) ::
     (2 ^ 63 + 2 ^ 10, 1012) :: (2 ^ 63 + 2 ^ 11 + 2 ^ 10, 1012) :: (2 ^ 64 - 1, 2035) ::
     (2 ^ 64 - 2 ^ 11, 2035) :: (2 ^ 63, 2036) :: (2 ^ 63 + 2 ^ 62, -20) :: (2 ^ 64 - 1, 100) ::
     (2 ^ 63, 2100) :: nil) = true /\
  forallb (fun '(m, e) => check_normalize F32 checked_build m e && check_normalize F32 release_build m e)
    ((2 ^ 64 - 1, -40) :: (2 ^ 64 - 1, -39) :: (2 ^ 63, -63) :: (2 ^ 63 + 1, -63) ::
     (2 ^ 63 + 2 ^ 39, 150) :: (2 ^ 63 + 2 ^ 40 + 2 ^ 39, 150) :: (2 ^ 64 - 1, 214) ::
     (2 ^ 64 - 2 ^ 40, 214) :: (2 ^ 63, 215) :: (2 ^ 63 + 2 ^ 62, -50) :: (2 ^ 64 - 1, 100) ::
     (2 ^ 63, 320) :: nil) = true.
Proof. split; vm_compute; reflexivity. Qed.

(** the same instance read through the main theorem: the value (2^64 - 1) * 2^(-11 - 1075)
    rounds (in the reals, by Flocq's definition) to 2^-1022, the smallest normal double *)
Example ex_subnormal_to_normal_real :
  Generic_fmt.round radix2 (ffexp F64) ZnearestE (ext_val F64 (2 ^ 64 - 1) (-11))
  = bpow radix2 (-1022).
Proof.
  destruct ex_hyps as [Hm He].
  destruct (round_nearest_correct_F64 checked_build _ _ Hm He) as (r & _ & Hspec & _ & Hfin & _).
  assert (Hr : r = mkExt (2 ^ 52) 1) by (rewrite Hspec; vm_compute; reflexivity).
  subst r. rewrite Hr in Hfin. clear Hr.
  destruct Hfin as [Hv _]; [vm_compute; reflexivity|].
  rewrite <- Hv. unfold fields_val.
  replace (decode_fields F64 (Num.mant (mkExt (2 ^ 52) 1)) (Num.exp (mkExt (2 ^ 52) 1)))
    with (2 ^ 52, -1074) by (vm_compute; reflexivity).
  rewrite F2R_pow2 by lia. reflexivity.
Qed.

Print Assumptions lower_n_mask_ok.
Print Assumptions lower_n_halfway_ok.
Print Assumptions nth_bit_ok.
Print Assumptions round_nearest_tie_even_Z.
Print Assumptions round_down_Z.
Print Assumptions round_Z.
Print Assumptions round_nearest_correct.
Print Assumptions round_down_correct.
Print Assumptions round_nearest_packed.
Print Assumptions round_down_packed.
Print Assumptions round_nearest_is_binary_normalize.
Print Assumptions round_nearest_packed_F64.
Print Assumptions round_nearest_packed_F32.
