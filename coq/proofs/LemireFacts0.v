(** * LemireFacts0: Eisel-Lemire, stage 0.
    Utilities (monad, machine ops, powers of two), [full_multiplication], [power],
    [compute_product_approx], the format side conditions [lfmt_ok], the per-entry table
    check [qcheck], and the trivial branches of [compute_float]. *)
From Coq Require Import ZArith List Bool Lia Znumtheory.
From Coq Require Import ZifyBool.
From ML Require Import base.RustSem model.Fmt model.Num model.Number model.Lemire
  gen.Consts gen.Tables spec.RneZ proofs.TableFacts.
Import ListNotations.
Open Scope Z_scope.

Arguments Z.pow : simpl never.
Local Opaque Z.pow.

(** ** monad *)
Lemma bind_Ok {A B} (a : A) (g : A -> outcome B) : bind (Ok a) g = g a.
Proof. reflexivity. Qed.

Lemma bind_inv {A B} (x : outcome A) (g : A -> outcome B) r :
  bind x g = Ok r -> exists a, x = Ok a /\ g a = Ok r.
Proof. destruct x; cbn [bind]; intros H; try discriminate. eauto. Qed.

(** ** numerals for the word sizes *)
Lemma p2_64 : 2 ^ 64 = 18446744073709551616. Proof. reflexivity. Qed.
Lemma p2_63 : 2 ^ 63 = 9223372036854775808. Proof. reflexivity. Qed.
Lemma p2_32 : 2 ^ 32 = 4294967296. Proof. reflexivity. Qed.
Lemma p2_31 : 2 ^ 31 = 2147483648. Proof. reflexivity. Qed.
Lemma p2_16 : 2 ^ 16 = 65536. Proof. reflexivity. Qed.
Lemma p2_128 : 2 ^ 128 = 2 ^ 64 * 2 ^ 64. Proof. reflexivity. Qed.
Lemma p2_127 : 2 ^ 127 = 2 ^ 63 * 2 ^ 64. Proof. reflexivity. Qed.

Lemma pow2_pos n : 0 <= n -> 0 < 2 ^ n.
Proof. intros. apply Z.pow_pos_nonneg; lia. Qed.
Lemma pow2_add a c : 0 <= a -> 0 <= c -> 2 ^ (a + c) = 2 ^ a * 2 ^ c.
Proof. intros. apply Z.pow_add_r; lia. Qed.
Lemma pow2_le a c : 0 <= a <= c -> 2 ^ a <= 2 ^ c.
Proof. intros. apply Z.pow_le_mono_r; lia. Qed.
Lemma pow2_lt a c : 0 <= a < c -> 2 ^ a < 2 ^ c.
Proof. intros. apply Z.pow_lt_mono_r; lia. Qed.
Lemma pow2_S a : 0 <= a -> 2 ^ (a + 1) = 2 * 2 ^ a.
Proof. intros. rewrite pow2_add by lia. change (2 ^ 1) with 2. lia. Qed.
Lemma pow2_split a c : 0 <= a <= c -> 2 ^ c = 2 ^ a * 2 ^ (c - a).
Proof. intros. rewrite <- pow2_add by lia. f_equal. lia. Qed.

(** ** machine operations that do not overflow *)
Lemma sop32_ok b r : - 2147483648 <= r < 2147483648 -> sop b 32 r = Ok r.
Proof.
  intros H. unfold sop, in_s. change (32 - 1) with 31. rewrite p2_31.
  destruct ((- (2147483648) <=? r) && (r <? 2147483648)) eqn:E; [reflexivity|lia].
Qed.
Lemma uop64_ok b r : 0 <= r < 2 ^ 64 -> uop b 64 r = Ok r.
Proof.
  intros H. unfold uop, in_u. replace ((0 <=? r) && (r <? 2 ^ 64)) with true by lia. reflexivity.
Qed.
Lemma shl64_ok b x k : 0 <= k < 64 -> u64_shl b x k = Ok ((x * 2 ^ k) mod 2 ^ 64).
Proof.
  intros H. unfold u64_shl, shl_u, wrapu. replace ((0 <=? k) && (k <? 64)) with true by lia. reflexivity.
Qed.
Lemma shr64_ok b x k : 0 <= k < 64 -> u64_shr b x k = Ok (x / 2 ^ k).
Proof.
  intros H. unfold u64_shr, shr_u. replace ((0 <=? k) && (k <? 64)) with true by lia. reflexivity.
Qed.
Lemma debug_assert_ok b : debug_assert b true = Ok tt.
Proof. unfold debug_assert. cbn [negb]. rewrite andb_false_r. reflexivity. Qed.

(** ** bit masks *)
Lemma ones_div p : 0 <= p <= 64 -> (2 ^ 64 - 1) / 2 ^ p = 2 ^ (64 - p) - 1.
Proof.
  intros H. pose proof (pow2_pos p ltac:(lia)). pose proof (pow2_pos (64 - p) ltac:(lia)).
  rewrite (pow2_split p 64) by lia.
  symmetry. apply (Z.div_unique_pos _ _ _ (2 ^ p - 1)); nia.
Qed.
Lemma land_mask x k : 0 <= k -> Z.land x (2 ^ k - 1) = x mod 2 ^ k.
Proof.
  intros H. rewrite <- Z.land_ones by lia. rewrite Z.ones_equiv. reflexivity.
Qed.
Lemma land_1 x : Z.land x 1 = x mod 2.
Proof. apply (land_mask x 1). lia. Qed.
Lemma land_3 x : Z.land x 3 = x mod 4.
Proof. apply (land_mask x 2). lia. Qed.

(** clearing one bit that is known to be set *)
Lemma u64_not_lnot y : 0 <= y < 2 ^ 64 -> u64_not y = Z.lnot y mod 2 ^ 64.
Proof.
  intros H. unfold u64_not, Z.lnot.
  apply (Z.mod_unique_pos _ _ (-1)); lia.
Qed.

Lemma land_u64_not x y : 0 <= x < 2 ^ 64 -> 0 <= y < 2 ^ 64 -> Z.land x (u64_not y) = Z.ldiff x y.
Proof.
  intros Hx Hy. rewrite u64_not_lnot by assumption.
  apply Z.bits_inj'. intros n Hn.
  rewrite Z.land_spec, Z.ldiff_spec.
  destruct (Z.ltb_spec n 64) as [Hlt|Hge].
  - rewrite Z.mod_pow2_bits_low by lia. rewrite Z.lnot_spec by lia. reflexivity.
  - rewrite Z.mod_pow2_bits_high by lia.
    replace x with (x mod 2 ^ 64) by (apply Z.mod_small; lia).
    rewrite Z.mod_pow2_bits_high by lia. reflexivity.
Qed.

Lemma clear_bit x k : 0 <= k < 64 -> 0 <= x < 2 ^ 64 -> (x / 2 ^ k) mod 2 = 1 ->
  Z.land x (u64_not (2 ^ k)) = x - 2 ^ k.
Proof.
  intros Hk Hx Hb.
  assert (Hp : 0 <= 2 ^ k < 2 ^ 64).
  { split; [pose proof (pow2_pos k); lia | apply pow2_lt; lia]. }
  rewrite land_u64_not by assumption.
  symmetry. apply Z.sub_nocarry_ldiff.
  apply Z.bits_inj'. intros n Hn. rewrite Z.ldiff_spec, Z.bits_0.
  rewrite Z.pow2_bits_eqb by lia.
  destruct (Z.eqb_spec k n) as [->|Hne]; cbn [andb]; [|reflexivity].
  apply (proj2 (Z.testbit_true x n Hn)) in Hb. rewrite Hb. reflexivity.
Qed.

Lemma clear_bit0 x : 0 <= x < 2 ^ 64 -> x mod 2 = 1 -> Z.land x (u64_not 1) = x - 1.
Proof.
  intros Hx Hb. pose proof (clear_bit x 0 ltac:(lia) Hx) as P.
  change (2 ^ 0) with 1 in P. rewrite Z.div_1_r in P. exact (P Hb).
Qed.

(** ** [full_multiplication] *)
Lemma full_multiplication_spec a b : 0 <= a < 2 ^ 64 -> 0 <= b < 2 ^ 64 ->
  0 <= fst (full_multiplication a b) < 2 ^ 64 /\
  0 <= snd (full_multiplication a b) < 2 ^ 64 /\
  snd (full_multiplication a b) * 2 ^ 64 + fst (full_multiplication a b) = a * b.
Proof.
  intros Ha Hb. unfold full_multiplication. cbn [fst snd].
  assert (0 <= a * b < 2 ^ 64 * 2 ^ 64) by nia.
  pose proof (Z.mod_pos_bound (a * b) (2 ^ 64) ltac:(lia)).
  pose proof (Z.div_mod (a * b) (2 ^ 64) ltac:(lia)).
  repeat split; lia.
Qed.

(** ** [power] *)
Definition pw (q : Z) : Z := 217706 * q / 2 ^ 16 + 63.

Lemma power_ok b q : -9000 <= q <= 9000 -> power b q = Ok (pw q).
Proof.
  intros H. unfold power, pw, i32_wrapping_mul, wraps, i32_add. change (32 - 1) with 31.
  rewrite p2_31, p2_32, p2_16.
  rewrite (Z.mod_small (q * 217706 + 2147483648)) by lia.
  replace (q * 217706 + 2147483648 - 2147483648) with (217706 * q) by lia.
  apply sop32_ok.
  pose proof (Z.div_mod (217706 * q) 65536 ltac:(lia)).
  pose proof (Z.mod_pos_bound (217706 * q) 65536 ltac:(lia)). lia.
Qed.

Lemma pw_mono q1 q2 : q1 <= q2 -> pw q1 <= pw q2.
Proof.
  intros H. unfold pw. rewrite p2_16.
  pose proof (Z.div_le_mono (217706 * q1) (217706 * q2) 65536 ltac:(lia) ltac:(lia)). lia.
Qed.

Lemma pw_bounds q : -400 <= q <= 400 -> -1400 <= pw q <= 1400.
Proof.
  intros H. unfold pw. rewrite p2_16.
  pose proof (Z.div_mod (217706 * q) 65536 ltac:(lia)).
  pose proof (Z.mod_pos_bound (217706 * q) 65536 ltac:(lia)). lia.
Qed.

(** [pw q = floor(log2 5^q) + q + 63] on the whole table range *)
Definition flog5 (q : Z) : Z := if 0 <=? q then Z.log2 (5 ^ q) else - (Z.log2 (5 ^ (- q)) + 1).

Definition zrange (lo n : Z) : list Z := map (fun i => lo + Z.of_nat i) (seq 0 (Z.to_nat n)).
Lemma in_zrange lo n x : lo <= x < lo + n -> In x (zrange lo n).
Proof.
  intros H. unfold zrange. apply in_map_iff. exists (Z.to_nat (x - lo)). split; [lia|].
  apply in_seq. lia.
Qed.

Lemma pw_flog5_check : forallb (fun q => pw q =? flog5 q + q + 63) (zrange (-342) 651) = true.
Proof. vm_compute. reflexivity. Qed.

Theorem pw_flog5 q : -342 <= q <= 308 -> pw q = flog5 q + q + 63.
Proof.
  intros H. pose proof (proj1 (forallb_forall _ _) pw_flog5_check q (in_zrange (-342) 651 q ltac:(lia))) as P.
  cbv beta in P. lia.
Qed.

(** ** leading zeros *)
Lemma lz64_spec w : 0 < w < 2 ^ 64 ->
  0 <= lz64 w <= 63 /\ 2 ^ 63 <= w * 2 ^ lz64 w < 2 ^ 64.
Proof.
  intros H. unfold lz64, bitlen. destruct (w <=? 0) eqn:E; [lia|].
  pose proof (Z.log2_spec w ltac:(lia)) as [L1 L2].
  pose proof (Z.log2_nonneg w) as L0.
  assert (L3 : Z.log2 w < 64).
  { apply Z.log2_lt_pow2; lia. }
  replace (64 - (Z.log2 w + 1)) with (63 - Z.log2 w) by lia.
  split; [lia|].
  pose proof (pow2_pos (63 - Z.log2 w) ltac:(lia)).
  rewrite (pow2_split (Z.log2 w) 63) by lia.
  replace (2 ^ 64) with (2 ^ (Z.succ (Z.log2 w)) * 2 ^ (63 - Z.log2 w)).
  2:{ rewrite <- pow2_add by lia. f_equal. lia. }
  split; nia.
Qed.

(** ** the table *)
Lemma sp5_eq : SMALLEST_POWER_OF_FIVE TABLES = -342. Proof. reflexivity. Qed.
Lemma lp5_eq : LARGEST_POWER_OF_FIVE TABLES = 308. Proof. reflexivity. Qed.

Definition tentry (q : Z) : Z * Z :=
  nth (Z.to_nat (q - SMALLEST_POWER_OF_FIVE TABLES)) (POWER_OF_FIVE_128 TABLES) (0, 0).
Definition Thi (q : Z) : Z := fst (tentry q).
Definition Tlo (q : Z) : Z := snd (tentry q).
Definition T128 (q : Z) : Z := Thi q * 2 ^ 64 + Tlo q.

Lemma table_len : Z.of_nat (length (POWER_OF_FIVE_128 TABLES)) = 651.
Proof. pose proof lemire_len_ok as H. unfold zlen in H. rewrite H, sp5_eq, lp5_eq. reflexivity. Qed.

Lemma tentry_range q : -342 <= q <= 308 ->
  0 <= Thi q < 2 ^ 64 /\ 0 <= Tlo q < 2 ^ 64 /\ 2 ^ 127 <= T128 q < 2 ^ 128.
Proof.
  intros H. destruct (lemire_entry_spec q) as [E _]; [rewrite sp5_eq, lp5_eq; lia|].
  fold (tentry q) in E. unfold lemire_entry_ok, entry128, in_u in E.
  fold (Thi q) (Tlo q) in E. fold (T128 q) in E.
  repeat (apply andb_prop in E; destruct E as [E ?]).
  unfold T128 in *. lia.
Qed.

(** ** [compute_product_approx] *)
Definition refined_pair (w q lo hi : Z) : Prop := hi * 2 ^ 64 + lo = (w * T128 q) / 2 ^ 64.
Definition unrefined_pair (w q k lo hi : Z) : Prop :=
  hi * 2 ^ 64 + lo = w * Thi q /\ hi mod 2 ^ k <> 2 ^ k - 1.

Theorem compute_product_approx_spec b q w p :
  -342 <= q <= 308 -> 0 <= w < 2 ^ 64 -> 0 < p < 64 ->
  exists lo hi, compute_product_approx TABLES b q w p = Ok (lo, hi) /\
    0 <= lo < 2 ^ 64 /\ 0 <= hi < 2 ^ 64 /\
    (refined_pair w q lo hi \/ unrefined_pair w q (64 - p) lo hi).
Proof.
  intros Hq Hw Hp. unfold compute_product_approx.
  rewrite sp5_eq, lp5_eq.
  replace (-342 <=? q) with true by lia. replace (q <=? 308) with true by lia.
  replace (p <=? 64) with true by lia. rewrite !debug_assert_ok. cbn [bind].
  replace (p <? 64) with true by lia. rewrite shr64_ok by lia. cbn [bind].
  unfold u64_max. rewrite ones_div by lia.
  unfold i32_sub. rewrite sop32_ok by lia. cbn [bind].
  unfold as_usize, wrapu. rewrite (Z.mod_small (q - -342)) by lia.
  unfold index_checked2. rewrite table_len.
  replace ((0 <=? q - -342) && (q - -342 <? 651)) with true by lia. cbn [bind].
  pose proof (tentry_range q Hq) as (HT1 & HT2 & HT).
  unfold Thi, Tlo, tentry in HT1, HT2. rewrite sp5_eq in HT1, HT2.
  unfold refined_pair, unrefined_pair, T128, Thi, Tlo, tentry. rewrite sp5_eq.
  destruct (nth (Z.to_nat (q - -342)) (POWER_OF_FIVE_128 TABLES) (0, 0)) as [t1 t2].
  cbn [fst snd] in *.
  pose proof (full_multiplication_spec w t1 Hw HT1) as (F1 & F2 & F3).
  pose proof (full_multiplication_spec w t2 Hw HT2) as (S1 & S2 & S3).
  destruct (full_multiplication w t1) as [flo fhi] eqn:EF. cbn [fst snd] in *.
  set (shi := snd (full_multiplication w t2)) in *.
  rewrite land_mask by lia.
  assert (Hfhi : fhi <= 2 ^ 64 - 2) by nia.
  destruct (fhi mod 2 ^ (64 - p) =? 2 ^ (64 - p) - 1) eqn:EM.
  - assert (HR : (fhi * 2 ^ 64 + flo + shi) = (w * (t1 * 2 ^ 64 + t2)) / 2 ^ 64).
    { apply (Z.div_unique_pos _ _ _ (fst (full_multiplication w t2))); lia. }
    unfold u64_wrapping_add, wrapu.
    destruct ((flo + shi) mod 2 ^ 64 <? shi) eqn:EC.
    + assert (2 ^ 64 <= flo + shi).
      { destruct (Z_lt_le_dec (flo + shi) (2 ^ 64)); [|lia].
        rewrite Z.mod_small in EC by lia. lia. }
      assert (EW : (flo + shi) mod 2 ^ 64 = flo + shi - 2 ^ 64).
      { symmetry. apply (Z.mod_unique_pos _ _ 1); lia. }
      unfold u64_add. rewrite uop64_ok by lia. cbn [bind].
      eexists _, _. split; [reflexivity|]. rewrite EW.
      split; [lia|]. split; [lia|]. left. lia.
    + assert (flo + shi < 2 ^ 64).
      { destruct (Z_lt_le_dec (flo + shi) (2 ^ 64)); [lia|].
        assert (EW : (flo + shi) mod 2 ^ 64 = flo + shi - 2 ^ 64).
        { symmetry. apply (Z.mod_unique_pos _ _ 1); lia. }
        lia. }
      rewrite Z.mod_small by lia. cbn [bind].
      eexists _, _. split; [reflexivity|].
      split; [lia|]. split; [lia|]. left. lia.
  - eexists _, _. split; [reflexivity|].
    split; [lia|]. split; [lia|]. right. split; lia.
Qed.

(** ** "no unrefined false tie" (DESIGN.md, Appendix A (c)): for -27 <= q < 0 no normalised [w]
    has [w * Thi q mod 2^(64+k)] in {0, 1}.  Decided per entry by exhibiting the inverse of the odd
    part of [Thi q] modulo 2^(64+k). *)
Fixpoint val2 (fuel : nat) (a : Z) : Z :=
  match fuel with
  | O => 0
  | S n => if (a mod 2 =? 0) && negb (a =? 0) then 1 + val2 n (a / 2) else 0
  end.
Fixpoint newton_inv (fuel : nat) (a m x : Z) : Z :=
  match fuel with
  | O => x
  | S n => newton_inv n a m ((x * (2 - a * x)) mod m)
  end.
Definition nuft_core (a k j x : Z) : bool :=
  let m := 2 ^ (64 + k) in
  (0 <=? j) && (j <=? k) && (0 <=? x) && (x <? m) && ((a * x) mod m =? 2 ^ j) &&
  negb ((x mod 2 ^ j =? 0) && (2 ^ 63 <=? x / 2 ^ j) && (x / 2 ^ j <? 2 ^ 64)).
Definition nuft_q (k q : Z) : bool :=
  let a := Thi q in
  let j := val2 64 a in
  nuft_core a k j (newton_inv 8 (a / 2 ^ j) (2 ^ (64 + k)) 1).
Definition nuft_ok (f : format) : bool :=
  forallb (nuft_q (61 - MANTISSA_SIZE f)) (zrange (-27) 27).

(** ** side conditions on the format constants *)
Definition lfmt_ok (f : format) : bool :=
  (2 <=? MANTISSA_SIZE f) && (MANTISSA_SIZE f <=? 58) &&
  (2 <=? ewidth f) && (ewidth f <=? 15) &&
  (INFINITE_POWER f =? 2 ^ ewidth f - 1) &&
  (MINIMUM_EXPONENT f =? 1 - emax f) &&
  (MINIMUM_EXPONENT f <? -90) &&
  (-342 <=? SMALLEST_POWER_OF_TEN f) && (SMALLEST_POWER_OF_TEN f <=? 0) &&
  (0 <=? LARGEST_POWER_OF_TEN f) && (LARGEST_POWER_OF_TEN f <=? 308) &&
  (2 ^ (65 - femin f) <=? 10 ^ (1 - SMALLEST_POWER_OF_TEN f)) &&
  (2 ^ emax f <=? 10 ^ (LARGEST_POWER_OF_TEN f + 1)) &&
  (-27 <=? MIN_EXPONENT_ROUND_TO_EVEN f) && (MIN_EXPONENT_ROUND_TO_EVEN f <=? 0) &&
  (0 <=? MAX_EXPONENT_ROUND_TO_EVEN f) && (MAX_EXPONENT_ROUND_TO_EVEN f <=? 27) &&
  (2 ^ (MANTISSA_SIZE f + 2) <=? 5 ^ (MAX_EXPONENT_ROUND_TO_EVEN f + 1)) &&
  (2 ^ 64 <=? 2 ^ (MANTISSA_SIZE f + 1) * 5 ^ (1 - MIN_EXPONENT_ROUND_TO_EVEN f)) &&
  (-1000000 <=? EXPONENT_BIAS f) && (EXPONENT_BIAS f <=? 1000000) &&
  (-1000000 <=? INVALID_FP f) && (INVALID_FP f <=? 1000000) &&
  (INVALID_FP f + EXPONENT_BIAS f <? -3000) &&
  nuft_ok f.

Lemma lfmt_ok_F32 : lfmt_ok F32 = true. Proof. vm_compute. reflexivity. Qed.
Lemma lfmt_ok_F64 : lfmt_ok F64 = true. Proof. vm_compute. reflexivity. Qed.

Record lfmt (f : format) : Prop := mkLfmt {
  lf_ms : 2 <= MANTISSA_SIZE f <= 58;
  lf_ew : 2 <= ewidth f <= 15;
  lf_inf : INFINITE_POWER f = 2 ^ ewidth f - 1;
  lf_minexp : MINIMUM_EXPONENT f = 1 - emax f;
  lf_minexp_lt : MINIMUM_EXPONENT f < -90;
  lf_sp10 : -342 <= SMALLEST_POWER_OF_TEN f <= 0;
  lf_lp10 : 0 <= LARGEST_POWER_OF_TEN f <= 308;
  lf_under : 2 ^ (65 - femin f) <= 10 ^ (1 - SMALLEST_POWER_OF_TEN f);
  lf_over : 2 ^ emax f <= 10 ^ (LARGEST_POWER_OF_TEN f + 1);
  lf_minrte : -27 <= MIN_EXPONENT_ROUND_TO_EVEN f <= 0;
  lf_maxrte : 0 <= MAX_EXPONENT_ROUND_TO_EVEN f <= 27;
  lf_maxrte5 : 2 ^ (MANTISSA_SIZE f + 2) <= 5 ^ (MAX_EXPONENT_ROUND_TO_EVEN f + 1);
  lf_minrte5 : 2 ^ 64 <= 2 ^ (MANTISSA_SIZE f + 1) * 5 ^ (1 - MIN_EXPONENT_ROUND_TO_EVEN f);
  lf_bias : -1000000 <= EXPONENT_BIAS f <= 1000000;
  lf_invalid : -1000000 <= INVALID_FP f <= 1000000;
  lf_decl : INVALID_FP f + EXPONENT_BIAS f < -3000;
  lf_nuft : nuft_ok f = true
}.

Lemma lfmt_ok_spec f : lfmt_ok f = true -> lfmt f.
Proof.
  unfold lfmt_ok. intros H.
  apply andb_prop in H; destruct H as [H Hn].
  repeat (apply andb_prop in H; destruct H as [H ?]).
  constructor; solve [lia | exact Hn].
Qed.

(** derived exponent facts *)
Lemma lfmt_emax f : lfmt f ->
  91 < emax f <= 16384 /\ 2 * emax f = 2 ^ ewidth f /\ INFINITE_POWER f = 2 * emax f - 1 /\
  femin f = 2 - emax f - MANTISSA_SIZE f /\
  MINIMUM_EXPONENT f = femin f + MANTISSA_SIZE f - 1.
Proof.
  intros L. destruct L. unfold femin, prec, emax in *.
  assert (2 ^ (ewidth f - 1) <= 2 ^ 14) by (apply pow2_le; lia).
  change (2 ^ 14) with 16384 in *.
  assert (2 ^ ewidth f = 2 * 2 ^ (ewidth f - 1)).
  { rewrite <- pow2_S by lia. f_equal. lia. }
  lia.
Qed.

(** ** the exact scaled power of ten as a fraction, and the per-entry check
    [10^q * 2^(190 - pw q) = qX q / qY q], and the table entry brackets this number. *)
Definition p2n (e : Z) : Z := if 0 <=? e then 2 ^ e else 1.
Definition p2d (e : Z) : Z := if 0 <=? e then 1 else 2 ^ (- e).
Definition tenN (q : Z) : Z := if 0 <=? q then 10 ^ q else 1.
Definition tenD (q : Z) : Z := if 0 <=? q then 1 else 10 ^ (- q).
Definition qs (q : Z) : Z := 190 - pw q.
Definition qX (q : Z) : Z := tenN q * p2n (qs q).
Definition qY (q : Z) : Z := tenD q * p2d (qs q).

Definition qcheck (q : Z) : bool :=
  let T := T128 q in let X := qX q in let Y := qY q in
  (if (0 <=? q) && (q <=? 55) then X =? T * Y
   else if (-27 <=? q) && (q <? 0) then ((T - 1) * Y <? X) && (X <? T * Y) && (1 <=? Tlo q)
   else (T * Y <? X) && (X <? (T + 1) * Y)) &&
  (if (0 <=? q) && (q <=? 27) then (Tlo q =? 0) && (Thi q mod 2 =? 0) else true).

Lemma qcheck_all : forallb qcheck (zrange (-342) 651) = true.
Proof. vm_cast_no_check (eq_refl true). Qed.

Lemma qcheck_ok q : -342 <= q <= 308 -> qcheck q = true.
Proof.
  intros H. exact (proj1 (forallb_forall _ _) qcheck_all q (in_zrange (-342) 651 q ltac:(lia))).
Qed.

Lemma p2n_pos e : 0 < p2n e.
Proof. unfold p2n. destruct (0 <=? e) eqn:E; [apply pow2_pos|]; lia. Qed.
Lemma p2d_pos e : 0 < p2d e.
Proof. unfold p2d. destruct (0 <=? e) eqn:E; [|apply pow2_pos]; lia. Qed.
Lemma tenN_pos q : 0 < tenN q.
Proof. unfold tenN. destruct (0 <=? q) eqn:E; [apply Z.pow_pos_nonneg|]; lia. Qed.
Lemma tenD_pos q : 0 < tenD q.
Proof. unfold tenD. destruct (0 <=? q) eqn:E; [|apply Z.pow_pos_nonneg]; lia. Qed.
Lemma qX_pos q : 0 < qX q.
Proof. unfold qX. pose proof (tenN_pos q). pose proof (p2n_pos (qs q)). nia. Qed.
Lemma qY_pos q : 0 < qY q.
Proof. unfold qY. pose proof (tenD_pos q). pose proof (p2d_pos (qs q)). nia. Qed.

Lemma p2_sum a c s : a + c = s -> 0 <= s -> p2n a * p2n c = 2 ^ s * (p2d a * p2d c).
Proof.
  intros H Hs. unfold p2n, p2d.
  destruct (0 <=? a) eqn:Ea; destruct (0 <=? c) eqn:Ec.
  - subst s. rewrite pow2_add by lia. lia.
  - rewrite (pow2_split s a) by lia. replace (a - s) with (- c) by lia. lia.
  - rewrite (pow2_split s c) by lia. replace (c - s) with (- a) by lia. lia.
  - lia.
Qed.

Lemma dec_num_eq w q : dec_num w q = w * tenN q.
Proof. unfold dec_num, tenN. destruct (0 <=? q); lia. Qed.
Lemma dec_den_eq q : dec_den q = tenD q.
Proof. reflexivity. Qed.
Lemma sc_num_eq n E : sc_num n E = n * p2d E.
Proof. unfold sc_num, p2d. destruct (0 <=? E); lia. Qed.
Lemma sc_den_eq d E : sc_den d E = d * p2n E.
Proof. unfold sc_den, p2n. destruct (0 <=? E); lia. Qed.

(** the scaling identity:  (w * 10^q) / 2^E  =  (w * 2^lz * qX q) / (2^lz * 2^(E + qs q) * qY q) *)
Lemma scaling w q lz E : 0 <= E + qs q -> 0 <= lz ->
  sc_num (dec_num w q) E * (2 ^ lz * 2 ^ (E + qs q) * qY q) =
  (w * 2 ^ lz * qX q) * sc_den (dec_den q) E.
Proof.
  intros Hs Hlz. rewrite sc_num_eq, sc_den_eq, dec_num_eq, dec_den_eq. unfold qX, qY.
  pose proof (p2_sum E (qs q) (E + qs q) eq_refl Hs) as P.
  transitivity (w * tenN q * 2 ^ lz * tenD q * (2 ^ (E + qs q) * (p2d E * p2d (qs q)))); [ring|].
  rewrite <- P. ring.
Qed.

(** ** the result word, and the trivial branches of [compute_float] *)
Definition pack (f : format) (fp : extfloat) : Z := Z.lor (mant fp) (exp fp * 2 ^ MANTISSA_SIZE f).

Lemma pack_zero f : pack f (fp_zero) = 0.
Proof. reflexivity. Qed.
Lemma pack_inf f : lfmt f -> pack f (fp_inf f) = inf_bits f.
Proof. intros L. unfold pack, fp_inf, inf_bits. cbn [mant exp]. rewrite Z.lor_0_l, (lf_inf f L). reflexivity. Qed.

Lemma pow_le_mono_base10 a c : 0 <= a <= c -> 10 ^ a <= 10 ^ c.
Proof. intros. apply Z.pow_le_mono_r; lia. Qed.

Lemma rne_zero_value f q : rne_bits f (dec_num 0 q) (dec_den q) 0.
Proof. left. rewrite dec_num_eq. split; lia. Qed.

Lemma rne_underflow f w q : lfmt f -> 0 < w < 2 ^ 64 -> q < SMALLEST_POWER_OF_TEN f ->
  rne_bits f (dec_num w q) (dec_den q) 0.
Proof.
  intros L Hw Hq. pose proof (lfmt_emax f L) as (He1 & He2 & He3 & He4 & He5). destruct L.
  unfold dec_num, dec_den. replace (0 <=? q) with false by lia.
  assert (P10 : 10 ^ (1 - SMALLEST_POWER_OF_TEN f) <= 10 ^ (- q)) by (apply pow_le_mono_base10; lia).
  assert (P2 : 2 ^ (65 - femin f) = 2 * 2 ^ 64 * 2 ^ (- femin f)).
  { replace (65 - femin f) with ((64 + (- femin f)) + 1) by lia.
    rewrite pow2_S, pow2_add by lia. lia. }
  pose proof (pow2_pos (- femin f) ltac:(lia)) as Pf.
  pose proof (pow2_pos (emax f) ltac:(lia)) as Pe.
  pose proof (pow2_pos (prec f) ltac:(unfold prec; lia)) as Pp.
  assert (H2 : 2 * (w * 2 ^ (- femin f)) < 10 ^ (- q)) by nia.
  right; right. split; [lia|]. split.
  - assert (2 ^ 0 <= 2 ^ (- femin f)) by (apply pow2_le; lia). change (2 ^ 0) with 1 in *. nia.
  - exists 0, (femin f). unfold canon_exp, nearest_even, sc_num, sc_den, encode.
    replace (0 <=? femin f) with false by lia.
    assert (0 < 2 ^ MANTISSA_SIZE f) by (apply pow2_pos; lia).
    replace (0 <? 2 ^ MANTISSA_SIZE f) with true by lia.
    rewrite Z.mul_0_l, Z.sub_0_r, Z.abs_eq by nia.
    repeat split; try lia; try nia.
Qed.

Lemma rne_overflow f w q : lfmt f -> 0 < w -> LARGEST_POWER_OF_TEN f < q ->
  rne_bits f (dec_num w q) (dec_den q) (inf_bits f).
Proof.
  intros L Hw Hq. pose proof (lfmt_emax f L) as (He1 & He2 & He3 & He4 & He5). destruct L.
  unfold dec_num, dec_den. replace (0 <=? q) with true by lia.
  assert (P10 : 10 ^ (LARGEST_POWER_OF_TEN f + 1) <= 10 ^ q) by (apply pow_le_mono_base10; lia).
  pose proof (pow2_pos (emax f) ltac:(lia)) as Pe.
  right; left. split; [nia|]. split; [nia|reflexivity].
Qed.

(** ** examples *)
Example ex_power : power checked_build (-342) = Ok (-1074) /\ power release_build 308 = Ok 1086.
Proof. split; vm_compute; reflexivity. Qed.
Example ex_fullmul : full_multiplication (2 ^ 64 - 1) (2 ^ 64 - 1) = (1, 18446744073709551614).
Proof. vm_compute. reflexivity. Qed.
Example ex_cpa : compute_product_approx TABLES checked_build (-342) (2 ^ 64 - 1) 55
  = Ok (1228264617323800998, 17218479456385750617).
Proof. vm_compute. reflexivity. Qed.
Example ex_cpa_hyps : -342 <= -342 <= 308 /\ 0 <= 2 ^ 64 - 1 < 2 ^ 64 /\ 0 < 55 < 64.
Proof. rewrite p2_64. lia. Qed.
Example ex_underflow_hyps : lfmt F64 /\ 0 < 18446744073709551615 < 2 ^ 64 /\ -343 < SMALLEST_POWER_OF_TEN F64.
Proof. split; [exact (lfmt_ok_spec F64 lfmt_ok_F64)|]. rewrite p2_64. cbn. lia. Qed.

Print Assumptions compute_product_approx_spec.
Print Assumptions pw_flog5.
Print Assumptions rne_underflow.
Print Assumptions rne_overflow.
