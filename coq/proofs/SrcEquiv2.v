(** * SrcEquiv2: umbrella (compatibility), see SrcEquiv.v: bellerophon.rs and slow.rs *)
From ML Require Export proofs.SrcEqBase proofs.SrcEqBell proofs.SrcEqSlowB proofs.SrcEqSci.
