(** * gen/Src.v = model: src/bellerophon.rs *)
From Coq Require Import ZArith List Bool Lia Znumtheory.
From Coq Require Import ZifyBool.
From ML Require Import base.RustSem model.Fmt model.FloatOps model.Mask model.Num model.Number
  model.Rounding model.Lemire model.Bellerophon model.Slow gen.Consts gen.Tables gen.BTables.
From ML Require Import gen.Src.
From ML Require Import proofs.SrcEqBase proofs.SrcEqMask proofs.SrcEqNum proofs.SrcEqRounding.
Import ListNotations.
Ltac Zify.zify_post_hook ::= Z.div_mod_to_equations.
Open Scope Z_scope.
Open Scope rust_scope.
(** ** bellerophon.rs *)
Theorem rs_error_scale_eq : forall b, rs_error_scale b = Ok error_scale.
Proof. reflexivity. Qed.
Theorem rs_error_halfscale_eq : forall b, rs_error_halfscale b = Ok error_halfscale.
Proof. reflexivity. Qed.
#[export] Hint Rewrite rs_error_scale_eq rs_error_halfscale_eq : rs_eq.

Theorem rs_normalize_eq : forall b fp, u64_ok (mant fp) -> rs_normalize b fp = bnormalize b fp.
Proof.
  intros b fp H. unfold rs_normalize, bnormalize. pose proof (lz64_range _ H). crunch.
Qed.

Theorem rs_mul_eq : forall b x y, rs_mul b x y = bmul b x y.
Proof. intros. unfold rs_mul, bmul. crunch. Qed.
#[export] Hint Rewrite rs_mul_eq : rs_eq.

Theorem rs_get_small_eq : forall BT b i, rs_get_small BT b i = get_small BT b i.
Proof. intros. unfold rs_get_small, get_small, log2_exp. crunch. Qed.
#[export] Hint Rewrite rs_get_small_eq : rs_eq.

Theorem rs_get_small_int_eq : forall BT b i, rs_get_small_int BT b i = get_small_int BT i.
Proof. intros. unfold rs_get_small_int, get_small_int. crunch. Qed.
#[export] Hint Rewrite rs_get_small_int_eq : rs_eq.

(** the i32 fields of BASE10_POWERS are i32 values, and the step is not -1 (it divides) *)
Definition btables_ok (BT : btables) : Prop :=
  i32_ok (BELL_STEP BT) /\ i32_ok (BELL_BIAS BT) /\ BELL_STEP BT <> -1.
Lemma btables_ok_BTABLES : btables_ok BTABLES.
Proof. unfold btables_ok, i32_ok; cbn. lia. Qed.

Theorem rs_get_large_eq : forall BT b i, btables_ok BT -> rs_get_large BT b i = get_large BT b i.
Proof.
  intros BT b i (H1 & H2 & _). unfold rs_get_large, get_large, log2_exp. crunch.
Qed.

Theorem rs_error_is_accurate_eq : forall f b errors fp, fmt_ok f -> u32_ok errors ->
  rs_error_is_accurate f b errors fp = error_is_accurate f b errors fp.
Proof.
  intros f b errors fp Hf He. unfold rs_error_is_accurate, error_is_accurate, u64_saturating_add.
  crunch.
Qed.

Lemma bmul_range b x y r : bmul b x y = Ok r -> u64_ok (mant r).
Proof.
  unfold bmul. intros H. binv H. injection H as <-. cbn [mant].
  eapply u64_add_range; eassumption.
Qed.

Lemma bnormalize_range b x r s : u64_ok (mant x) -> bnormalize b x = Ok (r, s) -> u64_ok (mant r).
Proof.
  unfold bnormalize. intros Hx H. destruct (negb _).
  - binv H. injection H as <- <-. cbn [mant]. eapply u64_shl_range; eassumption.
  - injection H as <- <-. assumption.
Qed.

Lemma u32_shl_range b x k a : u32_shl b x k = Ok a -> u32_ok a.
Proof. apply shl_u_range. lia. Qed.
Lemma wrapu64_ok z : u64_ok (wrapu 64 z).
Proof. unfold u64_ok, wrapu. apply Z.mod_pos_bound. lia. Qed.

(** derive the ranges of intermediate results from the equations collected while stepping *)
Ltac learn :=
  repeat match goal with
  | H : bmul _ _ _ = Ok ?r |- _ =>
      lazymatch goal with
      | _ : u64_ok (mant r) |- _ => fail
      | _ => pose proof (bmul_range _ _ _ _ H)
      end
  | H : bnormalize _ ?x = Ok (?r, _) |- _ =>
      lazymatch goal with
      | _ : u64_ok (mant r) |- _ => fail
      | _ => assert (u64_ok (mant r))
               by (eapply bnormalize_range; [|exact H]; cbn [mant];
                   first [assumption | apply wrapu64_ok])
      end
  | H : u32_shl _ _ _ = Ok ?a |- _ =>
      lazymatch goal with
      | _ : u32_ok a |- _ => fail
      | _ => pose proof (u32_shl_range _ _ _ _ H)
      end
  end.

Ltac bside :=
  first [ side
        | apply rs_normalize_eq; cbn [mant]; first [assumption | apply wrapu64_ok]
        | apply rs_get_large_eq; assumption
        | apply rs_error_is_accurate_eq; assumption ].
Ltac bstep := first [ step_with ltac:(bside) | progress simp | case_head; cbn [andb negb] ]; learn.

Theorem rs_bellerophon_eq : forall BT f b n, btables_ok BT -> fmt_ok f -> u64_ok (nmant n) ->
  rs_bellerophon BT f b n = bellerophon BT f b n.
Proof.
  intros BT f b n HB Hf Hn. pose proof HB as (HB1 & HB2 & HB3).
  unfold rs_bellerophon, bellerophon, bfp_zero, bfp_inf, i32_rem, i32_div, u64_overflowing_mul.
  rewrite ?rs_error_scale_eq, ?rs_error_halfscale_eq.
  pose proof (lz64_range _ Hn).
  case_head; [reflexivity|]. case_head; [reflexivity|].
  step.
  replace (BELL_STEP BT =? -1) with false by lia. rewrite andb_false_r.
  destruct (BELL_STEP BT =? 0); [reflexivity|]. simp.
  case_head; [reflexivity|]. case_head; [reflexivity|].
  repeat bstep.
  all: try reflexivity.
  all: rewrite rs_round_eq by assumption; rewrite bind_ret_r; apply round_ext; intros;
    rewrite rs_round_nearest_tie_even_eq, bind_ret_r; reflexivity.
Qed.


(** ** Concrete instances, examples, and the one behavioural difference found *)
Corollary rs_bellerophon_eq_std : forall f b n, f = F32 \/ f = F64 -> u64_ok (nmant n) ->
  rs_bellerophon BTABLES f b n = bellerophon BTABLES f b n.
Proof. intros. apply rs_bellerophon_eq; auto using btables_ok_BTABLES, fmt_ok_std. Qed.

Example rs_bellerophon_example :
  u64_ok (nmant (mkNumber (-5) 123456789 true)) /\
  rs_bellerophon BTABLES F32 checked_build (mkNumber (-5) 123456789 true)
    = bellerophon BTABLES F32 checked_build (mkNumber (-5) 123456789 true) /\
  is_ok (rs_bellerophon BTABLES F32 checked_build (mkNumber (-5) 123456789 true)) = true.
Proof. split; [unfold u64_ok; cbn; lia|]. split; vm_compute; reflexivity. Qed.

(** [BELL_STEP BT <> -1] in [btables_ok] is necessary: Rust's `exponent % step` and
    `exponent / step` panic on `i32::MIN / -1` in every build, the model's [Z.rem]/[Z.quot] do
    not (the model only guards the zero divisor).  Unreachable with the crate's table (step 10). *)
Definition BT_step_m1 : btables := mkBTables [] [] [] (-1) (-2147483548) 217706 16.
Example bellerophon_differs_on_step_m1 :
  rs_bellerophon BT_step_m1 F64 release_build (mkNumber (-100) 1 false) = Panic PkOverflow /\
  bellerophon BT_step_m1 F64 release_build (mkNumber (-100) 1 false) = Ok (mkExt 0 0).
Proof. split; vm_compute; reflexivity. Qed.

Print Assumptions rs_error_scale_eq.
Print Assumptions rs_error_halfscale_eq.
Print Assumptions rs_normalize_eq.
Print Assumptions rs_mul_eq.
Print Assumptions rs_get_small_eq.
Print Assumptions rs_get_large_eq.
Print Assumptions rs_get_small_int_eq.
Print Assumptions rs_error_is_accurate_eq.
Print Assumptions rs_bellerophon_eq.
Print Assumptions rs_bellerophon_eq_std.
