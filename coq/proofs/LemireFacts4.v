(** * LemireFacts4: Eisel-Lemire, stage 2: -27 <= q < 0 (table entries rounded up). *)
From Coq Require Import ZArith List Bool Lia Znumtheory Zpow_facts.
From Coq Require Import ZifyBool.
From ML Require Import base.RustSem model.Fmt model.Num model.Number model.Lemire
  gen.Consts gen.Tables spec.RneZ proofs.TableFacts proofs.LemireFacts0 proofs.LemireFacts1
  proofs.LemireFacts2.
Import ListNotations.
Open Scope Z_scope.

Arguments Z.pow : simpl never.
Local Opaque Z.pow.

Lemma qcheck_ceil q : -27 <= q < 0 ->
  (T128 q - 1) * qY q < qX q < T128 q * qY q /\ 1 <= Tlo q.
Proof.
  intros H. pose proof (qcheck_ok q ltac:(lia)) as C. unfold qcheck in C. cbv zeta in C.
  replace ((0 <=? q) && (q <=? 55)) with false in C by lia.
  replace ((-27 <=? q) && (q <? 0)) with true in C by lia.
  apply andb_prop in C. destruct C as [C _]. lia.
Qed.

Lemma qs_bound q : -27 <= q < 0 -> 128 - q <= qs q.
Proof.
  intros H. unfold qs, pw. rewrite p2_16. Z.div_mod_to_equations. lia.
Qed.

Lemma qX_neg q : -27 <= q < 0 -> qX q = 2 ^ qs q.
Proof.
  intros H. pose proof (qs_bound q H). unfold qX, tenN, p2n.
  replace (0 <=? q) with false by lia. replace (0 <=? qs q) with true by lia. lia.
Qed.
Lemma qY_neg q : -27 <= q < 0 -> qY q = 2 ^ (- q) * 5 ^ (- q).
Proof.
  intros H. pose proof (qs_bound q H). unfold qY, tenD, p2d.
  replace (0 <=? q) with false by lia. replace (0 <=? qs q) with true by lia.
  rewrite pow10_split by lia. lia.
Qed.

Lemma p5_27 : 5 ^ 27 < 2 ^ 63. Proof. reflexivity. Qed.

Lemma pow5_odd n : 0 <= n -> 5 ^ n mod 2 = 1.
Proof.
  intros H. pattern n. apply natlike_ind; [reflexivity| |exact H].
  intros x Hx IH. rewrite Z.pow_succ_r by lia. Z.div_mod_to_equations. lia.
Qed.

Lemma odd_mul x y : x mod 2 = 1 -> y mod 2 = 1 -> (x * y) mod 2 = 1.
Proof.
  intros Hx Hy. rewrite Z.mul_mod by lia. rewrite Hx, Hy. reflexivity.
Qed.

(** a multiple of 2^(128-q) that is smaller than 2^65 * 10^-q in absolute value vanishes *)
Lemma near_zero q w' sh M : -27 <= q < 0 -> 0 <= sh ->
  - 2 ^ 65 * qY q < w' * qX q - M * (2 ^ (128 + sh) * qY q) < 2 ^ 65 * qY q ->
  w' * qX q = M * (2 ^ (128 + sh) * qY q).
Proof.
  intros Hq Hsh H. pose proof (qs_bound q Hq) as Hs.
  rewrite qX_neg, qY_neg in * by assumption.
  set (n := - q) in *. set (s := qs q) in *.
  assert (E1 : 2 ^ s = 2 ^ 65 * 2 ^ n * 2 ^ 63 * 2 ^ (s - 128 - n)).
  { rewrite <- !pow2_add by lia. f_equal; lia. }
  assert (E2 : 2 ^ (128 + sh) = 2 ^ 65 * 2 ^ 63 * 2 ^ sh).
  { rewrite <- !pow2_add by lia. f_equal; lia. }
  set (Z0 := w' * 2 ^ (s - 128 - n) - M * 2 ^ sh * 5 ^ n).
  set (c := 2 ^ 65 * 2 ^ n).
  assert (Hc : 0 < c).
  { unfold c. apply Z.mul_pos_pos; apply pow2_pos; lia. }
  assert (EZ : w' * 2 ^ s - M * (2 ^ (128 + sh) * (2 ^ n * 5 ^ n)) = c * (2 ^ 63 * Z0)).
  { rewrite E1, E2. unfold Z0, c. ring. }
  rewrite EZ in H.
  replace (- 2 ^ 65 * (2 ^ n * 5 ^ n)) with (c * (- 5 ^ n)) in H by (unfold c; ring).
  replace (2 ^ 65 * (2 ^ n * 5 ^ n)) with (c * 5 ^ n) in H by (unfold c; ring).
  destruct H as [H1 H2].
  apply Z.mul_lt_mono_pos_l in H1; [|exact Hc].
  apply Z.mul_lt_mono_pos_l in H2; [|exact Hc].
  assert (H5 : 5 ^ n <= 5 ^ 27) by (apply Z.pow_le_mono_r; unfold n; lia).
  pose proof p5_27. rewrite p2_63 in *.
  assert (Z0 = 0) by lia.
  assert (w' * 2 ^ s - M * (2 ^ (128 + sh) * (2 ^ n * 5 ^ n)) = 0) by (rewrite EZ, H0; ring).
  lia.
Qed.

(** ** no unrefined false tie *)
Lemma nuft_sound k q w' : nuft_q k q = true -> 0 <= k -> 2 ^ 63 <= w' < 2 ^ 64 ->
  0 <= (w' * Thi q) mod 2 ^ (64 + k) <= 1 -> False.
Proof.
  unfold nuft_q. cbv zeta. set (a := Thi q). set (m := 2 ^ (64 + k)).
  set (j := val2 64 a). set (x := newton_inv 8 (a / 2 ^ j) m 1).
  intros C Hk Hw Hr.
  apply andb_prop in C. destruct C as [C Cneg].
  apply andb_prop in C. destruct C as [C Cax].
  assert (Hj : 0 <= j <= k /\ 0 <= x < m) by lia.
  assert (Eax : (a * x) mod m = 2 ^ j) by lia. clear C Cax.
  destruct Hj as [Hj Hx].
  assert (Hm : m = 2 ^ 64 * 2 ^ k) by (unfold m; apply pow2_add; lia).
  pose proof (pow2_pos k Hk) as Hpk. pose proof (pow2_pos j ltac:(lia)) as Hpj.
  assert (Hjk : 2 ^ j <= 2 ^ k) by (apply pow2_le; lia).
  assert (Hm0 : 0 < m) by lia.
  clearbody x j a m.
  set (r := (w' * a) mod m) in *.
  assert (Key : w' * 2 ^ j = (r * x) mod m).
  { transitivity ((w' * 2 ^ j) mod m).
    - symmetry. apply Z.mod_small. split; [nia|]. rewrite Hm. nia.
    - rewrite <- Eax. rewrite Z.mul_mod_idemp_r by lia.
      unfold r. rewrite Z.mul_mod_idemp_l by lia. f_equal. ring. }
  assert (Hr01 : r = 0 \/ r = 1) by lia.
  destruct Hr01 as [E|E]; rewrite E in Key.
  - rewrite Z.mul_0_l, Z.mod_0_l in Key by lia. nia.
  - rewrite Z.mul_1_l, Z.mod_small in Key by lia.
    assert (x mod 2 ^ j = 0) by (rewrite <- Key; apply Z.mod_mul; lia).
    assert (x / 2 ^ j = w') by (rewrite <- Key; apply Z.div_mul; lia).
    lia.
Qed.

Lemma nuft_q_ok f q : lfmt f -> -27 <= q < 0 -> nuft_q (61 - MANTISSA_SIZE f) q = true.
Proof.
  intros L Hq. pose proof (lf_nuft f L) as H. unfold nuft_ok in H.
  exact (proj1 (forallb_forall _ _) H q (in_zrange (-27) 27 q ltac:(lia))).
Qed.
