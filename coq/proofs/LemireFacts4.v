(** * LemireFacts4: Eisel-Lemire, stage 2: -27 <= q < 0 (table entries rounded up). *)
From Coq Require Import ZArith List Bool Lia Znumtheory Zpow_facts.
From Coq Require Import ZifyBool.
From ML Require Import base.RustSem model.Fmt model.Num model.Number model.Lemire
  gen.Consts gen.Tables spec.RneZ proofs.TableFacts proofs.LemireFacts0 proofs.LemireFacts1
  proofs.LemireFacts2.
Import ListNotations.
Open Scope Z_scope.

Arguments Z.pow : simpl never.
Local Opaque Z.pow.

Lemma qcheck_ceil q : -27 <= q < 0 ->
  (T128 q - 1) * qY q < qX q < T128 q * qY q /\ 1 <= Tlo q.
Proof.
  intros H. pose proof (qcheck_ok q ltac:(lia)) as C. unfold qcheck in C. cbv zeta in C.
  replace ((0 <=? q) && (q <=? 55)) with false in C by lia.
  replace ((-27 <=? q) && (q <? 0)) with true in C by lia.
  apply andb_prop in C. destruct C as [C _]. lia.
Qed.

Lemma qs_bound q : -27 <= q < 0 -> 128 - q <= qs q.
Proof.
  intros H. unfold qs, pw. rewrite p2_16. Z.div_mod_to_equations. lia.
Qed.

Lemma qX_neg q : -27 <= q < 0 -> qX q = 2 ^ qs q.
Proof.
  intros H. pose proof (qs_bound q H). unfold qX, tenN, p2n.
  replace (0 <=? q) with false by lia. replace (0 <=? qs q) with true by lia. lia.
Qed.
Lemma qY_neg q : -27 <= q < 0 -> qY q = 2 ^ (- q) * 5 ^ (- q).
Proof.
  intros H. pose proof (qs_bound q H). unfold qY, tenD, p2d.
  replace (0 <=? q) with false by lia. replace (0 <=? qs q) with true by lia.
  rewrite pow10_split by lia. lia.
Qed.

Lemma p5_27 : 5 ^ 27 < 2 ^ 63. Proof. reflexivity. Qed.

Lemma pow5_odd n : 0 <= n -> 5 ^ n mod 2 = 1.
Proof.
  intros H. pattern n. apply natlike_ind; [reflexivity| |exact H].
  intros x Hx IH. rewrite Z.pow_succ_r by lia. Z.div_mod_to_equations. lia.
Qed.

Lemma odd_mul x y : x mod 2 = 1 -> y mod 2 = 1 -> (x * y) mod 2 = 1.
Proof.
  intros Hx Hy. rewrite Z.mul_mod by lia. rewrite Hx, Hy. reflexivity.
Qed.

(** a multiple of 2^(128-q) that is smaller than 2^65 * 10^-q in absolute value vanishes *)
Lemma near_zero q w' sh M : -27 <= q < 0 -> 0 <= sh ->
  - 2 ^ 65 * qY q < w' * qX q - M * (2 ^ (128 + sh) * qY q) < 2 ^ 65 * qY q ->
  w' * qX q = M * (2 ^ (128 + sh) * qY q).
Proof.
  intros Hq Hsh H. pose proof (qs_bound q Hq) as Hs.
  rewrite qX_neg, qY_neg in * by assumption.
  set (n := - q) in *. set (s := qs q) in *.
  assert (E1 : 2 ^ s = 2 ^ 65 * 2 ^ n * 2 ^ 63 * 2 ^ (s - 128 - n)).
  { rewrite <- !pow2_add by lia. f_equal; lia. }
  assert (E2 : 2 ^ (128 + sh) = 2 ^ 65 * 2 ^ 63 * 2 ^ sh).
  { rewrite <- !pow2_add by lia. f_equal; lia. }
  set (Z0 := w' * 2 ^ (s - 128 - n) - M * 2 ^ sh * 5 ^ n).
  set (c := 2 ^ 65 * 2 ^ n).
  assert (Hc : 0 < c).
  { unfold c. apply Z.mul_pos_pos; apply pow2_pos; lia. }
  assert (EZ : w' * 2 ^ s - M * (2 ^ (128 + sh) * (2 ^ n * 5 ^ n)) = c * (2 ^ 63 * Z0)).
  { rewrite E1, E2. unfold Z0, c. ring. }
  rewrite EZ in H.
  replace (- 2 ^ 65 * (2 ^ n * 5 ^ n)) with (c * (- 5 ^ n)) in H by (unfold c; ring).
  replace (2 ^ 65 * (2 ^ n * 5 ^ n)) with (c * 5 ^ n) in H by (unfold c; ring).
  destruct H as [H1 H2].
  apply Z.mul_lt_mono_pos_l in H1; [|exact Hc].
  apply Z.mul_lt_mono_pos_l in H2; [|exact Hc].
  assert (H5 : 5 ^ n <= 5 ^ 27) by (apply Z.pow_le_mono_r; unfold n; lia).
  pose proof p5_27. rewrite p2_63 in *.
  assert (Z0 = 0) by lia.
  assert (w' * 2 ^ s - M * (2 ^ (128 + sh) * (2 ^ n * 5 ^ n)) = 0) by (rewrite EZ, H0; ring).
  lia.
Qed.

(** ** no unrefined false tie *)
Lemma nuft_core_sound a k j x w' : nuft_core a k j x = true -> 0 <= k -> 2 ^ 63 <= w' < 2 ^ 64 ->
  0 <= (w' * a) mod 2 ^ (64 + k) <= 1 -> False.
Proof.
  unfold nuft_core. cbv zeta. set (m := 2 ^ (64 + k)).
  intros C Hk Hw Hr.
  apply andb_prop in C. destruct C as [C Cneg].
  apply andb_prop in C. destruct C as [C Cax].
  assert (Hj : 0 <= j <= k /\ 0 <= x < m) by lia.
  assert (Eax : (a * x) mod m = 2 ^ j) by lia. clear C Cax.
  destruct Hj as [Hj Hx].
  assert (Hm : m = 2 ^ 64 * 2 ^ k) by (unfold m; apply pow2_add; lia).
  pose proof (pow2_pos k Hk) as Hpk. pose proof (pow2_pos j ltac:(lia)) as Hpj.
  assert (Hjk : 2 ^ j <= 2 ^ k) by (apply pow2_le; lia).
  assert (Hm0 : 0 < m) by lia.
  clearbody m.
  set (r := (w' * a) mod m) in *.
  assert (Key : w' * 2 ^ j = (r * x) mod m).
  { transitivity ((w' * 2 ^ j) mod m).
    - symmetry. apply Z.mod_small. split; [nia|]. rewrite Hm. nia.
    - rewrite <- Eax. rewrite Z.mul_mod_idemp_r by lia.
      unfold r. rewrite Z.mul_mod_idemp_l by lia. f_equal. ring. }
  assert (Hr01 : r = 0 \/ r = 1) by lia.
  destruct Hr01 as [E|E]; rewrite E in Key.
  - rewrite Z.mul_0_l, Z.mod_0_l in Key by lia. nia.
  - rewrite Z.mul_1_l, Z.mod_small in Key by lia.
    assert (x mod 2 ^ j = 0) by (rewrite <- Key; apply Z.mod_mul; lia).
    assert (x / 2 ^ j = w') by (rewrite <- Key; apply Z.div_mul; lia).
    lia.
Qed.

Lemma nuft_sound k q w' : nuft_q k q = true -> 0 <= k -> 2 ^ 63 <= w' < 2 ^ 64 ->
  0 <= (w' * Thi q) mod 2 ^ (64 + k) <= 1 -> False.
Proof. unfold nuft_q. cbv zeta. apply nuft_core_sound. Qed.

Lemma nuft_q_ok f q : lfmt f -> -27 <= q < 0 -> nuft_q (61 - MANTISSA_SIZE f) q = true.
Proof.
  intros L Hq. pose proof (lf_nuft f L) as H. unfold nuft_ok in H.
  exact (proj1 (forallb_forall _ _) H q (in_zrange (-27) 27 q ltac:(lia))).
Qed.

Lemma pw_m27 : pw (-27) = -27. Proof. reflexivity. Qed.
Lemma p2_65 : 2 ^ 65 = 2 * 2 ^ 64. Proof. reflexivity. Qed.

(** below the round-to-even window an odd significand cannot be exact *)
Lemma no_tie_below f q w lz sh M : lfmt f -> 0 < w < 2 ^ 64 -> 0 <= lz -> 0 <= sh ->
  -27 <= q < MIN_EXPONENT_ROUND_TO_EVEN f -> 2 ^ (MANTISSA_SIZE f + 1) <= M -> M mod 2 = 1 ->
  w * 2 ^ lz * qX q <> M * (2 ^ (128 + sh) * qY q).
Proof.
  intros L Hw Hlz Hsh Hq HM Hodd E.
  pose proof (lf_minrte f L) as Hmin. pose proof (lf_minrte5 f L) as Hmin5. pose proof (lf_ms f L) as HMS.
  pose proof (qs_bound q ltac:(lia)) as Hs.
  rewrite qX_neg, qY_neg in E by lia.
  set (n := - q) in *. set (s := qs q) in *.
  set (a := lz + s). set (c := 128 + sh + n).
  assert (E' : w * 2 ^ a = M * 5 ^ n * 2 ^ c).
  { unfold a, c. rewrite !pow2_add by lia. rewrite pow2_add in E by lia. lia. }
  assert (H5 : 5 ^ (1 - MIN_EXPONENT_ROUND_TO_EVEN f) <= 5 ^ n) by (apply Z.pow_le_mono_r; unfold n; lia).
  assert (H5p : 0 < 5 ^ n) by (apply Z.pow_pos_nonneg; unfold n; lia).
  destruct (Z_le_gt_dec a c) as [Hac|Hac].
  - rewrite (pow2_split a c) in E' by (unfold a; lia).
    pose proof (pow2_pos a ltac:(unfold a; lia)) as Hpa.
    pose proof (pow2_pos (c - a) ltac:(lia)) as Hpc.
    assert (Ew : w = M * 5 ^ n * 2 ^ (c - a)).
    { apply (Z.mul_reg_r _ _ (2 ^ a)); [lia|]. rewrite E'. ring. }
    assert (2 ^ (MANTISSA_SIZE f + 1) * 5 ^ (1 - MIN_EXPONENT_ROUND_TO_EVEN f) <= M * 5 ^ n).
    { apply Z.mul_le_mono_nonneg; try lia; apply Z.pow_nonneg; lia. }
    assert (M * 5 ^ n <= w).
    { rewrite Ew. assert (0 < M * 5 ^ n) by (apply Z.mul_pos_pos; lia). nia. }
    lia.
  - rewrite (pow2_split c a) in E' by (unfold c, n; lia).
    pose proof (pow2_pos c ltac:(unfold c, n; lia)) as Hpc.
    assert (Ew : w * 2 ^ (a - c) = M * 5 ^ n).
    { apply (Z.mul_reg_r _ _ (2 ^ c)); [lia|]. rewrite <- E'. ring. }
    assert (Ev : 2 ^ (a - c) = 2 * 2 ^ (a - c - 1)).
    { rewrite <- pow2_S by lia. f_equal; lia. }
    pose proof (odd_mul M (5 ^ n) Hodd (pow5_odd n ltac:(unfold n; lia))) as Ho.
    rewrite <- Ew, Ev in Ho.
    replace (w * (2 * 2 ^ (a - c - 1))) with ((w * 2 ^ (a - c - 1)) * 2) in Ho by ring.
    rewrite Z.mod_mul in Ho by lia. discriminate.
Qed.

Lemma facts_ceil f q w lo hi : lfmt f -> 0 < w < 2 ^ 64 -> -27 <= q < 0 ->
  0 <= lo < 2 ^ 64 -> 2 ^ 62 <= hi < 2 ^ 64 ->
  refined_pair (w * 2 ^ lz64 w) q lo hi \/
  unrefined_pair (w * 2 ^ lz64 w) q (61 - MANTISSA_SIZE f) lo hi ->
  facts_ok f q w lo hi.
Proof.
  intros L Hw Hq Hlo Hhi Hpair.
  pose proof (lz64_spec w Hw) as (Hlz & Hw').
  set (lz := lz64 w) in *. set (w' := w * 2 ^ lz) in *.
  pose proof (lfmt_emax f L) as (He1 & He2 & He3 & He4 & He5).
  pose proof (lf_ms f L) as HMS.
  pose proof (prod_floor f q w' lo hi L ltac:(lia) Hw' Hlo Hhi Hpair) as PF. cbv zeta in PF.
  pose proof (M_range f hi L Hhi) as MR. cbv zeta in MR.
  pose proof (tentry_range q ltac:(lia)) as (HT1 & HT2 & HT).
  unfold facts_ok. cbv zeta. fold lz. fold w'.
  set (u := hi / 2 ^ 63) in *. set (sh := u + 61 - MANTISSA_SIZE f) in *.
  set (M := hi / 2 ^ sh) in *. set (G := 2 ^ (128 + sh)) in *.
  set (P := w' * T128 q) in *.
  destruct MR as (Hu & Hub & HM). destruct PF as [PF _].
  pose proof (qY_pos q) as HY.
  assert (Hsh : 0 <= sh) by (unfold sh; lia).
  assert (HG : 0 < G) by (unfold G; apply pow2_pos; lia).
  pose proof (qcheck_ceil q Hq) as [HX HTlo].
  assert (ED : forall m, m * (G * qY q) = (m * G) * qY q) by (intros; ring).
  pose proof (pow2_pos sh Hsh) as Hpsh.
  assert (EG : G = 2 ^ sh * (2 ^ 64 * 2 ^ 64)).
  { unfold G. rewrite Z.add_comm, pow2_add by lia. rewrite p2_128. reflexivity. }
  pose proof (Z.div_mod hi (2 ^ sh) ltac:(lia)) as Ehi. fold M in Ehi.
  pose proof (Z.mod_pos_bound hi (2 ^ sh) ltac:(lia)) as Bhi.
  set (A := w' * qX q).
  assert (HA1 : (P - w') * qY q < A) by (unfold A, P; clear - HX Hw'; nia).
  assert (HA2 : A < P * qY q) by (unfold A, P; clear - HX Hw'; nia).
  assert (NZ : - 2 ^ 65 * qY q < A - M * (G * qY q) < 2 ^ 65 * qY q -> A = M * (G * qY q)).
  { exact (near_zero q w' sh M Hq Hsh). }
  rewrite p2_65 in NZ.
  (* no borrow *)
  assert (Flow : M * (G * qY q) <= A).
  { destruct (Z_le_gt_dec (M * (G * qY q)) A) as [|Hgt]; [assumption|].
    assert (A = M * (G * qY q)); [|lia].
    apply NZ. rewrite ED in *.
    assert ((M * G - 2 ^ 64) * qY q < A) by (clear - HA1 PF Hw' HY; nia).
    clear - H Hgt HY. nia. }
  assert (Hpow2 : 0 < pw q + u - lz - MINIMUM_EXPONENT f).
  { pose proof (pw_mono (-27) q ltac:(lia)). rewrite pw_m27 in H. pose proof (lf_minexp_lt f L). lia. }
  (* the refined pair brackets P *)
  assert (HRP : refined_pair w' q lo hi -> (hi * 2 ^ 64 + lo) * 2 ^ 64 <= P < (hi * 2 ^ 64 + lo + 1) * 2 ^ 64).
  { unfold refined_pair. fold P. intros HR.
    pose proof (Z.div_mod P (2 ^ 64) ltac:(lia)) as E.
    pose proof (Z.mod_pos_bound P (2 ^ 64) ltac:(lia)) as B. rewrite <- HR in E. lia. }
  split; [|split].
  - (* floor *)
    split; [exact Flow|]. rewrite ED. clear - HA2 PF HY. nia.
  - intros _. split.
    + (* a detected tie is a tie *)
      intros Et. unfold cf_tie in Et. cbv zeta in Et. fold u in Et. fold sh in Et. fold M in Et.
      apply andb_prop in Et; destruct Et as [Et Ez]. apply andb_prop in Et; destruct Et as [Et Em4].
      apply andb_prop in Et; destruct Et as [Et Emax]. apply andb_prop in Et; destruct Et as [Elo Emin].
      assert (Ehi' : hi = 2 ^ sh * M) by lia.
      destruct Hpair as [HR|[HU1 HU2]].
      * apply NZ. specialize (HRP HR).
        assert (P < M * G + 2 * 2 ^ 64).
        { rewrite EG. rewrite Ehi' in HRP. clear - HRP Elo Hlo. nia. }
        rewrite ED in *. clear - H HA2 Flow HY. nia.
      * exfalso. apply (nuft_sound (61 - MANTISSA_SIZE f) q w' (nuft_q_ok f q L Hq) ltac:(lia) Hw').
        rewrite <- HU1.
        replace ((hi * 2 ^ 64 + lo) mod 2 ^ (64 + (61 - MANTISSA_SIZE f))) with lo; [lia|].
        apply (Z.mod_unique_pos _ _ (M * 2 ^ u)).
        -- assert (2 ^ 64 <= 2 ^ (64 + (61 - MANTISSA_SIZE f))) by (apply pow2_le; lia). lia.
        -- assert (Esh : 2 ^ sh = 2 ^ u * 2 ^ (61 - MANTISSA_SIZE f)).
           { rewrite <- pow2_add by lia. f_equal; unfold sh; lia. }
           rewrite Ehi' at 1. rewrite Esh, pow2_add by lia. ring.
    + (* a tie is detected *)
      intros EAD Hm4.
      assert (Hmin : MIN_EXPONENT_ROUND_TO_EVEN f <= q).
      { destruct (Z_le_gt_dec (MIN_EXPONENT_ROUND_TO_EVEN f) q) as [|Hgt]; [assumption|exfalso].
        apply (no_tie_below f q w lz sh M L Hw ltac:(lia) Hsh ltac:(lia) ltac:(lia)); [|exact EAD].
        clear - Hm4. Z.div_mod_to_equations. lia. }
      fold A in EAD. fold G in EAD.
      assert (HP1 : P < M * G + w').
      { rewrite EAD, ED in HA1. clear - HA1 HY. nia. }
      assert (HP2 : M * G < P).
      { rewrite EAD, ED in HA2. clear - HA2 HY. nia. }
      assert (Hz : lo = 0 /\ hi mod 2 ^ sh = 0).
      { destruct Hpair as [HR|[HU1 HU2]].
        - specialize (HRP HR).
          assert ((hi * 2 ^ 64 + lo) * 2 ^ 64 < (M * 2 ^ sh * 2 ^ 64 + 1) * 2 ^ 64).
          { rewrite EG in HP1. clear - HRP HP1 Hw'. nia. }
          assert (hi * 2 ^ 64 + lo <= M * 2 ^ sh * 2 ^ 64) by (clear - H; nia).
          rewrite Ehi in H0 at 1. clear - H0 Bhi Hlo. nia.
        - exfalso.
          assert (P = (hi * 2 ^ 64 + lo) * 2 ^ 64 + w' * Tlo q).
          { rewrite HU1. unfold P, T128. ring. }
          assert (M * G <= hi * 2 ^ 64 * 2 ^ 64).
          { rewrite EG. rewrite Ehi at 1. clear - Bhi Hpsh. nia. }
          assert (w' <= w' * Tlo q) by (clear - HTlo Hw'; nia).
          clear - H H0 H1 HP1 Hlo. nia. }
      unfold cf_tie. cbv zeta. fold u. fold sh. fold M.
      pose proof (lf_maxrte f L). lia.
  - intros Hp. lia.
Qed.

(** ** Stage 2 *)
Theorem compute_float_sound_ceil f b q w : lfmt_ok f = true ->
  0 < w < 2 ^ 64 -> -27 <= q < 0 -> SMALLEST_POWER_OF_TEN f <= q -> cf_sound f b q w.
Proof.
  intros Lok Hw Hq Hsq. pose proof (lfmt_ok_spec f Lok) as L.
  apply cf_driver; [assumption|lia|pose proof (lf_lp10 f L); lia|].
  intros lo hi Hlo Hhi Hpair _. apply facts_ceil; assumption.
Qed.

Print Assumptions compute_float_sound_ceil.

Example ex_ceil_hyps : lfmt_ok F32 = true /\ 0 < 16777217 < 2 ^ 64 /\ -27 <= -17 < 0 /\ SMALLEST_POWER_OF_TEN F32 <= -17.
Proof. split; [exact lfmt_ok_F32|]. rewrite p2_64. cbn. lia. Qed.
