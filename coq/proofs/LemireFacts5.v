(** * LemireFacts5: Eisel-Lemire: the main theorem for [compute_float] (all q, all w) and
    stage 4, the wrapper [lemire]. *)
From Coq Require Import ZArith List Bool Lia Znumtheory.
From Coq Require Import ZifyBool.
From ML Require Import base.RustSem model.Fmt model.Num model.Number model.Lemire
  gen.Consts gen.Tables spec.RneZ proofs.TableFacts proofs.LemireFacts0 proofs.LemireFacts1
  proofs.LemireFacts2 proofs.LemireFacts3 proofs.LemireFacts4.
Import ListNotations.
Open Scope Z_scope.

Arguments Z.pow : simpl never.
Local Opaque Z.pow.

(** ** the trivial branches *)
Lemma cf_zero_w f b q : compute_float TABLES f b q 0 = Ok fp_zero.
Proof. reflexivity. Qed.

Lemma cf_small_q f b q w : q < SMALLEST_POWER_OF_TEN f -> compute_float TABLES f b q w = Ok fp_zero.
Proof.
  intros H. unfold compute_float. replace (q <? SMALLEST_POWER_OF_TEN f) with true by lia.
  rewrite orb_true_r. reflexivity.
Qed.

Lemma cf_large_q f b q w : w <> 0 -> SMALLEST_POWER_OF_TEN f <= q -> LARGEST_POWER_OF_TEN f < q ->
  compute_float TABLES f b q w = Ok (fp_inf f).
Proof.
  intros H0 H1 H2. unfold compute_float.
  replace ((w =? 0) || (q <? SMALLEST_POWER_OF_TEN f)) with false by lia.
  replace (LARGEST_POWER_OF_TEN f <? q) with true by lia. reflexivity.
Qed.

Lemma fields_zero f : lfmt f -> fields_ok f fp_zero.
Proof.
  intros L. unfold fields_ok, fp_zero. cbn [mant exp].
  pose proof (lf_inf f L). pose proof (lf_ew f L). pose proof (lf_ms f L).
  pose proof (pow2_pos (ewidth f) ltac:(lia)). pose proof (pow2_pos (MANTISSA_SIZE f) ltac:(lia)). lia.
Qed.
Lemma fields_inf f : lfmt f -> fields_ok f (fp_inf f).
Proof.
  intros L. unfold fields_ok, fp_inf. cbn [mant exp].
  pose proof (lf_inf f L). pose proof (lf_ew f L). pose proof (lf_ms f L).
  pose proof (pow2_pos (ewidth f) ltac:(lia)). pose proof (pow2_pos (MANTISSA_SIZE f) ltac:(lia)). lia.
Qed.

(** ** Main theorem: [compute_float] never panics (either build mode) and a definite answer
    ([0 <= exp]) is the correctly rounded value of [w * 10^q], for every [q] and every 64-bit [w]. *)
Theorem compute_float_sound_all f b q w : lfmt_ok f = true -> 0 <= w < 2 ^ 64 -> cf_sound f b q w.
Proof.
  intros Lok Hw. pose proof (lfmt_ok_spec f Lok) as L.
  destruct (Z.eq_dec w 0) as [->|Hw0].
  { exists fp_zero. split; [apply cf_zero_w|]. intros _. split; [apply fields_zero; assumption|].
    rewrite pack_zero. apply rne_zero_value. }
  destruct (Z_lt_le_dec q (SMALLEST_POWER_OF_TEN f)) as [Hs|Hs].
  { exists fp_zero. split; [apply cf_small_q; assumption|]. intros _. split; [apply fields_zero; assumption|].
    rewrite pack_zero. apply rne_underflow; [assumption|lia|assumption]. }
  destruct (Z_lt_le_dec (LARGEST_POWER_OF_TEN f) q) as [Hl|Hl].
  { exists (fp_inf f). split; [apply cf_large_q; assumption|]. intros _. split; [apply fields_inf; assumption|].
    rewrite pack_inf by assumption. apply rne_overflow; [assumption|lia|assumption]. }
  destruct (Z_lt_le_dec q (-27)) as [H1|H1].
  { apply compute_float_sound_floor; try assumption; lia. }
  destruct (Z_lt_le_dec q 0) as [H2|H2].
  { apply compute_float_sound_ceil; try assumption; lia. }
  destruct (Z_le_gt_dec q 55) as [H3|H3].
  { apply compute_float_sound_exact; try assumption; lia. }
  apply compute_float_sound_floor; try assumption; lia.
Qed.

(** the same statement, spelled out *)
Theorem compute_float_sound : forall f b q w, lfmt_ok f = true ->
  0 <= w < 2 ^ 64 -> - 2 ^ 31 <= q < 2 ^ 31 ->
  exists fp, compute_float TABLES f b q w = Ok fp /\
    (0 <= exp fp ->
       (0 <= exp fp <= INFINITE_POWER f /\
        (0 <= mant fp < 2 ^ MANTISSA_SIZE f \/ (mant fp = 2 ^ MANTISSA_SIZE f /\ exp fp = 1))) /\
       rne_bits f (dec_num w q) (dec_den q) (Z.lor (mant fp) (exp fp * 2 ^ MANTISSA_SIZE f))).
Proof. intros f b q w Lok Hw _. exact (compute_float_sound_all f b q w Lok Hw). Qed.

(** [pack] is the word [extended_to_float] builds *)
Lemma pack_range f fp : lfmt f -> fields_ok f fp -> 0 <= pack f fp < 2 ^ ewidth f * 2 ^ MANTISSA_SIZE f.
Proof.
  intros L [He Hm]. pose proof (lfmt_emax f L) as (He1 & He2 & He3 & He4 & He5).
  pose proof (lf_ms f L) as HMS. pose proof (lf_ew f L) as Hew.
  assert (HP : 0 < 2 ^ MANTISSA_SIZE f) by (apply pow2_pos; lia).
  unfold pack. destruct Hm as [Hm|[Hm He']].
  - rewrite lor_add by lia. nia.
  - rewrite Hm, He', Z.mul_1_l, Z.lor_diag. nia.
Qed.

Lemma pack_extended_to_float f b fp : lfmt f -> fields_ok f fp -> fbits f = 32 \/ fbits f = 64 ->
  extended_to_float f b fp = Ok (pack f fp).
Proof.
  intros L HF Hb. pose proof (pack_range f fp L HF) as HR. destruct HF as [He Hm].
  pose proof (lfmt_emax f L) as (He1 & He2 & He3 & He4 & He5).
  pose proof (lf_ms f L) as HMS. pose proof (lf_ew f L) as Hew.
  unfold extended_to_float, as_u64, wrapu.
  assert (HP : 0 < 2 ^ MANTISSA_SIZE f) by (apply pow2_pos; lia).
  assert (EW : 2 ^ ewidth f * 2 ^ MANTISSA_SIZE f = 2 ^ (fbits f - 1)).
  { rewrite <- pow2_add by lia. f_equal. unfold ewidth. lia. }
  assert (HW : 2 ^ (fbits f - 1) <= 2 ^ 63) by (apply pow2_le; lia).
  rewrite p2_63 in *.
  rewrite (Z.mod_small (exp fp)) by (rewrite p2_64; nia).
  rewrite shl64_ok by lia. rewrite Z.mod_small by (rewrite p2_64; nia). cbn [bind].
  fold (pack f fp). unfold from_bits. destruct Hb as [Hb|Hb]; rewrite Hb.
  - cbn [Z.eqb Pos.eqb]. rewrite Hb in EW. change (2 ^ (32 - 1)) with 2147483648 in EW.
    replace (pack f fp <=? 4294967295) with true by lia. rewrite debug_assert_ok. cbn [bind].
    unfold as_u32, wrapu. rewrite Z.mod_small by (rewrite p2_32; lia). reflexivity.
  - reflexivity.
Qed.

(** ** Stage 4: the wrapper *)
Lemma ext_eqb_eq x y : ext_eqb x y = true -> x = y.
Proof.
  destruct x as [m1 e1], y as [m2 e2]. unfold ext_eqb. cbn [mant exp]. intros H.
  apply andb_prop in H. destruct H as [H1 H2]. f_equal; lia.
Qed.

Lemma compute_error_ok f b q w : lfmt f -> 0 < w < 2 ^ 64 ->
  SMALLEST_POWER_OF_TEN f <= q <= LARGEST_POWER_OF_TEN f ->
  exists fp, compute_error TABLES f b q w = Ok fp /\ exp fp < 0.
Proof.
  intros L Hw Hq.
  pose proof (lf_ms f L) as HMS. pose proof (lf_sp10 f L) as Hsp. pose proof (lf_lp10 f L) as Hlp.
  pose proof (lz64_spec w Hw) as (Hlz & Hw').
  destruct (compute_product_approx_spec b q (w * 2 ^ lz64 w) (MANTISSA_SIZE f + 3)
              ltac:(lia) ltac:(lia) ltac:(lia)) as (lo & hi & Hcpa & Hlo & Hhi & Hpair).
  unfold compute_error. rewrite shl64_ok by lia. rewrite Z.mod_small by lia. cbn [bind].
  rewrite Hcpa. cbn [bind].
  apply ces_ok; try assumption; lia.
Qed.

Theorem lemire_sound f b n : lfmt_ok f = true -> 0 <= nmant n < 2 ^ 64 ->
  (many n = true -> 0 < nmant n /\ nmant n + 1 < 2 ^ 64) ->
  exists fp, lemire TABLES f b n = Ok fp /\
    (0 <= exp fp ->
       compute_float TABLES f b (nexp n) (nmant n) = Ok fp /\
       fields_ok f fp /\
       rne_bits f (dec_num (nmant n) (nexp n)) (dec_den (nexp n)) (pack f fp) /\
       (many n = true ->
          compute_float TABLES f b (nexp n) (nmant n + 1) = Ok fp /\
          rne_bits f (dec_num (nmant n + 1) (nexp n)) (dec_den (nexp n)) (pack f fp))).
Proof.
  intros Lok Hw Hmany. pose proof (lfmt_ok_spec f Lok) as L.
  destruct n as [q w mn]. cbn [nexp nmant many] in *.
  unfold lemire. cbn [nexp nmant many].
  destruct (compute_float_sound_all f b q w Lok Hw) as (fp1 & E1 & S1).
  rewrite E1. cbn [bind].
  destruct (mn && (0 <=? exp fp1)) eqn:Em.
  - apply andb_prop in Em. destruct Em as [Em Ee]. subst mn.
    destruct (Hmany eq_refl) as [Hw0 Hw1].
    unfold u64_add. rewrite uop64_ok by lia. cbn [bind].
    destruct (compute_float_sound_all f b q (w + 1) Lok ltac:(lia)) as (fp2 & E2 & S2).
    rewrite E2. cbn [bind].
    destruct (ext_eqb fp1 fp2) eqn:Eq; cbn [negb].
    + apply ext_eqb_eq in Eq. subst fp2.
      exists fp1. split; [reflexivity|]. intros He.
      destruct (S1 He) as [F1 R1]. destruct (S2 He) as [_ R2].
      split; [reflexivity|]. split; [exact F1|]. split; [exact R1|]. intros _. split; [reflexivity|exact R2].
    + (* the two answers differ: q is in the table range, the estimate is returned *)
      assert (Hq : SMALLEST_POWER_OF_TEN f <= q <= LARGEST_POWER_OF_TEN f).
      { destruct (Z_lt_le_dec q (SMALLEST_POWER_OF_TEN f)) as [Hs|Hs].
        { rewrite cf_small_q in E1, E2 by assumption. inversion E1; inversion E2; subst.
          discriminate Eq. }
        destruct (Z_lt_le_dec (LARGEST_POWER_OF_TEN f) q) as [Hl|Hl]; [|lia].
        rewrite cf_large_q in E1, E2 by (try assumption; lia). inversion E1; inversion E2; subst.
        unfold ext_eqb in Eq. rewrite !Z.eqb_refl in Eq. discriminate Eq. }
      destruct (compute_error_ok f b q w L ltac:(lia) Hq) as (fp & Efp & Hneg).
      exists fp. split; [exact Efp|]. intros He. lia.
  - exists fp1. split; [reflexivity|]. intros He.
    destruct (S1 He) as [F1 R1].
    split; [reflexivity|]. split; [exact F1|]. split; [exact R1|].
    intros ->. replace (0 <=? exp fp1) with true in Em by lia. discriminate Em.
Qed.

(** the hypotheses are satisfiable; a case where the wrapper declines although both ends are
    definite, and a case where it answers *)
Example ex_lemire_hyps :
  let n := mkNumber 0 9007199254740993 true in
  lfmt_ok F64 = true /\ 0 <= nmant n < 2 ^ 64 /\ (many n = true -> 0 < nmant n /\ nmant n + 1 < 2 ^ 64).
Proof. cbv zeta. cbn [nmant many]. split; [exact lfmt_ok_F64|]. split; [|intros _]; split; try lia; reflexivity. Qed.
Example ex_lemire_decl : lemire TABLES F64 checked_build (mkNumber 0 9007199254740993 true)
  = Ok (mkExt 9223372036854776832 (-31703)).
Proof. vm_compute. reflexivity. Qed.
Example ex_lemire_def : lemire TABLES F64 checked_build (mkNumber (-5) 1234567890123456789 true)
  = Ok (mkExt 1817387970061603 1066).
Proof. vm_compute. reflexivity. Qed.
Example ex_sub : compute_float TABLES F64 checked_build (-324) 3 = Ok (mkExt 1 0).
Proof. vm_compute. reflexivity. Qed.
Example ex_neg_tie : compute_float TABLES F64 checked_build (-3) 9007199254740993000 = Ok (mkExt 0 1076).
Proof. vm_compute. reflexivity. Qed.

Print Assumptions compute_float_sound.
Print Assumptions lemire_sound.
