(** * gen/Src.v = model: src/slow.rs b() and bh() *)
From Coq Require Import ZArith List Bool Lia Znumtheory.
From Coq Require Import ZifyBool.
From ML Require Import base.RustSem model.Fmt model.FloatOps model.Mask model.Num model.Number
  model.Rounding model.Lemire model.Bellerophon model.Slow gen.Consts gen.Tables gen.BTables.
From ML Require Import gen.Src.
From ML Require Import proofs.SrcEqBase proofs.SrcEqNum.
Import ListNotations.
Ltac Zify.zify_post_hook ::= Z.div_mod_to_equations.
Open Scope Z_scope.
Open Scope rust_scope.
(** ** slow.rs *)
Theorem rs_b_eq : forall f b x, rs_b f b x = float_b f b x.
Proof. intros. unfold rs_b, float_b. crunch. Qed.
#[export] Hint Rewrite rs_b_eq : rs_eq.

Theorem rs_bh_eq : forall f b x, rs_bh f b x = float_bh f b x.
Proof. intros. unfold rs_bh, float_bh. repeat step. reflexivity. Qed.

(** the fuelled `while` of the translation against the model's [sci_loop] *)

Print Assumptions rs_b_eq.
Print Assumptions rs_bh_eq.
