From Coq Require Import ZArith.
Search (_ * _ ?= _ * _)%Z.
Search ((_ ?= _)%Z <> Gt).
Search ((_ ?= _)%Z <> Lt).
