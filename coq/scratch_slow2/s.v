From ML Require Import proofs.SlowFacts2.
Check canon_exp_norm. Check nearest_even_norm. Check femin_nonpos. Check pow2_prec_ms. Check rne_bits_succ_mid_cmp. Check encode_offset.
