#!/bin/bash
# usage: show.sh file line  -- prints goals just before given line
f=$1; n=$2
head -n $((n-1)) $f > scratch_slow2/tmp_show.v
echo "Show. " >> scratch_slow2/tmp_show.v
timeout 600 coqc -Q . ML -w -notation-overridden scratch_slow2/tmp_show.v 2>&1 | head -${3:-80}
