(** * SlowFacts2c (part C/D): `negative_digit_comp` returns the correctly rounded value.

    [negative_digit_comp_correct]: stack back-end, exact tables.  Given the digits [N] (a
    normalised big integer), a negative decimal exponent, and a declined estimate [fp] whose
    truncation to the format is the pattern [bbits = rd_bits f fp]: if the correctly rounded
    pattern [w] of N * 10^exponent ([rne_bits]) is [bbits] or [bbits + 1], and the two scaled
    integers fit the capacity, then the function does not panic and its result packs to [w].
    All cases of [bbits] are covered: zero, subnormal, subnormal -> normal transition, binade
    boundary, largest finite (successor +infinity) and even [bbits] = +infinity. *)
From Coq Require Import ZArith List Bool Lia Znumtheory.
From Coq Require Import ZifyBool.
From ML Require Import base.RustSem model.Fmt model.Mask model.Num model.Rounding model.Vec model.Number
  model.Bigint model.Slow.
From ML Require Import gen.Consts gen.PowDump gen.Tables spec.RneZ.
From ML Require Import proofs.LimbVal proofs.BigintFacts2 proofs.BigintFacts1 proofs.RoundingFactsZ
  proofs.NumFacts proofs.SlowFacts2 proofs.SlowFacts2b.
Import ListNotations.
Open Scope Z_scope.
Local Opaque Z.pow.
Arguments Z.pow : simpl never.

(** ** 1. The packed result of [round] for a callback returning floor + u *)

Definition rd_shift (f : format) (e : Z) : Z :=
  if e <=? - (63 - MANTISSA_SIZE f) then 1 - e else 63 - MANTISSA_SIZE f.

(** the fields / the pattern of the estimate truncated to the format (`b` of the Rust code) *)
Definition rd_fields (f : format) (fp : extfloat) : extfloat :=
  round_spec f (fun s => mant fp / 2 ^ s) (exp fp).
Definition rd_bits (f : format) (fp : extfloat) : Z := pack_fields f (rd_fields f fp).

Section C.
Variable f : format.
Hypothesis Hf : rfmt_ok f = true.
Hypothesis OK : fmt_ok f = true.

Local Notation ms := (MANTISSA_SIZE f).
Local Notation sh := (63 - MANTISSA_SIZE f).

Lemma rd_model b fp :
  2 ^ 63 <= mant fp < 2 ^ 64 -> - 63 <= exp fp <= 2 ^ 30 ->
  round f b fp (round_down b) = Ok (rd_fields f fp) /\
  extended_to_float f b (rd_fields f fp) = Ok (rd_bits f fp) /\
  0 <= rd_bits f fp < 2 ^ (fbits f - 1).
Proof.
  intros Hm He. destruct fp as [m e]. cbn [mant exp] in *.
  exact (round_down_packed_Z f Hf b m e Hm He).
Qed.

Lemma rd_q_bounds m e :
  2 ^ 63 <= m < 2 ^ 64 -> - 63 <= e ->
  let q := m / 2 ^ rd_shift f e in
  (e <= - sh -> 0 <= q < 2 ^ ms) /\ (- sh < e -> 2 ^ ms <= q < 2 * 2 ^ ms).
Proof.
  intros Hm He q. destruct (rfmt_ok_props f Hf) as [Pms _ _ _ _ _ _ _ _ _ _].
  unfold q, rd_shift. split; intros H.
  - replace (e <=? - sh) with true by lia.
    pose proof (div_pow2_lt m (1 - e) ltac:(lia) ltac:(lia)) as Hq.
    pose proof (RoundingFactsZ.pow2_le (64 - (1 - e)) ms ltac:(lia)). lia.
  - replace (e <=? - sh) with false by lia.
    pose proof (div_pow2_lt m sh ltac:(lia) ltac:(lia)) as Hq.
    replace (64 - sh) with (ms + 1) in Hq by lia.
    rewrite RoundingFactsZ.pow2_succ in Hq by lia. split; [|lia].
    apply Z.div_le_lower_bound; [apply RoundingFactsZ.pow2_pos; lia|].
    rewrite <- RoundingFactsZ.pow2_split by lia. replace (sh + ms) with 63 by lia. lia.
Qed.

Lemma inf_bits_power : inf_bits f = INFINITE_POWER f * 2 ^ ms.
Proof. destruct (rfmt_ok_props f Hf) as [_ _ _ _ _ _ Pinf _ _ _ _]. rewrite Pinf. reflexivity. Qed.

Lemma pack_round_spec_gen g m e u :
  2 ^ 63 <= m < 2 ^ 64 -> - 63 <= e <= 2 ^ 30 ->
  let q := m / 2 ^ rd_shift f e in
  g (rd_shift f e) = q + u -> 0 <= u <= 1 ->
  pack_fields f (round_spec f g e) =
    if e <=? - sh then q + u
    else if INFINITE_POWER f <=? e + sh then inf_bits f
    else (e + sh) * 2 ^ ms + (q + u - 2 ^ ms).
Proof.
  intros Hm He q Hg Hu.
  destruct (rfmt_ok_props f Hf) as [Pms Pew _ _ _ _ Pinf _ _ _ _].
  destruct (rd_q_bounds m e Hm ltac:(lia)) as [Qs Qn]. fold q in Qs, Qn.
  pose proof (RoundingFactsZ.pow2_pos ms ltac:(lia)) as Hpos.
  pose proof (RoundingFactsZ.pow2_succ ms ltac:(lia)) as Hsucc.
  rewrite inf_bits_power.
  unfold round_spec, pack_fields. cbv zeta. unfold rd_shift in Hg, q.
  destruct (e <=? - sh) eqn:Esub.
Show. 
