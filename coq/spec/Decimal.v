(** * Decimal: what a valid input is and which rational number it denotes. *)
From Coq Require Import ZArith QArith List Bool.
From ML Require Import base.RustSem.
Import ListNotations.
Open Scope Z_scope.

Definition digitb (c : Z) : bool := (48 <=? c) && (c <=? 57).

(** value of a digit string, most significant digit first *)
Fixpoint digits_acc (acc : Z) (l : list Z) : Z :=
  match l with
  | [] => acc
  | c :: r => digits_acc (acc * 10 + (c - 48)) r
  end.
Definition digits_to_Z (l : list Z) : Z := digits_acc 0 l.

(** A valid input: ASCII digits, an integer part without a leading zero, fewer than 2^31 - 2
    digits in total (beyond that the code's `usize as i32` casts wrap; the property quantifies
    up to 10^6 digits), any i32 exponent. *)
Definition valid_inputb (i f : list Z) (e : Z) : bool :=
  forallb digitb i && forallb digitb f &&
  negb (match i with c :: _ => c =? 48 | [] => false end) &&
  (zlen i + zlen f <? 2 ^ 31 - 2) && in_s 32 e.
Definition valid_input (i f : list Z) (e : Z) : Prop := valid_inputb i f e = true.

(** 10^k as a rational, k any integer *)
Definition pow10Q (k : Z) : Q :=
  match k with
  | Z0 => 1%Q
  | Zpos p => inject_Z (10 ^ Zpos p)
  | Zneg p => Qmake 1 (Z.to_pos (10 ^ Zpos p))
  end.

(** the exact value  integer.fraction x 10^e  *)
Definition dec_value (i f : list Z) (e : Z) : Q :=
  (inject_Z (digits_to_Z (i ++ f)) * pow10Q (e - zlen f))%Q.
