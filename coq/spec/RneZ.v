(** * RneZ: an integer-only statement of "correctly rounded" (nearest, ties to even, overflow to
    +infinity, gradual underflow), for a non-negative rational n/d and a result bit pattern.
    The stage proofs (Eisel-Lemire, Bellerophon, slow path, rounding primitive) target this
    relation; one bridge theorem (spec/RneBridge.v) shows  rne_bits f n d bits -> RN f (n/d) = bits,
    so real numbers are confined to the bridge. *)
From Coq Require Import ZArith Bool.
From ML Require Import base.RustSem model.Fmt.
Open Scope Z_scope.

Section S.
Variable f : format.

Definition inf_bits : Z := (2 ^ ewidth f - 1) * 2 ^ MANTISSA_SIZE f.

(** encoding of the float M * 2^E (femin <= E, 0 <= M <= 2^prec, and M < 2^(prec-1) only when
    E = femin): the IEEE fields packed into a word.  M = 2^prec (a carry) lands in the next binade
    with fraction 0, and at the top of the range on [inf_bits]. *)
Definition encode (M E : Z) : Z :=
  if M <? 2 ^ MANTISSA_SIZE f then M
  else (E - femin f + 1) * 2 ^ MANTISSA_SIZE f + (M - 2 ^ MANTISSA_SIZE f).

(** x / 2^E = sc_num / sc_den  for x = n/d *)
Definition sc_num (n E : Z) : Z := if 0 <=? E then n else n * 2 ^ (- E).
Definition sc_den (d E : Z) : Z := if 0 <=? E then d * 2 ^ E else d.

(** E is the canonical exponent of x = n/d > 0 in the format (FLT):  E = max(femin, mag x - prec) *)
Definition canon_exp (n d E : Z) : Prop :=
  femin f <= E /\
  sc_num n E < 2 ^ prec f * sc_den d E /\
  (E = femin f \/ 2 ^ (prec f - 1) * sc_den d E <= sc_num n E).

(** M is x / 2^E rounded to the nearest integer, ties to the even one *)
Definition nearest_even (n d M E : Z) : Prop :=
  2 * Z.abs (sc_num n E - M * sc_den d E) <= sc_den d E /\
  (2 * Z.abs (sc_num n E - M * sc_den d E) = sc_den d E -> Z.even M = true).

(** [bits] is the correctly rounded encoding of n/d  (0 <= n, 0 < d) *)
Definition rne_bits (n d bits : Z) : Prop :=
  (n = 0 /\ bits = 0) \/
  (0 < n /\ 2 ^ emax f * d <= n /\ bits = inf_bits) \/
  (0 < n /\ n < 2 ^ emax f * d /\
   exists M E, canon_exp n d E /\ nearest_even n d M E /\ bits = encode M E).

(** the value  w * 10^q  as a fraction *)
Definition dec_num (w q : Z) : Z := if 0 <=? q then w * 10 ^ q else w.
Definition dec_den (q : Z) : Z := if 0 <=? q then 1 else 10 ^ (- q).

End S.
