(** * RoundFacts: the meaning of the specification [RN] (spec/Round.v) in terms of Flocq's
    real-number rounding, and the order / uniqueness facts the end-to-end properties use.

    For every format [f] with [sfmt_ok f = true] (proved for [F32], [F64]) and
    [fexp := FLT_exp (femin f) (prec f)], [rnd := round radix2 fexp ZnearestE]:
    - [RN_sf_spec]      : [RN_sf] is Flocq's correctly rounded division (meaning of the spec)
    - [RN_spec]         : summary: [RN f v] decodes to the float of value [rnd (Q2R v)], or is
                          +infinity when that real reaches [2^emax]
    - [bits_le_iff], [bits_inj] : [bits_of_sf] is order preserving / injective on valid
                          non-negative non-NaN spec floats
    - [RN_of_round], [RN_of_round_overflow] : the bridge for integer-significand users
      ([RN_of_round_normal], [RN_of_round_subnormal] variants; converse [RN_encode_inv])
    - [RN_bitsR]        : [RN f v] is a function ([bitsR]) of the real [rnd (Q2R v)]
    - [RN_Qeq], [RN_ext_R], [RN_monotone], [RN_range], [RN_inf_iff], [RN_finite_decode]
    - [sf_of_bits_of_sf], [decode_valid] : the two round trips bits <-> spec_float
    - [RN_fixpoint]     : [RN f (value_Q f x) = x] for finite non-negative patterns
    - [overflow_threshold(_iff)], [below_overflow_threshold],
      [underflow_threshold(_iff)], [above_underflow_threshold]. *)
From Coq Require Import ZArith QArith Qpower Qreals Reals List Bool Lia Lra.
From Coq Require Import Floats.SpecFloat.
From Flocq Require Import Core.Core IEEE754.BinarySingleNaN.
From ML Require Import base.RustSem model.Fmt model.FloatOps gen.Consts spec.Decimal spec.Round.
Open Scope Z_scope.
Local Arguments Z.pow : simpl never.

(** ** Format side conditions; item 1: the meaning of [RN_sf] *)
Definition sfmt_ok (f : format) : bool :=
  (0 <? MANTISSA_SIZE f) && (prec f <? emax f) && (2 <=? ewidth f)
  && ((fbits f =? 32) || (fbits f =? 64)).

Lemma sfmt_ok_F32 : sfmt_ok F32 = true. Proof. vm_compute. reflexivity. Qed.
Lemma sfmt_ok_F64 : sfmt_ok F64 = true. Proof. vm_compute. reflexivity. Qed.

Section Fmt1.
Variable f : format.
Hypothesis Hok : sfmt_ok f = true.

Lemma sfmt_ok_props :
  0 < MANTISSA_SIZE f /\ prec f < emax f /\ 2 <= ewidth f /\ (fbits f = 32 \/ fbits f = 64).
Proof. unfold sfmt_ok in Hok. lia. Qed.

Lemma prec_gt_0_f : Prec_gt_0 (prec f).
Proof. unfold Prec_gt_0, prec. destruct sfmt_ok_props. lia. Qed.
Lemma prec_lt_emax_f : Prec_lt_emax (prec f) (emax f).
Proof. unfold Prec_lt_emax. destruct sfmt_ok_props. lia. Qed.

Notation fexp := (FLT_exp (femin f) (prec f)).

Lemma round_nearest_even_equiv s m l :
  round_nearest_even m l = choice_mode mode_NE s m l.
Proof.
case l; [reflexivity|intro c].
case c; [ | reflexivity..].
now simpl; unfold Round.cond_incr; case Z.even.
Qed.

Lemma binary_round_aux_equiv sx mx ex lx :
  SpecFloat.binary_round_aux (prec f) (emax f) sx mx ex lx
  = binary_round_aux (prec f) (emax f) mode_NE sx mx ex lx.
Proof.
unfold SpecFloat.binary_round_aux, binary_round_aux.
set (mrse' := shr_fexp _ _ _ _ _).
case mrse'; intros mrs' e'; simpl.
now rewrite (round_nearest_even_equiv sx).
Qed.

Theorem RN_sf_spec (n d : positive) :
  let x := (IZR (Zpos n) / IZR (Zpos d))%R in
  let z := RN_sf f (Zpos n) d in
  valid_binary (prec f) (emax f) z = true /\
  if Rlt_bool (Rabs (round radix2 fexp ZnearestE x)) (bpow radix2 (emax f)) then
    SF2R radix2 z = round radix2 fexp ZnearestE x /\ is_finite_SF z = true /\ sign_SF z = false
  else z = S754_infinity false.
Proof.
  intros x z.
  pose proof (Bdiv_correct_aux (prec f) (emax f) prec_gt_0_f prec_lt_emax_f
                mode_NE false n 0 false d 0) as H.
  cbv zeta in H.
  replace (F2R (Float radix2 (cond_Zopp false (Zpos n)) 0)) with (IZR (Zpos n)) in H
    by (unfold F2R; simpl; lra).
  replace (F2R (Float radix2 (cond_Zopp false (Zpos d)) 0)) with (IZR (Zpos d)) in H
    by (unfold F2R; simpl; lra).
  unfold z, RN_sf.
  destruct (SFdiv_core_binary (prec f) (emax f) (Zpos n) 0 (Zpos d) 0) as [[mz ez] lz].
  rewrite binary_round_aux_equiv.
  exact H.
Qed.
End Fmt1.

Global Instance prec_gt_0_F32 : Prec_gt_0 (prec F32) := prec_gt_0_f F32 sfmt_ok_F32.
Global Instance prec_gt_0_F64 : Prec_gt_0 (prec F64) := prec_gt_0_f F64 sfmt_ok_F64.
Global Instance prec_lt_emax_F32 : Prec_lt_emax (prec F32) (emax F32) := prec_lt_emax_f F32 sfmt_ok_F32.
Global Instance prec_lt_emax_F64 : Prec_lt_emax (prec F64) (emax F64) := prec_lt_emax_f F64 sfmt_ok_F64.

(** ** Integer view: canonical (significand, exponent) pairs, [encode] and its order *)
Definition inf_bits (f : format) : Z := (2 ^ ewidth f - 1) * 2 ^ MANTISSA_SIZE f.

Definition encode (f : format) (M E : Z) : Z :=
  if M <? 2 ^ MANTISSA_SIZE f then M
  else (E - femin f + 1) * 2 ^ MANTISSA_SIZE f + (M - 2 ^ MANTISSA_SIZE f).

(** canonical integer significand / exponent pairs of the format (no upper bound on E) *)
Definition canonME (f : format) (M E : Z) : Prop :=
  M = 0 \/ (femin f <= E /\ M < 2 ^ prec f /\ (E = femin f \/ 2 ^ (prec f - 1) <= M)).

Section Fmt2.
Variable f : format.
Hypothesis Hok : sfmt_ok f = true.
Notation mw := (MANTISSA_SIZE f).

Lemma mw_pos : 0 < mw. Proof. destruct (sfmt_ok_props f Hok). lia. Qed.
Lemma prec_mw : prec f - 1 = mw. Proof. unfold prec. lia. Qed.
Lemma pow_prec : 2 ^ prec f = 2 * 2 ^ mw.
Proof. unfold prec. rewrite Z.pow_add_r by (pose proof mw_pos; lia). lia. Qed.
Lemma pow_mw_pos : 0 < 2 ^ mw. Proof. apply Z.pow_pos_nonneg; pose proof mw_pos; lia. Qed.
Lemma pow_ewidth : 2 ^ ewidth f = 2 * emax f.
Proof.
  unfold emax. destruct (sfmt_ok_props f Hok) as (_ & _ & H & _).
  replace (ewidth f) with (1 + (ewidth f - 1)) at 1 by lia.
  rewrite Z.pow_add_r by lia. lia.
Qed.

Lemma encode_ord M E :
  0 <= M -> canonME f M E -> M <> 0 -> encode f M E = (E - femin f) * 2 ^ mw + M.
Proof.
  intros H0 [C|(C1 & C2 & C3)] Hn; [lia|].
  unfold encode. rewrite prec_mw in C3.
  destruct (M <? 2 ^ mw) eqn:Hlt.
  - assert (E = femin f) by lia. subst E. lia.
  - lia.
Qed.

Lemma encode_0 E : encode f 0 E = 0.
Proof. unfold encode. pose proof pow_mw_pos. destruct (0 <? 2 ^ mw) eqn:H0; lia. Qed.

Lemma encode_pos M E : 0 < M -> canonME f M E -> 0 < encode f M E.
Proof.
  intros H0 C. rewrite encode_ord by (assumption || lia).
  destruct C as [C|(C1 & C2 & C3)]; [lia|]. pose proof pow_mw_pos. nia.
Qed.

Lemma F2R_lt_of_exp M1 E1 M2 E2 :
  0 <= M1 -> M1 < 2 ^ prec f -> 2 ^ mw <= M2 -> E1 < E2 ->
  (F2R (Float radix2 M1 E1) < F2R (Float radix2 M2 E2))%R.
Proof.
  intros H1 H2 H3 H4.
  apply Rlt_le_trans with (bpow radix2 (prec f + E1)).
  - rewrite <- (Rabs_pos_eq (F2R _)) by (apply F2R_ge_0; exact H1).
    apply F2R_lt_bpow. simpl. replace (prec f + E1 - E1) with (prec f) by lia.
    change (Zpower radix2 (prec f)) with (2 ^ prec f). lia.
  - apply Rle_trans with (bpow radix2 (mw + E2)).
    + apply bpow_le. unfold prec. lia.
    + rewrite <- F2R_bpow.
      rewrite (F2R_change_exp radix2 E2 1 (mw + E2)) by (pose proof mw_pos; lia).
      apply F2R_le. replace (mw + E2 - E2) with mw by lia.
      change (Zpower radix2 mw) with (2 ^ mw). lia.
Qed.

Lemma canon_cmp M1 E1 M2 E2 :
  0 < M1 -> 0 < M2 -> canonME f M1 E1 -> canonME f M2 E2 ->
  ((F2R (Float radix2 M1 E1) <= F2R (Float radix2 M2 E2))%R <->
   (E1 - femin f) * 2 ^ mw + M1 <= (E2 - femin f) * 2 ^ mw + M2).
Proof.
  intros P1 P2 [C1|(A1 & A2 & A3)] [C2|(B1 & B2 & B3)]; try lia.
  rewrite prec_mw in A3, B3. pose proof pow_prec as PP. pose proof pow_mw_pos as PM.
  destruct (Z.lt_trichotomy E1 E2) as [L|[L|L]].
  - assert (2 ^ mw <= M2) by lia.
    pose proof (F2R_lt_of_exp M1 E1 M2 E2 ltac:(lia) A2 H L).
    split; intros _; [nia|lra].
  - subst E2. split; intros H.
    + apply le_F2R in H. lia.
    + apply F2R_le. lia.
  - assert (2 ^ mw <= M1) by lia.
    pose proof (F2R_lt_of_exp M2 E2 M1 E1 ltac:(lia) B2 H L).
    split; intros H1; [lra|nia].
Qed.

Theorem canon_le_iff M1 E1 M2 E2 :
  0 <= M1 -> 0 <= M2 -> canonME f M1 E1 -> canonME f M2 E2 ->
  ((F2R (Float radix2 M1 E1) <= F2R (Float radix2 M2 E2))%R <->
   encode f M1 E1 <= encode f M2 E2).
Proof.
  intros P1 P2 C1 C2.
  destruct (Z.eq_dec M1 0) as [Z1|N1].
  - subst M1. rewrite F2R_0, encode_0. split; intros _.
    + destruct (Z.eq_dec M2 0) as [->|N2]; [rewrite encode_0; lia|].
      pose proof (encode_pos M2 E2 ltac:(lia) C2). lia.
    + apply F2R_ge_0. exact P2.
  - destruct (Z.eq_dec M2 0) as [Z2|N2].
    + subst M2. rewrite F2R_0, encode_0.
      pose proof (encode_pos M1 E1 ltac:(lia) C1).
      pose proof (F2R_gt_0 radix2 (Float radix2 M1 E1) ltac:(simpl; lia)).
      split; intros; [lra|lia].
    + rewrite !encode_ord by assumption. apply canon_cmp; try assumption; lia.
Qed.

Corollary canon_eq M1 E1 M2 E2 :
  0 <= M1 -> 0 <= M2 -> canonME f M1 E1 -> canonME f M2 E2 ->
  F2R (Float radix2 M1 E1) = F2R (Float radix2 M2 E2) ->
  encode f M1 E1 = encode f M2 E2.
Proof.
  intros P1 P2 C1 C2 H.
  pose proof (proj1 (canon_le_iff M1 E1 M2 E2 P1 P2 C1 C2) ltac:(rewrite H; apply Rle_refl)).
  pose proof (proj1 (canon_le_iff M2 E2 M1 E1 P2 P1 C2 C1) ltac:(rewrite H; apply Rle_refl)).
  lia.
Qed.

End Fmt2.

(** ** Item 3: [bits_of_sf] on valid non-negative spec floats *)
Section Fmt3.
Variable f : format.
Hypothesis Hok : sfmt_ok f = true.
Notation mw := (MANTISSA_SIZE f).
Notation fexp := (FLT_exp (femin f) (prec f)).

Lemma femin_eq : femin f = SpecFloat.emin (prec f) (emax f).
Proof. reflexivity. Qed.

Lemma bounded_canonME m e :
  bounded (prec f) (emax f) m e = true ->
  canonME f (Zpos m) e /\ e + prec f <= emax f.
Proof.
  unfold bounded, canonical_mantissa, SpecFloat.fexp.
  change (SpecFloat.emin (prec f) (emax f)) with (femin f).
  intros H. apply andb_prop in H. destruct H as [H1 H2].
  apply Zeq_bool_eq in H1. apply Zle_bool_imp_le in H2.
  rewrite Zpos_digits2_pos in H1.
  pose proof (Zdigits_correct radix2 (Zpos m)) as Hd.
  set (d := Zdigits radix2 (Zpos m)) in *.
  change (Zpower radix2 (d - 1)) with (2 ^ (d - 1)) in Hd.
  change (Zpower radix2 d) with (2 ^ d) in Hd.
  rewrite Z.abs_eq in Hd by lia.
  assert (Hd0 : 0 < d) by (apply Zdigits_gt_0; discriminate).
  pose proof (prec_gt_0_f f Hok) as Hp. unfold Prec_gt_0 in Hp.
  split; [|lia]. right.
  assert (d <= prec f) by lia.
  assert (2 ^ d <= 2 ^ prec f) by (apply Z.pow_le_mono_r; lia).
  split; [lia|]. split; [lia|].
  destruct (Z.eq_dec d (prec f)) as [->|Hn]; [right; lia|left; lia].
Qed.

Lemma canonME_bounded M E :
  0 < M -> canonME f M E -> E + prec f <= emax f ->
  bounded (prec f) (emax f) (Z.to_pos M) E = true.
Proof.
  intros HM [C|(C1 & C2 & C3)] HE; [lia|].
  unfold bounded, canonical_mantissa, SpecFloat.fexp.
  change (SpecFloat.emin (prec f) (emax f)) with (femin f).
  apply andb_true_intro. split; [|apply Zle_imp_le_bool; lia].
  apply Zeq_is_eq_bool.
  rewrite Zpos_digits2_pos. rewrite Z2Pos.id by lia.
  pose proof (prec_gt_0_f f Hok) as Hp. unfold Prec_gt_0 in Hp.
  destruct (Z_lt_le_dec M (2 ^ (prec f - 1))) as [Hlt|Hge].
  - assert (E = femin f) by lia. subst E.
    assert (Zdigits radix2 M <= prec f - 1).
    { apply Zdigits_le_Zpower. rewrite Z.abs_eq by lia. exact Hlt. }
    lia.
  - rewrite (Zdigits_unique radix2 M (prec f)).
    + lia.
    + rewrite Z.abs_eq by lia. change (Zpower radix2 (prec f - 1)) with (2 ^ (prec f - 1)).
      change (Zpower radix2 (prec f)) with (2 ^ prec f). lia.
Qed.

(** non-negative, non-NaN spec floats *)
Definition nonneg_sf (s : spec_float) : bool :=
  match s with
  | S754_zero false | S754_infinity false | S754_finite false _ _ => true
  | _ => false
  end.

(** integer significand and exponent of a non-negative spec float; +infinity is placed where the
    next binade would start: 2^(prec-1) * 2^(emax-prec+1) = 2^emax *)
Definition sfM (s : spec_float) : Z :=
  match s with
  | S754_finite _ m _ => Zpos m
  | S754_infinity _ => 2 ^ mw
  | _ => 0
  end.
Definition sfE (s : spec_float) : Z :=
  match s with
  | S754_finite _ _ e => e
  | S754_infinity _ => emax f - prec f + 1
  | _ => femin f
  end.

(** real value, with +infinity sent to 2^emax (above every finite float) *)
Definition SF2R_inf (s : spec_float) : R :=
  match s with
  | S754_infinity _ => bpow radix2 (emax f)
  | _ => SF2R radix2 s
  end.

Lemma inf_canonME : canonME f (2 ^ mw) (emax f - prec f + 1).
Proof.
  right. pose proof (prec_lt_emax_f f Hok) as H. unfold Prec_lt_emax in H.
  pose proof (prec_gt_0_f f Hok) as Hp. unfold Prec_gt_0 in Hp.
  rewrite (prec_mw f). pose proof (pow_prec f Hok). pose proof (pow_mw_pos f Hok).
  unfold femin. repeat split; try lia.
Qed.

Lemma encode_inf : encode f (2 ^ mw) (emax f - prec f + 1) = inf_bits f.
Proof.
  unfold encode, inf_bits. rewrite Z.ltb_irrefl. rewrite (pow_ewidth f Hok).
  unfold femin. ring.
Qed.

Lemma F2R_inf : F2R (Float radix2 (2 ^ mw) (emax f - prec f + 1)) = bpow radix2 (emax f).
Proof.
  rewrite <- (F2R_bpow radix2 (emax f)).
  rewrite (F2R_change_exp radix2 (emax f - prec f + 1) 1 (emax f)).
  - f_equal. f_equal. unfold prec. replace (emax f - (emax f - (mw + 1) + 1)) with mw by lia.
    change (Zpower radix2 mw) with (2 ^ mw). lia.
  - pose proof (prec_gt_0_f f Hok) as Hp. unfold Prec_gt_0 in Hp. lia.
Qed.

Lemma sf_pair s :
  valid_binary (prec f) (emax f) s = true -> nonneg_sf s = true ->
  0 <= sfM s /\ canonME f (sfM s) (sfE s) /\
  bits_of_sf f s = encode f (sfM s) (sfE s) /\
  SF2R_inf s = F2R (Float radix2 (sfM s) (sfE s)).
Proof.
  intros Hv Hn. destruct s as [[|]|[|]| |[|] m e]; try discriminate Hn; simpl.
  - split; [lia|]. split; [left; reflexivity|]. rewrite (encode_0 f Hok). rewrite F2R_0. auto.
  - pose proof (pow_mw_pos f Hok). split; [lia|]. split; [apply inf_canonME|].
    rewrite encode_inf, F2R_inf. unfold inf_bits. split; [lia|reflexivity].
  - simpl in Hv. apply bounded_canonME in Hv. destruct Hv as [Hc _].
    split; [lia|]. split; [exact Hc|]. split; reflexivity.
Qed.

(** Item 3: [bits_of_sf] is order preserving (hence injective) on valid non-negative non-NaN
    spec floats, +infinity being above every finite float *)
Theorem bits_le_iff s1 s2 :
  valid_binary (prec f) (emax f) s1 = true -> valid_binary (prec f) (emax f) s2 = true ->
  nonneg_sf s1 = true -> nonneg_sf s2 = true ->
  ((SF2R_inf s1 <= SF2R_inf s2)%R <-> bits_of_sf f s1 <= bits_of_sf f s2).
Proof.
  intros V1 V2 N1 N2.
  destruct (sf_pair s1 V1 N1) as (A1 & A2 & A3 & A4).
  destruct (sf_pair s2 V2 N2) as (B1 & B2 & B3 & B4).
  rewrite A3, A4, B3, B4. apply (canon_le_iff f Hok); assumption.
Qed.

Theorem bits_lt_iff s1 s2 :
  valid_binary (prec f) (emax f) s1 = true -> valid_binary (prec f) (emax f) s2 = true ->
  nonneg_sf s1 = true -> nonneg_sf s2 = true ->
  ((SF2R_inf s1 < SF2R_inf s2)%R <-> bits_of_sf f s1 < bits_of_sf f s2).
Proof.
  intros V1 V2 N1 N2. pose proof (bits_le_iff s2 s1 V2 V1 N2 N1) as H.
  split; intros H1.
  - apply Z.nle_gt. intros H2. apply H in H2. lra.
  - apply Rnot_le_lt. intros H2. apply H in H2. lia.
Qed.

Theorem bits_inj s1 s2 :
  valid_binary (prec f) (emax f) s1 = true -> valid_binary (prec f) (emax f) s2 = true ->
  nonneg_sf s1 = true -> nonneg_sf s2 = true ->
  SF2R_inf s1 = SF2R_inf s2 -> bits_of_sf f s1 = bits_of_sf f s2.
Proof.
  intros V1 V2 N1 N2 H.
  pose proof (proj1 (bits_le_iff s1 s2 V1 V2 N1 N2) ltac:(rewrite H; apply Rle_refl)).
  pose proof (proj1 (bits_le_iff s2 s1 V2 V1 N2 N1) ltac:(rewrite H; apply Rle_refl)).
  lia.
Qed.

Lemma SF2R_inf_finite s : is_finite_SF s = true -> SF2R_inf s = SF2R radix2 s.
Proof. destruct s; try discriminate; reflexivity. Qed.

Corollary bits_inj_finite s1 s2 :
  valid_binary (prec f) (emax f) s1 = true -> valid_binary (prec f) (emax f) s2 = true ->
  is_finite_SF s1 = true -> is_finite_SF s2 = true -> sign_SF s1 = false -> sign_SF s2 = false ->
  SF2R radix2 s1 = SF2R radix2 s2 -> bits_of_sf f s1 = bits_of_sf f s2.
Proof.
  intros V1 V2 F1 F2 S1 S2 H. apply bits_inj; try assumption.
  - destruct s1 as [[|]|[|]| |[|] m e]; try discriminate; reflexivity.
  - destruct s2 as [[|]|[|]| |[|] m e]; try discriminate; reflexivity.
  - rewrite !SF2R_inf_finite by assumption. exact H.
Qed.

End Fmt3.

(** ** Item 8: the bridge [RN_of_round] *)
Lemma Q2R_Qmake n d : Q2R (n # d) = (IZR n / IZR (Zpos d))%R.
Proof. reflexivity. Qed.

Section Fmt4.
Variable f : format.
Hypothesis Hok : sfmt_ok f = true.
Notation mw := (MANTISSA_SIZE f).
Notation fexp := (FLT_exp (femin f) (prec f)).
Notation rnd := (round radix2 fexp ZnearestE).

Lemma RN_sf_0 d : RN_sf f 0 d = S754_zero false.
Proof. reflexivity. Qed.
Lemma RN_sf_neg n d : RN_sf f (Zneg n) d = S754_zero false.
Proof. reflexivity. Qed.

Lemma RN_0num d : RN f (0 # d) = 0.
Proof. reflexivity. Qed.

Lemma Qle0_num v : (0 <= v)%Q -> 0 <= Qnum v.
Proof. unfold Qle. simpl. lia. Qed.

Lemma Q2R_nonneg v : (0 <= v)%Q -> (0 <= Q2R v)%R.
Proof. intros H. apply Qle_Rle in H. rewrite RMicromega.Q2R_0 in H. exact H. Qed.

Lemma rnd_nonneg x : (0 <= x)%R -> (0 <= rnd x)%R.
Proof.
  intros H. pose proof (prec_gt_0_f f Hok).
  apply round_ge_generic; auto with typeclass_instances. apply generic_format_0.
Qed.

(** Item 8: the bridge for integer-significand users *)
Theorem RN_of_round v M E :
  (0 <= v)%Q -> 0 <= M -> canonME f M E -> E + prec f <= emax f ->
  F2R (Float radix2 M E) = rnd (Q2R v) ->
  RN f v = encode f M E.
Proof.
  intros Hv HM HC HE HR. destruct v as [n d]. apply Qle0_num in Hv. simpl in Hv.
  destruct n as [|n|n]; [| |lia].
  - rewrite RN_0num. rewrite Q2R_Qmake in HR. unfold Rdiv in HR. rewrite Rmult_0_l, round_0 in HR
      by auto with typeclass_instances.
    apply eq_0_F2R in HR. subst M. rewrite (encode_0 f Hok). reflexivity.
  - unfold RN. simpl Qnum. simpl Qden.
    destruct (RN_sf_spec f Hok n d) as [Hval Hs]. rewrite Q2R_Qmake in HR. rewrite <- HR in Hs.
    rewrite Rlt_bool_true in Hs.
    + destruct Hs as (H1 & H2 & H3).
      set (z := RN_sf f (Zpos n) d) in *.
      assert (Hn : nonneg_sf z = true)
        by (destruct z as [[|]|[|]| |[|] m e]; try discriminate; reflexivity).
      destruct (sf_pair f Hok z Hval Hn) as (A1 & A2 & A3 & A4).
      rewrite A3. apply (canon_eq f Hok); try assumption.
      rewrite <- A4. rewrite (SF2R_inf_finite f) by assumption. exact H1.
    + destruct HC as [->|(C1 & C2 & C3)].
      * rewrite F2R_0, Rabs_R0. apply bpow_gt_0.
      * apply Rlt_le_trans with (bpow radix2 (E + prec f)); [|apply bpow_le; lia].
        apply F2R_lt_bpow. simpl. replace (E + prec f - E) with (prec f) by lia.
        change (Zpower radix2 (prec f)) with (2 ^ prec f). lia.
Qed.

Theorem RN_of_round_overflow v :
  (0 <= v)%Q -> (bpow radix2 (emax f) <= rnd (Q2R v))%R -> RN f v = inf_bits f.
Proof.
  intros Hv HR. destruct v as [n d]. apply Qle0_num in Hv. simpl in Hv.
  destruct n as [|n|n]; [| |lia].
  - rewrite Q2R_Qmake in HR. unfold Rdiv in HR. rewrite Rmult_0_l, round_0 in HR
      by auto with typeclass_instances.
    pose proof (bpow_gt_0 radix2 (emax f)). lra.
  - unfold RN. simpl Qnum. simpl Qden.
    destruct (RN_sf_spec f Hok n d) as [Hval Hs]. rewrite Q2R_Qmake in HR.
    rewrite Rlt_bool_false in Hs.
    + rewrite Hs. unfold bits_of_sf, inf_bits. lia.
    + rewrite Rabs_pos_eq; [exact HR|].
      pose proof (bpow_gt_0 radix2 (emax f)). lra.
Qed.

End Fmt4.

(** ** [RN] as a function of the rounded real *)
Section Fmt5.
Variable f : format.
Hypothesis Hok : sfmt_ok f = true.
Notation mw := (MANTISSA_SIZE f).
Notation fexp := (FLT_exp (femin f) (prec f)).
Notation rnd := (round radix2 fexp ZnearestE).

Lemma prec_bounds : 2 <= prec f /\ prec f < emax f.
Proof.
  pose proof (prec_lt_emax_f f Hok) as Hpe. unfold Prec_lt_emax in Hpe.
  pose proof (mw_pos f Hok). unfold prec in *. lia.
Qed.

Lemma canon_digits M E :
  0 < M -> (Z.max (Zdigits radix2 M + E - prec f) (femin f) = E <-> canonME f M E).
Proof.
  intros HM.
  pose proof (Zdigits_correct radix2 M) as Hd.
  set (d := Zdigits radix2 M) in *.
  change (Zpower radix2 (d - 1)) with (2 ^ (d - 1)) in Hd.
  change (Zpower radix2 d) with (2 ^ d) in Hd.
  rewrite Z.abs_eq in Hd by lia.
  assert (Hd0 : 0 < d) by (apply Zdigits_gt_0; lia).
  pose proof (prec_gt_0_f f Hok) as Hp. unfold Prec_gt_0 in Hp.
  split.
  - intros H1. right.
    assert (d <= prec f) by lia.
    assert (2 ^ d <= 2 ^ prec f) by (apply Z.pow_le_mono_r; lia).
    split; [lia|]. split; [lia|].
    destruct (Z.eq_dec d (prec f)) as [Heq|Hn]; [right; rewrite <- Heq; lia|left; lia].
  - intros [C|(C1 & C2 & C3)]; [lia|].
    destruct (Z_lt_le_dec M (2 ^ (prec f - 1))) as [Hlt|Hge].
    + assert (E = femin f) by lia. subst E.
      assert (d <= prec f - 1).
      { apply Zdigits_le_Zpower. rewrite Z.abs_eq by lia. exact Hlt. }
      lia.
    + assert (d = prec f).
      { apply Zdigits_unique. rewrite Z.abs_eq by lia.
        change (Zpower radix2 (prec f - 1)) with (2 ^ (prec f - 1)).
        change (Zpower radix2 (prec f)) with (2 ^ prec f). lia. }
      lia.
Qed.

Lemma cexp_F2R M E : M <> 0 ->
  cexp radix2 fexp (F2R (Float radix2 M E)) = Z.max (Zdigits radix2 M + E - prec f) (femin f).
Proof. intros H. unfold cexp. rewrite mag_F2R_Zdigits by exact H. reflexivity. Qed.

Lemma canonME_generic M E :
  0 <= M -> canonME f M E -> generic_format radix2 fexp (F2R (Float radix2 M E)).
Proof.
  intros HM HC. apply generic_format_F2R. intros Hn. rewrite cexp_F2R by exact Hn.
  apply canon_digits in HC; lia.
Qed.

Lemma generic_canonME r :
  (0 <= r)%R -> generic_format radix2 fexp r ->
  let M := Ztrunc (scaled_mantissa radix2 fexp r) in
  let E := cexp radix2 fexp r in
  0 <= M /\ canonME f M E /\ r = F2R (Float radix2 M E) /\
  (M <> 0 -> (r < bpow radix2 (emax f))%R -> E + prec f <= emax f).
Proof.
  intros Hr0 Hg M E.
  assert (Hr : r = F2R (Float radix2 M E)) by exact Hg.
  assert (HE : E = cexp radix2 fexp (F2R (Float radix2 M E))) by (rewrite <- Hr; reflexivity).
  assert (HM : 0 <= M) by (apply (ge_0_F2R radix2 M E); rewrite <- Hr; exact Hr0).
  clearbody M E.
  split; [exact HM|].
  destruct (Z.eq_dec M 0) as [Z0|N0].
  - split; [left; exact Z0|]. split; [exact Hr|]. intros; lia.
  - rewrite cexp_F2R in HE by exact N0.
    split; [apply canon_digits; lia|]. split; [exact Hr|].
    intros _ Hlt.
    assert (mag radix2 r <= emax f).
    { apply mag_le_bpow.
      - rewrite Hr. apply F2R_neq_0. exact N0.
      - rewrite Rabs_pos_eq by exact Hr0. exact Hlt. }
    rewrite Hr in H. rewrite mag_F2R_Zdigits in H by exact N0.
    pose proof (prec_lt_emax_f f Hok) as Hpe. unfold Prec_lt_emax in Hpe.
    pose proof (prec_gt_0_f f Hok) as Hp. unfold Prec_gt_0 in Hp.
    unfold femin in HE. lia.
Qed.

(** The bit pattern as a function of the (already rounded) real number *)
Definition bitsR (r : R) : Z :=
  if Rlt_bool r (bpow radix2 (emax f)) then
    encode f (Ztrunc (scaled_mantissa radix2 fexp r)) (cexp radix2 fexp r)
  else inf_bits f.

Theorem RN_bitsR v : (0 <= v)%Q -> RN f v = bitsR (rnd (Q2R v)).
Proof.
  intros Hv. pose proof (prec_gt_0_f f Hok).
  set (r := rnd (Q2R v)).
  assert (Hr0 : (0 <= r)%R) by (apply (rnd_nonneg f Hok), Q2R_nonneg, Hv).
  assert (Hg : generic_format radix2 fexp r) by (apply generic_format_round; auto with typeclass_instances).
  unfold bitsR. destruct (Rlt_bool_spec r (bpow radix2 (emax f))) as [Hlt|Hge].
  - destruct (generic_canonME r Hr0 Hg) as (A1 & A2 & A3 & A4).
    set (M := Ztrunc (scaled_mantissa radix2 fexp r)) in *.
    set (E := cexp radix2 fexp r) in *.
    destruct (Z.eq_dec M 0) as [Z0|N0].
    + rewrite Z0 in *. rewrite (encode_0 f Hok).
      rewrite <- (encode_0 f Hok (femin f)).
      pose proof prec_bounds as Hpe.
      apply (RN_of_round f Hok); try assumption; try lia.
      * left; reflexivity.
      * unfold femin. lia.
      * fold r. rewrite A3. rewrite !F2R_0. reflexivity.
    + apply (RN_of_round f Hok); try assumption.
      * apply A4; assumption.
      * symmetry. exact A3.
  - apply (RN_of_round_overflow f Hok); assumption.
Qed.

Lemma bitsR_F2R M E :
  0 <= M -> canonME f M E -> E + prec f <= emax f ->
  bitsR (F2R (Float radix2 M E)) = encode f M E.
Proof.
  intros HM HC HE. set (r := F2R (Float radix2 M E)).
  assert (Hr0 : (0 <= r)%R) by (apply F2R_ge_0; exact HM).
  assert (Hg : generic_format radix2 fexp r) by (apply canonME_generic; assumption).
  destruct (generic_canonME r Hr0 Hg) as (A1 & A2 & A3 & A4).
  unfold bitsR. rewrite Rlt_bool_true.
  - apply (canon_eq f Hok); try assumption. symmetry. exact A3.
  - destruct HC as [->|(C1 & C2 & C3)].
    + unfold r. rewrite F2R_0. apply bpow_gt_0.
    + apply Rlt_le_trans with (bpow radix2 (E + prec f)); [|apply bpow_le; lia].
      rewrite <- (Rabs_pos_eq r) by exact Hr0.
      apply F2R_lt_bpow. simpl. replace (E + prec f - E) with (prec f) by lia.
      change (Zpower radix2 (prec f)) with (2 ^ prec f). lia.
Qed.

Lemma bitsR_0 : bitsR 0 = 0.
Proof.
  rewrite <- (F2R_0 radix2 (femin f)). rewrite bitsR_F2R.
  - apply (encode_0 f Hok).
  - lia.
  - left; reflexivity.
  - pose proof prec_bounds. unfold femin. lia.
Qed.

Lemma bitsR_inf r : (bpow radix2 (emax f) <= r)%R -> bitsR r = inf_bits f.
Proof. intros H. unfold bitsR. rewrite Rlt_bool_false by exact H. reflexivity. Qed.

Lemma bitsR_finite_lt r :
  (0 <= r)%R -> generic_format radix2 fexp r -> (r < bpow radix2 (emax f))%R ->
  0 <= bitsR r < inf_bits f.
Proof.
  intros Hr0 Hg Hlt. destruct (generic_canonME r Hr0 Hg) as (A1 & A2 & A3 & A4).
  unfold bitsR. rewrite Rlt_bool_true by exact Hlt.
  set (M := Ztrunc (scaled_mantissa radix2 fexp r)) in *.
  set (E := cexp radix2 fexp r) in *.
  pose proof (pow_mw_pos f Hok) as PM.
  split.
  - destruct (Z.eq_dec M 0) as [Z0|N0].
    + rewrite Z0, (encode_0 f Hok). lia.
    + pose proof (encode_pos f Hok M E ltac:(lia) A2). lia.
  - rewrite <- encode_inf by exact Hok.
    apply Z.nle_gt. intros Hle.
    apply (canon_le_iff f Hok) in Hle; try assumption; try lia.
    + rewrite (F2R_inf f Hok) in Hle. rewrite <- A3 in Hle. lra.
    + apply inf_canonME; exact Hok.
Qed.

Lemma bitsR_range r :
  (0 <= r)%R -> generic_format radix2 fexp r -> 0 <= bitsR r <= inf_bits f.
Proof.
  intros Hr0 Hg. destruct (Rlt_or_le r (bpow radix2 (emax f))) as [Hlt|Hge].
  - pose proof (bitsR_finite_lt r Hr0 Hg Hlt). lia.
  - rewrite bitsR_inf by exact Hge. unfold inf_bits.
    pose proof (pow_mw_pos f Hok). pose proof (pow_ewidth f Hok).
    pose proof (prec_lt_emax_f f Hok) as Hpe. unfold Prec_lt_emax in Hpe.
    pose proof (prec_gt_0_f f Hok) as Hp. unfold Prec_gt_0 in Hp. nia.
Qed.

Lemma bitsR_le_iff r1 r2 :
  (0 <= r1)%R -> (0 <= r2)%R -> generic_format radix2 fexp r1 -> generic_format radix2 fexp r2 ->
  (r1 < bpow radix2 (emax f))%R -> (r2 < bpow radix2 (emax f))%R ->
  ((r1 <= r2)%R <-> bitsR r1 <= bitsR r2).
Proof.
  intros P1 P2 G1 G2 L1 L2.
  destruct (generic_canonME r1 P1 G1) as (A1 & A2 & A3 & A4).
  destruct (generic_canonME r2 P2 G2) as (B1 & B2 & B3 & B4).
  unfold bitsR. rewrite !Rlt_bool_true by assumption.
  rewrite A3 at 1. rewrite B3 at 1. apply (canon_le_iff f Hok); assumption.
Qed.

Theorem bitsR_mono r1 r2 :
  (0 <= r1)%R -> generic_format radix2 fexp r1 -> generic_format radix2 fexp r2 ->
  (r1 <= r2)%R -> bitsR r1 <= bitsR r2.
Proof.
  intros P1 G1 G2 Hle. assert (P2 : (0 <= r2)%R) by lra.
  destruct (Rlt_or_le r2 (bpow radix2 (emax f))) as [Hlt|Hge].
  - apply bitsR_le_iff; try assumption. lra.
  - rewrite (bitsR_inf r2) by exact Hge. apply bitsR_range; assumption.
Qed.

End Fmt5.

(** ** Items 4, 5, 2: properness, monotonicity, range *)
Section Fmt6.
Variable f : format.
Hypothesis Hok : sfmt_ok f = true.
Notation mw := (MANTISSA_SIZE f).
Notation fexp := (FLT_exp (femin f) (prec f)).
Notation rnd := (round radix2 fexp ZnearestE).

Lemma rnd_generic x : generic_format radix2 fexp (rnd x).
Proof. pose proof (prec_gt_0_f f Hok). apply generic_format_round; auto with typeclass_instances. Qed.

Lemma rnd_le x y : (x <= y)%R -> (rnd x <= rnd y)%R.
Proof. pose proof (prec_gt_0_f f Hok). apply round_le; auto with typeclass_instances. Qed.

Theorem RN_Qeq v v' : (0 <= v)%Q -> (v == v')%Q -> RN f v = RN f v'.
Proof.
  intros Hv He. rewrite !(RN_bitsR f Hok).
  - rewrite (Qeq_eqR _ _ He). reflexivity.
  - rewrite <- He. exact Hv.
  - exact Hv.
Qed.

Theorem RN_monotone v v' : (0 <= v)%Q -> (v <= v')%Q -> RN f v <= RN f v'.
Proof.
  intros Hv Hle. rewrite !(RN_bitsR f Hok).
  - apply (bitsR_mono f Hok).
    + apply (rnd_nonneg f Hok), Q2R_nonneg, Hv.
    + apply rnd_generic.
    + apply rnd_generic.
    + apply rnd_le, Qle_Rle, Hle.
  - eapply Qle_trans; eassumption.
  - exact Hv.
Qed.

Theorem RN_range v : (0 <= v)%Q -> 0 <= RN f v <= inf_bits f.
Proof.
  intros Hv. rewrite (RN_bitsR f Hok) by exact Hv. apply (bitsR_range f Hok).
  - apply (rnd_nonneg f Hok), Q2R_nonneg, Hv.
  - apply rnd_generic.
Qed.

Theorem RN_inf_iff v : (0 <= v)%Q ->
  (RN f v = inf_bits f <-> (bpow radix2 (emax f) <= rnd (Q2R v))%R).
Proof.
  intros Hv. split; intros H.
  - apply Rnot_lt_le. intros Hlt.
    pose proof (bitsR_finite_lt f Hok (rnd (Q2R v))
      (rnd_nonneg f Hok _ (Q2R_nonneg _ Hv)) (rnd_generic _) Hlt) as Hb.
    rewrite <- (RN_bitsR f Hok) in Hb by exact Hv. lia.
  - apply (RN_of_round_overflow f Hok); assumption.
Qed.

End Fmt6.

(** ** Round trips between bit patterns and spec floats *)
Section Fmt7.
Variable f : format.
Hypothesis Hok : sfmt_ok f = true.
Notation mw := (MANTISSA_SIZE f).
Notation ew := (ewidth f).
Notation fexp := (FLT_exp (femin f) (prec f)).
Notation rnd := (round radix2 fexp ZnearestE).

Lemma ew_ge_2 : 2 <= ew. Proof. destruct (sfmt_ok_props f Hok) as (_ & _ & H & _). exact H. Qed.

Lemma pow_ew_ge_4 : 4 <= 2 ^ ew.
Proof. change 4 with (2 ^ 2). apply Z.pow_le_mono_r; [lia|apply ew_ge_2]. Qed.

Lemma sf_of_bits_qm q m :
  0 <= m < 2 ^ mw -> 0 <= q < 2 ^ ew ->
  sf_of_bits f (q * 2 ^ mw + m) =
    if q =? 0 then
      match m with Zpos p => S754_finite false p (femin f) | _ => S754_zero false end
    else if q =? 2 ^ ew - 1 then (if m =? 0 then S754_infinity false else S754_nan)
    else match m + 2 ^ mw with
         | Zpos p => S754_finite false p (q + femin f - 1) | _ => S754_nan end.
Proof.
  intros Hm Hq. pose proof (pow_mw_pos f Hok) as PM. pose proof (mw_pos f Hok) as MP.
  pose proof ew_ge_2 as EW.
  assert (H1 : (q * 2 ^ mw + m) mod 2 ^ mw = m).
  { rewrite Z.add_comm, Z.mod_add by lia. apply Z.mod_small. lia. }
  assert (H2 : (q * 2 ^ mw + m) / 2 ^ mw = q).
  { rewrite Z.add_comm, Z.div_add by lia. rewrite Z.div_small by lia. lia. }
  assert (H3 : (q * 2 ^ mw + m) / 2 ^ (mw + ew) = 0).
  { apply Z.div_small. rewrite Z.pow_add_r by lia. nia. }
  unfold sf_of_bits. cbv zeta. rewrite H1, H2, H3.
  rewrite (Z.mod_small q) by lia. rewrite Z.mod_0_l by lia. reflexivity.
Qed.

Theorem sf_of_bits_of_sf s :
  valid_binary (prec f) (emax f) s = true -> nonneg_sf s = true ->
  sf_of_bits f (bits_of_sf f s) = s.
Proof.
  intros Hv Hn. pose proof (pow_mw_pos f Hok) as PM. pose proof pow_ew_ge_4 as PE.
  pose proof (pow_prec f Hok) as PP. pose proof (pow_ewidth f Hok) as PW.
  destruct s as [[|]|[|]| |[|] m e]; try discriminate Hn.
  - change (bits_of_sf f (S754_zero false)) with 0.
    replace 0 with (0 * 2 ^ mw + 0) by lia. rewrite sf_of_bits_qm by lia. reflexivity.
  - unfold bits_of_sf. rewrite Z.add_0_l.
    replace ((2 ^ ew - 1) * 2 ^ mw) with ((2 ^ ew - 1) * 2 ^ mw + 0) by lia.
    rewrite sf_of_bits_qm by lia.
    replace (2 ^ ew - 1 =? 0) with false by (symmetry; apply Z.eqb_neq; lia).
    rewrite Z.eqb_refl. reflexivity.
  - simpl in Hv. apply (bounded_canonME f Hok) in Hv. destruct Hv as [[C|(C1 & C2 & C3)] HE]; [lia|].
    rewrite (prec_mw f) in C3.
    unfold bits_of_sf. rewrite Z.add_0_l.
    destruct (Zpos m <? 2 ^ mw) eqn:Hlt.
    + apply Z.ltb_lt in Hlt. assert (e = femin f) by lia. subst e.
      replace (Zpos m) with (0 * 2 ^ mw + Zpos m) at 1 by lia.
      rewrite sf_of_bits_qm by lia. reflexivity.
    + apply Z.ltb_ge in Hlt.
      assert (Hq : 1 <= e - femin f + 1 <= 2 ^ ew - 2) by (unfold femin in *; lia).
      rewrite sf_of_bits_qm by lia.
      replace (e - femin f + 1 =? 0) with false by (symmetry; apply Z.eqb_neq; lia).
      replace (e - femin f + 1 =? 2 ^ ew - 1) with false by (symmetry; apply Z.eqb_neq; lia).
      replace (Zpos m - 2 ^ mw + 2 ^ mw) with (Zpos m) by lia.
      f_equal. lia.
Qed.

Theorem decode_valid x :
  0 <= x <= inf_bits f ->
  let s := sf_of_bits f x in
  valid_binary (prec f) (emax f) s = true /\ nonneg_sf s = true /\
  bits_of_sf f s = x /\ (x < inf_bits f -> is_finite_SF s = true).
Proof.
  intros Hx. pose proof (pow_mw_pos f Hok) as PM. pose proof pow_ew_ge_4 as PE.
  pose proof (pow_prec f Hok) as PP. pose proof (pow_ewidth f Hok) as PW.
  pose proof (prec_bounds f Hok) as PB.
  unfold inf_bits in *.
  pose proof (Z.div_mod x (2 ^ mw) ltac:(lia)) as Hdm.
  pose proof (Z.mod_pos_bound x (2 ^ mw) PM) as Hm.
  set (q := x / 2 ^ mw) in *. set (m := x mod 2 ^ mw) in *.
  assert (Hq : 0 <= q <= 2 ^ ew - 1) by nia.
  clearbody q m. subst x. cbv zeta.
  replace (2 ^ mw * q + m) with (q * 2 ^ mw + m) in * by lia.
  rewrite sf_of_bits_qm by lia.
  destruct (q =? 0) eqn:Q0.
  - apply Z.eqb_eq in Q0. subst q.
    destruct m as [|p|p]; [| |lia].
    + simpl. repeat split; auto.
    + assert (HC : canonME f (Zpos p) (femin f)) by (right; lia).
      split; [|split; [reflexivity|split; [|reflexivity]]].
      * apply (canonME_bounded f Hok (Zpos p)); [lia|exact HC|unfold femin; lia].
      * unfold bits_of_sf. replace (Zpos p <? 2 ^ mw) with true by (symmetry; apply Z.ltb_lt; lia).
        lia.
  - apply Z.eqb_neq in Q0. destruct (q =? 2 ^ ew - 1) eqn:Q1.
    + apply Z.eqb_eq in Q1. assert (m = 0) by nia. subst m. simpl.
      split; [reflexivity|]. split; [reflexivity|]. split; [subst q; unfold bits_of_sf; lia|].
      intros; nia.
    + apply Z.eqb_neq in Q1.
      destruct (m + 2 ^ mw) as [|p|p] eqn:Hp; [lia| |lia].
      assert (HC : canonME f (Zpos p) (q + femin f - 1)).
      { right. rewrite (prec_mw f). lia. }
      split; [|split; [reflexivity|split; [|reflexivity]]].
      * apply (canonME_bounded f Hok (Zpos p)); [lia|exact HC|unfold femin; lia].
      * unfold bits_of_sf. replace (Zpos p <? 2 ^ mw) with false by (symmetry; apply Z.ltb_ge; lia).
        rewrite Z.add_0_l. rewrite <- Hp. ring.
Qed.

End Fmt7.

(** ** Powers of two in Q, [value_Q]; item 6 and the decoding half of item 2 *)
(** 2^k as a rational, k any integer (same shape as [pow10Q]) *)
Definition pow2Q (k : Z) : Q :=
  match k with
  | Z0 => 1%Q
  | Zpos p => inject_Z (2 ^ Zpos p)
  | Zneg p => Qmake 1 (Z.to_pos (2 ^ Zpos p))
  end.

Lemma Q2R_inject_Z z : Q2R (inject_Z z) = IZR z.
Proof. unfold Q2R. simpl. field. Qed.

Lemma Q2R_pow2Q k : Q2R (pow2Q k) = bpow radix2 k.
Proof.
  destruct k as [|p|p]; simpl.
  - unfold Q2R. simpl. field.
  - rewrite Q2R_inject_Z. reflexivity.
  - unfold Q2R. simpl Qnum. simpl Qden.
    assert (0 < 2 ^ Zpos p) by (apply Z.pow_pos_nonneg; lia).
    rewrite Z2Pos.id by assumption.
    change (2 ^ Zpos p) with (Z.pow_pos 2 p). rewrite Rmult_1_l. reflexivity.
Qed.

Lemma pow2Q_pos k : (0 < pow2Q k)%Q.
Proof.
  apply Rlt_Qlt. rewrite Q2R_pow2Q, RMicromega.Q2R_0. apply bpow_gt_0.
Qed.

Lemma pow2Q_Qpower k : (pow2Q k == (2 # 1) ^ k)%Q.
Proof.
  destruct k as [|p|p].
  - reflexivity.
  - unfold pow2Q. rewrite Zpower_Qpower by lia. reflexivity.
  - change ((2 # 1) ^ Zneg p)%Q with (/ ((2 # 1) ^ Zpos p))%Q.
    change (2 # 1)%Q with (inject_Z 2). rewrite <- Zpower_Qpower by lia.
    unfold pow2Q. assert (0 < 2 ^ Zpos p) by (apply Z.pow_pos_nonneg; lia).
    destruct (2 ^ Zpos p) as [|q|q]; try lia. reflexivity.
Qed.

Definition sf_value_Q (s : spec_float) : Q :=
  match s with
  | S754_finite sg p e => (inject_Z (if sg then Zneg p else Zpos p) * pow2Q e)%Q
  | _ => 0%Q
  end.

(** the rational value of the float with bit pattern [x] (0 for infinities and NaN) *)
Definition value_Q (f : format) (x : Z) : Q := sf_value_Q (sf_of_bits f x).

Lemma Q2R_sf_value_Q s : Q2R (sf_value_Q s) = SF2R radix2 s.
Proof.
  destruct s as [s|s| |s p e]; simpl; try apply RMicromega.Q2R_0.
  rewrite Q2R_mult, Q2R_inject_Z, Q2R_pow2Q. destruct s; reflexivity.
Qed.

Section Fmt8.
Variable f : format.
Hypothesis Hok : sfmt_ok f = true.
Notation mw := (MANTISSA_SIZE f).
Notation ew := (ewidth f).
Notation fexp := (FLT_exp (femin f) (prec f)).
Notation rnd := (round radix2 fexp ZnearestE).

Lemma canon_eq_inv M1 E1 M2 E2 :
  0 <= M1 -> 0 <= M2 -> canonME f M1 E1 -> canonME f M2 E2 ->
  encode f M1 E1 = encode f M2 E2 ->
  F2R (Float radix2 M1 E1) = F2R (Float radix2 M2 E2).
Proof.
  intros P1 P2 C1 C2 H. apply Rle_antisym.
  - apply (canon_le_iff f Hok); try assumption. lia.
  - apply (canon_le_iff f Hok); try assumption. lia.
Qed.

(** Item 6 *)
Theorem RN_fixpoint x : 0 <= x < inf_bits f -> RN f (value_Q f x) = x.
Proof.
  intros Hx. destruct (decode_valid f Hok x ltac:(lia)) as (V & N & B & F).
  specialize (F ltac:(lia)). unfold value_Q.
  set (s := sf_of_bits f x) in *. clearbody s.
  destruct s as [[|]|[|]| |[|] p e]; try discriminate.
  - simpl. rewrite <- B. reflexivity.
  - simpl in V. destruct (bounded_canonME f Hok p e V) as [HC HE].
    assert (HQ : Q2R (sf_value_Q (S754_finite false p e)) = F2R (Float radix2 (Zpos p) e))
      by (rewrite Q2R_sf_value_Q; reflexivity).
    rewrite <- B.
    rewrite (RN_of_round f Hok _ (Zpos p) e); try assumption; try lia.
    + unfold bits_of_sf, encode. lia.
    + apply Rle_Qle. rewrite HQ, RMicromega.Q2R_0. apply F2R_ge_0. simpl. lia.
    + rewrite HQ. symmetry. pose proof (prec_gt_0_f f Hok).
      apply round_generic; auto with typeclass_instances.
      apply (canonME_generic f Hok); [lia|exact HC].
Qed.

(** Item 2, second half: a result below [inf_bits] is the bit pattern of a finite non-negative
    float whose value is the correctly rounded real *)
Theorem RN_finite_decode v :
  (0 <= v)%Q -> RN f v < inf_bits f ->
  let s := sf_of_bits f (RN f v) in
  valid_binary (prec f) (emax f) s = true /\ is_finite_SF s = true /\ sign_SF s = false /\
  bits_of_sf f s = RN f v /\
  SF2R radix2 s = rnd (Q2R v) /\ (rnd (Q2R v) < bpow radix2 (emax f))%R.
Proof.
  intros Hv Hlt s.
  pose proof (RN_range f Hok v Hv) as Hr.
  destruct (decode_valid f Hok (RN f v) ltac:(lia)) as (V & N & B & F).
  specialize (F Hlt). fold s in V, N, B, F.
  assert (Hrl : (rnd (Q2R v) < bpow radix2 (emax f))%R).
  { apply Rnot_le_lt. intros H. apply (RN_inf_iff f Hok v Hv) in H. lia. }
  split; [exact V|]. split; [exact F|].
  split; [destruct s as [[|]|[|]| |[|] p e]; try discriminate; reflexivity|].
  split; [exact B|]. split; [|exact Hrl].
  destruct (sf_pair f Hok s V N) as (A1 & A2 & A3 & A4).
  rewrite (SF2R_inf_finite f) in A4 by exact F. rewrite A4.
  set (r := rnd (Q2R v)) in *.
  assert (Hr0 : (0 <= r)%R) by (apply (rnd_nonneg f Hok), Q2R_nonneg, Hv).
  destruct (generic_canonME f Hok r Hr0 (rnd_generic f Hok _)) as (G1 & G2 & G3 & G4).
  rewrite G3. apply canon_eq_inv; try assumption.
  rewrite <- A3, B. rewrite (RN_bitsR f Hok) by exact Hv. fold r.
  unfold bitsR. rewrite Rlt_bool_true by exact Hrl. reflexivity.
Qed.

End Fmt8.

(** ** Item 7: overflow and underflow thresholds *)
Lemma ZnearestE_half M : ZnearestE (IZR M + /2) = if Z.even M then M else M + 1.
Proof.
  unfold Znearest.
  assert (HF : Zfloor (IZR M + /2) = M).
  { apply Zfloor_imp. rewrite plus_IZR. lra. }
  assert (HC : Zceil (IZR M + /2) = M + 1).
  { apply Zceil_imp. replace (M + 1 - 1) with M by lia. rewrite plus_IZR. lra. }
  rewrite HF, HC. rewrite Rcompare_Eq by lra. destruct (Z.even M); reflexivity.
Qed.

Definition overflow_thresholdQ (f : format) : Q :=
  (inject_Z (2 ^ emax f) - pow2Q (emax f - prec f - 1))%Q.
Definition underflow_thresholdQ (f : format) : Q := pow2Q (femin f - 1).

Section Fmt9.
Variable f : format.
Hypothesis Hok : sfmt_ok f = true.
Notation mw := (MANTISSA_SIZE f).
Notation ew := (ewidth f).
Notation fexp := (FLT_exp (femin f) (prec f)).
Notation rnd := (round radix2 fexp ZnearestE).

Lemma rnd_tie M E :
  fexp (mag radix2 (F2R (Float radix2 (2 * M + 1) (E - 1)))) = E ->
  rnd (F2R (Float radix2 (2 * M + 1) (E - 1))) =
  F2R (Float radix2 (if Z.even M then M else M + 1) E).
Proof.
  intros HE. unfold round. unfold cexp. rewrite HE. f_equal. f_equal.
  unfold scaled_mantissa, cexp. rewrite HE. unfold F2R. cbn [Fnum Fexp].
  rewrite Rmult_assoc, <- bpow_plus. replace (E - 1 + - E) with (-1) by lia.
  rewrite <- ZnearestE_half. f_equal.
  rewrite plus_IZR, mult_IZR. change (bpow radix2 (-1)) with (/ 2)%R. simpl IZR. lra.
Qed.

Lemma Q2R_overflow_threshold :
  Q2R (overflow_thresholdQ f) = (bpow radix2 (emax f) - bpow radix2 (emax f - prec f - 1))%R.
Proof.
  unfold overflow_thresholdQ. rewrite Q2R_minus, Q2R_inject_Z, Q2R_pow2Q.
  pose proof (prec_bounds f Hok).
  change (2 ^ emax f) with (Zpower radix2 (emax f)). rewrite IZR_Zpower by lia. reflexivity.
Qed.

Lemma overflow_threshold_F2R :
  (bpow radix2 (emax f) - bpow radix2 (emax f - prec f - 1))%R =
  F2R (Float radix2 (2 * (2 ^ prec f - 1) + 1) (emax f - prec f - 1)).
Proof.
  pose proof (prec_bounds f Hok).
  unfold F2R. cbn [Fnum Fexp].
  replace (2 * (2 ^ prec f - 1) + 1) with (2 ^ (prec f + 1) - 1)
    by (rewrite Z.pow_add_r by lia; lia).
  rewrite minus_IZR. change (2 ^ (prec f + 1)) with (Zpower radix2 (prec f + 1)).
  rewrite IZR_Zpower by lia. rewrite Rmult_minus_distr_r, <- bpow_plus.
  replace (prec f + 1 + (emax f - prec f - 1)) with (emax f) by lia. lra.
Qed.

Lemma rnd_overflow_threshold : rnd (Q2R (overflow_thresholdQ f)) = bpow radix2 (emax f).
Proof.
  pose proof (prec_bounds f Hok) as PB.
  rewrite Q2R_overflow_threshold, overflow_threshold_F2R.
  replace (emax f - prec f - 1) with ((emax f - prec f) - 1) by lia.
  rewrite rnd_tie.
  - replace (2 ^ prec f - 1) with (1 + 2 * (2 ^ mw - 1)) at 1 by (rewrite (pow_prec f Hok); lia).
    rewrite Z.even_add_mul_2. simpl Z.even. cbv iota.
    replace (2 ^ prec f - 1 + 1) with (2 ^ prec f) by lia.
    rewrite <- (F2R_bpow radix2 (emax f)).
    rewrite (F2R_change_exp radix2 (emax f - prec f) 1 (emax f)) by lia.
    f_equal. f_equal. replace (emax f - (emax f - prec f)) with (prec f) by lia.
    change (Zpower radix2 (prec f)) with (2 ^ prec f). lia.
  - rewrite mag_F2R_Zdigits by (pose proof (Z.pow_pos_nonneg 2 (prec f) ltac:(lia) ltac:(lia)); lia).
    rewrite (Zdigits_unique radix2 _ (prec f + 1)).
    + unfold FLT_exp, femin. lia.
    + change (Zpower radix2 (prec f + 1 - 1)) with (2 ^ (prec f + 1 - 1)).
      change (Zpower radix2 (prec f + 1)) with (2 ^ (prec f + 1)).
      replace (prec f + 1 - 1) with (prec f) by lia. rewrite Z.pow_add_r by lia.
      pose proof (Z.pow_pos_nonneg 2 (prec f) ltac:(lia) ltac:(lia)). lia.
Qed.

Lemma overflow_thresholdQ_pos : (0 < overflow_thresholdQ f)%Q.
Proof.
  apply Rlt_Qlt. rewrite RMicromega.Q2R_0, Q2R_overflow_threshold.
  pose proof (prec_bounds f Hok).
  assert (bpow radix2 (emax f - prec f - 1) < bpow radix2 (emax f))%R by (apply bpow_lt; lia).
  lra.
Qed.

(** Item 7, overflow *)
Theorem overflow_threshold v :
  (overflow_thresholdQ f <= v)%Q -> RN f v = inf_bits f.
Proof.
  intros H.
  assert (Hv : (0 <= v)%Q).
  { apply Qle_trans with (2 := H). apply Qlt_le_weak, overflow_thresholdQ_pos. }
  apply (RN_of_round_overflow f Hok); [exact Hv|].
  rewrite <- rnd_overflow_threshold. apply (rnd_le f Hok). apply Qle_Rle. exact H.
Qed.

Theorem below_overflow_threshold v :
  (0 <= v)%Q -> (v < overflow_thresholdQ f)%Q -> RN f v < inf_bits f.
Proof.
  intros Hv H. pose proof (prec_bounds f Hok) as PB. pose proof (prec_gt_0_f f Hok) as Hp.
  assert (Hb : generic_format radix2 fexp (bpow radix2 (emax f))).
  { apply generic_format_bpow. unfold FLT_exp, femin. lia. }
  set (u := pred radix2 fexp (bpow radix2 (emax f))).
  assert (Hu : generic_format radix2 fexp u) by (apply generic_format_pred; auto with typeclass_instances).
  assert (Hs : succ radix2 fexp u = bpow radix2 (emax f))
    by (apply succ_pred; auto with typeclass_instances).
  assert (Hue : u = (bpow radix2 (emax f) - bpow radix2 (emax f - prec f))%R).
  { unfold u. rewrite pred_bpow. f_equal. f_equal. unfold FLT_exp, femin. lia. }
  assert (Hle : (rnd (Q2R v) <= u)%R).
  { apply round_N_le_midp; auto with typeclass_instances.
    rewrite Hs, Hue. apply Qlt_Rlt in H. rewrite Q2R_overflow_threshold in H.
    replace (emax f - prec f) with ((emax f - prec f - 1) + 1) by lia.
    rewrite bpow_plus. change (bpow radix2 1) with 2%R. lra. }
  pose proof (RN_range f Hok v Hv) as Hr.
  assert (RN f v <> inf_bits f); [|lia].
  intros Heq. apply (RN_inf_iff f Hok v Hv) in Heq.
  pose proof (bpow_gt_0 radix2 (emax f - prec f)). lra.
Qed.

Theorem overflow_threshold_iff v :
  (0 <= v)%Q -> (RN f v = inf_bits f <-> (overflow_thresholdQ f <= v)%Q).
Proof.
  intros Hv. split; intros H.
  - destruct (Qlt_le_dec v (overflow_thresholdQ f)) as [Hlt|Hle]; [|exact Hle].
    pose proof (below_overflow_threshold v Hv Hlt). lia.
  - apply overflow_threshold, H.
Qed.

Lemma rnd_underflow_threshold : rnd (Q2R (underflow_thresholdQ f)) = 0%R.
Proof.
  pose proof (prec_bounds f Hok) as PB.
  unfold underflow_thresholdQ. rewrite Q2R_pow2Q. rewrite <- F2R_bpow.
  change 1 with (2 * 0 + 1). rewrite rnd_tie.
  - simpl Z.even. cbv iota. apply F2R_0.
  - change (2 * 0 + 1) with 1. rewrite F2R_bpow, mag_bpow. unfold FLT_exp. lia.
Qed.

(** Item 7, underflow *)
Theorem underflow_threshold v :
  (0 <= v)%Q -> (v <= underflow_thresholdQ f)%Q -> RN f v = 0.
Proof.
  intros Hv H. rewrite (RN_bitsR f Hok) by exact Hv.
  assert (rnd (Q2R v) = 0%R) as ->; [|apply (bitsR_0 f Hok)].
  apply Rle_antisym.
  - rewrite <- rnd_underflow_threshold. apply (rnd_le f Hok), Qle_Rle, H.
  - apply (rnd_nonneg f Hok), Q2R_nonneg, Hv.
Qed.

Theorem above_underflow_threshold v :
  (underflow_thresholdQ f < v)%Q -> 1 <= RN f v.
Proof.
  intros H. pose proof (prec_bounds f Hok) as PB. pose proof (prec_gt_0_f f Hok) as Hp.
  assert (Hv : (0 <= v)%Q).
  { apply Qlt_le_weak. apply Qlt_trans with (2 := H). apply pow2Q_pos. }
  set (u := bpow radix2 (femin f)).
  assert (Hu0 : u = succ radix2 fexp 0) by (rewrite succ_0, ulp_FLT_0; auto).
  assert (Hu : generic_format radix2 fexp u).
  { apply generic_format_bpow. unfold FLT_exp. lia. }
  assert (Hp0 : pred radix2 fexp u = 0%R).
  { rewrite Hu0. apply pred_succ; auto with typeclass_instances. apply generic_format_0. }
  assert (Hle : (u <= rnd (Q2R v))%R).
  { apply round_N_ge_midp; auto with typeclass_instances.
    rewrite Hp0. apply Qlt_Rlt in H. unfold underflow_thresholdQ in H. rewrite Q2R_pow2Q in H.
    unfold u. replace (femin f) with ((femin f - 1) + 1) at 1 by lia.
    rewrite bpow_plus. change (bpow radix2 1) with 2%R. lra. }
  rewrite (RN_bitsR f Hok) by exact Hv.
  assert (Hone : bitsR f u = 1).
  { unfold u. rewrite <- F2R_bpow. rewrite (bitsR_F2R f Hok).
    - unfold encode. pose proof (mw_pos f Hok).
      assert (2 ^ 1 <= 2 ^ mw) by (apply Z.pow_le_mono_r; lia).
      replace (1 <? 2 ^ mw) with true by (symmetry; apply Z.ltb_lt; lia). reflexivity.
    - lia.
    - right. pose proof (Z.pow_pos_nonneg 2 (prec f) ltac:(lia) ltac:(lia)).
      assert (2 ^ 1 <= 2 ^ prec f) by (apply Z.pow_le_mono_r; lia). lia.
    - unfold femin. lia. }
  rewrite <- Hone. apply (bitsR_mono f Hok).
  - apply bpow_ge_0.
  - exact Hu.
  - apply rnd_generic, Hok.
  - exact Hle.
Qed.

Theorem underflow_threshold_iff v :
  (0 <= v)%Q -> (RN f v = 0 <-> (v <= underflow_thresholdQ f)%Q).
Proof.
  intros Hv. split; intros H.
  - destruct (Qlt_le_dec (underflow_thresholdQ f) v) as [Hlt|Hle]; [|exact Hle].
    pose proof (above_underflow_threshold v Hlt). lia.
  - apply underflow_threshold; assumption.
Qed.

End Fmt9.

(** ** Convenience variants of the bridge, and its converse *)
Section Fmt10.
Variable f : format.
Hypothesis Hok : sfmt_ok f = true.
Notation mw := (MANTISSA_SIZE f).
Notation fexp := (FLT_exp (femin f) (prec f)).
Notation rnd := (round radix2 fexp ZnearestE).

Theorem RN_ext_R v v' : (0 <= v)%Q -> Q2R v = Q2R v' -> RN f v = RN f v'.
Proof. intros Hv H. apply (RN_Qeq f Hok); [exact Hv|apply eqR_Qeq, H]. Qed.

Theorem RN_of_round_normal v M E :
  (0 <= v)%Q -> 2 ^ (prec f - 1) <= M < 2 ^ prec f -> femin f <= E -> E + prec f <= emax f ->
  F2R (Float radix2 M E) = rnd (Q2R v) ->
  RN f v = (E - femin f + 1) * 2 ^ mw + (M - 2 ^ mw).
Proof.
  intros Hv HM HE1 HE2 HR. pose proof (pow_mw_pos f Hok). rewrite (prec_mw f) in HM.
  rewrite (RN_of_round f Hok v M E); try assumption; try lia.
  - unfold encode. replace (M <? 2 ^ mw) with false by (symmetry; apply Z.ltb_ge; lia). reflexivity.
  - right. rewrite (prec_mw f). lia.
Qed.

Theorem RN_of_round_subnormal v M :
  (0 <= v)%Q -> 0 <= M < 2 ^ (prec f - 1) ->
  F2R (Float radix2 M (femin f)) = rnd (Q2R v) ->
  RN f v = M.
Proof.
  intros Hv HM HR. pose proof (pow_mw_pos f Hok). pose proof (pow_prec f Hok).
  pose proof (prec_bounds f Hok). rewrite (prec_mw f) in HM.
  rewrite (RN_of_round f Hok v M (femin f)); try assumption; try lia.
  - unfold encode. replace (M <? 2 ^ mw) with true by (symmetry; apply Z.ltb_lt; lia). reflexivity.
  - right. lia.
  - unfold femin. lia.
Qed.

Lemma F2R_lt_emax M E :
  0 <= M -> canonME f M E -> E + prec f <= emax f ->
  (F2R (Float radix2 M E) < bpow radix2 (emax f))%R.
Proof.
  intros HM [->|(C1 & C2 & C3)] HE.
  - rewrite F2R_0. apply bpow_gt_0.
  - apply Rlt_le_trans with (bpow radix2 (E + prec f)); [|apply bpow_le; lia].
    rewrite <- (Rabs_pos_eq (F2R _)) by (apply F2R_ge_0; exact HM).
    apply F2R_lt_bpow. simpl. replace (E + prec f - E) with (prec f) by lia.
    change (Zpower radix2 (prec f)) with (2 ^ prec f). lia.
Qed.

Lemma encode_lt_inf M E :
  0 <= M -> canonME f M E -> E + prec f <= emax f -> 0 <= encode f M E < inf_bits f.
Proof.
  intros HM HC HE. rewrite <- (bitsR_F2R f Hok) by assumption.
  apply (bitsR_finite_lt f Hok).
  - apply F2R_ge_0. exact HM.
  - apply (canonME_generic f Hok); assumption.
  - apply F2R_lt_emax; assumption.
Qed.

(** converse of [RN_of_round]: the bit pattern determines the rounded real *)
Theorem RN_encode_inv v M E :
  (0 <= v)%Q -> 0 <= M -> canonME f M E -> E + prec f <= emax f ->
  RN f v = encode f M E -> F2R (Float radix2 M E) = rnd (Q2R v).
Proof.
  intros Hv HM HC HE H.
  pose proof (encode_lt_inf M E HM HC HE) as Hlt.
  set (r := rnd (Q2R v)).
  assert (Hrl : (r < bpow radix2 (emax f))%R).
  { apply Rnot_le_lt. intros Hge. apply (RN_inf_iff f Hok v Hv) in Hge. lia. }
  assert (Hr0 : (0 <= r)%R) by (apply (rnd_nonneg f Hok), Q2R_nonneg, Hv).
  destruct (generic_canonME f Hok r Hr0 (rnd_generic f Hok _)) as (G1 & G2 & G3 & G4).
  rewrite G3. apply (canon_eq_inv f Hok); try assumption.
  rewrite <- H. rewrite (RN_bitsR f Hok) by exact Hv. fold r.
  unfold bitsR. rewrite Rlt_bool_true by exact Hrl. reflexivity.
Qed.

(** Summary: the meaning of [RN] (the theorem spec/Round.v refers to).  With [r] the real
    [Q2R v] rounded to nearest-even in the format with unbounded exponent range: below
    [2^emax] the result is the bit pattern of the finite non-negative float of value [r];
    otherwise it is +infinity. *)
Theorem RN_spec v :
  (0 <= v)%Q ->
  let r := rnd (Q2R v) in
  if Rlt_bool r (bpow radix2 (emax f)) then
    0 <= RN f v < inf_bits f /\
    let s := sf_of_bits f (RN f v) in
    valid_binary (prec f) (emax f) s = true /\ is_finite_SF s = true /\ sign_SF s = false /\
    bits_of_sf f s = RN f v /\ SF2R radix2 s = r
  else RN f v = inf_bits f /\ sf_of_bits f (RN f v) = S754_infinity false.
Proof.
  intros Hv r. pose proof (RN_range f Hok v Hv) as Hr.
  destruct (Rlt_bool_spec r (bpow radix2 (emax f))) as [Hlt|Hge].
  - assert (Hn : RN f v <> inf_bits f).
    { intros H. apply (RN_inf_iff f Hok v Hv) in H. fold r in H. lra. }
    split; [lia|].
    destruct (RN_finite_decode f Hok v Hv ltac:(lia)) as (A & B & C & D & E & _).
    repeat split; assumption.
  - pose proof (RN_of_round_overflow f Hok v Hv Hge) as H. split; [exact H|].
    rewrite H. change (inf_bits f) with (bits_of_sf f (S754_infinity false)).
    apply (sf_of_bits_of_sf f Hok); reflexivity.
Qed.

End Fmt10.

(** ** Examples (closed computations) *)
Example RN_F64_third : RN F64 (1 # 3) = 4599676419421066581.   (* 0x3fd5555555555555 *)
Proof. vm_compute. reflexivity. Qed.
Example RN_F32_tenth : RN F32 (1 # 10) = 1036831949.            (* 0x3dcccccd *)
Proof. vm_compute. reflexivity. Qed.
Example inf_bits_F64 : inf_bits F64 = 9218868437227405312 /\ inf_bits F64 = EXPONENT_MASK F64.
Proof. vm_compute. split; reflexivity. Qed.
Example inf_bits_F32 : inf_bits F32 = 2139095040 /\ inf_bits F32 = EXPONENT_MASK F32.
Proof. vm_compute. split; reflexivity. Qed.
(** 2^1024 - 2^970 rounds to +infinity, anything below does not *)
Example overflow_thresholdQ_F64 : overflow_thresholdQ F64 = inject_Z (2 ^ 1024 - 2 ^ 970).
Proof. vm_compute. reflexivity. Qed.
Example RN_F64_at_overflow : RN F64 (overflow_thresholdQ F64) = 9218868437227405312.
Proof. vm_compute. reflexivity. Qed.
Example RN_F64_below_overflow :
  RN F64 (overflow_thresholdQ F64 - (1 # 1000)) = 9218868437227405311.  (* 0x7fefffffffffffff *)
Proof. vm_compute. reflexivity. Qed.
(** 2^-1075 rounds to 0 (tie to even), anything above rounds to the least subnormal *)
Example underflow_thresholdQ_F64 : underflow_thresholdQ F64 = 1 # Z.to_pos (2 ^ 1075).
Proof. vm_compute. reflexivity. Qed.
Example RN_F64_at_underflow : RN F64 (underflow_thresholdQ F64) = 0.
Proof. vm_compute. reflexivity. Qed.
Example RN_F64_above_underflow : RN F64 (1 # Z.to_pos (2 ^ 1075 - 1)) = 1.
Proof. vm_compute. reflexivity. Qed.
Example RN_F32_thresholds :
  RN F32 (overflow_thresholdQ F32) = inf_bits F32 /\
  RN F32 (overflow_thresholdQ F32 - (1 # 1000)) = inf_bits F32 - 1 /\
  RN F32 (underflow_thresholdQ F32) = 0 /\ RN F32 (1 # Z.to_pos (2 ^ 150 - 1)) = 1.
Proof. vm_compute. repeat split; reflexivity. Qed.
(** the hypotheses of the threshold theorems are satisfiable *)
Example overflow_threshold_ex : RN F64 (inject_Z (2 ^ 1024)) = inf_bits F64.
Proof. apply (overflow_threshold F64 sfmt_ok_F64). vm_compute. discriminate. Qed.
Example underflow_threshold_ex : RN F64 (1 # Z.to_pos (2 ^ 1080)) = 0.
Proof.
  apply (underflow_threshold F64 sfmt_ok_F64); vm_compute; discriminate.
Qed.
(** fixpoint / monotonicity / properness on concrete data *)
Example RN_fixpoint_ex : RN F64 (value_Q F64 4599676419421066581) = 4599676419421066581.
Proof. apply (RN_fixpoint F64 sfmt_ok_F64). vm_compute. split; [discriminate|reflexivity]. Qed.
Example value_Q_ex : value_Q F64 4609434218613702656 = (inject_Z (3 * 2 ^ 51) * (1 # Z.to_pos (2 ^ 52)))%Q.
Proof. vm_compute. reflexivity. Qed.
Example RN_Qeq_ex : RN F64 (2 # 6) = RN F64 (1 # 3).
Proof. apply (RN_Qeq F64 sfmt_ok_F64); vm_compute; [discriminate|reflexivity]. Qed.
Example RN_monotone_ex : RN F64 (1 # 3) <= RN F64 (1 # 2).
Proof. apply (RN_monotone F64 sfmt_ok_F64); vm_compute; discriminate. Qed.
(** the bridge on a representable value: 3/2 = (3 * 2^51) * 2^-52 *)
Example RN_of_round_ex : RN F64 (3 # 2) = encode F64 (3 * 2 ^ 51) (-52).
Proof.
  assert (HC : canonME F64 (3 * 2 ^ 51) (-52)) by (right; vm_compute; intuition discriminate).
  apply (RN_of_round F64 sfmt_ok_F64).
  - vm_compute; discriminate.
  - vm_compute; discriminate.
  - exact HC.
  - vm_compute; discriminate.
  - assert (H : Q2R (3 # 2) = F2R (Float radix2 (3 * 2 ^ 51) (-52))).
    { unfold Q2R, F2R. cbn [Qnum Qden Fnum Fexp].
      change (bpow radix2 (-52)) with (/ IZR (2 ^ 52))%R.
      rewrite mult_IZR. change (2 ^ 52) with (2 * 2 ^ 51). rewrite (mult_IZR 2).
      assert (IZR (2 ^ 51) <> 0%R) by (apply IZR_neq; vm_compute; discriminate).
      field. exact H. }
    rewrite H. symmetry. apply round_generic; auto with typeclass_instances.
    apply (canonME_generic F64 sfmt_ok_F64); [vm_compute; discriminate|exact HC].
Qed.
Example encode_ex : encode F64 (3 * 2 ^ 51) (-52) = 4609434218613702656 /\ RN F64 (3 # 2) = 4609434218613702656.
Proof. vm_compute. split; reflexivity. Qed.

Print Assumptions RN_sf_spec.
Print Assumptions RN_spec.
Print Assumptions bits_le_iff.
Print Assumptions bits_inj.
Print Assumptions RN_of_round.
Print Assumptions RN_of_round_overflow.
Print Assumptions RN_bitsR.
Print Assumptions RN_Qeq.
Print Assumptions RN_monotone.
Print Assumptions RN_range.
Print Assumptions RN_inf_iff.
Print Assumptions RN_finite_decode.
Print Assumptions sf_of_bits_of_sf.
Print Assumptions decode_valid.
Print Assumptions RN_fixpoint.
Print Assumptions overflow_threshold_iff.
Print Assumptions below_overflow_threshold.
Print Assumptions underflow_threshold_iff.
Print Assumptions above_underflow_threshold.
Print Assumptions RN_encode_inv.
Print Assumptions RN_of_round_normal.
Print Assumptions RN_of_round_subnormal.
