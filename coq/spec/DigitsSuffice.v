(** * DigitsSuffice: 17 (binary64) / 9 (binary32) significant decimal digits identify a float.
    Facts about the correctly-rounding oracle [RN] (spec/Round.v) only; supports property C03
    ("printed floats parse back to the same float").

    For a format [f] with [sfmt_ok f = true] (proved for [F32], [F64]), a finite positive bit
    pattern [x] ([0 < x < inf_bits f]) of value [X := value_Q f x]:
    - [close_rounds_back]    : [|d - X| < X * 2^-(prec+1)  ->  RN f d = x]  (normal or subnormal,
                               power of two or not; sharp at powers of two, see [one_sharp]);
      [close_rounds_back_ME] : the same for a canonical integer pair [(M, E)], result [encode f M E]
    - [digits_suffice]       : [2^prec < 10^(n-1)], [10^e10 <= X], [|d - X| <= 10^(e10-n+1) / 2]
                               [->  RN f d = x]
    - [digits_suffice_F64] (n = 17), [digits_suffice_F32] (n = 9)
    - [exists_short_decimal] : there is an n-digit decimal [c * 10^j] ([10^(n-1) <= c < 10^n])
                               within half a unit of its last digit of [X], and it parses back to [x]
      ([exists_short_decimal_F64], [exists_short_decimal_F32])
    - [RN_zero]              : [RN f 0 = 0]
    Route: Flocq ([round_N_le_midp], [round_N_ge_midp], [ulp_FLT_gt], [pred_pos]) for the real
    core [rnd_close], then [RN_bitsR] / [RN_fixpoint] / [RN_of_round] of spec/RoundFacts.v. *)
From Coq Require Import ZArith QArith Qpower Qreals Qabs Qround Reals List Bool Lia Lra Psatz.
From Coq Require Import Floats.SpecFloat.
From Flocq Require Import Core.Core IEEE754.BinarySingleNaN.
From ML Require Import base.RustSem model.Fmt model.FloatOps gen.Consts spec.Decimal spec.Round spec.RoundFacts.
Open Scope Z_scope.
Local Arguments Z.pow : simpl never.

Lemma pow10Q_Qpower k : (pow10Q k == inject_Z 10 ^ k)%Q.
Proof.
  destruct k as [|p|p].
  - reflexivity.
  - unfold pow10Q. rewrite Zpower_Qpower by lia. reflexivity.
  - change (inject_Z 10 ^ Zneg p)%Q with (/ (inject_Z 10 ^ Zpos p))%Q.
    rewrite <- Zpower_Qpower by lia.
    unfold pow10Q. assert (0 < 10 ^ Zpos p) by (apply Z.pow_pos_nonneg; lia).
    destruct (10 ^ Zpos p) as [|q|q]; try lia. reflexivity.
Qed.

Lemma pow10Q_add a b : (pow10Q (a + b) == pow10Q a * pow10Q b)%Q.
Proof. rewrite !pow10Q_Qpower. apply Qpower_plus. discriminate. Qed.

Lemma pow2Q_add a b : (pow2Q (a + b) == pow2Q a * pow2Q b)%Q.
Proof. rewrite !pow2Q_Qpower. apply Qpower_plus. discriminate. Qed.

Lemma pow10Q_pos k : (0 < pow10Q k)%Q.
Proof. rewrite pow10Q_Qpower. apply Qpower_0_lt. reflexivity. Qed.

Lemma pow10Q_nonneg k : 0 <= k -> (pow10Q k == inject_Z (10 ^ k))%Q.
Proof. intros. rewrite pow10Q_Qpower. symmetry. apply Zpower_Qpower. assumption. Qed.

Lemma pow2Q_nonneg k : 0 <= k -> (pow2Q k == inject_Z (2 ^ k))%Q.
Proof. intros. rewrite pow2Q_Qpower. symmetry. apply (Zpower_Qpower 2). assumption. Qed.

Lemma pow10Q_opp k : (pow10Q (- k) == / pow10Q k)%Q.
Proof. rewrite !pow10Q_Qpower. apply Qpower_opp. Qed.

Lemma pow2Q_opp k : (pow2Q (- k) == / pow2Q k)%Q.
Proof. rewrite !pow2Q_Qpower. apply Qpower_opp. Qed.

(** the arithmetic heart of "n digits suffice": 2^p < 10^(n-1) gives 10^(1-n) < 2^-p *)
Lemma pow10_pow2_inv p n :
  0 <= p -> 2 ^ p < 10 ^ (n - 1) -> (pow10Q (1 - n) < pow2Q (- p))%Q.
Proof.
  intros Hp H.
  assert (Hn : 0 <= n - 1).
  { destruct (Z_lt_le_dec (n - 1) 0) as [Hneg|]; [|assumption].
    rewrite (Z.pow_neg_r 10 (n - 1)) in H by assumption. pose proof (Z.pow_pos_nonneg 2 p); lia. }
  replace (1 - n) with (- (n - 1)) by lia.
  rewrite pow10Q_opp, pow2Q_opp.
  rewrite (pow10Q_nonneg _ Hn), (pow2Q_nonneg _ Hp).
  assert (0 < 2 ^ p) by (apply Z.pow_pos_nonneg; lia).
  apply -> Qinv_lt_contravar.
  - rewrite <- Zlt_Qlt. exact H.
  - rewrite <- (Zlt_Qlt 0). lia.
  - rewrite <- (Zlt_Qlt 0). lia.
Qed.

(** ** The core over the reals: a real within [X * 2^-(prec+1)] of a positive float [X]
    rounds to [X] (normal or subnormal, power of two or not) *)
Section Core.
Variable f : format.
Hypothesis Hok : sfmt_ok f = true.
Notation fexp := (FLT_exp (femin f) (prec f)).
Notation rnd := (round radix2 fexp ZnearestE).

Lemma rnd_close (X d : R) :
  (0 < X)%R -> generic_format radix2 fexp X ->
  (Rabs (d - X) < X * bpow radix2 (- (prec f + 1)))%R ->
  rnd d = X.
Proof.
  intros HX HF Hd.
  pose proof (prec_gt_0_f f Hok) as Hp.
  assert (Hvalid : Valid_exp fexp) by auto with typeclass_instances.
  assert (Hhalf : (X * bpow radix2 (- (prec f + 1)) = X * bpow radix2 (- prec f) / 2)%R).
  { replace (- (prec f + 1)) with (- prec f + - 1) by lia. rewrite bpow_plus.
    change (bpow radix2 (-1)) with (/2)%R. field. }
  rewrite Hhalf in Hd. clear Hhalf.
  apply Rabs_lt_inv in Hd. destruct Hd as [Hlo Hhi].
  pose proof (ulp_FLT_gt radix2 (femin f) (prec f) X) as Hu.
  rewrite Rabs_pos_eq in Hu by lra.
  apply Rle_antisym.
  - apply round_N_le_midp; auto.
    rewrite succ_eq_pos by lra. lra.
  - apply round_N_ge_midp; auto.
    rewrite pred_eq_pos by lra. unfold pred_pos.
    destruct (Req_bool_spec X (bpow radix2 (mag radix2 X - 1))) as [He|Hn].
    + assert (X * bpow radix2 (- prec f) <= bpow radix2 (fexp (mag radix2 X - 1)))%R.
      { rewrite He at 1. rewrite <- bpow_plus. apply bpow_le. unfold FLT_exp. lia. }
      lra.
    + lra.
Qed.

(** the same over [Q], for a rational [X] whose real image is a positive float *)
Lemma RN_close (X d : Q) :
  (0 < X)%Q -> generic_format radix2 fexp (Q2R X) ->
  (Qabs (d - X) < X * pow2Q (- (prec f + 1)))%Q ->
  (0 < d)%Q /\ RN f d = RN f X.
Proof.
  intros HX HF Hd.
  apply Qabs_Qlt_condition in Hd. destruct Hd as [Hlo Hhi].
  assert (Hsmall : (pow2Q (- (prec f + 1)) < 1)%Q).
  { pose proof (prec_gt_0_f f Hok) as Hp. unfold Prec_gt_0 in Hp.
    rewrite pow2Q_opp, pow2Q_nonneg by lia.
    assert (1 < 2 ^ (prec f + 1)) by (apply Z.pow_gt_1; lia).
    change 1%Q with (/ inject_Z 1)%Q. apply -> Qinv_lt_contravar.
    - rewrite <- Zlt_Qlt. assumption.
    - rewrite <- (Zlt_Qlt 0). lia.
    - reflexivity. }
  assert (Hlt : (X * pow2Q (- (prec f + 1)) < X)%Q).
  { rewrite <- (Qmult_1_r X) at 2. rewrite !(Qmult_comm X).
    apply Qmult_lt_compat_r; assumption. }
  assert (Hd0 : (0 < d)%Q) by lra.
  split; [exact Hd0|].
  rewrite !(RN_bitsR f Hok) by (apply Qlt_le_weak; assumption).
  f_equal.
  pose proof (prec_gt_0_f f Hok) as Hp.
  rewrite (round_generic radix2 fexp ZnearestE (Q2R X)) by exact HF.
  apply rnd_close.
  - apply Qlt_Rlt in HX. rewrite RMicromega.Q2R_0 in HX. exact HX.
  - exact HF.
  - apply Qlt_Rlt in Hlo, Hhi.
    rewrite Q2R_opp, Q2R_minus, Q2R_mult, Q2R_pow2Q in Hlo.
    rewrite Q2R_minus, Q2R_mult, Q2R_pow2Q in Hhi.
    apply Rabs_lt. split; lra.
Qed.

(** ** 1. [close_rounds_back] *)

(** integer-significand form: [M * 2^E] canonical, positive and finite *)
Theorem close_rounds_back_ME M E d :
  0 < M -> canonME f M E -> E + prec f <= emax f ->
  (Qabs (d - inject_Z M * pow2Q E) < inject_Z M * pow2Q E * pow2Q (- (prec f + 1)))%Q ->
  RN f d = encode f M E.
Proof.
  intros HM HC HE Hd.
  assert (HR : Q2R (inject_Z M * pow2Q E) = F2R (Float radix2 M E)).
  { rewrite Q2R_mult, Q2R_inject_Z, Q2R_pow2Q. reflexivity. }
  assert (HF : generic_format radix2 fexp (Q2R (inject_Z M * pow2Q E))).
  { rewrite HR. apply (canonME_generic f Hok); [lia|exact HC]. }
  assert (HX : (0 < inject_Z M * pow2Q E)%Q).
  { apply Rlt_Qlt. rewrite RMicromega.Q2R_0, HR. apply F2R_gt_0. exact HM. }
  destruct (RN_close _ d HX HF Hd) as [_ ->].
  apply (RN_of_round f Hok); try assumption; try lia.
  - apply Qlt_le_weak, HX.
  - rewrite HR. symmetry. pose proof (prec_gt_0_f f Hok).
    apply round_generic; auto with typeclass_instances. rewrite <- HR. exact HF.
Qed.

(** facts about the value of a finite positive pattern *)
Lemma value_Q_pos_format x :
  0 < x < inf_bits f ->
  (0 < value_Q f x)%Q /\ generic_format radix2 fexp (Q2R (value_Q f x)).
Proof.
  intros Hx. destruct (decode_valid f Hok x ltac:(lia)) as (V & N & B & F).
  specialize (F ltac:(lia)). unfold value_Q.
  set (s := sf_of_bits f x) in *. clearbody s.
  destruct s as [[|]|[|]| |[|] p e]; try discriminate.
  - simpl in B. lia.
  - simpl in V. destruct (bounded_canonME f Hok p e V) as [HC HE].
    assert (HQ : Q2R (sf_value_Q (S754_finite false p e)) = F2R (Float radix2 (Zpos p) e))
      by (rewrite Q2R_sf_value_Q; reflexivity).
    split.
    + apply Rlt_Qlt. rewrite RMicromega.Q2R_0, HQ. apply F2R_gt_0. reflexivity.
    + rewrite HQ. apply (canonME_generic f Hok); [lia|exact HC].
Qed.

(** bit-pattern form: [x] any finite positive pattern (normal or subnormal, power of two or
    not), [d] any rational within [X * 2^-(prec+1)] of its value [X]: the oracle maps [d] to [x].
    ([d > 0] follows from the hypothesis.) *)
Theorem close_rounds_back x d :
  0 < x < inf_bits f ->
  (Qabs (d - value_Q f x) < value_Q f x * pow2Q (- (prec f + 1)))%Q ->
  RN f d = x.
Proof.
  intros Hx Hd. destruct (value_Q_pos_format x Hx) as [HX HF].
  destruct (RN_close _ d HX HF Hd) as [_ ->].
  apply (RN_fixpoint f Hok). lia.
Qed.

Corollary close_rounds_back_pos x d :
  0 < x < inf_bits f ->
  (Qabs (d - value_Q f x) < value_Q f x * pow2Q (- (prec f + 1)))%Q ->
  (0 < d)%Q.
Proof.
  intros Hx Hd. destruct (value_Q_pos_format x Hx) as [HX HF].
  exact (proj1 (RN_close _ d HX HF Hd)).
Qed.

(** ** 2. [digits_suffice] *)
Theorem digits_suffice n x e10 d :
  2 ^ prec f < 10 ^ (n - 1) ->
  0 < x < inf_bits f ->
  (pow10Q e10 <= value_Q f x)%Q ->
  (Qabs (d - value_Q f x) <= pow10Q (e10 - n + 1) * (1 # 2))%Q ->
  RN f d = x.
Proof.
  intros Hn Hx He Hd. apply close_rounds_back; [exact Hx|].
  destruct (value_Q_pos_format x Hx) as [HX _].
  set (X := value_Q f x) in *.
  eapply Qle_lt_trans; [exact Hd|].
  pose proof (prec_gt_0_f f Hok) as Hp. unfold Prec_gt_0 in Hp.
  pose proof (pow10_pow2_inv (prec f) n ltac:(lia) Hn) as Hk.
  replace (e10 - n + 1) with (e10 + (1 - n)) by lia.
  replace (- (prec f + 1)) with (- prec f + - 1) by lia.
  rewrite pow10Q_add, pow2Q_add.
  change (pow2Q (-1)) with (1 # 2)%Q.
  pose proof (pow10Q_pos (1 - n)) as P1. pose proof (pow10Q_pos e10) as P2.
  pose proof (pow2Q_pos (- prec f)) as P3.
  assert (pow10Q e10 * pow10Q (1 - n) <= X * pow10Q (1 - n))%Q by (apply Qmult_le_compat_r; lra).
  assert (X * pow10Q (1 - n) < X * pow2Q (- prec f))%Q.
  { rewrite !(Qmult_comm X). apply Qmult_lt_compat_r; assumption. }
  lra.
Qed.

End Core.

(** ** 3. Existence of an n-digit decimal that parses back *)

(** a positive rational has a decimal exponent *)
Lemma Z_boundary (P : Z -> Prop) (Pdec : forall z, {P z} + {~ P z}) a (k : nat) :
  P a -> ~ P (a + Z.of_nat k) -> exists e, a <= e < a + Z.of_nat k /\ P e /\ ~ P (e + 1).
Proof.
  intros Ha. induction k as [|k IH]; intros Hb.
  - exfalso. apply Hb. replace (a + Z.of_nat 0) with a by lia. exact Ha.
  - destruct (Pdec (a + Z.of_nat k)) as [Hk|Hk].
    + exists (a + Z.of_nat k). split; [lia|]. split; [exact Hk|].
      replace (a + Z.of_nat k + 1) with (a + Z.of_nat (S k)) by lia. exact Hb.
    + destruct (IH Hk) as (e & He & H1 & H2). exists e. split; [lia|]. split; assumption.
Qed.

Lemma dec_exponent_exists (X : Q) :
  (0 < X)%Q -> exists e, (pow10Q e <= X)%Q /\ (X < pow10Q (e + 1))%Q.
Proof.
  intros HX. destruct X as [p q]. unfold Qlt in HX. simpl in HX.
  assert (Hp : 0 < p) by lia.
  assert (Hlo : (pow10Q (- Zpos q) <= p # q)%Q).
  { change (- Zpos q) with (Zneg q). unfold pow10Q, Qle. cbn [Qnum Qden].
    assert (Zpos q < 10 ^ Zpos q) by (apply Z.pow_gt_lin_r; lia).
    rewrite Z2Pos.id by lia. nia. }
  assert (Hhi : ~ (pow10Q (- Zpos q + Z.of_nat (Z.to_nat (Zpos q + p))) <= p # q)%Q).
  { rewrite Z2Nat.id by lia. replace (- Zpos q + (Zpos q + p)) with p by lia.
    apply Qlt_not_le. rewrite pow10Q_nonneg by lia. unfold Qlt, inject_Z. cbn [Qnum Qden].
    assert (p < 10 ^ p) by (apply Z.pow_gt_lin_r; lia). nia. }
  destruct (Z_boundary (fun e => (pow10Q e <= p # q)%Q)
              (fun e => match Qlt_le_dec (p # q) (pow10Q e) with
                        | left H => right (Qlt_not_le _ _ H) | right H => left H end)
              _ _ Hlo Hhi) as (e & _ & H1 & H2).
  exists e. split; [exact H1|]. apply Qnot_le_lt. exact H2.
Qed.

Section Exists.
Variable f : format.
Hypothesis Hok : sfmt_ok f = true.

(** [X] rounded (half up) to the integer multiple of [10^j] *)
Lemma round_to_multiple (X : Q) j :
  let c := Qfloor (X * pow10Q (- j) + (1 # 2)) in
  (Qabs (inject_Z c * pow10Q j - X) <= pow10Q j * (1 # 2))%Q.
Proof.
  intros c. set (Y := (X * pow10Q (- j))%Q) in *.
  pose proof (Qfloor_le (Y + (1 # 2))) as H1. pose proof (Qlt_floor (Y + (1 # 2))) as H2.
  fold c in H1, H2. rewrite inject_Z_plus in H2. change (inject_Z 1) with 1%Q in H2.
  pose proof (pow10Q_pos j) as PJ. set (P := pow10Q j) in *.
  assert (HY : (Y * P == X)%Q).
  { unfold Y, P. rewrite <- Qmult_assoc, <- pow10Q_add. replace (- j + j) with 0 by lia.
    change (pow10Q 0) with 1%Q. ring. }
  assert (A1 : ((inject_Z c - Y) * P <= (1 # 2) * P)%Q) by (apply Qmult_le_compat_r; lra).
  assert (A2 : ((- (1 # 2)) * P <= (inject_Z c - Y) * P)%Q) by (apply Qmult_le_compat_r; lra).
  apply Qabs_Qle_condition. split; lra.
Qed.

Theorem exists_short_decimal n x :
  2 ^ prec f < 10 ^ (n - 1) ->
  0 < x < inf_bits f ->
  exists c j, 10 ^ (n - 1) <= c < 10 ^ n /\
    (Qabs (inject_Z c * pow10Q j - value_Q f x) <= pow10Q j * (1 # 2))%Q /\
    RN f (inject_Z c * pow10Q j) = x.
Proof.
  intros Hn Hx.
  assert (Hn1 : 0 <= n - 1).
  { destruct (Z_lt_le_dec (n - 1) 0) as [Hneg|]; [|assumption].
    rewrite (Z.pow_neg_r 10 (n - 1)) in Hn by assumption.
    pose proof (Z.pow_nonneg 2 (prec f)); lia. }
  destruct (value_Q_pos_format f Hok x Hx) as [HX _].
  destruct (dec_exponent_exists _ HX) as (e10 & He1 & He2).
  set (X := value_Q f x) in *.
  set (j := e10 - n + 1).
  pose proof (round_to_multiple X j) as Hr. cbv zeta in Hr.
  set (Y := (X * pow10Q (- j))%Q) in *.
  set (c := Qfloor (Y + (1 # 2))) in *.
  pose proof (pow10Q_pos (- j)) as PJ.
  assert (Hlo : 10 ^ (n - 1) <= c).
  { rewrite <- (Qfloor_Z (10 ^ (n - 1))). apply Qfloor_resp_le.
    rewrite <- pow10Q_nonneg by assumption.
    replace (n - 1) with (e10 + - j) by (unfold j; lia). rewrite pow10Q_add.
    assert (pow10Q e10 * pow10Q (- j) <= Y)%Q by (apply Qmult_le_compat_r; lra). lra. }
  assert (Hhi : c <= 10 ^ n).
  { assert (inject_Z c < inject_Z (10 ^ n + 1))%Q; [|rewrite <- Zlt_Qlt in H; lia].
    rewrite inject_Z_plus. change (inject_Z 1) with 1%Q.
    rewrite <- pow10Q_nonneg by lia.
    replace n with (e10 + 1 + - j) at 1 by (unfold j; lia). rewrite pow10Q_add.
    assert (Y < pow10Q (e10 + 1) * pow10Q (- j))%Q by (apply Qmult_lt_compat_r; assumption).
    pose proof (Qfloor_le (Y + (1 # 2))). fold c in H0. lra. }
  assert (HRN : RN f (inject_Z c * pow10Q j) = x).
  { apply (digits_suffice f Hok n x e10); [exact Hn|exact Hx|exact He1|exact Hr]. }
  destruct (Z.eq_dec c (10 ^ n)) as [Heq|Hne].
  - assert (Hpow : 10 ^ n = 10 * 10 ^ (n - 1)).
    { replace n with (1 + (n - 1)) at 1 by lia. rewrite Z.pow_add_r by lia. reflexivity. }
    assert (HE : (inject_Z (10 ^ (n - 1)) * pow10Q (j + 1) == inject_Z c * pow10Q j)%Q).
    { rewrite Heq, Hpow, inject_Z_mult, (Z.add_comm j 1), pow10Q_add.
      change (pow10Q 1) with (inject_Z 10). ring. }
    assert (0 < 10 ^ (n - 1)) by (apply Z.pow_pos_nonneg; lia).
    exists (10 ^ (n - 1)), (j + 1). split; [lia|]. split.
    + rewrite HE. eapply Qle_trans; [exact Hr|].
      rewrite (Z.add_comm j 1), pow10Q_add. change (pow10Q 1) with (inject_Z 10).
      pose proof (pow10Q_pos j). unfold inject_Z. lra.
    + rewrite <- HRN. apply (RN_Qeq f Hok); [|exact HE].
      apply Qmult_le_0_compat; [|apply Qlt_le_weak, pow10Q_pos].
      rewrite <- (Zle_Qle 0). lia.
  - exists c, j. split; [lia|]. split; assumption.
Qed.

End Exists.

(** ** Instances: 17 digits for binary64, 9 for binary32 *)
Lemma digits_F64 : 2 ^ prec F64 < 10 ^ (17 - 1). Proof. vm_compute. reflexivity. Qed.
Lemma digits_F32 : 2 ^ prec F32 < 10 ^ (9 - 1). Proof. vm_compute. reflexivity. Qed.

Corollary digits_suffice_F64 x e10 d :
  0 < x < inf_bits F64 ->
  (pow10Q e10 <= value_Q F64 x)%Q ->
  (Qabs (d - value_Q F64 x) <= pow10Q (e10 - 17 + 1) * (1 # 2))%Q ->
  RN F64 d = x.
Proof. apply (digits_suffice F64 sfmt_ok_F64 17), digits_F64. Qed.

Corollary digits_suffice_F32 x e10 d :
  0 < x < inf_bits F32 ->
  (pow10Q e10 <= value_Q F32 x)%Q ->
  (Qabs (d - value_Q F32 x) <= pow10Q (e10 - 9 + 1) * (1 # 2))%Q ->
  RN F32 d = x.
Proof. apply (digits_suffice F32 sfmt_ok_F32 9), digits_F32. Qed.

Corollary exists_short_decimal_F64 x :
  0 < x < inf_bits F64 ->
  exists c j, 10 ^ 16 <= c < 10 ^ 17 /\
    (Qabs (inject_Z c * pow10Q j - value_Q F64 x) <= pow10Q j * (1 # 2))%Q /\
    RN F64 (inject_Z c * pow10Q j) = x.
Proof. apply (exists_short_decimal F64 sfmt_ok_F64 17), digits_F64. Qed.

Corollary exists_short_decimal_F32 x :
  0 < x < inf_bits F32 ->
  exists c j, 10 ^ 8 <= c < 10 ^ 9 /\
    (Qabs (inject_Z c * pow10Q j - value_Q F32 x) <= pow10Q j * (1 # 2))%Q /\
    RN F32 (inject_Z c * pow10Q j) = x.
Proof. apply (exists_short_decimal F32 sfmt_ok_F32 9), digits_F32. Qed.

(** ** 4. Zero *)
Lemma RN_zero f : RN f 0 = 0.
Proof. reflexivity. Qed.

(** ** Examples *)
Ltac ds64 e := apply (digits_suffice_F64 _ e);
  [ vm_compute; split; reflexivity | vm_compute; discriminate | vm_compute; discriminate ].

(** 0.1 : the 17-digit rounding 1.0000000000000001e-1 of the double nearest 0.1 parses back *)
Example tenth_direct : RN F64 (10000000000000001 # 10 ^ 17) = 4591870180066957722.  (* 0x3fb999999999999a *)
Proof. vm_compute. reflexivity. Qed.
Example tenth_by_theorem : RN F64 (10000000000000001 # 10 ^ 17) = 4591870180066957722.
Proof. ds64 (-1). Qed.

(** the predecessor of 1.0 (0x3fefffffffffffff) from its 17-digit rounding 9.9999999999999989e-1 *)
Example pred_one_by_theorem : RN F64 (99999999999999989 # 10 ^ 17) = 4607182418800017407.
Proof. ds64 (-1). Qed.

(** 1.0 itself (a power of two, where the lower neighbours are twice as dense): the hypothesis of
    [close_rounds_back] is  |d - 1| < 2^-54 ~ 5.55e-17,  the exact distance to the lower
    midpoint.  0.99999999999999999 = 1 - 1e-17 IS covered (and does round to 1.0) ... *)
Example one_from_below : RN F64 (99999999999999999 # 10 ^ 17) = 4607182418800017408.  (* 0x3ff0000000000000 *)
Proof.
  apply (close_rounds_back F64 sfmt_ok_F64).
  - vm_compute; split; reflexivity.
  - vm_compute. reflexivity.
Qed.
(** ... and so is every decimal within half a unit of the 17th digit of 1.0 (5e-17 < 5.55e-17) *)
Example one_by_theorem : RN F64 (99999999999999995 # 10 ^ 17) = 4607182418800017408.
Proof. ds64 0. Qed.
(** the bound of [close_rounds_back] is sharp there: just beyond the midpoint 1 - 2^-54 the
    hypothesis fails and the result is the predecessor of 1.0 *)
Example one_sharp :
  let d := (1 - pow2Q (-54) - pow2Q (-80))%Q in
  ~ (Qabs (d - value_Q F64 4607182418800017408)
       < value_Q F64 4607182418800017408 * pow2Q (- (prec F64 + 1)))%Q /\
  RN F64 d = 4607182418800017407.
Proof. vm_compute. split; [discriminate|reflexivity]. Qed.

(** the smallest subnormal 2^-1074 from 4.9406564584124654e-324 *)
Example min_subnormal_by_theorem : RN F64 (49406564584124654 # 10 ^ 340) = 1.
Proof. ds64 (-324). Qed.

(** the largest finite double from 1.7976931348623157e308 *)
Example max_finite_by_theorem :
  RN F64 (inject_Z (17976931348623157 * 10 ^ 292)) = 9218868437227405311.   (* 0x7fefffffffffffff *)
Proof. ds64 308. Qed.

(** 16 digits do not suffice for binary64: 0.1 + 0.2 = 0x3fd3333333333334 has the 16-digit
    rounding 3.000000000000000e-1, which parses to 0x3fd3333333333333 *)
Example sixteen_digits_fail :
  (Qabs ((3 # 10) - value_Q F64 4599075939470750516) <= pow10Q (-1 - 16 + 1) * (1 # 2))%Q /\
  RN F64 (3 # 10) = 4599075939470750515.
Proof. vm_compute. split; [discriminate|reflexivity]. Qed.

(** binary32: 0.1f = 0x3dcccccd from its 9-digit rounding 1.00000001e-1; largest finite and
    smallest subnormal *)
Example tenth_F32_by_theorem : RN F32 (100000001 # 10 ^ 9) = 1036831949.
Proof.
  apply (digits_suffice_F32 _ (-1));
  [ vm_compute; split; reflexivity | vm_compute; discriminate | vm_compute; discriminate ].
Qed.
Example max_finite_F32_by_theorem : RN F32 (inject_Z (340282347 * 10 ^ 30)) = 2139095039.
Proof.
  apply (digits_suffice_F32 _ 38);
  [ vm_compute; split; reflexivity | vm_compute; discriminate | vm_compute; discriminate ].
Qed.
Example min_subnormal_F32_by_theorem : RN F32 (140129846 # 10 ^ 53) = 1.
Proof.
  apply (digits_suffice_F32 _ (-45));
  [ vm_compute; split; reflexivity | vm_compute; discriminate | vm_compute; discriminate ].
Qed.

(** the integer-significand form on 3/2 = (3 * 2^51) * 2^-52 *)
Example close_ME_ex : RN F64 (15 # 10) = encode F64 (3 * 2 ^ 51) (-52).
Proof.
  apply (close_rounds_back_ME F64 sfmt_ok_F64).
  - vm_compute; reflexivity.
  - right. vm_compute. intuition discriminate.
  - vm_compute; discriminate.
  - vm_compute; reflexivity.
Qed.

Example exists_short_ex : exists c j, 10 ^ 16 <= c < 10 ^ 17 /\
    (Qabs (inject_Z c * pow10Q j - value_Q F64 1) <= pow10Q j * (1 # 2))%Q /\
    RN F64 (inject_Z c * pow10Q j) = 1.
Proof. apply exists_short_decimal_F64. vm_compute; split; reflexivity. Qed.

Example RN_zero_ex : RN F64 0 = 0 /\ RN F32 0 = 0.
Proof. split; apply RN_zero. Qed.

Print Assumptions close_rounds_back.
Print Assumptions close_rounds_back_ME.
Print Assumptions digits_suffice.
Print Assumptions digits_suffice_F64.
Print Assumptions digits_suffice_F32.
Print Assumptions exists_short_decimal.
Print Assumptions exists_short_decimal_F64.
Print Assumptions exists_short_decimal_F32.
Print Assumptions RN_zero.
