(** * RneBridge: the integer-only relation [rne_bits] (spec/RneZ.v) coincides with the
    computable specification [RN] (spec/Round.v).

    Main results (for any format with [bfmt_ok f = true]; [F32] and [F64] satisfy it):
      - [rne_bits_RN]     : rne_bits f n d bits -> RN f (n # Z.to_pos d) = bits
      - [rne_bits_unique] : the relation is functional
      - [rne_bits_exists] : the relation is total (0 <= n, 0 < d)
      - [RN_rne_bits]     : rne_bits f n d (RN f (n # Z.to_pos d))        (converse)
      - [rne_bits_iff_RN] : both directions as an equivalence
    Real numbers (Flocq) are confined to this file: [RN_sf_correct] gives the meaning of
    [RN_sf] as Flocq's [round radix2 (FLT_exp (femin f) (prec f)) ZnearestE] (instance of
    [Bdiv_correct_aux]); [cexp_of_canon]/[round_of_rne] identify [canon_exp]/[nearest_even]
    with Flocq's canonical exponent / nearest-even integer rounding; [bits_of_valid] reads the
    bit pattern off a valid [spec_float] through uniqueness of canonical representations. *)
From Coq Require Import ZArith QArith Reals List Bool Lia Lra Psatz.
From Coq Require Import Floats.SpecFloat.
From Flocq Require Import Core.Core IEEE754.BinarySingleNaN.
From ML Require Import base.RustSem model.Fmt model.FloatOps gen.Consts spec.Round spec.RneZ.
Open Scope Z_scope.
Arguments Z.pow : simpl never.

Definition bfmt_ok (f : format) : bool :=
  (0 <=? MANTISSA_SIZE f) && (1 <=? ewidth f) && (prec f <? emax f).

Lemma bfmt_ok_F32 : bfmt_ok F32 = true. Proof. vm_compute; reflexivity. Qed.
Lemma bfmt_ok_F64 : bfmt_ok F64 = true. Proof. vm_compute; reflexivity. Qed.

Lemma binary_round_aux_equiv p emx sx mx ex lx :
  SpecFloat.binary_round_aux p emx sx mx ex lx
  = BinarySingleNaN.binary_round_aux p emx mode_NE sx mx ex lx.
Proof.
unfold SpecFloat.binary_round_aux, binary_round_aux.
set (mrse' := shr_fexp _ _ _ _ _).
case mrse'; intros mrs' e'; simpl.
replace (round_nearest_even (shr_m mrs') (loc_of_shr_record mrs'))
  with (choice_mode mode_NE sx (shr_m mrs') (loc_of_shr_record mrs')).
reflexivity.
case (loc_of_shr_record mrs'); [reflexivity|intro c].
case c; [ | reflexivity..].
now simpl; unfold Round.cond_incr; case Z.even.
Qed.

Ltac push_IZR_in H := repeat (rewrite mult_IZR in H || rewrite plus_IZR in H || rewrite minus_IZR in H || rewrite opp_IZR in H).

Lemma ZnearestE_char (sn sd M : Z) : 0 < sd ->
  2 * Z.abs (sn - M * sd) <= sd ->
  (2 * Z.abs (sn - M * sd) = sd -> Z.even M = true) ->
  ZnearestE (IZR sn / IZR sd) = M.
Proof.
intros Hsd Hle Htie.
set (y := (IZR sn / IZR sd)%R).
assert (Hsd' : (0 < IZR sd)%R) by (apply IZR_lt; lia).
assert (Hy : (y * IZR sd = IZR sn)%R) by (unfold y; field; lra).
destruct (Z.eq_dec (2 * Z.abs (sn - M * sd)) sd) as [Heq|Hne].
- specialize (Htie Heq).
  destruct (Z.abs_spec (sn - M*sd)) as [[Hs Ha]|[Hs Ha]]; rewrite Ha in Heq;
    apply (f_equal IZR) in Heq; push_IZR_in Heq.
  + assert (Hy2 : (y = IZR M + /2)%R).
    { apply Rmult_eq_reg_r with (IZR sd); [|lra]. nra. }
    unfold Znearest.
    assert (Hf : Zfloor y = M). { apply Zfloor_imp. rewrite plus_IZR. lra. }
    rewrite Hf. rewrite Rcompare_Eq by lra. rewrite Htie. reflexivity.
  + assert (Hy2 : (y = IZR M - /2)%R).
    { apply Rmult_eq_reg_r with (IZR sd); [|lra]. nra. }
    unfold Znearest.
    assert (Hf : Zfloor y = M - 1).
    { apply Zfloor_imp. rewrite plus_IZR, minus_IZR. lra. }
    rewrite Hf. rewrite Rcompare_Eq by (rewrite minus_IZR; lra).
    rewrite Z.even_sub, Htie. cbn.
    apply Zceil_imp. rewrite minus_IZR. lra.
- apply Znearest_imp.
  assert (H1 : - sd < 2 * (sn - M * sd)) by lia.
  assert (H2 : 2 * (sn - M * sd) < sd) by lia.
  apply IZR_lt in H1, H2. push_IZR_in H1. push_IZR_in H2.
  apply Rabs_def1.
  + apply Rmult_lt_reg_r with (IZR sd); [lra|]. nra.
  + apply Rmult_lt_reg_r with (IZR sd); [lra|]. nra.
Qed.

Lemma ZnearestE_tie_even y :
  Rabs (y - IZR (ZnearestE y)) = (/2)%R -> Z.even (ZnearestE y) = true.
Proof.
unfold Znearest.
pose proof (Zfloor_lb y). pose proof (Zfloor_ub y).
destruct (Rcompare_spec (y - IZR (Zfloor y)) (/2)) as [Hlt|Heq|Hgt].
- intros Ha. rewrite Rabs_pos_eq in Ha by lra. lra.
- intros _. destruct (Z.even (Zfloor y)) eqn:Hev; cbn [negb]. exact Hev.
  rewrite Zceil_floor_neq by lra. rewrite Z.even_add, Hev. reflexivity.
- rewrite Zceil_floor_neq by lra. rewrite plus_IZR. intros Ha.
  rewrite Rabs_left1 in Ha by lra. lra.
Qed.

Lemma sc_den_pos d E : 0 < d -> 0 < sc_den d E.
Proof.
intros Hd. unfold sc_den. destruct (0 <=? E) eqn:He; [|lia].
apply Z.mul_pos_pos; [lia|]. apply Z.pow_pos_nonneg; lia.
Qed.

Lemma sc_num_pos n E : 0 < n -> 0 < sc_num n E.
Proof.
intros Hd. unfold sc_num. destruct (0 <=? E) eqn:He; [lia|].
apply Z.mul_pos_pos; [lia|]. apply Z.pow_pos_nonneg; lia.
Qed.

Lemma IZR_pow2 e : 0 <= e -> IZR (2 ^ e) = bpow radix2 e.
Proof. intros He. rewrite <- IZR_Zpower by assumption. reflexivity. Qed.

Lemma scaled_eq n d E : 0 < d ->
  (IZR n / IZR d * bpow radix2 (- E) = IZR (sc_num n E) / IZR (sc_den d E))%R.
Proof.
intros Hd. assert (Hd' : (0 < IZR d)%R) by (apply IZR_lt; lia).
unfold sc_num, sc_den. destruct (0 <=? E) eqn:He.
- apply Z.leb_le in He. rewrite mult_IZR, IZR_pow2 by lia.
  rewrite bpow_opp. pose proof (bpow_gt_0 radix2 E). field. split; lra.
- apply Z.leb_gt in He. rewrite mult_IZR, IZR_pow2 by lia. field. lra.
Qed.
Section B.
Variable f : format.
Hypothesis Hok : bfmt_ok f = true.

Notation fexpf := (FLT_exp (femin f) (prec f)).

Lemma ok_facts : 0 <= MANTISSA_SIZE f /\ 1 <= ewidth f /\ prec f < emax f.
Proof. unfold bfmt_ok in Hok. lia. Qed.

Instance prec_gt_0_f : Prec_gt_0 (prec f).
Proof. unfold Prec_gt_0, prec. generalize ok_facts. lia. Qed.
Instance prec_lt_emax_f : Prec_lt_emax (prec f) (emax f).
Proof. unfold Prec_lt_emax. generalize ok_facts. lia. Qed.

Lemma RN_sf_correct (n d : positive) :
  let x := (IZR (Zpos n) / IZR (Zpos d))%R in
  let z := RN_sf f (Zpos n) d in
  SpecFloat.valid_binary (prec f) (emax f) z = true /\
  if Rlt_bool (Rabs (round radix2 fexpf ZnearestE x)) (bpow radix2 (emax f)) then
    SF2R radix2 z = round radix2 fexpf ZnearestE x /\ is_finite_SF z = true /\ sign_SF z = false
  else z = S754_infinity false.
Proof.
intros x z.
pose proof (Bdiv_correct_aux (prec f) (emax f) _ _ mode_NE false n 0 false d 0) as H.
cbv zeta in H.
unfold z, RN_sf.
destruct (SFdiv_core_binary (prec f) (emax f) (Z.pos n) 0 (Z.pos d) 0) as [[mz ez] lz].
rewrite binary_round_aux_equiv.
replace (F2R (Float radix2 (cond_Zopp false (Zpos n)) 0)) with (IZR (Zpos n)) in H
  by (unfold F2R; simpl; ring).
replace (F2R (Float radix2 (cond_Zopp false (Zpos d)) 0)) with (IZR (Zpos d)) in H
  by (unfold F2R; simpl; ring).
exact H.
Qed.

Lemma canon_bounds n d E : 0 < n -> 0 < d -> canon_exp f n d E ->
  let x := (IZR n / IZR d)%R in
  (0 < x)%R /\ (x < bpow radix2 (E + prec f))%R /\
  (E = femin f \/ (bpow radix2 (E + prec f - 1) <= x)%R).
Proof.
intros Hn Hd (HE & Hlt & Hge) x.
destruct ok_facts as (Hms & Hew & Hpe).
pose proof (sc_den_pos d E Hd) as Hsd. assert (Hsd' := IZR_lt _ _ Hsd).
pose proof (scaled_eq n d E Hd) as Hsc. fold x in Hsc.
set (sn := sc_num n E) in *. set (sd := sc_den d E) in *.
set (y := (IZR sn / IZR sd)%R) in *.
assert (Hy : (y * IZR sd = IZR sn)%R) by (unfold y; field; lra).
assert (Hx : (x = y * bpow radix2 E)%R).
{ rewrite <- Hsc. rewrite Rmult_assoc, <- bpow_plus.
  replace (- E + E) with 0 by lia. simpl; ring. }
assert (Hxpos : (0 < x)%R).
{ unfold x. apply Rdiv_lt_0_compat; apply IZR_lt; lia. }
pose proof (bpow_gt_0 radix2 E) as HbE.
assert (Hylt : (y < bpow radix2 (prec f))%R).
{ apply IZR_lt in Hlt. rewrite mult_IZR, IZR_pow2 in Hlt by (unfold prec; lia). nra. }
assert (Hxlt : (x < bpow radix2 (E + prec f))%R).
{ rewrite Hx, bpow_plus. nra. }
split; [assumption|split; [assumption|]].
destruct Hge as [He|Hge]; [left; assumption|right].
apply IZR_le in Hge. rewrite mult_IZR, IZR_pow2 in Hge by (unfold prec; lia).
replace (E + prec f - 1) with (E + (prec f - 1)) by lia.
rewrite Hx, bpow_plus.
pose proof (bpow_gt_0 radix2 (prec f - 1)). nra.
Qed.

Lemma cexp_of_canon n d E : 0 < n -> 0 < d -> canon_exp f n d E ->
  cexp radix2 fexpf (IZR n / IZR d) = E.
Proof.
intros Hn Hd Hc.
destruct (canon_bounds n d E Hn Hd Hc) as (Hxpos & Hxlt & Hge).
destruct Hc as (HE & _).
set (x := (IZR n / IZR d)%R) in *.
unfold cexp.
destruct Hge as [He|Hge].
- assert (mag radix2 x <= E + prec f).
  { apply mag_le_bpow. lra. rewrite Rabs_pos_eq by lra. exact Hxlt. }
  unfold FLT_exp. lia.
- assert (Hm : mag radix2 x = E + prec f :> Z).
  { apply mag_unique. rewrite Rabs_pos_eq by lra. split; assumption. }
  rewrite Hm. unfold FLT_exp. lia.
Qed.

Lemma round_of_rne n d M E : 0 < n -> 0 < d -> canon_exp f n d E -> nearest_even n d M E ->
  round radix2 fexpf ZnearestE (IZR n / IZR d) = F2R (Float radix2 M E).
Proof.
intros Hn Hd Hc (Hle & Htie).
unfold round, scaled_mantissa. rewrite (cexp_of_canon n d E) by assumption.
rewrite scaled_eq by assumption.
rewrite (ZnearestE_char _ _ M); auto using sc_den_pos.
Qed.

Lemma M_bounds n d M E : 0 < n -> 0 < d -> canon_exp f n d E -> nearest_even n d M E ->
  0 <= M <= 2 ^ prec f /\ (E = femin f \/ 2 ^ (prec f - 1) <= M).
Proof.
intros Hn Hd (HE & Hlt & Hge) (Hle & _).
pose proof (sc_den_pos d E Hd) as Hsd.
pose proof (sc_num_pos n E Hn) as Hsn.
set (sn := sc_num n E) in *. set (sd := sc_den d E) in *.
set (P := 2 ^ prec f) in *. set (Q := 2 ^ (prec f - 1)) in *.
split; [split|].
- destruct (Z_lt_le_dec M 0) as [Hneg|]; [|assumption]. exfalso.
  assert (M * sd <= (-1) * sd) by (apply Z.mul_le_mono_nonneg_r; lia). lia.
- destruct (Z_lt_le_dec P M) as [Hbig|]; [|assumption]. exfalso.
  assert ((P + 1) * sd <= M * sd) by (apply Z.mul_le_mono_nonneg_r; lia). lia.
- destruct Hge as [He|Hge]; [left; assumption|right].
  destruct (Z_lt_le_dec M Q) as [Hsmall|]; [|assumption]. exfalso.
  assert (M * sd <= (Q - 1) * sd) by (apply Z.mul_le_mono_nonneg_r; lia). lia.
Qed.

Lemma canonical_ME M E : femin f <= E -> 0 < M < 2 ^ prec f ->
  (E = femin f \/ 2 ^ (prec f - 1) <= M) ->
  canonical radix2 fexpf (Float radix2 M E).
Proof.
intros HE HM Hn. destruct ok_facts as (Hms & Hew & Hpe).
unfold canonical, cexp. simpl Fexp.
rewrite mag_F2R_Zdigits by lia.
assert (Hd1 : Zdigits radix2 M <= prec f).
{ apply Zdigits_le_Zpower. rewrite Z.abs_eq by lia.
  change (Zpower radix2 (prec f)) with (2 ^ prec f). lia. }
unfold FLT_exp.
destruct Hn as [He|Hn]; [lia|].
assert (Hd2 : prec f - 1 < Zdigits radix2 M).
{ apply Zdigits_gt_Zpower. rewrite Z.abs_eq by lia.
  change (Zpower radix2 (prec f - 1)) with (2 ^ (prec f - 1)). lia. }
lia.
Qed.

Lemma pow2_prec : 2 ^ prec f = 2 * 2 ^ MANTISSA_SIZE f /\ 2 ^ (prec f - 1) = 2 ^ MANTISSA_SIZE f
  /\ 0 < 2 ^ MANTISSA_SIZE f.
Proof.
destruct ok_facts as (Hms & Hew & Hpe). unfold prec.
replace (MANTISSA_SIZE f + 1 - 1) with (MANTISSA_SIZE f) by lia.
rewrite Z.pow_add_r by lia. change (2 ^ 1) with 2.
pose proof (Z.pow_pos_nonneg 2 (MANTISSA_SIZE f)). lia.
Qed.

Lemma encode_carry E : encode f (2 ^ prec f) E = encode f (2 ^ (prec f - 1)) (E + 1).
Proof.
destruct pow2_prec as (H1 & H2 & H3). unfold encode. rewrite H1, H2.
destruct (2 * 2 ^ MANTISSA_SIZE f <? 2 ^ MANTISSA_SIZE f) eqn:Ha;
destruct (2 ^ MANTISSA_SIZE f <? 2 ^ MANTISSA_SIZE f) eqn:Hb; lia.
Qed.

Lemma encode_top : encode f (2 ^ prec f) (emax f - prec f) = inf_bits f.
Proof.
destruct pow2_prec as (H1 & H2 & H3). destruct ok_facts as (Hms & Hew & Hpe).
unfold encode, inf_bits. rewrite H1.
assert (He : 2 ^ ewidth f = 2 * emax f).
{ unfold emax. replace (ewidth f) with (1 + (ewidth f - 1)) at 1 by lia.
  rewrite Z.pow_add_r by lia. reflexivity. }
rewrite He. unfold femin.
destruct (2 * 2 ^ MANTISSA_SIZE f <? 2 ^ MANTISSA_SIZE f) eqn:Ha; [lia|]. ring.
Qed.

Lemma bits_of_finite m e : bits_of_sf f (S754_finite false m e) = encode f (Zpos m) e.
Proof. reflexivity. Qed.

Lemma bits_of_valid z M E :
  SpecFloat.valid_binary (prec f) (emax f) z = true ->
  is_finite_SF z = true -> sign_SF z = false ->
  SF2R radix2 z = F2R (Float radix2 M E) ->
  femin f <= E -> 0 <= M <= 2 ^ prec f -> (E = femin f \/ 2 ^ (prec f - 1) <= M) ->
  bits_of_sf f z = encode f M E.
Proof.
intros Hv Hf Hs HR HE HM Hn. destruct ok_facts as (Hms & Hew & Hpe).
destruct pow2_prec as (H1 & H2 & H3).
destruct z as [s|s| |s m e]; try discriminate.
- simpl in Hs, HR. subst s. symmetry in HR. apply eq_0_F2R in HR. subst M.
  unfold bits_of_sf, encode. destruct (0 <? 2 ^ MANTISSA_SIZE f) eqn:Ha; lia.
- simpl in Hs, Hv, HR. subst s. simpl cond_Zopp in HR.
  assert (Hc : canonical radix2 fexpf (Float radix2 (Zpos m) e)).
  { apply andb_prop in Hv. destruct Hv as (Hv & _).
    exact (canonical_canonical_mantissa (prec f) (emax f) false m e Hv). }
  assert (HMpos : 0 < M).
  { apply (gt_0_F2R radix2 M E). rewrite <- HR. apply F2R_gt_0. reflexivity. }
  rewrite bits_of_finite.
  destruct (Z.eq_dec M (2 ^ prec f)) as [Hcarry|Hnc].
  + subst M. rewrite encode_carry.
    assert (Heq : Float radix2 (Zpos m) e = Float radix2 (2 ^ (prec f - 1)) (E + 1)).
    { apply (canonical_unique radix2 fexpf); [exact Hc| |].
      - apply canonical_ME; lia.
      - rewrite HR. unfold F2R. simpl Fnum. simpl Fexp.
        rewrite bpow_plus, H1, H2, mult_IZR. change (bpow radix2 1) with 2%R. ring. }
    injection Heq as -> ->. reflexivity.
  + assert (Heq : Float radix2 (Zpos m) e = Float radix2 M E).
    { apply (canonical_unique radix2 fexpf); [exact Hc| |exact HR].
      apply canonical_ME; lia. }
    injection Heq as -> ->. reflexivity.
Qed.

Lemma format_bpow_emax : generic_format radix2 fexpf (bpow radix2 (emax f)).
Proof.
destruct ok_facts as (Hms & Hew & Hpe).
apply generic_format_bpow. unfold FLT_exp, femin, prec in *. lia.
Qed.

Theorem rne_bits_RN_pos (n d : positive) bits :
  rne_bits f (Zpos n) (Zpos d) bits -> RN f (Qmake (Zpos n) d) = bits.
Proof.
intros H. destruct ok_facts as (Hms & Hew & Hpe).
assert (Hp1 : 1 <= prec f) by (unfold prec; lia).
unfold RN. simpl Qnum. simpl Qden.
destruct (RN_sf_correct n d) as (Hv & Hr). cbv zeta in Hv, Hr.
set (x := (IZR (Zpos n) / IZR (Zpos d))%R) in *.
set (z := RN_sf f (Zpos n) d) in *.
assert (Hdpos : (0 < IZR (Zpos d))%R) by (apply IZR_lt; lia).
destruct H as [(Hn0 & Hb)|[(Hnp & Hov & Hb)|(Hnp & Hlt & M & E & Hc & Hne & Hb)]].
- discriminate.
- (* overflow *)
  assert (Hx : (bpow radix2 (emax f) <= x)%R).
  { apply IZR_le in Hov. rewrite mult_IZR, IZR_pow2 in Hov by lia.
    unfold x. apply Rmult_le_reg_r with (IZR (Zpos d)); [assumption|].
    unfold Rdiv. rewrite Rmult_assoc, Rinv_l by lra. lra. }
  assert (Hrx : (bpow radix2 (emax f) <= round radix2 fexpf ZnearestE x)%R).
  { apply round_ge_generic; auto with typeclass_instances. apply format_bpow_emax. }
  rewrite Rlt_bool_false in Hr.
  + rewrite Hr. subst bits. unfold bits_of_sf, inf_bits. lia.
  + rewrite Rabs_pos_eq; [assumption|]. pose proof (bpow_gt_0 radix2 (emax f)). lra.
- assert (Hxlt : (x < bpow radix2 (emax f))%R).
  { apply IZR_lt in Hlt. rewrite mult_IZR, IZR_pow2 in Hlt by lia.
    unfold x. apply Rmult_lt_reg_r with (IZR (Zpos d)); [assumption|].
    unfold Rdiv. rewrite Rmult_assoc, Rinv_l by lra. lra. }
  destruct (M_bounds _ _ M E Hnp (Pos2Z.is_pos d) Hc Hne) as (HM & HMn).
  destruct (canon_bounds _ _ E Hnp (Pos2Z.is_pos d) Hc) as (Hxpos & HxE & HxEn).
  fold x in Hxpos, HxE, HxEn.
  assert (HfE : femin f <= E) by (destruct Hc; assumption).
  pose proof (round_of_rne _ _ M E Hnp (Pos2Z.is_pos d) Hc Hne) as Hrd.
  fold x in Hrd. rewrite Hrd in Hr.
  assert (Hr0 : (0 <= F2R (Float radix2 M E))%R) by (apply F2R_ge_0; simpl; lia).
  rewrite Rabs_pos_eq in Hr by assumption.
  destruct (Rlt_bool_spec (F2R (Float radix2 M E)) (bpow radix2 (emax f))) as [Hfin|Hinf].
  + destruct Hr as (HR & Hf & Hs). subst bits.
    apply bits_of_valid; assumption.
  + (* rounds up to 2^emax *)
    rewrite Hr. subst bits.
    assert (HEle : E <= emax f - prec f).
    { destruct HxEn as [He|HxEn]; [unfold femin, prec in *; lia|].
      assert (E + prec f - 1 < emax f); [|lia].
      apply (lt_bpow radix2). lra. }
    unfold F2R in Hinf. simpl Fnum in Hinf. simpl Fexp in Hinf.
    assert (HMr : (IZR M <= bpow radix2 (prec f))%R).
    { rewrite <- IZR_pow2 by (unfold prec; lia). apply IZR_le. lia. }
    pose proof (bpow_gt_0 radix2 E) as HbE.
    assert (HE : E = emax f - prec f).
    { destruct (Z.eq_dec E (emax f - prec f)) as [|Hne']; [assumption|exfalso].
      assert (Hlt' : (bpow radix2 (prec f + E) < bpow radix2 (emax f))%R) by (apply bpow_lt; lia).
      rewrite bpow_plus in Hlt'. nra. }
    assert (HM2 : M = 2 ^ prec f).
    { assert (2 ^ prec f <= M); [|lia]. apply le_IZR.
      rewrite IZR_pow2 by (unfold prec; lia).
      replace (emax f) with (prec f + E) in Hinf by lia. rewrite bpow_plus in Hinf. nra. }
    subst M E. rewrite encode_top. unfold bits_of_sf, inf_bits. lia.
Qed.

(** Totality: a canonical exponent and a nearest-even significand always exist. *)
Lemma rne_exists_pos n d : 0 < n -> 0 < d ->
  exists M E, canon_exp f n d E /\ nearest_even n d M E.
Proof.
intros Hn Hd. destruct ok_facts as (Hms & Hew & Hpe).
set (x := (IZR n / IZR d)%R).
set (E := cexp radix2 fexpf x).
pose proof (sc_den_pos d E Hd) as Hsd. assert (Hsd' := IZR_lt _ _ Hsd).
pose proof (scaled_eq n d E Hd) as Hsc. fold x in Hsc.
set (sn := sc_num n E) in *. set (sd := sc_den d E) in *.
set (y := (IZR sn / IZR sd)%R) in *.
assert (Hy : (y * IZR sd = IZR sn)%R) by (unfold y; field; lra).
assert (Hxpos : (0 < x)%R).
{ unfold x. apply Rdiv_lt_0_compat; apply IZR_lt; lia. }
assert (HEge : mag radix2 x - prec f <= E /\ femin f <= E).
{ unfold E, cexp, FLT_exp. lia. }
pose proof (bpow_gt_0 radix2 (- E)) as HbE.
exists (ZnearestE y), E. unfold canon_exp, nearest_even. fold sn sd.
split; [split; [|split]|split].
- lia.
- assert (Hylt : (y < bpow radix2 (prec f))%R).
  { rewrite <- Hsc.
    replace (prec f) with ((E + prec f) + - E) by lia. rewrite bpow_plus.
    apply Rmult_lt_compat_r; [assumption|].
    apply Rlt_le_trans with (bpow radix2 (mag radix2 x)).
    - rewrite <- (Rabs_pos_eq x) at 1 by lra. apply bpow_mag_gt.
    - apply bpow_le. lia. }
  apply lt_IZR. rewrite mult_IZR, IZR_pow2 by (unfold prec; lia).
  rewrite <- Hy. apply Rmult_lt_compat_r; assumption.
- destruct (Z.eq_dec E (femin f)) as [He|He]; [left; assumption|right].
  assert (HE : E = mag radix2 x - prec f).
  { revert He. unfold E, cexp, FLT_exp. lia. }
  assert (Hyge : (bpow radix2 (prec f - 1) <= y)%R).
  { rewrite <- Hsc.
    replace (prec f - 1) with ((mag radix2 x - 1) + - E) by lia. rewrite bpow_plus.
    apply Rmult_le_compat_r; [lra|].
    apply Rle_trans with (Rabs x); [apply bpow_mag_le; lra|].
    rewrite Rabs_pos_eq; lra. }
  apply le_IZR. rewrite mult_IZR, IZR_pow2 by (unfold prec; lia).
  rewrite <- Hy. apply Rmult_le_compat_r; [lra|assumption].
- apply le_IZR. rewrite mult_IZR, abs_IZR, minus_IZR, mult_IZR, <- Hy.
  replace (y * IZR sd - IZR (ZnearestE y) * IZR sd)%R
    with ((y - IZR (ZnearestE y)) * IZR sd)%R by ring.
  rewrite Rabs_mult, (Rabs_pos_eq (IZR sd)) by lra.
  pose proof (Znearest_half (fun t => negb (Z.even t)) y). nra.
- intros Heq. apply ZnearestE_tie_even.
  apply (f_equal IZR) in Heq.
  rewrite mult_IZR, abs_IZR, minus_IZR, mult_IZR, <- Hy in Heq.
  replace (y * IZR sd - IZR (ZnearestE y) * IZR sd)%R
    with ((y - IZR (ZnearestE y)) * IZR sd)%R in Heq by ring.
  rewrite Rabs_mult, (Rabs_pos_eq (IZR sd)) in Heq by lra.
  apply Rmult_eq_reg_r with (IZR sd); [|lra]. lra.
Qed.

Lemma rne_bits_exists_f n d : 0 <= n -> 0 < d -> exists bits, rne_bits f n d bits.
Proof.
intros Hn Hd.
destruct (Z.eq_dec n 0) as [Hn0|Hn0].
- exists 0. left. auto.
- destruct (Z_le_gt_dec (2 ^ emax f * d) n) as [Hov|Hlt].
  + exists (inf_bits f). right; left. repeat split; [lia|assumption].
  + destruct (rne_exists_pos n d) as (M & E & Hc & Hne); [lia|assumption|].
    exists (encode f M E). right; right. repeat split; [lia|lia|].
    exists M, E. auto.
Qed.
End B.

Theorem rne_bits_RN : forall f, bfmt_ok f = true -> forall n d bits,
  0 <= n -> 0 < d -> rne_bits f n d bits -> RN f (n # Z.to_pos d)%Q = bits.
Proof.
intros f Hok n d bits Hn Hd H.
destruct d as [|pd|pd]; try lia. simpl Z.to_pos.
destruct n as [|pn|pn]; try lia.
- destruct H as [(_ & Hb)|[(Hnp & _)|(Hnp & _)]]; try lia. subst. reflexivity.
- apply rne_bits_RN_pos; assumption.
Qed.


(** Corollaries *)
Theorem rne_bits_unique : forall f, bfmt_ok f = true -> forall n d b1 b2,
  0 <= n -> 0 < d -> rne_bits f n d b1 -> rne_bits f n d b2 -> b1 = b2.
Proof.
intros f Hok n d b1 b2 Hn Hd H1 H2.
rewrite <- (rne_bits_RN f Hok n d b1 Hn Hd H1).
exact (rne_bits_RN f Hok n d b2 Hn Hd H2).
Qed.

Theorem rne_bits_exists : forall f, bfmt_ok f = true -> forall n d,
  0 <= n -> 0 < d -> exists bits, rne_bits f n d bits.
Proof. intros f Hok n d. apply rne_bits_exists_f; assumption. Qed.

(** Converse: the specification value satisfies the integer relation, hence
    [rne_bits f n d bits <-> RN f (n/d) = bits]. *)
Theorem RN_rne_bits : forall f, bfmt_ok f = true -> forall n d,
  0 <= n -> 0 < d -> rne_bits f n d (RN f (n # Z.to_pos d)%Q).
Proof.
intros f Hok n d Hn Hd.
destruct (rne_bits_exists f Hok n d Hn Hd) as (b & Hb).
rewrite (rne_bits_RN f Hok n d b Hn Hd Hb). exact Hb.
Qed.

Theorem rne_bits_iff_RN : forall f, bfmt_ok f = true -> forall n d bits,
  0 <= n -> 0 < d -> (rne_bits f n d bits <-> RN f (n # Z.to_pos d)%Q = bits).
Proof.
intros f Hok n d bits Hn Hd. split.
- apply rne_bits_RN; assumption.
- intros <-. apply RN_rne_bits; assumption.
Qed.

(** Satisfiability of the hypotheses on concrete, non-trivial instances. *)
Ltac cmp := vm_compute; first [reflexivity | discriminate | intro; discriminate].

(* 1/3 in binary64: inexact, normal *)
Example rne_bits_F64_third : rne_bits F64 1 3 4599676419421066581.
Proof.
right; right. split; [lia|]. split; [cmp|].
exists 6004799503160661, (-54). split; [|split].
- split; [cmp|]. split; [cmp|]. right. cmp.
- split; [cmp|]. intros H. vm_compute in H. discriminate.
- cmp.
Qed.

Example RN_F64_third : RN F64 (1 # 3)%Q = 4599676419421066581.
Proof. exact (rne_bits_RN F64 bfmt_ok_F64 1 3 _ ltac:(lia) ltac:(lia) rne_bits_F64_third). Qed.

(* 5 * 2^-1075 in binary64: subnormal, exact tie 2.5 -> 2 (even) *)
Example rne_bits_F64_subnormal_tie : rne_bits F64 5 (2 ^ 1075) 2.
Proof.
right; right. split; [lia|]. split; [cmp|].
exists 2, (-1074). split; [|split].
- split; [cmp|]. split; [cmp|]. left. cmp.
- split; [cmp|]. intros _. reflexivity.
- cmp.
Qed.

(* 2^128 - 1 in binary32: below 2^emax but rounds up (carry) to +infinity *)
Example rne_bits_F32_carry_to_inf : rne_bits F32 (2 ^ 128 - 1) 1 (inf_bits F32).
Proof.
right; right. split; [cmp|]. split; [cmp|].
exists (2 ^ 24), 104. split; [|split].
- split; [cmp|]. split; [cmp|]. right. cmp.
- split; [cmp|]. intros H. vm_compute in H. discriminate.
- cmp.
Qed.

Print Assumptions rne_bits_RN.
Print Assumptions RN_rne_bits.
