(** * Round: the specification every end-to-end property is stated against.
    [RN fmt v] is the bit pattern of the IEEE float nearest to the non-negative rational [v],
    ties to even, overflow to +infinity.  It is built from the standard library's computable
    IEEE specification ([SFdiv_core_binary] + [binary_round_aux]); its meaning in terms of
    Flocq's real-number rounding is [RN_spec] in spec/RoundFacts.v. *)
From Coq Require Import ZArith QArith List Bool.
From Coq Require Import Floats.SpecFloat.
From ML Require Import base.RustSem model.Fmt model.FloatOps.
Open Scope Z_scope.

Definition RN_sf (f : format) (n : Z) (d : positive) : spec_float :=
  match n with
  | Zpos p =>
      let '(m, e, l) := SFdiv_core_binary (prec f) (emax f) (Zpos p) 0 (Zpos d) 0 in
      binary_round_aux (prec f) (emax f) false m e l
  | _ => S754_zero false
  end.

Definition RN (f : format) (v : Q) : Z := bits_of_sf f (RN_sf f (Qnum v) (Qden v)).
