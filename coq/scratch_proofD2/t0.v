From Coq Require Import ZArith List Bool Lia.
From ML Require Import base.RustSem model.Fmt model.FloatOps model.Mask model.Num model.Number
  model.Rounding model.Vec model.Bigint model.Slow model.SrcLib gen.Consts gen.Tables gen.PowDump.
From ML Require Import gen.Src gen.SrcBigint gen.SrcSlow.
Import ListNotations.
Open Scope Z_scope.

Definition cfgs := [CFG_s; CFG_sc; CFG_sa; CFG_sca].
Definition blds := [release_build; checked_build; mkBuild true false; mkBuild false true].
Definition fmts := [F32; F64].

Definition eqo {A} (eqb : A -> A -> bool) (x y : outcome A) : bool :=
  match x, y with
  | Ok a, Ok b => eqb a b
  | Panic p, Panic q => match p, q with
     | PkAssert, PkAssert | PkOverflow, PkOverflow | PkIndex, PkIndex | PkUnwrap, PkUnwrap | PkFuel, PkFuel => true
     | _, _ => false end
  | _, _ => false
  end.
Definition ext_eqb (x y : extfloat) := (mant x =? mant y) && (exp x =? exp y).

Definition all3 {A B C} (la : list A) (lb : list B) (lc : list C) (p : A -> B -> C -> bool) : bool :=
  forallb (fun a => forallb (fun b => forallb (fun c => p a b c) lc) lb) la.

Definition bigs := [mkVec [3] 62; mkVec [] 62; mkVec [0;0;5] 62; mkVec [2^64-1; 2^64-1; 7] 62; mkVec (repeat (2^64-1) 60) 62; mkVec [1;2;3] 2; mkVec [1;2;3;0] 62].
Definition exps := [0; 1; 5; 27; 28; 135; 300; 310; 1100; -1; -5; 2^31-1; -2^31; 2^32+3].

Definition test_pos : bool :=
  all3 cfgs blds fmts (fun c b f =>
    forallb (fun big => forallb (fun e =>
      eqo ext_eqb (rs_positive_digit_comp c TABLES LIMITS f b big e) (positive_digit_comp c TABLES LIMITS f b big e)) exps) bigs).
Time Eval vm_compute in test_pos.

Definition fps := [mkExt (2^63) 100; mkExt (2^63+12345) 1000; mkExt (2^64-1) 1; mkExt 5 10; mkExt 0 0; mkExt (2^63) (-20); mkExt (2^63) 2046; mkExt (2^63 + 2^10) (-1000); mkExt (2^64+5) 3].
Definition nexps := [-1; -5; -27; -135; -300; -342; -1100; 0; 3; -2^31; -(2^31)+1].
Definition test_neg : bool :=
  all3 cfgs blds fmts (fun c b f =>
    forallb (fun big => forallb (fun fp => forallb (fun e =>
      eqo ext_eqb (rs_negative_digit_comp c TABLES LIMITS f b big fp e) (negative_digit_comp c TABLES LIMITS f b big fp e)) nexps) fps) bigs).
Time Eval vm_compute in test_neg.
