From Coq Require Import ZArith List Bool Lia String Ascii.
From ML Require Import base.RustSem model.Fmt model.Number model.Vec model.Bigint model.Slow spec.Decimal
  gen.Consts gen.Tables gen.PowDump proofs.LimbVal proofs.ParseFacts.
Import ListNotations.
Open Scope Z_scope.

Definition pm_out (maxd : Z) (d0 l : list Z) : Z * Z :=
  let k := Z.to_nat (maxd - zlen d0) in
  let N0 := digits_to_Z (d0 ++ firstn k l) in
  if forallb (fun d => d =? 48) (skipn k l) then (N0, zlen d0 + zlen (firstn k l))
  else (N0 * 10 + 1, maxd + 1).

Definition run c b i fr maxd :=
  match parse_mantissa c TABLES LIMITS b i fr maxd with
  | Ok (v, cnt) => Some (lval (vl v), cnt, is_normalized (vl v))
  | _ => None
  end.
Definition spec i fr maxd := let '(a, b) := pm_out maxd [] (strip0 (i ++ fr)) in Some (a, b, true).

Definition chk c b i fr maxd := match run c b i fr maxd, spec i fr maxd with
  | Some (a,b,n), Some (a',b',n') => (a =? a') && (b =? b') && Bool.eqb n n'
  | _, _ => false end.

Definition tests : list (string * string * Z) :=
  [("","000123",769); ("","",5); ("","000",5); ("12345","",5); ("12345","",4); ("12345","0",5);
   ("12345","00",5); ("12345","001",5); ("123450","",5); ("1234501","",5); ("1234500","000",5);("1234500","0001",5);
   ("1","",1); ("1","0",1); ("1","1",1); ("","1",1);("","01",1);("","011",1);
   ("1234567890123456789","",19);("1234567890123456789","",20);("1234567890123456789","1",20);
   ("1234567890123456789","12",20);("1234567890123456789","1234567890123456789",38);
   ("1234567890123456789","12345678901234567891",38);("1234567890123456789","1234567890123456789",39);
   ("12345678901234567891234567890123456789","",38);("12345678901234567891234567890123456789","",37);
   ("12345678901234567891234567890123456789","1",39);("1234567890123456789123456789012345678","9",39);
   ("","0001234567890123456789123456789012345678",39);("","1234567890123456789",19);("","12345678901234567891",19)
  ]%string.
Eval vm_compute in map (fun '(i,fr,m) => forallb (fun c => chk c checked_build (bytes i) (bytes fr) m && chk c release_build (bytes i) (bytes fr) m) ALL_CONFIGS) tests.
Eval vm_compute in run CFG_s checked_build (bytes "12345") (bytes "001") 5.
Definition big := repeat 49 799 ++ [50].
Eval vm_compute in forallb (fun c => chk c checked_build big [] 769 && chk c checked_build [] big 769 && chk c checked_build (firstn 300 big) (skipn 300 big) 769) ALL_CONFIGS.
