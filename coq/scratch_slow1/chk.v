From ML Require Import model.Slow.
Check pm_add_digit. Check pm_mul_add. Check pm_flush_end. Check pm_flush_max. Check pm_round_up. Check pm_settle. Check pm_int. Check pm_skip. Check pm_frac. Check parse_mantissa. Check positive_digit_comp. Check slow. Check scientific_exponent. Check negative_digit_comp.
