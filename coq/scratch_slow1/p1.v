From Coq Require Import ZArith List Bool Lia Znumtheory.
From Coq Require Import ZifyBool.
From ML Require Import base.RustSem model.Fmt model.Mask model.Num model.Number model.Rounding
  model.Vec model.Bigint model.Slow spec.Decimal.
From ML Require Import proofs.LimbVal.
Import ListNotations.
Open Scope Z_scope.

Local Opaque Z.pow.
Arguments Z.pow : simpl never.

(** ** 0. small facts *)
Lemma bindK {A B} (x : outcome A) (f : A -> outcome B) a : x = Ok a -> bind x f = f a.
Proof. intros ->. reflexivity. Qed.

Lemma p10_pos k : 0 <= k -> 0 < 10 ^ k.
Proof. intros. apply Z.pow_pos_nonneg; lia. Qed.

Lemma p10_add a c : 0 <= a -> 0 <= c -> 10 ^ (a + c) = 10 ^ a * 10 ^ c.
Proof. intros. apply Z.pow_add_r; lia. Qed.

Lemma p10_le a c : 0 <= a <= c -> 10 ^ a <= 10 ^ c.
Proof. intros. apply Z.pow_le_mono_r; lia. Qed.

Lemma p10_lt a c : 0 <= a < c -> 10 ^ a < 10 ^ c.
Proof. intros. apply Z.pow_lt_mono_r; lia. Qed.

Lemma sop32_ok b r : - 2 ^ 31 <= r < 2 ^ 31 -> sop b 32 r = Ok r.
Proof.
  intros H. unfold sop, in_s. change (32 - 1) with 31.
  replace ((- 2 ^ 31 <=? r) && (r <? 2 ^ 31)) with true by lia. reflexivity.
Qed.

(** ** 1. [scientific_exponent] *)

(** [d] is the number of decimal digits of [m] *)
Definition ndigits_is (m d : Z) : Prop := 1 <= d /\ 10 ^ (d - 1) <= m < 10 ^ d.

Lemma ndigits_is_unique m d1 d2 : ndigits_is m d1 -> ndigits_is m d2 -> d1 = d2.
Proof.
  intros [H1 [L1 U1]] [H2 [L2 U2]].
  destruct (Z_lt_le_dec d1 d2) as [H|H].
  - pose proof (p10_le d1 (d2 - 1) ltac:(lia)). lia.
  - destruct (Z_lt_le_dec d2 d1) as [H'|H']; [|lia].
    pose proof (p10_le d2 (d1 - 1) ltac:(lia)). lia.
Qed.

Lemma ndigits_is_u64 m d : ndigits_is m d -> m < 2 ^ 64 -> d <= 20.
Proof.
  intros [H1 [L1 U1]] Hm. destruct (Z_lt_le_dec 20 d) as [H|H]; [|exact H].
  pose proof (p10_le 20 (d - 1) ltac:(lia)).
  assert (2 ^ 64 < 10 ^ 20) by (vm_compute; reflexivity). lia.
Qed.

Lemma sci_loop_eq b fuel k step m e :
  sci_loop b fuel k step m e =
  if k <=? m then
    match fuel with
    | O => Panic PkFuel
    | S fuel' => e' <- i32_add b e step ;; sci_loop b fuel' k step (m / k) e'
    end
  else Ok (m, e).
Proof. destruct fuel; reflexivity. Qed.

(** one `while mantissa >= 10^step` loop: the sum exponent + digit count is invariant *)
Lemma sci_loop_spec b step : 1 <= step ->
  forall fuel m e d,
  ndigits_is m d -> d <= Z.of_nat fuel ->
  - 2 ^ 31 <= e -> e + d < 2 ^ 31 ->
  exists m' d', sci_loop b fuel (10 ^ step) step m e = Ok (m', e + d - d') /\
               ndigits_is m' d' /\ m' < 10 ^ step /\ d' <= d.
Proof.
  intros Hstep. induction fuel as [|fuel IH]; intros m e d Hd Hf He1 He2;
    rewrite sci_loop_eq.
  - destruct Hd as [H1 _]. lia.
  - destruct (10 ^ step <=? m) eqn:E.
    + destruct Hd as [H1 [L U]].
      assert (Hds : step < d).
      { destruct (Z_lt_le_dec step d) as [H|H]; [exact H|].
        pose proof (p10_le d step ltac:(lia)). lia. }
      pose proof (p10_pos step ltac:(lia)) as Hp.
      assert (Hd' : ndigits_is (m / 10 ^ step) (d - step)).
      { split; [lia|]. split.
        - apply Z.div_le_lower_bound; [lia|]. rewrite <- p10_add by lia.
          replace (step + (d - step - 1)) with (d - 1) by lia. exact L.
        - apply Z.div_lt_upper_bound; [lia|]. rewrite <- p10_add by lia.
          replace (step + (d - step)) with d by lia. exact U. }
      unfold i32_add. rewrite sop32_ok by lia. cbn [bind].
      destruct (IH (m / 10 ^ step) (e + step) (d - step) Hd' ltac:(lia) ltac:(lia) ltac:(lia))
        as (m' & d' & R & D' & B' & Le).
      exists m', d'. rewrite R. split; [f_equal; f_equal; lia|]. split; [exact D'|]. split; [exact B'|lia].
    + exists m, d. split; [f_equal; f_equal; lia|]. split; [exact Hd|]. split; [lia|lia].
Qed.

Theorem scientific_exponent_spec b n d :
  ndigits_is (nmant n) d -> nmant n < 2 ^ 64 ->
  - 2 ^ 31 <= nexp n < 2 ^ 31 - 64 ->
  scientific_exponent b n = Ok (nexp n + d - 1).
Proof.
  intros Hd Hm He. pose proof (ndigits_is_u64 _ _ Hd Hm) as Hd20.
  unfold scientific_exponent.
  destruct (sci_loop_spec b 4 ltac:(lia) 20 (nmant n) (nexp n) d Hd ltac:(lia) ltac:(lia) ltac:(lia))
    as (m1 & d1 & R1 & D1 & _ & L1).
  change 10000 with (10 ^ 4). rewrite R1. cbn [bind].
  destruct (sci_loop_spec b 2 ltac:(lia) 20 m1 (nexp n + d - d1) d1 D1 ltac:(lia)
              ltac:(destruct D1; lia) ltac:(lia))
    as (m2 & d2 & R2 & D2 & _ & L2).
  change 100 with (10 ^ 2). rewrite R2. cbn [bind].
  destruct (sci_loop_spec b 1 ltac:(lia) 20 m2 (nexp n + d - d1 + d1 - d2) d2 D2 ltac:(lia)
              ltac:(destruct D2; lia) ltac:(lia))
    as (m3 & d3 & R3 & D3 & B3 & L3).
  change 10 with (10 ^ 1) at 1. rewrite R3. cbn [bind].
  assert (d3 = 1).
  { destruct D3 as [H1 [L U]]. destruct (Z.eq_dec d3 1) as [|Hne]; [assumption|].
    pose proof (p10_le 1 (d3 - 1) ltac:(lia)). lia. }
  f_equal. lia.
Qed.

Example scientific_exponent_ex :
  scientific_exponent checked_build (mkNumber (-5) 12345678901234567890 true) = Ok 14 /\
  ndigits_is 12345678901234567890 20.
Proof. split; [vm_compute; reflexivity|]. split; [lia|]. split; vm_compute; [discriminate|reflexivity]. Qed.
