From Coq Require Import ZArith QArith.
From ML Require Import base.RustSem model.Fmt model.Num model.Number model.Bellerophon gen.Consts gen.BTables spec.Round proofs.SlowFacts2c proofs.BellFacts5.
Open Scope Z_scope.
Check pack_round_spec_gen.
Check rd_q_bounds.
Check inf_bits_power.
(* can -64 occur? F64, q=-336 *)
Definition w0 := 10^336 / 2^1075.
Eval vm_compute in (w0, Z.log2 w0).
Eval vm_compute in List.map (fun d => bellerophon BTABLES F64 release_build (mkNumber (-336) (w0 + d) true)) (-2 :: -1 :: 0 :: 1 :: 2 :: nil).
Eval vm_compute in List.map (fun d => bellerophon BTABLES F64 release_build (mkNumber (-336) (w0 + d) false)) (-2 :: -1 :: 0 :: 1 :: 2 :: nil).
(* counterexample to the requested statement with 2^40 <= w, F64 *)
Eval vm_compute in bellerophon BTABLES F64 release_build (mkNumber 0 (2^40+1) true).
Eval vm_compute in rd_bits F64 (mkExt (2^63 + 2^23) (1075 - 23)).
Eval vm_compute in RN F64 ((2*(2^40+1) + 1) # 2).
