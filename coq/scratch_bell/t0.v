From Coq Require Import ZArith List Bool Lia.
From ML Require Import base.RustSem model.Fmt model.Num model.Number model.Rounding model.Bellerophon gen.Consts gen.BTables.
Open Scope Z_scope.
Eval vm_compute in bellerophon BTABLES F64 release_build (mkNumber 0 1 false).
Eval vm_compute in bellerophon BTABLES F64 checked_build (mkNumber (-324) 1062871587088380183 true).
Eval vm_compute in bellerophon BTABLES F64 checked_build (mkNumber (-324) 5 false).
Eval vm_compute in bellerophon BTABLES F64 checked_build (mkNumber (308) 17976931348623157 false).
Eval vm_compute in bellerophon BTABLES F32 checked_build (mkNumber (-3) 123456789 false).
