From Coq Require Import ZArith List Bool Lia.
From ML Require Import base.RustSem model.Fmt model.Num model.Number model.Rounding model.Bellerophon gen.Consts gen.BTables proofs.RoundingFactsZ proofs.TableFacts proofs.BellFacts0.
Open Scope Z_scope.
Lemma l0 : bell_large_ok = true. Proof. exact (proj1 (proj2 bell_tables_ok)). Time Qed.
Local Opaque check_from.
Theorem l1 i : 0 <= i < zlen (BELL_LARGE BTABLES) -> (fun i m => is_ok_ext (get_large BTABLES checked_build i) &&
                         bell_entry_ok (i * BELL_STEP BTABLES - BELL_BIAS BTABLES) m
                           (ext_exp_of (get_large BTABLES checked_build i))) i (nth (Z.to_nat i) (BELL_LARGE BTABLES) 0) = true.
Proof.
  intros Hi. 
  exact (check_from_nth0 _ 0 (BELL_LARGE BTABLES) l0 i Hi).
Time Qed.
