(** * BellFacts0: integer-level specifications of the building blocks of src/bellerophon.rs
    (Stage A): [bnormalize], [bmul] (exact identity: the rounded-half-up high word of the 128-bit
    product, no overflow of any partial sum), [log2_exp], [get_small], [get_large],
    [get_small_int] in terms of the table facts of proofs/TableFacts.v.
    Everything holds for an arbitrary build [b]: in the stated ranges nothing panics or wraps. *)
From Coq Require Import ZArith List Bool Lia Znumtheory.
From Coq Require Import ZifyBool.
From ML Require Import base.RustSem model.Fmt model.Mask model.Num model.Number model.Rounding
  model.Bellerophon gen.Consts gen.BTables proofs.RoundingFactsZ proofs.TableFacts.
Ltac Zify.zify_post_hook ::= Z.div_mod_to_equations.
Open Scope Z_scope.
Local Arguments Z.pow : simpl never.

(** ** machine operations in range *)
Lemma sop64_ok b r : - 2 ^ 63 <= r < 2 ^ 63 -> sop b 64 r = Ok r.
Proof.
  intros H. unfold sop, in_s. change (64 - 1) with 63.
  replace ((- 2 ^ 63 <=? r) && (r <? 2 ^ 63)) with true by lia. reflexivity.
Qed.

Lemma as_i32_small x : - 2 ^ 31 <= x < 2 ^ 31 -> as_i32 x = x.
Proof.
  intros H. unfold as_i32, wraps. change (32 - 1) with 31.
  rewrite Z.mod_small; [lia|]. change (2 ^ 32) with (2 * 2 ^ 31). lia.
Qed.

Lemma as_i64_small x : - 2 ^ 63 <= x < 2 ^ 63 -> as_i64 x = x.
Proof.
  intros H. unfold as_i64, wraps. change (64 - 1) with 63.
  rewrite Z.mod_small; [lia|]. change (2 ^ 64) with (2 * 2 ^ 63). lia.
Qed.

Lemma as_usize_small x : 0 <= x < 2 ^ 64 -> as_usize x = x.
Proof. intros. unfold as_usize, wrapu. apply Z.mod_small; assumption. Qed.

Lemma u64_shl_ok b x k : 0 <= k < 64 -> 0 <= x * 2 ^ k < 2 ^ 64 -> u64_shl b x k = Ok (x * 2 ^ k).
Proof.
  intros Hk Hx. unfold u64_shl, shl_u. replace ((0 <=? k) && (k <? 64)) with true by lia.
  unfold wrapu. rewrite Z.mod_small by assumption. reflexivity.
Qed.

Lemma u32_shl_ok b x k : 0 <= k < 32 -> 0 <= x * 2 ^ k < 2 ^ 32 -> u32_shl b x k = Ok (x * 2 ^ k).
Proof.
  intros Hk Hx. unfold u32_shl, shl_u. replace ((0 <=? k) && (k <? 32)) with true by lia.
  unfold wrapu. rewrite Z.mod_small by assumption. reflexivity.
Qed.

(** ** leading zeros *)
Lemma lz64_spec x : 0 < x < 2 ^ 64 ->
  0 <= lz64 x <= 63 /\ 2 ^ 63 <= x * 2 ^ lz64 x < 2 ^ 64.
Proof.
  intros Hx. unfold lz64, bitlen. replace (x <=? 0) with false by lia.
  pose proof (Z.log2_spec x ltac:(lia)) as [Hlo Hhi].
  pose proof (Z.log2_nonneg x) as Hnn.
  assert (Hl : Z.log2 x < 64).
  { apply Z.log2_lt_pow2; lia. }
  replace (64 - (Z.log2 x + 1)) with (63 - Z.log2 x) by lia.
  split; [lia|].
  set (l := Z.log2 x) in *. replace (Z.succ l) with (l + 1) in Hhi by lia.
  pose proof (pow2_pos (63 - l) ltac:(lia)) as Hp.
  assert (H63 : 2 ^ 63 = 2 ^ l * 2 ^ (63 - l)).
  { rewrite <- pow2_split by lia. f_equal. lia. }
  assert (H64 : 2 ^ 64 = 2 ^ (l + 1) * 2 ^ (63 - l)).
  { rewrite <- pow2_split by lia. f_equal. lia. }
  rewrite H63, H64. split.
  - apply Z.mul_le_mono_nonneg_r; lia.
  - apply Z.mul_lt_mono_pos_r; lia.
Qed.

Lemma lz64_normal x : 2 ^ 63 <= x < 2 ^ 64 -> lz64 x = 0.
Proof.
  intros Hx. unfold lz64, bitlen. replace (x <=? 0) with false by lia.
  assert (Z.log2 x = 63); [|lia].
  apply Z.log2_unique; [lia|]. change (2 ^ (63 + 1)) with (2 ^ 64). lia.
Qed.

(** the shift count is determined by the position of the result *)
Lemma lz64_unique x k : 0 <= k -> 2 ^ 63 <= x * 2 ^ k < 2 ^ 64 -> lz64 x = k.
Proof.
  intros Hk Hx. pose proof (pow2_pos k Hk) as Hp.
  assert (Hx0 : 0 < x) by nia.
  assert (Hk63 : k <= 63).
  { destruct (Z_le_gt_dec k 63) as [|Hgt]; [assumption|exfalso].
    pose proof (pow2_le 64 k ltac:(lia)). nia. }
  unfold lz64, bitlen. replace (x <=? 0) with false by lia.
  assert (Z.log2 x = 63 - k); [|lia].
  apply Z.log2_unique; [lia|].
  assert (H63 : 2 ^ 63 = 2 ^ (63 - k) * 2 ^ k) by (rewrite <- pow2_split by lia; f_equal; lia).
  assert (H64 : 2 ^ 64 = 2 ^ (63 - k + 1) * 2 ^ k) by (rewrite <- pow2_split by lia; f_equal; lia).
  rewrite H63, H64 in Hx. split.
  - apply (Z.mul_le_mono_pos_r _ _ (2 ^ k)); lia.
  - apply (Z.mul_lt_mono_pos_r (2 ^ k)); lia.
Qed.

(** ** [normalize] *)
Theorem bnormalize_ok b m e :
  0 < m < 2 ^ 64 -> - 2 ^ 31 + 63 <= e < 2 ^ 31 ->
  bnormalize b (mkExt m e) = Ok (mkExt (m * 2 ^ lz64 m) (e - lz64 m), lz64 m).
Proof.
  intros Hm He. destruct (lz64_spec m Hm) as [Hk Hr].
  unfold bnormalize. cbn [mant exp]. replace (m =? 0) with false by lia. cbn [negb].
  rewrite u64_shl_ok by lia. cbn [bind].
  unfold i32_sub. rewrite sop32_ok by lia. reflexivity.
Qed.

Theorem bnormalize_zero b e : bnormalize b (mkExt 0 e) = Ok (mkExt 0 e, 0).
Proof. reflexivity. Qed.

(** ** [mul]: the exact identity *)

(** the schoolbook recombination of the four 32x32 products *)
Lemma mul_halves_identity x y :
  0 <= x < 2 ^ 64 -> 0 <= y < 2 ^ 64 ->
  let x1 := x / 2 ^ 32 in let x0 := x mod 2 ^ 32 in
  let y1 := y / 2 ^ 32 in let y0 := y mod 2 ^ 32 in
  let tmp := (x1 * y0) mod 2 ^ 32 + (x0 * y1) mod 2 ^ 32 + (x0 * y0) / 2 ^ 32 + 2 ^ 31 in
  (x * y + 2 ^ 63) / 2 ^ 64 = x1 * y1 + (x1 * y0) / 2 ^ 32 + (x0 * y1) / 2 ^ 32 + tmp / 2 ^ 32.
Proof.
  intros Hx Hy x1 x0 y1 y0 tmp.
  assert (P32 : 0 < 2 ^ 32) by (apply pow2_pos; lia).
  assert (Ex : x = 2 ^ 32 * x1 + x0) by (apply Z.div_mod; lia).
  assert (Ey : y = 2 ^ 32 * y1 + y0) by (apply Z.div_mod; lia).
  assert (Bx0 : 0 <= x0 < 2 ^ 32) by (apply Z.mod_pos_bound; lia).
  assert (By0 : 0 <= y0 < 2 ^ 32) by (apply Z.mod_pos_bound; lia).
  set (A := x1 * y0) in *. set (B := x0 * y1) in *. set (C := x0 * y0) in *.
  assert (EA : A = 2 ^ 32 * (A / 2 ^ 32) + A mod 2 ^ 32) by (apply Z.div_mod; lia).
  assert (EB : B = 2 ^ 32 * (B / 2 ^ 32) + B mod 2 ^ 32) by (apply Z.div_mod; lia).
  assert (EC : C = 2 ^ 32 * (C / 2 ^ 32) + C mod 2 ^ 32) by (apply Z.div_mod; lia).
  assert (Et : tmp = 2 ^ 32 * (tmp / 2 ^ 32) + tmp mod 2 ^ 32) by (apply Z.div_mod; lia).
  assert (BC : 0 <= C mod 2 ^ 32 < 2 ^ 32) by (apply Z.mod_pos_bound; lia).
  assert (Bt : 0 <= tmp mod 2 ^ 32 < 2 ^ 32) by (apply Z.mod_pos_bound; lia).
  symmetry. apply Z.div_unique with (r := C mod 2 ^ 32 + 2 ^ 32 * (tmp mod 2 ^ 32)).
  - left. change (2 ^ 64) with (2 ^ 32 * 2 ^ 32). nia.
  - assert (Exy : x * y = 2 ^ 32 * 2 ^ 32 * (x1 * y1) + 2 ^ 32 * (A + B) + C).
    { unfold A, B, C. rewrite Ex at 1. rewrite Ey at 1. ring. }
    rewrite Exy. change (2 ^ 64) with (2 ^ 32 * 2 ^ 32). change (2 ^ 63) with (2 ^ 32 * 2 ^ 31).
    unfold tmp in Et |- *. fold A B C in Et |- *.
    set (hA := A / 2 ^ 32) in *. set (lA := A mod 2 ^ 32) in *.
    set (hB := B / 2 ^ 32) in *. set (lB := B mod 2 ^ 32) in *.
    set (hC := C / 2 ^ 32) in *. set (lC := C mod 2 ^ 32) in *.
    set (T := lA + lB + hC + 2 ^ 31) in *.
    set (hT := T / 2 ^ 32) in *. set (lT := T mod 2 ^ 32) in *.
    rewrite EA at 1. rewrite EB at 1. rewrite EC at 1.
    replace (2 ^ 32 * 2 ^ 32 * (x1 * y1 + hA + hB + hT) + (lC + 2 ^ 32 * lT))
      with (2 ^ 32 * 2 ^ 32 * (x1 * y1 + hA + hB) + 2 ^ 32 * (2 ^ 32 * hT + lT) + lC) by ring.
    rewrite <- Et. unfold T. ring.
Qed.

Lemma mul32_lt64 a c : 0 <= a < 2 ^ 32 -> 0 <= c < 2 ^ 32 -> 0 <= a * c < 2 ^ 64.
Proof. intros Ha Hc. change (2 ^ 64) with (2 ^ 32 * 2 ^ 32). nia. Qed.

Lemma div32_range a : 0 <= a < 2 ^ 64 -> 0 <= a / 2 ^ 32 < 2 ^ 32.
Proof.
  intros Ha. assert (0 < 2 ^ 32) by (apply pow2_pos; lia).
  split; [apply Z.div_pos; lia|apply Z.div_lt_upper_bound; [lia|]].
  change (2 ^ 32 * 2 ^ 32) with (2 ^ 64). lia.
Qed.

Lemma div32_ge1 a : 2 ^ 32 <= a -> 1 <= a / 2 ^ 32.
Proof. intros Ha. apply Z.div_le_lower_bound; [apply pow2_pos|]; lia. Qed.

Lemma bmul_res_range X Y : 0 <= X < 2 ^ 64 -> 0 <= Y < 2 ^ 64 ->
  0 <= (X * Y + 2 ^ 63) / 2 ^ 64 < 2 ^ 64.
Proof.
  intros HX HY. assert (P : 0 < 2 ^ 64) by (vm_compute; reflexivity).
  assert (P63 : 0 < 2 ^ 63) by (vm_compute; reflexivity).
  assert (H6364 : 2 ^ 63 < 2 ^ 64) by (vm_compute; reflexivity).
  split.
  - apply Z.div_pos; [|lia]. nia.
  - apply Z.div_lt_upper_bound; [lia|]. nia.
Qed.

Theorem bmul_ok b x y :
  2 ^ 32 <= mant x < 2 ^ 64 -> 2 ^ 32 <= mant y < 2 ^ 64 ->
  - 2 ^ 31 <= exp x + exp y -> exp x + exp y + 64 < 2 ^ 31 ->
  bmul b x y = Ok (mkExt ((mant x * mant y + 2 ^ 63) / 2 ^ 64) (exp x + exp y + 64)).
Proof.
  intros Hx Hy He1 He2. destruct x as [mx ex], y as [my ey]. cbn [mant exp] in *.
  assert (P32 : 0 < 2 ^ 32) by (apply pow2_pos; lia).
  pose proof (mul_halves_identity mx my ltac:(lia) ltac:(lia)) as Hid. cbv zeta in Hid.
  pose proof (bmul_res_range mx my ltac:(lia) ltac:(lia)) as Bres. rewrite Hid in Bres.
  unfold bmul. cbn [mant exp].
  change 4294967295 with (2 ^ 32 - 1). rewrite !land_mask by lia.
  pose proof (div32_ge1 mx ltac:(lia)) as Bx1a. pose proof (div32_range mx ltac:(lia)) as Bx1.
  pose proof (div32_ge1 my ltac:(lia)) as By1a. pose proof (div32_range my ltac:(lia)) as By1.
  pose proof (Z.mod_pos_bound mx (2 ^ 32) P32) as Bx0.
  pose proof (Z.mod_pos_bound my (2 ^ 32) P32) as By0.
  set (x1 := mx / 2 ^ 32) in *. set (x0 := mx mod 2 ^ 32) in *.
  set (y1 := my / 2 ^ 32) in *. set (y0 := my mod 2 ^ 32) in *.
  clearbody x1 x0 y1 y0.
  replace (x1 =? 0) with false by lia. replace (y1 =? 0) with false by lia. cbn [negb].
  rewrite !debug_assert_true by reflexivity. cbn [bind].
  pose proof (mul32_lt64 x1 y0 ltac:(lia) ltac:(lia)) as BA.
  pose proof (mul32_lt64 x0 y1 ltac:(lia) ltac:(lia)) as BB.
  pose proof (mul32_lt64 x0 y0 ltac:(lia) ltac:(lia)) as BC.
  pose proof (mul32_lt64 x1 y1 ltac:(lia) ltac:(lia)) as BD.
  unfold u64_mul. rewrite !uop_ok by assumption. cbn [bind].
  rewrite !land_mask by lia.
  set (A := x1 * y0) in *. set (B := x0 * y1) in *. set (C := x0 * y0) in *. set (D := x1 * y1) in *.
  clearbody A B C D.
  pose proof (Z.mod_pos_bound A (2 ^ 32) P32) as BlA.
  pose proof (Z.mod_pos_bound B (2 ^ 32) P32) as BlB.
  pose proof (div32_range A BA) as BhA. pose proof (div32_range B BB) as BhB.
  pose proof (div32_range C BC) as BhC.
  set (lA := A mod 2 ^ 32) in *. set (lB := B mod 2 ^ 32) in *.
  set (hA := A / 2 ^ 32) in *. set (hB := B / 2 ^ 32) in *. set (hC := C / 2 ^ 32) in *.
  clearbody lA lB hA hB hC.
  assert (H31 : 2 ^ 31 = 2147483648) by reflexivity.
  assert (H32 : 2 ^ 32 = 4294967296) by reflexivity.
  assert (H64 : 2 ^ 64 = 18446744073709551616) by reflexivity.
  unfold u64_add.
  rewrite (uop_ok b 64 (lA + lB)) by lia. cbn [bind].
  rewrite (uop_ok b 64 (lA + lB + hC)) by lia. cbn [bind].
  rewrite (uop_ok b 64 (lA + lB + hC + 2 ^ 31)) by lia. cbn [bind].
  set (tmp := lA + lB + hC + 2 ^ 31) in *.
  assert (Bt : 0 <= tmp / 2 ^ 32) by (apply Z.div_pos; [unfold tmp|]; lia).
  set (hT := tmp / 2 ^ 32) in *. clearbody hT. clear tmp.
  rewrite (uop_ok b 64 (D + hA)) by lia. cbn [bind].
  rewrite (uop_ok b 64 (D + hA + hB)) by lia. cbn [bind].
  rewrite (uop_ok b 64 (D + hA + hB + hT)) by lia. cbn [bind].
  unfold i32_add. rewrite (sop32_ok b (ex + ey)) by lia. cbn [bind].
  rewrite sop32_ok by lia. cbn [bind].
  rewrite Hid. reflexivity.
Qed.

(** the error of [mul] in half units of the result: the result is the product divided by 2^64,
    rounded to nearest, ties up *)
Lemma bmul_bracket X Y :
  let m := (X * Y + 2 ^ 63) / 2 ^ 64 in
  2 ^ 64 * m - 2 ^ 63 <= X * Y < 2 ^ 64 * m + 2 ^ 63.
Proof.
  cbv zeta. assert (0 < 2 ^ 64) by (vm_compute; reflexivity).
  assert (2 ^ 64 = 2 * 2 ^ 63) by reflexivity.
  pose proof (Z.div_mod (X * Y + 2 ^ 63) (2 ^ 64) ltac:(lia)).
  pose proof (Z.mod_pos_bound (X * Y + 2 ^ 63) (2 ^ 64) ltac:(lia)). lia.
Qed.

Lemma bmul_range X Y : 2 ^ 62 <= X < 2 ^ 64 -> 2 ^ 63 <= Y < 2 ^ 64 ->
  let m := (X * Y + 2 ^ 63) / 2 ^ 64 in
  X / 2 <= m < 2 ^ 64.
Proof.
  intros HX HY. cbv zeta.
  assert (P : 0 < 2 ^ 64) by (vm_compute; reflexivity).
  assert (E64 : 2 ^ 64 = 2 * 2 ^ 63) by reflexivity.
  split.
  - apply Z.div_le_lower_bound; [lia|].
    assert (X / 2 * 2 <= X) by (pose proof (Z.mul_div_le X 2 ltac:(lia)); lia).
    assert (0 < 2 ^ 63) by (vm_compute; reflexivity). nia.
  - apply Z.div_lt_upper_bound; [lia|].
    assert (2 ^ 63 < 2 ^ 64) by (vm_compute; reflexivity). nia.
Qed.

(** ** the table constants: what is used about them, checked by computation *)
Definition lexp (k : Z) : Z := - 63 + (BELL_LOG2 BTABLES * k) / 2 ^ BELL_LOG2_SHIFT BTABLES.

Definition bt_consts_ok : bool :=
  (1 <=? BELL_STEP BTABLES) && (BELL_STEP BTABLES <=? 2 ^ 6) &&
  (0 <=? BELL_BIAS BTABLES) && (BELL_BIAS BTABLES <? 2 ^ 12) &&
  (0 <=? BELL_LOG2 BTABLES) && (BELL_LOG2 BTABLES <=? 4 * 2 ^ BELL_LOG2_SHIFT BTABLES) &&
  (0 <=? BELL_LOG2_SHIFT BTABLES) && (BELL_LOG2_SHIFT BTABLES <? 32) &&
  (zlen (BELL_SMALL BTABLES) =? BELL_STEP BTABLES) &&
  (zlen (BELL_SMALL_INT BTABLES) =? BELL_STEP BTABLES) &&
  (1 <=? zlen (BELL_LARGE BTABLES)) && (zlen (BELL_LARGE BTABLES) <=? 2 ^ 8) &&
  (zlen (BELL_LARGE BTABLES) * BELL_STEP BTABLES - BELL_BIAS BTABLES <=? 2 ^ 12).

Lemma bt_consts_ok_true : bt_consts_ok = true.
Proof. vm_compute. reflexivity. Qed.

Record bt_props : Prop := {
  bp_step : 1 <= BELL_STEP BTABLES <= 2 ^ 6;
  bp_bias : 0 <= BELL_BIAS BTABLES < 2 ^ 12;
  bp_log2 : 0 <= BELL_LOG2 BTABLES <= 4 * 2 ^ BELL_LOG2_SHIFT BTABLES;
  bp_shift : 0 <= BELL_LOG2_SHIFT BTABLES < 32;
  bp_small : zlen (BELL_SMALL BTABLES) = BELL_STEP BTABLES;
  bp_small_int : zlen (BELL_SMALL_INT BTABLES) = BELL_STEP BTABLES;
  bp_large : 1 <= zlen (BELL_LARGE BTABLES) <= 2 ^ 8;
  bp_top : zlen (BELL_LARGE BTABLES) * BELL_STEP BTABLES - BELL_BIAS BTABLES <= 2 ^ 12
}.

Lemma bt_props_true : bt_props.
Proof.
  pose proof bt_consts_ok_true as H. unfold bt_consts_ok in H.
  repeat (apply andb_prop in H; let H' := fresh "H" in destruct H as [H H']).
  constructor; lia.
Qed.

(** ** [log2_exp]: the binary exponent of a table entry *)
Lemma lexp_bound k : - 2 ^ 15 <= k <= 2 ^ 15 -> - 2 ^ 18 <= lexp k <= 2 ^ 18.
Proof.
  intros Hk. destruct bt_props_true as [_ _ [Hl0 Hl1] [Hs0 Hs1] _ _ _ _].
  unfold lexp. set (L := BELL_LOG2 BTABLES) in *. set (P := 2 ^ BELL_LOG2_SHIFT BTABLES) in *.
  assert (HP : 0 < P) by (apply pow2_pos; lia).
  assert (H15 : 2 ^ 15 = 32768) by reflexivity. assert (H18 : 2 ^ 18 = 262144) by reflexivity.
  assert (Hq : - (4 * 2 ^ 15) <= L * k / P <= 4 * 2 ^ 15).
  { split.
    - apply Z.div_le_lower_bound; [lia|]. nia.
    - apply Z.div_le_upper_bound; [lia|]. nia. }
  lia.
Qed.

Lemma lexp_mono k1 k2 : k1 <= k2 -> lexp k1 <= lexp k2.
Proof.
  intros Hk. destruct bt_props_true as [_ _ [Hl0 Hl1] [Hs0 Hs1] _ _ _ _].
  unfold lexp. apply Z.add_le_mono_l. apply Z.div_le_mono; [apply pow2_pos; lia|].
  apply Z.mul_le_mono_nonneg_l; lia.
Qed.

Theorem log2_exp_ok b k : - 2 ^ 15 <= k <= 2 ^ 15 -> log2_exp BTABLES b k = Ok (lexp k).
Proof.
  intros Hk. pose proof (lexp_bound k Hk) as Hb.
  destruct bt_props_true as [_ _ [Hl0 Hl1] [Hs0 Hs1] _ _ _ _].
  unfold log2_exp, lexp in *.
  set (L := BELL_LOG2 BTABLES) in *. set (S := BELL_LOG2_SHIFT BTABLES) in *.
  assert (HP : 0 < 2 ^ S) by (apply pow2_pos; lia).
  assert (HP32 : 2 ^ S < 2 ^ 32) by (apply pow2_lt; lia).
  assert (H15 : 2 ^ 15 = 32768) by reflexivity. assert (H18 : 2 ^ 18 = 262144) by reflexivity.
  assert (H32 : 2 ^ 32 = 4294967296) by reflexivity.
  assert (H63 : 2 ^ 63 = 9223372036854775808) by reflexivity.
  assert (H31 : 2 ^ 31 = 2147483648) by reflexivity.
  unfold i64_mul. rewrite sop64_ok by nia. cbn [bind].
  unfold shr_s. replace ((0 <=? S) && (S <? 64)) with true by lia. cbn [bind].
  unfold i64_add. rewrite sop64_ok by lia. cbn [bind].
  rewrite as_i32_small by lia. reflexivity.
Qed.

(** ** table look-ups *)
Lemma index_checked_ok l i : 0 <= i < zlen l -> index_checked l i = Ok (nth (Z.to_nat i) l 0).
Proof.
  intros H. unfold index_checked. fold (zlen l).
  replace ((0 <=? i) && (i <? zlen l)) with true by lia. reflexivity.
Qed.

Definition small_m (i : Z) : Z := nth (Z.to_nat i) (BELL_SMALL BTABLES) 0.
Definition large_m (i : Z) : Z := nth (Z.to_nat i) (BELL_LARGE BTABLES) 0.
Definition large_k (i : Z) : Z := i * BELL_STEP BTABLES - BELL_BIAS BTABLES.

Theorem get_small_ok b i : 0 <= i < BELL_STEP BTABLES ->
  get_small BTABLES b i = Ok (mkExt (small_m i) (lexp i)).
Proof.
  intros Hi. destruct bt_props_true as [[Hs0 Hs1] _ _ _ Hlen _ _ _].
  assert (H6 : 2 ^ 6 = 64) by reflexivity. assert (H15 : 2 ^ 15 = 32768) by reflexivity.
  assert (H63 : 2 ^ 63 = 9223372036854775808) by reflexivity.
  unfold get_small. rewrite index_checked_ok by lia. cbn [bind].
  rewrite as_i64_small by lia. rewrite log2_exp_ok by lia. reflexivity.
Qed.

Lemma large_k_range i : 0 <= i < zlen (BELL_LARGE BTABLES) -> - 2 ^ 12 <= large_k i <= 2 ^ 12.
Proof.
  intros Hi. destruct bt_props_true as [[Hs0 Hs1] [Hb0 Hb1] _ _ _ _ [Hl0 Hl1] Htop].
  unfold large_k. set (S := BELL_STEP BTABLES) in *. set (N := zlen (BELL_LARGE BTABLES)) in *. nia.
Qed.

Theorem get_large_ok b i : 0 <= i < zlen (BELL_LARGE BTABLES) ->
  get_large BTABLES b i = Ok (mkExt (large_m i) (lexp (large_k i))).
Proof.
  intros Hi. pose proof (large_k_range i Hi) as Hk.
  destruct bt_props_true as [[Hs0 Hs1] [Hb0 Hb1] _ _ _ _ [Hl0 Hl1] _].
  assert (H6 : 2 ^ 6 = 64) by reflexivity. assert (H8 : 2 ^ 8 = 256) by reflexivity.
  assert (H12 : 2 ^ 12 = 4096) by reflexivity. assert (H15 : 2 ^ 15 = 32768) by reflexivity.
  assert (H63 : 2 ^ 63 = 9223372036854775808) by reflexivity.
  unfold get_large, large_k in *. rewrite index_checked_ok by lia. cbn [bind].
  rewrite as_i64_small by lia.
  unfold i64_mul. rewrite sop64_ok by nia. cbn [bind].
  unfold i64_sub. rewrite sop64_ok by nia. cbn [bind].
  rewrite log2_exp_ok by lia. reflexivity.
Qed.

(* the kernel must unfold [bell_small_ok] etc. rather than evaluate the table checks *)
Local Opaque check_from.

Theorem get_small_int_ok i : 0 <= i < BELL_STEP BTABLES ->
  get_small_int BTABLES i = Ok (10 ^ i).
Proof.
  intros Hi. destruct bt_props_true as [_ _ _ _ _ Hlen _ _].
  destruct bell_tables_ok as (_ & _ & _ & Hint & _).
  unfold get_small_int. rewrite index_checked_ok by lia. f_equal.
  unfold int_pow_ok in Hint.
  pose proof (check_from_nth0 _ 0 (BELL_SMALL_INT BTABLES) Hint i ltac:(lia)) as P. cbv beta in P. lia.
Qed.

(** the bracket of a table entry *)
Theorem small_entry_ok i : 0 <= i < BELL_STEP BTABLES -> bell_entry_ok i (small_m i) (lexp i) = true.
Proof.
  intros Hi. destruct bt_props_true as [_ _ _ _ Hlen _ _ _].
  destruct bell_tables_ok as (Hs & _). unfold bell_small_ok in Hs.
  pose proof (check_from_nth0 _ 0 (BELL_SMALL BTABLES) Hs i ltac:(lia)) as P. cbv beta in P.
  apply andb_prop in P. destruct P as [_ P].
  rewrite (get_small_ok checked_build i Hi) in P. exact P.
Qed.

Theorem large_entry_ok i : 0 <= i < zlen (BELL_LARGE BTABLES) ->
  bell_entry_ok (large_k i) (large_m i) (lexp (large_k i)) = true.
Proof.
  intros Hi. destruct bell_tables_ok as (_ & Hl & _). unfold bell_large_ok in Hl.
  pose proof (check_from_nth0 _ 0 (BELL_LARGE BTABLES) Hl i Hi) as P. cbv beta in P.
  apply andb_prop in P. destruct P as [_ P].
  rewrite (get_large_ok checked_build i Hi) in P. exact P.
Qed.

Lemma bell_entry_range k m e : bell_entry_ok k m e = true -> 2 ^ 63 <= m < 2 ^ 64.
Proof.
  unfold bell_entry_ok. intros H. apply andb_prop in H. destruct H as [H _].
  apply andb_prop in H. lia.
Qed.

Example bmul_ex : bmul checked_build (mkExt (2 ^ 63 + 12345) (-5)) (mkExt (2 ^ 64 - 1) 7)
  = Ok (mkExt (((2 ^ 63 + 12345) * (2 ^ 64 - 1) + 2 ^ 63) / 2 ^ 64) 66).
Proof. vm_compute. reflexivity. Qed.
Example get_large_ex : get_large BTABLES release_build 35 = Ok (mkExt (2 ^ 63) (-63)).
Proof. vm_compute. reflexivity. Qed.

Print Assumptions bnormalize_ok.
Print Assumptions bmul_ok.
Print Assumptions get_small_ok.
Print Assumptions get_large_ok.
Print Assumptions large_entry_ok.
