(** * BigintFacts1: the big-integer operations of model/Bigint.v compute the corresponding
    operation on natural numbers, and (stack back-end) fail exactly when the result does not fit. *)
From Coq Require Import ZArith List Bool Lia Znumtheory.
From Coq Require Import ZifyBool.
From ML Require Import base.RustSem model.Fmt model.Vec model.Number model.Bigint proofs.LimbVal.
From ML Require Import gen.Consts gen.PowDump.
Import ListNotations.
Open Scope Z_scope.
Local Opaque Z.pow.
Arguments Z.pow : simpl never.

(** ** generalities *)
Definition b2z (b : bool) : Z := if b then 1 else 0.

Lemma B64_gt1 : 1 < B64. Proof. reflexivity. Qed.

Lemma B64pow_pos n : 0 < B64 ^ n \/ n < 0.
Proof. destruct (Z_lt_le_dec n 0); [right; lia|left; apply Z.pow_pos_nonneg; [reflexivity|lia]]. Qed.

Lemma B64pow_pos' n : 0 <= n -> 0 < B64 ^ n.
Proof. intros; apply Z.pow_pos_nonneg; [reflexivity|lia]. Qed.

Lemma B64pow_ge1 n : 0 <= n -> 1 <= B64 ^ n.
Proof. intros H. pose proof (B64pow_pos' n H). lia. Qed.

Lemma B64pow_succ n : 0 <= n -> B64 ^ (n + 1) = B64 * B64 ^ n.
Proof. intros. rewrite Z.pow_add_r by lia. rewrite Z.pow_1_r. ring. Qed.

Lemma B64pow_mono a b : 0 <= a <= b -> B64 ^ a <= B64 ^ b.
Proof. intros. apply Z.pow_le_mono_r; [reflexivity|lia]. Qed.

Lemma B64pow_lt a b : 0 <= a < b -> B64 * B64 ^ a <= B64 ^ b.
Proof.
  intros. rewrite <- B64pow_succ by lia. apply B64pow_mono. lia.
Qed.

Lemma zlen_nonneg {A} (l : list A) : 0 <= zlen l.
Proof. unfold zlen. lia. Qed.

Lemma zlen_nil {A} : zlen (@nil A) = 0. Proof. reflexivity. Qed.

Lemma zlen_cons {A} (x : A) l : zlen (x :: l) = zlen l + 1.
Proof. unfold zlen. cbn [length]. lia. Qed.

Lemma zlen_app {A} (l1 l2 : list A) : zlen (l1 ++ l2) = zlen l1 + zlen l2.
Proof. unfold zlen. rewrite app_length. lia. Qed.

Lemma zlen_0_nil {A} (l : list A) : zlen l = 0 -> l = [].
Proof. destruct l; [reflexivity|rewrite zlen_cons; pose proof (zlen_nonneg l); lia]. Qed.

Lemma zlen_repeat {A} (x : A) n : zlen (repeat x n) = Z.of_nat n.
Proof. unfold zlen. rewrite repeat_length. reflexivity. Qed.

Lemma zlen_firstn {A} (l : list A) n : (n <= length l)%nat -> zlen (firstn n l) = Z.of_nat n.
Proof. intros. unfold zlen. rewrite firstn_length_le by lia. reflexivity. Qed.

Lemma zlen_skipn {A} (l : list A) n : zlen (skipn n l) = zlen l - Z.of_nat (Nat.min n (length l)).
Proof. unfold zlen. rewrite skipn_length. lia. Qed.

Lemma limbs_ok_nil : limbs_ok []. Proof. constructor. Qed.

Lemma limbs_ok_cons x l : limbs_ok (x :: l) <-> 0 <= x < B64 /\ limbs_ok l.
Proof. unfold limbs_ok. split; [intros H; inversion H; auto|intros [H1 H2]; constructor; auto]. Qed.

Lemma limbs_ok_app l1 l2 : limbs_ok (l1 ++ l2) <-> limbs_ok l1 /\ limbs_ok l2.
Proof. unfold limbs_ok. apply Forall_app. Qed.

Lemma limbs_ok_firstn n l : limbs_ok l -> limbs_ok (firstn n l).
Proof.
  intros H. rewrite <- (firstn_skipn n l) in H. apply limbs_ok_app in H. tauto.
Qed.

Lemma limbs_ok_skipn n l : limbs_ok l -> limbs_ok (skipn n l).
Proof.
  intros H. rewrite <- (firstn_skipn n l) in H. apply limbs_ok_app in H. tauto.
Qed.

Lemma limbs_ok_repeat0 n : limbs_ok (repeat 0 n).
Proof. induction n; cbn [repeat]; [constructor|apply limbs_ok_cons; split; [split; [lia|reflexivity]|assumption]]. Qed.

Lemma limbs_ok_rev l : limbs_ok l <-> limbs_ok (rev l).
Proof. unfold limbs_ok. split; intros H; [apply Forall_rev; exact H|rewrite <- (rev_involutive l); apply Forall_rev; exact H]. Qed.

Lemma lval_cons x l : lval (x :: l) = x + B64 * lval l.
Proof. reflexivity. Qed.

Lemma lval_snoc l x : lval (l ++ [x]) = lval l + B64 ^ zlen l * x.
Proof. rewrite lval_app. cbn [lval]. ring. Qed.

Lemma lval_split n l : lval l = lval (firstn n l) + B64 ^ zlen (firstn n l) * lval (skipn n l).
Proof. rewrite <- lval_app, firstn_skipn. reflexivity. Qed.

(** the value determines quotient and remainder *)
Lemma split_unique (M lo hi v : Z) :
  0 < M -> 0 <= lo < M -> lo + M * hi = v -> lo = v mod M /\ hi = v / M.
Proof.
  intros HM Hlo E. subst v.
  replace (lo + M * hi) with (lo + hi * M) by ring.
  rewrite Z.mod_add, Z.div_add by lia.
  rewrite Z.mod_small, Z.div_small by lia. lia.
Qed.

(** ** 1. scalar operations *)
Theorem scalar_add_spec x y :
  0 <= x < B64 -> 0 <= y < B64 ->
  let '(s, c) := scalar_add x y in
  0 <= s < B64 /\ s + B64 * b2z c = x + y /\ (c = true <-> B64 <= x + y).
Proof.
  intros Hx Hy. unfold scalar_add. pose proof B64_pos.
  destruct (B64 <=? x + y) eqn:E; cbn [b2z].
  - assert ((x + y) mod B64 = x + y - B64).
    { symmetry. apply Z.mod_unique_pos with (q := 1); lia. }
    split; [lia|]. split; [lia|]. split; [lia|reflexivity].
  - rewrite Z.mod_small by lia. split; [lia|]. split; [lia|]. split; [discriminate|lia].
Qed.

Theorem scalar_mul_spec x y carry :
  0 <= x < B64 -> 0 <= y < B64 -> 0 <= carry < B64 ->
  let '(lo, hi) := scalar_mul x y carry in
  0 <= lo < B64 /\ 0 <= hi < B64 /\ lo + B64 * hi = x * y + carry.
Proof.
  intros Hx Hy Hc. unfold scalar_mul. pose proof B64_pos.
  assert (0 <= x * y + carry < B64 * B64) by nia.
  pose proof (Z.mod_pos_bound (x * y + carry) B64 ltac:(lia)).
  pose proof (Z.div_mod (x * y + carry) B64 ltac:(lia)).
  split; [lia|]. split; [|lia].
  split; [apply Z.div_pos; lia|apply Z.div_lt_upper_bound; lia].
Qed.

Example scalar_mul_ex :
  scalar_mul (B64 - 1) (B64 - 1) (B64 - 1) = (0, B64 - 1).
Proof. vm_compute. auto. Qed.

Example scalar_add_ex : scalar_add (B64 - 1) 1 = (0, true).
Proof. vm_compute. auto. Qed.

(** ** 2. carry propagation *)
Theorem add_carry_spec : forall l carry,
  limbs_ok l -> 0 <= carry < B64 ->
  let '(l', c') := add_carry l carry in
  lval l' + B64 ^ zlen l * c' = lval l + carry /\ limbs_ok l' /\ length l' = length l /\
  0 <= c' < B64 /\ (l = [] -> c' = carry) /\ (l <> [] -> c' <= 1).
Proof.
  induction l as [|x r IH]; intros carry Hl Hc; cbn [add_carry].
  - rewrite (@zlen_nil Z), Z.pow_0_r. cbn [lval]. repeat split; try lia; try constructor. congruence.
  - apply limbs_ok_cons in Hl. destruct Hl as [Hx Hr].
    destruct (carry =? 0) eqn:E.
    + assert (carry = 0) by lia. subst carry.
      repeat split; try lia; try reflexivity. apply limbs_ok_cons; auto.
    + pose proof (scalar_add_spec x carry Hx Hc) as S.
      destruct (scalar_add x carry) as [s c]. destruct S as [Hs [Es _]].
      assert (Hc1 : 0 <= (if c then 1 else 0) < B64) by (destruct c; split; (lia || reflexivity)).
      specialize (IH (if c then 1 else 0) Hr Hc1).
      destruct (add_carry r (if c then 1 else 0)) as [r' c'].
      destruct IH as [E1 [O1 [L1 [B1 [N1 N2]]]]].
      rewrite zlen_cons, B64pow_succ by apply zlen_nonneg. cbn [lval length].
      unfold b2z in Es.
      split; [|split; [apply limbs_ok_cons; auto|split; [lia|split; [lia|split; [discriminate|]]]]].
      * replace (s + B64 * lval r' + B64 * B64 ^ zlen r * c')
          with (s + B64 * (lval r' + B64 ^ zlen r * c')) by ring.
        rewrite E1. lia.
      * intros _. destruct r as [|x' r''].
        -- rewrite N1 by reflexivity. destruct c; lia.
        -- apply N2. discriminate.
Qed.

(** consequently the outputs are the remainder and quotient by B64^len *)
Corollary add_carry_divmod l carry :
  limbs_ok l -> 0 <= carry < B64 ->
  lval (fst (add_carry l carry)) = (lval l + carry) mod B64 ^ zlen l /\
  snd (add_carry l carry) = (lval l + carry) / B64 ^ zlen l.
Proof.
  intros Hl Hc. pose proof (add_carry_spec l carry Hl Hc) as S.
  destruct (add_carry l carry) as [l' c']. cbn [fst snd].
  destruct S as [E [O [Len _]]].
  apply split_unique; [apply B64pow_pos', zlen_nonneg| |exact E].
  pose proof (lval_bound l' O). pose proof (lval_nonneg l' O).
  unfold zlen in *. rewrite Len in *. lia.
Qed.

Theorem mul_carry_spec : forall l y carry,
  limbs_ok l -> 0 <= y < B64 -> 0 <= carry < B64 ->
  let '(l', c') := mul_carry l y carry in
  lval l' + B64 ^ zlen l * c' = lval l * y + carry /\ limbs_ok l' /\ length l' = length l /\
  0 <= c' < B64.
Proof.
  induction l as [|x r IH]; intros y carry Hl Hy Hc; cbn [mul_carry].
  - rewrite (@zlen_nil Z), Z.pow_0_r. cbn [lval]. repeat split; try lia; constructor.
  - apply limbs_ok_cons in Hl. destruct Hl as [Hx Hr].
    pose proof (scalar_mul_spec x y carry Hx Hy Hc) as S.
    destruct (scalar_mul x y carry) as [lo hi]. destruct S as [Hlo [Hhi Es]].
    specialize (IH y hi Hr Hy Hhi).
    destruct (mul_carry r y hi) as [r' c']. destruct IH as [E1 [O1 [L1 B1]]].
    rewrite zlen_cons, B64pow_succ by apply zlen_nonneg. cbn [lval length].
    split; [|split; [apply limbs_ok_cons; auto|split; [lia|lia]]].
    replace (lo + B64 * lval r' + B64 * B64 ^ zlen r * c')
      with (lo + B64 * (lval r' + B64 ^ zlen r * c')) by ring.
    rewrite E1. lia.
Qed.

Corollary mul_carry_divmod l y carry :
  limbs_ok l -> 0 <= y < B64 -> 0 <= carry < B64 ->
  lval (fst (mul_carry l y carry)) = (lval l * y + carry) mod B64 ^ zlen l /\
  snd (mul_carry l y carry) = (lval l * y + carry) / B64 ^ zlen l.
Proof.
  intros Hl Hy Hc. pose proof (mul_carry_spec l y carry Hl Hy Hc) as S.
  destruct (mul_carry l y carry) as [l' c']. cbn [fst snd].
  destruct S as [E [O [Len _]]].
  apply split_unique; [apply B64pow_pos', zlen_nonneg| |exact E].
  pose proof (lval_bound l' O). pose proof (lval_nonneg l' O).
  unfold zlen in *. rewrite Len in *. lia.
Qed.

Example add_carry_ex :
  add_carry [B64 - 1; B64 - 1; 5] 1 = ([0; 0; 6], 0) /\
  add_carry [B64 - 1; B64 - 1] 7 = ([6; 0], 1) /\ add_carry [] 9 = ([], 9).
Proof. vm_compute. auto. Qed.

Example mul_carry_ex :
  mul_carry [B64 - 1; B64 - 1] (B64 - 1) (B64 - 1) = ([0; 0], B64 - 1) /\
  mul_carry [B64 - 1; B64 - 1] (B64 - 1) 0 = ([1; B64 - 1], B64 - 2).
Proof. vm_compute. auto. Qed.

(** ** 7. normalisation *)
Lemma strip_zeros_spec : forall r,
  exists k, r = repeat 0 k ++ strip_zeros r /\
            match strip_zeros r with 0 :: _ => False | _ => True end.
Proof.
  induction r as [|a r IH]; cbn [strip_zeros].
  - exists 0%nat. split; [reflexivity|exact I].
  - destruct a as [|p|p].
    + destruct IH as [k [E N]]. exists (S k). cbn [repeat app]. split; [congruence|exact N].
    + exists 0%nat. split; [reflexivity|exact I].
    + exists 0%nat. split; [reflexivity|exact I].
Qed.

(** the list is its normal form followed by zero limbs *)
Lemma normalize_list_decomp l :
  exists k, l = normalize_list l ++ repeat 0 k.
Proof.
  unfold normalize_list. destruct (strip_zeros_spec (rev l)) as [k [E _]].
  exists k. rewrite <- (rev_involutive l) at 1. rewrite E at 1.
  rewrite rev_app_distr. f_equal.
  clear. induction k; [reflexivity|]. cbn [repeat rev]. rewrite IHk.
  clear. induction k; [reflexivity|]. cbn [repeat app]. congruence.
Qed.

Lemma is_normalized_normalize l : is_normalized (normalize_list l) = true.
Proof.
  unfold normalize_list, is_normalized. rewrite rev_involutive.
  destruct (strip_zeros_spec (rev l)) as [k [_ N]].
  destruct (strip_zeros (rev l)) as [|[|p|p] r]; tauto.
Qed.

Lemma normalize_list_id l : is_normalized l = true -> normalize_list l = l.
Proof.
  unfold normalize_list, is_normalized. intros H.
  destruct (rev l) as [|[|p|p] r] eqn:E; try discriminate; cbn [strip_zeros];
    rewrite <- E; apply rev_involutive.
Qed.

Lemma is_normalized_snoc l x : is_normalized (l ++ [x]) = negb (x =? 0).
Proof.
  unfold is_normalized. rewrite rev_app_distr. cbn [rev app]. destruct x; reflexivity.
Qed.

Lemma is_normalized_last l : is_normalized l = true <-> (l = [] \/ last l 0 <> 0).
Proof.
  destruct l as [|a r] using rev_ind.
  - split; [auto|reflexivity].
  - rewrite is_normalized_snoc, last_last. split.
    + intros H. right. lia.
    + intros [H|H]; [destruct r; discriminate|lia].
Qed.

Theorem normalize_list_spec l :
  lval (normalize_list l) = lval l /\
  is_normalized (normalize_list l) = true /\
  (limbs_ok l -> limbs_ok (normalize_list l)) /\
  (length (normalize_list l) <= length l)%nat /\
  (is_normalized l = true -> normalize_list l = l) /\
  (exists k, l = normalize_list l ++ repeat 0 k).
Proof.
  destruct (normalize_list_decomp l) as [k E].
  split; [|split; [apply is_normalized_normalize|split; [|split; [|split; [apply normalize_list_id|]]]]].
  - rewrite E at 2. rewrite lval_app, lval_repeat0. ring.
  - intros H. rewrite E in H. apply limbs_ok_app in H. tauto.
  - rewrite E at 2. rewrite app_length. lia.
  - exists k. exact E.
Qed.

(** a normalized non-empty number with [n] limbs is at least B64^(n-1) *)
Theorem normalized_lower_bound l :
  limbs_ok l -> is_normalized l = true -> l <> [] -> B64 ^ (zlen l - 1) <= lval l.
Proof.
  intros Hl Hn Hne. destruct l as [|a r] using rev_ind; [congruence|].
  rewrite is_normalized_snoc in Hn. apply limbs_ok_app in Hl. destruct Hl as [Hr Ha].
  apply limbs_ok_cons in Ha. destruct Ha as [Ha _].
  rewrite lval_snoc, zlen_app. change (zlen [a]) with 1. replace (zlen r + 1 - 1) with (zlen r) by lia.
  pose proof (lval_nonneg r Hr). pose proof (B64pow_pos' (zlen r) (zlen_nonneg r)). nia.
Qed.

(** a normalized list denoting zero is empty *)
Lemma normalized_zero l : limbs_ok l -> is_normalized l = true -> lval l = 0 -> l = [].
Proof.
  intros Hl Hn Hz. destruct l as [|a r]; [reflexivity|].
  pose proof (normalized_lower_bound (a :: r) Hl Hn ltac:(discriminate)) as H.
  pose proof (B64pow_pos' (zlen (a :: r) - 1)) as P. rewrite zlen_cons in *.
  specialize (P ltac:(pose proof (zlen_nonneg r); lia)). lia.
Qed.

Example normalize_ex :
  normalize_list [1; 0; 2; 0; 0] = [1; 0; 2] /\ is_normalized [1; 0; 2; 0; 0] = false /\
  is_normalized [1; 0; 2] = true /\ normalize_list [0; 0] = [].
Proof. vm_compute. auto. Qed.

(** ** 6. comparison *)
Lemma cmp_be_spec : forall x y,
  length x = length y -> limbs_ok x -> limbs_ok y ->
  cmp_be (rev x) (rev y) = (lval x ?= lval y).
Proof.
  induction x as [|a x IH] using rev_ind; intros y Hlen Hx Hy.
  - destruct y; [reflexivity|discriminate].
  - destruct y as [|b y _] using rev_ind.
    { rewrite app_length in Hlen. cbn [length] in Hlen. lia. }
    rewrite !app_length in Hlen. cbn [length] in Hlen.
    apply limbs_ok_app in Hx. destruct Hx as [Hx Ha]. apply limbs_ok_cons in Ha. destruct Ha as [Ha _].
    apply limbs_ok_app in Hy. destruct Hy as [Hy Hb]. apply limbs_ok_cons in Hb. destruct Hb as [Hb _].
    rewrite !rev_app_distr. cbn [rev app cmp_be].
    rewrite !lval_snoc.
    assert (El : zlen y = zlen x) by (unfold zlen; lia). rewrite El.
    pose proof (lval_nonneg x Hx). pose proof (lval_bound x Hx).
    pose proof (lval_nonneg y Hy). pose proof (lval_bound y Hy). rewrite El in *.
    set (M := B64 ^ zlen x) in *.
    destruct (a ?= b) eqn:E.
    + apply Z.compare_eq in E. subst b. rewrite IH by (auto; lia).
      destruct (lval x ?= lval y) eqn:E2; symmetry.
      * apply Z.compare_eq in E2. apply Z.compare_eq_iff. lia.
      * rewrite Z.compare_lt_iff in *. lia.
      * rewrite Z.compare_gt_iff in *. lia.
    + rewrite Z.compare_lt_iff in E. symmetry. apply Z.compare_lt_iff. nia.
    + rewrite Z.compare_gt_iff in E. symmetry. apply Z.compare_gt_iff. nia.
Qed.

(** complete characterisation, arbitrary operands *)
Theorem vcompare_full x y :
  limbs_ok x -> limbs_ok y ->
  vcompare x y = if zlen x =? zlen y then (lval x ?= lval y) else (zlen x ?= zlen y).
Proof.
  intros Hx Hy. unfold vcompare. destruct (zlen x =? zlen y) eqn:E.
  - assert (E' : zlen x = zlen y) by lia. rewrite E', Z.compare_refl.
    apply cmp_be_spec; auto. unfold zlen in E'. lia.
  - destruct (zlen x ?= zlen y) eqn:E2; try reflexivity.
    apply Z.compare_eq in E2. lia.
Qed.

(** normalized operands: numeric comparison *)
Theorem vcompare_spec x y :
  limbs_ok x -> limbs_ok y -> is_normalized x = true -> is_normalized y = true ->
  vcompare x y = (lval x ?= lval y).
Proof.
  intros Hx Hy Nx Ny. rewrite vcompare_full by assumption.
  destruct (zlen x =? zlen y) eqn:E; [reflexivity|].
  assert (forall a b, limbs_ok a -> limbs_ok b -> is_normalized b = true -> zlen a < zlen b ->
                      lval a < lval b) as Lt.
  { intros a b Ha Hb Nb Hlt. pose proof (lval_bound a Ha).
    assert (b <> []) by (intros ->; rewrite (@zlen_nil Z) in Hlt; pose proof (zlen_nonneg a); lia).
    pose proof (normalized_lower_bound b Hb Nb H0).
    pose proof (B64pow_mono (zlen a) (zlen b - 1) ltac:(pose proof (zlen_nonneg a); lia)). lia. }
  destruct (zlen x ?= zlen y) eqn:E2; symmetry.
  - apply Z.compare_eq in E2. lia.
  - rewrite Z.compare_lt_iff in *. apply Lt; auto.
  - rewrite Z.compare_gt_iff in *. apply Lt; auto.
Qed.

Example vcompare_ex :
  vcompare [5; 1] [7; 1] = Lt /\ vcompare [0; 2] [B64 - 1; 1] = Gt /\
  (* not normalized: the length decides *) vcompare [1; 0] [2] = Gt.
Proof. vm_compute. auto. Qed.

(** ** vectors: the push/extend/resize primitives *)
Lemma grow_ge cap req : cap <= grow cap req /\ req <= grow cap req.
Proof. unfold grow. lia. Qed.

Lemma try_push_Some h v x v' :
  try_push h v x = Some v' ->
  vl v' = vl v ++ [x] /\ (h = false -> vcap v' = vcap v /\ zlen (vl v) < vcap v) /\
  vcap v <= vcap v' /\ (zlen (vl v) <= vcap v -> zlen (vl v') <= vcap v').
Proof.
  unfold try_push, vlen. destruct h.
  - intros H. inversion H; subst v'; clear H. cbn [vl vcap]. rewrite zlen_app. change (zlen [x]) with 1.
    split; [reflexivity|]. split; [discriminate|].
    pose proof (grow_ge (vcap v) (zlen (vl v) + 1)).
    destruct (zlen (vl v) =? vcap v) eqn:E; lia.
  - destruct (zlen (vl v) <? vcap v) eqn:E; [|discriminate].
    intros H. inversion H; subst v'; clear H. cbn [vl vcap]. rewrite zlen_app. change (zlen [x]) with 1.
    repeat split; lia.
Qed.

Lemma try_push_None h v x :
  try_push h v x = None <-> h = false /\ vcap v <= zlen (vl v).
Proof.
  unfold try_push, vlen. destruct h.
  - split; [discriminate|intros [H _]; discriminate].
  - destruct (zlen (vl v) <? vcap v) eqn:E.
    + split; [discriminate|intros [_ H]; lia].
    + split; [intros _; split; [reflexivity|lia]|reflexivity].
Qed.

(** ** 3. small_add_from / small_add / small_mul *)
Lemma firstn_app_exact {A} (l1 l2 : list A) n : length l1 = n -> firstn n (l1 ++ l2) = l1.
Proof.
  intros <-. rewrite firstn_app, Nat.sub_diag, firstn_all. cbn [firstn]. apply app_nil_r.
Qed.

Lemma firstn_le_eq {A} (a b : list A) m n :
  firstn m a = firstn m b -> (n <= m)%nat -> firstn n a = firstn n b.
Proof.
  intros H Hn. rewrite <- (Nat.min_l n m Hn), <- !firstn_firstn, H. reflexivity.
Qed.

Lemma small_add_from_unfold c v y start :
  small_add_from c v y start =
  let n := Z.to_nat start in
  let r := add_carry (skipn n (vl v)) y in
  let v' := vset_list v (firstn n (vl v) ++ fst r) in
  if negb (snd r =? 0) then try_push (alloc c) v' (snd r) else Some v'.
Proof.
  unfold small_add_from. cbv zeta. destruct (add_carry _ y) as [suf carry]. reflexivity.
Qed.

(** the in-place part of `small_add_from`: the updated limbs and the carry out of the top *)
Lemma small_add_from_core v y start :
  limbs_ok (vl v) -> 0 <= y < B64 -> 0 <= start <= zlen (vl v) ->
  let n := Z.to_nat start in
  let r := add_carry (skipn n (vl v)) y in
  let l1 := firstn n (vl v) ++ fst r in
  lval l1 + B64 ^ zlen (vl v) * snd r = lval (vl v) + y * B64 ^ start /\
  limbs_ok l1 /\ length l1 = length (vl v) /\ 0 <= snd r < B64 /\
  firstn n l1 = firstn n (vl v) /\
  lval (vl v) + y * B64 ^ start < B64 * B64 ^ zlen (vl v).
Proof.
  intros Hl Hy Hs n r l1.
  assert (Hn : (n <= length (vl v))%nat) by (unfold zlen in Hs; lia).
  pose proof (add_carry_spec (skipn n (vl v)) y (limbs_ok_skipn n _ Hl) Hy) as S.
  fold r in S. destruct r as [suf carry] eqn:Er. cbn [fst snd] in *.
  destruct S as [E [O [Len [Bc _]]]].
  assert (Lpre : zlen (firstn n (vl v)) = start) by (rewrite zlen_firstn by lia; lia).
  assert (Lsuf : zlen (skipn n (vl v)) = zlen (vl v) - start) by (rewrite zlen_skipn; lia).
  rewrite Lsuf in E.
  assert (Ep : B64 ^ zlen (vl v) = B64 ^ start * B64 ^ (zlen (vl v) - start)).
  { rewrite <- Z.pow_add_r by lia. f_equal. lia. }
  assert (Ev : lval l1 + B64 ^ zlen (vl v) * carry = lval (vl v) + y * B64 ^ start).
  { unfold l1. rewrite lval_app, Lpre. rewrite (lval_split n (vl v)) at 1. rewrite Lpre, Ep.
    replace (lval (firstn n (vl v)) + B64 ^ start * lval suf + B64 ^ start * B64 ^ (zlen (vl v) - start) * carry)
      with (lval (firstn n (vl v)) + B64 ^ start * (lval suf + B64 ^ (zlen (vl v) - start) * carry)) by ring.
    rewrite E. ring. }
  assert (Ol : limbs_ok l1) by (apply limbs_ok_app; split; [apply limbs_ok_firstn; exact Hl|exact O]).
  assert (Ll : length l1 = length (vl v)).
  { unfold l1. rewrite app_length, Len, <- app_length, firstn_skipn. reflexivity. }
  repeat split; try assumption; try lia.
  - unfold l1. apply firstn_app_exact. apply firstn_length_le. exact Hn.
  - pose proof (lval_bound _ Hl). pose proof (B64pow_pos' start ltac:(lia)).
    pose proof (B64pow_mono start (zlen (vl v)) ltac:(lia)). nia.
Qed.

Theorem small_add_from_spec c v y start v' :
  limbs_ok (vl v) -> 0 <= y < B64 -> 0 <= start <= zlen (vl v) ->
  small_add_from c v y start = Some v' ->
  lval (vl v') = lval (vl v) + y * B64 ^ start /\
  limbs_ok (vl v') /\
  firstn (Z.to_nat start) (vl v') = firstn (Z.to_nat start) (vl v) /\
  zlen (vl v') = zlen (vl v) + (if B64 ^ zlen (vl v) <=? lval (vl v) + y * B64 ^ start then 1 else 0) /\
  (alloc c = false -> vcap v' = vcap v) /\
  (zlen (vl v') = zlen (vl v) -> vcap v' = vcap v) /\
  vcap v <= vcap v' /\
  (zlen (vl v) <= vcap v -> zlen (vl v') <= vcap v').
Proof.
  intros Hl Hy Hs. rewrite small_add_from_unfold. cbv zeta.
  pose proof (small_add_from_core v y start Hl Hy Hs) as C. cbv zeta in C.
  set (n := Z.to_nat start) in *. set (r := add_carry (skipn n (vl v)) y) in *.
  set (l1 := firstn n (vl v) ++ fst r) in *.
  destruct C as [E [O [Len [Bc [Fst Bnd]]]]].
  assert (Zl : zlen l1 = zlen (vl v)) by (unfold zlen; lia).
  pose proof (lval_nonneg _ O) as Nn. pose proof (lval_bound _ O) as Bd. rewrite Zl in Bd.
  pose proof (B64pow_pos' (zlen (vl v)) (zlen_nonneg _)) as Pp.
  destruct (snd r =? 0) eqn:Ec; cbn [negb].
  - assert (Ez : snd r = 0) by lia. rewrite Ez in E.
    intros H. inversion H; subst v'; clear H. unfold vset_list. cbn [vl vcap].
    replace (B64 ^ zlen (vl v) <=? lval (vl v) + y * B64 ^ start) with false by lia.
    repeat split; try assumption; try lia.
  - intros H. apply try_push_Some in H. unfold vset_list in H. cbn [vl vcap] in H.
    destruct H as [Hv [Hst [Hcap Hinv]]]. rewrite Hv in Hinv |- *.
    rewrite lval_snoc, limbs_ok_app, zlen_app, Zl in *. change (zlen [snd r]) with 1 in *.
    assert (B64 ^ zlen (vl v) <= lval (vl v) + y * B64 ^ start) by nia.
    replace (B64 ^ zlen (vl v) <=? lval (vl v) + y * B64 ^ start) with true by lia.
    split; [lia|]. split; [split; [exact O|apply limbs_ok_cons; split; [lia|constructor]]|].
    split; [rewrite firstn_app; replace (n - length l1)%nat with 0%nat by (unfold zlen in Hs; lia);
            cbn [firstn]; rewrite app_nil_r; exact Fst|].
    split; [reflexivity|]. split; [intros Hh; apply Hst; exact Hh|]. split; [lia|]. split; [lia|exact Hinv].
Qed.

(** failure: only the stack back-end fails, exactly when the vector is full and a carry leaves
    the top limb *)
Theorem small_add_from_None c v y start :
  limbs_ok (vl v) -> 0 <= y < B64 -> 0 <= start <= zlen (vl v) ->
  (small_add_from c v y start = None <->
   alloc c = false /\ vcap v <= zlen (vl v) /\ B64 ^ zlen (vl v) <= lval (vl v) + y * B64 ^ start).
Proof.
  intros Hl Hy Hs. rewrite small_add_from_unfold. cbv zeta.
  pose proof (small_add_from_core v y start Hl Hy Hs) as C. cbv zeta in C.
  set (n := Z.to_nat start) in *. set (r := add_carry (skipn n (vl v)) y) in *.
  set (l1 := firstn n (vl v) ++ fst r) in *.
  destruct C as [E [O [Len [Bc [Fst Bnd]]]]].
  assert (Zl : zlen l1 = zlen (vl v)) by (unfold zlen; lia).
  pose proof (lval_nonneg _ O) as Nn. pose proof (lval_bound _ O) as Bd. rewrite Zl in Bd.
  pose proof (B64pow_pos' (zlen (vl v)) (zlen_nonneg _)) as Pp.
  destruct (snd r =? 0) eqn:Ec; cbn [negb].
  - assert (Ez : snd r = 0) by lia. rewrite Ez in E. split; [discriminate|]. intros [_ [_ H]]. lia.
  - rewrite try_push_None. unfold vset_list. cbn [vl vcap]. rewrite Zl.
    assert (B64 ^ zlen (vl v) <= lval (vl v) + y * B64 ^ start) by nia. tauto.
Qed.

(** for a vector within its capacity: failure iff the exact sum does not fit in the capacity *)
Corollary small_add_from_None_iff_overflow c v y start :
  limbs_ok (vl v) -> 0 <= y < B64 -> 0 <= start <= zlen (vl v) ->
  alloc c = false -> zlen (vl v) <= vcap v ->
  (small_add_from c v y start = None <-> B64 ^ vcap v <= lval (vl v) + y * B64 ^ start).
Proof.
  intros Hl Hy Hs Ha Hc. rewrite small_add_from_None by assumption.
  pose proof (small_add_from_core v y start Hl Hy Hs) as C. cbv zeta in C.
  destruct C as [_ [_ [_ [_ [_ Bnd]]]]].
  split.
  - intros [_ [H1 H2]]. replace (vcap v) with (zlen (vl v)) by lia. exact H2.
  - intros H. split; [exact Ha|].
    destruct (Z_lt_le_dec (zlen (vl v)) (vcap v)) as [Lt|Ge].
    + pose proof (B64pow_lt (zlen (vl v)) (vcap v) ltac:(pose proof (zlen_nonneg (vl v)); lia)). lia.
    + split; [lia|]. replace (zlen (vl v)) with (vcap v) by lia. exact H.
Qed.

Corollary small_add_from_heap c v y start :
  limbs_ok (vl v) -> 0 <= y < B64 -> 0 <= start <= zlen (vl v) ->
  alloc c = true -> small_add_from c v y start <> None.
Proof.
  intros Hl Hy Hs Ha H. apply small_add_from_None in H; try assumption. destruct H as [H _]. congruence.
Qed.

(** a shorter-than-capacity vector never fails *)
Corollary small_add_from_short c v y start :
  limbs_ok (vl v) -> 0 <= y < B64 -> 0 <= start <= zlen (vl v) ->
  zlen (vl v) < vcap v -> small_add_from c v y start <> None.
Proof.
  intros Hl Hy Hs Ha H. apply small_add_from_None in H; try assumption. lia.
Qed.

(** [small_add] *)
Theorem small_add_spec c v y v' :
  limbs_ok (vl v) -> 0 <= y < B64 ->
  small_add c v y = Some v' ->
  lval (vl v') = lval (vl v) + y /\
  limbs_ok (vl v') /\
  zlen (vl v') = zlen (vl v) + (if B64 ^ zlen (vl v) <=? lval (vl v) + y then 1 else 0) /\
  (alloc c = false -> vcap v' = vcap v) /\
  (zlen (vl v') = zlen (vl v) -> vcap v' = vcap v) /\
  vcap v <= vcap v' /\
  (zlen (vl v) <= vcap v -> zlen (vl v') <= vcap v').
Proof.
  intros Hl Hy H. unfold small_add in H.
  apply small_add_from_spec in H; try assumption; [|pose proof (zlen_nonneg (vl v)); lia].
  rewrite Z.pow_0_r, Z.mul_1_r in H. tauto.
Qed.

Theorem small_add_None c v y :
  limbs_ok (vl v) -> 0 <= y < B64 ->
  (small_add c v y = None <->
   alloc c = false /\ vcap v <= zlen (vl v) /\ B64 ^ zlen (vl v) <= lval (vl v) + y).
Proof.
  intros Hl Hy. unfold small_add.
  rewrite small_add_from_None by (try assumption; pose proof (zlen_nonneg (vl v)); lia).
  rewrite Z.pow_0_r, Z.mul_1_r. tauto.
Qed.

Corollary small_add_None_iff_overflow c v y :
  limbs_ok (vl v) -> 0 <= y < B64 -> alloc c = false -> zlen (vl v) <= vcap v ->
  (small_add c v y = None <-> B64 ^ vcap v <= lval (vl v) + y).
Proof.
  intros Hl Hy Ha Hc. unfold small_add.
  rewrite small_add_from_None_iff_overflow by (try assumption; pose proof (zlen_nonneg (vl v)); lia).
  rewrite Z.pow_0_r, Z.mul_1_r. tauto.
Qed.

(** the state left behind by a failed `small_add`: the sum modulo B64^len *)
Theorem small_add_failed_spec v y :
  limbs_ok (vl v) -> 0 <= y < B64 ->
  lval (vl (small_add_failed v y)) = (lval (vl v) + y) mod B64 ^ zlen (vl v) /\
  limbs_ok (vl (small_add_failed v y)) /\
  length (vl (small_add_failed v y)) = length (vl v) /\
  vcap (small_add_failed v y) = vcap v.
Proof.
  intros Hl Hy. unfold small_add_failed, vset_list. cbn [vl vcap].
  pose proof (add_carry_divmod (vl v) y Hl Hy) as [D _].
  pose proof (add_carry_spec (vl v) y Hl Hy) as S.
  destruct (add_carry (vl v) y) as [l' c']. cbn [fst] in *. tauto.
Qed.

(** [small_mul] *)
Lemma small_mul_unfold c v y :
  small_mul c v y =
  let r := mul_carry (vl v) y 0 in
  let v' := vset_list v (fst r) in
  if negb (snd r =? 0) then try_push (alloc c) v' (snd r) else Some v'.
Proof.
  unfold small_mul. cbv zeta. destruct (mul_carry _ y 0) as [l carry]. reflexivity.
Qed.

Lemma small_mul_core l y :
  limbs_ok l -> 0 <= y < B64 ->
  let r := mul_carry l y 0 in
  lval (fst r) + B64 ^ zlen l * snd r = lval l * y /\
  limbs_ok (fst r) /\ length (fst r) = length l /\ 0 <= snd r < B64 /\
  lval l * y < B64 * B64 ^ zlen l.
Proof.
  intros Hl Hy r. pose proof (mul_carry_spec l y 0 Hl Hy ltac:(split; [lia|reflexivity])) as S.
  fold r in S. destruct r as [l' c']. cbn [fst snd]. rewrite Z.add_0_r in S.
  destruct S as [E [O [Len Bc]]]. repeat split; try assumption; try lia.
  pose proof (lval_bound _ Hl). pose proof (lval_nonneg _ Hl). nia.
Qed.

Theorem small_mul_spec c v y v' :
  limbs_ok (vl v) -> 0 <= y < B64 ->
  small_mul c v y = Some v' ->
  lval (vl v') = lval (vl v) * y /\
  limbs_ok (vl v') /\
  zlen (vl v') = zlen (vl v) + (if B64 ^ zlen (vl v) <=? lval (vl v) * y then 1 else 0) /\
  (alloc c = false -> vcap v' = vcap v) /\
  (zlen (vl v') = zlen (vl v) -> vcap v' = vcap v) /\
  vcap v <= vcap v' /\
  (zlen (vl v) <= vcap v -> zlen (vl v') <= vcap v').
Proof.
  intros Hl Hy. rewrite small_mul_unfold. cbv zeta.
  pose proof (small_mul_core (vl v) y Hl Hy) as C. cbv zeta in C.
  set (r := mul_carry (vl v) y 0) in *.
  destruct C as [E [O [Len [Bc Bnd]]]].
  assert (Zl : zlen (fst r) = zlen (vl v)) by (unfold zlen; lia).
  pose proof (lval_nonneg _ O) as Nn. pose proof (lval_bound _ O) as Bd. rewrite Zl in Bd.
  pose proof (B64pow_pos' (zlen (vl v)) (zlen_nonneg _)) as Pp.
  destruct (snd r =? 0) eqn:Ec; cbn [negb].
  - assert (Ez : snd r = 0) by lia. rewrite Ez in E.
    intros H. inversion H; subst v'; clear H. unfold vset_list. cbn [vl vcap].
    replace (B64 ^ zlen (vl v) <=? lval (vl v) * y) with false by lia.
    repeat split; try assumption; try lia.
  - intros H. apply try_push_Some in H. unfold vset_list in H. cbn [vl vcap] in H.
    destruct H as [Hv [Hst [Hcap Hinv]]]. rewrite Hv in Hinv |- *.
    rewrite lval_snoc, limbs_ok_app, zlen_app, Zl in *. change (zlen [snd r]) with 1 in *.
    assert (B64 ^ zlen (vl v) <= lval (vl v) * y) by nia.
    replace (B64 ^ zlen (vl v) <=? lval (vl v) * y) with true by lia.
    split; [lia|]. split; [split; [exact O|apply limbs_ok_cons; split; [lia|constructor]]|].
    split; [reflexivity|]. split; [intros Hh; apply Hst; exact Hh|]. split; [lia|]. split; [lia|exact Hinv].
Qed.

Theorem small_mul_None c v y :
  limbs_ok (vl v) -> 0 <= y < B64 ->
  (small_mul c v y = None <->
   alloc c = false /\ vcap v <= zlen (vl v) /\ B64 ^ zlen (vl v) <= lval (vl v) * y).
Proof.
  intros Hl Hy. rewrite small_mul_unfold. cbv zeta.
  pose proof (small_mul_core (vl v) y Hl Hy) as C. cbv zeta in C.
  set (r := mul_carry (vl v) y 0) in *.
  destruct C as [E [O [Len [Bc Bnd]]]].
  assert (Zl : zlen (fst r) = zlen (vl v)) by (unfold zlen; lia).
  pose proof (lval_nonneg _ O) as Nn. pose proof (lval_bound _ O) as Bd. rewrite Zl in Bd.
  pose proof (B64pow_pos' (zlen (vl v)) (zlen_nonneg _)) as Pp.
  destruct (snd r =? 0) eqn:Ec; cbn [negb].
  - assert (Ez : snd r = 0) by lia. rewrite Ez in E. split; [discriminate|]. intros [_ [_ H]]. lia.
  - rewrite try_push_None. unfold vset_list. cbn [vl vcap]. rewrite Zl.
    assert (B64 ^ zlen (vl v) <= lval (vl v) * y) by nia. tauto.
Qed.

Corollary small_mul_None_iff_overflow c v y :
  limbs_ok (vl v) -> 0 <= y < B64 -> alloc c = false -> zlen (vl v) <= vcap v ->
  (small_mul c v y = None <-> B64 ^ vcap v <= lval (vl v) * y).
Proof.
  intros Hl Hy Ha Hc. rewrite small_mul_None by assumption.
  pose proof (small_mul_core (vl v) y Hl Hy) as C. cbv zeta in C.
  destruct C as [_ [_ [_ [_ Bnd]]]].
  split.
  - intros [_ [H1 H2]]. replace (vcap v) with (zlen (vl v)) by lia. exact H2.
  - intros H. split; [exact Ha|].
    destruct (Z_lt_le_dec (zlen (vl v)) (vcap v)) as [Lt|Ge].
    + pose proof (B64pow_lt (zlen (vl v)) (vcap v) ltac:(pose proof (zlen_nonneg (vl v)); lia)). lia.
    + split; [lia|]. replace (zlen (vl v)) with (vcap v) by lia. exact H.
Qed.

Corollary small_mul_heap c v y :
  limbs_ok (vl v) -> 0 <= y < B64 -> alloc c = true -> small_mul c v y <> None.
Proof.
  intros Hl Hy Ha H. apply small_mul_None in H; try assumption. destruct H as [H _]. congruence.
Qed.

Corollary small_mul_short c v y :
  limbs_ok (vl v) -> 0 <= y < B64 -> zlen (vl v) < vcap v -> small_mul c v y <> None.
Proof.
  intros Hl Hy Ha H. apply small_mul_None in H; try assumption. lia.
Qed.

Theorem small_mul_failed_spec v y :
  limbs_ok (vl v) -> 0 <= y < B64 ->
  lval (vl (small_mul_failed v y)) = (lval (vl v) * y) mod B64 ^ zlen (vl v) /\
  limbs_ok (vl (small_mul_failed v y)) /\
  length (vl (small_mul_failed v y)) = length (vl v) /\
  vcap (small_mul_failed v y) = vcap v.
Proof.
  intros Hl Hy. unfold small_mul_failed, vset_list. cbn [vl vcap].
  pose proof (mul_carry_divmod (vl v) y 0 Hl Hy ltac:(split; [lia|reflexivity])) as [D _].
  rewrite Z.add_0_r in D.
  pose proof (mul_carry_spec (vl v) y 0 Hl Hy ltac:(split; [lia|reflexivity])) as S.
  destruct (mul_carry (vl v) y 0) as [l' c']. cbn [fst] in *. tauto.
Qed.

(** examples: stack back-end (CFG_s), capacity 62 *)
Definition full_ones : vec := mkVec (repeat (B64 - 1) 62) (BIGINT_LIMBS LIMITS).

Example small_add_full_fails :
  alloc CFG_s = false /\ zlen (vl full_ones) = vcap full_ones /\
  small_add CFG_s full_ones 1 = None /\
  vl (small_add_failed full_ones 1) = repeat 0 62 /\
  small_mul CFG_s full_ones 2 = None /\
  vl (small_mul_failed full_ones 2) = (B64 - 2) :: repeat (B64 - 1) 61 /\
  (* the heap back-end grows instead *)
  option_map (fun v => (zlen (vl v), vcap v)) (small_add CFG_sa full_ones 1) = Some (63, 124).
Proof. vm_compute. repeat split; reflexivity. Qed.

Example small_ops_ex :
  small_add CFG_s (mkVec [B64 - 1; B64 - 1] 62) 1 = Some (mkVec [0; 0; 1] 62) /\
  small_add_from CFG_s (mkVec [7; B64 - 1; 3] 62) 5 1 = Some (mkVec [7; 4; 4] 62) /\
  small_mul CFG_s (mkVec [B64 - 1; B64 - 1] 62) (B64 - 1) = Some (mkVec [1; B64 - 1; B64 - 2] 62) /\
  (* a full vector fails only if a carry leaves the top *)
  small_mul CFG_s (mkVec [B64 - 1; 1] 2) 2 = Some (mkVec [B64 - 2; 3] 2) /\
  small_mul CFG_s (mkVec [B64 - 1; 1] 2) (B64 - 1) = None.
Proof. vm_compute. repeat split; reflexivity. Qed.

(** ** 4. large_add_from / large_add *)
Theorem add_lists_spec : forall y x carry,
  limbs_ok x -> limbs_ok y -> (length y <= length x)%nat ->
  let '(x', cf) := add_lists x y carry in
  lval x' + B64 ^ zlen y * b2z cf = lval x + lval y + b2z carry /\
  limbs_ok x' /\ length x' = length x /\ skipn (length y) x' = skipn (length y) x.
Proof.
  induction y as [|yi y IH]; intros x carry Hx Hy Hlen.
  - destruct x; cbn [add_lists]; rewrite (@zlen_nil Z), Z.pow_0_r; cbn [lval length skipn]; repeat split; try assumption; try reflexivity; lia.
  - destruct x as [|xi x]; [cbn [length] in Hlen; lia|]. cbn [add_lists].
    apply limbs_ok_cons in Hx. destruct Hx as [Hxi Hx].
    apply limbs_ok_cons in Hy. destruct Hy as [Hyi Hy].
    cbn [length] in Hlen.
    pose proof (scalar_add_spec xi yi Hxi Hyi) as S1.
    destruct (scalar_add xi yi) as [s c1]. destruct S1 as [Hs [E1 I1]].
    assert (S2 : let '(s', c2) := (if carry then scalar_add s 1 else (s, false)) in
                 0 <= s' < B64 /\ s' + B64 * b2z (c1 || c2) = xi + yi + b2z carry).
    { destruct carry; cbn [b2z].
      - pose proof (scalar_add_spec s 1 Hs ltac:(split; [lia|reflexivity])) as S2.
        destruct (scalar_add s 1) as [s' c2]. destruct S2 as [Hs' [E2 I2]].
        split; [exact Hs'|]. destruct c1, c2; cbn [orb b2z] in *; lia.
      - split; [exact Hs|]. rewrite orb_false_r. lia. }
    destruct (if carry then scalar_add s 1 else (s, false)) as [s' c2].
    destruct S2 as [Hs' E2].
    specialize (IH x (c1 || c2) Hx Hy ltac:(lia)).
    destruct (add_lists x y (c1 || c2)) as [r cf]. destruct IH as [E [O [Len Sk]]].
    rewrite zlen_cons, B64pow_succ by apply zlen_nonneg. cbn [lval length skipn].
    split; [|split; [apply limbs_ok_cons; auto|split; [lia|exact Sk]]].
    replace (s' + B64 * lval r + B64 * B64 ^ zlen y * b2z cf)
      with (s' + B64 * (lval r + B64 ^ zlen y * b2z cf)) by ring.
    rewrite E. lia.
Qed.

Lemma add_lists_nil x carry : add_lists x [] carry = (x, carry).
Proof. destruct x; reflexivity. Qed.

Example add_lists_ex :
  add_lists [B64 - 1; B64 - 1; 4; 9] [1; B64 - 1] false = ([0; B64 - 1; 4; 9], true) /\
  add_lists [B64 - 1; 0; 4] [B64 - 1; B64 - 1] true = ([B64 - 1; 0; 4], true).
Proof. vm_compute. auto. Qed.

(** length of the vector after the (possible) resize of `large_add_from` *)
Definition large_add_len (v : vec) (y : list Z) (start : Z) : Z :=
  if usize_saturating_sub (zlen (vl v)) start <? zlen y then zlen y + start else zlen (vl v).

Lemma large_add_len_nonempty v y start :
  y <> [] -> 0 <= start -> large_add_len v y start = Z.max (zlen (vl v)) (zlen y + start).
Proof.
  intros Hy Hs. unfold large_add_len, usize_saturating_sub.
  assert (0 < zlen y) by (destruct y; [congruence|rewrite zlen_cons; pose proof (zlen_nonneg y); lia]).
  destruct (_ <? _) eqn:E; lia.
Qed.

Lemma large_add_len_empty v start : large_add_len v [] start = zlen (vl v).
Proof. unfold large_add_len, usize_saturating_sub. rewrite (@zlen_nil Z). destruct (_ <? _) eqn:E; lia. Qed.

Lemma large_add_len_ge v y start : zlen (vl v) <= large_add_len v y start.
Proof. unfold large_add_len, usize_saturating_sub. destruct (_ <? _) eqn:E; lia. Qed.

Lemma resize_list_grow l len x : zlen l <= len -> resize_list l len x = l ++ repeat x (Z.to_nat (len - zlen l)).
Proof.
  intros H. unfold resize_list. destruct (zlen l <? len) eqn:E; [reflexivity|].
  assert (len = zlen l) by lia. subst len. rewrite Z.sub_diag. cbn [Z.to_nat repeat].
  unfold zlen. rewrite Nat2Z.id, firstn_all, app_nil_r. reflexivity.
Qed.

Lemma large_add_prep_Some h v y start v1 :
  0 <= start ->
  (if usize_saturating_sub (vlen v) start <? zlen y then try_resize h v (zlen y + start) 0 else Some v) = Some v1 ->
  (exists k, vl v1 = vl v ++ repeat 0 k) /\
  zlen (vl v1) = large_add_len v y start /\
  zlen y <= zlen (skipn (Z.to_nat start) (vl v1)) /\
  (h = false -> vcap v1 = vcap v) /\ vcap v <= vcap v1 /\
  (zlen (vl v1) = zlen (vl v) -> vcap v1 = vcap v) /\
  (zlen (vl v) <= vcap v -> zlen (vl v1) <= vcap v1).
Proof.
  intros Hs. unfold large_add_len, vlen, usize_saturating_sub.
  pose proof (zlen_nonneg (vl v)) as Hl. pose proof (zlen_nonneg y) as Hy.
  destruct (Z.max 0 (zlen (vl v) - start) <? zlen y) eqn:E.
  - unfold try_resize, vlen. rewrite resize_list_grow by lia.
    set (k := Z.to_nat (zlen y + start - zlen (vl v))).
    assert (Hk : Z.of_nat k = zlen y + start - zlen (vl v)) by lia.
    assert (forall cap, let w := mkVec (vl v ++ repeat 0 k) cap in
            (exists k, vl w = vl v ++ repeat 0 k) /\ zlen (vl w) = zlen y + start /\
            zlen y <= zlen (skipn (Z.to_nat start) (vl w))) as P.
    { intros cap w. unfold w. cbn [vl]. split; [exists k; reflexivity|].
      assert (zlen (vl v ++ repeat 0 k) = zlen y + start) by (rewrite zlen_app, zlen_repeat; lia).
      split; [assumption|]. rewrite zlen_skipn. unfold zlen in *. lia. }
    destruct h.
    + intros H. inversion H; subst v1; clear H. specialize (P (if (zlen (vl v) <? zlen y + start) && (vcap v - zlen (vl v) <? zlen y + start - zlen (vl v))
             then grow (vcap v) (zlen y + start) else vcap v)). cbv zeta in P.
      destruct P as [P1 [P2 P3]]. split; [exact P1|]. split; [exact P2|]. split; [exact P3|].
      cbn [vcap] in *. pose proof (grow_ge (vcap v) (zlen y + start)).
      split; [discriminate|]. rewrite P2.
      destruct ((zlen (vl v) <? zlen y + start) && (vcap v - zlen (vl v) <? zlen y + start - zlen (vl v))) eqn:E2; lia.
    + destruct (vcap v <? zlen y + start) eqn:E2; [discriminate|].
      intros H. inversion H; subst v1; clear H. specialize (P (vcap v)). cbv zeta in P.
      destruct P as [P1 [P2 P3]]. split; [exact P1|]. split; [exact P2|]. split; [exact P3|].
      cbn [vcap] in *. rewrite P2. repeat split; lia.
  - intros H. inversion H; subst v1; clear H.
    split; [exists 0%nat; cbn [repeat]; rewrite app_nil_r; reflexivity|]. split; [reflexivity|].
    split; [rewrite zlen_skipn; unfold zlen in *; lia|]. repeat split; lia.
Qed.

Lemma large_add_prep_None h v (y : list Z) start :
  0 <= start ->
  ((if usize_saturating_sub (vlen v) start <? zlen y then try_resize h v (zlen y + start) 0 else Some v) = None <->
   h = false /\ zlen (vl v) < zlen y + start /\ y <> [] /\ vcap v < zlen y + start).
Proof.
  intros Hs. unfold vlen, usize_saturating_sub.
  pose proof (zlen_nonneg (vl v)) as Hl. pose proof (zlen_nonneg y) as Hy.
  destruct (Z.max 0 (zlen (vl v) - start) <? zlen y) eqn:E.
  - unfold try_resize. destruct h.
    + split; [discriminate|intros [H _]; discriminate].
    + destruct (vcap v <? zlen y + start) eqn:E2.
      * split; [intros _|reflexivity]. repeat split; try lia. intros ->. rewrite (@zlen_nil Z) in E. lia.
      * split; [discriminate|]. lia.
  - split; [discriminate|]. intros [_ [H1 [H2 _]]].
    assert (0 < zlen y) by (destruct y; [congruence|rewrite zlen_cons; pose proof (zlen_nonneg y); lia]). lia.
Qed.

Lemma large_add_from_unfold c v y start :
  large_add_from c v y start =
  match (if usize_saturating_sub (vlen v) start <? zlen y
         then try_resize (alloc c) v (zlen y + start) 0 else Some v) with
  | None => None
  | Some v1 =>
      let n := Z.to_nat start in
      let r := add_lists (skipn n (vl v1)) y false in
      let v2 := vset_list v1 (firstn n (vl v1) ++ fst r) in
      if snd r then small_add_from c v2 1 (zlen y + start) else Some v2
  end.
Proof.
  unfold large_add_from. cbv zeta. destruct (if _ <? _ then _ else _) as [v1|]; [|reflexivity].
  destruct (add_lists _ y false) as [suf carry]. reflexivity.
Qed.

(** the loop of `large_add_from` on the resized vector *)
Lemma large_add_core l1 y start :
  limbs_ok l1 -> limbs_ok y -> 0 <= start ->
  zlen y <= zlen (skipn (Z.to_nat start) l1) ->
  let n := Z.to_nat start in
  let r := add_lists (skipn n l1) y false in
  let l2 := firstn n l1 ++ fst r in
  lval l2 + B64 ^ (zlen y + start) * b2z (snd r) = lval l1 + lval y * B64 ^ start /\
  limbs_ok l2 /\ length l2 = length l1 /\ firstn n l2 = firstn n l1 /\
  (y <> [] -> zlen y + start <= zlen l1).
Proof.
  intros Hl Hy Hs Hlen n r l2.
  pose proof (add_lists_spec y (skipn n l1) false (limbs_ok_skipn n _ Hl) Hy
                ltac:(unfold zlen in Hlen; unfold n; lia)) as S.
  fold r in S. destruct r as [suf cf] eqn:Er. cbn [fst snd] in *.
  destruct S as [E [O [Len Sk]]]. cbn [b2z] in E. rewrite Z.add_0_r in E.
  assert (Ol : limbs_ok l2) by (apply limbs_ok_app; split; [apply limbs_ok_firstn; exact Hl|exact O]).
  assert (Ll : length l2 = length l1).
  { unfold l2. rewrite app_length, Len, <- app_length, firstn_skipn. reflexivity. }
  assert (Fl : firstn n l2 = firstn n l1).
  { unfold l2. destruct (Nat.le_gt_cases n (length l1)) as [Hn|Hn].
    - apply firstn_app_exact. apply firstn_length_le. exact Hn.
    - assert (suf = []) as ->.
      { apply length_zero_iff_nil. rewrite Len, skipn_length. lia. }
      rewrite app_nil_r, firstn_firstn, Nat.min_id.
      reflexivity. }
  destruct y as [|y0 y'].
  - (* nothing is added *)
    unfold r in Er. rewrite add_lists_nil in Er. injection Er as <- <-. cbn [b2z lval].
    unfold l2. rewrite firstn_skipn. repeat split; try assumption; try lia. congruence.
  - assert (Hst : zlen (y0 :: y') + start <= zlen l1).
    { rewrite zlen_skipn in Hlen. rewrite zlen_cons in *. pose proof (zlen_nonneg y'). unfold zlen in *. lia. }
    assert (Lpre : zlen (firstn n l1) = start) by (rewrite zlen_firstn by (unfold zlen in Hst; pose proof (zlen_nonneg (y0 :: y')); unfold zlen in *; lia); lia).
    split; [|repeat split; try assumption; try lia].
    unfold l2. rewrite lval_app, Lpre. rewrite (lval_split n l1) at 1. rewrite Lpre.
    rewrite Z.pow_add_r by (try lia; apply zlen_nonneg).
    replace (lval (firstn n l1) + B64 ^ start * lval suf + B64 ^ zlen (y0 :: y') * B64 ^ start * b2z cf)
      with (lval (firstn n l1) + B64 ^ start * (lval suf + B64 ^ zlen (y0 :: y') * b2z cf)) by ring.
    rewrite E. ring.
Qed.

Theorem large_add_from_spec c v y start v' :
  limbs_ok (vl v) -> limbs_ok y -> 0 <= start ->
  large_add_from c v y start = Some v' ->
  let M := large_add_len v y start in
  lval (vl v') = lval (vl v) + lval y * B64 ^ start /\
  limbs_ok (vl v') /\
  (start <= zlen (vl v) -> firstn (Z.to_nat start) (vl v') = firstn (Z.to_nat start) (vl v)) /\
  zlen (vl v') = M + (if B64 ^ M <=? lval (vl v) + lval y * B64 ^ start then 1 else 0) /\
  (alloc c = false -> vcap v' = vcap v) /\
  (zlen (vl v') = zlen (vl v) -> vcap v' = vcap v) /\
  vcap v <= vcap v' /\
  (zlen (vl v) <= vcap v -> zlen (vl v') <= vcap v').
Proof.
  intros Hl Hy Hs. rewrite large_add_from_unfold.
  destruct (if usize_saturating_sub (vlen v) start <? zlen y then _ else _) as [v1|] eqn:Ep; [|discriminate].
  apply large_add_prep_Some in Ep; [|exact Hs].
  destruct Ep as [[k Ek] [EM [Hlen [Hst [Hcap [Hcap2 Hinv]]]]]].
  assert (Ol1 : limbs_ok (vl v1)) by (rewrite Ek; apply limbs_ok_app; split; [exact Hl|apply limbs_ok_repeat0]).
  assert (Ev1 : lval (vl v1) = lval (vl v)) by (rewrite Ek, lval_app, lval_repeat0; ring).
  pose proof (large_add_core (vl v1) y start Ol1 Hy Hs Hlen) as C. cbv zeta in C |- *.
  set (n := Z.to_nat start) in *. set (r := add_lists (skipn n (vl v1)) y false) in *.
  set (l2 := firstn n (vl v1) ++ fst r) in *.
  destruct C as [E [O [Len [Fst Hys]]]].
  assert (Zl : zlen l2 = large_add_len v y start) by (rewrite <- EM; unfold zlen; lia).
  rewrite Ev1 in E. set (M := large_add_len v y start) in *.
  pose proof (lval_nonneg _ O) as Nn. pose proof (lval_bound _ O) as Bd. rewrite Zl in Bd.
  assert (Fst' : start <= zlen (vl v) -> firstn n l2 = firstn n (vl v)).
  { intros Hle. rewrite Fst, Ek. rewrite firstn_app.
    replace (n - length (vl v))%nat with 0%nat by (unfold zlen in Hle; lia). cbn [firstn]. apply app_nil_r. }
  destruct (snd r) eqn:Ec.
  - (* carry out of the loop *)
    cbn [b2z] in E. intros H.
    assert (Hy0 : y <> []).
    { intros ->. unfold r in Ec. rewrite add_lists_nil in Ec. discriminate. }
    specialize (Hys Hy0).
    apply small_add_from_spec in H; unfold vset_list; cbn [vl vcap];
      [|exact O|split; [lia|reflexivity]|pose proof (zlen_nonneg y); rewrite Zl, <- EM; lia].
    unfold vset_list in H. cbn [vl vcap] in H. rewrite Zl in H.
    destruct H as [Hv [Ov [Hf [Hz [Hc1 [Hc2 [Hc3 Hc4]]]]]]].
    assert (Ex : lval l2 + 1 * B64 ^ (zlen y + start) = lval (vl v) + lval y * B64 ^ start) by lia.
    rewrite Ex in *.
    split; [exact Hv|]. split; [exact Ov|].
    split.
    { intros Hle. rewrite <- (Fst' Hle).
      apply (firstn_le_eq _ _ _ _ Hf). unfold n. pose proof (zlen_nonneg y) as Hy1. clear - Hy1 Hs. lia. }
    split; [exact Hz|]. split; [intros Ha; rewrite Hc1, Hst by exact Ha; reflexivity|].
    pose proof (large_add_len_ge v y start) as HM. fold M in HM.
    split.
    { intros Hzz.
      assert (zlen (vl v') = M /\ zlen (vl v1) = zlen (vl v)) as [Z1 Z2].
      { clear - Hzz Hz HM EM. destruct (B64 ^ M <=? lval (vl v) + lval y * B64 ^ start); lia. }
      rewrite Hc2, Hcap2 by assumption. reflexivity. }
    split; [clear - Hcap Hc3; lia|]. intros Hi. apply Hc4. rewrite <- EM. apply Hinv. exact Hi.
  - cbn [b2z] in E. rewrite Z.mul_0_r, Z.add_0_r in E.
    intros H. inversion H; subst v'; clear H. unfold vset_list. cbn [vl vcap].
    rewrite <- E. replace (B64 ^ M <=? lval l2) with false by lia.
    split; [reflexivity|]. split; [exact O|]. split; [exact Fst'|]. split; [lia|].
    split; [exact Hst|]. split; [intros Hz; apply Hcap2; lia|]. split; [exact Hcap|].
    intros Hi. rewrite Zl, <- EM. apply Hinv. exact Hi.
Qed.

(** the exact sum is below B64^(M+1): at most one limb is appended *)
Lemma large_add_bound v y start :
  limbs_ok (vl v) -> limbs_ok y -> 0 <= start ->
  lval (vl v) + lval y * B64 ^ start < B64 * B64 ^ large_add_len v y start.
Proof.
  intros Hl Hy Hs. pose proof (lval_bound _ Hl) as B1. pose proof (lval_bound _ Hy) as B2.
  pose proof (lval_nonneg _ Hl). pose proof (lval_nonneg _ Hy).
  pose proof (zlen_nonneg (vl v)). pose proof (zlen_nonneg y).
  destruct y as [|y0 y'].
  - rewrite large_add_len_empty. cbn [lval]. pose proof B64_gt1. nia.
  - rewrite large_add_len_nonempty by (congruence || lia).
    set (M := Z.max (zlen (vl v)) (zlen (y0 :: y') + start)).
    pose proof (B64pow_mono (zlen (vl v)) M ltac:(lia)).
    pose proof (B64pow_mono (zlen (y0 :: y') + start) M ltac:(lia)).
    rewrite Z.pow_add_r in * by lia.
    pose proof (B64pow_pos' start Hs). pose proof (B64pow_pos' M ltac:(lia)).
    assert (lval (y0 :: y') * B64 ^ start <= (B64 ^ zlen (y0 :: y') - 1) * B64 ^ start)
      by (apply Z.mul_le_mono_nonneg_r; lia).
    pose proof B64_gt1. nia.
Qed.

(** failure of the stack back-end *)
Theorem large_add_from_None c v y start :
  limbs_ok (vl v) -> limbs_ok y -> 0 <= start ->
  alloc c = false -> zlen (vl v) <= vcap v ->
  (large_add_from c v y start = None <->
   (y <> [] /\ vcap v < zlen y + start) \/ B64 ^ vcap v <= lval (vl v) + lval y * B64 ^ start).
Proof.
  intros Hl Hy Hs Ha Hcv. rewrite large_add_from_unfold. rewrite Ha.
  pose proof (large_add_bound v y start Hl Hy Hs) as Bnd.
  destruct (if usize_saturating_sub (vlen v) start <? zlen y then _ else _) as [v1|] eqn:Ep.
  - pose proof Ep as Ep'.
    apply large_add_prep_Some in Ep; [|exact Hs].
    destruct Ep as [[k Ek] [EM [Hlen [Hst [Hcap [Hcap2 Hinv]]]]]].
    specialize (Hst eq_refl). specialize (Hinv Hcv).
    assert (Hnr : ~ (y <> [] /\ vcap v < zlen y + start)).
    { intros [Hy0 Hlt]. rewrite large_add_len_nonempty in EM by assumption. lia. }
    assert (Ol1 : limbs_ok (vl v1)) by (rewrite Ek; apply limbs_ok_app; split; [exact Hl|apply limbs_ok_repeat0]).
    assert (Ev1 : lval (vl v1) = lval (vl v)) by (rewrite Ek, lval_app, lval_repeat0; ring).
    pose proof (large_add_core (vl v1) y start Ol1 Hy Hs Hlen) as C. cbv zeta in C |- *.
    set (n := Z.to_nat start) in *. set (r := add_lists (skipn n (vl v1)) y false) in *.
    set (l2 := firstn n (vl v1) ++ fst r) in *.
    destruct C as [E [O [Len [Fst Hys]]]].
    assert (Zl : zlen l2 = zlen (vl v1)) by (unfold zlen; lia).
    rewrite Ev1 in E.
    pose proof (lval_nonneg _ O) as Nn. pose proof (lval_bound _ O) as Bd. rewrite Zl in Bd.
    assert (Mono : B64 ^ zlen (vl v1) <= B64 ^ vcap v).
    { apply B64pow_mono. pose proof (zlen_nonneg (vl v1)) as Z0. clear - Z0 Hinv Hst. lia. }
    destruct (snd r) eqn:Ec.
    + assert (Hy0 : y <> []).
      { intros ->. unfold r in Ec. rewrite add_lists_nil in Ec. discriminate. }
      specialize (Hys Hy0). cbn [b2z] in E.
      rewrite small_add_from_None_iff_overflow; unfold vset_list; cbn [vl vcap];
        [|exact O|split; [lia|reflexivity]|pose proof (zlen_nonneg y); rewrite Zl; clear - Hys Hs H; lia
         |exact Ha|rewrite Zl, Hst in *; exact Hinv].
      rewrite Hst.
      replace (lval l2 + 1 * B64 ^ (zlen y + start)) with (lval (vl v) + lval y * B64 ^ start)
        by (clear - E; lia).
      tauto.
    + cbn [b2z] in E. rewrite Z.mul_0_r, Z.add_0_r in E. rewrite <- E.
      split; [discriminate|]. intros [Hc|Hc]; [tauto|]. clear - Hc Bd Mono Hst. lia.
  - split; [intros _|reflexivity]. apply large_add_prep_None in Ep; [|exact Hs].
    left. tauto.
Qed.

(** for a normalized non-empty [y] this is exactly: the sum does not fit in the capacity *)
Corollary large_add_from_None_iff_overflow c v y start :
  limbs_ok (vl v) -> limbs_ok y -> 0 <= start ->
  alloc c = false -> zlen (vl v) <= vcap v -> is_normalized y = true ->
  (large_add_from c v y start = None <-> B64 ^ vcap v <= lval (vl v) + lval y * B64 ^ start).
Proof.
  intros Hl Hy Hs Ha Hcv Hn. rewrite large_add_from_None by assumption.
  split; [|auto]. intros [[Hy0 Hlt]|H]; [|exact H].
  pose proof (normalized_lower_bound y Hy Hn Hy0) as Lb.
  pose proof (lval_nonneg _ Hl).
  assert (0 < zlen y) by (destruct y; [congruence|rewrite zlen_cons; pose proof (zlen_nonneg y); lia]).
  pose proof (zlen_nonneg (vl v)).
  pose proof (B64pow_mono (vcap v) (zlen y - 1 + start) ltac:(lia)) as Mono.
  rewrite Z.pow_add_r in Mono by lia.
  pose proof (B64pow_pos' start Hs). nia.
Qed.

Corollary large_add_from_heap c v y start :
  0 <= start -> alloc c = true -> large_add_from c v y start <> None.
Proof.
  intros Hs Ha. rewrite large_add_from_unfold. rewrite Ha.
  destruct (if usize_saturating_sub (vlen v) start <? zlen y then _ else _) as [v1|] eqn:Ep.
  - cbv zeta. destruct (snd _); [|discriminate].
    rewrite small_add_from_unfold. cbv zeta. rewrite Ha.
    destruct (negb _); [|discriminate]. unfold try_push. discriminate.
  - apply large_add_prep_None in Ep; [|exact Hs]. destruct Ep as [Ep _]. discriminate.
Qed.

(** [large_add] *)
Theorem large_add_spec c v y v' :
  limbs_ok (vl v) -> limbs_ok y ->
  large_add c v y = Some v' ->
  let M := Z.max (zlen (vl v)) (zlen y) in
  lval (vl v') = lval (vl v) + lval y /\
  limbs_ok (vl v') /\
  zlen (vl v') = M + (if B64 ^ M <=? lval (vl v) + lval y then 1 else 0) /\
  (alloc c = false -> vcap v' = vcap v) /\
  (zlen (vl v') = zlen (vl v) -> vcap v' = vcap v) /\
  vcap v <= vcap v' /\
  (zlen (vl v) <= vcap v -> zlen (vl v') <= vcap v').
Proof.
  intros Hl Hy H. unfold large_add in H.
  apply large_add_from_spec in H; try assumption; [|lia]. cbv zeta in H.
  rewrite Z.pow_0_r, Z.mul_1_r in H.
  assert (EM : large_add_len v y 0 = Z.max (zlen (vl v)) (zlen y)).
  { destruct y as [|y0 y'].
    - rewrite large_add_len_empty, (@zlen_nil Z). pose proof (zlen_nonneg (vl v)). lia.
    - rewrite large_add_len_nonempty by (congruence || lia). rewrite Z.add_0_r. reflexivity. }
  rewrite EM in H. cbv zeta. tauto.
Qed.

Theorem large_add_None c v y :
  limbs_ok (vl v) -> limbs_ok y -> alloc c = false -> zlen (vl v) <= vcap v ->
  (large_add c v y = None <->
   vcap v < zlen y \/ B64 ^ vcap v <= lval (vl v) + lval y).
Proof.
  intros Hl Hy Ha Hcv. unfold large_add. rewrite large_add_from_None by (try assumption; lia).
  rewrite Z.pow_0_r, Z.mul_1_r, Z.add_0_r.
  assert (vcap v < zlen y -> y <> []).
  { intros Hlt ->. rewrite (@zlen_nil Z) in Hlt. pose proof (zlen_nonneg (vl v)). lia. }
  tauto.
Qed.

Example large_add_ex :
  large_add_from CFG_s (mkVec [1; 2] 62) [B64 - 1; B64 - 1] 1 = Some (mkVec [1; 1; 0; 1] 62) /\
  large_add_from CFG_s (mkVec [1] 62) [5] 3 = Some (mkVec [1; 0; 0; 5] 62) /\
  large_add CFG_s (mkVec [B64 - 1; B64 - 1] 2) [1] = None /\
  (* an un-normalized y fails although the sum would fit *)
  large_add CFG_s (mkVec [1; 1] 2) [1; 0; 0] = None /\
  large_add CFG_s (mkVec [1; 1] 3) [1; 0; 0] = Some (mkVec [2; 1; 0] 3).
Proof. vm_compute. repeat split; reflexivity. Qed.
