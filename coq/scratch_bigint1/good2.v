(** * BigintFacts1: the big-integer operations of model/Bigint.v compute the corresponding
    operation on natural numbers, and (stack back-end) fail exactly when the result does not fit. *)
From Coq Require Import ZArith List Bool Lia Znumtheory.
From Coq Require Import ZifyBool.
From ML Require Import base.RustSem model.Fmt model.Vec model.Number model.Bigint proofs.LimbVal.
Import ListNotations.
Open Scope Z_scope.
Local Opaque Z.pow.
Arguments Z.pow : simpl never.

(** ** generalities *)
Definition b2z (b : bool) : Z := if b then 1 else 0.

Lemma B64_gt1 : 1 < B64. Proof. reflexivity. Qed.

Lemma B64pow_pos n : 0 < B64 ^ n \/ n < 0.
Proof. destruct (Z_lt_le_dec n 0); [right; lia|left; apply Z.pow_pos_nonneg; [reflexivity|lia]]. Qed.

Lemma B64pow_pos' n : 0 <= n -> 0 < B64 ^ n.
Proof. intros; apply Z.pow_pos_nonneg; [reflexivity|lia]. Qed.

Lemma B64pow_ge1 n : 0 <= n -> 1 <= B64 ^ n.
Proof. intros H. pose proof (B64pow_pos' n H). lia. Qed.

Lemma B64pow_succ n : 0 <= n -> B64 ^ (n + 1) = B64 * B64 ^ n.
Proof. intros. rewrite Z.pow_add_r by lia. rewrite Z.pow_1_r. ring. Qed.

Lemma B64pow_mono a b : 0 <= a <= b -> B64 ^ a <= B64 ^ b.
Proof. intros. apply Z.pow_le_mono_r; [reflexivity|lia]. Qed.

Lemma B64pow_lt a b : 0 <= a < b -> B64 * B64 ^ a <= B64 ^ b.
Proof.
  intros. rewrite <- B64pow_succ by lia. apply B64pow_mono. lia.
Qed.

Lemma zlen_nonneg {A} (l : list A) : 0 <= zlen l.
Proof. unfold zlen. lia. Qed.

Lemma zlen_nil {A} : zlen (@nil A) = 0. Proof. reflexivity. Qed.

Lemma zlen_cons {A} (x : A) l : zlen (x :: l) = zlen l + 1.
Proof. unfold zlen. cbn [length]. lia. Qed.

Lemma zlen_app {A} (l1 l2 : list A) : zlen (l1 ++ l2) = zlen l1 + zlen l2.
Proof. unfold zlen. rewrite app_length. lia. Qed.

Lemma zlen_0_nil {A} (l : list A) : zlen l = 0 -> l = [].
Proof. destruct l; [reflexivity|rewrite zlen_cons; pose proof (zlen_nonneg l); lia]. Qed.

Lemma zlen_repeat {A} (x : A) n : zlen (repeat x n) = Z.of_nat n.
Proof. unfold zlen. rewrite repeat_length. reflexivity. Qed.

Lemma zlen_firstn {A} (l : list A) n : (n <= length l)%nat -> zlen (firstn n l) = Z.of_nat n.
Proof. intros. unfold zlen. rewrite firstn_length_le by lia. reflexivity. Qed.

Lemma zlen_skipn {A} (l : list A) n : zlen (skipn n l) = zlen l - Z.of_nat (Nat.min n (length l)).
Proof. unfold zlen. rewrite skipn_length. lia. Qed.

Lemma limbs_ok_nil : limbs_ok []. Proof. constructor. Qed.

Lemma limbs_ok_cons x l : limbs_ok (x :: l) <-> 0 <= x < B64 /\ limbs_ok l.
Proof. unfold limbs_ok. split; [intros H; inversion H; auto|intros [H1 H2]; constructor; auto]. Qed.

Lemma limbs_ok_app l1 l2 : limbs_ok (l1 ++ l2) <-> limbs_ok l1 /\ limbs_ok l2.
Proof. unfold limbs_ok. apply Forall_app. Qed.

Lemma limbs_ok_firstn n l : limbs_ok l -> limbs_ok (firstn n l).
Proof.
  intros H. rewrite <- (firstn_skipn n l) in H. apply limbs_ok_app in H. tauto.
Qed.

Lemma limbs_ok_skipn n l : limbs_ok l -> limbs_ok (skipn n l).
Proof.
  intros H. rewrite <- (firstn_skipn n l) in H. apply limbs_ok_app in H. tauto.
Qed.

Lemma limbs_ok_repeat0 n : limbs_ok (repeat 0 n).
Proof. induction n; cbn [repeat]; [constructor|apply limbs_ok_cons; split; [split; [lia|reflexivity]|assumption]]. Qed.

Lemma limbs_ok_rev l : limbs_ok l <-> limbs_ok (rev l).
Proof. unfold limbs_ok. split; intros H; [apply Forall_rev; exact H|rewrite <- (rev_involutive l); apply Forall_rev; exact H]. Qed.

Lemma lval_cons x l : lval (x :: l) = x + B64 * lval l.
Proof. reflexivity. Qed.

Lemma lval_snoc l x : lval (l ++ [x]) = lval l + B64 ^ zlen l * x.
Proof. rewrite lval_app. cbn [lval]. ring. Qed.

Lemma lval_split n l : lval l = lval (firstn n l) + B64 ^ zlen (firstn n l) * lval (skipn n l).
Proof. rewrite <- lval_app, firstn_skipn. reflexivity. Qed.

(** the value determines quotient and remainder *)
Lemma split_unique (M lo hi v : Z) :
  0 < M -> 0 <= lo < M -> lo + M * hi = v -> lo = v mod M /\ hi = v / M.
Proof.
  intros HM Hlo E. subst v.
  replace (lo + M * hi) with (lo + hi * M) by ring.
  rewrite Z.mod_add, Z.div_add by lia.
  rewrite Z.mod_small, Z.div_small by lia. lia.
Qed.

(** ** 1. scalar operations *)
Theorem scalar_add_spec x y :
  0 <= x < B64 -> 0 <= y < B64 ->
  let '(s, c) := scalar_add x y in
  0 <= s < B64 /\ s + B64 * b2z c = x + y /\ (c = true <-> B64 <= x + y).
Proof.
  intros Hx Hy. unfold scalar_add. pose proof B64_pos.
  destruct (B64 <=? x + y) eqn:E; cbn [b2z].
  - assert ((x + y) mod B64 = x + y - B64).
    { symmetry. apply Z.mod_unique_pos with (q := 1); lia. }
    split; [lia|]. split; [lia|]. split; [lia|reflexivity].
  - rewrite Z.mod_small by lia. split; [lia|]. split; [lia|]. split; [discriminate|lia].
Qed.

Theorem scalar_mul_spec x y carry :
  0 <= x < B64 -> 0 <= y < B64 -> 0 <= carry < B64 ->
  let '(lo, hi) := scalar_mul x y carry in
  0 <= lo < B64 /\ 0 <= hi < B64 /\ lo + B64 * hi = x * y + carry.
Proof.
  intros Hx Hy Hc. unfold scalar_mul. pose proof B64_pos.
  assert (0 <= x * y + carry < B64 * B64) by nia.
  pose proof (Z.mod_pos_bound (x * y + carry) B64 ltac:(lia)).
  pose proof (Z.div_mod (x * y + carry) B64 ltac:(lia)).
  split; [lia|]. split; [|lia].
  split; [apply Z.div_pos; lia|apply Z.div_lt_upper_bound; lia].
Qed.

Example scalar_mul_ex :
  scalar_mul (B64 - 1) (B64 - 1) (B64 - 1) = (0, B64 - 1).
Proof. vm_compute. auto. Qed.

Example scalar_add_ex : scalar_add (B64 - 1) 1 = (0, true).
Proof. vm_compute. auto. Qed.

(** ** 2. carry propagation *)
Theorem add_carry_spec : forall l carry,
  limbs_ok l -> 0 <= carry < B64 ->
  let '(l', c') := add_carry l carry in
  lval l' + B64 ^ zlen l * c' = lval l + carry /\ limbs_ok l' /\ length l' = length l /\
  0 <= c' < B64 /\ (l = [] -> c' = carry) /\ (l <> [] -> c' <= 1).
Proof.
  induction l as [|x r IH]; intros carry Hl Hc; cbn [add_carry].
  - rewrite (@zlen_nil Z), Z.pow_0_r. cbn [lval]. repeat split; try lia; try constructor. congruence.
  - apply limbs_ok_cons in Hl. destruct Hl as [Hx Hr].
    destruct (carry =? 0) eqn:E.
    + assert (carry = 0) by lia. subst carry.
      repeat split; try lia; try reflexivity. apply limbs_ok_cons; auto.
    + pose proof (scalar_add_spec x carry Hx Hc) as S.
      destruct (scalar_add x carry) as [s c]. destruct S as [Hs [Es _]].
      assert (Hc1 : 0 <= (if c then 1 else 0) < B64) by (destruct c; split; (lia || reflexivity)).
      specialize (IH (if c then 1 else 0) Hr Hc1).
      destruct (add_carry r (if c then 1 else 0)) as [r' c'].
      destruct IH as [E1 [O1 [L1 [B1 [N1 N2]]]]].
      rewrite zlen_cons, B64pow_succ by apply zlen_nonneg. cbn [lval length].
      unfold b2z in Es.
      split; [|split; [apply limbs_ok_cons; auto|split; [lia|split; [lia|split; [discriminate|]]]]].
      * replace (s + B64 * lval r' + B64 * B64 ^ zlen r * c')
          with (s + B64 * (lval r' + B64 ^ zlen r * c')) by ring.
        rewrite E1. lia.
      * intros _. destruct r as [|x' r''].
        -- rewrite N1 by reflexivity. destruct c; lia.
        -- apply N2. discriminate.
Qed.

(** consequently the outputs are the remainder and quotient by B64^len *)
Corollary add_carry_divmod l carry :
  limbs_ok l -> 0 <= carry < B64 ->
  lval (fst (add_carry l carry)) = (lval l + carry) mod B64 ^ zlen l /\
  snd (add_carry l carry) = (lval l + carry) / B64 ^ zlen l.
Proof.
  intros Hl Hc. pose proof (add_carry_spec l carry Hl Hc) as S.
  destruct (add_carry l carry) as [l' c']. cbn [fst snd].
  destruct S as [E [O [Len _]]].
  apply split_unique; [apply B64pow_pos', zlen_nonneg| |exact E].
  pose proof (lval_bound l' O). pose proof (lval_nonneg l' O).
  unfold zlen in *. rewrite Len in *. lia.
Qed.

Theorem mul_carry_spec : forall l y carry,
  limbs_ok l -> 0 <= y < B64 -> 0 <= carry < B64 ->
  let '(l', c') := mul_carry l y carry in
  lval l' + B64 ^ zlen l * c' = lval l * y + carry /\ limbs_ok l' /\ length l' = length l /\
  0 <= c' < B64.
Proof.
  induction l as [|x r IH]; intros y carry Hl Hy Hc; cbn [mul_carry].
  - rewrite (@zlen_nil Z), Z.pow_0_r. cbn [lval]. repeat split; try lia; constructor.
  - apply limbs_ok_cons in Hl. destruct Hl as [Hx Hr].
    pose proof (scalar_mul_spec x y carry Hx Hy Hc) as S.
    destruct (scalar_mul x y carry) as [lo hi]. destruct S as [Hlo [Hhi Es]].
    specialize (IH y hi Hr Hy Hhi).
    destruct (mul_carry r y hi) as [r' c']. destruct IH as [E1 [O1 [L1 B1]]].
    rewrite zlen_cons, B64pow_succ by apply zlen_nonneg. cbn [lval length].
    split; [|split; [apply limbs_ok_cons; auto|split; [lia|lia]]].
    replace (lo + B64 * lval r' + B64 * B64 ^ zlen r * c')
      with (lo + B64 * (lval r' + B64 ^ zlen r * c')) by ring.
    rewrite E1. lia.
Qed.

Corollary mul_carry_divmod l y carry :
  limbs_ok l -> 0 <= y < B64 -> 0 <= carry < B64 ->
  lval (fst (mul_carry l y carry)) = (lval l * y + carry) mod B64 ^ zlen l /\
  snd (mul_carry l y carry) = (lval l * y + carry) / B64 ^ zlen l.
Proof.
  intros Hl Hy Hc. pose proof (mul_carry_spec l y carry Hl Hy Hc) as S.
  destruct (mul_carry l y carry) as [l' c']. cbn [fst snd].
  destruct S as [E [O [Len _]]].
  apply split_unique; [apply B64pow_pos', zlen_nonneg| |exact E].
  pose proof (lval_bound l' O). pose proof (lval_nonneg l' O).
  unfold zlen in *. rewrite Len in *. lia.
Qed.

Example add_carry_ex :
  add_carry [B64 - 1; B64 - 1; 5] 1 = ([0; 0; 6], 0) /\
  add_carry [B64 - 1; B64 - 1] 7 = ([6; 0], 1) /\ add_carry [] 9 = ([], 9).
Proof. vm_compute. auto. Qed.

Example mul_carry_ex :
  mul_carry [B64 - 1; B64 - 1] (B64 - 1) (B64 - 1) = ([0; 0], B64 - 1) /\
  mul_carry [B64 - 1; B64 - 1] (B64 - 1) 0 = ([1; B64 - 1], B64 - 2).
Proof. vm_compute. auto. Qed.

(** ** 7. normalisation *)
Lemma strip_zeros_spec : forall r,
  exists k, r = repeat 0 k ++ strip_zeros r /\
            match strip_zeros r with 0 :: _ => False | _ => True end.
Proof.
  induction r as [|a r IH]; cbn [strip_zeros].
  - exists 0%nat. split; [reflexivity|exact I].
  - destruct a as [|p|p].
    + destruct IH as [k [E N]]. exists (S k). cbn [repeat app]. split; [congruence|exact N].
    + exists 0%nat. split; [reflexivity|exact I].
    + exists 0%nat. split; [reflexivity|exact I].
Qed.

(** the list is its normal form followed by zero limbs *)
Lemma normalize_list_decomp l :
  exists k, l = normalize_list l ++ repeat 0 k.
Proof.
  unfold normalize_list. destruct (strip_zeros_spec (rev l)) as [k [E _]].
  exists k. rewrite <- (rev_involutive l) at 1. rewrite E at 1.
  rewrite rev_app_distr. f_equal.
  clear. induction k; [reflexivity|]. cbn [repeat rev]. rewrite IHk.
  clear. induction k; [reflexivity|]. cbn [repeat app]. congruence.
Qed.

Lemma is_normalized_normalize l : is_normalized (normalize_list l) = true.
Proof.
  unfold normalize_list, is_normalized. rewrite rev_involutive.
  destruct (strip_zeros_spec (rev l)) as [k [_ N]].
  destruct (strip_zeros (rev l)) as [|[|p|p] r]; tauto.
Qed.

Lemma normalize_list_id l : is_normalized l = true -> normalize_list l = l.
Proof.
  unfold normalize_list, is_normalized. intros H.
  destruct (rev l) as [|[|p|p] r] eqn:E; try discriminate; cbn [strip_zeros];
    rewrite <- E; apply rev_involutive.
Qed.

Lemma is_normalized_snoc l x : is_normalized (l ++ [x]) = negb (x =? 0).
Proof.
  unfold is_normalized. rewrite rev_app_distr. cbn [rev app]. destruct x; reflexivity.
Qed.

Lemma is_normalized_last l : is_normalized l = true <-> (l = [] \/ last l 0 <> 0).
Proof.
  destruct l as [|a r] using rev_ind.
  - split; [auto|reflexivity].
  - rewrite is_normalized_snoc, last_last. split.
    + intros H. right. lia.
    + intros [H|H]; [destruct r; discriminate|lia].
Qed.

Theorem normalize_list_spec l :
  lval (normalize_list l) = lval l /\
  is_normalized (normalize_list l) = true /\
  (limbs_ok l -> limbs_ok (normalize_list l)) /\
  (length (normalize_list l) <= length l)%nat /\
  (is_normalized l = true -> normalize_list l = l) /\
  (exists k, l = normalize_list l ++ repeat 0 k).
Proof.
  destruct (normalize_list_decomp l) as [k E].
  split; [|split; [apply is_normalized_normalize|split; [|split; [|split; [apply normalize_list_id|]]]]].
  - rewrite E at 2. rewrite lval_app, lval_repeat0. ring.
  - intros H. rewrite E in H. apply limbs_ok_app in H. tauto.
  - rewrite E at 2. rewrite app_length. lia.
  - exists k. exact E.
Qed.

(** a normalized non-empty number with [n] limbs is at least B64^(n-1) *)
Theorem normalized_lower_bound l :
  limbs_ok l -> is_normalized l = true -> l <> [] -> B64 ^ (zlen l - 1) <= lval l.
Proof.
  intros Hl Hn Hne. destruct l as [|a r] using rev_ind; [congruence|].
  rewrite is_normalized_snoc in Hn. apply limbs_ok_app in Hl. destruct Hl as [Hr Ha].
  apply limbs_ok_cons in Ha. destruct Ha as [Ha _].
  rewrite lval_snoc, zlen_app. change (zlen [a]) with 1. replace (zlen r + 1 - 1) with (zlen r) by lia.
  pose proof (lval_nonneg r Hr). pose proof (B64pow_pos' (zlen r) (zlen_nonneg r)). nia.
Qed.

(** a normalized list denoting zero is empty *)
Lemma normalized_zero l : limbs_ok l -> is_normalized l = true -> lval l = 0 -> l = [].
Proof.
  intros Hl Hn Hz. destruct l as [|a r]; [reflexivity|].
  pose proof (normalized_lower_bound (a :: r) Hl Hn ltac:(discriminate)) as H.
  pose proof (B64pow_pos' (zlen (a :: r) - 1)) as P. rewrite zlen_cons in *.
  specialize (P ltac:(pose proof (zlen_nonneg r); lia)). lia.
Qed.

Example normalize_ex :
  normalize_list [1; 0; 2; 0; 0] = [1; 0; 2] /\ is_normalized [1; 0; 2; 0; 0] = false /\
  is_normalized [1; 0; 2] = true /\ normalize_list [0; 0] = [].
Proof. vm_compute. auto. Qed.

(** ** 6. comparison *)
Lemma cmp_be_spec : forall x y,
  length x = length y -> limbs_ok x -> limbs_ok y ->
  cmp_be (rev x) (rev y) = (lval x ?= lval y).
Proof.
  induction x as [|a x IH] using rev_ind; intros y Hlen Hx Hy.
  - destruct y; [reflexivity|discriminate].
  - destruct y as [|b y _] using rev_ind.
    { rewrite app_length in Hlen. cbn [length] in Hlen. lia. }
    rewrite !app_length in Hlen. cbn [length] in Hlen.
    apply limbs_ok_app in Hx. destruct Hx as [Hx Ha]. apply limbs_ok_cons in Ha. destruct Ha as [Ha _].
    apply limbs_ok_app in Hy. destruct Hy as [Hy Hb]. apply limbs_ok_cons in Hb. destruct Hb as [Hb _].
    rewrite !rev_app_distr. cbn [rev app cmp_be].
    rewrite !lval_snoc.
    assert (El : zlen y = zlen x) by (unfold zlen; lia). rewrite El.
    pose proof (lval_nonneg x Hx). pose proof (lval_bound x Hx).
    pose proof (lval_nonneg y Hy). pose proof (lval_bound y Hy). rewrite El in *.
    set (M := B64 ^ zlen x) in *.
    destruct (a ?= b) eqn:E.
    + apply Z.compare_eq in E. subst b. rewrite IH by (auto; lia).
      destruct (lval x ?= lval y) eqn:E2; symmetry.
      * apply Z.compare_eq in E2. apply Z.compare_eq_iff. lia.
      * rewrite Z.compare_lt_iff in *. lia.
      * rewrite Z.compare_gt_iff in *. lia.
    + rewrite Z.compare_lt_iff in E. symmetry. apply Z.compare_lt_iff. nia.
    + rewrite Z.compare_gt_iff in E. symmetry. apply Z.compare_gt_iff. nia.
Qed.

(** complete characterisation, arbitrary operands *)
Theorem vcompare_full x y :
  limbs_ok x -> limbs_ok y ->
  vcompare x y = if zlen x =? zlen y then (lval x ?= lval y) else (zlen x ?= zlen y).
Proof.
  intros Hx Hy. unfold vcompare. destruct (zlen x =? zlen y) eqn:E.
  - assert (E' : zlen x = zlen y) by lia. rewrite E', Z.compare_refl.
    apply cmp_be_spec; auto. unfold zlen in E'. lia.
  - destruct (zlen x ?= zlen y) eqn:E2; try reflexivity.
    apply Z.compare_eq in E2. lia.
Qed.

(** normalized operands: numeric comparison *)
Theorem vcompare_spec x y :
  limbs_ok x -> limbs_ok y -> is_normalized x = true -> is_normalized y = true ->
  vcompare x y = (lval x ?= lval y).
Proof.
  intros Hx Hy Nx Ny. rewrite vcompare_full by assumption.
  destruct (zlen x =? zlen y) eqn:E; [reflexivity|].
  assert (forall a b, limbs_ok a -> limbs_ok b -> is_normalized b = true -> zlen a < zlen b ->
                      lval a < lval b) as Lt.
  { intros a b Ha Hb Nb Hlt. pose proof (lval_bound a Ha).
    assert (b <> []) by (intros ->; rewrite (@zlen_nil Z) in Hlt; pose proof (zlen_nonneg a); lia).
    pose proof (normalized_lower_bound b Hb Nb H0).
    pose proof (B64pow_mono (zlen a) (zlen b - 1) ltac:(pose proof (zlen_nonneg a); lia)). lia. }
  destruct (zlen x ?= zlen y) eqn:E2; symmetry.
  - apply Z.compare_eq in E2. lia.
  - rewrite Z.compare_lt_iff in *. apply Lt; auto.
  - rewrite Z.compare_gt_iff in *. apply Lt; auto.
Qed.

Example vcompare_ex :
  vcompare [5; 1] [7; 1] = Lt /\ vcompare [0; 2] [B64 - 1; 1] = Gt /\
  (* not normalized: the length decides *) vcompare [1; 0] [2] = Gt.
Proof. vm_compute. auto. Qed.
