From Coq Require Import ZArith List Bool Lia.
From ML Require Import base.RustSem model.Fmt model.Vec model.Number model.Bigint proofs.LimbVal gen.Consts gen.PowDump gen.Tables.
Import ListNotations.
Open Scope Z_scope.
Definition out_val (o : outcome (option vec)) : option Z :=
  match o with Ok (Some v) => Some (lval (vl v)) | _ => None end.
Time Example pow5_ex :
  out_val (pow5 CFG_s TABLES LIMITS checked_build (mkVec [3] 62) 300) = Some (3 * 5 ^ 300).
Time Proof. vm_compute. reflexivity. Time Qed.
