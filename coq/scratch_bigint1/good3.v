(** * BigintFacts1: the big-integer operations of model/Bigint.v compute the corresponding
    operation on natural numbers, and (stack back-end) fail exactly when the result does not fit. *)
From Coq Require Import ZArith List Bool Lia Znumtheory.
From Coq Require Import ZifyBool.
From ML Require Import base.RustSem model.Fmt model.Vec model.Number model.Bigint proofs.LimbVal.
Import ListNotations.
Open Scope Z_scope.
Local Opaque Z.pow.
Arguments Z.pow : simpl never.

(** ** generalities *)
Definition b2z (b : bool) : Z := if b then 1 else 0.

Lemma B64_gt1 : 1 < B64. Proof. reflexivity. Qed.

Lemma B64pow_pos n : 0 < B64 ^ n \/ n < 0.
Proof. destruct (Z_lt_le_dec n 0); [right; lia|left; apply Z.pow_pos_nonneg; [reflexivity|lia]]. Qed.

Lemma B64pow_pos' n : 0 <= n -> 0 < B64 ^ n.
Proof. intros; apply Z.pow_pos_nonneg; [reflexivity|lia]. Qed.

Lemma B64pow_ge1 n : 0 <= n -> 1 <= B64 ^ n.
Proof. intros H. pose proof (B64pow_pos' n H). lia. Qed.

Lemma B64pow_succ n : 0 <= n -> B64 ^ (n + 1) = B64 * B64 ^ n.
Proof. intros. rewrite Z.pow_add_r by lia. rewrite Z.pow_1_r. ring. Qed.

Lemma B64pow_mono a b : 0 <= a <= b -> B64 ^ a <= B64 ^ b.
Proof. intros. apply Z.pow_le_mono_r; [reflexivity|lia]. Qed.

Lemma B64pow_lt a b : 0 <= a < b -> B64 * B64 ^ a <= B64 ^ b.
Proof.
  intros. rewrite <- B64pow_succ by lia. apply B64pow_mono. lia.
Qed.

Lemma zlen_nonneg {A} (l : list A) : 0 <= zlen l.
Proof. unfold zlen. lia. Qed.

Lemma zlen_nil {A} : zlen (@nil A) = 0. Proof. reflexivity. Qed.

Lemma zlen_cons {A} (x : A) l : zlen (x :: l) = zlen l + 1.
Proof. unfold zlen. cbn [length]. lia. Qed.

Lemma zlen_app {A} (l1 l2 : list A) : zlen (l1 ++ l2) = zlen l1 + zlen l2.
Proof. unfold zlen. rewrite app_length. lia. Qed.

Lemma zlen_0_nil {A} (l : list A) : zlen l = 0 -> l = [].
Proof. destruct l; [reflexivity|rewrite zlen_cons; pose proof (zlen_nonneg l); lia]. Qed.

Lemma zlen_repeat {A} (x : A) n : zlen (repeat x n) = Z.of_nat n.
Proof. unfold zlen. rewrite repeat_length. reflexivity. Qed.

Lemma zlen_firstn {A} (l : list A) n : (n <= length l)%nat -> zlen (firstn n l) = Z.of_nat n.
Proof. intros. unfold zlen. rewrite firstn_length_le by lia. reflexivity. Qed.

Lemma zlen_skipn {A} (l : list A) n : zlen (skipn n l) = zlen l - Z.of_nat (Nat.min n (length l)).
Proof. unfold zlen. rewrite skipn_length. lia. Qed.

Lemma limbs_ok_nil : limbs_ok []. Proof. constructor. Qed.

Lemma limbs_ok_cons x l : limbs_ok (x :: l) <-> 0 <= x < B64 /\ limbs_ok l.
Proof. unfold limbs_ok. split; [intros H; inversion H; auto|intros [H1 H2]; constructor; auto]. Qed.

Lemma limbs_ok_app l1 l2 : limbs_ok (l1 ++ l2) <-> limbs_ok l1 /\ limbs_ok l2.
Proof. unfold limbs_ok. apply Forall_app. Qed.

Lemma limbs_ok_firstn n l : limbs_ok l -> limbs_ok (firstn n l).
Proof.
  intros H. rewrite <- (firstn_skipn n l) in H. apply limbs_ok_app in H. tauto.
Qed.

Lemma limbs_ok_skipn n l : limbs_ok l -> limbs_ok (skipn n l).
Proof.
  intros H. rewrite <- (firstn_skipn n l) in H. apply limbs_ok_app in H. tauto.
Qed.

Lemma limbs_ok_repeat0 n : limbs_ok (repeat 0 n).
Proof. induction n; cbn [repeat]; [constructor|apply limbs_ok_cons; split; [split; [lia|reflexivity]|assumption]]. Qed.

Lemma limbs_ok_rev l : limbs_ok l <-> limbs_ok (rev l).
Proof. unfold limbs_ok. split; intros H; [apply Forall_rev; exact H|rewrite <- (rev_involutive l); apply Forall_rev; exact H]. Qed.

Lemma lval_cons x l : lval (x :: l) = x + B64 * lval l.
Proof. reflexivity. Qed.

Lemma lval_snoc l x : lval (l ++ [x]) = lval l + B64 ^ zlen l * x.
Proof. rewrite lval_app. cbn [lval]. ring. Qed.

Lemma lval_split n l : lval l = lval (firstn n l) + B64 ^ zlen (firstn n l) * lval (skipn n l).
Proof. rewrite <- lval_app, firstn_skipn. reflexivity. Qed.

(** the value determines quotient and remainder *)
Lemma split_unique (M lo hi v : Z) :
  0 < M -> 0 <= lo < M -> lo + M * hi = v -> lo = v mod M /\ hi = v / M.
Proof.
  intros HM Hlo E. subst v.
  replace (lo + M * hi) with (lo + hi * M) by ring.
  rewrite Z.mod_add, Z.div_add by lia.
  rewrite Z.mod_small, Z.div_small by lia. lia.
Qed.

(** ** 1. scalar operations *)
Theorem scalar_add_spec x y :
  0 <= x < B64 -> 0 <= y < B64 ->
  let '(s, c) := scalar_add x y in
  0 <= s < B64 /\ s + B64 * b2z c = x + y /\ (c = true <-> B64 <= x + y).
Proof.
  intros Hx Hy. unfold scalar_add. pose proof B64_pos.
  destruct (B64 <=? x + y) eqn:E; cbn [b2z].
  - assert ((x + y) mod B64 = x + y - B64).
    { symmetry. apply Z.mod_unique_pos with (q := 1); lia. }
    split; [lia|]. split; [lia|]. split; [lia|reflexivity].
  - rewrite Z.mod_small by lia. split; [lia|]. split; [lia|]. split; [discriminate|lia].
Qed.

Theorem scalar_mul_spec x y carry :
  0 <= x < B64 -> 0 <= y < B64 -> 0 <= carry < B64 ->
  let '(lo, hi) := scalar_mul x y carry in
  0 <= lo < B64 /\ 0 <= hi < B64 /\ lo + B64 * hi = x * y + carry.
Proof.
  intros Hx Hy Hc. unfold scalar_mul. pose proof B64_pos.
  assert (0 <= x * y + carry < B64 * B64) by nia.
  pose proof (Z.mod_pos_bound (x * y + carry) B64 ltac:(lia)).
  pose proof (Z.div_mod (x * y + carry) B64 ltac:(lia)).
  split; [lia|]. split; [|lia].
  split; [apply Z.div_pos; lia|apply Z.div_lt_upper_bound; lia].
Qed.

Example scalar_mul_ex :
  scalar_mul (B64 - 1) (B64 - 1) (B64 - 1) = (0, B64 - 1).
Proof. vm_compute. auto. Qed.

Example scalar_add_ex : scalar_add (B64 - 1) 1 = (0, true).
Proof. vm_compute. auto. Qed.

(** ** 2. carry propagation *)
Theorem add_carry_spec : forall l carry,
  limbs_ok l -> 0 <= carry < B64 ->
  let '(l', c') := add_carry l carry in
  lval l' + B64 ^ zlen l * c' = lval l + carry /\ limbs_ok l' /\ length l' = length l /\
  0 <= c' < B64 /\ (l = [] -> c' = carry) /\ (l <> [] -> c' <= 1).
Proof.
  induction l as [|x r IH]; intros carry Hl Hc; cbn [add_carry].
  - rewrite (@zlen_nil Z), Z.pow_0_r. cbn [lval]. repeat split; try lia; try constructor. congruence.
  - apply limbs_ok_cons in Hl. destruct Hl as [Hx Hr].
    destruct (carry =? 0) eqn:E.
    + assert (carry = 0) by lia. subst carry.
      repeat split; try lia; try reflexivity. apply limbs_ok_cons; auto.
    + pose proof (scalar_add_spec x carry Hx Hc) as S.
      destruct (scalar_add x carry) as [s c]. destruct S as [Hs [Es _]].
      assert (Hc1 : 0 <= (if c then 1 else 0) < B64) by (destruct c; split; (lia || reflexivity)).
      specialize (IH (if c then 1 else 0) Hr Hc1).
      destruct (add_carry r (if c then 1 else 0)) as [r' c'].
      destruct IH as [E1 [O1 [L1 [B1 [N1 N2]]]]].
      rewrite zlen_cons, B64pow_succ by apply zlen_nonneg. cbn [lval length].
      unfold b2z in Es.
      split; [|split; [apply limbs_ok_cons; auto|split; [lia|split; [lia|split; [discriminate|]]]]].
      * replace (s + B64 * lval r' + B64 * B64 ^ zlen r * c')
          with (s + B64 * (lval r' + B64 ^ zlen r * c')) by ring.
        rewrite E1. lia.
      * intros _. destruct r as [|x' r''].
        -- rewrite N1 by reflexivity. destruct c; lia.
        -- apply N2. discriminate.
Qed.

(** consequently the outputs are the remainder and quotient by B64^len *)
Corollary add_carry_divmod l carry :
  limbs_ok l -> 0 <= carry < B64 ->
  lval (fst (add_carry l carry)) = (lval l + carry) mod B64 ^ zlen l /\
  snd (add_carry l carry) = (lval l + carry) / B64 ^ zlen l.
Proof.
  intros Hl Hc. pose proof (add_carry_spec l carry Hl Hc) as S.
  destruct (add_carry l carry) as [l' c']. cbn [fst snd].
  destruct S as [E [O [Len _]]].
  apply split_unique; [apply B64pow_pos', zlen_nonneg| |exact E].
  pose proof (lval_bound l' O). pose proof (lval_nonneg l' O).
  unfold zlen in *. rewrite Len in *. lia.
Qed.

Theorem mul_carry_spec : forall l y carry,
  limbs_ok l -> 0 <= y < B64 -> 0 <= carry < B64 ->
  let '(l', c') := mul_carry l y carry in
  lval l' + B64 ^ zlen l * c' = lval l * y + carry /\ limbs_ok l' /\ length l' = length l /\
  0 <= c' < B64.
Proof.
  induction l as [|x r IH]; intros y carry Hl Hy Hc; cbn [mul_carry].
  - rewrite (@zlen_nil Z), Z.pow_0_r. cbn [lval]. repeat split; try lia; constructor.
  - apply limbs_ok_cons in Hl. destruct Hl as [Hx Hr].
    pose proof (scalar_mul_spec x y carry Hx Hy Hc) as S.
    destruct (scalar_mul x y carry) as [lo hi]. destruct S as [Hlo [Hhi Es]].
    specialize (IH y hi Hr Hy Hhi).
    destruct (mul_carry r y hi) as [r' c']. destruct IH as [E1 [O1 [L1 B1]]].
    rewrite zlen_cons, B64pow_succ by apply zlen_nonneg. cbn [lval length].
    split; [|split; [apply limbs_ok_cons; auto|split; [lia|lia]]].
    replace (lo + B64 * lval r' + B64 * B64 ^ zlen r * c')
      with (lo + B64 * (lval r' + B64 ^ zlen r * c')) by ring.
    rewrite E1. lia.
Qed.

Corollary mul_carry_divmod l y carry :
  limbs_ok l -> 0 <= y < B64 -> 0 <= carry < B64 ->
  lval (fst (mul_carry l y carry)) = (lval l * y + carry) mod B64 ^ zlen l /\
  snd (mul_carry l y carry) = (lval l * y + carry) / B64 ^ zlen l.
Proof.
  intros Hl Hy Hc. pose proof (mul_carry_spec l y carry Hl Hy Hc) as S.
  destruct (mul_carry l y carry) as [l' c']. cbn [fst snd].
  destruct S as [E [O [Len _]]].
  apply split_unique; [apply B64pow_pos', zlen_nonneg| |exact E].
  pose proof (lval_bound l' O). pose proof (lval_nonneg l' O).
  unfold zlen in *. rewrite Len in *. lia.
Qed.

Example add_carry_ex :
  add_carry [B64 - 1; B64 - 1; 5] 1 = ([0; 0; 6], 0) /\
  add_carry [B64 - 1; B64 - 1] 7 = ([6; 0], 1) /\ add_carry [] 9 = ([], 9).
Proof. vm_compute. auto. Qed.

Example mul_carry_ex :
  mul_carry [B64 - 1; B64 - 1] (B64 - 1) (B64 - 1) = ([0; 0], B64 - 1) /\
  mul_carry [B64 - 1; B64 - 1] (B64 - 1) 0 = ([1; B64 - 1], B64 - 2).
Proof. vm_compute. auto. Qed.

(** ** 7. normalisation *)
Lemma strip_zeros_spec : forall r,
  exists k, r = repeat 0 k ++ strip_zeros r /\
            match strip_zeros r with 0 :: _ => False | _ => True end.
Proof.
  induction r as [|a r IH]; cbn [strip_zeros].
  - exists 0%nat. split; [reflexivity|exact I].
  - destruct a as [|p|p].
    + destruct IH as [k [E N]]. exists (S k). cbn [repeat app]. split; [congruence|exact N].
    + exists 0%nat. split; [reflexivity|exact I].
    + exists 0%nat. split; [reflexivity|exact I].
Qed.

(** the list is its normal form followed by zero limbs *)
Lemma normalize_list_decomp l :
  exists k, l = normalize_list l ++ repeat 0 k.
Proof.
  unfold normalize_list. destruct (strip_zeros_spec (rev l)) as [k [E _]].
  exists k. rewrite <- (rev_involutive l) at 1. rewrite E at 1.
  rewrite rev_app_distr. f_equal.
  clear. induction k; [reflexivity|]. cbn [repeat rev]. rewrite IHk.
  clear. induction k; [reflexivity|]. cbn [repeat app]. congruence.
Qed.

Lemma is_normalized_normalize l : is_normalized (normalize_list l) = true.
Proof.
  unfold normalize_list, is_normalized. rewrite rev_involutive.
  destruct (strip_zeros_spec (rev l)) as [k [_ N]].
  destruct (strip_zeros (rev l)) as [|[|p|p] r]; tauto.
Qed.

Lemma normalize_list_id l : is_normalized l = true -> normalize_list l = l.
Proof.
  unfold normalize_list, is_normalized. intros H.
  destruct (rev l) as [|[|p|p] r] eqn:E; try discriminate; cbn [strip_zeros];
    rewrite <- E; apply rev_involutive.
Qed.

Lemma is_normalized_snoc l x : is_normalized (l ++ [x]) = negb (x =? 0).
Proof.
  unfold is_normalized. rewrite rev_app_distr. cbn [rev app]. destruct x; reflexivity.
Qed.

Lemma is_normalized_last l : is_normalized l = true <-> (l = [] \/ last l 0 <> 0).
Proof.
  destruct l as [|a r] using rev_ind.
  - split; [auto|reflexivity].
  - rewrite is_normalized_snoc, last_last. split.
    + intros H. right. lia.
    + intros [H|H]; [destruct r; discriminate|lia].
Qed.

Theorem normalize_list_spec l :
  lval (normalize_list l) = lval l /\
  is_normalized (normalize_list l) = true /\
  (limbs_ok l -> limbs_ok (normalize_list l)) /\
  (length (normalize_list l) <= length l)%nat /\
  (is_normalized l = true -> normalize_list l = l) /\
  (exists k, l = normalize_list l ++ repeat 0 k).
Proof.
  destruct (normalize_list_decomp l) as [k E].
  split; [|split; [apply is_normalized_normalize|split; [|split; [|split; [apply normalize_list_id|]]]]].
  - rewrite E at 2. rewrite lval_app, lval_repeat0. ring.
  - intros H. rewrite E in H. apply limbs_ok_app in H. tauto.
  - rewrite E at 2. rewrite app_length. lia.
  - exists k. exact E.
Qed.

(** a normalized non-empty number with [n] limbs is at least B64^(n-1) *)
Theorem normalized_lower_bound l :
  limbs_ok l -> is_normalized l = true -> l <> [] -> B64 ^ (zlen l - 1) <= lval l.
Proof.
  intros Hl Hn Hne. destruct l as [|a r] using rev_ind; [congruence|].
  rewrite is_normalized_snoc in Hn. apply limbs_ok_app in Hl. destruct Hl as [Hr Ha].
  apply limbs_ok_cons in Ha. destruct Ha as [Ha _].
  rewrite lval_snoc, zlen_app. change (zlen [a]) with 1. replace (zlen r + 1 - 1) with (zlen r) by lia.
  pose proof (lval_nonneg r Hr). pose proof (B64pow_pos' (zlen r) (zlen_nonneg r)). nia.
Qed.

(** a normalized list denoting zero is empty *)
Lemma normalized_zero l : limbs_ok l -> is_normalized l = true -> lval l = 0 -> l = [].
Proof.
  intros Hl Hn Hz. destruct l as [|a r]; [reflexivity|].
  pose proof (normalized_lower_bound (a :: r) Hl Hn ltac:(discriminate)) as H.
  pose proof (B64pow_pos' (zlen (a :: r) - 1)) as P. rewrite zlen_cons in *.
  specialize (P ltac:(pose proof (zlen_nonneg r); lia)). lia.
Qed.

Example normalize_ex :
  normalize_list [1; 0; 2; 0; 0] = [1; 0; 2] /\ is_normalized [1; 0; 2; 0; 0] = false /\
  is_normalized [1; 0; 2] = true /\ normalize_list [0; 0] = [].
Proof. vm_compute. auto. Qed.

(** ** 6. comparison *)
Lemma cmp_be_spec : forall x y,
  length x = length y -> limbs_ok x -> limbs_ok y ->
  cmp_be (rev x) (rev y) = (lval x ?= lval y).
Proof.
  induction x as [|a x IH] using rev_ind; intros y Hlen Hx Hy.
  - destruct y; [reflexivity|discriminate].
  - destruct y as [|b y _] using rev_ind.
    { rewrite app_length in Hlen. cbn [length] in Hlen. lia. }
    rewrite !app_length in Hlen. cbn [length] in Hlen.
    apply limbs_ok_app in Hx. destruct Hx as [Hx Ha]. apply limbs_ok_cons in Ha. destruct Ha as [Ha _].
    apply limbs_ok_app in Hy. destruct Hy as [Hy Hb]. apply limbs_ok_cons in Hb. destruct Hb as [Hb _].
    rewrite !rev_app_distr. cbn [rev app cmp_be].
    rewrite !lval_snoc.
    assert (El : zlen y = zlen x) by (unfold zlen; lia). rewrite El.
    pose proof (lval_nonneg x Hx). pose proof (lval_bound x Hx).
    pose proof (lval_nonneg y Hy). pose proof (lval_bound y Hy). rewrite El in *.
    set (M := B64 ^ zlen x) in *.
    destruct (a ?= b) eqn:E.
    + apply Z.compare_eq in E. subst b. rewrite IH by (auto; lia).
      destruct (lval x ?= lval y) eqn:E2; symmetry.
      * apply Z.compare_eq in E2. apply Z.compare_eq_iff. lia.
      * rewrite Z.compare_lt_iff in *. lia.
      * rewrite Z.compare_gt_iff in *. lia.
    + rewrite Z.compare_lt_iff in E. symmetry. apply Z.compare_lt_iff. nia.
    + rewrite Z.compare_gt_iff in E. symmetry. apply Z.compare_gt_iff. nia.
Qed.

(** complete characterisation, arbitrary operands *)
Theorem vcompare_full x y :
  limbs_ok x -> limbs_ok y ->
  vcompare x y = if zlen x =? zlen y then (lval x ?= lval y) else (zlen x ?= zlen y).
Proof.
  intros Hx Hy. unfold vcompare. destruct (zlen x =? zlen y) eqn:E.
  - assert (E' : zlen x = zlen y) by lia. rewrite E', Z.compare_refl.
    apply cmp_be_spec; auto. unfold zlen in E'. lia.
  - destruct (zlen x ?= zlen y) eqn:E2; try reflexivity.
    apply Z.compare_eq in E2. lia.
Qed.

(** normalized operands: numeric comparison *)
Theorem vcompare_spec x y :
  limbs_ok x -> limbs_ok y -> is_normalized x = true -> is_normalized y = true ->
  vcompare x y = (lval x ?= lval y).
Proof.
  intros Hx Hy Nx Ny. rewrite vcompare_full by assumption.
  destruct (zlen x =? zlen y) eqn:E; [reflexivity|].
  assert (forall a b, limbs_ok a -> limbs_ok b -> is_normalized b = true -> zlen a < zlen b ->
                      lval a < lval b) as Lt.
  { intros a b Ha Hb Nb Hlt. pose proof (lval_bound a Ha).
    assert (b <> []) by (intros ->; rewrite (@zlen_nil Z) in Hlt; pose proof (zlen_nonneg a); lia).
    pose proof (normalized_lower_bound b Hb Nb H0).
    pose proof (B64pow_mono (zlen a) (zlen b - 1) ltac:(pose proof (zlen_nonneg a); lia)). lia. }
  destruct (zlen x ?= zlen y) eqn:E2; symmetry.
  - apply Z.compare_eq in E2. lia.
  - rewrite Z.compare_lt_iff in *. apply Lt; auto.
  - rewrite Z.compare_gt_iff in *. apply Lt; auto.
Qed.

Example vcompare_ex :
  vcompare [5; 1] [7; 1] = Lt /\ vcompare [0; 2] [B64 - 1; 1] = Gt /\
  (* not normalized: the length decides *) vcompare [1; 0] [2] = Gt.
Proof. vm_compute. auto. Qed.

(** ** vectors: the push/extend/resize primitives *)
Lemma grow_ge cap req : cap <= grow cap req /\ req <= grow cap req.
Proof. unfold grow. lia. Qed.

Lemma try_push_Some h v x v' :
  try_push h v x = Some v' ->
  vl v' = vl v ++ [x] /\ (h = false -> vcap v' = vcap v /\ zlen (vl v) < vcap v) /\
  vcap v <= vcap v' /\ (zlen (vl v) <= vcap v -> zlen (vl v') <= vcap v').
Proof.
  unfold try_push, vlen. destruct h.
  - intros H. inversion H; subst v'; clear H. cbn [vl vcap]. rewrite zlen_app. change (zlen [x]) with 1.
    split; [reflexivity|]. split; [discriminate|].
    pose proof (grow_ge (vcap v) (zlen (vl v) + 1)).
    destruct (zlen (vl v) =? vcap v) eqn:E; lia.
  - destruct (zlen (vl v) <? vcap v) eqn:E; [|discriminate].
    intros H. inversion H; subst v'; clear H. cbn [vl vcap]. rewrite zlen_app. change (zlen [x]) with 1.
    repeat split; lia.
Qed.

Lemma try_push_None h v x :
  try_push h v x = None <-> h = false /\ vcap v <= zlen (vl v).
Proof.
  unfold try_push, vlen. destruct h.
  - split; [discriminate|intros [H _]; discriminate].
  - destruct (zlen (vl v) <? vcap v) eqn:E.
    + split; [discriminate|intros [_ H]; lia].
    + split; [intros _; split; [reflexivity|lia]|reflexivity].
Qed.

(** ** 3. small_add_from / small_add / small_mul *)
Lemma firstn_app_exact {A} (l1 l2 : list A) n : length l1 = n -> firstn n (l1 ++ l2) = l1.
Proof.
  intros <-. rewrite firstn_app, Nat.sub_diag, firstn_all. cbn [firstn]. apply app_nil_r.
Qed.

Lemma small_add_from_unfold c v y start :
  small_add_from c v y start =
  let n := Z.to_nat start in
  let r := add_carry (skipn n (vl v)) y in
  let v' := vset_list v (firstn n (vl v) ++ fst r) in
  if negb (snd r =? 0) then try_push (alloc c) v' (snd r) else Some v'.
Proof.
  unfold small_add_from. cbv zeta. destruct (add_carry _ y) as [suf carry]. reflexivity.
Qed.

(** the in-place part of `small_add_from`: the updated limbs and the carry out of the top *)
Lemma small_add_from_core v y start :
  limbs_ok (vl v) -> 0 <= y < B64 -> 0 <= start <= zlen (vl v) ->
  let n := Z.to_nat start in
  let r := add_carry (skipn n (vl v)) y in
  let l1 := firstn n (vl v) ++ fst r in
  lval l1 + B64 ^ zlen (vl v) * snd r = lval (vl v) + y * B64 ^ start /\
  limbs_ok l1 /\ length l1 = length (vl v) /\ 0 <= snd r < B64 /\
  firstn n l1 = firstn n (vl v) /\
  lval (vl v) + y * B64 ^ start < B64 * B64 ^ zlen (vl v).
Proof.
  intros Hl Hy Hs n r l1.
  assert (Hn : (n <= length (vl v))%nat) by (unfold zlen in Hs; lia).
  pose proof (add_carry_spec (skipn n (vl v)) y (limbs_ok_skipn n _ Hl) Hy) as S.
  fold r in S. destruct r as [suf carry] eqn:Er. cbn [fst snd] in *.
  destruct S as [E [O [Len [Bc _]]]].
  assert (Lpre : zlen (firstn n (vl v)) = start) by (rewrite zlen_firstn by lia; lia).
  assert (Lsuf : zlen (skipn n (vl v)) = zlen (vl v) - start) by (rewrite zlen_skipn; lia).
  rewrite Lsuf in E.
  assert (Ep : B64 ^ zlen (vl v) = B64 ^ start * B64 ^ (zlen (vl v) - start)).
  { rewrite <- Z.pow_add_r by lia. f_equal. lia. }
  assert (Ev : lval l1 + B64 ^ zlen (vl v) * carry = lval (vl v) + y * B64 ^ start).
  { unfold l1. rewrite lval_app, Lpre. rewrite (lval_split n (vl v)) at 1. rewrite Lpre, Ep.
    replace (lval (firstn n (vl v)) + B64 ^ start * lval suf + B64 ^ start * B64 ^ (zlen (vl v) - start) * carry)
      with (lval (firstn n (vl v)) + B64 ^ start * (lval suf + B64 ^ (zlen (vl v) - start) * carry)) by ring.
    rewrite E. ring. }
  assert (Ol : limbs_ok l1) by (apply limbs_ok_app; split; [apply limbs_ok_firstn; exact Hl|exact O]).
  assert (Ll : length l1 = length (vl v)).
  { unfold l1. rewrite app_length, Len, <- app_length, firstn_skipn. reflexivity. }
  repeat split; try assumption; try lia.
  - unfold l1. apply firstn_app_exact. apply firstn_length_le. exact Hn.
  - pose proof (lval_bound _ Hl). pose proof (B64pow_pos' start ltac:(lia)).
    pose proof (B64pow_mono start (zlen (vl v)) ltac:(lia)). nia.
Qed.

Theorem small_add_from_spec c v y start v' :
  limbs_ok (vl v) -> 0 <= y < B64 -> 0 <= start <= zlen (vl v) ->
  small_add_from c v y start = Some v' ->
  lval (vl v') = lval (vl v) + y * B64 ^ start /\
  limbs_ok (vl v') /\
  firstn (Z.to_nat start) (vl v') = firstn (Z.to_nat start) (vl v) /\
  zlen (vl v') = zlen (vl v) + (if B64 ^ zlen (vl v) <=? lval (vl v) + y * B64 ^ start then 1 else 0) /\
  (alloc c = false -> vcap v' = vcap v) /\
  (zlen (vl v') = zlen (vl v) -> vcap v' = vcap v) /\
  vcap v <= vcap v' /\
  (zlen (vl v) <= vcap v -> zlen (vl v') <= vcap v').
Proof.
  intros Hl Hy Hs. rewrite small_add_from_unfold. cbv zeta.
  pose proof (small_add_from_core v y start Hl Hy Hs) as C. cbv zeta in C.
  set (n := Z.to_nat start) in *. set (r := add_carry (skipn n (vl v)) y) in *.
  set (l1 := firstn n (vl v) ++ fst r) in *.
  destruct C as [E [O [Len [Bc [Fst Bnd]]]]].
  assert (Zl : zlen l1 = zlen (vl v)) by (unfold zlen; lia).
  pose proof (lval_nonneg _ O) as Nn. pose proof (lval_bound _ O) as Bd. rewrite Zl in Bd.
  pose proof (B64pow_pos' (zlen (vl v)) (zlen_nonneg _)) as Pp.
  destruct (snd r =? 0) eqn:Ec; cbn [negb].
  - assert (Ez : snd r = 0) by lia. rewrite Ez in E.
    intros H. inversion H; subst v'; clear H. unfold vset_list. cbn [vl vcap].
    replace (B64 ^ zlen (vl v) <=? lval (vl v) + y * B64 ^ start) with false by lia.
    repeat split; try assumption; try lia.
  - intros H. apply try_push_Some in H. unfold vset_list in H. cbn [vl vcap] in H.
    destruct H as [Hv [Hst [Hcap Hinv]]]. rewrite Hv in Hinv |- *.
    rewrite lval_snoc, limbs_ok_app, zlen_app, Zl in *. change (zlen [snd r]) with 1 in *.
    assert (B64 ^ zlen (vl v) <= lval (vl v) + y * B64 ^ start) by nia.
    replace (B64 ^ zlen (vl v) <=? lval (vl v) + y * B64 ^ start) with true by lia.
    split; [lia|]. split; [split; [exact O|apply limbs_ok_cons; split; [lia|constructor]]|].
    split; [rewrite firstn_app; replace (n - length l1)%nat with 0%nat by (unfold zlen in Hs; lia);
            cbn [firstn]; rewrite app_nil_r; exact Fst|].
    split; [reflexivity|]. split; [intros Hh; apply Hst; exact Hh|]. split; [lia|]. split; [lia|exact Hinv].
Qed.

(** failure: only the stack back-end fails, exactly when the vector is full and a carry leaves
    the top limb *)
Theorem small_add_from_None c v y start :
  limbs_ok (vl v) -> 0 <= y < B64 -> 0 <= start <= zlen (vl v) ->
  (small_add_from c v y start = None <->
   alloc c = false /\ vcap v <= zlen (vl v) /\ B64 ^ zlen (vl v) <= lval (vl v) + y * B64 ^ start).
Proof.
  intros Hl Hy Hs. rewrite small_add_from_unfold. cbv zeta.
  pose proof (small_add_from_core v y start Hl Hy Hs) as C. cbv zeta in C.
  set (n := Z.to_nat start) in *. set (r := add_carry (skipn n (vl v)) y) in *.
  set (l1 := firstn n (vl v) ++ fst r) in *.
  destruct C as [E [O [Len [Bc [Fst Bnd]]]]].
  assert (Zl : zlen l1 = zlen (vl v)) by (unfold zlen; lia).
  pose proof (lval_nonneg _ O) as Nn. pose proof (lval_bound _ O) as Bd. rewrite Zl in Bd.
  pose proof (B64pow_pos' (zlen (vl v)) (zlen_nonneg _)) as Pp.
  destruct (snd r =? 0) eqn:Ec; cbn [negb].
  - assert (Ez : snd r = 0) by lia. rewrite Ez in E. split; [discriminate|]. intros [_ [_ H]]. lia.
  - rewrite try_push_None. unfold vset_list. cbn [vl vcap]. rewrite Zl.
    assert (B64 ^ zlen (vl v) <= lval (vl v) + y * B64 ^ start) by nia. tauto.
Qed.

(** for a vector within its capacity: failure iff the exact sum does not fit in the capacity *)
Corollary small_add_from_None_iff_overflow c v y start :
  limbs_ok (vl v) -> 0 <= y < B64 -> 0 <= start <= zlen (vl v) ->
  alloc c = false -> zlen (vl v) <= vcap v ->
  (small_add_from c v y start = None <-> B64 ^ vcap v <= lval (vl v) + y * B64 ^ start).
Proof.
  intros Hl Hy Hs Ha Hc. rewrite small_add_from_None by assumption.
  pose proof (small_add_from_core v y start Hl Hy Hs) as C. cbv zeta in C.
  destruct C as [_ [_ [_ [_ [_ Bnd]]]]].
  split.
  - intros [_ [H1 H2]]. replace (vcap v) with (zlen (vl v)) by lia. exact H2.
  - intros H. split; [exact Ha|].
    destruct (Z_lt_le_dec (zlen (vl v)) (vcap v)) as [Lt|Ge].
    + pose proof (B64pow_lt (zlen (vl v)) (vcap v) ltac:(pose proof (zlen_nonneg (vl v)); lia)). lia.
    + split; [lia|]. replace (zlen (vl v)) with (vcap v) by lia. exact H.
Qed.

Corollary small_add_from_heap c v y start :
  limbs_ok (vl v) -> 0 <= y < B64 -> 0 <= start <= zlen (vl v) ->
  alloc c = true -> small_add_from c v y start <> None.
Proof.
  intros Hl Hy Hs Ha H. apply small_add_from_None in H; try assumption. destruct H as [H _]. congruence.
Qed.

(** a shorter-than-capacity vector never fails *)
Corollary small_add_from_short c v y start :
  limbs_ok (vl v) -> 0 <= y < B64 -> 0 <= start <= zlen (vl v) ->
  zlen (vl v) < vcap v -> small_add_from c v y start <> None.
Proof.
  intros Hl Hy Hs Ha H. apply small_add_from_None in H; try assumption. lia.
Qed.

(** [small_add] *)
Theorem small_add_spec c v y v' :
  limbs_ok (vl v) -> 0 <= y < B64 ->
  small_add c v y = Some v' ->
  lval (vl v') = lval (vl v) + y /\
  limbs_ok (vl v') /\
  zlen (vl v') = zlen (vl v) + (if B64 ^ zlen (vl v) <=? lval (vl v) + y then 1 else 0) /\
  (alloc c = false -> vcap v' = vcap v) /\
  (zlen (vl v') = zlen (vl v) -> vcap v' = vcap v) /\
  vcap v <= vcap v' /\
  (zlen (vl v) <= vcap v -> zlen (vl v') <= vcap v').
Proof.
  intros Hl Hy H. unfold small_add in H.
  apply small_add_from_spec in H; try assumption; [|pose proof (zlen_nonneg (vl v)); lia].
  rewrite Z.pow_0_r, Z.mul_1_r in H. tauto.
Qed.

Theorem small_add_None c v y :
  limbs_ok (vl v) -> 0 <= y < B64 ->
  (small_add c v y = None <->
   alloc c = false /\ vcap v <= zlen (vl v) /\ B64 ^ zlen (vl v) <= lval (vl v) + y).
Proof.
  intros Hl Hy. unfold small_add.
  rewrite small_add_from_None by (try assumption; pose proof (zlen_nonneg (vl v)); lia).
  rewrite Z.pow_0_r, Z.mul_1_r. tauto.
Qed.

Corollary small_add_None_iff_overflow c v y :
  limbs_ok (vl v) -> 0 <= y < B64 -> alloc c = false -> zlen (vl v) <= vcap v ->
  (small_add c v y = None <-> B64 ^ vcap v <= lval (vl v) + y).
Proof.
  intros Hl Hy Ha Hc. unfold small_add.
  rewrite small_add_from_None_iff_overflow by (try assumption; pose proof (zlen_nonneg (vl v)); lia).
  rewrite Z.pow_0_r, Z.mul_1_r. tauto.
Qed.

(** the state left behind by a failed `small_add`: the sum modulo B64^len *)
Theorem small_add_failed_spec v y :
  limbs_ok (vl v) -> 0 <= y < B64 ->
  lval (vl (small_add_failed v y)) = (lval (vl v) + y) mod B64 ^ zlen (vl v) /\
  limbs_ok (vl (small_add_failed v y)) /\
  length (vl (small_add_failed v y)) = length (vl v) /\
  vcap (small_add_failed v y) = vcap v.
Proof.
  intros Hl Hy. unfold small_add_failed, vset_list. cbn [vl vcap].
  pose proof (add_carry_divmod (vl v) y Hl Hy) as [D _].
  pose proof (add_carry_spec (vl v) y Hl Hy) as S.
  destruct (add_carry (vl v) y) as [l' c']. cbn [fst] in *. tauto.
Qed.

(** [small_mul] *)
Lemma small_mul_unfold c v y :
  small_mul c v y =
  let r := mul_carry (vl v) y 0 in
  let v' := vset_list v (fst r) in
  if negb (snd r =? 0) then try_push (alloc c) v' (snd r) else Some v'.
Proof.
  unfold small_mul. cbv zeta. destruct (mul_carry _ y 0) as [l carry]. reflexivity.
Qed.

Lemma small_mul_core l y :
  limbs_ok l -> 0 <= y < B64 ->
  let r := mul_carry l y 0 in
  lval (fst r) + B64 ^ zlen l * snd r = lval l * y /\
  limbs_ok (fst r) /\ length (fst r) = length l /\ 0 <= snd r < B64 /\
  lval l * y < B64 * B64 ^ zlen l.
Proof.
  intros Hl Hy r. pose proof (mul_carry_spec l y 0 Hl Hy ltac:(split; [lia|reflexivity])) as S.
  fold r in S. destruct r as [l' c']. cbn [fst snd]. rewrite Z.add_0_r in S.
  destruct S as [E [O [Len Bc]]]. repeat split; try assumption; try lia.
  pose proof (lval_bound _ Hl). pose proof (lval_nonneg _ Hl). nia.
Qed.

Theorem small_mul_spec c v y v' :
  limbs_ok (vl v) -> 0 <= y < B64 ->
  small_mul c v y = Some v' ->
  lval (vl v') = lval (vl v) * y /\
  limbs_ok (vl v') /\
  zlen (vl v') = zlen (vl v) + (if B64 ^ zlen (vl v) <=? lval (vl v) * y then 1 else 0) /\
  (alloc c = false -> vcap v' = vcap v) /\
  (zlen (vl v') = zlen (vl v) -> vcap v' = vcap v) /\
  vcap v <= vcap v' /\
  (zlen (vl v) <= vcap v -> zlen (vl v') <= vcap v').
Proof.
  intros Hl Hy. rewrite small_mul_unfold. cbv zeta.
  pose proof (small_mul_core (vl v) y Hl Hy) as C. cbv zeta in C.
  set (r := mul_carry (vl v) y 0) in *.
  destruct C as [E [O [Len [Bc Bnd]]]].
  assert (Zl : zlen (fst r) = zlen (vl v)) by (unfold zlen; lia).
  pose proof (lval_nonneg _ O) as Nn. pose proof (lval_bound _ O) as Bd. rewrite Zl in Bd.
  pose proof (B64pow_pos' (zlen (vl v)) (zlen_nonneg _)) as Pp.
  destruct (snd r =? 0) eqn:Ec; cbn [negb].
  - assert (Ez : snd r = 0) by lia. rewrite Ez in E.
    intros H. inversion H; subst v'; clear H. unfold vset_list. cbn [vl vcap].
    replace (B64 ^ zlen (vl v) <=? lval (vl v) * y) with false by lia.
    repeat split; try assumption; try lia.
  - intros H. apply try_push_Some in H. unfold vset_list in H. cbn [vl vcap] in H.
    destruct H as [Hv [Hst [Hcap Hinv]]]. rewrite Hv in Hinv |- *.
    rewrite lval_snoc, limbs_ok_app, zlen_app, Zl in *. change (zlen [snd r]) with 1 in *.
    assert (B64 ^ zlen (vl v) <= lval (vl v) * y) by nia.
    replace (B64 ^ zlen (vl v) <=? lval (vl v) * y) with true by lia.
    split; [lia|]. split; [split; [exact O|apply limbs_ok_cons; split; [lia|constructor]]|].
    split; [reflexivity|]. split; [intros Hh; apply Hst; exact Hh|]. split; [lia|]. split; [lia|exact Hinv].
Qed.

Theorem small_mul_None c v y :
  limbs_ok (vl v) -> 0 <= y < B64 ->
  (small_mul c v y = None <->
   alloc c = false /\ vcap v <= zlen (vl v) /\ B64 ^ zlen (vl v) <= lval (vl v) * y).
Proof.
  intros Hl Hy. rewrite small_mul_unfold. cbv zeta.
  pose proof (small_mul_core (vl v) y Hl Hy) as C. cbv zeta in C.
  set (r := mul_carry (vl v) y 0) in *.
  destruct C as [E [O [Len [Bc Bnd]]]].
  assert (Zl : zlen (fst r) = zlen (vl v)) by (unfold zlen; lia).
  pose proof (lval_nonneg _ O) as Nn. pose proof (lval_bound _ O) as Bd. rewrite Zl in Bd.
  pose proof (B64pow_pos' (zlen (vl v)) (zlen_nonneg _)) as Pp.
  destruct (snd r =? 0) eqn:Ec; cbn [negb].
  - assert (Ez : snd r = 0) by lia. rewrite Ez in E. split; [discriminate|]. intros [_ [_ H]]. lia.
  - rewrite try_push_None. unfold vset_list. cbn [vl vcap]. rewrite Zl.
    assert (B64 ^ zlen (vl v) <= lval (vl v) * y) by nia. tauto.
Qed.

Corollary small_mul_None_iff_overflow c v y :
  limbs_ok (vl v) -> 0 <= y < B64 -> alloc c = false -> zlen (vl v) <= vcap v ->
  (small_mul c v y = None <-> B64 ^ vcap v <= lval (vl v) * y).
Proof.
  intros Hl Hy Ha Hc. rewrite small_mul_None by assumption.
  pose proof (small_mul_core (vl v) y Hl Hy) as C. cbv zeta in C.
  destruct C as [_ [_ [_ [_ Bnd]]]].
  split.
  - intros [_ [H1 H2]]. replace (vcap v) with (zlen (vl v)) by lia. exact H2.
  - intros H. split; [exact Ha|].
    destruct (Z_lt_le_dec (zlen (vl v)) (vcap v)) as [Lt|Ge].
    + pose proof (B64pow_lt (zlen (vl v)) (vcap v) ltac:(pose proof (zlen_nonneg (vl v)); lia)). lia.
    + split; [lia|]. replace (zlen (vl v)) with (vcap v) by lia. exact H.
Qed.

Corollary small_mul_heap c v y :
  limbs_ok (vl v) -> 0 <= y < B64 -> alloc c = true -> small_mul c v y <> None.
Proof.
  intros Hl Hy Ha H. apply small_mul_None in H; try assumption. destruct H as [H _]. congruence.
Qed.

Corollary small_mul_short c v y :
  limbs_ok (vl v) -> 0 <= y < B64 -> zlen (vl v) < vcap v -> small_mul c v y <> None.
Proof.
  intros Hl Hy Ha H. apply small_mul_None in H; try assumption. lia.
Qed.

Theorem small_mul_failed_spec v y :
  limbs_ok (vl v) -> 0 <= y < B64 ->
  lval (vl (small_mul_failed v y)) = (lval (vl v) * y) mod B64 ^ zlen (vl v) /\
  limbs_ok (vl (small_mul_failed v y)) /\
  length (vl (small_mul_failed v y)) = length (vl v) /\
  vcap (small_mul_failed v y) = vcap v.
Proof.
  intros Hl Hy. unfold small_mul_failed, vset_list. cbn [vl vcap].
  pose proof (mul_carry_divmod (vl v) y 0 Hl Hy ltac:(split; [lia|reflexivity])) as [D _].
  rewrite Z.add_0_r in D.
  pose proof (mul_carry_spec (vl v) y 0 Hl Hy ltac:(split; [lia|reflexivity])) as S.
  destruct (mul_carry (vl v) y 0) as [l' c']. cbn [fst] in *. tauto.
Qed.
