(** * BigintFacts1: the big-integer operations of model/Bigint.v compute the corresponding
    operation on natural numbers, and (stack back-end) fail exactly when the result does not fit. *)
From Coq Require Import ZArith List Bool Lia Znumtheory.
From Coq Require Import ZifyBool.
From ML Require Import base.RustSem model.Fmt model.Vec model.Number model.Bigint proofs.LimbVal.
Import ListNotations.
Open Scope Z_scope.
Local Opaque Z.pow.
Arguments Z.pow : simpl never.

(** ** generalities *)
Definition b2z (b : bool) : Z := if b then 1 else 0.

Lemma B64_gt1 : 1 < B64. Proof. reflexivity. Qed.

Lemma B64pow_pos n : 0 < B64 ^ n \/ n < 0.
Proof. destruct (Z_lt_le_dec n 0); [right; lia|left; apply Z.pow_pos_nonneg; [reflexivity|lia]]. Qed.

Lemma B64pow_pos' n : 0 <= n -> 0 < B64 ^ n.
Proof. intros; apply Z.pow_pos_nonneg; [reflexivity|lia]. Qed.

Lemma B64pow_ge1 n : 0 <= n -> 1 <= B64 ^ n.
Proof. intros H. pose proof (B64pow_pos' n H). lia. Qed.

Lemma B64pow_succ n : 0 <= n -> B64 ^ (n + 1) = B64 * B64 ^ n.
Proof. intros. rewrite Z.pow_add_r by lia. rewrite Z.pow_1_r. ring. Qed.

Lemma B64pow_mono a b : 0 <= a <= b -> B64 ^ a <= B64 ^ b.
Proof. intros. apply Z.pow_le_mono_r; [reflexivity|lia]. Qed.

Lemma B64pow_lt a b : 0 <= a < b -> B64 * B64 ^ a <= B64 ^ b.
Proof.
  intros. rewrite <- B64pow_succ by lia. apply B64pow_mono. lia.
Qed.

Lemma zlen_nonneg {A} (l : list A) : 0 <= zlen l.
Proof. unfold zlen. lia. Qed.

Lemma zlen_nil {A} : zlen (@nil A) = 0. Proof. reflexivity. Qed.

Lemma zlen_cons {A} (x : A) l : zlen (x :: l) = zlen l + 1.
Proof. unfold zlen. cbn [length]. lia. Qed.

Lemma zlen_app {A} (l1 l2 : list A) : zlen (l1 ++ l2) = zlen l1 + zlen l2.
Proof. unfold zlen. rewrite app_length. lia. Qed.

Lemma zlen_0_nil {A} (l : list A) : zlen l = 0 -> l = [].
Proof. destruct l; [reflexivity|rewrite zlen_cons; pose proof (zlen_nonneg l); lia]. Qed.

Lemma zlen_repeat {A} (x : A) n : zlen (repeat x n) = Z.of_nat n.
Proof. unfold zlen. rewrite repeat_length. reflexivity. Qed.

Lemma zlen_firstn {A} (l : list A) n : (n <= length l)%nat -> zlen (firstn n l) = Z.of_nat n.
Proof. intros. unfold zlen. rewrite firstn_length_le by lia. reflexivity. Qed.

Lemma zlen_skipn {A} (l : list A) n : zlen (skipn n l) = zlen l - Z.of_nat (Nat.min n (length l)).
Proof. unfold zlen. rewrite skipn_length. lia. Qed.

Lemma limbs_ok_nil : limbs_ok []. Proof. constructor. Qed.

Lemma limbs_ok_cons x l : limbs_ok (x :: l) <-> 0 <= x < B64 /\ limbs_ok l.
Proof. unfold limbs_ok. split; [intros H; inversion H; auto|intros [H1 H2]; constructor; auto]. Qed.

Lemma limbs_ok_app l1 l2 : limbs_ok (l1 ++ l2) <-> limbs_ok l1 /\ limbs_ok l2.
Proof. unfold limbs_ok. apply Forall_app. Qed.

Lemma limbs_ok_firstn n l : limbs_ok l -> limbs_ok (firstn n l).
Proof.
  intros H. rewrite <- (firstn_skipn n l) in H. apply limbs_ok_app in H. tauto.
Qed.

Lemma limbs_ok_skipn n l : limbs_ok l -> limbs_ok (skipn n l).
Proof.
  intros H. rewrite <- (firstn_skipn n l) in H. apply limbs_ok_app in H. tauto.
Qed.

Lemma limbs_ok_repeat0 n : limbs_ok (repeat 0 n).
Proof. induction n; cbn [repeat]; [constructor|apply limbs_ok_cons; split; [split; [lia|reflexivity]|assumption]]. Qed.

Lemma limbs_ok_rev l : limbs_ok l <-> limbs_ok (rev l).
Proof. unfold limbs_ok. split; intros H; [apply Forall_rev; exact H|rewrite <- (rev_involutive l); apply Forall_rev; exact H]. Qed.

Lemma lval_cons x l : lval (x :: l) = x + B64 * lval l.
Proof. reflexivity. Qed.

Lemma lval_snoc l x : lval (l ++ [x]) = lval l + B64 ^ zlen l * x.
Proof. rewrite lval_app. cbn [lval]. ring. Qed.

Lemma lval_split n l : lval l = lval (firstn n l) + B64 ^ zlen (firstn n l) * lval (skipn n l).
Proof. rewrite <- lval_app, firstn_skipn. reflexivity. Qed.

(** the value determines quotient and remainder *)
Lemma split_unique (M lo hi v : Z) :
  0 < M -> 0 <= lo < M -> lo + M * hi = v -> lo = v mod M /\ hi = v / M.
Proof.
  intros HM Hlo E. subst v.
  replace (lo + M * hi) with (lo + hi * M) by ring.
  rewrite Z.mod_add, Z.div_add by lia.
  rewrite Z.mod_small, Z.div_small by lia. lia.
Qed.

(** ** 1. scalar operations *)
Theorem scalar_add_spec x y :
  0 <= x < B64 -> 0 <= y < B64 ->
  let '(s, c) := scalar_add x y in
  0 <= s < B64 /\ s + B64 * b2z c = x + y /\ (c = true <-> B64 <= x + y).
Proof.
  intros Hx Hy. unfold scalar_add. pose proof B64_pos.
  destruct (B64 <=? x + y) eqn:E; cbn [b2z].
  - assert ((x + y) mod B64 = x + y - B64).
    { symmetry. apply Z.mod_unique_pos with (q := 1); lia. }
    split; [lia|]. split; [lia|]. split; [lia|reflexivity].
  - rewrite Z.mod_small by lia. split; [lia|]. split; [lia|]. split; [discriminate|lia].
Qed.

Theorem scalar_mul_spec x y carry :
  0 <= x < B64 -> 0 <= y < B64 -> 0 <= carry < B64 ->
  let '(lo, hi) := scalar_mul x y carry in
  0 <= lo < B64 /\ 0 <= hi < B64 /\ lo + B64 * hi = x * y + carry.
Proof.
  intros Hx Hy Hc. unfold scalar_mul. pose proof B64_pos.
  assert (0 <= x * y + carry < B64 * B64) by nia.
  pose proof (Z.mod_pos_bound (x * y + carry) B64 ltac:(lia)).
  pose proof (Z.div_mod (x * y + carry) B64 ltac:(lia)).
  split; [lia|]. split; [|lia].
  split; [apply Z.div_pos; lia|apply Z.div_lt_upper_bound; lia].
Qed.

Example scalar_mul_ex :
  scalar_mul (B64 - 1) (B64 - 1) (B64 - 1) = (0, B64 - 1).
Proof. vm_compute. auto. Qed.

Example scalar_add_ex : scalar_add (B64 - 1) 1 = (0, true).
Proof. vm_compute. auto. Qed.

(** ** 2. carry propagation *)
Theorem add_carry_spec : forall l carry,
  limbs_ok l -> 0 <= carry < B64 ->
  let '(l', c') := add_carry l carry in
  lval l' + B64 ^ zlen l * c' = lval l + carry /\ limbs_ok l' /\ length l' = length l /\
  0 <= c' < B64 /\ (l = [] -> c' = carry) /\ (l <> [] -> c' <= 1).
Proof.
  induction l as [|x r IH]; intros carry Hl Hc; cbn [add_carry].
  - rewrite (@zlen_nil Z), Z.pow_0_r. cbn [lval]. repeat split; try lia; try constructor. congruence.
  - apply limbs_ok_cons in Hl. destruct Hl as [Hx Hr].
    destruct (carry =? 0) eqn:E.
    + assert (carry = 0) by lia. subst carry.
      repeat split; try lia; try reflexivity. apply limbs_ok_cons; auto.
    + pose proof (scalar_add_spec x carry Hx Hc) as S.
      destruct (scalar_add x carry) as [s c]. destruct S as [Hs [Es _]].
      assert (Hc1 : 0 <= (if c then 1 else 0) < B64) by (destruct c; split; (lia || reflexivity)).
      specialize (IH (if c then 1 else 0) Hr Hc1).
      destruct (add_carry r (if c then 1 else 0)) as [r' c'].
      destruct IH as [E1 [O1 [L1 [B1 [N1 N2]]]]].
      rewrite zlen_cons, B64pow_succ by apply zlen_nonneg. cbn [lval length].
      unfold b2z in Es.
      split; [|split; [apply limbs_ok_cons; auto|split; [lia|split; [lia|split; [discriminate|]]]]].
      * replace (s + B64 * lval r' + B64 * B64 ^ zlen r * c')
          with (s + B64 * (lval r' + B64 ^ zlen r * c')) by ring.
        rewrite E1. lia.
      * intros _. destruct r as [|x' r''].
        -- rewrite N1 by reflexivity. destruct c; lia.
        -- apply N2. discriminate.
Qed.

(** consequently the outputs are the remainder and quotient by B64^len *)
Corollary add_carry_divmod l carry :
  limbs_ok l -> 0 <= carry < B64 ->
  lval (fst (add_carry l carry)) = (lval l + carry) mod B64 ^ zlen l /\
  snd (add_carry l carry) = (lval l + carry) / B64 ^ zlen l.
Proof.
  intros Hl Hc. pose proof (add_carry_spec l carry Hl Hc) as S.
  destruct (add_carry l carry) as [l' c']. cbn [fst snd].
  destruct S as [E [O [Len _]]].
  apply split_unique; [apply B64pow_pos', zlen_nonneg| |exact E].
  pose proof (lval_bound l' O). pose proof (lval_nonneg l' O).
  unfold zlen in *. rewrite Len in *. lia.
Qed.

Theorem mul_carry_spec : forall l y carry,
  limbs_ok l -> 0 <= y < B64 -> 0 <= carry < B64 ->
  let '(l', c') := mul_carry l y carry in
  lval l' + B64 ^ zlen l * c' = lval l * y + carry /\ limbs_ok l' /\ length l' = length l /\
  0 <= c' < B64.
Proof.
  induction l as [|x r IH]; intros y carry Hl Hy Hc; cbn [mul_carry].
  - rewrite (@zlen_nil Z), Z.pow_0_r. cbn [lval]. repeat split; try lia; constructor.
  - apply limbs_ok_cons in Hl. destruct Hl as [Hx Hr].
    pose proof (scalar_mul_spec x y carry Hx Hy Hc) as S.
    destruct (scalar_mul x y carry) as [lo hi]. destruct S as [Hlo [Hhi Es]].
    specialize (IH y hi Hr Hy Hhi).
    destruct (mul_carry r y hi) as [r' c']. destruct IH as [E1 [O1 [L1 B1]]].
    rewrite zlen_cons, B64pow_succ by apply zlen_nonneg. cbn [lval length].
    split; [|split; [apply limbs_ok_cons; auto|split; [lia|lia]]].
    replace (lo + B64 * lval r' + B64 * B64 ^ zlen r * c')
      with (lo + B64 * (lval r' + B64 ^ zlen r * c')) by ring.
    rewrite E1. lia.
Qed.

Corollary mul_carry_divmod l y carry :
  limbs_ok l -> 0 <= y < B64 -> 0 <= carry < B64 ->
  lval (fst (mul_carry l y carry)) = (lval l * y + carry) mod B64 ^ zlen l /\
  snd (mul_carry l y carry) = (lval l * y + carry) / B64 ^ zlen l.
Proof.
  intros Hl Hy Hc. pose proof (mul_carry_spec l y carry Hl Hy Hc) as S.
  destruct (mul_carry l y carry) as [l' c']. cbn [fst snd].
  destruct S as [E [O [Len _]]].
  apply split_unique; [apply B64pow_pos', zlen_nonneg| |exact E].
  pose proof (lval_bound l' O). pose proof (lval_nonneg l' O).
  unfold zlen in *. rewrite Len in *. lia.
Qed.

Example add_carry_ex :
  add_carry [B64 - 1; B64 - 1; 5] 1 = ([0; 0; 6], 0) /\
  add_carry [B64 - 1; B64 - 1] 7 = ([6; 0], 1) /\ add_carry [] 9 = ([], 9).
Proof. vm_compute. auto. Qed.

Example mul_carry_ex :
  mul_carry [B64 - 1; B64 - 1] (B64 - 1) (B64 - 1) = ([0; 0], B64 - 1) /\
  mul_carry [B64 - 1; B64 - 1] (B64 - 1) 0 = ([1; B64 - 1], B64 - 2).
Proof. vm_compute. auto. Qed.
