From Coq Require Import ZArith List Bool Lia.
From ML Require Import base.RustSem model.Fmt model.Vec model.Number model.Bigint model.Slow model.SrcLib.
From ML Require Import gen.Src gen.SrcBigint gen.SrcSlow gen.Consts gen.Tables gen.PowDump.
Import ListNotations.
Open Scope Z_scope.

Definition eqo (x y : outcome (vec * Z)) : bool :=
  match x, y with
  | Ok (v1, n1), Ok (v2, n2) => (n1 =? n2) && (vcap v1 =? vcap v2) && (if list_eq_dec Z.eq_dec (vl v1) (vl v2) then true else false)
  | Panic k1, Panic k2 => match k1, k2 with PkOverflow, PkOverflow | PkAssert, PkAssert | PkUnwrap, PkUnwrap | PkIndex, PkIndex | PkFuel, PkFuel | PkNoDump, PkNoDump => true | _, _ => false end
  | Ok _, _ | Panic _, _ => false
  | _, _ => false
  end.

Definition digs (n : nat) : list Z := map (fun k => 48 + (Z.of_nat k * 7 + 3) mod 10) (seq 0 n).
Definition tst c b i fr maxd := eqo (rs_parse_mantissa c TABLES LIMITS b i fr maxd) (parse_mantissa c TABLES LIMITS b i fr maxd).

Definition lens := [0;1;18;19;20;38;39;40]%nat.
Definition maxds := [0;1;5;19;20;38;769].
Definition cfgs := [CFG_s; CFG_sc; CFG_sa; CFG_sca].
Definition blds := [release_build; checked_build].

Definition all_tests (mk : nat -> nat -> list Z * list Z) :=
  forallb (fun c => forallb (fun b => forallb (fun n1 => forallb (fun n2 => forallb (fun m =>
     let '(i, fr) := mk n1 n2 in tst c b i fr m) maxds) lens) lens) blds) cfgs.

Eval vm_compute in all_tests (fun n1 n2 => (digs n1, digs n2)).
Eval vm_compute in all_tests (fun n1 n2 => ([], repeat 48 n1 ++ digs n2)).
Eval vm_compute in all_tests (fun n1 n2 => (digs n1 ++ [47] ++ digs n2, digs n2)).
Eval vm_compute in all_tests (fun n1 n2 => (digs n1 ++ [58] ++ digs n2, digs n2 ++ [200] ++ digs n1)).
Eval vm_compute in all_tests (fun n1 n2 => (digs n1 ++ repeat 48 n2, repeat 48 n2)).
Eval vm_compute in all_tests (fun n1 n2 => (digs n1 ++ repeat 48 n2, repeat 48 n2 ++ [49])).
Eval vm_compute in all_tests (fun n1 n2 => (repeat 48 n1, repeat 48 n2 ++ [49] ++ digs n1)).
Eval vm_compute in all_tests (fun n1 n2 => (repeat 200 n1, repeat 48 n2 ++ [-5] ++ digs n1)).
Eval vm_compute in (rs_parse_mantissa CFG_s TABLES LIMITS release_build (digs 3) (digs 3) (-1), parse_mantissa CFG_s TABLES LIMITS release_build (digs 3) (digs 3) (-1)).
Eval vm_compute in (rs_parse_mantissa CFG_s TABLES LIMITS release_build [] (digs 3) (-1), parse_mantissa CFG_s TABLES LIMITS release_build [] (digs 3) (-1)).
Eval vm_compute in (rs_parse_mantissa CFG_s TABLES LIMITS release_build (digs 70) [] (-1), parse_mantissa CFG_s TABLES LIMITS release_build (digs 70) [] (-1)).
