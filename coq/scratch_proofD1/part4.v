
(** ** `round_up_nonzero!` *)
Lemma rs_for_cons {A St R} (x : A) l (body : St -> A -> outcome (ctl St R)) s :
  rs_for (x :: l) body s =
  (r <- body s x ;;
   match r with
   | Next s' => rs_for l body s'
   | Break s' => Ok (inl s')
   | Return v => Ok (inr v)
   end).
Proof.
  unfold rs_for. cbn [rs_for_iter]. rewrite bind_assoc.
  apply bind_ext2; [reflexivity|]. intros [s'|s'|v]; reflexivity.
Qed.

Lemma rs_round_up_eq {R} k : forall l s,
  finv k l s ->
  rs_round_up (R := R) l (pm_count s) (pm_result s)
  = ('(s3, hit) <- pm_round_up c l s ;;
     if hit then Ok (inr (Return (pm_result s3, pm_count s3)))
     else Ok (inl (pm_count s3, pm_result s3))).
Proof.
  unfold rs_round_up.
  induction l as [|d r IH]; intros s (H1 & H2 & H3 & H4 & Hk); [reflexivity|].
  rewrite zlen_cons in H4. pose proof (zlen_nonneg r).
  rewrite rs_for_cons. cbn [pm_round_up]. destruct (negb (d =? 48)).
  - rewrite rs_mul_add_k by (try assumption; try apply u64_10; lia).
    rewrite !bind_assoc. destruct (pm_mul_add c (pm_result s) 10 1) as [r1| |]; cbn [bind]; try reflexivity.
    rewrite usize_add_ok by (unfold u64_ok; lia). reflexivity.
  - cbn [bind]. apply IH. unfold finv. repeat split; try assumption; lia.
Qed.

(** the scan leaves the state unchanged when it finds nothing *)
Lemma pm_round_up_miss : forall l s s3, pm_round_up c l s = Ok (s3, false) -> s3 = s.
Proof.
  induction l as [|d r IH]; intros s s3; cbn [pm_round_up].
  - intros [= <-]. reflexivity.
  - destruct (negb (d =? 48)); [|apply IH].
    destruct (pm_mul_add c (pm_result s) 10 1); cbn [bind]; discriminate.
Qed.

Lemma fin_int_eq fr l counter count value res :
  finv (zlen fr) l (mkPm counter count value res) ->
  fin_int fr count l res = (r <- finm_int fr l (mkPm counter count value res) ;; Ok (Return r)).
Proof.
  intros F. pose proof F as (H1 & H2 & H3 & H4 & Hk). cbn [pm_result pm_count] in *.
  unfold fin_int, finm_int.
  rewrite (rs_round_up_eq (zlen fr) l (mkPm counter count value res) F). rewrite !bind_assoc.
  destruct (pm_round_up c l (mkPm counter count value res)) as [[s3 [|]]| |] eqn:E; cbn [bind];
    try reflexivity.
  apply pm_round_up_miss in E. subst s3. cbn [pm_result pm_count].
  pose proof (zlen_nonneg l).
  rewrite (rs_round_up_eq 0 fr (mkPm counter count value res))
    by (unfold finv; cbn [pm_result pm_count]; repeat split; try assumption; lia).
  rewrite !bind_assoc.
  destruct (pm_round_up c fr (mkPm counter count value res)) as [[s4 [|]]| |]; reflexivity.
Qed.

Lemma fin_frac_eq l counter count value res :
  finv 0 l (mkPm counter count value res) ->
  fin_frac count l res = (r <- finm_frac l (mkPm counter count value res) ;; Ok (Return r)).
Proof.
  intros F. unfold fin_frac, finm_frac.
  rewrite (rs_round_up_eq 0 l (mkPm counter count value res) F). rewrite !bind_assoc.
  destruct (pm_round_up c l (mkPm counter count value res)) as [[s3 [|]]| |]; reflexivity.
Qed.
