From Coq Require Import ZArith List Bool Lia Znumtheory.
From Coq Require Import ZifyBool.
From ML Require Import base.RustSem model.Fmt model.Vec model.Num model.Number model.Bigint model.Slow model.SrcLib.
From ML Require Import gen.Src gen.SrcBigint gen.SrcSlow gen.Consts gen.Tables gen.PowDump.
From ML Require Import proofs.LimbVal proofs.BigintFacts1 proofs.SrcEqBase proofs.SrcEqBigintB.
Import ListNotations.
Ltac Zify.zify_post_hook ::= Z.div_mod_to_equations.
Open Scope Z_scope.
Open Scope rust_scope.
Local Opaque Z.pow.

Section PM.
Variables (c : config) (T : tables) (L : limits) (b : build) (maxd : Z).

Definition St5 := (Z * Z * list Z * vec * Z)%type.
Definition St4 := (Z * Z * list Z * Z)%type.
Definition Ret := (vec * Z)%type.

(** the inner `while counter < step && count < max_digits` ([res] = the big integer, not touched) *)
Definition inner_body (res : vec) : St4 -> outcome (ctl St4 (ctl St5 Ret)) :=
  fun '(v_count, v_counter, v_integer, v_value) =>
    if ((v_counter <? 19) && (v_count <? maxd)) then (
        let '(t1, v_integer) := iter_next v_integer in
        match t1 with Some v_c => (
            t2 <- u8_sub b v_c 48 ;;
            let v_digit := t2 in
            t3 <- u64_mul b v_value 10 ;;
            let v_value := t3 in
            t4 <- u64_add b v_value (as_u64 v_digit) ;;
            let v_value := t4 in
            t5 <- usize_add b v_counter 1 ;;
            let v_counter := t5 in
            t6 <- usize_add b v_count 1 ;;
            let v_count := t6 in
            Ok (Next (v_count, v_counter, v_integer, v_value))
        ) | None => (
            Ok (Return (Break (v_count, v_counter, v_integer, res, v_value)))
        ) end
    ) else (
        Ok (Break (v_count, v_counter, v_integer, v_value))
    ).

(** `add_temporary!(@mul ..)` *)
Definition rs_mul_add (v_result : vec) (power value : Z) : outcome vec :=
  t9 <- rs_small_mul c b v_result power ;;
  v_result <- unwrap t9 ;;
  t10 <- rs_small_add c b v_result value ;;
  v_result <- unwrap t10 ;;
  Ok v_result.

(** `add_temporary!(@end ..)` *)
Definition rs_flush_end (v_counter : Z) (v_result : vec) (v_value : Z) : outcome vec :=
  if (negb (v_counter =? 0)) then (
      t8 <- int_pow_fast_path c T b v_counter true ;;
      let v_small_power := t8 in
      t9 <- rs_small_mul c b v_result v_small_power ;;
      v_result <- unwrap t9 ;;
      t10 <- rs_small_add c b v_result v_value ;;
      v_result <- unwrap t10 ;;
      Ok v_result
  ) else (
      Ok v_result
  ).

(** `round_up_nonzero!` *)
Definition rs_round_up {R : Type} (l : list Z) (v_count : Z) (v_result : vec)
    : outcome ((Z * vec) + ctl R Ret) :=
  rs_for (St := (Z * vec)) l (fun '(v_count, v_result) v_digit =>
        if (negb (v_digit =? 48)) then (
            t11 <- rs_small_mul c b v_result 10 ;;
            v_result <- unwrap t11 ;;
            t12 <- rs_small_add c b v_result 1 ;;
            v_result <- unwrap t12 ;;
            t13 <- usize_add b v_count 1 ;;
            let v_count := t13 in
            Ok (Return (Return (v_result, v_count)))
        ) else (
            Ok (Next (v_count, v_result))
        ))
      (v_count, v_result).

(** what follows the inner loop in one iteration of the outer `loop`; [fin] = the scans after
    `add_temporary!(@end ..)` when `count == max_digits` *)
Definition post (fin : Z -> list Z -> vec -> outcome (ctl St5 Ret)) (v_result : vec)
    (t7 : St4 + ctl St5 Ret) : outcome (ctl St5 Ret) :=
  match t7 with
  | inr r => Ok r
  | inl (v_count, v_counter, v_integer, v_value) =>
      if (v_count =? maxd) then (
          v_result <- rs_flush_end v_counter v_result v_value ;;
          fin v_count v_integer v_result
      ) else (
          t19 <- rs_small_mul c b v_result 10000000000000000000 ;;
          v_result <- unwrap t19 ;;
          t20 <- rs_small_add c b v_result v_value ;;
          v_result <- unwrap t20 ;;
          let v_counter := 0 in
          let v_value := 0 in
          Ok (Next (v_count, v_counter, v_integer, v_result, v_value))
      )
  end.

Definition outer_body (fin : Z -> list Z -> vec -> outcome (ctl St5 Ret)) : St5 -> outcome (ctl St5 Ret) :=
  fun '(v_count, v_counter, v_integer, v_result, v_value) =>
    t7 <- rs_loop (S (length v_integer)) (inner_body v_result) (v_count, v_counter, v_integer, v_value) ;;
    post fin v_result t7.

Definition fin_int (fr : list Z) (v_count : Z) (v_integer : list Z) (v_result : vec) : outcome (ctl St5 Ret) :=
  t14 <- rs_round_up v_integer v_count v_result ;;
  match t14 with
  | inr r => Ok r
  | inl (v_count, v_result) =>
      t18 <- rs_round_up fr v_count v_result ;;
      match t18 with
      | inr r => Ok r
      | inl (v_count, v_result) => Ok (Return (v_result, v_count))
      end
  end.

Definition fin_frac (v_count : Z) (v_fraction : list Z) (v_result : vec) : outcome (ctl St5 Ret) :=
  t41 <- rs_round_up v_fraction v_count v_result ;;
  match t41 with
  | inr r => Ok r
  | inl (v_count, v_result) => Ok (Return (v_result, v_count))
  end.

(** the `for &c in &mut fraction` that skips the leading zeros *)
Definition rs_skip (v_fraction : list Z) (v_count v_counter v_value : Z) :=
  rs_for_iter (St := (Z * Z * Z)) (R := Empty_set) v_fraction (fun '(v_count, v_counter, v_value) v_c =>
        if (negb (v_c =? 48)) then (
            t22 <- u8_sub b v_c 48 ;;
            let v_digit := t22 in
            t23 <- u64_mul b v_value 10 ;;
            let v_value := t23 in
            t24 <- u64_add b v_value (as_u64 v_digit) ;;
            let v_value := t24 in
            t25 <- usize_add b v_counter 1 ;;
            let v_counter := t25 in
            t26 <- usize_add b v_count 1 ;;
            let v_count := t26 in
            Ok (Break (v_count, v_counter, v_value))
        ) else (
            Ok (Next (v_count, v_counter, v_value))
        ))
      (v_count, v_counter, v_value).

Lemma rs_parse_mantissa_unfold i fr :
  rs_parse_mantissa c T L b i fr maxd =
  (t21 <- rs_loop (S (S (length i))) (outer_body (fin_int fr)) (0, 0, i, vnew L, 0) ;;
   match t21 with
   | inr r => Ok r
   | inl (v_count, v_counter, v_integer, v_result, v_value) =>
      '(v_count, v_counter, v_fraction, v_value) <- (if (v_count =? 0) then (
          t27 <- rs_skip fr v_count v_counter v_value ;;
          let '((v_count, v_counter, v_value), v_fraction) := no_return t27 in
          Ok (v_count, v_counter, v_fraction, v_value)
      ) else (
          Ok (v_count, v_counter, fr, v_value)
      )) ;;
      t44 <- rs_loop (S (S (length v_fraction))) (outer_body fin_frac) (v_count, v_counter, v_fraction, v_result, v_value) ;;
      match t44 with
      | inr r => Ok r
      | inl (v_count, v_counter, v_fraction, v_result, v_value) =>
          v_result <- rs_flush_end v_counter v_result v_value ;;
          Ok (v_result, v_count)
      end
   end).
Proof. reflexivity. Qed.

(** ** the model side, with the same factorisation *)
Definition cond (s : pm_state) : bool := (pm_counter s <? 19) && (pm_count s <? maxd).

Fixpoint pm_gen (finm : list Z -> pm_state -> outcome Ret) (l : list Z) (s : pm_state)
    : outcome (pm_state + Ret) :=
  h <- pm_settle c maxd s ;;
  match h with
  | PmDiverge => Panic PkFuel
  | PmFinish s1 =>
      s2 <- pm_flush_end c T b s1 ;;
      r <- finm l s2 ;;
      Ok (inr r)
  | PmRead s1 =>
      match l with
      | [] => Ok (inl s1)
      | ch :: r => s2 <- pm_add_digit b ch s1 ;; pm_gen finm r s2
      end
  end.

Definition finm_int (fr l : list Z) (s2 : pm_state) : outcome Ret :=
  '(s3, hit) <- pm_round_up c l s2 ;;
  if hit then Ok (pm_result s3, pm_count s3)
  else
    '(s4, _) <- pm_round_up c fr s3 ;;
    Ok (pm_result s4, pm_count s4).

Definition finm_frac (l : list Z) (s2 : pm_state) : outcome Ret :=
  '(s3, _) <- pm_round_up c l s2 ;;
  Ok (pm_result s3, pm_count s3).

Lemma pm_int_gen fr : forall l s, pm_int c T b maxd l fr s = pm_gen (finm_int fr) l s.
Proof.
  induction l as [|ch r IH]; intros s; cbn [pm_int pm_gen].
  - apply bind_ext2; [reflexivity|]. intros [s1|s1|]; try reflexivity.
    apply bind_ext2; [reflexivity|]. intros s2. unfold finm_int. rewrite bind_assoc.
    apply bind_ext2; [reflexivity|]. intros [s3 [|]]; [reflexivity|]. rewrite bind_assoc.
    apply bind_ext2; [reflexivity|]. intros [s4 h]. reflexivity.
  - apply bind_ext2; [reflexivity|]. intros [s1|s1|]; try reflexivity.
    + apply bind_ext2; [reflexivity|]. intros s2. apply IH.
    + apply bind_ext2; [reflexivity|]. intros s2. unfold finm_int. rewrite bind_assoc.
      apply bind_ext2; [reflexivity|]. intros [s3 [|]]; [reflexivity|]. rewrite bind_assoc.
      apply bind_ext2; [reflexivity|]. intros [s4 h]. reflexivity.
Qed.

Lemma pm_frac_gen : forall l s,
  pm_frac c T b maxd l s =
  (r <- pm_gen finm_frac l s ;;
   match r with
   | inr res => Ok res
   | inl s1 => s2 <- pm_flush_end c T b s1 ;; Ok (pm_result s2, pm_count s2)
   end).
Proof.
  induction l as [|ch r IH]; intros s; cbn [pm_frac pm_gen]; rewrite bind_assoc;
    (apply bind_ext2; [reflexivity|]); intros [s1|s1|]; try reflexivity.
  - rewrite bind_assoc. apply bind_ext2; [reflexivity|]. intros s2. unfold finm_frac.
    rewrite !bind_assoc. apply bind_ext2; [reflexivity|]. intros [s3 h]. reflexivity.
  - rewrite bind_assoc. apply bind_ext2; [reflexivity|]. intros s2. apply IH.
  - rewrite bind_assoc. apply bind_ext2; [reflexivity|]. intros s2. unfold finm_frac.
    rewrite !bind_assoc. apply bind_ext2; [reflexivity|]. intros [s3 h]. reflexivity.
Qed.

(** ** ranges *)
Lemma u64_ok_B64 x : u64_ok x <-> 0 <= x < B64.
Proof. unfold u64_ok. rewrite B64_2_64. reflexivity. Qed.

Lemma u8_sub_range ch d : u8_sub b ch 48 = Ok d -> u64_ok d.
Proof.
  intros H. apply uop_range in H; [|lia]. unfold u64_ok.
  assert (2 ^ 8 < 2 ^ 64) by reflexivity. lia.
Qed.

Lemma uop64_range r a : uop b 64 r = Ok a -> u64_ok a.
Proof. apply uop_range. lia. Qed.

Lemma u64_10 : u64_ok 10. Proof. split; [lia|reflexivity]. Qed.
Lemma u64_1 : u64_ok 1. Proof. split; [lia|reflexivity]. Qed.
Lemma u64_0 : u64_ok 0. Proof. split; [lia|reflexivity]. Qed.
Lemma u64_max_native : u64_ok pm_max_native. Proof. split; [unfold pm_max_native; lia|reflexivity]. Qed.

(** the table entries are u64 values (by their Rust type `[u64; N]`) *)
Hypothesis HT : compact c = false -> limbs_ok (SMALL_INT_POW10 T).

Lemma int_pow10_u64 k sp : int_pow_fast_path c T b k true = Ok sp -> u64_ok sp.
Proof.
  unfold int_pow_fast_path. destruct (compact c).
  - apply uop_range. lia.
  - specialize (HT eq_refl). unfold index_unchecked. destruct (_ && _) eqn:E; [|discriminate].
    intros [= <-]. apply (limbs_ok_u64 _ _ HT). apply nth_In. lia.
Qed.

(** ** `mul_small(power).unwrap(); add_small(value).unwrap()` *)
Lemma small_add_facts v y v' : limbs_ok (vl v) -> u64_ok y -> small_add c v y = Some v' ->
  limbs_ok (vl v') /\ zlen (vl v') <= zlen (vl v) + 1.
Proof.
  intros Hl Hy E. apply small_add_spec in E; [|exact Hl|apply u64_ok_B64; exact Hy].
  destruct E as [_ [O [Len _]]]. split; [exact O|].
  destruct (_ <=? _) in Len; lia.
Qed.

Lemma pm_mul_add_facts r p v r' : limbs_ok (vl r) -> u64_ok p -> u64_ok v ->
  pm_mul_add c r p v = Ok r' -> limbs_ok (vl r') /\ zlen (vl r') <= zlen (vl r) + 2.
Proof.
  intros Hl Hp Hv. unfold pm_mul_add.
  destruct (small_mul c r p) as [r1|] eqn:E1; cbn [unwrap bind]; [|discriminate].
  destruct (small_mul_facts c r p r1 Hl Hp E1) as [O1 L1].
  destruct (small_add c r1 v) as [r2|] eqn:E2; cbn [unwrap]; [|discriminate].
  destruct (small_add_facts r1 v r2 O1 Hv E2) as [O2 L2].
  intros [= <-]. split; [exact O2|lia].
Qed.

Lemma rs_mul_add_k {A} r p v (k : vec -> outcome A) :
  limbs_ok (vl r) -> u64_ok p -> zlen (vl r) + 1 < 2 ^ 64 ->
  (t9 <- rs_small_mul c b r p ;; r1 <- unwrap t9 ;;
   t10 <- rs_small_add c b r1 v ;; r2 <- unwrap t10 ;; k r2)
  = (r' <- pm_mul_add c r p v ;; k r').
Proof.
  intros Hl Hp Hn. unfold pm_mul_add. rewrite rs_small_mul_eq by assumption. cbn [bind].
  destruct (small_mul c r p) as [r1|] eqn:E1; cbn [unwrap bind]; [|reflexivity].
  destruct (small_mul_facts c r p r1 Hl Hp E1) as [O1 L1].
  rewrite rs_small_add_eq by lia. cbn [bind].
  destruct (small_add c r1 v) as [r2|]; reflexivity.
Qed.

(** ** the loop invariant.  [N] bounds the number of digits that can still be counted
    ([k] of them in the other iterator) *)
Variable N : Z.
Hypothesis HN : N + 1 < 2 ^ 64.

Definition pinv (k : Z) (l : list Z) (s : pm_state) : Prop :=
  limbs_ok (vl (pm_result s)) /\
  zlen (vl (pm_result s)) + pm_counter s <= pm_count s /\
  0 <= pm_counter s /\
  pm_count s <= maxd /\
  pm_count s + zlen l + k <= N /\
  (u64_ok (pm_value s) /\ 0 <= k).

Lemma pinv_shorter k ch r s : pinv k (ch :: r) s -> pinv k r s.
Proof.
  unfold pinv. rewrite zlen_cons. intros (H1 & H2 & H3 & H4 & H5 & H6 & Hk).
  repeat split; try assumption; try lia; apply H6.
Qed.

(** `add_digit!`: the source increments the two counters with checked `usize` additions and
    casts the digit *)
Lemma rs_add_digit_k {A} k ch r s (K : Z -> Z -> Z -> outcome A) :
  pinv k (ch :: r) s ->
  (t2 <- u8_sub b ch 48 ;;
   t3 <- u64_mul b (pm_value s) 10 ;;
   t4 <- u64_add b t3 (as_u64 t2) ;;
   t5 <- usize_add b (pm_counter s) 1 ;;
   t6 <- usize_add b (pm_count s) 1 ;;
   K t6 t5 t4)
  = (s2 <- pm_add_digit b ch s ;; K (pm_count s2) (pm_counter s2) (pm_value s2)).
Proof.
  intros (H1 & H2 & H3 & H4 & H5 & H6 & Hk). rewrite zlen_cons in H5.
  pose proof (zlen_nonneg r). pose proof (zlen_nonneg (vl (pm_result s))).
  unfold pm_add_digit. rewrite !bind_assoc.
  destruct (u8_sub b ch 48) as [d| |] eqn:E; cbn [bind]; try reflexivity.
  rewrite (as_u64_small d) by (exact (u8_sub_range _ _ E)).
  destruct (u64_mul b (pm_value s) 10) as [t3| |]; cbn [bind]; try reflexivity.
  destruct (u64_add b t3 d) as [t4| |]; cbn [bind]; try reflexivity.
  rewrite !usize_add_ok by (unfold u64_ok; lia). cbn [bind pm_count pm_counter pm_value]. reflexivity.
Qed.

Lemma pinv_add_digit k ch r s s2 :
  pinv k (ch :: r) s -> cond s = true -> pm_add_digit b ch s = Ok s2 ->
  pinv k r s2 /\ pm_result s2 = pm_result s.
Proof.
  intros (H1 & H2 & H3 & H4 & H5 & H6 & Hk) Hc E. rewrite zlen_cons in H5. unfold cond in Hc.
  unfold pm_add_digit in E.
  destruct (u8_sub b ch 48) as [d| |]; cbn [bind] in E; try discriminate.
  destruct (u64_mul b (pm_value s) 10) as [t3| |]; cbn [bind] in E; try discriminate.
  destruct (u64_add b t3 d) as [t4| |] eqn:E4; cbn [bind] in E; try discriminate.
  injection E as <-. split; [|reflexivity]. unfold pinv. cbn [pm_result pm_counter pm_count pm_value].
  repeat split; try assumption; try lia; apply (uop64_range _ _ E4).
Qed.

(** `add_temporary!(@max ..)` *)
Lemma pinv_flush_max k l s s' :
  pinv k l s -> cond s = false -> pm_count s <> maxd -> pm_flush_max c s = Ok s' ->
  pinv k l s' /\ cond s' = true /\ pm_count s' = pm_count s.
Proof.
  intros (H1 & H2 & H3 & H4 & H5 & H6 & Hk) Hc Hne E. unfold cond in Hc.
  unfold pm_flush_max in E.
  destruct (pm_mul_add c (pm_result s) pm_max_native (pm_value s)) as [r'| |] eqn:E1;
    cbn [bind] in E; try discriminate.
  injection E as <-.
  destruct (pm_mul_add_facts _ _ _ _ H1 u64_max_native H6 E1) as [O L'].
  unfold pinv, cond. cbn [pm_result pm_counter pm_count pm_value].
  split; [|split; [lia|reflexivity]].
  repeat split; try assumption; try lia.
Qed.

Lemma rs_flush_max_k {A} k l s (K : vec -> outcome A) :
  pinv k l s -> cond s = false -> pm_count s <> maxd ->
  (t19 <- rs_small_mul c b (pm_result s) 10000000000000000000 ;;
   v_result <- unwrap t19 ;;
   t20 <- rs_small_add c b v_result (pm_value s) ;;
   v_result <- unwrap t20 ;;
   K v_result)
  = (s' <- pm_flush_max c s ;; K (pm_result s')).
Proof.
  intros (H1 & H2 & H3 & H4 & H5 & H6 & Hk) Hc Hne. unfold cond in Hc.
  pose proof (zlen_nonneg l).
  change 10000000000000000000 with pm_max_native.
  rewrite rs_mul_add_k by (try assumption; try apply u64_max_native; lia).
  unfold pm_flush_max. rewrite bind_assoc. reflexivity.
Qed.

(** `add_temporary!(@end ..)` *)
Lemma rs_flush_end_eq k l s :
  pinv k l s ->
  rs_flush_end (pm_counter s) (pm_result s) (pm_value s)
  = (s2 <- pm_flush_end c T b s ;; Ok (pm_result s2)).
Proof.
  intros (H1 & H2 & H3 & H4 & H5 & H6 & Hk). pose proof (zlen_nonneg l).
  unfold rs_flush_end, pm_flush_end. destruct (negb (pm_counter s =? 0)) eqn:E0; [|reflexivity].
  rewrite bind_assoc.
  destruct (int_pow_fast_path c T b (pm_counter s) true) as [sp| |] eqn:Ep; cbn [bind]; try reflexivity.
  rewrite rs_mul_add_k by (try assumption; try (exact (int_pow10_u64 _ _ Ep)); lia).
  rewrite bind_assoc. reflexivity.
Qed.

(** what the scans after `add_temporary!(@end ..)` rely on *)
Definition finv (k : Z) (l : list Z) (s : pm_state) : Prop :=
  limbs_ok (vl (pm_result s)) /\
  zlen (vl (pm_result s)) <= pm_count s + 1 /\
  0 <= pm_count s /\
  (pm_count s + zlen l + k <= N /\ 0 <= k).

Lemma pm_flush_end_facts k l s s2 :
  pinv k l s -> pm_flush_end c T b s = Ok s2 ->
  finv k l s2 /\ pm_count s2 = pm_count s /\ pm_counter s2 = pm_counter s /\ pm_value s2 = pm_value s.
Proof.
  intros (H1 & H2 & H3 & H4 & H5 & H6 & Hk) E. pose proof (zlen_nonneg (vl (pm_result s))).
  unfold pm_flush_end in E. destruct (negb (pm_counter s =? 0)) eqn:E0.
  - destruct (int_pow_fast_path c T b (pm_counter s) true) as [sp| |] eqn:Ep; cbn [bind] in E; try discriminate.
    destruct (pm_mul_add c (pm_result s) sp (pm_value s)) as [r'| |] eqn:E1; cbn [bind] in E; try discriminate.
    injection E as <-.
    destruct (pm_mul_add_facts _ _ _ _ H1 (int_pow10_u64 _ _ Ep) H6 E1) as [O L'].
    unfold finv. cbn [pm_result pm_counter pm_count pm_value].
    repeat split; try assumption; lia.
  - injection E as <-. unfold finv. repeat split; try assumption; lia.
Qed.

(** ** `round_up_nonzero!` *)
Lemma rs_for_cons {A St R} (x : A) l (body : St -> A -> outcome (ctl St R)) s :
  rs_for (x :: l) body s =
  (r <- body s x ;;
   match r with
   | Next s' => rs_for l body s'
   | Break s' => Ok (inl s')
   | Return v => Ok (inr v)
   end).
Proof.
  unfold rs_for. cbn [rs_for_iter]. rewrite bind_assoc.
  apply bind_ext2; [reflexivity|]. intros [s'|s'|v]; reflexivity.
Qed.

Lemma rs_round_up_eq {R} k : forall l s,
  finv k l s ->
  rs_round_up (R := R) l (pm_count s) (pm_result s)
  = ('(s3, hit) <- pm_round_up c l s ;;
     if hit then Ok (inr (Return (pm_result s3, pm_count s3)))
     else Ok (inl (pm_count s3, pm_result s3))).
Proof.
  unfold rs_round_up.
  induction l as [|d r IH]; intros s (H1 & H2 & H3 & H4 & Hk); [reflexivity|].
  rewrite zlen_cons in H4. pose proof (zlen_nonneg r).
  rewrite rs_for_cons. cbn [pm_round_up]. destruct (negb (d =? 48)).
  - rewrite rs_mul_add_k by (try assumption; try apply u64_10; lia).
    rewrite !bind_assoc. destruct (pm_mul_add c (pm_result s) 10 1) as [r1| |]; cbn [bind]; try reflexivity.
    rewrite usize_add_ok by (unfold u64_ok; lia). reflexivity.
  - cbn [bind]. apply IH. unfold finv. repeat split; try assumption; lia.
Qed.

(** the scan leaves the state unchanged when it finds nothing *)
Lemma pm_round_up_miss : forall l s s3, pm_round_up c l s = Ok (s3, false) -> s3 = s.
Proof.
  induction l as [|d r IH]; intros s s3; cbn [pm_round_up].
  - intros [= <-]. reflexivity.
  - destruct (negb (d =? 48)); [|apply IH].
    destruct (pm_mul_add c (pm_result s) 10 1); cbn [bind]; discriminate.
Qed.

Lemma fin_int_eq fr l counter count value res :
  finv (zlen fr) l (mkPm counter count value res) ->
  fin_int fr count l res = (r <- finm_int fr l (mkPm counter count value res) ;; Ok (Return r)).
Proof.
  intros F. pose proof F as (H1 & H2 & H3 & H4 & Hk). cbn [pm_result pm_count] in *.
  unfold fin_int, finm_int.
  rewrite (rs_round_up_eq (zlen fr) l (mkPm counter count value res) F). rewrite !bind_assoc.
  destruct (pm_round_up c l (mkPm counter count value res)) as [[s3 [|]]| |] eqn:E; cbn [bind];
    try reflexivity.
  apply pm_round_up_miss in E. subst s3. cbn [pm_result pm_count].
  pose proof (zlen_nonneg l).
  rewrite (rs_round_up_eq 0 fr (mkPm counter count value res))
    by (unfold finv; cbn [pm_result pm_count]; repeat split; try assumption; lia).
  rewrite !bind_assoc.
  destruct (pm_round_up c fr (mkPm counter count value res)) as [[s4 [|]]| |]; reflexivity.
Qed.

Lemma fin_frac_eq l counter count value res :
  finv 0 l (mkPm counter count value res) ->
  fin_frac count l res = (r <- finm_frac l (mkPm counter count value res) ;; Ok (Return r)).
Proof.
  intros F. unfold fin_frac, finm_frac.
  rewrite (rs_round_up_eq 0 l (mkPm counter count value res) F). rewrite !bind_assoc.
  destruct (pm_round_up c l (mkPm counter count value res)) as [[s3 [|]]| |]; reflexivity.
Qed.
End PM.
