From Coq Require Import ZArith List Bool Lia Znumtheory.
From Coq Require Import ZifyBool.
From ML Require Import base.RustSem model.Fmt model.Vec model.Num model.Number model.Bigint model.Slow model.SrcLib.
From ML Require Import gen.Src gen.SrcBigint gen.SrcSlow gen.Consts gen.Tables gen.PowDump.
From ML Require Import proofs.LimbVal proofs.BigintFacts1 proofs.SrcEqBase proofs.SrcEqBigintB.
Import ListNotations.
Ltac Zify.zify_post_hook ::= Z.div_mod_to_equations.
Open Scope Z_scope.
Open Scope rust_scope.
Local Opaque Z.pow.

Section PM.
Variables (c : config) (T : tables) (L : limits) (b : build) (maxd : Z).

Definition St5 := (Z * Z * list Z * vec * Z)%type.
Definition St4 := (Z * Z * list Z * Z)%type.
Definition Ret := (vec * Z)%type.

(** the inner `while counter < step && count < max_digits` ([res] = the big integer, not touched) *)
Definition inner_body (res : vec) : St4 -> outcome (ctl St4 (ctl St5 Ret)) :=
  fun '(v_count, v_counter, v_integer, v_value) =>
    if ((v_counter <? 19) && (v_count <? maxd)) then (
        let '(t1, v_integer) := iter_next v_integer in
        match t1 with Some v_c => (
            t2 <- u8_sub b v_c 48 ;;
            let v_digit := t2 in
            t3 <- u64_mul b v_value 10 ;;
            let v_value := t3 in
            t4 <- u64_add b v_value (as_u64 v_digit) ;;
            let v_value := t4 in
            t5 <- usize_add b v_counter 1 ;;
            let v_counter := t5 in
            t6 <- usize_add b v_count 1 ;;
            let v_count := t6 in
            Ok (Next (v_count, v_counter, v_integer, v_value))
        ) | None => (
            Ok (Return (Break (v_count, v_counter, v_integer, res, v_value)))
        ) end
    ) else (
        Ok (Break (v_count, v_counter, v_integer, v_value))
    ).

(** `add_temporary!(@mul ..)` *)
Definition rs_mul_add (v_result : vec) (power value : Z) : outcome vec :=
  t9 <- rs_small_mul c b v_result power ;;
  v_result <- unwrap t9 ;;
  t10 <- rs_small_add c b v_result value ;;
  v_result <- unwrap t10 ;;
  Ok v_result.

(** `add_temporary!(@end ..)` *)
Definition rs_flush_end (v_counter : Z) (v_result : vec) (v_value : Z) : outcome vec :=
  if (negb (v_counter =? 0)) then (
      t8 <- int_pow_fast_path c T b v_counter true ;;
      let v_small_power := t8 in
      t9 <- rs_small_mul c b v_result v_small_power ;;
      v_result <- unwrap t9 ;;
      t10 <- rs_small_add c b v_result v_value ;;
      v_result <- unwrap t10 ;;
      Ok v_result
  ) else (
      Ok v_result
  ).

(** `round_up_nonzero!` *)
Definition rs_round_up {R : Type} (l : list Z) (v_count : Z) (v_result : vec)
    : outcome ((Z * vec) + ctl R Ret) :=
  rs_for (St := (Z * vec)) l (fun '(v_count, v_result) v_digit =>
        if (negb (v_digit =? 48)) then (
            t11 <- rs_small_mul c b v_result 10 ;;
            v_result <- unwrap t11 ;;
            t12 <- rs_small_add c b v_result 1 ;;
            v_result <- unwrap t12 ;;
            t13 <- usize_add b v_count 1 ;;
            let v_count := t13 in
            Ok (Return (Return (v_result, v_count)))
        ) else (
            Ok (Next (v_count, v_result))
        ))
      (v_count, v_result).

(** what follows the inner loop in one iteration of the outer `loop`; [fin] = the scans after
    `add_temporary!(@end ..)` when `count == max_digits` *)
Definition post (fin : Z -> list Z -> vec -> outcome (ctl St5 Ret)) (v_result : vec)
    (t7 : St4 + ctl St5 Ret) : outcome (ctl St5 Ret) :=
  match t7 with
  | inr r => Ok r
  | inl (v_count, v_counter, v_integer, v_value) =>
      if (v_count =? maxd) then (
          v_result <- rs_flush_end v_counter v_result v_value ;;
          fin v_count v_integer v_result
      ) else (
          t19 <- rs_small_mul c b v_result 10000000000000000000 ;;
          v_result <- unwrap t19 ;;
          t20 <- rs_small_add c b v_result v_value ;;
          v_result <- unwrap t20 ;;
          let v_counter := 0 in
          let v_value := 0 in
          Ok (Next (v_count, v_counter, v_integer, v_result, v_value))
      )
  end.

Definition outer_body (fin : Z -> list Z -> vec -> outcome (ctl St5 Ret)) : St5 -> outcome (ctl St5 Ret) :=
  fun '(v_count, v_counter, v_integer, v_result, v_value) =>
    t7 <- rs_loop (S (length v_integer)) (inner_body v_result) (v_count, v_counter, v_integer, v_value) ;;
    post fin v_result t7.

Definition fin_int (fr : list Z) (v_count : Z) (v_integer : list Z) (v_result : vec) : outcome (ctl St5 Ret) :=
  t14 <- rs_round_up v_integer v_count v_result ;;
  match t14 with
  | inr r => Ok r
  | inl (v_count, v_result) =>
      t18 <- rs_round_up fr v_count v_result ;;
      match t18 with
      | inr r => Ok r
      | inl (v_count, v_result) => Ok (Return (v_result, v_count))
      end
  end.

Definition fin_frac (v_count : Z) (v_fraction : list Z) (v_result : vec) : outcome (ctl St5 Ret) :=
  t41 <- rs_round_up v_fraction v_count v_result ;;
  match t41 with
  | inr r => Ok r
  | inl (v_count, v_result) => Ok (Return (v_result, v_count))
  end.

(** the `for &c in &mut fraction` that skips the leading zeros *)
Definition rs_skip (v_fraction : list Z) (v_count v_counter v_value : Z) :=
  rs_for_iter (St := (Z * Z * Z)) (R := Empty_set) v_fraction (fun '(v_count, v_counter, v_value) v_c =>
        if (negb (v_c =? 48)) then (
            t22 <- u8_sub b v_c 48 ;;
            let v_digit := t22 in
            t23 <- u64_mul b v_value 10 ;;
            let v_value := t23 in
            t24 <- u64_add b v_value (as_u64 v_digit) ;;
            let v_value := t24 in
            t25 <- usize_add b v_counter 1 ;;
            let v_counter := t25 in
            t26 <- usize_add b v_count 1 ;;
            let v_count := t26 in
            Ok (Break (v_count, v_counter, v_value))
        ) else (
            Ok (Next (v_count, v_counter, v_value))
        ))
      (v_count, v_counter, v_value).

Lemma rs_parse_mantissa_unfold i fr :
  rs_parse_mantissa c T L b i fr maxd =
  (t21 <- rs_loop (S (S (length i))) (outer_body (fin_int fr)) (0, 0, i, vnew L, 0) ;;
   match t21 with
   | inr r => Ok r
   | inl (v_count, v_counter, v_integer, v_result, v_value) =>
      '(v_count, v_counter, v_fraction, v_value) <- (if (v_count =? 0) then (
          t27 <- rs_skip fr v_count v_counter v_value ;;
          let '((v_count, v_counter, v_value), v_fraction) := no_return t27 in
          Ok (v_count, v_counter, v_fraction, v_value)
      ) else (
          Ok (v_count, v_counter, fr, v_value)
      )) ;;
      t44 <- rs_loop (S (S (length v_fraction))) (outer_body fin_frac) (v_count, v_counter, v_fraction, v_result, v_value) ;;
      match t44 with
      | inr r => Ok r
      | inl (v_count, v_counter, v_fraction, v_result, v_value) =>
          v_result <- rs_flush_end v_counter v_result v_value ;;
          Ok (v_result, v_count)
      end
   end).
Proof. reflexivity. Qed.

