
(** ** ranges *)
Lemma u64_ok_B64 x : u64_ok x <-> 0 <= x < B64.
Proof. unfold u64_ok. rewrite B64_2_64. reflexivity. Qed.

Lemma u8_sub_range ch d : u8_sub b ch 48 = Ok d -> u64_ok d.
Proof.
  intros H. apply uop_range in H; [|lia]. unfold u64_ok.
  assert (2 ^ 8 < 2 ^ 64) by reflexivity. lia.
Qed.

Lemma uop64_range r a : uop b 64 r = Ok a -> u64_ok a.
Proof. apply uop_range. lia. Qed.

Lemma u64_10 : u64_ok 10. Proof. split; [lia|reflexivity]. Qed.
Lemma u64_1 : u64_ok 1. Proof. split; [lia|reflexivity]. Qed.
Lemma u64_0 : u64_ok 0. Proof. split; [lia|reflexivity]. Qed.
Lemma u64_max_native : u64_ok pm_max_native. Proof. split; [unfold pm_max_native; lia|reflexivity]. Qed.

(** the table entries are u64 values (by their Rust type `[u64; N]`) *)
Hypothesis HT : compact c = false -> limbs_ok (SMALL_INT_POW10 T).

Lemma int_pow10_u64 k sp : int_pow_fast_path c T b k true = Ok sp -> u64_ok sp.
Proof.
  unfold int_pow_fast_path. destruct (compact c).
  - apply uop_range. lia.
  - specialize (HT eq_refl). unfold index_unchecked. destruct (_ && _) eqn:E; [|discriminate].
    intros [= <-]. apply (limbs_ok_u64 _ _ HT). apply nth_In. lia.
Qed.

(** ** `mul_small(power).unwrap(); add_small(value).unwrap()` *)
Lemma small_add_facts v y v' : limbs_ok (vl v) -> u64_ok y -> small_add c v y = Some v' ->
  limbs_ok (vl v') /\ zlen (vl v') <= zlen (vl v) + 1.
Proof.
  intros Hl Hy E. apply small_add_spec in E; [|exact Hl|apply u64_ok_B64; exact Hy].
  destruct E as [_ [O [Len _]]]. split; [exact O|].
  destruct (_ <=? _) in Len; lia.
Qed.

Lemma pm_mul_add_facts r p v r' : limbs_ok (vl r) -> u64_ok p -> u64_ok v ->
  pm_mul_add c r p v = Ok r' -> limbs_ok (vl r') /\ zlen (vl r') <= zlen (vl r) + 2.
Proof.
  intros Hl Hp Hv. unfold pm_mul_add.
  destruct (small_mul c r p) as [r1|] eqn:E1; cbn [unwrap bind]; [|discriminate].
  destruct (small_mul_facts c r p r1 Hl Hp E1) as [O1 L1].
  destruct (small_add c r1 v) as [r2|] eqn:E2; cbn [unwrap]; [|discriminate].
  destruct (small_add_facts r1 v r2 O1 Hv E2) as [O2 L2].
  intros [= <-]. split; [exact O2|lia].
Qed.

Lemma rs_mul_add_k {A} r p v (k : vec -> outcome A) :
  limbs_ok (vl r) -> u64_ok p -> zlen (vl r) + 1 < 2 ^ 64 ->
  (t9 <- rs_small_mul c b r p ;; r1 <- unwrap t9 ;;
   t10 <- rs_small_add c b r1 v ;; r2 <- unwrap t10 ;; k r2)
  = (r' <- pm_mul_add c r p v ;; k r').
Proof.
  intros Hl Hp Hn. unfold pm_mul_add. rewrite rs_small_mul_eq by assumption. cbn [bind].
  destruct (small_mul c r p) as [r1|] eqn:E1; cbn [unwrap bind]; [|reflexivity].
  destruct (small_mul_facts c r p r1 Hl Hp E1) as [O1 L1].
  rewrite rs_small_add_eq by lia. cbn [bind].
  destruct (small_add c r1 v) as [r2|]; reflexivity.
Qed.

(** ** the loop invariant.  [N] bounds the number of digits that can still be counted
    ([k] of them in the other iterator) *)
Variable N : Z.
Hypothesis HN : N + 1 < 2 ^ 64.

Definition pinv (k : Z) (l : list Z) (s : pm_state) : Prop :=
  limbs_ok (vl (pm_result s)) /\
  zlen (vl (pm_result s)) + pm_counter s <= pm_count s /\
  0 <= pm_counter s /\
  pm_count s <= maxd /\
  pm_count s + zlen l + k <= N /\
  (u64_ok (pm_value s) /\ 0 <= k).

Lemma pinv_shorter k ch r s : pinv k (ch :: r) s -> pinv k r s.
Proof.
  unfold pinv. rewrite zlen_cons. intros (H1 & H2 & H3 & H4 & H5 & H6 & Hk).
  repeat split; try assumption; try lia; apply H6.
Qed.

(** `add_digit!`: the source increments the two counters with checked `usize` additions and
    casts the digit *)
Lemma rs_add_digit_k {A} k ch r s (K : Z -> Z -> Z -> outcome A) :
  pinv k (ch :: r) s ->
  (t2 <- u8_sub b ch 48 ;;
   t3 <- u64_mul b (pm_value s) 10 ;;
   t4 <- u64_add b t3 (as_u64 t2) ;;
   t5 <- usize_add b (pm_counter s) 1 ;;
   t6 <- usize_add b (pm_count s) 1 ;;
   K t6 t5 t4)
  = (s2 <- pm_add_digit b ch s ;; K (pm_count s2) (pm_counter s2) (pm_value s2)).
Proof.
  intros (H1 & H2 & H3 & H4 & H5 & H6 & Hk). rewrite zlen_cons in H5.
  pose proof (zlen_nonneg r). pose proof (zlen_nonneg (vl (pm_result s))).
  unfold pm_add_digit. rewrite !bind_assoc.
  destruct (u8_sub b ch 48) as [d| |] eqn:E; cbn [bind]; try reflexivity.
  rewrite (as_u64_small d) by (exact (u8_sub_range _ _ E)).
  destruct (u64_mul b (pm_value s) 10) as [t3| |]; cbn [bind]; try reflexivity.
  destruct (u64_add b t3 d) as [t4| |]; cbn [bind]; try reflexivity.
  rewrite !usize_add_ok by (unfold u64_ok; lia). cbn [bind pm_count pm_counter pm_value]. reflexivity.
Qed.

Lemma pinv_add_digit k ch r s s2 :
  pinv k (ch :: r) s -> cond s = true -> pm_add_digit b ch s = Ok s2 ->
  pinv k r s2 /\ pm_result s2 = pm_result s.
Proof.
  intros (H1 & H2 & H3 & H4 & H5 & H6 & Hk) Hc E. rewrite zlen_cons in H5. unfold cond in Hc.
  unfold pm_add_digit in E.
  destruct (u8_sub b ch 48) as [d| |]; cbn [bind] in E; try discriminate.
  destruct (u64_mul b (pm_value s) 10) as [t3| |]; cbn [bind] in E; try discriminate.
  destruct (u64_add b t3 d) as [t4| |] eqn:E4; cbn [bind] in E; try discriminate.
  injection E as <-. split; [|reflexivity]. unfold pinv. cbn [pm_result pm_counter pm_count pm_value].
  repeat split; try assumption; try lia; apply (uop64_range _ _ E4).
Qed.

(** `add_temporary!(@max ..)` *)
Lemma pinv_flush_max k l s s' :
  pinv k l s -> cond s = false -> pm_count s <> maxd -> pm_flush_max c s = Ok s' ->
  pinv k l s' /\ cond s' = true /\ pm_count s' = pm_count s.
Proof.
  intros (H1 & H2 & H3 & H4 & H5 & H6 & Hk) Hc Hne E. unfold cond in Hc.
  unfold pm_flush_max in E.
  destruct (pm_mul_add c (pm_result s) pm_max_native (pm_value s)) as [r'| |] eqn:E1;
    cbn [bind] in E; try discriminate.
  injection E as <-.
  destruct (pm_mul_add_facts _ _ _ _ H1 u64_max_native H6 E1) as [O L'].
  unfold pinv, cond. cbn [pm_result pm_counter pm_count pm_value].
  split; [|split; [lia|reflexivity]].
  repeat split; try assumption; try lia.
Qed.

Lemma rs_flush_max_k {A} k l s (K : vec -> outcome A) :
  pinv k l s -> cond s = false -> pm_count s <> maxd ->
  (t19 <- rs_small_mul c b (pm_result s) 10000000000000000000 ;;
   v_result <- unwrap t19 ;;
   t20 <- rs_small_add c b v_result (pm_value s) ;;
   v_result <- unwrap t20 ;;
   K v_result)
  = (s' <- pm_flush_max c s ;; K (pm_result s')).
Proof.
  intros (H1 & H2 & H3 & H4 & H5 & H6 & Hk) Hc Hne. unfold cond in Hc.
  pose proof (zlen_nonneg l).
  change 10000000000000000000 with pm_max_native.
  rewrite rs_mul_add_k by (try assumption; try apply u64_max_native; lia).
  unfold pm_flush_max. rewrite bind_assoc. reflexivity.
Qed.

(** `add_temporary!(@end ..)` *)
Lemma rs_flush_end_eq k l s :
  pinv k l s ->
  rs_flush_end (pm_counter s) (pm_result s) (pm_value s)
  = (s2 <- pm_flush_end c T b s ;; Ok (pm_result s2)).
Proof.
  intros (H1 & H2 & H3 & H4 & H5 & H6 & Hk). pose proof (zlen_nonneg l).
  unfold rs_flush_end, pm_flush_end. destruct (negb (pm_counter s =? 0)) eqn:E0; [|reflexivity].
  rewrite bind_assoc.
  destruct (int_pow_fast_path c T b (pm_counter s) true) as [sp| |] eqn:Ep; cbn [bind]; try reflexivity.
  rewrite rs_mul_add_k by (try assumption; try (exact (int_pow10_u64 _ _ Ep)); lia).
  rewrite bind_assoc. reflexivity.
Qed.

(** what the scans after `add_temporary!(@end ..)` rely on *)
Definition finv (k : Z) (l : list Z) (s : pm_state) : Prop :=
  limbs_ok (vl (pm_result s)) /\
  zlen (vl (pm_result s)) <= pm_count s + 1 /\
  0 <= pm_count s /\
  (pm_count s + zlen l + k <= N /\ 0 <= k).

Lemma pm_flush_end_facts k l s s2 :
  pinv k l s -> pm_flush_end c T b s = Ok s2 ->
  finv k l s2 /\ pm_count s2 = pm_count s /\ pm_counter s2 = pm_counter s /\ pm_value s2 = pm_value s.
Proof.
  intros (H1 & H2 & H3 & H4 & H5 & H6 & Hk) E. pose proof (zlen_nonneg (vl (pm_result s))).
  unfold pm_flush_end in E. destruct (negb (pm_counter s =? 0)) eqn:E0.
  - destruct (int_pow_fast_path c T b (pm_counter s) true) as [sp| |] eqn:Ep; cbn [bind] in E; try discriminate.
    destruct (pm_mul_add c (pm_result s) sp (pm_value s)) as [r'| |] eqn:E1; cbn [bind] in E; try discriminate.
    injection E as <-.
    destruct (pm_mul_add_facts _ _ _ _ H1 (int_pow10_u64 _ _ Ep) H6 E1) as [O L'].
    unfold finv. cbn [pm_result pm_counter pm_count pm_value].
    repeat split; try assumption; lia.
  - injection E as <-. unfold finv. repeat split; try assumption; lia.
Qed.
