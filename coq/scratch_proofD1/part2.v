(** ** the model side, with the same factorisation *)
Definition cond (s : pm_state) : bool := (pm_counter s <? 19) && (pm_count s <? maxd).

Fixpoint pm_gen (finm : list Z -> pm_state -> outcome Ret) (l : list Z) (s : pm_state)
    : outcome (pm_state + Ret) :=
  h <- pm_settle c maxd s ;;
  match h with
  | PmDiverge => Panic PkFuel
  | PmFinish s1 =>
      s2 <- pm_flush_end c T b s1 ;;
      r <- finm l s2 ;;
      Ok (inr r)
  | PmRead s1 =>
      match l with
      | [] => Ok (inl s1)
      | ch :: r => s2 <- pm_add_digit b ch s1 ;; pm_gen finm r s2
      end
  end.

Definition finm_int (fr l : list Z) (s2 : pm_state) : outcome Ret :=
  '(s3, hit) <- pm_round_up c l s2 ;;
  if hit then Ok (pm_result s3, pm_count s3)
  else
    '(s4, _) <- pm_round_up c fr s3 ;;
    Ok (pm_result s4, pm_count s4).

Definition finm_frac (l : list Z) (s2 : pm_state) : outcome Ret :=
  '(s3, _) <- pm_round_up c l s2 ;;
  Ok (pm_result s3, pm_count s3).

Lemma pm_int_gen fr : forall l s, pm_int c T b maxd l fr s = pm_gen (finm_int fr) l s.
Proof.
  induction l as [|ch r IH]; intros s; cbn [pm_int pm_gen].
  - apply bind_ext2; [reflexivity|]. intros [s1|s1|]; try reflexivity.
    apply bind_ext2; [reflexivity|]. intros s2. unfold finm_int. rewrite bind_assoc.
    apply bind_ext2; [reflexivity|]. intros [s3 [|]]; [reflexivity|]. rewrite bind_assoc.
    apply bind_ext2; [reflexivity|]. intros [s4 h]. reflexivity.
  - apply bind_ext2; [reflexivity|]. intros [s1|s1|]; try reflexivity.
    + apply bind_ext2; [reflexivity|]. intros s2. apply IH.
    + apply bind_ext2; [reflexivity|]. intros s2. unfold finm_int. rewrite bind_assoc.
      apply bind_ext2; [reflexivity|]. intros [s3 [|]]; [reflexivity|]. rewrite bind_assoc.
      apply bind_ext2; [reflexivity|]. intros [s4 h]. reflexivity.
Qed.

Lemma pm_frac_gen : forall l s,
  pm_frac c T b maxd l s =
  (r <- pm_gen finm_frac l s ;;
   match r with
   | inr res => Ok res
   | inl s1 => s2 <- pm_flush_end c T b s1 ;; Ok (pm_result s2, pm_count s2)
   end).
Proof.
  induction l as [|ch r IH]; intros s; cbn [pm_frac pm_gen]; rewrite bind_assoc;
    (apply bind_ext2; [reflexivity|]); intros [s1|s1|]; try reflexivity.
  - rewrite bind_assoc. apply bind_ext2; [reflexivity|]. intros s2. unfold finm_frac.
    rewrite !bind_assoc. apply bind_ext2; [reflexivity|]. intros [s3 h]. reflexivity.
  - rewrite bind_assoc. apply bind_ext2; [reflexivity|]. intros s2. apply IH.
  - rewrite bind_assoc. apply bind_ext2; [reflexivity|]. intros s2. unfold finm_frac.
    rewrite !bind_assoc. apply bind_ext2; [reflexivity|]. intros [s3 h]. reflexivity.
Qed.
