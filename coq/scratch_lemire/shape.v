From Coq Require Import ZArith List Bool Lia Znumtheory.
From Coq Require Import ZifyBool.
From ML Require Import proofs.RoundingFactsZ proofs.NumFacts proofs.SlowFacts2c.
From ML Require Import base.RustSem model.Fmt model.Num model.Number model.Lemire
  gen.Consts gen.Tables spec.RneZ proofs.TableFacts proofs.LemireFacts0 proofs.LemireFacts1
  proofs.LemireFacts2 proofs.LemireFacts3 proofs.LemireFacts4 proofs.LemireFacts5 proofs.LemireFacts6.
Import ListNotations.
Open Scope Z_scope.
Arguments Z.pow : simpl never.
Local Opaque Z.pow.
(*CUT*)
(** ** Part B: the shape of a declined answer of [lemire] *)

Lemma cf_main_exp_nonneg f q lz lo hi : lfmt f -> 0 <= exp (cf_main f q lz lo hi).
Proof.
  intros L. pose proof (lfmt_emax f L) as (He1 & He2 & He3 & He4 & He5).
  unfold cf_main. cbv zeta.
  repeat match goal with |- context [if ?c then _ else _] => destruct c eqn:? end;
    unfold fp_zero, fp_inf; cbn [exp]; lia.
Qed.

Definition hilz_of (hi : Z) : Z := 1 - hi / 2 ^ 63.

Lemma hilz_cases hi : 2 ^ 62 <= hi < 2 ^ 64 ->
  (hi < 2 ^ 63 /\ hilz_of hi = 1) \/ (2 ^ 63 <= hi /\ hilz_of hi = 0).
Proof.
  intros H. unfold hilz_of. rewrite p2_63, p2_64 in *. change (2 ^ 62) with 4611686018427387904 in H.
  Z.div_mod_to_equations. lia.
Qed.

Lemma ces_eq f b q hi lz : lfmt f -> -342 <= q <= 308 -> 2 ^ 62 <= hi < 2 ^ 64 -> 0 <= lz <= 63 ->
  compute_error_scaled f b q hi lz =
  Ok (mkExt (hi * 2 ^ hilz_of hi)
            (pw q + EXPONENT_BIAS f - hilz_of hi - lz - 62 + INVALID_FP f)).
Proof.
  intros L Hq Hhi Hlz. destruct L.
  pose proof (pw_bounds q ltac:(lia)) as Hpw.
  unfold compute_error_scaled.
  assert (Hx : Z.lxor (hi / 2 ^ 63) 1 = hilz_of hi).
  { destruct (hilz_cases hi Hhi) as [[_ H]|[_ H]]; unfold hilz_of in *;
      assert (E : hi / 2 ^ 63 = 0 \/ hi / 2 ^ 63 = 1) by lia; destruct E as [E|E]; rewrite E in *; cbn; lia. }
  rewrite Hx.
  assert (Hh : 0 <= hilz_of hi <= 1) by (destruct (hilz_cases hi Hhi) as [[_ H]|[_ H]]; lia).
  assert (Hm : 0 <= hi * 2 ^ hilz_of hi < 2 ^ 64).
  { destruct (hilz_cases hi Hhi) as [[H1 H]|[H1 H]]; rewrite H.
    - change (2 ^ 1) with 2. rewrite p2_63, p2_64 in *. lia.
    - change (2 ^ 0) with 1. lia. }
  rewrite shl64_ok by lia. rewrite Z.mod_small by lia. cbn [bind].
  rewrite power_ok by lia. cbn [bind].
  unfold i32_add, i32_sub.
  rewrite !sop32_ok by lia. cbn [bind].
  rewrite !sop32_ok by lia. cbn [bind].
  rewrite !sop32_ok by lia. cbn [bind].
  rewrite !sop32_ok by lia. cbn [bind].
  rewrite !sop32_ok by lia. cbn [bind]. reflexivity.
Qed.

(** how [lemire] can decline *)
Definition declined_at (f : format) (b : build) (q w : Z) : Prop :=
  exists fpx, compute_float TABLES f b q w = Ok fpx /\ exp fpx < 0.

Theorem lemire_declined_shape f b n fp : lfmt_ok f = true -> 0 <= nmant n < 2 ^ 64 ->
  (many n = true -> 0 < nmant n /\ nmant n + 1 < 2 ^ 64) ->
  lemire TABLES f b n = Ok fp -> exp fp < 0 ->
  let q := nexp n in let w := nmant n in let lz := lz64 w in
  0 < w /\ SMALLEST_POWER_OF_TEN f <= q <= LARGEST_POWER_OF_TEN f /\
  (exists lo hi, 0 <= lo < 2 ^ 64 /\ 2 ^ 62 <= hi < 2 ^ 64 /\
     (refined_pair (w * 2 ^ lz) q lo hi \/ unrefined_pair (w * 2 ^ lz) q (61 - MANTISSA_SIZE f) lo hi) /\
     compute_error_scaled f b q hi lz = Ok fp) /\
  (declined_at f b q w \/
   (many n = true /\ exists fp1 fp2, compute_float TABLES f b q w = Ok fp1 /\ 0 <= exp fp1 /\
       compute_float TABLES f b q (w + 1) = Ok fp2 /\ fp1 <> fp2)).
Proof.
  intros Lok Hw Hmany Hlem Hneg. pose proof (lfmt_ok_spec f Lok) as L.
  destruct n as [q w mn]. cbn [nexp nmant many] in *. cbv zeta.
  pose proof (lfmt_emax f L) as (He1 & He2 & He3 & He4 & He5).
  pose proof (lf_ms f L) as HMS. pose proof (lf_sp10 f L) as Hsp. pose proof (lf_lp10 f L) as Hlp.
  unfold lemire in Hlem. cbn [nexp nmant many] in Hlem.
  (* the trivial branches give a definite answer *)
  assert (Hw0 : 0 < w).
  { destruct (Z.eq_dec w 0) as [->|]; [exfalso|lia].
    rewrite cf_zero_w in Hlem. cbn [bind] in Hlem.
    destruct mn; [destruct (Hmany eq_refl); lia|]. cbn [andb] in Hlem.
    inversion Hlem; subst. cbn in Hneg. lia. }
  assert (Hq : SMALLEST_POWER_OF_TEN f <= q <= LARGEST_POWER_OF_TEN f).
  { destruct (Z_lt_le_dec q (SMALLEST_POWER_OF_TEN f)) as [Hs|Hs]; [exfalso|].
    { rewrite !cf_small_q in Hlem by assumption. cbn [bind] in Hlem.
      destruct (mn && (0 <=? exp fp_zero)).
      - unfold u64_add in Hlem. destruct (uop b 64 (w + 1)); cbn [bind] in Hlem; try discriminate.
        rewrite cf_small_q in Hlem by assumption. cbn [bind] in Hlem.
        unfold ext_eqb in Hlem. rewrite !Z.eqb_refl in Hlem. cbn [andb negb] in Hlem.
        inversion Hlem; subst. cbn in Hneg. lia.
      - inversion Hlem; subst. cbn in Hneg. lia. }
    destruct (Z_lt_le_dec (LARGEST_POWER_OF_TEN f) q) as [Hl|Hl]; [exfalso|lia].
    rewrite (cf_large_q f b q w) in Hlem by (try assumption; lia). cbn [bind] in Hlem.
    destruct (mn && (0 <=? exp (fp_inf f))) eqn:Em.
    - apply andb_prop in Em. destruct Em as [-> _]. destruct (Hmany eq_refl).
      unfold u64_add in Hlem. rewrite uop64_ok in Hlem by lia. cbn [bind] in Hlem.
      rewrite cf_large_q in Hlem by (try assumption; lia). cbn [bind] in Hlem.
      unfold ext_eqb in Hlem. rewrite !Z.eqb_refl in Hlem. cbn [andb negb] in Hlem.
      inversion Hlem; subst. unfold fp_inf in Hneg. cbn [exp] in Hneg. lia.
    - inversion Hlem; subst. unfold fp_inf in Hneg. cbn [exp] in Hneg. lia. }
  split; [exact Hw0|]. split; [exact Hq|].
  pose proof (lz64_spec w ltac:(lia)) as (Hlz & Hw').
  destruct (compute_product_approx_spec b q (w * 2 ^ lz64 w) (MANTISSA_SIZE f + 3)
              ltac:(lia) ltac:(lia) ltac:(lia)) as (lo & hi & Hcpa & Hlo & Hhi & Hpair).
  replace (64 - (MANTISSA_SIZE f + 3)) with (61 - MANTISSA_SIZE f) in Hpair by lia.
  pose proof (pair_facts f q _ lo hi L ltac:(lia) Hw' Hlo Hhi Hpair) as [Hhi62 _].
  rewrite (cf_run f b q w lo hi L ltac:(lia) Hq Hcpa Hlo ltac:(lia)) in Hlem.
  destruct ((lo =? u64_max) && negb ((-27 <=? q) && (q <=? 55))) eqn:Efb.
  - (* compute_float itself declines *)
    destruct (ces_ok f b q hi (lz64 w) L ltac:(lia) Hhi Hlz) as (fp1 & Hfp1 & Hneg1).
    rewrite Hfp1 in Hlem. cbn [bind] in Hlem.
    replace (0 <=? exp fp1) with false in Hlem by lia. rewrite andb_false_r in Hlem.
    inversion Hlem; subst fp1.
    split.
    + exists lo, hi. repeat split; try assumption; lia.
    + left. exists fp. split; [|exact Hneg].
      rewrite (cf_run f b q w lo hi L ltac:(lia) Hq Hcpa Hlo ltac:(lia)), Efb. exact Hfp1.
  - cbn [bind] in Hlem.
    pose proof (cf_main_exp_nonneg f q (lz64 w) lo hi L) as Hnn.
    set (fp1 := cf_main f q (lz64 w) lo hi) in *.
    destruct mn.
    + destruct (Hmany eq_refl) as [_ Hw1].
      replace (0 <=? exp fp1) with true in Hlem by lia. cbn [andb] in Hlem.
      unfold u64_add in Hlem. rewrite uop64_ok in Hlem by lia. cbn [bind] in Hlem.
      destruct (compute_float_sound_all f b q (w + 1) Lok ltac:(lia)) as (fp2 & E2 & _).
      rewrite E2 in Hlem. cbn [bind] in Hlem.
      destruct (ext_eqb fp1 fp2) eqn:Eq; cbn [negb] in Hlem.
      * inversion Hlem; subst. lia.
      * unfold compute_error in Hlem. rewrite shl64_ok in Hlem by lia.
        rewrite Z.mod_small in Hlem by lia. cbn [bind] in Hlem.
        rewrite Hcpa in Hlem. cbn [bind] in Hlem.
        split.
        -- exists lo, hi. repeat split; try assumption; lia.
        -- right. split; [reflexivity|]. exists fp1, fp2.
           split; [rewrite (cf_run f b q w lo hi L ltac:(lia) Hq Hcpa Hlo ltac:(lia)), Efb; reflexivity|].
           split; [exact Hnn|]. split; [exact E2|].
           intros ->. unfold ext_eqb in Eq. rewrite !Z.eqb_refl in Eq. discriminate.
    + cbn [andb] in Hlem. inversion Hlem; subst. lia.
Qed.
