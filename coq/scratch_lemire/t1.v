From Coq Require Import ZArith List Bool Lia Znumtheory.
From Coq Require Import ZifyBool.
From ML Require Import base.RustSem model.Fmt model.Num model.Number model.Lemire
  gen.Consts gen.Tables spec.RneZ proofs.TableFacts proofs.LemireFacts0.
Open Scope Z_scope.
Arguments Z.pow : simpl never.
Local Opaque Z.pow.
Goal forall m, m mod 4 = 1 -> 2 * ((m - 1 + (m - 1) mod 2) / 2) = m - 1.
Proof. intros m Em. Z.div_mod_to_equations. lia. Qed.
