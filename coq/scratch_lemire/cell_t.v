From Coq Require Import ZArith List Bool Lia Znumtheory.
From Coq Require Import ZifyBool.
From ML Require Import proofs.RoundingFactsZ proofs.NumFacts proofs.SlowFacts2c.
From ML Require Import base.RustSem model.Fmt model.Num model.Number model.Lemire
  gen.Consts gen.Tables spec.RneZ proofs.TableFacts proofs.LemireFacts0 proofs.LemireFacts1
  proofs.LemireFacts2 proofs.LemireFacts3 proofs.LemireFacts4 proofs.LemireFacts5 proofs.LemireFacts6.
Import ListNotations.
Open Scope Z_scope.
Arguments Z.pow : simpl never.
Local Opaque Z.pow.
(*CUT*)
Definition cellP (f : format) (q E : Z) : Z :=
  if emax f - prec f <? E then inf_bits f else encode f q E.

Lemma inf_bits_eq f : lfmt f -> inf_bits f = (2 * emax f - 1) * 2 ^ MANTISSA_SIZE f.
Proof.
  intros L. pose proof (lfmt_emax f L) as (He1 & He2 & He3 & He4 & He5).
  unfold inf_bits. rewrite <- He2. reflexivity.
Qed.

Lemma cell f n d E q bits : lfmt f -> 0 < n -> 0 < d -> femin f <= E ->
  0 <= q < 2 ^ (MANTISSA_SIZE f + 1) -> (femin f < E -> 2 ^ MANTISSA_SIZE f <= q) ->
  (4 * q - 1) * sc_den d E < 4 * sc_num n E < (4 * q + 6) * sc_den d E ->
  rne_bits f n d bits -> cellP f q E <= bits <= cellP f q E + 1.
Proof.
  intros L Hn Hd HE Hq HqE HB HR.
  pose proof (lfmt_emax f L) as (He1 & He2 & He3 & He4 & He5).
  pose proof (lf_ms f L) as HMS. pose proof (inf_bits_eq f L) as Einf.
  assert (Hprec : prec f = MANTISSA_SIZE f + 1) by reflexivity.
  assert (Hp1 : 1 <= prec f) by lia.
  set (H2 := 2 ^ MANTISSA_SIZE f) in *.
  assert (HH : 0 < H2) by (apply pow2_pos; lia).
  assert (E21 : 2 ^ (MANTISSA_SIZE f + 1) = 2 * H2) by (apply pow2_S; lia).
  rewrite E21 in Hq.
  pose proof (sc_den_pos d E Hd) as HDn. pose proof (sc_num_pos n E Hn) as HN.
  set (N := sc_num n E) in *. set (Dn := sc_den d E) in *.
  unfold cellP.
  destruct (Z_lt_le_dec N (H2 * Dn)) as [Hlow|Hlow].
  - destruct (Z.eq_dec E (femin f)) as [Efe|Efe].
    + (* subnormal value at E = femin: canonical exponent E *)
      assert (HC : canon_exp f n d E).
      { unfold canon_exp. fold N Dn. rewrite Hprec, E21. split; [lia|]. split; [(timeout 30 nia)|left; exact Efe]. }
      replace (emax f - prec f <? E) with false by lia.
      destruct (rne_cases f n d E bits Hp1 Hn Hd HC HR) as [[Hge _]|(Hlt & M & HM & ->)].
      { exfalso. assert (n < 2 ^ emax f * d); [|lia].
        apply (sc_lt n d E (MANTISSA_SIZE f) (emax f)); try lia. }
      pose proof (nearest_bounds n d M E HM) as NB. fold N Dn in NB.
      assert (HMq : q <= M <= q + 1) by (split; (timeout 30 nia)).
      assert (Eq1 : encode f (q + 1) E = encode f q E + 1).
      { unfold encode. fold H2. destruct (q + 1 <? H2) eqn:E1; destruct (q <? H2) eqn:E0; lia. }
      destruct (Z.eq_dec M q) as [->|]; [lia|]. replace M with (q + 1) by lia. lia.
    + (* just below a binade: canonical exponent E - 1 *)
      assert (Eq : q = H2) by (specialize (HqE ltac:(lia)); (timeout 30 nia)). subst q.
      pose proof (sc_den_pos d (E - 1) Hd) as HD'. pose proof (sc_num_pos n (E - 1) Hn) as HN'.
      pose proof (sc_shift n d (E - 1) E ltac:(lia)) as S.
      replace (E - (E - 1)) with 1 in S by lia. change (2 ^ 1) with 2 in S. fold N Dn in S.
      set (N' := sc_num n (E - 1)) in *. set (D' := sc_den d (E - 1)) in *.
      assert (R : 1 * N' * Dn = 2 * N * D') by lia.
      pose proof (ratio_lt N Dn N' D' 1 2 H2 1 HDn HD' ltac:(lia) ltac:(lia) R ltac:(lia)) as U1.
      pose proof (ratio_gt N Dn N' D' 1 2 (4 * H2 - 1) 4 HDn HD' ltac:(lia) ltac:(lia) R ltac:(lia)) as U2.
      assert (HC : canon_exp f n d (E - 1)).
      { unfold canon_exp. fold N' D'. rewrite Hprec, E21.
        replace (MANTISSA_SIZE f + 1 - 1) with (MANTISSA_SIZE f) by lia. fold H2.
        split; [lia|]. split; [lia|right; (timeout 30 nia)]. }
      destruct (rne_cases f n d (E - 1) bits Hp1 Hn Hd HC HR) as [[Hge ->]|(Hlt & M & HM & ->)].
      * (* overflow *)
        assert (emax f - prec f < E).
        { destruct (Z_lt_le_dec (emax f - prec f) E); [assumption|exfalso].
          assert (n < 2 ^ emax f * d); [|lia].
          apply (sc_lt n d (E - 1) (MANTISSA_SIZE f + 1) (emax f)); try lia; fold N' D'; rewrite E21; lia. }
        replace (emax f - prec f <? E) with true by lia. lia.
      * pose proof (nearest_bounds n d M (E - 1) HM) as NB. fold N' D' in NB.
        assert (HM2 : M = 2 * H2) by (timeout 30 nia). subst M.
        assert (Een : encode f (2 * H2) (E - 1) = (E - femin f + 1) * H2).
        { unfold encode. fold H2. replace (2 * H2 <? H2) with false by lia. ring. }
        rewrite Een.
        destruct (emax f - prec f <? E) eqn:Et.
        -- assert (E - 1 <= emax f - prec f).
           { destruct (Z_le_gt_dec (E - 1) (emax f - prec f)); [assumption|exfalso].
             assert (2 ^ emax f * d <= n); [|lia].
             apply (sc_ge n d (E - 1) (MANTISSA_SIZE f) (emax f)); try lia; fold N' D' H2; (timeout 30 nia). }
           assert (E = emax f - prec f + 1) by lia. rewrite Einf. fold H2. (timeout 30 nia).
        -- unfold encode. fold H2. replace (H2 <? H2) with false by lia. (timeout 30 nia).
  - destruct (Z_lt_le_dec N (2 * H2 * Dn)) as [Hup|Hup].
    + (* canonical exponent E *)
      assert (HC : canon_exp f n d E).
      { unfold canon_exp. fold N Dn. rewrite Hprec, E21.
        replace (MANTISSA_SIZE f + 1 - 1) with (MANTISSA_SIZE f) by lia. fold H2.
        split; [lia|]. split; [lia|right; lia]. }
      destruct (rne_cases f n d E bits Hp1 Hn Hd HC HR) as [[Hge ->]|(Hlt & M & HM & ->)].
      * assert (emax f - prec f < E).
        { destruct (Z_lt_le_dec (emax f - prec f) E); [assumption|exfalso].
          assert (n < 2 ^ emax f * d); [|lia].
          apply (sc_lt n d E (MANTISSA_SIZE f + 1) (emax f)); try lia; fold N Dn; rewrite E21; lia. }
        replace (emax f - prec f <? E) with true by lia. lia.
      * assert (E <= emax f - prec f).
        { destruct (Z_le_gt_dec E (emax f - prec f)); [assumption|exfalso].
          assert (2 ^ emax f * d <= n); [|lia].
          apply (sc_ge n d E (MANTISSA_SIZE f) (emax f)); try lia. }
        replace (emax f - prec f <? E) with false by lia.
        pose proof (nearest_bounds n d M E HM) as NB. fold N Dn in NB.
        assert (HMq : q <= M <= q + 1) by (split; (timeout 30 nia)).
        assert (Eq1 : encode f (q + 1) E = encode f q E + 1).
        { unfold encode. fold H2. destruct (q + 1 <? H2) eqn:E1; destruct (q <? H2) eqn:E0; try lia.
          assert (E = femin f) by (destruct (Z.eq_dec E (femin f)); [assumption|specialize (HqE ltac:(lia)); lia]).
          lia. }
        destruct (Z.eq_dec M q) as [->|]; [lia|]. replace M with (q + 1) by lia. lia.
    + (* just above the binade: canonical exponent E + 1 *)
      assert (Eq : q = 2 * H2 - 1) by (timeout 30 nia). subst q.
      pose proof (sc_den_pos d (E + 1) Hd) as HD'. pose proof (sc_num_pos n (E + 1) Hn) as HN'.
      pose proof (sc_shift n d E (E + 1) ltac:(lia)) as S.
      replace (E + 1 - E) with 1 in S by lia. change (2 ^ 1) with 2 in S. fold N Dn in S.
      set (N' := sc_num n (E + 1)) in *. set (D' := sc_den d (E + 1)) in *.
      assert (R : 2 * N' * Dn = 1 * N * D') by lia.
      pose proof (ratio_lt N Dn N' D' 2 1 (4 * (2 * H2 - 1) + 6) 4 HDn HD' ltac:(lia) ltac:(lia) R ltac:(lia)) as U1.
      pose proof (ratio_ge N Dn N' D' 2 1 (2 * H2) 1 HDn HD' ltac:(lia) ltac:(lia) R ltac:(lia)) as U2.
      assert (HC : canon_exp f n d (E + 1)).
      { unfold canon_exp. fold N' D'. rewrite Hprec, E21.
        replace (MANTISSA_SIZE f + 1 - 1) with (MANTISSA_SIZE f) by lia. fold H2.
        split; [lia|]. split; [(timeout 30 nia)|right; (timeout 30 nia)]. }
      assert (Een : encode f H2 (E + 1) = encode f (2 * H2 - 1) E + 1).
      { unfold encode. fold H2. replace (H2 <? H2) with false by lia.
        replace (2 * H2 - 1 <? H2) with false by lia. ring. }
      destruct (rne_cases f n d (E + 1) bits Hp1 Hn Hd HC HR) as [[Hge ->]|(Hlt & M & HM & ->)].
      * assert (emax f - prec f <= E).
        { destruct (Z_le_gt_dec (emax f - prec f) E); [assumption|exfalso].
          assert (n < 2 ^ emax f * d); [|lia].
          apply (sc_lt n d (E + 1) (MANTISSA_SIZE f + 1) (emax f)); try lia; fold N' D'; rewrite E21; (timeout 30 nia). }
        destruct (emax f - prec f <? E) eqn:Et; [lia|].
        assert (E = emax f - prec f) by lia.
        rewrite Einf. unfold encode. fold H2. replace (2 * H2 - 1 <? H2) with false by lia. (timeout 30 nia).
      * assert (E + 1 <= emax f - prec f).
        { destruct (Z_le_gt_dec (E + 1) (emax f - prec f)); [assumption|exfalso].
          assert (2 ^ emax f * d <= n); [|lia].
          apply (sc_ge n d (E + 1) (MANTISSA_SIZE f) (emax f)); try lia; fold N' D' H2; (timeout 30 nia). }
        replace (emax f - prec f <? E) with false by lia.
        pose proof (nearest_bounds n d M (E + 1) HM) as NB. fold N' D' in NB.
        assert (HM2 : M = H2) by (timeout 30 nia). subst M. lia.
Qed.
