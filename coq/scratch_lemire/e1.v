From Coq Require Import ZArith List Bool Lia.
From ML Require Import base.RustSem model.Fmt model.Num model.Number model.Lemire gen.Consts gen.Tables.
Open Scope Z_scope.
Eval vm_compute in (compute_float TABLES F64 checked_build (-342) 2470328229206232720, compute_float TABLES F64 checked_build (-342) 2470328229206232721).
Eval vm_compute in (lemire TABLES F64 checked_build (mkNumber (-342) 2470328229206232720 true)).
Eval vm_compute in (lemire TABLES F64 checked_build (mkNumber (-342) 2470328229206232720 false)).
