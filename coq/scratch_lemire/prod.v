From Coq Require Import ZArith List Bool Lia Znumtheory.
From Coq Require Import ZifyBool.
From ML Require Import base.RustSem model.Fmt model.Num model.Number model.Lemire
  gen.Consts gen.Tables spec.RneZ proofs.TableFacts proofs.LemireFacts0 proofs.LemireFacts1.
Import ListNotations.
Open Scope Z_scope.
Arguments Z.pow : simpl never.
Local Opaque Z.pow.

(** ** the 128-bit product and the pair returned by [compute_product_approx] *)
Lemma mod_ones_le x a c : 0 <= c <= a -> x mod 2 ^ a = 2 ^ a - 1 -> x mod 2 ^ c = 2 ^ c - 1.
Proof.
  intros Hc H. pose proof (pow2_pos c ltac:(lia)). pose proof (pow2_pos (a - c) ltac:(lia)).
  pose proof (Z.div_mod x (2 ^ a) ltac:(apply Z.pow_nonzero; lia)) as E. rewrite H in E.
  rewrite (pow2_split c a) in E by lia.
  symmetry. apply (Z.mod_unique_pos _ _ ((x / (2 ^ c * 2 ^ (a - c))) * 2 ^ (a - c) + 2 ^ (a - c) - 1)); [lia|].
  rewrite E at 1. ring.
Qed.

Lemma pair_facts f q w' lo hi : lfmt f -> -342 <= q <= 308 -> 2 ^ 63 <= w' < 2 ^ 64 ->
  0 <= lo < 2 ^ 64 -> 0 <= hi < 2 ^ 64 ->
  refined_pair w' q lo hi \/ unrefined_pair w' q (61 - MANTISSA_SIZE f) lo hi ->
  let P := w' * T128 q in
  let H := hi * 2 ^ 64 + lo in
  2 ^ 62 <= hi /\
  ((H * 2 ^ 64 <= P < (H + 1) * 2 ^ 64) \/
   (P = H * 2 ^ 64 + w' * Tlo q /\ hi mod 2 ^ (61 - MANTISSA_SIZE f) <> 2 ^ (61 - MANTISSA_SIZE f) - 1)).
Proof.
  intros L Hq Hw Hlo Hhi HP P H.
  pose proof (tentry_range q Hq) as (HT1 & HT2 & HT).
  rewrite p2_127, p2_128 in HT.
  destruct HP as [HR|[HU1 HU2]].
  - unfold refined_pair in HR. fold P in HR. fold H in HR.
    assert (HPb : 2 ^ 63 * (2 ^ 63 * 2 ^ 64) <= P) by (unfold P; nia).
    pose proof (Z.div_mod P (2 ^ 64) ltac:(lia)) as E.
    pose proof (Z.mod_pos_bound P (2 ^ 64) ltac:(lia)) as B.
    rewrite <- HR in E.
    split.
    + unfold H in *. rewrite p2_63, p2_64 in *. change (2 ^ 62) with 4611686018427387904. lia.
    + left. lia.
  - fold H in HU1.
    assert (HThi : 2 ^ 63 <= Thi q).
    { unfold T128 in HT. rewrite p2_63, p2_64 in *. lia. }
    split.
    + assert (2 ^ 63 * 2 ^ 63 <= H) by (rewrite HU1; nia).
      unfold H in *. rewrite p2_63, p2_64 in *. change (2 ^ 62) with 4611686018427387904. lia.
    + right. split; [|exact HU2]. unfold P, T128. rewrite HU1. ring.
Qed.

Lemma prod_floor f q w' lo hi : lfmt f -> -342 <= q <= 308 -> 2 ^ 63 <= w' < 2 ^ 64 ->
  0 <= lo < 2 ^ 64 -> 2 ^ 62 <= hi < 2 ^ 64 ->
  refined_pair w' q lo hi \/ unrefined_pair w' q (61 - MANTISSA_SIZE f) lo hi ->
  let P := w' * T128 q in
  let u := hi / 2 ^ 63 in
  let sh := u + 61 - MANTISSA_SIZE f in
  let M := hi / 2 ^ sh in
  let G := 2 ^ (128 + sh) in
  M * G <= P < (M + 1) * G /\
  (lo <> 2 ^ 64 - 1 \/ unrefined_pair w' q (61 - MANTISSA_SIZE f) lo hi -> P + w' <= (M + 1) * G).
Proof.
  intros L Hq Hw Hlo Hhi HP P u sh M G.
  pose proof (M_range f hi L Hhi) as MR. cbv zeta in MR. fold u in MR. fold sh in MR. fold M in MR.
  destruct MR as (Hu & Hub & HM).
  pose proof (lf_ms f L) as HMS.
  pose proof (pair_facts f q w' lo hi L Hq Hw Hlo ltac:(lia) HP) as [_ PF]. cbv zeta in PF. fold P in PF.
  pose proof (tentry_range q Hq) as (HT1 & HT2 & HT).
  assert (Hsh : 0 <= sh) by (unfold sh; lia).
  pose proof (pow2_pos sh Hsh) as Hpsh.
  assert (EG : G = 2 ^ sh * (2 ^ 64 * 2 ^ 64)).
  { unfold G. rewrite Z.add_comm, pow2_add by lia. rewrite p2_128. reflexivity. }
  pose proof (Z.div_mod hi (2 ^ sh) ltac:(lia)) as Ehi. fold M in Ehi.
  pose proof (Z.mod_pos_bound hi (2 ^ sh) ltac:(lia)) as Bhi.
  set (r := hi mod 2 ^ sh) in *.
  assert (HMG : M * G = (hi - r) * (2 ^ 64 * 2 ^ 64)) by (rewrite EG; nia).
  assert (HMG1 : (M + 1) * G = (hi - r + 2 ^ sh) * (2 ^ 64 * 2 ^ 64)) by (rewrite EG; nia).
  rewrite HMG, HMG1.
  destruct PF as [PR|[PU1 PU2]].
  - split; [nia|]. intros [Hl|[_ HU]]; [nia|].
    assert (r <> 2 ^ sh - 1).
    { intros Er. apply HU. apply (mod_ones_le hi sh); [unfold sh; lia|exact Er]. }
    nia.
  - assert (r <> 2 ^ sh - 1).
    { intros Er. apply PU2. apply (mod_ones_le hi sh); [unfold sh; lia|exact Er]. }
    assert (0 <= w' * Tlo q) by nia.
    assert (w' * (Tlo q + 1) <= 2 ^ 64 * 2 ^ 64) by nia.
    split; [nia|]. intros _. nia.
Qed.
