From Coq Require Import ZArith List Bool Lia Znumtheory.
From Coq Require Import ZifyBool.
From ML Require Import proofs.RoundingFactsZ proofs.NumFacts proofs.SlowFacts2c.
From ML Require Import base.RustSem model.Fmt model.Num model.Number model.Lemire
  gen.Consts gen.Tables spec.RneZ proofs.TableFacts proofs.LemireFacts0 proofs.LemireFacts1
  proofs.LemireFacts2 proofs.LemireFacts3 proofs.LemireFacts4 proofs.LemireFacts5 proofs.LemireFacts6.
Import ListNotations.
Open Scope Z_scope.
Arguments Z.pow : simpl never.
Local Opaque Z.pow.
(*CUT*)
(** ** Part C: the estimate is within a few units of the true scaled product *)

Lemma qcheck_weak q : -342 <= q <= 308 ->
  (T128 q - 1) * qY q < qX q < (T128 q + 1) * qY q.
Proof.
  intros H. pose proof (qY_pos q) as HY.
  destruct (Z_lt_le_dec q (-27)).
  { pose proof (qcheck_floor q H ltac:(lia)). lia. }
  destruct (Z_lt_le_dec q 0).
  { pose proof (qcheck_ceil q ltac:(lia)) as [? _]. lia. }
  destruct (Z_le_gt_dec q 55).
  { pose proof (qcheck_exact q ltac:(lia)). lia. }
  pose proof (qcheck_floor q H ltac:(lia)). lia.
Qed.

Definition est_s (f : format) (e : Z) : Z :=
  if e <=? - (63 - MANTISSA_SIZE f) then 1 - e else 63 - MANTISSA_SIZE f.
Definition est_E (f : format) (e : Z) : Z :=
  if e <=? - (63 - MANTISSA_SIZE f) then femin f else e + (63 - MANTISSA_SIZE f) - 1 + femin f.

(** [rd_bits] in closed form, for every exponent (no lower bound needed) *)
Lemma rd_bits_cell f m e : lfmt f -> 2 ^ 63 <= m < 2 ^ 64 ->
  rd_bits f (mkExt m e) = cellP f (m / 2 ^ est_s f e) (est_E f e).
Proof.
  intros L Hm. pose proof (lfmt_emax f L) as (He1 & He2 & He3 & He4 & He5).
  pose proof (lf_ms f L) as HMS. pose proof (inf_bits_eq f L) as Einf.
  unfold rd_bits, rd_fields, round_spec, pack_fields, est_s, est_E, cellP. cbv zeta. cbn [mant exp].
  set (H2 := 2 ^ MANTISSA_SIZE f). assert (HH : 0 < H2) by (apply pow2_pos; lia).
  assert (E21 : 2 ^ (MANTISSA_SIZE f + 1) = 2 * H2) by (apply pow2_S; lia).
  unfold prec.
  destruct (e <=? - (63 - MANTISSA_SIZE f)) eqn:Es.
  - set (q := m / 2 ^ (1 - e)).
    pose proof (pow2_pos (1 - e) ltac:(lia)) as Hp.
    assert (Hq : 0 <= q < H2).
    { unfold q. split; [apply Z.div_pos; lia|].
      apply Z.div_lt_upper_bound; [lia|].
      assert (2 ^ 64 <= 2 ^ (1 - e) * H2).
      { unfold H2. rewrite <- pow2_add by lia. apply pow2_le. lia. }
      lia. }
    replace (H2 <=? q) with false by lia. cbn [mant exp].
    rewrite Z.mul_0_l, Z.lor_0_r.
    replace (emax f - (MANTISSA_SIZE f + 1) <? femin f) with false by lia.
    unfold encode. fold H2. replace (q <? H2) with true by lia. reflexivity.
  - set (sh := 63 - MANTISSA_SIZE f) in *.
    set (q := m / 2 ^ sh).
    pose proof (pow2_pos sh ltac:(unfold sh; lia)) as Hp.
    assert (E63 : 2 ^ 63 = 2 ^ sh * H2).
    { unfold H2. rewrite <- pow2_add by (unfold sh; lia). f_equal. unfold sh. lia. }
    assert (Hq : H2 <= q < 2 * H2).
    { unfold q. split.
      - apply Z.div_le_lower_bound; lia.
      - apply Z.div_lt_upper_bound; [lia|]. rewrite p2_64, p2_63 in *. lia. }
    rewrite E21. replace (q =? 2 * H2) with false by lia.
    replace (emax f - (MANTISSA_SIZE f + 1) <? e + sh - 1 + femin f)
      with (INFINITE_POWER f <=? e + sh) by lia.
    destruct (INFINITE_POWER f <=? e + sh) eqn:Ei; cbn [mant exp].
    + rewrite Z.lor_0_l, Einf. fold H2. lia.
    + pose proof (lor_add (q - H2) (e + sh) (MANTISSA_SIZE f) ltac:(lia) ltac:(fold H2; lia)) as LA.
      fold H2 in LA. rewrite LA. unfold encode. fold H2.
      replace (q <? H2) with false by lia. lia.
Qed.

(** monotone transfer of cell inequalities between two fractions *)
Lemma sc_mono_lower n1 d1 n2 d2 E a b : 0 < d1 -> 0 < d2 -> 0 <= b ->
  n1 * d2 <= n2 * d1 -> a * sc_den d1 E < b * sc_num n1 E -> a * sc_den d2 E < b * sc_num n2 E.
Proof.
  intros H1 H2 Hb Hle H. rewrite sc_num_eq, sc_den_eq in *.
  pose proof (p2n_pos E). pose proof (p2d_pos E).
  apply (Z.mul_lt_mono_pos_r d1); [exact H1|].
  assert (a * (d2 * p2n E) * d1 = d2 * (a * (d1 * p2n E))) by ring.
  assert (b * (n1 * p2d E) * d2 <= b * (n2 * p2d E) * d1).
  { replace (b * (n1 * p2d E) * d2) with (b * p2d E * (n1 * d2)) by ring.
    replace (b * (n2 * p2d E) * d1) with (b * p2d E * (n2 * d1)) by ring.
    apply Z.mul_le_mono_nonneg_l; [nia|exact Hle]. }
  nia.
Qed.
Lemma sc_mono_upper n1 d1 n2 d2 E a b : 0 < d1 -> 0 < d2 -> 0 <= b ->
  n2 * d1 <= n1 * d2 -> b * sc_num n1 E < a * sc_den d1 E -> b * sc_num n2 E < a * sc_den d2 E.
Proof.
  intros H1 H2 Hb Hle H. rewrite sc_num_eq, sc_den_eq in *.
  pose proof (p2n_pos E). pose proof (p2d_pos E).
  apply (Z.mul_lt_mono_pos_r d1); [exact H1|].
  assert (a * (d2 * p2n E) * d1 = d2 * (a * (d1 * p2n E))) by ring.
  assert (b * (n2 * p2d E) * d1 <= b * (n1 * p2d E) * d2).
  { replace (b * (n1 * p2d E) * d2) with (b * p2d E * (n1 * d2)) by ring.
    replace (b * (n2 * p2d E) * d1) with (b * p2d E * (n2 * d1)) by ring.
    apply Z.mul_le_mono_nonneg_l; [nia|exact Hle]. }
  nia.
Qed.

(** the arithmetic core: from the bracket of the product to the cell inequalities.
    [C] = 2^128, [B] = 2^64, [S] = 2^s the cell width in units of the estimate, [t] = 2^hilz *)
Lemma est_ineq t hi m S qq Y A B C : 1 <= t <= 2 -> m = hi * t -> 0 <= m -> 32 <= S -> 0 < Y ->
  0 < B -> C = B * B -> 8 <= B ->
  qq * S <= m < (qq + 1) * S ->
  (hi * C - B) * Y < A < ((hi + 2) * C + B) * Y ->
  (4 * qq - 1) * (S * C) * Y < 4 * (A * t) /\
  4 * (A * t) < (4 * (m + 4) + 1) * C * Y /\
  (4 * (m + 4) + 1) * C * Y <= (4 * qq + 6) * (S * C) * Y.
Proof.
  intros Ht Hm Hm0 HS HY HB HC HB8 Hqq [HA1 HA2].
  set (CY := C * Y). set (BY := B * Y).
  assert (HBY : 0 < BY) by (unfold BY; apply Z.mul_pos_pos; lia).
  assert (ECY : CY = B * BY) by (unfold CY, BY; rewrite HC; ring).
  assert (HCY : 8 * BY <= CY) by (rewrite ECY; apply Z.mul_le_mono_nonneg_r; lia).
  assert (L1 : t * ((hi * C - B) * Y) < t * A) by (apply Z.mul_lt_mono_pos_l; lia).
  assert (L2 : t * A < t * (((hi + 2) * C + B) * Y)) by (apply Z.mul_lt_mono_pos_l; lia).
  assert (E1 : t * ((hi * C - B) * Y) = m * CY - t * BY) by (unfold CY, BY; rewrite Hm; ring).
  assert (E2 : t * (((hi + 2) * C + B) * Y) = m * CY + 2 * t * CY + t * BY) by (unfold CY, BY; rewrite Hm; ring).
  assert (M1 : qq * S * CY <= m * CY) by (apply Z.mul_le_mono_nonneg_r; lia).
  assert (M2 : (m + 1) * CY <= (qq + 1) * S * CY) by (apply Z.mul_le_mono_nonneg_r; lia).
  assert (M3 : 32 * CY <= S * CY) by (apply Z.mul_le_mono_nonneg_r; lia).
  assert (T1 : t * BY <= 2 * BY) by (apply Z.mul_le_mono_nonneg_r; lia).
  assert (T2 : t * CY <= 2 * CY) by (apply Z.mul_le_mono_nonneg_r; lia).
  replace ((4 * qq - 1) * (S * C) * Y) with (4 * (qq * S * CY) - S * CY) by (unfold CY; ring).
  replace ((4 * (m + 4) + 1) * C * Y) with (4 * (m * CY) + 17 * CY) by (unfold CY; ring).
  replace ((4 * qq + 6) * (S * C) * Y) with (4 * ((qq + 1) * S * CY) + 2 * (S * CY)) by (unfold CY; ring).
  replace (4 * (A * t)) with (4 * (t * A)) by ring.
  replace ((m + 1) * CY) with (m * CY + CY) in M2 by ring.
  lia.
Qed.
