From Coq Require Import ZArith List Bool Lia.
From ML Require Import base.RustSem model.Fmt model.Num model.Number model.Lemire
  gen.Consts gen.Tables spec.RneZ proofs.TableFacts proofs.LemireFacts0 proofs.LemireFacts1 proofs.LemireFacts2.
Open Scope Z_scope.
Eval vm_compute in (compute_float TABLES F64 release_build 0 9007199254740993).
Eval vm_compute in (compute_float TABLES F64 checked_build 0 9007199254740995).
Eval vm_compute in (compute_float TABLES F64 checked_build 23 9007199254740993).
Eval vm_compute in (compute_float TABLES F64 checked_build 55 1).
Eval vm_compute in (compute_float TABLES F32 checked_build 10 16777217).
Eval vm_compute in (compute_float TABLES F32 checked_build 38 4).
Eval vm_compute in (compute_float TABLES F64 checked_build 308 18).
Eval vm_compute in (compute_float TABLES F64 checked_build (-324) 2).
Eval vm_compute in (compute_float TABLES F64 checked_build (-324) 3).
Eval vm_compute in (compute_float TABLES F64 checked_build (-5) 3).
Eval vm_compute in (compute_float TABLES F64 checked_build (-342) 18446744073709551615).
Print Assumptions compute_float_sound_exact.
