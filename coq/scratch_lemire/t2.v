(** * LemireFacts1: Eisel-Lemire, the generic rounding argument.
    [cf_run]: [compute_float] never panics and equals an explicit arithmetic expression [cf_main]
    (or the declined estimate).  [cf_main_sound]: under the "floor" and "tie" facts about the
    128-bit product, [cf_main] is the correctly rounded value. *)
From Coq Require Import ZArith List Bool Lia Znumtheory.
From Coq Require Import ZifyBool.
From ML Require Import base.RustSem model.Fmt model.Num model.Number model.Lemire
  gen.Consts gen.Tables spec.RneZ proofs.TableFacts proofs.LemireFacts0.
Import ListNotations.
Open Scope Z_scope.

Arguments Z.pow : simpl never.
Local Opaque Z.pow.

(** ** small arithmetic lemmas *)
Lemma even_mod2 r : r mod 2 = 0 -> Z.even r = true.
Proof.
  intros H. apply Z.even_spec. exists (r / 2).
  pose proof (Z.div_mod r 2 ltac:(lia)). lia.
Qed.

Lemma ne_transfer N Dn A D2 m : 0 < Dn -> 0 < D2 -> N * D2 = A * Dn ->
  2 * Z.abs (A - m * D2) <= D2 /\ (2 * Z.abs (A - m * D2) = D2 -> Z.even m = true) ->
  2 * Z.abs (N - m * Dn) <= Dn /\ (2 * Z.abs (N - m * Dn) = Dn -> Z.even m = true).
Proof.
  intros HDn HD2 Heq [H1 H2].
  assert (K : Z.abs (N - m * Dn) * D2 = Z.abs (A - m * D2) * Dn).
  { transitivity (Z.abs ((N - m * Dn) * D2)).
    { rewrite Z.abs_mul, (Z.abs_eq D2) by lia. reflexivity. }
    transitivity (Z.abs ((A - m * D2) * Dn)).
    { f_equal. nia. }
    rewrite Z.abs_mul, (Z.abs_eq Dn) by lia. reflexivity. }
  pose proof (Z.abs_nonneg (N - m * Dn)). pose proof (Z.abs_nonneg (A - m * D2)).
  split.
  - nia.
  - intros E. apply H2. nia.
Qed.

(** round-half-up on the last bit, with the tie correction *)
Lemma half_round A Dh m (tie : bool) : 0 < Dh -> 0 <= m -> m * Dh <= A < (m + 1) * Dh ->
  (tie = true -> A = m * Dh /\ m mod 4 = 1) ->
  (A = m * Dh -> m mod 2 = 1 -> tie = true \/ m mod 4 = 3) ->
  let m' := if tie then m - 1 else m in
  let r := (m' + m' mod 2) / 2 in
  (2 * Z.abs (A - r * (2 * Dh)) <= 2 * Dh /\
   (2 * Z.abs (A - r * (2 * Dh)) = 2 * Dh -> Z.even r = true)) /\
  m <= 2 * r <= m + 1.
Proof.
  intros HD Hm HA Ht1 Ht2.
  destruct tie; cbv zeta iota beta.
  - destruct (Ht1 eq_refl) as [EA Em]. clear Ht1 Ht2.
    set (r := (m - 1 + (m - 1) mod 2) / 2).
    assert (Er : 2 * r = m - 1).
    { unfold r. Show. Z.div_mod_to_equations. Show. lia. }
    assert (Er2 : r mod 2 = 0).
    { unfold r in *. Z.div_mod_to_equations. lia. }
    assert (EP : r * (2 * Dh) = m * Dh - Dh) by nia.
    rewrite EP. replace (A - (m * Dh - Dh)) with Dh by lia. rewrite Z.abs_eq by lia.
    split; [split; [lia|]|lia]. intros _. apply even_mod2. exact Er2.
  - clear Ht1. set (r := (m + m mod 2) / 2).
    destruct (Z.eq_dec (m mod 2) 0) as [E0|E1].
    + assert (Er : 2 * r = m). { unfold r. Z.div_mod_to_equations. lia. }
      assert (EP : r * (2 * Dh) = m * Dh) by nia. rewrite EP.
      rewrite Z.abs_eq by lia. split; [split; [lia|]|lia]. intros E. exfalso. lia.
    + assert (E1' : m mod 2 = 1) by (Z.div_mod_to_equations; lia).
      assert (Er : 2 * r = m + 1). { unfold r. Z.div_mod_to_equations. lia. }
      assert (EP : r * (2 * Dh) = m * Dh + Dh) by nia. rewrite EP.
      rewrite Z.abs_neq by lia. split; [split; [lia|]|lia]. intros E.
      assert (EA : A = m * Dh) by lia.
      destruct (Ht2 EA E1') as [?|E3]; [discriminate|].
      apply even_mod2. unfold r. Z.div_mod_to_equations. lia.
Qed.

(** from a bound on the scaled fraction back to a bound on the value *)
Lemma sc_lt n d E a c : 0 < d -> 0 <= n -> 0 <= a -> 0 <= c -> a + E <= c ->
  sc_num n E < 2 ^ a * sc_den d E -> n < 2 ^ c * d.
Proof.
  intros Hd Hn Ha Hc Hac H. unfold sc_num, sc_den in H.
  pose proof (pow2_pos a Ha). pose proof (pow2_pos c Hc).
  destruct (0 <=? E) eqn:EE.
  - assert (2 ^ a * 2 ^ E <= 2 ^ c) by (rewrite <- pow2_add by lia; apply pow2_le; lia). nia.
  - pose proof (pow2_pos (- E) ltac:(lia)).
    destruct (Z_le_gt_dec 0 (a + E)).
    + assert (2 ^ a = 2 ^ (a + E) * 2 ^ (- E)) by (rewrite <- pow2_add by lia; f_equal; lia).
      assert (2 ^ (a + E) <= 2 ^ c) by (apply pow2_le; lia).
      pose proof (pow2_pos (a + E) ltac:(lia)). nia.
    + assert (2 ^ (- E) = 2 ^ a * 2 ^ (- E - a)) by (rewrite <- pow2_add by lia; f_equal; lia).
      pose proof (pow2_pos (- E - a) ltac:(lia)).
      assert (n * 2 ^ (- E - a) < d) by nia. nia.
Qed.

Lemma sc_ge n d E a c : 0 < d -> 0 <= n -> 0 <= a -> 0 <= c -> c <= a + E ->
  2 ^ a * sc_den d E <= sc_num n E -> 2 ^ c * d <= n.
Proof.
  intros Hd Hn Ha Hc Hac H. unfold sc_num, sc_den in H.
  pose proof (pow2_pos a Ha). pose proof (pow2_pos c Hc).
  destruct (0 <=? E) eqn:EE.
  - assert (2 ^ c <= 2 ^ a * 2 ^ E) by (rewrite <- pow2_add by lia; apply pow2_le; lia). nia.
  - pose proof (pow2_pos (- E) ltac:(lia)).
    assert (2 ^ a = 2 ^ (a + E) * 2 ^ (- E)) by (rewrite <- pow2_add by lia; f_equal; lia).
    assert (2 ^ c <= 2 ^ (a + E)) by (apply pow2_le; lia).
    pose proof (pow2_pos (a + E) ltac:(lia)). nia.
Qed.

Lemma sc_den_pos d E : 0 < d -> 0 < sc_den d E.
Proof. intros. rewrite sc_den_eq. pose proof (p2n_pos E). nia. Qed.

Lemma lor_add a c k : 0 <= k -> 0 <= a < 2 ^ k -> Z.lor a (c * 2 ^ k) = a + c * 2 ^ k.
Proof.
  intros Hk Ha.
  assert (L : Z.land a (c * 2 ^ k) = 0).
  { apply Z.bits_inj'. intros n Hn. rewrite Z.land_spec, Z.bits_0.
    destruct (Z.ltb_spec n k).
    - rewrite Z.mul_pow2_bits_low by lia. apply andb_false_r.
    - replace a with (a mod 2 ^ k) by (apply Z.mod_small; lia).
      rewrite Z.mod_pow2_bits_high by lia. reflexivity. }
  rewrite <- Z.lxor_lor by exact L. symmetry. apply Z.add_nocarry_lxor. exact L.
Qed.
