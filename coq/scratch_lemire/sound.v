From Coq Require Import ZArith List Bool Lia Znumtheory.
From Coq Require Import ZifyBool.
From ML Require Import base.RustSem model.Fmt model.Num model.Number model.Lemire
  gen.Consts gen.Tables spec.RneZ proofs.TableFacts proofs.LemireFacts0 proofs.LemireFacts1.
Import ListNotations.
Open Scope Z_scope.
Arguments Z.pow : simpl never.
Local Opaque Z.pow.

(** ** soundness of [cf_main] from the floor / tie facts *)
Definition cf_tie (f : format) (q lo hi : Z) : bool :=
  let u := hi / 2 ^ 63 in
  let sh := u + 61 - MANTISSA_SIZE f in
  let M := hi / 2 ^ sh in
  (lo <=? 1) && (MIN_EXPONENT_ROUND_TO_EVEN f <=? q) && (q <=? MAX_EXPONENT_ROUND_TO_EVEN f)
  && (M mod 4 =? 1) && (hi mod 2 ^ sh =? 0).

Theorem cf_main_sound f q w lo hi : lfmt f -> 0 < w < 2 ^ 64 ->
  SMALLEST_POWER_OF_TEN f <= q <= LARGEST_POWER_OF_TEN f -> 2 ^ 62 <= hi < 2 ^ 64 ->
  let lz := lz64 w in
  let u := hi / 2 ^ 63 in
  let sh := u + 61 - MANTISSA_SIZE f in
  let M := hi / 2 ^ sh in
  let power2 := pw q + u - lz - MINIMUM_EXPONENT f in
  let A := w * 2 ^ lz * qX q in
  let D := 2 ^ (128 + sh) * qY q in
  M * D <= A < (M + 1) * D ->
  (0 < power2 -> (cf_tie f q lo hi = true -> A = M * D) /\
                 (A = M * D -> M mod 4 = 1 -> cf_tie f q lo hi = true)) ->
  (power2 <= 0 -> forall j, A <> (2 * j + 1) * (D * 2 ^ (1 - power2))) ->
  fields_ok f (cf_main f q lz lo hi) /\
  rne_bits f (dec_num w q) (dec_den q) (pack f (cf_main f q lz lo hi)).
Proof.
  intros L Hw Hq Hhi lz u sh M power2 A D F1 Ftie Fsub.
  pose proof (lfmt_emax f L) as (He1 & He2 & He3 & He4 & He5).
  pose proof (M_range f hi L Hhi) as MR. cbv zeta in MR. fold u in MR. fold sh in MR. fold M in MR.
  destruct MR as (Hu & Hub & HM).
  pose proof (lz64_spec w Hw) as (Hlz & Hw'). fold lz in Hlz, Hw'.
  pose proof (lf_ms f L) as HMS. pose proof (lf_sp10 f L) as Hsp. pose proof (lf_lp10 f L) as Hlp.
  pose proof (pw_bounds q ltac:(lia)) as Hpw.
  assert (HP : 0 < 2 ^ MANTISSA_SIZE f) by (apply pow2_pos; lia).
  assert (HM2 : 2 ^ (MANTISSA_SIZE f + 2) = 4 * 2 ^ MANTISSA_SIZE f).
  { rewrite pow2_add by lia. change (2 ^ 2) with 4. lia. }
  assert (HM1 : 2 ^ (MANTISSA_SIZE f + 1) = 2 * 2 ^ MANTISSA_SIZE f).
  { rewrite pow2_add by lia. change (2 ^ 1) with 2. lia. }
  assert (Hsh : 0 <= sh) by (unfold sh; lia).
  pose proof (qY_pos q) as HY. pose proof (qX_pos q) as HX.
  assert (HG : 0 < 2 ^ (128 + sh)) by (apply pow2_pos; lia).
  assert (HD : 0 < D) by (unfold D; apply Z.mul_pos_pos; lia).
  assert (Hn : 0 < dec_num w q).
  { rewrite dec_num_eq. pose proof (tenN_pos q). apply Z.mul_pos_pos; lia. }
  assert (Hd : 0 < dec_den q).
  { rewrite dec_den_eq. apply tenD_pos. }
  unfold cf_main. cbv zeta. fold u. fold sh. fold M. fold lz. fold power2.
  destruct (power2 <=? 0) eqn:Ep.
  - (* subnormal *)
    assert (Hnp : 1 <= 1 - power2) by lia.
    set (np1 := 1 - power2) in *.
    pose proof (pow2_pos np1 ltac:(lia)) as Hpn.
    set (Dh := D * 2 ^ np1).
    assert (HDh : 0 < Dh) by (unfold Dh; apply Z.mul_pos_pos; lia).
    set (m1 := M / 2 ^ np1).
    assert (Hm1 : m1 * 2 ^ np1 <= M < (m1 + 1) * 2 ^ np1).
    { unfold m1. pose proof (Z.div_mod M (2 ^ np1) ltac:(lia)).
      pose proof (Z.mod_pos_bound M (2 ^ np1) ltac:(lia)). clear - H H0. (timeout 20 nia). }
    assert (Hm1' : 0 <= m1 < 2 * 2 ^ MANTISSA_SIZE f).
    { split.
      - unfold m1. apply Z.div_pos; lia.
      - unfold m1. apply Z.div_lt_upper_bound; [lia|].
        assert (2 ^ 1 <= 2 ^ np1) by (apply pow2_le; lia). change (2 ^ 1) with 2 in *.
        clear - H HM HM2 HP. (timeout 20 nia). }
    assert (HA1 : m1 * Dh <= A < (m1 + 1) * Dh).
    { unfold Dh. clear - Hm1 F1 HD Hpn. split; (timeout 20 nia). }
    pose proof (half_round A Dh m1 false HDh ltac:(lia) HA1 ltac:(discriminate)) as HR.
    cbv zeta iota in HR.
    assert (Hnt : A = m1 * Dh -> m1 mod 2 = 1 -> false = true \/ m1 mod 4 = 3).
    { intros EA Eo. exfalso. apply (Fsub ltac:(lia) (m1 / 2)). fold np1. fold Dh.
      rewrite EA. f_equal. clear - Eo. Z.div_mod_to_equations. lia. }
    specialize (HR Hnt). set (m3 := (m1 + m1 mod 2) / 2) in *.
    destruct HR as [HNE Hr].
    assert (Hsc : sc_num (dec_num w q) (femin f) * (2 * Dh) = A * sc_den (dec_den q) (femin f)).
    { pose proof (scaling w q lz (femin f)) as S.
      assert (Es : femin f + qs q = 129 + sh + np1 - lz).
      { unfold qs, np1, power2, sh. lia. }
      rewrite Es in S. specialize (S ltac:(lia) ltac:(lia)).
      unfold A. rewrite <- S. f_equal. unfold Dh, D.
      replace (2 ^ lz * 2 ^ (129 + sh + np1 - lz)) with (2 * 2 ^ (128 + sh) * 2 ^ np1); [ring|].
      rewrite <- pow2_S, <- !pow2_add by lia. f_equal. lia. }
    pose proof (sc_den_pos (dec_den q) (femin f) Hd) as HDn.
    assert (HD2 : 0 < 2 * Dh) by lia.
    assert (HNEt := ne_transfer _ _ _ _ m3 HDn HD2 Hsc HNE).
    assert (Hupp : sc_num (dec_num w q) (femin f) < 2 ^ MANTISSA_SIZE f * sc_den (dec_den q) (femin f)).
    { apply (Z.mul_lt_mono_pos_r (2 * Dh)); [lia|]. rewrite Hsc.
      assert (A < 2 * 2 ^ MANTISSA_SIZE f * Dh) by (clear - HA1 Hm1' HDh; (timeout 20 nia)).
      clear - H HDn. (timeout 20 nia). }
    assert (Hm3 : 0 <= m3 <= 2 ^ MANTISSA_SIZE f) by lia.
    pose proof (rne_finish_sub f _ _ m3 L Hn Hd Hupp HNEt Hm3) as HF. cbv zeta in HF.
    destruct (64 <=? np1) eqn:E64; [|exact HF].
    assert (Em1 : m1 = 0).
    { unfold m1. apply Z.div_small.
      assert (2 ^ 64 <= 2 ^ np1) by (apply pow2_le; lia).
      assert (2 ^ (MANTISSA_SIZE f + 2) <= 2 ^ 64) by (apply pow2_le; lia). lia. }
    assert (Em3 : m3 = 0) by (unfold m3; rewrite Em1; reflexivity).
    rewrite Em3 in HF. replace (2 ^ MANTISSA_SIZE f <=? 0) with false in HF by lia. exact HF.
  - (* normal *)
    fold (cf_tie f q lo hi) in *. set (tie := cf_tie f q lo hi) in *.
    destruct (Ftie ltac:(lia)) as [Ft1 Ft2].
    assert (HT1 : tie = true -> A = M * D /\ M mod 4 = 1).
    { intros Et. split; [exact (Ft1 Et)|].
      unfold tie, cf_tie in Et. cbv zeta in Et. fold u in Et. fold sh in Et. fold M in Et.
      repeat (apply andb_prop in Et; destruct Et as [Et ?]). lia. }
    assert (HT2 : A = M * D -> M mod 2 = 1 -> tie = true \/ M mod 4 = 3).
    { intros EA Eo. destruct (Z.eq_dec (M mod 4) 1) as [E1|E1].
      - left. exact (Ft2 EA E1).
      - right. clear - Eo E1. Z.div_mod_to_equations. lia. }
    pose proof (half_round A D M tie HD ltac:(lia) F1 HT1 HT2) as HR. cbv zeta in HR.
    set (M1 := if tie then M - 1 else M) in *.
    set (m3 := (M1 + M1 mod 2) / 2) in *.
    destruct HR as [HNE Hr].
    set (E := power2 - 1 + femin f).
    assert (Hsc : sc_num (dec_num w q) E * (2 * D) = A * sc_den (dec_den q) E).
    { pose proof (scaling w q lz E) as S.
      assert (Es : E + qs q = 129 + sh - lz).
      { unfold E, qs, power2, sh. lia. }
      rewrite Es in S. specialize (S ltac:(lia) ltac:(lia)).
      unfold A. rewrite <- S. f_equal. unfold D.
      replace (2 ^ lz * 2 ^ (129 + sh - lz)) with (2 * 2 ^ (128 + sh)); [ring|].
      rewrite <- pow2_S, <- !pow2_add by lia. f_equal. lia. }
    pose proof (sc_den_pos (dec_den q) E Hd) as HDn.
    assert (HD2 : 0 < 2 * D) by lia.
    assert (HNEt := ne_transfer _ _ _ _ m3 HDn HD2 Hsc HNE).
    assert (Hupp : sc_num (dec_num w q) E < 2 ^ (MANTISSA_SIZE f + 1) * sc_den (dec_den q) E).
    { apply (Z.mul_lt_mono_pos_r (2 * D)); [lia|]. rewrite Hsc.
      assert (A < 4 * 2 ^ MANTISSA_SIZE f * D) by (clear - F1 HM HM2 HD; (timeout 20 nia)).
      rewrite HM1. clear - H HDn. (timeout 20 nia). }
    assert (Hlow : 2 ^ MANTISSA_SIZE f * sc_den (dec_den q) E <= sc_num (dec_num w q) E).
    { apply (Z.mul_le_mono_pos_r _ _ (2 * D)); [lia|]. rewrite Hsc.
      assert (2 * 2 ^ MANTISSA_SIZE f * D <= A) by (clear - F1 HM HM1 HD; (timeout 20 nia)).
      clear - H HDn. (timeout 20 nia). }
    assert (Hm3 : 2 ^ MANTISSA_SIZE f <= m3 <= 2 * 2 ^ MANTISSA_SIZE f) by lia.
    pose proof (rne_finish f _ _ E m3 L Hn Hd ltac:(unfold E; lia) Hlow Hupp HNEt Hm3) as HF.
    cbv zeta in HF. replace (E - femin f + 1) with power2 in HF by (unfold E; lia).
    exact HF.
Qed.
