From Coq Require Import ZArith List Bool Lia.
From ML Require Import base.RustSem model.Fmt model.Vec model.Number model.Bigint model.SrcLib gen.Src gen.SrcBigint gen.Consts gen.Tables gen.PowDump.
Import ListNotations.
Open Scope Z_scope.
Eval vm_compute in rs_small_mul CFG_s checked_build (mkVec (repeat (2 ^ 64 - 1) 62) 62) 3.
Eval vm_compute in   rs_small_mul CFG_sa release_build (mkVec [2 ^ 64 - 1; 5] 2) (2 ^ 64 - 1).
