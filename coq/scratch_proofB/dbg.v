(** * gen/SrcBigint.v = model/Bigint.v : the arithmetic half of src/bigint.rs
    (scalar_mul, small_add_from, small_add, small_mul, large_add_from, large_add, long_mul,
    large_mul, pow).

    Every theorem [rs_<name>_eq] states that the Gallina text generated from the Rust source by
    tools/rs2coq equals the hand-written model function, for every build mode, both vector
    back-ends ([alloc c]), all tables and limits, under range hypotheses only:
    limbs are u64 ([limbs_ok]), `usize` values are non-negative, lengths are below 2^64. *)
From Coq Require Import ZArith List Bool Lia Znumtheory.
From Coq Require Import ZifyBool.
From ML Require Import base.RustSem model.Fmt model.Vec model.Number model.Bigint model.SrcLib.
From ML Require Import gen.Src gen.SrcBigint gen.Consts gen.Tables gen.PowDump.
From ML Require Import proofs.LimbVal proofs.BigintFacts1 proofs.SrcEqBase.
Import ListNotations.
Ltac Zify.zify_post_hook ::= Z.div_mod_to_equations.
Open Scope Z_scope.
Open Scope rust_scope.
Local Opaque Z.pow.
Arguments Z.pow : simpl never.

(** ** generalities *)
Lemma B64_2_64 : B64 = 2 ^ 64. Proof. reflexivity. Qed.

Lemma vec_eta v : mkVec (vl v) (vcap v) = v.
Proof. destruct v; reflexivity. Qed.

Lemma zlen_ge0 {A} (l : list A) : 0 <= zlen l.
Proof. unfold zlen. lia. Qed.

Lemma limbs_ok_u64 l x : limbs_ok l -> In x l -> u64_ok x.
Proof. unfold limbs_ok, u64_ok. rewrite Forall_forall, B64_2_64. auto. Qed.

Lemma nth_app_mid (pre : list Z) x suf d : nth (length pre) (pre ++ x :: suf) d = x.
Proof. rewrite app_nth2 by lia. rewrite Nat.sub_diag. reflexivity. Qed.

Lemma list_set_app_mid (pre : list Z) x suf y :
  list_set (pre ++ x :: suf) (length pre) y = pre ++ y :: suf.
Proof. induction pre as [|p pre IH]; cbn [list_set app length]; [reflexivity|]. rewrite IH. reflexivity. Qed.

Lemma slice_get_opt_mid pre x suf :
  slice_get_opt (pre ++ x :: suf) (zlen pre) = Some x.
Proof.
  unfold slice_get_opt. pose proof (zlen_ge0 pre).
  rewrite zlen_app, zlen_cons. pose proof (zlen_ge0 suf).
  replace ((0 <=? zlen pre) && (zlen pre <? zlen pre + (zlen suf + 1))) with true by lia.
  unfold zlen. rewrite Nat2Z.id, nth_app_mid. reflexivity.
Qed.

Lemma vec_get_mid v pre x suf : vl v = pre ++ x :: suf -> vec_get v (zlen pre) = Ok x.
Proof. intros E. unfold vec_get, slice_get. rewrite E, slice_get_opt_mid. reflexivity. Qed.

Lemma vec_set_mid v pre x suf y : vl v = pre ++ x :: suf ->
  vec_set v (zlen pre) y = Ok (mkVec (pre ++ y :: suf) (vcap v)).
Proof.
  intros E. unfold vec_set. rewrite E. pose proof (zlen_ge0 pre). pose proof (zlen_ge0 suf).
  rewrite zlen_app, zlen_cons.
  replace ((0 <=? zlen pre) && (zlen pre <? zlen pre + (zlen suf + 1))) with true by lia.
  unfold zlen. rewrite Nat2Z.id, list_set_app_mid. reflexivity.
Qed.

(** ** scalar operations *)
Lemma rs_scalar_add_eq b x y : rs_scalar_add b x y = Ok (scalar_add x y).
Proof. reflexivity. Qed.

Theorem rs_scalar_mul_eq : forall b x y carry, u64_ok x -> u64_ok y -> u64_ok carry ->
  rs_scalar_mul b x y carry = Ok (scalar_mul x y carry).
Proof.
  intros b x y carry Hx Hy Hc. unfold rs_scalar_mul, scalar_mul, u128_mul, u128_add, u128_shr, as_u128.
  rewrite !wrapu_small by rng.
  assert (Hp : 0 <= x * y < 2 ^ 128).
  { unfold u64_ok in *. change (2 ^ 128) with (2 ^ 64 * 2 ^ 64). nia. }
  assert (Hq : 0 <= x * y + carry < 2 ^ 128).
  { unfold u64_ok in *. change (2 ^ 128) with (2 ^ 64 * 2 ^ 64). nia. }
  rewrite uop_ok by (apply in_u_n; exact Hp). heads.
  rewrite uop_ok by (apply in_u_n; exact Hq). heads.
  rewrite shr_u_ok by reflexivity. heads.
  unfold as_u64, wrapu. rewrite B64_2_64. f_equal. f_equal.
  apply Z.mod_small.
  split; [apply Z.div_pos; lia|].
  apply Z.div_lt_upper_bound; [lia|]. change (2 ^ 128) with (2 ^ 64 * 2 ^ 64) in Hq. lia.
Qed.

Example rs_scalar_mul_example :
  rs_scalar_mul checked_build (2 ^ 64 - 1) (2 ^ 64 - 1) (2 ^ 64 - 1) = Ok (0, 2 ^ 64 - 1).
Proof. vm_compute. reflexivity. Qed.

(** ** `for xi in x.iter_mut()` with a carry = structural recursion with a carry *)
Lemma for_mut_mul_carry (body : Z -> Z -> outcome (Z * Z)) y :
  (forall carry x, u64_ok carry -> u64_ok x ->
     body carry x = Ok (snd (scalar_mul x y carry), fst (scalar_mul x y carry))) ->
  u64_ok y ->
  forall l carry, limbs_ok l -> u64_ok carry ->
  rs_for_mut l body carry = Ok (snd (mul_carry l y carry), fst (mul_carry l y carry)).
Proof.
  intros Hb Hy. induction l as [|x r IH]; intros carry Hl Hc; cbn [rs_for_mut mul_carry].
  - reflexivity.
  - apply limbs_ok_cons in Hl. destruct Hl as [Hx Hr].
    assert (Hx' : u64_ok x) by (unfold u64_ok; rewrite <- B64_2_64; exact Hx).
    rewrite (Hb carry x Hc Hx'). heads.
    pose proof (scalar_mul_spec x y carry Hx) as S. rewrite B64_2_64 in S.
    specialize (S Hy Hc).
    destruct (scalar_mul x y carry) as [lo hi]. cbn [fst snd]. destruct S as [_ [Hhi _]].
    rewrite (IH hi Hr Hhi). heads.
    destruct (mul_carry r y hi) as [r' c']. reflexivity.
Qed.

(** ** small_mul *)
Theorem rs_small_mul_eq : forall c b v y, limbs_ok (vl v) -> u64_ok y ->
  rs_small_mul c b v y = Ok (small_mul c v y).
Proof.
  intros c b v y Hl Hy. unfold rs_small_mul. cbv zeta.
  rewrite (for_mut_mul_carry _ y) with (carry := 0); try assumption.
  - heads. rewrite small_mul_unfold. cbv zeta.
    destruct (mul_carry (vl v) y 0) as [l carry]. cbn [fst snd].
    destruct (negb (carry =? 0)); [|reflexivity].
    destruct (try_push (alloc c) (vset_list v l) carry); reflexivity.
  - intros carry x Hc Hx. rewrite (rs_scalar_mul_eq b x y carry Hx Hy Hc). reflexivity.
  - unfold u64_ok. split; [lia|reflexivity].
Qed.

Example rs_small_mul_example :
  rs_small_mul CFG_s checked_build (mkVec (repeat (2 ^ 64 - 1) 62) 62) 3 = Ok None /\
  rs_small_mul CFG_sa release_build (mkVec [2 ^ 64 - 1; 5] 2) (2 ^ 64 - 1)
    = Ok (Some (mkVec [1; 2 ^ 64 - 7; 5] 4)).
Proof. vm_compute. auto. Qed.

(** ** small_add_from: the index loop `while carry != 0 && index < x.len()` *)
(** the loop invariant: the limbs below [index] are final ([pre]), the rest ([suf]) is untouched;
    what the loop leaves is [add_carry suf carry] *)
Lemma small_add_loop (body : Z * Z * vec -> outcome (ctl (Z * Z * vec) Empty_set)) b :
  (forall carry index v,
     body (carry, index, v) =
       if negb (carry =? 0) && (index <? vlen v) then
         t1 <- vec_get v index ;;
         v' <- vec_set v index (fst (scalar_add t1 carry)) ;;
         t3 <- usize_add b index 1 ;;
         Ok (Next ((if snd (scalar_add t1 carry) then 1 else 0), t3, v'))
       else Ok (Break (carry, index, v))) ->
  forall suf pre carry fuel v,
  vl v = pre ++ suf -> (length suf < fuel)%nat -> zlen (pre ++ suf) < 2 ^ 64 ->
  exists i',
    rs_loop fuel body (carry, zlen pre, v)
    = Ok (inl (snd (add_carry suf carry), i', mkVec (pre ++ fst (add_carry suf carry)) (vcap v))).
Proof.
  intros Hb. induction suf as [|x r IH]; intros pre carry fuel v Ev Hf Hlen;
    (destruct fuel as [|fuel]; [cbn [length] in Hf; lia|]); cbn [rs_loop add_carry]; rewrite Hb.
  - unfold vlen. rewrite Ev, app_nil_r. rewrite Z.ltb_irrefl, andb_false_r. heads.
    exists (zlen pre). cbn [fst snd]. rewrite app_nil_r in *. rewrite <- Ev, vec_eta. reflexivity.
  - unfold vlen. rewrite Ev.
    pose proof (zlen_ge0 pre) as Hp. pose proof (zlen_ge0 r) as Hr.
    rewrite zlen_app, zlen_cons in Hlen |- *.
    destruct (carry =? 0) eqn:Ec; cbn [negb andb].
    + heads. exists (zlen pre). cbn [fst snd]. assert (carry = 0) by lia. subst carry.
      rewrite <- Ev, vec_eta. reflexivity.
    + replace (zlen pre <? zlen pre + (zlen r + 1)) with true by lia.
      destruct (scalar_add x carry) as [s cf] eqn:Es.
      specialize (IH (pre ++ [s]) (if cf then 1 else 0) fuel (mkVec (pre ++ s :: r) (vcap v))).
      rewrite !zlen_app, zlen_cons, zlen_nil in IH. cbn [vl vcap] in IH.
      destruct IH as [i' E].
      * rewrite <- app_assoc. reflexivity.
      * cbn [length] in Hf. lia.
      * lia.
      * exists i'.
        rewrite (vec_get_mid v pre x r Ev). heads. rewrite Es. cbn [fst snd].
        rewrite (vec_set_mid v pre x r _ Ev). heads.
        rewrite usize_add_ok by (unfold u64_ok; lia). heads.
        replace (zlen pre + (0 + 1)) with (zlen pre + 1) in E by lia. rewrite E.
        destruct (add_carry r (if cf then 1 else 0)) as [r' c']. cbn [fst snd].
        rewrite <- app_assoc. reflexivity.
Qed.

Lemma firstn_all_ge {A} (l : list A) n : (length l <= n)%nat -> firstn n l = l.
Proof. intros. apply firstn_all2. assumption. Qed.

Theorem rs_small_add_from_eq : forall c b v y start,
  0 <= start -> zlen (vl v) < 2 ^ 64 ->
  rs_small_add_from c b v y start = Ok (small_add_from c v y start).
Proof.
  intros c b v y start Hs Hlen. unfold rs_small_add_from. cbv zeta.
  rewrite small_add_from_unfold. cbv zeta.
  set (n := Z.to_nat start).
  match goal with |- context [rs_loop ?f ?bd ?st] => set (body := bd) end.
  assert (Hb : forall carry index v0,
     body (carry, index, v0) =
       if negb (carry =? 0) && (index <? vlen v0) then
         t1 <- vec_get v0 index ;;
         v' <- vec_set v0 index (fst (scalar_add t1 carry)) ;;
         t3 <- usize_add b index 1 ;;
         Ok (Next ((if snd (scalar_add t1 carry) then 1 else 0), t3, v'))
       else Ok (Break (carry, index, v0))).
  { intros. unfold body. destruct (negb (carry =? 0) && (index <? vlen v0)); [|reflexivity].
    destruct (vec_get v0 index); reflexivity. }
  destruct (Z_le_gt_dec start (zlen (vl v))) as [Hle|Hgt].
  - (* start within the vector *)
    assert (Hn : (n <= length (vl v))%nat) by (unfold zlen in Hle; lia).
    destruct (small_add_loop body b Hb (skipn n (vl v)) (firstn n (vl v)) y (S (length (vl v))) v)
      as [i' E].
    + symmetry. apply firstn_skipn.
    + rewrite skipn_length. lia.
    + rewrite firstn_skipn. exact Hlen.
    + rewrite zlen_firstn in E by exact Hn. unfold n in E at 1. rewrite Z2Nat.id in E by exact Hs.
      rewrite E. heads. cbn [no_return].
      destruct (add_carry (skipn n (vl v)) y) as [suf carry]. cbn [fst snd]. unfold vset_list.
      destruct (negb (carry =? 0)); [|reflexivity].
      destruct (try_push _ _ carry); reflexivity.
  - (* start beyond the end: the loop does not run *)
    cbn [rs_loop]. rewrite Hb. unfold vlen.
    replace (start <? zlen (vl v)) with false by lia. rewrite andb_false_r. heads. cbn [no_return].
    assert (Hn : (length (vl v) <= n)%nat) by (unfold zlen in Hgt; lia).
    rewrite (skipn_all2 (vl v) Hn), (firstn_all_ge (vl v) n Hn). cbn [add_carry fst snd].
    rewrite app_nil_r. unfold vset_list. rewrite vec_eta.
    destruct (negb (y =? 0)); [|reflexivity].
    destruct (try_push _ _ y); reflexivity.
Qed.

(** the statement is false for a negative [start] (not a `usize`): the source indexes, the model
    clamps [Z.to_nat start] to 0 *)
Example rs_small_add_from_neg_start :
  rs_small_add_from CFG_s release_build (mkVec [5] 62) 1 (-1) = Panic PkIndex /\
  small_add_from CFG_s (mkVec [5] 62) 1 (-1) = Some (mkVec [6] 62).
Proof. vm_compute. auto. Qed.

Example rs_small_add_from_example :
  rs_small_add_from CFG_s checked_build (mkVec (repeat (2 ^ 64 - 1) 62) 62) 1 3 = Ok None /\
  rs_small_add_from CFG_sa release_build (mkVec [7; 2 ^ 64 - 1; 2 ^ 64 - 1] 3) 1 1
    = Ok (Some (mkVec [7; 0; 0; 1] 6)).
Proof. vm_compute. auto. Qed.

Theorem rs_small_add_eq : forall c b v y, zlen (vl v) < 2 ^ 64 ->
  rs_small_add c b v y = Ok (small_add c v y).
Proof.
  intros. unfold rs_small_add, small_add. rewrite rs_small_add_from_eq by (lia || assumption).
  reflexivity.
Qed.

(** ** large_add_from: the `for (index, &yi) in y.iter().enumerate()` loop on `x[start + index]` *)
Lemma add_lists_length : forall y x carry, (length y <= length x)%nat ->
  length (fst (add_lists x y carry)) = length x.
Proof.
  induction y as [|yi y IH]; intros x carry H; cbn [add_lists]; [destruct x; reflexivity|].
  destruct x as [|xi x]; [cbn [length] in H; lia|].
  destruct (scalar_add xi yi) as [s c1].
  destruct (if carry then scalar_add s 1 else (s, false)) as [s' c2].
  specialize (IH x (c1 || c2) ltac:(cbn [length] in H; lia)).
  destruct (add_lists x y (c1 || c2)) as [r cf]. cbn [fst length] in *. Show. lia.
Qed.

Lemma large_add_loop (body : bool * vec -> Z * Z -> outcome (ctl (bool * vec) Empty_set)) b start :
  (forall carry v index yi,
     body (carry, v) (index, yi) =
       t2 <- usize_add b start index ;;
       unwrap (slice_get_opt (vl v) t2) ;;;
       t3 <- vec_get v t2 ;;
       v1 <- vec_set v t2 (fst (scalar_add t3 yi)) ;;
       '(tmp, v2) <- (if carry then
                        t5 <- vec_get v1 t2 ;;
                        v2 <- vec_set v1 t2 (fst (scalar_add t5 1)) ;;
                        Ok (snd (scalar_add t3 yi) || snd (scalar_add t5 1), v2)
                      else Ok (snd (scalar_add t3 yi), v1)) ;;
       Ok (Next (tmp, v2))) ->
  forall ys xs pre k carry v,
  vl v = pre ++ xs -> (ys <> [] -> zlen pre = start + k) -> (length ys <= length xs)%nat ->
  zlen (pre ++ xs) < 2 ^ 64 ->
  rs_for_iter (enumerate_from k ys) body (carry, v)
  = Ok (inl (snd (add_lists xs ys carry), mkVec (pre ++ fst (add_lists xs ys carry)) (vcap v), [])).
Proof.
  intros Hb. induction ys as [|yi ys IH]; intros xs pre k carry v Ev Hk Hlen Hmax;
    cbn [enumerate_from rs_for_iter add_lists].
  - cbn [fst snd]. rewrite <- Ev, vec_eta. reflexivity.
  - destruct xs as [|xi xs]; [cbn [length] in Hlen; lia|].
    specialize (Hk ltac:(discriminate)).
    pose proof (zlen_ge0 pre) as Hp. pose proof (zlen_ge0 xs) as Hx.
    rewrite zlen_app, zlen_cons in Hmax.
    rewrite Hb. rewrite usize_add_ok by (unfold u64_ok; lia). heads. rewrite <- Hk.
    rewrite Ev, slice_get_opt_mid. cbn [unwrap]. heads.
    rewrite (vec_get_mid v pre xi xs Ev). heads.
    rewrite (vec_set_mid v pre xi xs _ Ev). heads.
    destruct (scalar_add xi yi) as [s c1]. cbn [fst snd].
    assert (E2 : ('(tmp, v2) <- (if carry then
                        t5 <- vec_get (mkVec (pre ++ s :: xs) (vcap v)) (zlen pre) ;;
                        v2 <- vec_set (mkVec (pre ++ s :: xs) (vcap v)) (zlen pre) (fst (scalar_add t5 1)) ;;
                        Ok (c1 || snd (scalar_add t5 1), v2)
                      else Ok (c1, (mkVec (pre ++ s :: xs) (vcap v)))) ;;
                   Ok (Next (R := Empty_set) (tmp, v2)))
                = Ok (Next (c1 || snd (if carry then scalar_add s 1 else (s, false)),
                            mkVec (pre ++ fst (if carry then scalar_add s 1 else (s, false)) :: xs) (vcap v)))).
    { destruct carry.
      - rewrite (vec_get_mid _ pre s xs eq_refl). heads.
        rewrite (vec_set_mid _ pre s xs _ eq_refl). heads. reflexivity.
      - heads. cbn [fst snd]. rewrite orb_false_r. reflexivity. }
    rewrite E2. heads. clear E2.
    destruct (if carry then scalar_add s 1 else (s, false)) as [s' c2]. cbn [fst snd].
    rewrite (IH xs (pre ++ [s']) (k + 1) (c1 || c2) (mkVec (pre ++ s' :: xs) (vcap v))).
    + cbn [vcap]. destruct (add_lists xs ys (c1 || c2)) as [r cf]. cbn [fst snd].
      rewrite <- app_assoc. reflexivity.
    + cbn [vl]. rewrite <- app_assoc. reflexivity.
    + intros _. rewrite zlen_app, zlen_cons, zlen_nil. lia.
    + cbn [length] in Hlen. lia.
    + rewrite !zlen_app, zlen_cons, zlen_nil. lia.
Qed.

Theorem rs_large_add_from_eq : forall c b v y start,
  0 <= start -> zlen (vl v) < 2 ^ 64 -> zlen y + start < 2 ^ 64 ->
  rs_large_add_from c b v y start = Ok (large_add_from c v y start).
Proof.
  intros c b v y start Hs Hlen Hsum. unfold rs_large_add_from. intro k1.
  rewrite large_add_from_unfold.
  set (n := Z.to_nat start).
  assert (Hk1 : forall v1, zlen y <= zlen (skipn n (vl v1)) -> zlen (vl v1) < 2 ^ 64 ->
     k1 v1 = Ok (let r := add_lists (skipn n (vl v1)) y false in
                 let v2 := vset_list v1 (firstn n (vl v1) ++ fst r) in
                 if snd r then small_add_from c v2 1 (zlen y + start) else Some v2)).
  { intros v1 Hy Hl1. unfold k1. cbv zeta.
    match goal with |- context [rs_for ?l ?bd ?st] => set (body := bd) end.
    unfold rs_for.
    rewrite (large_add_loop body b start) with (xs := skipn n (vl v1)) (pre := firstn n (vl v1)).
    - heads. cbn [no_return]. cbn [vcap].
      pose proof (add_lists_length y (skipn n (vl v1)) false ltac:(unfold zlen in Hy; lia)) as HL.
      destruct (add_lists (skipn n (vl v1)) y false) as [suf carry]. cbn [fst snd] in *.
      unfold vset_list. destruct carry; [|reflexivity].
      rewrite usize_add_ok by (unfold u64_ok; pose proof (zlen_ge0 y); lia). heads.
      rewrite rs_small_add_from_eq.
      + heads. destruct (small_add_from _ _ _ _); reflexivity.
      + pose proof (zlen_ge0 y); lia.
      + cbn [vl]. unfold zlen in *. rewrite app_length, HL, <- app_length, firstn_skipn. exact Hl1.
    - intros carry v0 index yi. unfold body. reflexivity.
    - symmetry. apply firstn_skipn.
    - intros Hne. rewrite zlen_firstn; [unfold n; lia|].
      assert (0 < zlen y) by (destruct y; [congruence|rewrite zlen_cons; pose proof (zlen_ge0 y); lia]).
      rewrite zlen_skipn in Hy. unfold zlen in *. lia.
    - unfold zlen in Hy. lia.
    - rewrite firstn_skipn. exact Hl1. }
  unfold vlen.
  destruct (usize_saturating_sub (zlen (vl v)) start <? zlen y) eqn:E.
  - rewrite usize_add_ok by (unfold u64_ok; pose proof (zlen_ge0 y); lia). heads.
    destruct (try_resize (alloc c) v (zlen y + start) 0) as [v1|] eqn:Er; [|reflexivity].
    pose proof (large_add_prep_Some (alloc c) v y start v1 Hs) as P. unfold vlen in P.
    rewrite E in P. specialize (P Er). destruct P as [_ [P1 [P2 _]]].
    apply Hk1; [exact P2|]. rewrite P1. unfold large_add_len. rewrite E. exact Hsum.
  - apply Hk1; [|exact Hlen].
    rewrite zlen_skipn. unfold usize_saturating_sub in E. unfold zlen in *. lia.
Qed.

(** false for a negative [start] (not a `usize`) *)
Example rs_large_add_from_neg_start :
  rs_large_add_from CFG_s release_build (mkVec [5] 62) [1] (-1) = Panic PkUnwrap /\
  large_add_from CFG_s (mkVec [5] 62) [1] (-1) = Some (mkVec [6] 62).
Proof. vm_compute. auto. Qed.

Example rs_large_add_from_example :
  rs_large_add_from CFG_s checked_build (mkVec (repeat (2 ^ 64 - 1) 62) 62) [1] 61 = Ok None /\
  rs_large_add_from CFG_s checked_build (mkVec [1] 62) [2 ^ 64 - 1; 2 ^ 64 - 1] 3
    = Ok (Some (mkVec [1; 0; 0; 2 ^ 64 - 1; 2 ^ 64 - 1] 62)) /\
  rs_large_add_from CFG_sa release_build (mkVec [1; 2 ^ 64 - 1; 2 ^ 64 - 1] 3) [2 ^ 64 - 1; 1] 1
    = Ok (Some (mkVec [1; 2 ^ 64 - 2; 1; 1] 6)).
Proof. vm_compute. auto. Qed.

Theorem rs_large_add_eq : forall c b v y, zlen (vl v) < 2 ^ 64 -> zlen y < 2 ^ 64 ->
  rs_large_add c b v y = Ok (large_add c v y).
Proof.
  intros. unfold rs_large_add, large_add. rewrite rs_large_add_from_eq by (lia || assumption).
  reflexivity.
Qed.
