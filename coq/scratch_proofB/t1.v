From Coq Require Import ZArith List Bool Lia.
From ML Require Import base.RustSem model.Fmt model.Vec model.Number model.Bigint model.SrcLib gen.Src gen.SrcBigint gen.Consts gen.Tables gen.PowDump.
Import ListNotations.
Open Scope Z_scope.
Definition M := 2^64 - 1.
Definition outeqb (x : outcome (option vec)) (y : outcome (option vec)) : bool :=
  match x, y with
  | Ok None, Ok None => true
  | Ok (Some a), Ok (Some b) => (if list_eq_dec Z.eq_dec (vl a) (vl b) then true else false) && (vcap a =? vcap b)
  | Panic k, Panic k' => match k, k' with PkOverflow, PkOverflow | PkAssert, PkAssert | PkUnwrap, PkUnwrap | PkIndex, PkIndex | PkFuel, PkFuel | PkNoDump, PkNoDump => true | _, _ => false end
  | UB _, UB _ => true
  | _, _ => false
  end.
Definition cfgs := [CFG_s; CFG_sa; CFG_sc; CFG_sca].
Definition blds := [release_build; checked_build].
Definition all2 {A} (f : config -> build -> A) : list A := flat_map (fun c => map (f c) blds) cfgs.
Definition full := mkVec (repeat M 62) 62.
Definition v3 := mkVec [M; M; 5] 62.
Definition v3f := mkVec [M; M; M] 3.
(* small_add_from *)
Eval vm_compute in all2 (fun c b => map (fun '(v,y,s) => outeqb (rs_small_add_from c b v y s) (Ok (small_add_from c v y s)))
  [(v3,1,0);(v3,7,1);(v3,7,2);(v3,7,3);(v3,7,4);(v3,0,5);(v3,0,0);(full,1,0);(full,1,61);(full,1,62);(full,0,0);(v3f,1,0);(v3f,M,1);(v3,1,-1);(v3,0,-1)]).
(* small_mul *)
Eval vm_compute in all2 (fun c b => map (fun '(v,y) => outeqb (rs_small_mul c b v y) (Ok (small_mul c v y)))
  [(v3,1);(v3,7);(v3,M);(v3,0);(full,1);(full,M);(full,2);(v3f,M);(mkVec [] 62, 5)]).
(* large_add_from *)
Eval vm_compute in all2 (fun c b => map (fun '(v,y,s) => outeqb (rs_large_add_from c b v y s) (Ok (large_add_from c v y s)))
  [(v3,[1],0);(v3,[M;M],0);(v3,[M;M;M],0);(v3,[M;M;M;M],0);(v3,[M;M],1);(v3,[M;M],2);(v3,[M;M],3);(v3,[M;M],5);(v3,[],5);(v3,[],0);(v3,[],3);
   (full,[1],0);(full,[1],61);(full,[1],62);(full,[M;M],61);(full,repeat M 62,0);(full,repeat M 63,0);(v3f,[M;M;M],0);(v3f,[1],3);(v3f,[1],4);(v3,[1],-1);(v3,[],-1);(v3,[1;1;1;1],-1);(v3,[1;1;1;1;1;1],-2)]).
