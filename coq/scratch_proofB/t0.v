From Coq Require Import ZArith List Bool Lia.
From ML Require Import base.RustSem model.Fmt model.Vec model.Number model.Bigint model.SrcLib gen.Src gen.SrcBigint gen.Consts gen.Tables gen.PowDump.
Import ListNotations.
Open Scope Z_scope.
Check small_add_from. Check small_add. Check small_mul. Check large_add_from. Check large_add. Check long_mul_loop. Check long_mul. Check large_mul.
Check pow_large_loop. Check pow_small_loop. Check pow5. Check bigint_pow. Check shl. Check vnew. Check vlen. Check try_push. Check try_from. Check try_resize. Check vset_list.
Check int_pow_fast_path.
