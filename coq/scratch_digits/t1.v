From Coq Require Import ZArith QArith Qpower Qreals Reals List Bool Lia Lra.
From Coq Require Import Floats.SpecFloat.
From Flocq Require Import Core.Core IEEE754.BinarySingleNaN.
From ML Require Import base.RustSem model.Fmt model.FloatOps gen.Consts spec.Decimal spec.Round spec.RoundFacts.
Open Scope Z_scope.
Local Arguments Z.pow : simpl never.

Section Core.
Variable f : format.
Hypothesis Hok : sfmt_ok f = true.
Notation fexp := (FLT_exp (femin f) (prec f)).
Notation rnd := (round radix2 fexp ZnearestE).

Lemma rnd_close (X d : R) :
  (0 < X)%R -> generic_format radix2 fexp X ->
  (Rabs (d - X) < X * bpow radix2 (- (prec f + 1)))%R ->
  rnd d = X.
Proof.
  intros HX HF Hd.
  pose proof (prec_gt_0_f f Hok) as Hp.
  assert (Hvalid : Valid_exp fexp) by auto with typeclass_instances.
  assert (Hhalf : (X * bpow radix2 (- (prec f + 1)) = X * bpow radix2 (- prec f) / 2)%R).
  { replace (- (prec f + 1)) with (- prec f + - 1) by lia. rewrite bpow_plus.
    change (bpow radix2 (-1)) with (/2)%R. field. }
  rewrite Hhalf in Hd. clear Hhalf.
  apply Rabs_lt_inv in Hd. destruct Hd as [Hlo Hhi].
  pose proof (ulp_FLT_gt radix2 (femin f) (prec f) X) as Hu.
  rewrite Rabs_pos_eq in Hu by lra.
  apply Rle_antisym.
  - apply round_N_le_midp; auto.
    rewrite succ_eq_pos by lra. lra.
  - apply round_N_ge_midp; auto.
    rewrite pred_eq_pos by lra. unfold pred_pos.
    destruct (Req_bool_spec X (bpow radix2 (mag radix2 X - 1))) as [He|Hn].
    + assert (X * bpow radix2 (- prec f) <= bpow radix2 (fexp (mag radix2 X - 1)))%R.
      { rewrite He at 1. rewrite <- bpow_plus. apply bpow_le. unfold FLT_exp. lia. }
      lra.
    + lra.
Qed.
End Core.
