From Coq Require Import ZArith QArith Qpower Qreals Qabs Qround Reals List Bool Lia Lra.
From Coq Require Import Floats.SpecFloat.
From Flocq Require Import Core.Core IEEE754.BinarySingleNaN.
From ML Require Import base.RustSem model.Fmt model.FloatOps gen.Consts spec.Decimal spec.Round spec.RoundFacts.
Open Scope Z_scope.
Local Arguments Z.pow : simpl never.

Lemma pow10Q_Qpower k : (pow10Q k == inject_Z 10 ^ k)%Q.
Proof.
  destruct k as [|p|p].
  - reflexivity.
  - unfold pow10Q. rewrite Zpower_Qpower by lia. reflexivity.
  - change (inject_Z 10 ^ Zneg p)%Q with (/ (inject_Z 10 ^ Zpos p))%Q.
    rewrite <- Zpower_Qpower by lia.
    unfold pow10Q. assert (0 < 10 ^ Zpos p) by (apply Z.pow_pos_nonneg; lia).
    destruct (10 ^ Zpos p) as [|q|q]; try lia. reflexivity.
Qed.

Lemma pow10Q_add a b : (pow10Q (a + b) == pow10Q a * pow10Q b)%Q.
Proof. rewrite !pow10Q_Qpower. apply Qpower_plus. discriminate. Qed.

Lemma pow2Q_add a b : (pow2Q (a + b) == pow2Q a * pow2Q b)%Q.
Proof. rewrite !pow2Q_Qpower. apply Qpower_plus. discriminate. Qed.

Lemma pow10Q_pos k : (0 < pow10Q k)%Q.
Proof. rewrite pow10Q_Qpower. apply Qpower_0_lt. reflexivity. Qed.

Lemma pow10Q_nonneg k : 0 <= k -> (pow10Q k == inject_Z (10 ^ k))%Q.
Proof. intros. rewrite pow10Q_Qpower. symmetry. apply Zpower_Qpower. assumption. Qed.

Lemma pow2Q_nonneg k : 0 <= k -> (pow2Q k == inject_Z (2 ^ k))%Q.
Proof. intros. rewrite pow2Q_Qpower. symmetry. apply (Zpower_Qpower 2). assumption. Qed.

Lemma pow10Q_opp k : (pow10Q (- k) == / pow10Q k)%Q.
Proof. rewrite !pow10Q_Qpower. apply Qpower_opp. Qed.

Lemma pow2Q_opp k : (pow2Q (- k) == / pow2Q k)%Q.
Proof. rewrite !pow2Q_Qpower. apply Qpower_opp. Qed.

(** the arithmetic heart of "n digits suffice": 2^p < 10^(n-1) gives 10^(1-n) < 2^-p *)
Lemma pow10_pow2_inv p n :
  0 <= p -> 2 ^ p < 10 ^ (n - 1) -> (pow10Q (1 - n) < pow2Q (- p))%Q.
Proof.
  intros Hp H.
  assert (Hn : 0 <= n - 1).
  { destruct (Z_lt_le_dec (n - 1) 0) as [Hneg|]; [|assumption].
    rewrite (Z.pow_neg_r 10 (n - 1)) in H by assumption. pose proof (Z.pow_pos_nonneg 2 p); lia. }
  replace (1 - n) with (- (n - 1)) by lia.
  rewrite pow10Q_opp, pow2Q_opp.
  rewrite (pow10Q_nonneg _ Hn), (pow2Q_nonneg _ Hp).
  assert (0 < 2 ^ p) by (apply Z.pow_pos_nonneg; lia).
  apply -> Qinv_lt_contravar.
  - rewrite <- Zlt_Qlt. exact H.
  - rewrite <- (Zlt_Qlt 0). lia.
  - rewrite <- (Zlt_Qlt 0). lia.
Qed.
