(** C04 - valid input never panics, in release and debug-assertion builds.  PROVED END TO END: [C04_final] - for every build mode b (the model makes every overflow check, debug assertion, unwrap, index and the 62-limb capacity an explicit Panic outcome) parse_float returns Ok; a corollary of the correctness theorem.  [no_deep_fallback] is the number-theoretic part: the debug assertion shift <= 65 of the rounding primitive can never fire on the slow path.
    Domain as in props/C01.v: [in_domain] = valid_inputb (ASCII digits, integer part without leading zero, any
    i32 exponent) and at most 2^28 digits; all eight configurations, both formats, both build modes; NO further
    premise (the [deep_ok] versions are kept beneath as the intermediate statements).  Closed by [exact]; the
    model is tied to /repo by the correspondence harness on every run. *)

From Coq Require Import ZArith QArith Qabs List Bool Reals Qreals.
From Coq Require Import Floats.SpecFloat.
From Flocq Require Import Core.Core.
From ML Require Import base.RustSem model.Fmt model.Num model.Number model.Parse model.Lemire model.Bellerophon model.Vec model.Bigint model.Slow model.Top
  spec.Decimal spec.Round spec.RoundFacts spec.DigitsSuffice gen.Consts gen.Tables gen.BTables gen.PowDump
  proofs.ParseFacts proofs.FastPathFacts proofs.EndToEnd proofs.EndToEnd2 proofs.EndToEnd3 proofs.EndToEnd4 proofs.EndToEnd5 proofs.EndToEnd6 proofs.EndToEnd7
  proofs.LemireFacts6 proofs.Glue proofs.TruncFacts proofs.TruncFacts2 proofs.SlowFacts1 proofs.DeepFallback proofs.DeepFallback2 proofs.Final.
Import ListNotations.

Open Scope Z_scope.

Theorem C04_C04_final :
  forall (c : config) (f : format) (b : build) (i fr : list Z) (e : Z),
         In c ALL_CONFIGS ->
         f = F32 \/ f = F64 -> in_domain i fr e -> exists bits : Z, PF c f b i fr e = Ok bits.
Proof. exact C04_final. Qed.

Theorem C04_parse_float_correct_final :
  forall (c : config) (f : format) (b : build) (i fr : list Z) (e : Z),
         In c ALL_CONFIGS ->
         f = F32 \/ f = F64 ->
         valid_inputb i fr e = true ->
         zlen i + zlen fr <= 2 ^ 28 -> PF c f b i fr e = Ok (RN f (dec_value i fr e)).
Proof. exact parse_float_correct_final. Qed.

Theorem C04_no_deep_fallback :
  forall (f : format) (b : build) (n : number),
         f = F32 \/ f = F64 ->
         0 <= nmant n < 2 ^ 64 ->
         (many n = true -> 2 ^ (MANTISSA_SIZE f + 3) <= nmant n /\ nmant n + 1 < 2 ^ 64) ->
         no_deep_fallback_at f b n.
Proof. exact no_deep_fallback. Qed.

Theorem C04_C04_no_panic :
  forall (c : config) (f : format) (b : build) (i fr : list Z) (e : Z),
         In c ALL_CONFIGS ->
         f = F32 \/ f = F64 ->
         in_domain i fr e -> EndToEnd7.deep_ok c f b i fr e -> exists bits : Z, PF c f b i fr e = Ok bits.
Proof. exact C04_no_panic. Qed.

Theorem C04_parse_number_no_panic :
  forall (b : build) (i f : list Z) (e : Z),
         valid_inputb i f e = true -> is_ok (parse_number b i f e) = true.
Proof. exact parse_number_no_panic. Qed.

Theorem C04_try_fast_path_no_panic_shipped :
  forall (c : config) (f : format) (b : build) (n : number),
         In c ALL_CONFIGS ->
         f = F32 \/ f = F64 ->
         0 <= nmant n < 2 ^ 64 ->
         - 2 ^ 31 <= nexp n < 2 ^ 31 -> exists r : option Z, try_fast_path c TABLES f b n = Ok r.
Proof. exact try_fast_path_no_panic_shipped. Qed.


Print Assumptions C04_C04_final.
Print Assumptions C04_parse_float_correct_final.
Print Assumptions C04_no_deep_fallback.
Print Assumptions C04_C04_no_panic.
Print Assumptions C04_parse_number_no_panic.
Print Assumptions C04_try_fast_path_no_panic_shipped.
