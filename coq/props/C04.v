(** C04 - valid input never panics, in release and debug-assertion builds.
    FULL STATEMENT (not yet proved):  forall c b f i fr e, cfg_ok c -> valid_inputb i fr e = true ->
      exists bits, parse_float c TABLES BTABLES LIMITS f b i fr e = Ok bits.
    PROVED so far (closed by [exact]; proofs in proofs/ParseFacts.v, proofs/NoUB.v,
    proofs/BigintFacts2.v): the first stage never panics and is independent of the build mode;
    the whole parser never reaches an unchecked access ([UB]); shifts, bit length, top-bit
    extraction never panic on in-range operands.  The remaining stages are covered by the
    correspondence harness in release and debug-assertion+overflow-check builds. *)

From Coq Require Import ZArith QArith List Bool.
From ML Require Import base.RustSem model.Fmt model.Number model.Parse model.Top model.Vec model.Bigint spec.Decimal spec.Round spec.RneZ spec.RneBridge
  gen.Consts gen.Tables gen.BTables gen.PowDump proofs.LimbVal proofs.ParseFacts proofs.Glue proofs.NoUB proofs.BigintFacts2 proofs.FastPathFacts proofs.EndToEnd proofs.TableFacts.
Import ListNotations.

Open Scope Z_scope.

Theorem C04_parse_number_no_panic :
  forall (b : build) (i f : list Z) (e : Z),
         valid_inputb i f e = true -> is_ok (parse_number b i f e) = true.
Proof. exact parse_number_no_panic. Qed.

Theorem C04_parse_number_build_indep :
  forall (b1 b2 : build) (i f : list Z) (e : Z),
         valid_inputb i f e = true -> parse_number b1 i f e = parse_number b2 i f e.
Proof. exact parse_number_build_indep. Qed.

Theorem C04_parse_number_exact :
  forall (b : build) (i f : list Z) (e : Z),
         valid_inputb i f e = true -> parse_number b i f e = Ok (parse_spec i f e).
Proof. exact parse_number_exact. Qed.

Theorem C04_try_fast_path_no_panic_shipped :
  forall (c : config) (f : format) (b : build) (n : number),
         In c ALL_CONFIGS ->
         f = F32 \/ f = F64 ->
         0 <= nmant n < 2 ^ 64 ->
         - 2 ^ 31 <= nexp n < 2 ^ 31 -> exists r : option Z, try_fast_path c TABLES f b n = Ok r.
Proof. exact try_fast_path_no_panic_shipped. Qed.

Theorem C04_fast_class_no_panic :
  forall (c : config) (f : format) (b : build) (BT : btables) (L : limits) (i fr : list Z) (e : Z),
         In c ALL_CONFIGS ->
         f = F32 \/ f = F64 ->
         fast_class f i fr e -> exists bits : Z, parse_float c TABLES BT L f b i fr e = Ok bits.
Proof. exact fast_class_no_panic. Qed.

Theorem C04_parse_float_float_or_panic :
  forall (c : config) (T : tables) (BT : btables) (L : limits) (f : format) 
           (b : build) (i fr : list Z) (e : Z),
         ub_params_ok c T f = true ->
         (exists v : Z, parse_float c T BT L f b i fr e = Ok v) \/
         (exists p : panic_kind, parse_float c T BT L f b i fr e = Panic p).
Proof. exact parse_float_float_or_panic. Qed.

Theorem C04_shl_no_panic :
  forall (c : config) (L : limits) (b : build) (v : vec) (n : Z),
         LIMB_BITS L = 64 ->
         0 <= n < 2 ^ 64 ->
         zlen (vl v) < 2 ^ 63 -> limbs_ok (vl v) -> exists o : option vec, shl c L b v n = Ok o.
Proof. exact shl_no_panic. Qed.

Theorem C04_shl_bits_no_panic :
  forall (c : config) (L : limits) (b : build) (v : vec) (n : Z),
         LIMB_BITS L = 64 -> 0 < n < 64 -> limbs_ok (vl v) -> exists o : option vec, shl_bits c L b v n = Ok o.
Proof. exact shl_bits_no_panic. Qed.

Theorem C04_shl_limbs_no_panic :
  forall (b : build) (v : vec) (n : Z),
         0 < n -> n + zlen (vl v) < 2 ^ 64 -> exists o : option vec, shl_limbs b v n = Ok o.
Proof. exact shl_limbs_no_panic. Qed.

Theorem C04_bit_length_spec :
  forall (L : limits) (b : build) (l : list Z),
         LIMB_BITS L = 64 ->
         limbs_ok l ->
         l <> [] ->
         is_normalized l = true ->
         zlen l < 2 ^ 26 ->
         exists n : Z,
           bit_length L b l = Ok n /\
           0 < n /\
           2 ^ (n - 1) <= lval l < 2 ^ n /\
           n = Z.log2 (lval l) + 1 /\ n = bitlen (lval l) /\ 64 * (zlen l - 1) < n <= 64 * zlen l.
Proof. exact bit_length_spec. Qed.

Theorem C04_hi64_spec :
  forall (b : build) (l : list Z),
         limbs_ok l ->
         l <> [] -> is_normalized l = true -> zlen l < 2 ^ 64 -> hi64 b l = Ok (hi64_val (lval l)).
Proof. exact hi64_spec. Qed.

Theorem C04_from_u64_spec :
  forall (c : config) (L : limits) (b : build) (x : Z),
         0 <= x < 2 ^ 64 ->
         2 <= BIGINT_LIMBS L ->
         exists v : vec,
           from_u64 c L b x = Ok v /\
           vl v = (if x =? 0 then [] else [x]) /\
           lval (vl v) = x /\ limbs_ok (vl v) /\ is_normalized (vl v) = true /\ vcap v = BIGINT_LIMBS L.
Proof. exact from_u64_spec. Qed.


Print Assumptions C04_parse_number_no_panic.
Print Assumptions C04_parse_number_build_indep.
Print Assumptions C04_parse_number_exact.
Print Assumptions C04_try_fast_path_no_panic_shipped.
Print Assumptions C04_fast_class_no_panic.
Print Assumptions C04_parse_float_float_or_panic.
Print Assumptions C04_shl_no_panic.
Print Assumptions C04_shl_bits_no_panic.
Print Assumptions C04_shl_limbs_no_panic.
Print Assumptions C04_bit_length_spec.
Print Assumptions C04_hi64_spec.
Print Assumptions C04_from_u64_spec.
