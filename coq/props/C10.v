(** C10 - equal values written differently give identical bits.
    PROVED (closed by [exact]): two splittings of one digit sequence with compensating exponents
    denote the same rational and are folded into the SAME Number (w, q, truncated) by the first
    stage (proofs/Glue.v, proofs/ParseFacts.v); an appended fraction zero does not change the
    value; the oracle is a function of the rational value only ([rne_bits_iff_RN]: RN f (n/d) is
    characterised by an integer relation on n/d).  The big-integer re-read of the digits
    (parse_mantissa) is covered by the correspondence harness (all re-splittings x appended zeros). *)

From Coq Require Import ZArith QArith List Bool.
From ML Require Import base.RustSem model.Fmt model.Number model.Parse model.Top model.Vec model.Bigint spec.Decimal spec.Round spec.RneZ spec.RneBridge
  gen.Consts gen.Tables gen.BTables gen.PowDump proofs.LimbVal proofs.ParseFacts proofs.Glue proofs.NoUB proofs.BigintFacts2 proofs.FastPathFacts proofs.EndToEnd proofs.TableFacts.
Import ListNotations.

Open Scope Z_scope.

Theorem C10_resplit_number_consistent :
  forall (b1 b2 : build) (i1 f1 : list Z) (e1 : Z) (i2 f2 : list Z) (e2 : Z),
         valid_inputb i1 f1 e1 = true ->
         valid_inputb i2 f2 e2 = true ->
         i1 ++ f1 = i2 ++ f2 ->
         e1 - zlen f1 = e2 - zlen f2 -> parse_number b1 i1 f1 e1 = parse_number b2 i2 f2 e2.
Proof. exact resplit_number_consistent. Qed.

Theorem C10_resplit_value :
  forall (i1 f1 : list Z) (e1 : Z) (i2 f2 : list Z) (e2 : Z),
         i1 ++ f1 = i2 ++ f2 -> e1 - zlen f1 = e2 - zlen f2 -> dec_value i1 f1 e1 == dec_value i2 f2 e2.
Proof. exact resplit_value. Qed.

Theorem C10_appended_zero_value :
  forall (i f : list Z) (e : Z), dec_value i (f ++ [48]) e == dec_value i f e.
Proof. exact appended_zero_value. Qed.

Theorem C10_rne_bits_unique :
  forall f : format,
         bfmt_ok f = true ->
         forall n d b1 b2 : Z, 0 <= n -> 0 < d -> rne_bits f n d b1 -> rne_bits f n d b2 -> b1 = b2.
Proof. exact rne_bits_unique. Qed.

Theorem C10_fast_class_value_invariant :
  forall (c : config) (f : format) (b : build) (BT : btables) (L : limits) (i1 f1 : list Z) 
           (e1 : Z) (i2 f2 : list Z) (e2 : Z),
         In c ALL_CONFIGS ->
         f = F32 \/ f = F64 ->
         fast_class f i1 f1 e1 ->
         fast_class f i2 f2 e2 ->
         dec_value i1 f1 e1 == dec_value i2 f2 e2 ->
         parse_float c TABLES BT L f b i1 f1 e1 = parse_float c TABLES BT L f b i2 f2 e2.
Proof. exact fast_class_value_invariant. Qed.


Print Assumptions C10_resplit_number_consistent.
Print Assumptions C10_resplit_value.
Print Assumptions C10_appended_zero_value.
Print Assumptions C10_rne_bits_unique.
Print Assumptions C10_fast_class_value_invariant.
