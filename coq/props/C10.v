(** C10 - equal values written differently give identical bits.  PROVED END TO END: [C10_final] for any two valid inputs denoting the same rational; plus the stage-1 facts (re-splittings are folded into the same Number).
    Domain as in props/C01.v: [in_domain] = valid_inputb (ASCII digits, integer part without leading zero, any
    i32 exponent) and at most 2^28 digits; all eight configurations, both formats, both build modes; NO further
    premise (the [deep_ok] versions are kept beneath as the intermediate statements).  Closed by [exact]; the
    model is tied to /repo by the correspondence harness on every run. *)

From Coq Require Import ZArith QArith Qabs List Bool Reals Qreals.
From Coq Require Import Floats.SpecFloat.
From Flocq Require Import Core.Core.
From ML Require Import base.RustSem model.Fmt model.Num model.Number model.Parse model.Lemire model.Bellerophon model.Vec model.Bigint model.Slow model.Top
  spec.Decimal spec.Round spec.RoundFacts spec.DigitsSuffice gen.Consts gen.Tables gen.BTables gen.PowDump
  proofs.ParseFacts proofs.FastPathFacts proofs.EndToEnd proofs.EndToEnd2 proofs.EndToEnd3 proofs.EndToEnd4 proofs.EndToEnd5 proofs.EndToEnd6 proofs.EndToEnd7
  proofs.LemireFacts6 proofs.Glue proofs.TruncFacts proofs.TruncFacts2 proofs.SlowFacts1 proofs.DeepFallback proofs.DeepFallback2 proofs.Final.
Import ListNotations.

Open Scope Z_scope.

Theorem C10_C10_final :
  forall (c : config) (f : format) (b : build) (i1 f1 : list Z) (e1 : Z) (i2 f2 : list Z) (e2 : Z),
         In c ALL_CONFIGS ->
         f = F32 \/ f = F64 ->
         in_domain i1 f1 e1 ->
         in_domain i2 f2 e2 ->
         dec_value i1 f1 e1 == dec_value i2 f2 e2 -> PF c f b i1 f1 e1 = PF c f b i2 f2 e2.
Proof. exact C10_final. Qed.

Theorem C10_C10_value_invariant :
  forall (c : config) (f : format) (b : build) (i1 f1 : list Z) (e1 : Z) (i2 f2 : list Z) (e2 : Z),
         In c ALL_CONFIGS ->
         f = F32 \/ f = F64 ->
         in_domain i1 f1 e1 ->
         in_domain i2 f2 e2 ->
         EndToEnd7.deep_ok c f b i1 f1 e1 ->
         EndToEnd7.deep_ok c f b i2 f2 e2 ->
         dec_value i1 f1 e1 == dec_value i2 f2 e2 -> PF c f b i1 f1 e1 = PF c f b i2 f2 e2.
Proof. exact C10_value_invariant. Qed.

Theorem C10_RN_Qeq :
  forall f : format, sfmt_ok f = true -> forall v v' : Q, (0 <= v)%Q -> v == v' -> RN f v = RN f v'.
Proof. exact RN_Qeq. Qed.

Theorem C10_resplit_number_consistent :
  forall (b1 b2 : build) (i1 f1 : list Z) (e1 : Z) (i2 f2 : list Z) (e2 : Z),
         valid_inputb i1 f1 e1 = true ->
         valid_inputb i2 f2 e2 = true ->
         i1 ++ f1 = i2 ++ f2 ->
         e1 - zlen f1 = e2 - zlen f2 -> parse_number b1 i1 f1 e1 = parse_number b2 i2 f2 e2.
Proof. exact resplit_number_consistent. Qed.

Theorem C10_resplit_value :
  forall (i1 f1 : list Z) (e1 : Z) (i2 f2 : list Z) (e2 : Z),
         i1 ++ f1 = i2 ++ f2 -> e1 - zlen f1 = e2 - zlen f2 -> dec_value i1 f1 e1 == dec_value i2 f2 e2.
Proof. exact resplit_value. Qed.

Theorem C10_appended_zero_value :
  forall (i f : list Z) (e : Z), dec_value i (f ++ [48]) e == dec_value i f e.
Proof. exact appended_zero_value. Qed.


Print Assumptions C10_C10_final.
Print Assumptions C10_C10_value_invariant.
Print Assumptions C10_RN_Qeq.
Print Assumptions C10_resplit_number_consistent.
Print Assumptions C10_resplit_value.
Print Assumptions C10_appended_zero_value.

(** SOURCE TIE (tools/rs2coq): the digit-accumulation code of src/parse.rs (parse_number_fast, parse_number, into_i32) is regenerated as Gallina on every run (coq/gen/SrcParse.v) and proved EQUAL to the hand-written model functions, for arbitrary byte lists (garbage included) of fewer than 2^64 bytes, every exponent, both build modes. *)
From ML Require Import model.SrcLib gen.Src gen.SrcBigint gen.SrcSlow gen.SrcParse proofs.SrcEqParse.

Theorem C10_rs_into_i32_eq :
  forall (b : build) (v : Z), rs_into_i32 b v = Ok (into_i32 v).
Proof. exact rs_into_i32_eq. Qed.

Theorem C10_rs_parse_number_fast_eq :
  forall (b : build) (i fr : list Z) (e : Z),
         zlen i + zlen fr < 2 ^ 64 -> rs_parse_number_fast b i fr e = parse_number_fast b i fr e.
Proof. exact rs_parse_number_fast_eq. Qed.

Theorem C10_rs_parse_number_eq :
  forall (b : build) (i fr : list Z) (e : Z),
         zlen i + zlen fr < 2 ^ 64 -> rs_parse_number b i fr e = parse_number b i fr e.
Proof. exact rs_parse_number_eq. Qed.

Theorem C10_parse_number_mant :
  forall (b : build) (i fr : list Z) (e : Z) (n : number),
         parse_number b i fr e = Ok n -> SrcEqBase.u64_ok (nmant n).
Proof. exact parse_number_mant. Qed.

Print Assumptions C10_rs_into_i32_eq.
Print Assumptions C10_rs_parse_number_fast_eq.
Print Assumptions C10_rs_parse_number_eq.
Print Assumptions C10_parse_number_mant.
