(** C03 - printed floats parse back to the same float.  PROVED END TO END: [C03_exact_final] (any rendering whose value is exactly the float x, e.g. the full expansion), [C03_17_digits_final] / [C03_9_digits_final] (any decimal within half a unit of the 17th / 9th significant digit of x - in particular x correctly rounded to 17 / 9 digits); the shortest identifying string exists with <= 17 / 9 digits ([exists_short_decimal_*]) and by definition rounds to x, so it parses back by C01/C02.
    Domain as in props/C01.v: [in_domain] = valid_inputb (ASCII digits, integer part without leading zero, any
    i32 exponent) and at most 2^28 digits; all eight configurations, both formats, both build modes; NO further
    premise (the [deep_ok] versions are kept beneath as the intermediate statements).  Closed by [exact]; the
    model is tied to /repo by the correspondence harness on every run. *)

From Coq Require Import ZArith QArith Qabs List Bool Reals Qreals.
From Coq Require Import Floats.SpecFloat.
From Flocq Require Import Core.Core.
From ML Require Import base.RustSem model.Fmt model.Num model.Number model.Parse model.Lemire model.Bellerophon model.Vec model.Bigint model.Slow model.Top
  spec.Decimal spec.Round spec.RoundFacts spec.DigitsSuffice gen.Consts gen.Tables gen.BTables gen.PowDump
  proofs.ParseFacts proofs.FastPathFacts proofs.EndToEnd proofs.EndToEnd2 proofs.EndToEnd3 proofs.EndToEnd4 proofs.EndToEnd5 proofs.EndToEnd6 proofs.EndToEnd7
  proofs.LemireFacts6 proofs.Glue proofs.TruncFacts proofs.TruncFacts2 proofs.SlowFacts1 proofs.DeepFallback proofs.DeepFallback2 proofs.Final.
Import ListNotations.

Open Scope Z_scope.

Theorem C03_C03_exact_final :
  forall (c : config) (f : format) (b : build) (i fr : list Z) (e x : Z),
         In c ALL_CONFIGS ->
         f = F32 \/ f = F64 ->
         in_domain i fr e -> 0 <= x < inf_bits f -> dec_value i fr e == value_Q f x -> PF c f b i fr e = Ok x.
Proof. exact C03_exact_final. Qed.

Theorem C03_C03_17_digits_final :
  forall (c : config) (b : build) (i fr : list Z) (e x e10 : Z),
         In c ALL_CONFIGS ->
         in_domain i fr e ->
         0 < x < inf_bits F64 ->
         (pow10Q e10 <= value_Q F64 x)%Q ->
         (Qabs (dec_value i fr e - value_Q F64 x) <= pow10Q (e10 - 17 + 1) * (1 # 2))%Q ->
         PF c F64 b i fr e = Ok x.
Proof. exact C03_17_digits_final. Qed.

Theorem C03_C03_9_digits_final :
  forall (c : config) (b : build) (i fr : list Z) (e x e10 : Z),
         In c ALL_CONFIGS ->
         in_domain i fr e ->
         0 < x < inf_bits F32 ->
         (pow10Q e10 <= value_Q F32 x)%Q ->
         (Qabs (dec_value i fr e - value_Q F32 x) <= pow10Q (e10 - 9 + 1) * (1 # 2))%Q ->
         PF c F32 b i fr e = Ok x.
Proof. exact C03_9_digits_final. Qed.

Theorem C03_C03_roundtrip_exact :
  forall (c : config) (f : format) (b : build) (i fr : list Z) (e x : Z),
         In c ALL_CONFIGS ->
         f = F32 \/ f = F64 ->
         in_domain i fr e ->
         EndToEnd7.deep_ok c f b i fr e ->
         0 <= x < inf_bits f -> dec_value i fr e == value_Q f x -> PF c f b i fr e = Ok x.
Proof. exact C03_roundtrip_exact. Qed.

Theorem C03_RN_fixpoint :
  forall f : format, sfmt_ok f = true -> forall x : Z, 0 <= x < inf_bits f -> RN f (value_Q f x) = x.
Proof. exact RN_fixpoint. Qed.

Theorem C03_close_rounds_back :
  forall f : format,
         sfmt_ok f = true ->
         forall (x : Z) (d : Q),
         0 < x < inf_bits f -> (Qabs (d - value_Q f x) < value_Q f x * pow2Q (- (prec f + 1)))%Q -> RN f d = x.
Proof. exact close_rounds_back. Qed.

Theorem C03_digits_suffice :
  forall f : format,
         sfmt_ok f = true ->
         forall (n x e10 : Z) (d : Q),
         2 ^ prec f < 10 ^ (n - 1) ->
         0 < x < inf_bits f ->
         (pow10Q e10 <= value_Q f x)%Q ->
         (Qabs (d - value_Q f x) <= pow10Q (e10 - n + 1) * (1 # 2))%Q -> RN f d = x.
Proof. exact digits_suffice. Qed.

Theorem C03_digits_suffice_F64 :
  forall (x e10 : Z) (d : Q),
         0 < x < inf_bits F64 ->
         (pow10Q e10 <= value_Q F64 x)%Q ->
         (Qabs (d - value_Q F64 x) <= pow10Q (e10 - 17 + 1) * (1 # 2))%Q -> RN F64 d = x.
Proof. exact digits_suffice_F64. Qed.

Theorem C03_digits_suffice_F32 :
  forall (x e10 : Z) (d : Q),
         0 < x < inf_bits F32 ->
         (pow10Q e10 <= value_Q F32 x)%Q ->
         (Qabs (d - value_Q F32 x) <= pow10Q (e10 - 9 + 1) * (1 # 2))%Q -> RN F32 d = x.
Proof. exact digits_suffice_F32. Qed.

Theorem C03_exists_short_decimal_F64 :
  forall x : Z,
         0 < x < inf_bits F64 ->
         exists c j : Z,
           10 ^ 16 <= c < 10 ^ 17 /\
           (Qabs (inject_Z c * pow10Q j - value_Q F64 x) <= pow10Q j * (1 # 2))%Q /\
           RN F64 (inject_Z c * pow10Q j) = x.
Proof. exact exists_short_decimal_F64. Qed.

Theorem C03_exists_short_decimal_F32 :
  forall x : Z,
         0 < x < inf_bits F32 ->
         exists c j : Z,
           10 ^ 8 <= c < 10 ^ 9 /\
           (Qabs (inject_Z c * pow10Q j - value_Q F32 x) <= pow10Q j * (1 # 2))%Q /\
           RN F32 (inject_Z c * pow10Q j) = x.
Proof. exact exists_short_decimal_F32. Qed.

Theorem C03_RN_Qeq :
  forall f : format, sfmt_ok f = true -> forall v v' : Q, (0 <= v)%Q -> v == v' -> RN f v = RN f v'.
Proof. exact RN_Qeq. Qed.


Print Assumptions C03_C03_exact_final.
Print Assumptions C03_C03_17_digits_final.
Print Assumptions C03_C03_9_digits_final.
Print Assumptions C03_C03_roundtrip_exact.
Print Assumptions C03_RN_fixpoint.
Print Assumptions C03_close_rounds_back.
Print Assumptions C03_digits_suffice.
Print Assumptions C03_digits_suffice_F64.
Print Assumptions C03_digits_suffice_F32.
Print Assumptions C03_exists_short_decimal_F64.
Print Assumptions C03_exists_short_decimal_F32.
Print Assumptions C03_RN_Qeq.
