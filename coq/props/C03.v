(** C03 - printed floats parse back to the same float.
    FULL STATEMENT (needs C01/C02): parse_float (render x) = x for the three renderings.
    PROVED (closed by [exact]; spec/RoundFacts.v): every finite non-negative bit pattern is a fixed
    point of the oracle ([RN_fixpoint]: RN f (value x) = x, which covers the exact expansion);
    decoding/encoding round trips; RN depends on the rational value only ([RN_Qeq]).
    9/17-digit sufficiency IS proved at the oracle level (spec/DigitsSuffice.v): any decimal within
    half a unit in the 17th (f64) / 9th (f32) significant digit of a finite positive float rounds back
    to it ([digits_suffice_F64/F32], from [close_rounds_back]: |d - X| < X * 2^-(prec+1) suffices, also
    at powers of two and for subnormals), and a decimal of at most 17 / 9 digits with that property
    exists ([exists_short_decimal]) - so the shortest identifying string exists and has <= 17 / 9 digits.
    Shortest / 9-17 digit renderings come from Rust's own formatter and are run through the real code
    on every run; for the fast-path class the round trip is closed end to end ([fast_class_roundtrip_exact]). *)

From Coq Require Import ZArith QArith List Bool Reals.
From Coq Require Import Floats.SpecFloat.
From Flocq Require Import Core.Core.
From ML Require Import base.RustSem model.Fmt model.FloatOps model.Number model.Parse model.Top spec.Decimal spec.Round spec.RoundFacts spec.DigitsSuffice
  gen.Consts gen.Tables gen.BTables gen.PowDump proofs.ParseFacts proofs.Glue proofs.NoUB proofs.FastPathFacts proofs.EndToEnd.
Import ListNotations.

Open Scope Z_scope.

Theorem C03_RN_fixpoint :
  forall f : format, sfmt_ok f = true -> forall x : Z, 0 <= x < inf_bits f -> RN f (value_Q f x) = x.
Proof. exact RN_fixpoint. Qed.

Theorem C03_decode_valid :
  forall f : format,
         sfmt_ok f = true ->
         forall x : Z,
         0 <= x <= inf_bits f ->
         let s := sf_of_bits f x in
         valid_binary (prec f) (emax f) s = true /\
         nonneg_sf s = true /\ bits_of_sf f s = x /\ (x < inf_bits f -> BinarySingleNaN.is_finite_SF s = true).
Proof. exact decode_valid. Qed.

Theorem C03_sf_of_bits_of_sf :
  forall f : format,
         sfmt_ok f = true ->
         forall s : spec_float,
         valid_binary (prec f) (emax f) s = true -> nonneg_sf s = true -> sf_of_bits f (bits_of_sf f s) = s.
Proof. exact sf_of_bits_of_sf. Qed.

Theorem C03_RN_Qeq :
  forall f : format, sfmt_ok f = true -> forall v v' : Q, (0 <= v)%Q -> v == v' -> RN f v = RN f v'.
Proof. exact RN_Qeq. Qed.

Theorem C03_close_rounds_back :
  forall f : format,
         sfmt_ok f = true ->
         forall (x : Z) (d : Q),
         0 < x < inf_bits f ->
         (Qabs.Qabs (d - value_Q f x) < value_Q f x * pow2Q (- (prec f + 1)))%Q -> RN f d = x.
Proof. exact close_rounds_back. Qed.

Theorem C03_digits_suffice :
  forall f : format,
         sfmt_ok f = true ->
         forall (n x e10 : Z) (d : Q),
         2 ^ prec f < 10 ^ (n - 1) ->
         0 < x < inf_bits f ->
         (pow10Q e10 <= value_Q f x)%Q ->
         (Qabs.Qabs (d - value_Q f x) <= pow10Q (e10 - n + 1) * (1 # 2))%Q -> RN f d = x.
Proof. exact digits_suffice. Qed.

Theorem C03_digits_suffice_F64 :
  forall (x e10 : Z) (d : Q),
         0 < x < inf_bits F64 ->
         (pow10Q e10 <= value_Q F64 x)%Q ->
         (Qabs.Qabs (d - value_Q F64 x) <= pow10Q (e10 - 17 + 1) * (1 # 2))%Q -> RN F64 d = x.
Proof. exact digits_suffice_F64. Qed.

Theorem C03_digits_suffice_F32 :
  forall (x e10 : Z) (d : Q),
         0 < x < inf_bits F32 ->
         (pow10Q e10 <= value_Q F32 x)%Q ->
         (Qabs.Qabs (d - value_Q F32 x) <= pow10Q (e10 - 9 + 1) * (1 # 2))%Q -> RN F32 d = x.
Proof. exact digits_suffice_F32. Qed.

Theorem C03_exists_short_decimal_F64 :
  forall x : Z,
         0 < x < inf_bits F64 ->
         exists c j : Z,
           10 ^ 16 <= c < 10 ^ 17 /\
           (Qabs.Qabs (inject_Z c * pow10Q j - value_Q F64 x) <= pow10Q j * (1 # 2))%Q /\
           RN F64 (inject_Z c * pow10Q j) = x.
Proof. exact exists_short_decimal_F64. Qed.

Theorem C03_exists_short_decimal_F32 :
  forall x : Z,
         0 < x < inf_bits F32 ->
         exists c j : Z,
           10 ^ 8 <= c < 10 ^ 9 /\
           (Qabs.Qabs (inject_Z c * pow10Q j - value_Q F32 x) <= pow10Q j * (1 # 2))%Q /\
           RN F32 (inject_Z c * pow10Q j) = x.
Proof. exact exists_short_decimal_F32. Qed.

Theorem C03_RN_zero :
  forall f : format, RN f 0 = 0.
Proof. exact RN_zero. Qed.

Theorem C03_fast_class_roundtrip_exact :
  forall (c : config) (f : format) (b : build) (BT : btables) (L : limits) (i fr : list Z) (e x : Z),
         In c ALL_CONFIGS ->
         f = F32 \/ f = F64 ->
         fast_class f i fr e ->
         0 <= x < inf_bits f -> dec_value i fr e == value_Q f x -> parse_float c TABLES BT L f b i fr e = Ok x.
Proof. exact fast_class_roundtrip_exact. Qed.


Print Assumptions C03_RN_fixpoint.
Print Assumptions C03_decode_valid.
Print Assumptions C03_sf_of_bits_of_sf.
Print Assumptions C03_RN_Qeq.
Print Assumptions C03_close_rounds_back.
Print Assumptions C03_digits_suffice.
Print Assumptions C03_digits_suffice_F64.
Print Assumptions C03_digits_suffice_F32.
Print Assumptions C03_exists_short_decimal_F64.
Print Assumptions C03_exists_short_decimal_F32.
Print Assumptions C03_RN_zero.
Print Assumptions C03_fast_class_roundtrip_exact.
