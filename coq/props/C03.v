(** C03 - printed floats parse back to the same float.
    FULL STATEMENT (needs C01/C02): parse_float (render x) = x for the three renderings.
    PROVED (closed by [exact]; spec/RoundFacts.v): every finite non-negative bit pattern is a fixed
    point of the oracle ([RN_fixpoint]: RN f (value x) = x, which covers the exact expansion);
    decoding/encoding round trips; RN depends on the rational value only ([RN_Qeq]).
    The 9/17-digit sufficiency (Matula) is NOT proved here; shortest / 9-17 digit renderings come
    from Rust's own formatter and are run through the real code on every run. *)

From Coq Require Import ZArith QArith List Bool Reals.
From Coq Require Import Floats.SpecFloat.
From Flocq Require Import Core.Core.
From ML Require Import base.RustSem model.Fmt model.FloatOps model.Number model.Parse model.Top spec.Decimal spec.Round spec.RoundFacts
  gen.Consts gen.Tables gen.BTables gen.PowDump proofs.ParseFacts proofs.Glue proofs.NoUB proofs.FastPathFacts proofs.EndToEnd.
Import ListNotations.

Open Scope Z_scope.

Theorem C03_RN_fixpoint :
  forall f : format, sfmt_ok f = true -> forall x : Z, 0 <= x < inf_bits f -> RN f (value_Q f x) = x.
Proof. exact RN_fixpoint. Qed.

Theorem C03_decode_valid :
  forall f : format,
         sfmt_ok f = true ->
         forall x : Z,
         0 <= x <= inf_bits f ->
         let s := sf_of_bits f x in
         valid_binary (prec f) (emax f) s = true /\
         nonneg_sf s = true /\ bits_of_sf f s = x /\ (x < inf_bits f -> BinarySingleNaN.is_finite_SF s = true).
Proof. exact decode_valid. Qed.

Theorem C03_sf_of_bits_of_sf :
  forall f : format,
         sfmt_ok f = true ->
         forall s : spec_float,
         valid_binary (prec f) (emax f) s = true -> nonneg_sf s = true -> sf_of_bits f (bits_of_sf f s) = s.
Proof. exact sf_of_bits_of_sf. Qed.

Theorem C03_RN_Qeq :
  forall f : format, sfmt_ok f = true -> forall v v' : Q, (0 <= v)%Q -> v == v' -> RN f v = RN f v'.
Proof. exact RN_Qeq. Qed.

Theorem C03_fast_class_roundtrip_exact :
  forall (c : config) (f : format) (b : build) (BT : btables) (L : limits) (i fr : list Z) (e x : Z),
         In c ALL_CONFIGS ->
         f = F32 \/ f = F64 ->
         fast_class f i fr e ->
         0 <= x < inf_bits f -> dec_value i fr e == value_Q f x -> parse_float c TABLES BT L f b i fr e = Ok x.
Proof. exact fast_class_roundtrip_exact. Qed.


Print Assumptions C03_RN_fixpoint.
Print Assumptions C03_decode_valid.
Print Assumptions C03_sf_of_bits_of_sf.
Print Assumptions C03_RN_Qeq.
Print Assumptions C03_fast_class_roundtrip_exact.
