(** C17 - float field helpers decompose and rebuild every float exactly.
    Statements only (closed by [exact]); proofs are in proofs/NumFacts.v (pure Z, generic in the
    format record under the boolean side condition [fmt_ok], which is discharged by computation on
    the REGENERATED constants F32 / F64 of gen/Consts.v) and proofs/NumFactsFlocq.v (agreement
    with Flocq's own IEEE-754 decoder and real value).
    SOURCE TIE (tools/rs2coq): the functions named below are ALSO regenerated from the Rust source on every
    run by a syn-based translator (coq/gen/Src.v) and proved EQUAL to the hand-written model functions the
    theorems above are about ([rs_*_eq], proofs/SrcEq*.v) - for all inputs and both build modes; a change to
    that Rust code changes the generated file and breaks these equalities.
    Here: is_denormal, exponent, mantissa (num.rs default methods); extended_to_float (extended_float.rs); b, bh (slow.rs). *)

From Coq Require Import ZArith List Bool Reals.
From Coq Require Import Floats.SpecFloat.
From Flocq Require Import Core.Core IEEE754.BinarySingleNaN IEEE754.Bits.
From ML Require Import base.RustSem model.Fmt model.Num model.FloatOps model.Slow gen.Consts proofs.NumFacts proofs.NumFactsFlocq gen.Src proofs.SrcEqBase proofs.SrcEqNum proofs.SrcEqSlowB.

Open Scope Z_scope.

Theorem C17_F32_ok :
  NumFacts.fmt_ok F32 = true.
Proof. exact F32_ok. Qed.

Theorem C17_F64_ok :
  NumFacts.fmt_ok F64 = true.
Proof. exact F64_ok. Qed.

Theorem C17_is_denormal_spec :
  forall f : format,
         NumFacts.fmt_ok f = true ->
         forall x : Z, is_denormal f x = true <-> (x / 2 ^ MANTISSA_SIZE f) mod 2 ^ ewidth f = 0.
Proof. exact is_denormal_spec. Qed.

Theorem C17_float_exponent_spec :
  forall f : format,
         NumFacts.fmt_ok f = true -> forall (b : build) (x : Z), float_exponent f b x = Ok (dec_exp f x).
Proof. exact float_exponent_spec. Qed.

Theorem C17_float_mantissa_spec :
  forall f : format,
         NumFacts.fmt_ok f = true -> forall (b : build) (x : Z), float_mantissa f b x = Ok (dec_mant f x).
Proof. exact float_mantissa_spec. Qed.

Theorem C17_decompose_value :
  forall f : format,
         NumFacts.fmt_ok f = true ->
         forall x : Z,
         0 <= x < 2 ^ (fbits f - 1) ->
         is_finite_bits f x = true ->
         sf_of_bits f x =
         (if dec_mant f x =? 0
          then S754_zero false
          else S754_finite false (Z.to_pos (dec_mant f x)) (dec_exp f x)).
Proof. exact decompose_value. Qed.

Theorem C17_decompose_value_neg :
  forall f : format,
         NumFacts.fmt_ok f = true ->
         forall x : Z,
         2 ^ (fbits f - 1) <= x < 2 ^ fbits f ->
         is_finite_bits f x = true ->
         sf_of_bits f x =
         (if dec_mant f x =? 0
          then S754_zero true
          else S754_finite true (Z.to_pos (dec_mant f x)) (dec_exp f x)).
Proof. exact decompose_value_neg. Qed.

Theorem C17_bits_roundtrip :
  forall f : format,
         NumFacts.fmt_ok f = true ->
         forall x : Z, 0 <= x < 2 ^ fbits f -> is_nan_bits f x = false -> bits_of_sf f (sf_of_bits f x) = x.
Proof. exact bits_roundtrip. Qed.

Theorem C17_bits_roundtrip_nan :
  forall f : format,
         NumFacts.fmt_ok f = true ->
         forall x : Z,
         0 <= x < 2 ^ fbits f -> is_nan_bits f x = true -> bits_of_sf f (sf_of_bits f x) = canonical_nan f.
Proof. exact bits_roundtrip_nan. Qed.

Theorem C17_sf_roundtrip :
  forall f : format,
         NumFacts.fmt_ok f = true ->
         forall s : spec_float,
         valid_binary (prec f) (emax f) s = true ->
         sf_of_bits f (bits_of_sf f s) = s /\ 0 <= bits_of_sf f s < 2 ^ fbits f.
Proof. exact sf_roundtrip. Qed.

Theorem C17_from_bits_spec :
  forall (f : format) (b : build) (u : Z), 0 <= u < 2 ^ fbits f -> from_bits f b u = Ok u.
Proof. exact from_bits_spec. Qed.

Theorem C17_from_bits_wide :
  forall (f : format) (b : build) (u : Z),
         fbits f = 32 -> 2 ^ 32 <= u -> from_bits f b u = (if dbg b then Panic PkAssert else Ok (u mod 2 ^ 32)).
Proof. exact from_bits_wide. Qed.

Theorem C17_pack_spec :
  forall f : format,
         NumFacts.fmt_ok f = true ->
         forall (b : build) (e m : Z),
         0 <= e < 2 ^ ewidth f ->
         0 <= m < 2 ^ MANTISSA_SIZE f ->
         extended_to_float f b {| mant := m; exp := e |} = Ok (e * 2 ^ MANTISSA_SIZE f + m) /\
         exp_field f (e * 2 ^ MANTISSA_SIZE f + m) = e /\
         frac_field f (e * 2 ^ MANTISSA_SIZE f + m) = m /\ 0 <= e * 2 ^ MANTISSA_SIZE f + m < 2 ^ (fbits f - 1).
Proof. exact pack_spec. Qed.

Theorem C17_pack_overlap_spec :
  forall f : format,
         NumFacts.fmt_ok f = true ->
         forall (b : build) (r : Z),
         0 <= r < 2 ^ MANTISSA_SIZE f ->
         extended_to_float f b {| mant := 2 ^ MANTISSA_SIZE f + r; exp := 1 |} = Ok (2 ^ MANTISSA_SIZE f + r) /\
         exp_field f (2 ^ MANTISSA_SIZE f + r) = 1 /\ frac_field f (2 ^ MANTISSA_SIZE f + r) = r.
Proof. exact pack_overlap_spec. Qed.

Theorem C17_pack_infinity :
  forall f : format,
         NumFacts.fmt_ok f = true ->
         forall b : build,
         extended_to_float f b {| mant := 0; exp := INFINITE_POWER f |} = Ok (EXPONENT_MASK f) /\
         sf_of_bits f (EXPONENT_MASK f) = S754_infinity false.
Proof. exact pack_infinity. Qed.

Theorem C17_float_b_spec :
  forall f : format,
         NumFacts.fmt_ok f = true ->
         forall (b : build) (x : Z), float_b f b x = Ok {| mant := dec_mant f x; exp := dec_exp f x |}.
Proof. exact float_b_spec. Qed.

Theorem C17_float_bh_spec :
  forall f : format,
         NumFacts.fmt_ok f = true ->
         forall (b : build) (x : Z),
         float_bh f b x = Ok {| mant := 2 * dec_mant f x + 1; exp := dec_exp f x - 1 |}.
Proof. exact float_bh_spec. Qed.

Theorem C17_bits_order :
  forall f : format,
         NumFacts.fmt_ok f = true ->
         forall x y : Z,
         0 <= x < 2 ^ (fbits f - 1) ->
         0 <= y < 2 ^ (fbits f - 1) -> (x <= y <-> sval f x <= sval f y) /\ (x < y <-> sval f x < sval f y).
Proof. exact bits_order. Qed.

Theorem C17_finite_iff_below_infinity :
  forall f : format,
         NumFacts.fmt_ok f = true ->
         forall x : Z,
         0 <= x < 2 ^ (fbits f - 1) ->
         (is_finite_bits f x = true <-> x < EXPONENT_MASK f) /\
         (is_nan_bits f x = false <-> x <= EXPONENT_MASK f).
Proof. exact finite_iff_below_infinity. Qed.

Theorem C17_float_helpers_ieee :
  forall f : format,
         NumFacts.fmt_ok f = true ->
         forall (b : build) (x : Z),
         0 <= x < 2 ^ fbits f ->
         is_denormal f x = (exp_field f x =? 0) /\
         float_exponent f b x = Ok (dec_exp f x) /\
         float_mantissa f b x = Ok (dec_mant f x) /\
         from_bits f b x = Ok x /\
         sf_of_bits f x = sf_decode f x /\
         (is_nan_bits f x = false -> bits_of_sf f (sf_of_bits f x) = x) /\
         (is_nan_bits f x = true -> bits_of_sf f (sf_of_bits f x) = canonical_nan f).
Proof. exact float_helpers_ieee. Qed.

Theorem C17_flocq_decoder_agrees :
  forall f : format,
         NumFacts.fmt_ok f = true ->
         forall x : Z,
         0 <= x < 2 ^ fbits f ->
         Binary.FF2SF (binary_float_of_bits_aux (MANTISSA_SIZE f) (ewidth f) x) = sf_of_bits f x.
Proof. exact flocq_decoder_agrees. Qed.

Theorem C17_f64_flocq_of_bits :
  forall x : Z, 0 <= x < 2 ^ 64 -> Binary.B2SF 53 1024 (b64_of_bits x) = sf_of_bits F64 x.
Proof. exact f64_flocq_of_bits. Qed.

Theorem C17_f32_flocq_of_bits :
  forall x : Z, 0 <= x < 2 ^ 32 -> Binary.B2SF 24 128 (b32_of_bits x) = sf_of_bits F32 x.
Proof. exact f32_flocq_of_bits. Qed.

Theorem C17_f64_flocq_real_value :
  forall x : Z,
         0 <= x < 2 ^ 64 ->
         is_finite_bits F64 x = true ->
         Binary.B2R 53 1024 (b64_of_bits x) =
         @F2R radix2 {| Fnum := cond_Zopp (sign_bit F64 x) (dec_mant F64 x); Fexp := dec_exp F64 x |}.
Proof. exact f64_flocq_real_value. Qed.

Theorem C17_f32_flocq_real_value :
  forall x : Z,
         0 <= x < 2 ^ 32 ->
         is_finite_bits F32 x = true ->
         Binary.B2R 24 128 (b32_of_bits x) =
         @F2R radix2 {| Fnum := cond_Zopp (sign_bit F32 x) (dec_mant F32 x); Fexp := dec_exp F32 x |}.
Proof. exact f32_flocq_real_value. Qed.

Theorem C17_rs_is_denormal_eq :
  forall (f : format) (b : build) (x : Z), rs_is_denormal f b x = Ok (is_denormal f x).
Proof. exact rs_is_denormal_eq. Qed.

Theorem C17_rs_exponent_eq :
  forall (f : format) (b : build) (x : Z), rs_exponent f b x = float_exponent f b x.
Proof. exact rs_exponent_eq. Qed.

Theorem C17_rs_mantissa_eq :
  forall (f : format) (b : build) (x : Z), rs_mantissa f b x = float_mantissa f b x.
Proof. exact rs_mantissa_eq. Qed.

Theorem C17_rs_extended_to_float_eq :
  forall (f : format) (b : build) (x : extfloat), rs_extended_to_float f b x = extended_to_float f b x.
Proof. exact rs_extended_to_float_eq. Qed.

Theorem C17_rs_b_eq :
  forall (f : format) (b : build) (x : Z), rs_b f b x = float_b f b x.
Proof. exact rs_b_eq. Qed.

Theorem C17_rs_bh_eq :
  forall (f : format) (b : build) (x : Z), rs_bh f b x = float_bh f b x.
Proof. exact rs_bh_eq. Qed.


Print Assumptions C17_F32_ok.
Print Assumptions C17_F64_ok.
Print Assumptions C17_is_denormal_spec.
Print Assumptions C17_float_exponent_spec.
Print Assumptions C17_float_mantissa_spec.
Print Assumptions C17_decompose_value.
Print Assumptions C17_decompose_value_neg.
Print Assumptions C17_bits_roundtrip.
Print Assumptions C17_bits_roundtrip_nan.
Print Assumptions C17_sf_roundtrip.
Print Assumptions C17_from_bits_spec.
Print Assumptions C17_from_bits_wide.
Print Assumptions C17_pack_spec.
Print Assumptions C17_pack_overlap_spec.
Print Assumptions C17_pack_infinity.
Print Assumptions C17_float_b_spec.
Print Assumptions C17_float_bh_spec.
Print Assumptions C17_bits_order.
Print Assumptions C17_finite_iff_below_infinity.
Print Assumptions C17_float_helpers_ieee.
Print Assumptions C17_flocq_decoder_agrees.
Print Assumptions C17_f64_flocq_of_bits.
Print Assumptions C17_f32_flocq_of_bits.
Print Assumptions C17_f64_flocq_real_value.
Print Assumptions C17_f32_flocq_real_value.
Print Assumptions C17_rs_is_denormal_eq.
Print Assumptions C17_rs_exponent_eq.
Print Assumptions C17_rs_mantissa_eq.
Print Assumptions C17_rs_extended_to_float_eq.
Print Assumptions C17_rs_b_eq.
Print Assumptions C17_rs_bh_eq.
