(** C15 - no heap allocation unless the alloc feature is enabled (partial by nature: allocation is a
    runtime effect of the compiled program; it is decided by the counting global allocator, the
    symbol table of the compiled rlib and the inventory of allocation-capable constructs - see
    tools/vlib/props3.py check_c15).
    What the model carries: with [alloc c = false] the only storage is the fixed 62-limb vector -
    every vector the big-integer path builds satisfies [vgood] with [vcap = BIGINT_LIMBS L] (never
    grown: growth [grow] exists only on the heap back-end of model/Vec.v), and operations that
    would need more report [None] instead ([small_mul_None_iff_overflow], [shl_stack_none], ...).
    The theorems below are the capacity-preservation facts, closed by [exact]. *)

From Coq Require Import ZArith List Bool.
From ML Require Import base.RustSem model.Fmt model.Vec model.Bigint model.Slow gen.Consts gen.Tables gen.PowDump
  proofs.LimbVal proofs.BigintFacts1 proofs.BigintFacts2 proofs.SlowFacts1 proofs.RawVecFacts.
Import ListNotations.

Open Scope Z_scope.

Theorem C15_parse_mantissa_closed :
  forall (c : config) (T : tables) (L : limits) (b : build) (maxd : Z),
         pm_tables_ok c T = true ->
         10 ^ (maxd + 1) <= B64 ^ BIGINT_LIMBS L ->
         0 < maxd ->
         forall i fr : list Z,
         forallb Decimal.digitb i = true ->
         forallb Decimal.digitb fr = true ->
         (forall (ch : Z) (r : list Z), i = ch :: r -> ch <> 48) ->
         exists (v : vec) (cnt : Z),
           parse_mantissa c T L b i fr maxd = Ok (v, cnt) /\
           (lval (vl v), cnt) = pm_out maxd [] (ParseFacts.strip0 (i ++ fr)) /\ vgood c L v.
Proof. exact parse_mantissa_closed. Qed.

Theorem C15_from_u64_spec :
  forall L : limits,
         limits_ok L ->
         forall x : Z,
         from_u64 RawVec.stack_cfg L checked_build x =
         Ok {| vl := normalize_list [x]; vcap := BIGINT_LIMBS L |}.
Proof. exact from_u64_spec. Qed.

Theorem C15_small_mul_spec :
  forall (c : config) (v : vec) (y : Z) (v' : vec),
         limbs_ok (vl v) ->
         0 <= y < B64 ->
         small_mul c v y = Some v' ->
         lval (vl v') = lval (vl v) * y /\
         limbs_ok (vl v') /\
         zlen (vl v') = zlen (vl v) + (if B64 ^ zlen (vl v) <=? lval (vl v) * y then 1 else 0) /\
         (alloc c = false -> vcap v' = vcap v) /\
         (zlen (vl v') = zlen (vl v) -> vcap v' = vcap v) /\
         vcap v <= vcap v' /\ (zlen (vl v) <= vcap v -> zlen (vl v') <= vcap v').
Proof. exact small_mul_spec. Qed.

Theorem C15_small_add_spec :
  forall (c : config) (v : vec) (y : Z) (v' : vec),
         limbs_ok (vl v) ->
         0 <= y < B64 ->
         small_add c v y = Some v' ->
         lval (vl v') = lval (vl v) + y /\
         limbs_ok (vl v') /\
         zlen (vl v') = zlen (vl v) + (if B64 ^ zlen (vl v) <=? lval (vl v) + y then 1 else 0) /\
         (alloc c = false -> vcap v' = vcap v) /\
         (zlen (vl v') = zlen (vl v) -> vcap v' = vcap v) /\
         vcap v <= vcap v' /\ (zlen (vl v) <= vcap v -> zlen (vl v') <= vcap v').
Proof. exact small_add_spec. Qed.

Theorem C15_long_mul_spec :
  forall (c : config) (L : limits) (x y : list Z) (z : vec),
         limbs_ok x ->
         limbs_ok y ->
         y <> [] ->
         long_mul c L x y = Some z ->
         lval (vl z) = lval x * lval y /\
         limbs_ok (vl z) /\
         is_normalized (vl z) = true /\
         (alloc c = false -> vcap z = BIGINT_LIMBS L) /\ BIGINT_LIMBS L <= vcap z /\ zlen (vl z) <= vcap z.
Proof. exact long_mul_spec. Qed.

Theorem C15_shl_spec :
  forall (c : config) (L : limits) (b : build) (v : vec) (n : Z) (v' : vec),
         LIMB_BITS L = 64 ->
         0 <= n < 2 ^ 64 ->
         zlen (vl v) < 2 ^ 63 ->
         limbs_ok (vl v) ->
         shl c L b v n = Ok (Some v') ->
         lval (vl v') = lval (vl v) * 2 ^ n /\
         limbs_ok (vl v') /\
         (alloc c = false -> vcap v' = vcap v) /\
         (vl v = [] -> vl v' = []) /\ (is_normalized (vl v) = true -> is_normalized (vl v') = true).
Proof. exact shl_spec. Qed.

Theorem C15_len_le_cap :
  forall (L : limits) (r : RawVec.raw),
         Inv L r ->
         0 <= RawVec.rlen r <= RawVec.cap L /\
         RawVec.rlen r = zlen (abs r) /\ zlen (RawVec.cells r) = RawVec.cap L.
Proof. exact len_le_cap. Qed.


Print Assumptions C15_parse_mantissa_closed.
Print Assumptions C15_from_u64_spec.
Print Assumptions C15_small_mul_spec.
Print Assumptions C15_small_add_spec.
Print Assumptions C15_long_mul_spec.
Print Assumptions C15_shl_spec.
Print Assumptions C15_len_le_cap.
