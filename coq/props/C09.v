(** C09 - parsing is monotonic in the decimal value.
    FULL STATEMENT (needs C01/C02, not yet closed):  valid a -> valid b -> dec_value a <= dec_value b ->
      bits (parse_float a) <= bits (parse_float b).
    PROVED (closed by [exact]; spec/RoundFacts.v): the oracle is monotone - RN f v <= RN f v' for
    0 <= v <= v' as integers, which on non-negative patterns is the order of the floats incl. +inf
    ([bits_le_iff]); the overflow / underflow switch-overs sit exactly at the IEEE thresholds.
    The check compares ordered neighbours on the real code directly (w, w+1; last digit +-1;
    exponent +-1 across every algorithm switch-over). *)

From Coq Require Import ZArith QArith List Bool Reals.
From Coq Require Import Floats.SpecFloat.
From Flocq Require Import Core.Core.
From ML Require Import base.RustSem model.Fmt model.FloatOps model.Number model.Parse model.Top spec.Decimal spec.Round spec.RoundFacts
  gen.Consts gen.Tables gen.BTables gen.PowDump proofs.ParseFacts proofs.Glue proofs.NoUB proofs.FastPathFacts proofs.EndToEnd.
Import ListNotations.

Open Scope Z_scope.

Theorem C09_RN_monotone :
  forall f : format, sfmt_ok f = true -> forall v v' : Q, (0 <= v)%Q -> (v <= v')%Q -> RN f v <= RN f v'.
Proof. exact RN_monotone. Qed.

Theorem C09_bits_le_iff :
  forall f : format,
         sfmt_ok f = true ->
         forall s1 s2 : spec_float,
         valid_binary (prec f) (emax f) s1 = true ->
         valid_binary (prec f) (emax f) s2 = true ->
         nonneg_sf s1 = true ->
         nonneg_sf s2 = true -> (SF2R_inf f s1 <= SF2R_inf f s2)%R <-> bits_of_sf f s1 <= bits_of_sf f s2.
Proof. exact bits_le_iff. Qed.

Theorem C09_bits_lt_iff :
  forall f : format,
         sfmt_ok f = true ->
         forall s1 s2 : spec_float,
         valid_binary (prec f) (emax f) s1 = true ->
         valid_binary (prec f) (emax f) s2 = true ->
         nonneg_sf s1 = true ->
         nonneg_sf s2 = true -> (SF2R_inf f s1 < SF2R_inf f s2)%R <-> bits_of_sf f s1 < bits_of_sf f s2.
Proof. exact bits_lt_iff. Qed.

Theorem C09_RN_range :
  forall f : format, sfmt_ok f = true -> forall v : Q, (0 <= v)%Q -> 0 <= RN f v <= inf_bits f.
Proof. exact RN_range. Qed.

Theorem C09_overflow_threshold_iff :
  forall f : format,
         sfmt_ok f = true -> forall v : Q, (0 <= v)%Q -> RN f v = inf_bits f <-> (overflow_thresholdQ f <= v)%Q.
Proof. exact overflow_threshold_iff. Qed.

Theorem C09_underflow_threshold_iff :
  forall f : format,
         sfmt_ok f = true -> forall v : Q, (0 <= v)%Q -> RN f v = 0 <-> (v <= underflow_thresholdQ f)%Q.
Proof. exact underflow_threshold_iff. Qed.

Theorem C09_fast_class_monotone :
  forall (c : config) (f : format) (b : build) (BT : btables) (L : limits) (i1 f1 : list Z) 
           (e1 : Z) (i2 f2 : list Z) (e2 r1 r2 : Z),
         In c ALL_CONFIGS ->
         f = F32 \/ f = F64 ->
         fast_class f i1 f1 e1 ->
         fast_class f i2 f2 e2 ->
         (dec_value i1 f1 e1 <= dec_value i2 f2 e2)%Q ->
         parse_float c TABLES BT L f b i1 f1 e1 = Ok r1 ->
         parse_float c TABLES BT L f b i2 f2 e2 = Ok r2 -> r1 <= r2.
Proof. exact fast_class_monotone. Qed.


Print Assumptions C09_RN_monotone.
Print Assumptions C09_bits_le_iff.
Print Assumptions C09_bits_lt_iff.
Print Assumptions C09_RN_range.
Print Assumptions C09_overflow_threshold_iff.
Print Assumptions C09_underflow_threshold_iff.
Print Assumptions C09_fast_class_monotone.
