(** C09 - parsing is monotonic in the decimal value.  PROVED END TO END: [C09_final] (bit patterns of non-negative floats are ordered like their values, +inf on top: [bits_le_iff]).
    Domain as in props/C01.v: [in_domain] = valid_inputb (ASCII digits, integer part without leading zero, any
    i32 exponent) and at most 2^28 digits; all eight configurations, both formats, both build modes; NO further
    premise (the [deep_ok] versions are kept beneath as the intermediate statements).  Closed by [exact]; the
    model is tied to /repo by the correspondence harness on every run. *)

From Coq Require Import ZArith QArith Qabs List Bool Reals Qreals.
From Coq Require Import Floats.SpecFloat.
From Flocq Require Import Core.Core.
From ML Require Import base.RustSem model.Fmt model.Num model.Number model.Parse model.Lemire model.Bellerophon model.Vec model.Bigint model.Slow model.Top
  spec.Decimal spec.Round spec.RoundFacts spec.DigitsSuffice gen.Consts gen.Tables gen.BTables gen.PowDump
  proofs.ParseFacts proofs.FastPathFacts proofs.EndToEnd proofs.EndToEnd2 proofs.EndToEnd3 proofs.EndToEnd4 proofs.EndToEnd5 proofs.EndToEnd6 proofs.EndToEnd7
  proofs.LemireFacts6 proofs.Glue proofs.TruncFacts proofs.TruncFacts2 proofs.SlowFacts1 proofs.DeepFallback proofs.DeepFallback2 proofs.Final.
Import ListNotations.

Open Scope Z_scope.

Theorem C09_C09_final :
  forall (c : config) (f : format) (b : build) (i1 f1 : list Z) (e1 : Z) (i2 f2 : list Z) (e2 r1 r2 : Z),
         In c ALL_CONFIGS ->
         f = F32 \/ f = F64 ->
         in_domain i1 f1 e1 ->
         in_domain i2 f2 e2 ->
         (dec_value i1 f1 e1 <= dec_value i2 f2 e2)%Q ->
         PF c f b i1 f1 e1 = Ok r1 -> PF c f b i2 f2 e2 = Ok r2 -> r1 <= r2.
Proof. exact C09_final. Qed.

Theorem C09_C09_monotone :
  forall (c : config) (f : format) (b : build) (i1 f1 : list Z) (e1 : Z) (i2 f2 : list Z) (e2 r1 r2 : Z),
         In c ALL_CONFIGS ->
         f = F32 \/ f = F64 ->
         in_domain i1 f1 e1 ->
         in_domain i2 f2 e2 ->
         EndToEnd7.deep_ok c f b i1 f1 e1 ->
         EndToEnd7.deep_ok c f b i2 f2 e2 ->
         (dec_value i1 f1 e1 <= dec_value i2 f2 e2)%Q ->
         PF c f b i1 f1 e1 = Ok r1 -> PF c f b i2 f2 e2 = Ok r2 -> r1 <= r2.
Proof. exact C09_monotone. Qed.

Theorem C09_RN_monotone :
  forall f : format, sfmt_ok f = true -> forall v v' : Q, (0 <= v)%Q -> (v <= v')%Q -> RN f v <= RN f v'.
Proof. exact RN_monotone. Qed.

Theorem C09_bits_le_iff :
  forall f : format,
         sfmt_ok f = true ->
         forall s1 s2 : spec_float,
         valid_binary (prec f) (emax f) s1 = true ->
         valid_binary (prec f) (emax f) s2 = true ->
         nonneg_sf s1 = true ->
         nonneg_sf s2 = true ->
         (SF2R_inf f s1 <= SF2R_inf f s2)%R <-> FloatOps.bits_of_sf f s1 <= FloatOps.bits_of_sf f s2.
Proof. exact bits_le_iff. Qed.

Theorem C09_overflow_threshold_iff :
  forall f : format,
         sfmt_ok f = true -> forall v : Q, (0 <= v)%Q -> RN f v = inf_bits f <-> (overflow_thresholdQ f <= v)%Q.
Proof. exact overflow_threshold_iff. Qed.

Theorem C09_underflow_threshold_iff :
  forall f : format,
         sfmt_ok f = true -> forall v : Q, (0 <= v)%Q -> RN f v = 0 <-> (v <= underflow_thresholdQ f)%Q.
Proof. exact underflow_threshold_iff. Qed.


Print Assumptions C09_C09_final.
Print Assumptions C09_C09_monotone.
Print Assumptions C09_RN_monotone.
Print Assumptions C09_bits_le_iff.
Print Assumptions C09_overflow_threshold_iff.
Print Assumptions C09_underflow_threshold_iff.
