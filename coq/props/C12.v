(** C12 - big-integer arithmetic is exact and reports overflow instead of wrapping.
    Statements only (closed by [exact]); proofs in proofs/BigintFacts1.v (add / multiply / compare /
    normalise / powers) and proofs/BigintFacts2.v (shifts, bit length, top 64 bits + sticky flag,
    from_u64), over the list-of-limbs model of model/Bigint.v with [lval l] = sum l_i * 2^(64 i)
    (proofs/LimbVal.v).  All theorems hold for an arbitrary build mode (release / checked) and both
    back-ends unless they say "stack"; "None <-> does not fit" theorems are for the fixed-capacity
    back-end, where failure must be reported exactly when B64^capacity <= exact result. *)

From Coq Require Import ZArith List Bool.
From ML Require Import base.RustSem model.Fmt model.Vec model.Bigint gen.Consts gen.Tables gen.PowDump proofs.LimbVal proofs.BigintFacts2.
Import ListNotations.

Open Scope Z_scope.

Theorem C12_shl_bits_spec :
  forall (c : config) (L : limits) (b : build) (v : vec) (n : Z) (v' : vec),
         LIMB_BITS L = 64 ->
         0 < n < 64 ->
         limbs_ok (vl v) ->
         shl_bits c L b v n = Ok (Some v') ->
         lval (vl v') = lval (vl v) * 2 ^ n /\
         limbs_ok (vl v') /\
         zlen (vl v') = zlen (vl v) + (if shl_carry (vl v) n =? 0 then 0 else 1) /\
         (alloc c = false -> vcap v' = vcap v) /\
         (alloc c = true ->
          vcap v' =
          (if negb (shl_carry (vl v) n =? 0) && (zlen (vl v) =? vcap v)
           then grow (vcap v) (zlen (vl v) + 1)
           else vcap v)) /\ (is_normalized (vl v) = true -> is_normalized (vl v') = true).
Proof. exact shl_bits_spec. Qed.

Theorem C12_shl_bits_no_panic :
  forall (c : config) (L : limits) (b : build) (v : vec) (n : Z),
         LIMB_BITS L = 64 -> 0 < n < 64 -> limbs_ok (vl v) -> exists o : option vec, shl_bits c L b v n = Ok o.
Proof. exact shl_bits_no_panic. Qed.

Theorem C12_shl_bits_stack_none :
  forall (c : config) (L : limits) (b : build) (v : vec) (n : Z),
         LIMB_BITS L = 64 ->
         0 < n < 64 ->
         limbs_ok (vl v) ->
         alloc c = false ->
         zlen (vl v) <= vcap v -> shl_bits c L b v n = Ok None <-> B64 ^ vcap v <= lval (vl v) * 2 ^ n.
Proof. exact shl_bits_stack_none. Qed.

Theorem C12_shl_limbs_spec :
  forall (b : build) (v : vec) (n : Z) (v' : vec),
         0 < n ->
         n + zlen (vl v) < 2 ^ 64 ->
         limbs_ok (vl v) ->
         shl_limbs b v n = Ok (Some v') ->
         lval (vl v') = lval (vl v) * B64 ^ n /\
         limbs_ok (vl v') /\
         vl v' = (if zlen (vl v) =? 0 then [] else repeat 0 (Z.to_nat n) ++ vl v) /\
         zlen (vl v') = (if zlen (vl v) =? 0 then 0 else n + zlen (vl v)) /\
         vcap v' = vcap v /\
         n + zlen (vl v) <= vcap v /\ (is_normalized (vl v) = true -> is_normalized (vl v') = true).
Proof. exact shl_limbs_spec. Qed.

Theorem C12_shl_limbs_none :
  forall (b : build) (v : vec) (n : Z),
         0 < n -> n + zlen (vl v) < 2 ^ 64 -> shl_limbs b v n = Ok None <-> vcap v < n + zlen (vl v).
Proof. exact shl_limbs_none. Qed.

Theorem C12_shl_spec :
  forall (c : config) (L : limits) (b : build) (v : vec) (n : Z) (v' : vec),
         LIMB_BITS L = 64 ->
         0 <= n < 2 ^ 64 ->
         zlen (vl v) < 2 ^ 63 ->
         limbs_ok (vl v) ->
         shl c L b v n = Ok (Some v') ->
         lval (vl v') = lval (vl v) * 2 ^ n /\
         limbs_ok (vl v') /\
         (alloc c = false -> vcap v' = vcap v) /\
         (vl v = [] -> vl v' = []) /\ (is_normalized (vl v) = true -> is_normalized (vl v') = true).
Proof. exact shl_spec. Qed.

Theorem C12_shl_no_panic :
  forall (c : config) (L : limits) (b : build) (v : vec) (n : Z),
         LIMB_BITS L = 64 ->
         0 <= n < 2 ^ 64 ->
         zlen (vl v) < 2 ^ 63 -> limbs_ok (vl v) -> exists o : option vec, shl c L b v n = Ok o.
Proof. exact shl_no_panic. Qed.

Theorem C12_shl_stack_none :
  forall (c : config) (L : limits) (b : build) (v : vec) (n : Z),
         LIMB_BITS L = 64 ->
         0 <= n < 2 ^ 64 ->
         zlen (vl v) < 2 ^ 63 ->
         limbs_ok (vl v) ->
         alloc c = false ->
         vl v <> [] ->
         is_normalized (vl v) = true ->
         zlen (vl v) <= vcap v -> shl c L b v n = Ok None <-> B64 ^ vcap v <= lval (vl v) * 2 ^ n.
Proof. exact shl_stack_none. Qed.

Theorem C12_bit_length_spec :
  forall (L : limits) (b : build) (l : list Z),
         LIMB_BITS L = 64 ->
         limbs_ok l ->
         l <> [] ->
         is_normalized l = true ->
         zlen l < 2 ^ 26 ->
         exists n : Z,
           bit_length L b l = Ok n /\
           0 < n /\
           2 ^ (n - 1) <= lval l < 2 ^ n /\
           n = Z.log2 (lval l) + 1 /\ n = bitlen (lval l) /\ 64 * (zlen l - 1) < n <= 64 * zlen l.
Proof. exact bit_length_spec. Qed.

Theorem C12_bit_length_nil :
  forall (L : limits) (b : build), LIMB_BITS L = 64 -> bit_length L b [] = Ok 0.
Proof. exact bit_length_nil. Qed.

Theorem C12_hi64_spec :
  forall (b : build) (l : list Z),
         limbs_ok l ->
         l <> [] -> is_normalized l = true -> zlen l < 2 ^ 64 -> hi64 b l = Ok (hi64_val (lval l)).
Proof. exact hi64_spec. Qed.

Theorem C12_hi64_nil :
  forall b : build, hi64 b [] = Ok (0, false).
Proof. exact hi64_nil. Qed.

Theorem C12_hi64_val_bounds :
  forall m : Z, 0 < m -> 2 ^ 63 <= fst (hi64_val m) < 2 ^ 64.
Proof. exact hi64_val_bounds. Qed.

Theorem C12_from_u64_spec :
  forall (c : config) (L : limits) (b : build) (x : Z),
         0 <= x < 2 ^ 64 ->
         2 <= BIGINT_LIMBS L ->
         exists v : vec,
           from_u64 c L b x = Ok v /\
           vl v = (if x =? 0 then [] else [x]) /\
           lval (vl v) = x /\ limbs_ok (vl v) /\ is_normalized (vl v) = true /\ vcap v = BIGINT_LIMBS L.
Proof. exact from_u64_spec. Qed.


Print Assumptions C12_shl_bits_spec.
Print Assumptions C12_shl_bits_no_panic.
Print Assumptions C12_shl_bits_stack_none.
Print Assumptions C12_shl_limbs_spec.
Print Assumptions C12_shl_limbs_none.
Print Assumptions C12_shl_spec.
Print Assumptions C12_shl_no_panic.
Print Assumptions C12_shl_stack_none.
Print Assumptions C12_bit_length_spec.
Print Assumptions C12_bit_length_nil.
Print Assumptions C12_hi64_spec.
Print Assumptions C12_hi64_nil.
Print Assumptions C12_hi64_val_bounds.
Print Assumptions C12_from_u64_spec.
