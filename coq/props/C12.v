(** C12 - big-integer arithmetic is exact and reports overflow instead of wrapping.
    Statements only (closed by [exact]); proofs in proofs/BigintFacts1.v (add / multiply / compare /
    normalise / powers) and proofs/BigintFacts2.v (shifts, bit length, top 64 bits + sticky flag,
    from_u64), over the list-of-limbs model of model/Bigint.v with [lval l] = sum l_i * 2^(64 i)
    (proofs/LimbVal.v).  All theorems hold for an arbitrary build mode (release / checked) and both
    back-ends unless they say "stack"; "None <-> does not fit" theorems are for the fixed-capacity
    back-end, where failure must be reported exactly when B64^capacity <= exact result. *)

From Coq Require Import ZArith List Bool.
From ML Require Import base.RustSem model.Fmt model.Vec model.Bigint gen.Consts gen.Tables gen.PowDump proofs.LimbVal proofs.BigintFacts1 proofs.BigintFacts2.
Import ListNotations.

Open Scope Z_scope.

Theorem C12_small_add_spec :
  forall (c : config) (v : vec) (y : Z) (v' : vec),
         limbs_ok (vl v) ->
         0 <= y < B64 ->
         small_add c v y = Some v' ->
         lval (vl v') = lval (vl v) + y /\
         limbs_ok (vl v') /\
         zlen (vl v') = zlen (vl v) + (if B64 ^ zlen (vl v) <=? lval (vl v) + y then 1 else 0) /\
         (alloc c = false -> vcap v' = vcap v) /\
         (zlen (vl v') = zlen (vl v) -> vcap v' = vcap v) /\
         vcap v <= vcap v' /\ (zlen (vl v) <= vcap v -> zlen (vl v') <= vcap v').
Proof. exact small_add_spec. Qed.

Theorem C12_small_add_None_iff_overflow :
  forall (c : config) (v : vec) (y : Z),
         limbs_ok (vl v) ->
         0 <= y < B64 ->
         alloc c = false -> zlen (vl v) <= vcap v -> small_add c v y = None <-> B64 ^ vcap v <= lval (vl v) + y.
Proof. exact small_add_None_iff_overflow. Qed.

Theorem C12_small_add_failed_spec :
  forall (v : vec) (y : Z),
         limbs_ok (vl v) ->
         0 <= y < B64 ->
         lval (vl (small_add_failed v y)) = (lval (vl v) + y) mod B64 ^ zlen (vl v) /\
         limbs_ok (vl (small_add_failed v y)) /\
         length (vl (small_add_failed v y)) = length (vl v) /\ vcap (small_add_failed v y) = vcap v.
Proof. exact small_add_failed_spec. Qed.

Theorem C12_small_mul_spec :
  forall (c : config) (v : vec) (y : Z) (v' : vec),
         limbs_ok (vl v) ->
         0 <= y < B64 ->
         small_mul c v y = Some v' ->
         lval (vl v') = lval (vl v) * y /\
         limbs_ok (vl v') /\
         zlen (vl v') = zlen (vl v) + (if B64 ^ zlen (vl v) <=? lval (vl v) * y then 1 else 0) /\
         (alloc c = false -> vcap v' = vcap v) /\
         (zlen (vl v') = zlen (vl v) -> vcap v' = vcap v) /\
         vcap v <= vcap v' /\ (zlen (vl v) <= vcap v -> zlen (vl v') <= vcap v').
Proof. exact small_mul_spec. Qed.

Theorem C12_small_mul_None_iff_overflow :
  forall (c : config) (v : vec) (y : Z),
         limbs_ok (vl v) ->
         0 <= y < B64 ->
         alloc c = false -> zlen (vl v) <= vcap v -> small_mul c v y = None <-> B64 ^ vcap v <= lval (vl v) * y.
Proof. exact small_mul_None_iff_overflow. Qed.

Theorem C12_small_mul_failed_spec :
  forall (v : vec) (y : Z),
         limbs_ok (vl v) ->
         0 <= y < B64 ->
         lval (vl (small_mul_failed v y)) = (lval (vl v) * y) mod B64 ^ zlen (vl v) /\
         limbs_ok (vl (small_mul_failed v y)) /\
         length (vl (small_mul_failed v y)) = length (vl v) /\ vcap (small_mul_failed v y) = vcap v.
Proof. exact small_mul_failed_spec. Qed.

Theorem C12_large_add_from_spec :
  forall (c : config) (v : vec) (y : list Z) (start : Z) (v' : vec),
         limbs_ok (vl v) ->
         limbs_ok y ->
         0 <= start ->
         large_add_from c v y start = Some v' ->
         let M := large_add_len v y start in
         lval (vl v') = lval (vl v) + lval y * B64 ^ start /\
         limbs_ok (vl v') /\
         (start <= zlen (vl v) -> firstn (Z.to_nat start) (vl v') = firstn (Z.to_nat start) (vl v)) /\
         zlen (vl v') = M + (if B64 ^ M <=? lval (vl v) + lval y * B64 ^ start then 1 else 0) /\
         (alloc c = false -> vcap v' = vcap v) /\
         (zlen (vl v') = zlen (vl v) -> vcap v' = vcap v) /\
         vcap v <= vcap v' /\ (zlen (vl v) <= vcap v -> zlen (vl v') <= vcap v').
Proof. exact large_add_from_spec. Qed.

Theorem C12_large_add_from_None_iff_overflow :
  forall (c : config) (v : vec) (y : list Z) (start : Z),
         limbs_ok (vl v) ->
         limbs_ok y ->
         0 <= start ->
         alloc c = false ->
         zlen (vl v) <= vcap v ->
         is_normalized y = true ->
         large_add_from c v y start = None <-> B64 ^ vcap v <= lval (vl v) + lval y * B64 ^ start.
Proof. exact large_add_from_None_iff_overflow. Qed.

Theorem C12_long_mul_spec :
  forall (c : config) (L : limits) (x y : list Z) (z : vec),
         limbs_ok x ->
         limbs_ok y ->
         y <> [] ->
         long_mul c L x y = Some z ->
         lval (vl z) = lval x * lval y /\
         limbs_ok (vl z) /\
         is_normalized (vl z) = true /\
         (alloc c = false -> vcap z = BIGINT_LIMBS L) /\ BIGINT_LIMBS L <= vcap z /\ zlen (vl z) <= vcap z.
Proof. exact long_mul_spec. Qed.

Theorem C12_long_mul_None_iff_overflow :
  forall (c : config) (L : limits) (x y : list Z),
         alloc c = false ->
         limbs_ok x ->
         limbs_ok y ->
         y <> [] ->
         is_normalized x = true ->
         x <> [] ->
         zlen x <= BIGINT_LIMBS L -> long_mul c L x y = None <-> B64 ^ BIGINT_LIMBS L <= lval x * lval y.
Proof. exact long_mul_None_iff_overflow. Qed.

Theorem C12_long_mul_fits_Some :
  forall (c : config) (L : limits) (x y : list Z),
         alloc c = false ->
         limbs_ok x -> limbs_ok y -> y <> [] -> zlen x + zlen y <= BIGINT_LIMBS L -> long_mul c L x y <> None.
Proof. exact long_mul_fits_Some. Qed.

Theorem C12_large_mul_spec :
  forall (c : config) (L : limits) (v : vec) (y : list Z) (v' : vec),
         limbs_ok (vl v) ->
         limbs_ok y ->
         vl v <> [] \/ zlen y <= 1 ->
         large_mul c L v y = Some v' ->
         lval (vl v') = lval (vl v) * lval y /\
         limbs_ok (vl v') /\
         (zlen y <> 1 -> is_normalized (vl v') = true) /\
         (alloc c = false -> vcap v' = (if zlen y =? 1 then vcap v else BIGINT_LIMBS L)) /\
         (zlen (vl v) <= vcap v -> zlen (vl v') <= vcap v').
Proof. exact large_mul_spec. Qed.

Theorem C12_large_mul_None_iff_overflow :
  forall (c : config) (L : limits) (v : vec) (y : list Z),
         alloc c = false ->
         limbs_ok (vl v) ->
         limbs_ok y ->
         is_normalized y = true ->
         2 <= zlen y ->
         zlen y <= BIGINT_LIMBS L ->
         vl v <> [] -> large_mul c L v y = None <-> B64 ^ BIGINT_LIMBS L <= lval (vl v) * lval y.
Proof. exact large_mul_None_iff_overflow. Qed.

Theorem C12_large_mul_empty_quirk :
  forall (c : config) (L : limits) (v : vec) (y : list Z) (v' : vec),
         vl v = [] -> 2 <= zlen y -> large_mul c L v y = Some v' -> vl v' = normalize_list y.
Proof. exact large_mul_empty_quirk. Qed.

Theorem C12_vcompare_spec :
  forall x y : list Z,
         limbs_ok x ->
         limbs_ok y -> is_normalized x = true -> is_normalized y = true -> vcompare x y = (lval x ?= lval y).
Proof. exact vcompare_spec. Qed.

Theorem C12_vcompare_full :
  forall x y : list Z,
         limbs_ok x ->
         limbs_ok y -> vcompare x y = (if zlen x =? zlen y then lval x ?= lval y else zlen x ?= zlen y).
Proof. exact vcompare_full. Qed.

Theorem C12_normalize_list_spec :
  forall l : list Z,
         lval (normalize_list l) = lval l /\
         is_normalized (normalize_list l) = true /\
         (limbs_ok l -> limbs_ok (normalize_list l)) /\
         (length (normalize_list l) <= length l)%nat /\
         (is_normalized l = true -> normalize_list l = l) /\
         (exists k : nat, l = normalize_list l ++ repeat 0 k).
Proof. exact normalize_list_spec. Qed.

Theorem C12_normalized_lower_bound :
  forall l : list Z, limbs_ok l -> is_normalized l = true -> l <> [] -> B64 ^ (zlen l - 1) <= lval l.
Proof. exact normalized_lower_bound. Qed.

Theorem C12_pow5_spec :
  forall (c : config) (T : tables) (L : limits) (b : build) (v : vec) (e : Z) (v' : vec),
         (compact c = false -> pow5_tables_ok T = true) ->
         limbs_ok (vl v) ->
         0 < lval (vl v) ->
         0 <= e ->
         pow5 c T L b v e = Ok (Some v') ->
         lval (vl v') = lval (vl v) * 5 ^ e /\
         limbs_ok (vl v') /\ (zlen (vl v) <= vcap v -> zlen (vl v') <= vcap v').
Proof. exact pow5_spec. Qed.

Theorem C12_pow5_total :
  forall (c : config) (T : tables) (L : limits) (b : build) (v : vec) (e : Z),
         (compact c = false -> pow5_tables_ok T = true /\ pow5_large_ok T L = true) ->
         limbs_ok (vl v) ->
         0 < lval (vl v) ->
         0 <= e ->
         (alloc c = false -> vcap v = BIGINT_LIMBS L /\ zlen (vl v) <= vcap v) ->
         exists o : option vec,
           pow5 c T L b v e = Ok o /\
           match o with
           | Some v' =>
               lval (vl v') = lval (vl v) * 5 ^ e /\
               limbs_ok (vl v') /\ (alloc c = false -> vcap v' = BIGINT_LIMBS L /\ zlen (vl v') <= vcap v')
           | None => alloc c = false /\ B64 ^ BIGINT_LIMBS L <= lval (vl v) * 5 ^ e
           end.
Proof. exact pow5_total. Qed.

Theorem C12_pow5_TABLES_spec :
  forall (c : config) (b : build) (v : vec) (e : Z) (v' : vec),
         limbs_ok (vl v) ->
         0 < lval (vl v) ->
         0 <= e ->
         pow5 c TABLES LIMITS b v e = Ok (Some v') -> lval (vl v') = lval (vl v) * 5 ^ e /\ limbs_ok (vl v').
Proof. exact pow5_TABLES_spec. Qed.

Theorem C12_pow5_TABLES_None_iff_overflow :
  forall (c : config) (b : build) (v : vec) (e : Z),
         limbs_ok (vl v) ->
         0 < lval (vl v) ->
         0 <= e ->
         alloc c = false ->
         vcap v = 62 ->
         zlen (vl v) <= vcap v -> pow5 c TABLES LIMITS b v e = Ok None <-> B64 ^ 62 <= lval (vl v) * 5 ^ e.
Proof. exact pow5_TABLES_None_iff_overflow. Qed.

Theorem C12_bigint_pow_10_five_part :
  forall (c : config) (T : tables) (L : limits) (b : build) (v : vec) (e : Z) (v' : vec),
         (compact c = false -> pow5_tables_ok T = true) ->
         limbs_ok (vl v) ->
         0 < lval (vl v) ->
         0 <= e ->
         bigint_pow c T L b v 10 e = Ok (Some v') ->
         exists v1 : vec,
           pow5 c T L b v e = Ok (Some v1) /\
           shl c L b v1 (as_usize e) = Ok (Some v') /\ lval (vl v1) = lval (vl v) * 5 ^ e /\ limbs_ok (vl v1).
Proof. exact bigint_pow_10_five_part. Qed.

Theorem C12_shl_bits_spec :
  forall (c : config) (L : limits) (b : build) (v : vec) (n : Z) (v' : vec),
         LIMB_BITS L = 64 ->
         0 < n < 64 ->
         limbs_ok (vl v) ->
         shl_bits c L b v n = Ok (Some v') ->
         lval (vl v') = lval (vl v) * 2 ^ n /\
         limbs_ok (vl v') /\
         zlen (vl v') = zlen (vl v) + (if shl_carry (vl v) n =? 0 then 0 else 1) /\
         (alloc c = false -> vcap v' = vcap v) /\
         (alloc c = true ->
          vcap v' =
          (if negb (shl_carry (vl v) n =? 0) && (zlen (vl v) =? vcap v)
           then grow (vcap v) (zlen (vl v) + 1)
           else vcap v)) /\ (is_normalized (vl v) = true -> is_normalized (vl v') = true).
Proof. exact shl_bits_spec. Qed.

Theorem C12_shl_bits_no_panic :
  forall (c : config) (L : limits) (b : build) (v : vec) (n : Z),
         LIMB_BITS L = 64 -> 0 < n < 64 -> limbs_ok (vl v) -> exists o : option vec, shl_bits c L b v n = Ok o.
Proof. exact shl_bits_no_panic. Qed.

Theorem C12_shl_bits_stack_none :
  forall (c : config) (L : limits) (b : build) (v : vec) (n : Z),
         LIMB_BITS L = 64 ->
         0 < n < 64 ->
         limbs_ok (vl v) ->
         alloc c = false ->
         zlen (vl v) <= vcap v -> shl_bits c L b v n = Ok None <-> B64 ^ vcap v <= lval (vl v) * 2 ^ n.
Proof. exact shl_bits_stack_none. Qed.

Theorem C12_shl_limbs_spec :
  forall (b : build) (v : vec) (n : Z) (v' : vec),
         0 < n ->
         n + zlen (vl v) < 2 ^ 64 ->
         limbs_ok (vl v) ->
         shl_limbs b v n = Ok (Some v') ->
         lval (vl v') = lval (vl v) * B64 ^ n /\
         limbs_ok (vl v') /\
         vl v' = (if zlen (vl v) =? 0 then [] else repeat 0 (Z.to_nat n) ++ vl v) /\
         zlen (vl v') = (if zlen (vl v) =? 0 then 0 else n + zlen (vl v)) /\
         vcap v' = vcap v /\
         n + zlen (vl v) <= vcap v /\ (is_normalized (vl v) = true -> is_normalized (vl v') = true).
Proof. exact shl_limbs_spec. Qed.

Theorem C12_shl_limbs_none :
  forall (b : build) (v : vec) (n : Z),
         0 < n -> n + zlen (vl v) < 2 ^ 64 -> shl_limbs b v n = Ok None <-> vcap v < n + zlen (vl v).
Proof. exact shl_limbs_none. Qed.

Theorem C12_shl_spec :
  forall (c : config) (L : limits) (b : build) (v : vec) (n : Z) (v' : vec),
         LIMB_BITS L = 64 ->
         0 <= n < 2 ^ 64 ->
         zlen (vl v) < 2 ^ 63 ->
         limbs_ok (vl v) ->
         shl c L b v n = Ok (Some v') ->
         lval (vl v') = lval (vl v) * 2 ^ n /\
         limbs_ok (vl v') /\
         (alloc c = false -> vcap v' = vcap v) /\
         (vl v = [] -> vl v' = []) /\ (is_normalized (vl v) = true -> is_normalized (vl v') = true).
Proof. exact shl_spec. Qed.

Theorem C12_shl_no_panic :
  forall (c : config) (L : limits) (b : build) (v : vec) (n : Z),
         LIMB_BITS L = 64 ->
         0 <= n < 2 ^ 64 ->
         zlen (vl v) < 2 ^ 63 -> limbs_ok (vl v) -> exists o : option vec, shl c L b v n = Ok o.
Proof. exact shl_no_panic. Qed.

Theorem C12_shl_stack_none :
  forall (c : config) (L : limits) (b : build) (v : vec) (n : Z),
         LIMB_BITS L = 64 ->
         0 <= n < 2 ^ 64 ->
         zlen (vl v) < 2 ^ 63 ->
         limbs_ok (vl v) ->
         alloc c = false ->
         vl v <> [] ->
         is_normalized (vl v) = true ->
         zlen (vl v) <= vcap v -> shl c L b v n = Ok None <-> B64 ^ vcap v <= lval (vl v) * 2 ^ n.
Proof. exact shl_stack_none. Qed.

Theorem C12_bit_length_spec :
  forall (L : limits) (b : build) (l : list Z),
         LIMB_BITS L = 64 ->
         limbs_ok l ->
         l <> [] ->
         is_normalized l = true ->
         zlen l < 2 ^ 26 ->
         exists n : Z,
           bit_length L b l = Ok n /\
           0 < n /\
           2 ^ (n - 1) <= lval l < 2 ^ n /\
           n = Z.log2 (lval l) + 1 /\ n = bitlen (lval l) /\ 64 * (zlen l - 1) < n <= 64 * zlen l.
Proof. exact bit_length_spec. Qed.

Theorem C12_bit_length_nil :
  forall (L : limits) (b : build), LIMB_BITS L = 64 -> bit_length L b [] = Ok 0.
Proof. exact bit_length_nil. Qed.

Theorem C12_hi64_spec :
  forall (b : build) (l : list Z),
         limbs_ok l ->
         l <> [] -> is_normalized l = true -> zlen l < 2 ^ 64 -> hi64 b l = Ok (hi64_val (lval l)).
Proof. exact hi64_spec. Qed.

Theorem C12_hi64_nil :
  forall b : build, hi64 b [] = Ok (0, false).
Proof. exact hi64_nil. Qed.

Theorem C12_hi64_val_bounds :
  forall m : Z, 0 < m -> 2 ^ 63 <= fst (hi64_val m) < 2 ^ 64.
Proof. exact hi64_val_bounds. Qed.

Theorem C12_from_u64_spec :
  forall (c : config) (L : limits) (b : build) (x : Z),
         0 <= x < 2 ^ 64 ->
         2 <= BIGINT_LIMBS L ->
         exists v : vec,
           from_u64 c L b x = Ok v /\
           vl v = (if x =? 0 then [] else [x]) /\
           lval (vl v) = x /\ limbs_ok (vl v) /\ is_normalized (vl v) = true /\ vcap v = BIGINT_LIMBS L.
Proof. exact from_u64_spec. Qed.


Print Assumptions C12_small_add_spec.
Print Assumptions C12_small_add_None_iff_overflow.
Print Assumptions C12_small_add_failed_spec.
Print Assumptions C12_small_mul_spec.
Print Assumptions C12_small_mul_None_iff_overflow.
Print Assumptions C12_small_mul_failed_spec.
Print Assumptions C12_large_add_from_spec.
Print Assumptions C12_large_add_from_None_iff_overflow.
Print Assumptions C12_long_mul_spec.
Print Assumptions C12_long_mul_None_iff_overflow.
Print Assumptions C12_long_mul_fits_Some.
Print Assumptions C12_large_mul_spec.
Print Assumptions C12_large_mul_None_iff_overflow.
Print Assumptions C12_large_mul_empty_quirk.
Print Assumptions C12_vcompare_spec.
Print Assumptions C12_vcompare_full.
Print Assumptions C12_normalize_list_spec.
Print Assumptions C12_normalized_lower_bound.
Print Assumptions C12_pow5_spec.
Print Assumptions C12_pow5_total.
Print Assumptions C12_pow5_TABLES_spec.
Print Assumptions C12_pow5_TABLES_None_iff_overflow.
Print Assumptions C12_bigint_pow_10_five_part.
Print Assumptions C12_shl_bits_spec.
Print Assumptions C12_shl_bits_no_panic.
Print Assumptions C12_shl_bits_stack_none.
Print Assumptions C12_shl_limbs_spec.
Print Assumptions C12_shl_limbs_none.
Print Assumptions C12_shl_spec.
Print Assumptions C12_shl_no_panic.
Print Assumptions C12_shl_stack_none.
Print Assumptions C12_bit_length_spec.
Print Assumptions C12_bit_length_nil.
Print Assumptions C12_hi64_spec.
Print Assumptions C12_hi64_nil.
Print Assumptions C12_hi64_val_bounds.
Print Assumptions C12_from_u64_spec.

(** SOURCE TIE (tools/rs2coq): src/bigint.rs is regenerated as Gallina on every run (coq/gen/SrcBigint.v) and every function is proved EQUAL to the hand-written model function the theorems above are about, for all inputs in the machine ranges (u64 limbs, usize lengths), both build modes, both back-ends.  The vector primitives (try_push, try_resize, try_from, len, capacity, indexing, set_len) and shl_limbs are given by model/Vec.v + model/SrcLib.v (tied at cell level by C13). *)
From ML Require Import model.SrcLib gen.Src gen.SrcBigint proofs.SrcEqBigintA proofs.SrcEqBigintB proofs.SrcEqBigintC.

Theorem C12_rs_scalar_add_eq :
  forall (b : build) (x y : Z), rs_scalar_add b x y = Ok (scalar_add x y).
Proof. exact rs_scalar_add_eq. Qed.

Theorem C12_rs_scalar_mul_eq :
  forall (b : build) (x y carry : Z),
         0 <= x < 2 ^ 64 ->
         0 <= y < 2 ^ 64 -> 0 <= carry < 2 ^ 64 -> rs_scalar_mul b x y carry = Ok (scalar_mul x y carry).
Proof. exact rs_scalar_mul_eq. Qed.

Theorem C12_rs_compare_eq :
  forall (b : build) (x y : list Z), rs_compare b x y = Ok (vcompare x y).
Proof. exact rs_compare_eq. Qed.

Theorem C12_rs_bigint_normalize_eq :
  forall (b : build) (v : vec),
         zlen (vl v) < 2 ^ 64 -> rs_bigint_normalize b v = Ok (vset_list v (normalize_list (vl v))).
Proof. exact rs_bigint_normalize_eq. Qed.

Theorem C12_rs_is_normalized_eq :
  forall (b : build) (l : list Z), zlen l < 2 ^ 64 -> rs_is_normalized b l = Ok (is_normalized l).
Proof. exact rs_is_normalized_eq. Qed.

Theorem C12_rs_from_u64_eq :
  forall (c : config) (L : limits) (b : build) (x : Z), rs_from_u64 c L b x = from_u64 c L b x.
Proof. exact rs_from_u64_eq. Qed.

Theorem C12_rs_nonzero_eq :
  forall (b : build) (l : list Z) (rindex : Z), rs_nonzero b l rindex = nonzero b l rindex.
Proof. exact rs_nonzero_eq. Qed.

Theorem C12_rs_u64_to_hi64_1_eq :
  forall (b : build) (r0 : Z), rs_u64_to_hi64_1 b r0 = u64_to_hi64_1 b r0.
Proof. exact rs_u64_to_hi64_1_eq. Qed.

Theorem C12_rs_u64_to_hi64_2_eq :
  forall (b : build) (r0 r1 : Z), rs_u64_to_hi64_2 b r0 r1 = u64_to_hi64_2 b r0 r1.
Proof. exact rs_u64_to_hi64_2_eq. Qed.

Theorem C12_rs_rview_index_eq :
  forall (b : build) (l : list Z) (i : Z),
         zlen l < 2 ^ 64 -> 0 <= i < zlen l -> rs_rview_index b l i = Ok (nth (Z.to_nat i) (rev l) 0).
Proof. exact rs_rview_index_eq. Qed.

Theorem C12_rs_hi64_eq :
  forall (b : build) (l : list Z), zlen l < 2 ^ 64 -> rs_hi64 b l = hi64 b l.
Proof. exact rs_hi64_eq. Qed.

Theorem C12_rs_leading_zeros_eq :
  forall (b : build) (l : list Z), zlen l < 2 ^ 64 -> rs_leading_zeros b l = Ok (leading_zeros l).
Proof. exact rs_leading_zeros_eq. Qed.

Theorem C12_rs_bit_length_eq :
  forall (L : limits) (b : build) (l : list Z),
         LIMB_BITS L = 64 -> zlen l < 2 ^ 64 -> rs_bit_length b l = bit_length L b l.
Proof. exact rs_bit_length_eq. Qed.

Theorem C12_rs_shl_bits_eq :
  forall (c : config) (L : limits) (b : build) (v : vec) (n : Z),
         LIMB_BITS L = 64 -> rs_shl_bits c b v n = shl_bits c L b v n.
Proof. exact rs_shl_bits_eq. Qed.

Theorem C12_rs_shl_limbs_eq :
  forall (b : build) (v : vec) (n : Z), rs_shl_limbs b v n = shl_limbs b v n.
Proof. exact rs_shl_limbs_eq. Qed.

Theorem C12_rs_shl_eq :
  forall (c : config) (L : limits) (b : build) (v : vec) (n : Z),
         LIMB_BITS L = 64 -> rs_shl c b v n = shl c L b v n.
Proof. exact rs_shl_eq. Qed.

Theorem C12_rs_small_add_from_eq :
  forall (c : config) (b : build) (v : vec) (y start : Z),
         0 <= start ->
         zlen (vl v) < 2 ^ 64 -> rs_small_add_from c b v y start = Ok (small_add_from c v y start).
Proof. exact rs_small_add_from_eq. Qed.

Theorem C12_rs_small_add_eq :
  forall (c : config) (b : build) (v : vec) (y : Z),
         zlen (vl v) < 2 ^ 64 -> rs_small_add c b v y = Ok (small_add c v y).
Proof. exact rs_small_add_eq. Qed.

Theorem C12_rs_small_mul_eq :
  forall (c : config) (b : build) (v : vec) (y : Z),
         limbs_ok (vl v) -> SrcEqBase.u64_ok y -> rs_small_mul c b v y = Ok (small_mul c v y).
Proof. exact rs_small_mul_eq. Qed.

Theorem C12_rs_large_add_from_eq :
  forall (c : config) (b : build) (v : vec) (y : list Z) (start : Z),
         0 <= start ->
         zlen (vl v) < 2 ^ 64 ->
         zlen y + start < 2 ^ 64 -> rs_large_add_from c b v y start = Ok (large_add_from c v y start).
Proof. exact rs_large_add_from_eq. Qed.

Theorem C12_rs_large_add_eq :
  forall (c : config) (b : build) (v : vec) (y : list Z),
         zlen (vl v) < 2 ^ 64 -> zlen y < 2 ^ 64 -> rs_large_add c b v y = Ok (large_add c v y).
Proof. exact rs_large_add_eq. Qed.

Theorem C12_rs_long_mul_eq :
  forall (c : config) (L : limits) (b : build) (x y : list Z),
         limbs_ok x ->
         limbs_ok y -> zlen x + zlen y + 1 < 2 ^ 64 -> rs_long_mul c L b x y = Ok (long_mul c L x y).
Proof. exact rs_long_mul_eq. Qed.

Theorem C12_rs_large_mul_eq :
  forall (c : config) (L : limits) (b : build) (v : vec) (y : list Z),
         limbs_ok (vl v) ->
         limbs_ok y -> zlen (vl v) + zlen y + 1 < 2 ^ 64 -> rs_large_mul c L b v y = Ok (large_mul c L v y).
Proof. exact rs_large_mul_eq. Qed.

Theorem C12_rs_pow_eq :
  forall (c : config) (T : tables) (L : limits) (b : build) (v : vec) (e : Z),
         pow_tables_ok T ->
         0 < LARGE_POW5_STEP T ->
         limbs_ok (vl v) ->
         0 <= e < 2 ^ 32 ->
         zlen (vl v) + e / LARGE_POW5_STEP T * (zlen (LARGE_POW5 T) + 1) < 2 ^ 64 ->
         rs_pow c T L b v e = pow5 c T L b v e.
Proof. exact rs_pow_eq. Qed.

Theorem C12_rs_pow_eq_compact :
  forall (c : config) (T : tables) (L : limits) (b : build) (v : vec) (e : Z),
         compact c = true -> limbs_ok (vl v) -> 0 <= e < 2 ^ 32 -> rs_pow c T L b v e = pow5 c T L b v e.
Proof. exact rs_pow_eq_compact. Qed.

Theorem C12_rs_pow_eq_TABLES :
  forall (c : config) (L : limits) (b : build) (v : vec) (e : Z),
         limbs_ok (vl v) ->
         0 <= e < 2 ^ 32 -> zlen (vl v) < 2 ^ 63 -> rs_pow c TABLES L b v e = pow5 c TABLES L b v e.
Proof. exact rs_pow_eq_TABLES. Qed.

Theorem C12_rs_bigint_pow_eq :
  forall (c : config) (T : tables) (L : limits) (b : build) (v : vec) (base e : Z),
         LIMB_BITS L = 64 ->
         pow_tables_ok T ->
         0 < LARGE_POW5_STEP T ->
         limbs_ok (vl v) ->
         0 <= e < 2 ^ 32 ->
         zlen (vl v) + e / LARGE_POW5_STEP T * (zlen (LARGE_POW5 T) + 1) < 2 ^ 64 ->
         rs_bigint_pow c T L b v base e = bigint_pow c T L b v base e.
Proof. exact rs_bigint_pow_eq. Qed.

Theorem C12_rs_bigint_pow_eq_TABLES :
  forall (c : config) (b : build) (v : vec) (base e : Z),
         limbs_ok (vl v) ->
         0 <= e < 2 ^ 32 ->
         zlen (vl v) < 2 ^ 63 ->
         rs_bigint_pow c TABLES LIMITS b v base e = bigint_pow c TABLES LIMITS b v base e.
Proof. exact rs_bigint_pow_eq_TABLES. Qed.

Print Assumptions C12_rs_scalar_add_eq.
Print Assumptions C12_rs_scalar_mul_eq.
Print Assumptions C12_rs_compare_eq.
Print Assumptions C12_rs_bigint_normalize_eq.
Print Assumptions C12_rs_is_normalized_eq.
Print Assumptions C12_rs_from_u64_eq.
Print Assumptions C12_rs_nonzero_eq.
Print Assumptions C12_rs_u64_to_hi64_1_eq.
Print Assumptions C12_rs_u64_to_hi64_2_eq.
Print Assumptions C12_rs_rview_index_eq.
Print Assumptions C12_rs_hi64_eq.
Print Assumptions C12_rs_leading_zeros_eq.
Print Assumptions C12_rs_bit_length_eq.
Print Assumptions C12_rs_shl_bits_eq.
Print Assumptions C12_rs_shl_limbs_eq.
Print Assumptions C12_rs_shl_eq.
Print Assumptions C12_rs_small_add_from_eq.
Print Assumptions C12_rs_small_add_eq.
Print Assumptions C12_rs_small_mul_eq.
Print Assumptions C12_rs_large_add_from_eq.
Print Assumptions C12_rs_large_add_eq.
Print Assumptions C12_rs_long_mul_eq.
Print Assumptions C12_rs_large_mul_eq.
Print Assumptions C12_rs_pow_eq.
Print Assumptions C12_rs_pow_eq_compact.
Print Assumptions C12_rs_pow_eq_TABLES.
Print Assumptions C12_rs_bigint_pow_eq.
Print Assumptions C12_rs_bigint_pow_eq_TABLES.
