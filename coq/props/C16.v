(** C16 - the result is a pure function of the bytes and the exponent (partial by nature: addresses,
    stack residue and thread schedules cannot be expressed in Gallina - a Gallina function cannot
    depend on them; those parts are decided by the harness: iterator shapes, stack poisoning,
    16 threads on the real code).
    What the model CAN carry is the iterator protocol.  model/Iter.v re-implements parse_number /
    parse_mantissa / parse_float over an ABSTRACT cursor (a state type with next : St -> option Z * St,
    nothing assumed after a None; Clone = a function on states), following the Rust call by call
    (clone of clone for the fast pass, `integer.count()`, `for .. in &mut fraction { break }` followed by
    `for .. in fraction`, the nested next() calls of parse_mantissa).  Proved (proofs/IterFacts.v, no
    axioms): for ANY cursors whose integer side denotes the list i and whose fraction side denotes fr
    and is fused (None forever after the first None), and any clone functions that preserve the
    denotation, the cursor-level parser equals the list-level parse_float on (i, fr, e) - for all
    bytes, configs, formats and builds; hence two iterator shapes denoting the same bytes give the
    same result.  The fused hypothesis is NECESSARY, and the two places where the Rust calls next()
    after a None are pinned down exactly ([nonfused_parse_number_differs]: empty integer, >= 20
    fraction bytes all '0'); for every other input no fusedness is needed ([it_parse_float_nonfused]). *)

From Coq Require Import ZArith List Bool.
From ML Require Import base.RustSem model.Fmt model.Number model.Parse model.Slow model.Top model.Iter
  gen.Consts gen.Tables gen.BTables gen.PowDump proofs.IterFacts.
Import ListNotations.

Open Scope Z_scope.

Theorem C16_it_parse_float_general :
  forall (St1 St2 : Type) (next1 : St1 -> option Z * St1) (next2 : St2 -> option Z * St2)
           (P1 : St1 -> Prop) (P2 : St2 -> Prop) (c : config) (T : tables) (BT : btables) 
           (L : limits) (f : format) (b : build) (cl1 : St1 -> St1) (cl2 : St2 -> St2) 
           (fuel : nat) (s1 : St1) (s2 : St2) (i fr : list Z) (e : Z),
         clone_ok next1 P1 cl1 ->
         clone_ok next2 P2 cl2 ->
         after_none_ok next2 P2 \/ safe_input i fr ->
         denotes_gen next1 P1 s1 i ->
         denotes_gen next2 P2 s2 fr ->
         (length i < fuel)%nat ->
         (length fr < fuel)%nat ->
         it_parse_float_cl next1 next2 c T BT L f b fuel cl1 cl2 s1 s2 e = parse_float c T BT L f b i fr e.
Proof. exact (@it_parse_float_general). Qed.

Theorem C16_it_parse_float_fused :
  forall (St1 St2 : Type) (next1 : St1 -> option Z * St1) (next2 : St2 -> option Z * St2) 
           (c : config) (T : tables) (BT : btables) (L : limits) (f : format) (b : build) 
           (fuel : nat) (s1 : St1) (s2 : St2) (i fr : list Z) (e : Z),
         denotes next1 s1 i ->
         denotes_fused next2 s2 fr ->
         (length i < fuel)%nat ->
         (length fr < fuel)%nat ->
         it_parse_float next1 next2 c T BT L f b fuel s1 s2 e = parse_float c T BT L f b i fr e.
Proof. exact (@it_parse_float_fused). Qed.

Theorem C16_it_parse_float_fused_cursor :
  forall (St1 St2 : Type) (next1 : St1 -> option Z * St1) (next2 : St2 -> option Z * St2) 
           (c : config) (T : tables) (BT : btables) (L : limits) (f : format) (b : build) 
           (fuel : nat) (s1 : St1) (s2 : St2) (i fr : list Z) (e : Z),
         fused_cursor next2 ->
         denotes next1 s1 i ->
         denotes next2 s2 fr ->
         (length i < fuel)%nat ->
         (length fr < fuel)%nat ->
         it_parse_float next1 next2 c T BT L f b fuel s1 s2 e = parse_float c T BT L f b i fr e.
Proof. exact (@it_parse_float_fused_cursor). Qed.

Theorem C16_it_parse_float_nonfused :
  forall (St1 St2 : Type) (next1 : St1 -> option Z * St1) (next2 : St2 -> option Z * St2) 
           (c : config) (T : tables) (BT : btables) (L : limits) (f : format) (b : build) 
           (fuel : nat) (s1 : St1) (s2 : St2) (i fr : list Z) (e : Z),
         i <> [] \/ Exists (fun x : Z => x <> 48) fr \/ (length fr <= 19)%nat ->
         denotes next1 s1 i ->
         denotes next2 s2 fr ->
         (length i < fuel)%nat ->
         (length fr < fuel)%nat ->
         it_parse_float next1 next2 c T BT L f b fuel s1 s2 e = parse_float c T BT L f b i fr e.
Proof. exact (@it_parse_float_nonfused). Qed.

Theorem C16_iter_shape_independent :
  forall (St1 St2 St1' St2' : Type) (next1 : St1 -> option Z * St1) (next2 : St2 -> option Z * St2)
           (next1' : St1' -> option Z * St1') (next2' : St2' -> option Z * St2') (c : config) 
           (T : tables) (BT : btables) (L : limits) (f : format) (b : build) (fuel fuel' : nat) 
           (s1 : St1) (s2 : St2) (s1' : St1') (s2' : St2') (i fr : list Z) (e : Z),
         denotes next1 s1 i ->
         denotes_fused next2 s2 fr ->
         denotes next1' s1' i ->
         denotes_fused next2' s2' fr ->
         (length i < fuel)%nat ->
         (length fr < fuel)%nat ->
         (length i < fuel')%nat ->
         (length fr < fuel')%nat ->
         it_parse_float next1 next2 c T BT L f b fuel s1 s2 e =
         it_parse_float next1' next2' c T BT L f b fuel' s1' s2' e.
Proof. exact (@iter_shape_independent). Qed.

Theorem C16_clone_independent :
  forall (St1 St2 : Type) (next1 : St1 -> option Z * St1) (next2 : St2 -> option Z * St2) 
           (c : config) (T : tables) (BT : btables) (L : limits) (f : format) (b : build) 
           (cl1 : St1 -> St1) (cl2 : St2 -> St2) (fuel : nat) (s1 : St1) (s2 : St2) 
           (i fr : list Z) (e : Z),
         clone_ok next1 (fun _ : St1 => True) cl1 ->
         clone_ok next2 (exhausted next2) cl2 ->
         denotes next1 s1 i ->
         denotes_fused next2 s2 fr ->
         (length i < fuel)%nat ->
         (length fr < fuel)%nat ->
         it_parse_number_fast next1 next2 b fuel (cl1 (cl1 s1)) (cl2 (cl2 s2)) e = parse_number_fast b i fr e /\
         it_parse_number_rest next1 next2 b fuel (cl1 s1) (cl2 s2) e = parse_number_rest b i fr e /\
         it_parse_mantissa next1 next2 c T L b fuel s1 s2 (MAX_DIGITS f) =
         parse_mantissa c T L b i fr (MAX_DIGITS f) /\
         it_parse_float_cl next1 next2 c T BT L f b fuel cl1 cl2 s1 s2 e =
         it_parse_float next1 next2 c T BT L f b fuel s1 s2 e.
Proof. exact (@clone_independent). Qed.

Theorem C16_nonfused_parse_number_differs :
  forall (b : build) (fr : list Z) (e : Z) (fuel : nat),
         Forall (fun x : Z => x = 48) fr ->
         (20 <= length fr)%nat ->
         (length fr < fuel)%nat ->
         denotes seg_next [fr; [49]] fr /\
         (exists x : Z, parse_number b [] fr e = Ok {| nexp := x; nmant := 0; many := false |}) /\
         (exists x : Z,
            it_parse_number slice_next seg_next b fuel [] [fr; [49]] e =
            Ok {| nexp := x; nmant := 1; many := false |}).
Proof. exact nonfused_parse_number_differs. Qed.

Theorem C16_fused_hypothesis_necessary :
  exists (St2 : Type) (next2 : St2 -> option Z * St2) (s2 : St2) (fr : list Z),
           denotes next2 s2 fr /\
           (length fr < 64)%nat /\
           it_parse_float slice_next next2 CFG_s TABLES BTABLES LIMITS F64 release_build 64 [] s2 0 <>
           parse_float CFG_s TABLES BTABLES LIMITS F64 release_build [] fr 0.
Proof. exact fused_hypothesis_necessary. Qed.

Theorem C16_slice_denotes :
  forall l : list Z, denotes_fused slice_next l l.
Proof. exact slice_denotes. Qed.

Theorem C16_slice_fused :
  fused_cursor slice_next.
Proof. exact slice_fused. Qed.

Theorem C16_chain_denotes :
  forall (Sa Sb : Type) (nexta : Sa -> option Z * Sa) (nextb : Sb -> option Z * Sb) 
           (a : Sa) (la : list Z) (sb : Sb) (lb : list Z),
         denotes nexta a la ->
         denotes_fused nextb sb lb -> denotes_fused (chain_next nexta nextb) (Some a, sb) (la ++ lb).
Proof. exact (@chain_denotes). Qed.

Theorem C16_filter_denotes :
  forall (skip : Z) (l : list Z),
         denotes_fused (filter_next skip) l (filter (fun x : Z => negb (x =? skip)) l).
Proof. exact filter_denotes. Qed.

Theorem C16_it_parse_float_slice :
  forall (c : config) (T : tables) (BT : btables) (L : limits) (f : format) 
           (b : build) (i fr : list Z) (e : Z) (fuel : nat),
         (length i < fuel)%nat ->
         (length fr < fuel)%nat ->
         it_parse_float slice_next slice_next c T BT L f b fuel i fr e = parse_float c T BT L f b i fr e.
Proof. exact it_parse_float_slice. Qed.


Print Assumptions C16_it_parse_float_general.
Print Assumptions C16_it_parse_float_fused.
Print Assumptions C16_it_parse_float_fused_cursor.
Print Assumptions C16_it_parse_float_nonfused.
Print Assumptions C16_iter_shape_independent.
Print Assumptions C16_clone_independent.
Print Assumptions C16_nonfused_parse_number_differs.
Print Assumptions C16_fused_hypothesis_necessary.
Print Assumptions C16_slice_denotes.
Print Assumptions C16_slice_fused.
Print Assumptions C16_chain_denotes.
Print Assumptions C16_filter_denotes.
Print Assumptions C16_it_parse_float_slice.
