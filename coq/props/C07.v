(** C07 - overflow, underflow and subnormals follow IEEE exactly; no wrap-around.
    PROVED (closed by [exact]): the exponent handed to the later stages is the SATURATION of the
    mathematically exact decimal exponent (never a wrapped one), and saturation only happens
    beyond +-(2^31 - 1) (proofs/ParseFacts.v); the integer-only statement of correct rounding
    [rne_bits] (overflow to +inf at 2^emax, gradual underflow, ties to even) is equivalent to the
    Flocq-based oracle RN (spec/RneBridge.v); see also props/C18.v for the shift-and-round
    primitive incl. subnormals and overflow. *)

From Coq Require Import ZArith QArith List Bool.
From ML Require Import base.RustSem model.Fmt model.Number model.Parse model.Top model.Vec model.Bigint spec.Decimal spec.Round spec.RneZ spec.RneBridge
  gen.Consts gen.Tables gen.BTables gen.PowDump proofs.LimbVal proofs.ParseFacts proofs.Glue proofs.NoUB proofs.BigintFacts2.
Import ListNotations.

Open Scope Z_scope.

Theorem C07_parse_number_spec :
  forall (b : build) (i f : list Z) (e : Z),
         valid_inputb i f e = true ->
         exists n : number,
           parse_number b i f e = Ok n /\
           0 <= nmant n < 2 ^ 64 /\
           i32_min <= nexp n <= i32_max /\
           (let D := digits_to_Z (i ++ f) in
            let X := e - zlen f in
            let s := strip0 (i ++ f) in
            many n = (19 <? zlen s) /\
            nmant n = digits_to_Z (firstn 19 s) /\
            nexp n = clamp_i32 (X + Z.max 0 (zlen s - 19)) /\
            (many n = false ->
             nmant n = D /\ D < 10 ^ 19 /\ nexp n = clamp_i32 X /\ clamp_i32 X = Z.max i32_min X) /\
            (many n = true ->
             10 ^ 18 <= nmant n < 10 ^ 19 /\
             (exists k : Z,
                k = zlen s - 19 /\
                1 <= k <= zlen i + zlen f - 19 /\
                nmant n * 10 ^ k <= D < (nmant n + 1) * 10 ^ k /\ nexp n = clamp_i32 (X + k))) /\
            (D = 0 -> nmant n = 0 /\ many n = false) /\
            (nmant n = 0 -> D = 0) /\ (zlen i + zlen f <= 19 -> many n = false)).
Proof. exact parse_number_spec. Qed.

Theorem C07_saturation_is_far :
  forall x : Z, clamp_i32 x <> x -> 2 ^ 31 - 1 <= Z.abs x.
Proof. exact saturation_is_far. Qed.

Theorem C07_clamp_i32_cases :
  forall x : Z,
         x < i32_min /\ clamp_i32 x = i32_min \/
         i32_min <= x <= i32_max /\ clamp_i32 x = x \/ i32_max < x /\ clamp_i32 x = i32_max.
Proof. exact clamp_i32_cases. Qed.

Theorem C07_rne_bits_iff_RN :
  forall f : format,
         bfmt_ok f = true ->
         forall n d bits : Z, 0 <= n -> 0 < d -> rne_bits f n d bits <-> RN f (n # Z.to_pos d) = bits.
Proof. exact rne_bits_iff_RN. Qed.


Print Assumptions C07_parse_number_spec.
Print Assumptions C07_saturation_is_far.
Print Assumptions C07_clamp_i32_cases.
Print Assumptions C07_rne_bits_iff_RN.
