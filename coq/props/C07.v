(** C07 - overflow, underflow and subnormals follow IEEE exactly; no wrap-around.  PROVED END TO END: [C07_final] (+infinity exactly from 2^emax - 2^(emax-prec-1) on, +0.0 exactly up to 2^(femin-1), zero significand gives +0.0 for every exponent), [parse_float_far_small/large/zero] (exponents up to the i32 limits, where the decimal exponent SATURATES: the result is still the mathematically correct one); subnormals are part of [parse_float_correct_final] (RN is gradual-underflow rounding).
    Domain as in props/C01.v: [in_domain] = valid_inputb (ASCII digits, integer part without leading zero, any
    i32 exponent) and at most 2^28 digits; all eight configurations, both formats, both build modes; NO further
    premise (the [deep_ok] versions are kept beneath as the intermediate statements).  Closed by [exact]; the
    model is tied to /repo by the correspondence harness on every run. *)

From Coq Require Import ZArith QArith Qabs List Bool Reals Qreals.
From Coq Require Import Floats.SpecFloat.
From Flocq Require Import Core.Core.
From ML Require Import base.RustSem model.Fmt model.Num model.Number model.Parse model.Lemire model.Bellerophon model.Vec model.Bigint model.Slow model.Top
  spec.Decimal spec.Round spec.RoundFacts spec.DigitsSuffice gen.Consts gen.Tables gen.BTables gen.PowDump
  proofs.ParseFacts proofs.FastPathFacts proofs.EndToEnd proofs.EndToEnd2 proofs.EndToEnd3 proofs.EndToEnd4 proofs.EndToEnd5 proofs.EndToEnd6 proofs.EndToEnd7
  proofs.LemireFacts6 proofs.Glue proofs.TruncFacts proofs.TruncFacts2 proofs.SlowFacts1 proofs.DeepFallback proofs.DeepFallback2 proofs.Final.
Import ListNotations.

Open Scope Z_scope.

Theorem C07_C07_final :
  forall (c : config) (f : format) (b : build) (i fr : list Z) (e : Z),
         In c ALL_CONFIGS ->
         f = F32 \/ f = F64 ->
         in_domain i fr e ->
         ((overflow_thresholdQ f <= dec_value i fr e)%Q -> PF c f b i fr e = Ok (inf_bits f)) /\
         ((dec_value i fr e <= underflow_thresholdQ f)%Q -> PF c f b i fr e = Ok 0) /\
         (digits_to_Z (i ++ fr) = 0 -> PF c f b i fr e = Ok 0).
Proof. exact C07_final. Qed.

Theorem C07_parse_float_far_small :
  forall (c : config) (f : format) (b : build) (i fr : list Z) (e : Z),
         In c ALL_CONFIGS ->
         f = F32 \/ f = F64 ->
         valid_inputb i fr e = true ->
         e - zlen fr + (zlen i + zlen fr) < -400 -> PF c f b i fr e = Ok (RN f (dec_value i fr e)).
Proof. exact parse_float_far_small. Qed.

Theorem C07_parse_float_far_large :
  forall (c : config) (f : format) (b : build) (i fr : list Z) (e : Z),
         In c ALL_CONFIGS ->
         f = F32 \/ f = F64 ->
         valid_inputb i fr e = true ->
         0 < digits_to_Z (i ++ fr) -> 400 < e - zlen fr -> PF c f b i fr e = Ok (RN f (dec_value i fr e)).
Proof. exact parse_float_far_large. Qed.

Theorem C07_parse_float_far_zero :
  forall (c : config) (f : format) (b : build) (i fr : list Z) (e : Z),
         In c ALL_CONFIGS ->
         f = F32 \/ f = F64 ->
         valid_inputb i fr e = true ->
         digits_to_Z (i ++ fr) = 0 -> 400 < e - zlen fr -> PF c f b i fr e = Ok (RN f (dec_value i fr e)).
Proof. exact parse_float_far_zero. Qed.

Theorem C07_parse_float_correct_final :
  forall (c : config) (f : format) (b : build) (i fr : list Z) (e : Z),
         In c ALL_CONFIGS ->
         f = F32 \/ f = F64 ->
         valid_inputb i fr e = true ->
         zlen i + zlen fr <= 2 ^ 28 -> PF c f b i fr e = Ok (RN f (dec_value i fr e)).
Proof. exact parse_float_correct_final. Qed.

Theorem C07_overflow_threshold_iff :
  forall f : format,
         sfmt_ok f = true -> forall v : Q, (0 <= v)%Q -> RN f v = inf_bits f <-> (overflow_thresholdQ f <= v)%Q.
Proof. exact overflow_threshold_iff. Qed.

Theorem C07_underflow_threshold_iff :
  forall f : format,
         sfmt_ok f = true -> forall v : Q, (0 <= v)%Q -> RN f v = 0 <-> (v <= underflow_thresholdQ f)%Q.
Proof. exact underflow_threshold_iff. Qed.

Theorem C07_saturation_is_far :
  forall x : Z, clamp_i32 x <> x -> 2 ^ 31 - 1 <= Z.abs x.
Proof. exact saturation_is_far. Qed.


Print Assumptions C07_C07_final.
Print Assumptions C07_parse_float_far_small.
Print Assumptions C07_parse_float_far_large.
Print Assumptions C07_parse_float_far_zero.
Print Assumptions C07_parse_float_correct_final.
Print Assumptions C07_overflow_threshold_iff.
Print Assumptions C07_underflow_threshold_iff.
Print Assumptions C07_saturation_is_far.
