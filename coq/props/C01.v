(** C01 - f64 results are correctly rounded (nearest, ties to even).
    FULL STATEMENT (the goal; not yet closed):
      forall c b i fr e, In c ALL_CONFIGS -> valid_inputb i fr e = true ->
        parse_float c TABLES BTABLES LIMITS F64 b i fr e = Ok (RN F64 (dec_value i fr e)).
    PROVED so far (every theorem below is closed by [exact]; proofs in spec/RoundFacts.v,
    spec/RneBridge.v, proofs/ParseFacts.v, proofs/NoUB.v):
     - the MEANING of the oracle: RN is Flocq's round-to-nearest-even on the FLT format of the
       regenerated constants, +infinity from 2^emax on ([RN_spec]); thresholds exactly
       2^1024 - 2^970 and 2^-1075 ([overflow_threshold_iff], [underflow_threshold_iff]); never NaN /
       negative ([RN_range]); an integer-only characterisation ([rne_bits_iff_RN]);
     - stage 1: [parse_number] returns the first 19 significant digits, the truncation flag and the
       saturated exact exponent, for every valid input and both build modes ([parse_number_exact]),
       and the exact value is w*10^q resp. lies in [w,w+1)*10^q ([parse_number_value_bracket]);
     - END TO END for the fast-path class ([parse_float_fast_correct], no premise beyond the input
       domain): every valid input with at most 19 significant digits whose Number satisfies
       [fast_path_applies] is parsed to exactly RN (dec_value ...) in all eight configurations and both
       build modes; and the complete functional description of the fast path ([try_fast_path_eq]);
     - no unchecked access on any input ([parse_float_float_or_panic]).
    See props/C11.v (extended-precision stage), props/C12.v (big integers), props/C18.v (final
    rounding) for the other stages; what is not proved is attacked by the directed search of the
    check on every run (exact midpoints, closest approaches, fallback witnesses). *)

From Coq Require Import ZArith QArith List Bool Reals.
From Coq Require Import Floats.SpecFloat.
From Flocq Require Import Core.Core.
From ML Require Import base.RustSem model.Fmt model.FloatOps model.Number model.Parse model.Top spec.Decimal spec.Round spec.RoundFacts
  gen.Consts gen.Tables gen.BTables gen.PowDump proofs.ParseFacts proofs.Glue proofs.NoUB proofs.FastPathFacts proofs.EndToEnd.
Import ListNotations.

Open Scope Z_scope.

Theorem C01_sfmt_ok_F64 :
  sfmt_ok F64 = true.
Proof. exact sfmt_ok_F64. Qed.

Theorem C01_RN_spec :
  forall f : format,
         sfmt_ok f = true ->
         forall v : Q,
         (0 <= v)%Q ->
         let r := round radix2 (FLT_exp (femin f) (prec f)) ZnearestE (Q2R v) in
         if Rlt_bool r (bpow radix2 (emax f))
         then
          0 <= RN f v < inf_bits f /\
          (let s := sf_of_bits f (RN f v) in
           valid_binary (prec f) (emax f) s = true /\
           BinarySingleNaN.is_finite_SF s = true /\
           BinarySingleNaN.sign_SF s = false /\ bits_of_sf f s = RN f v /\ BinarySingleNaN.SF2R radix2 s = r)
         else RN f v = inf_bits f /\ sf_of_bits f (RN f v) = S754_infinity false.
Proof. exact RN_spec. Qed.

Theorem C01_RN_range :
  forall f : format, sfmt_ok f = true -> forall v : Q, (0 <= v)%Q -> 0 <= RN f v <= inf_bits f.
Proof. exact RN_range. Qed.

Theorem C01_overflow_threshold_iff :
  forall f : format,
         sfmt_ok f = true -> forall v : Q, (0 <= v)%Q -> RN f v = inf_bits f <-> (overflow_thresholdQ f <= v)%Q.
Proof. exact overflow_threshold_iff. Qed.

Theorem C01_underflow_threshold_iff :
  forall f : format,
         sfmt_ok f = true -> forall v : Q, (0 <= v)%Q -> RN f v = 0 <-> (v <= underflow_thresholdQ f)%Q.
Proof. exact underflow_threshold_iff. Qed.

Theorem C01_RN_Qeq :
  forall f : format, sfmt_ok f = true -> forall v v' : Q, (0 <= v)%Q -> v == v' -> RN f v = RN f v'.
Proof. exact RN_Qeq. Qed.

Theorem C01_RN_monotone :
  forall f : format, sfmt_ok f = true -> forall v v' : Q, (0 <= v)%Q -> (v <= v')%Q -> RN f v <= RN f v'.
Proof. exact RN_monotone. Qed.

Theorem C01_parse_number_exact :
  forall (b : build) (i f : list Z) (e : Z),
         valid_inputb i f e = true -> parse_number b i f e = Ok (parse_spec i f e).
Proof. exact parse_number_exact. Qed.

Theorem C01_parse_number_value_bracket :
  forall (b : build) (i f : list Z) (e : Z) (n : number),
         valid_inputb i f e = true ->
         parse_number b i f e = Ok n ->
         let X := e - zlen f in
         (many n = false -> dec_value i f e == inject_Z (nmant n) * pow10Q X /\ nexp n = clamp_i32 X) /\
         (many n = true ->
          exists k : Z,
            1 <= k /\
            k = zlen (strip0 (i ++ f)) - 19 /\
            nexp n = clamp_i32 (X + k) /\
            (inject_Z (nmant n) * pow10Q (X + k) <= dec_value i f e < inject_Z (nmant n + 1) * pow10Q (X + k))%Q).
Proof. exact parse_number_value_bracket. Qed.

Theorem C01_try_fast_path_eq :
  forall (c : config) (T : tables) (f : format) (b : build),
         fast_ok c T f = true ->
         forall n : number,
         0 <= nmant n < 2 ^ 64 ->
         - 2 ^ 31 <= nexp n < 2 ^ 31 ->
         try_fast_path c T f b n =
         Ok (if fast_path_applies f n then Some (RN f (inject_Z (nmant n) * pow10Q (nexp n))) else None).
Proof. exact try_fast_path_eq. Qed.

Theorem C01_fast_ok_all :
  forallb (fun c : config => fast_ok c TABLES F32 && fast_ok c TABLES F64) ALL_CONFIGS = true.
Proof. exact fast_ok_all. Qed.

Theorem C01_parse_float_fast_correct :
  forall (c : config) (f : format) (b : build) (BT : btables) (L : limits) (i fr : list Z) (e : Z),
         In c ALL_CONFIGS ->
         f = F32 \/ f = F64 ->
         valid_inputb i fr e = true ->
         fast_path_applies f (parse_spec i fr e) = true ->
         parse_float c TABLES BT L f b i fr e = Ok (RN f (dec_value i fr e)).
Proof. exact parse_float_fast_correct. Qed.

Theorem C01_parse_float_float_or_panic :
  forall (c : config) (T : tables) (BT : btables) (L : limits) (f : format) 
           (b : build) (i fr : list Z) (e : Z),
         ub_params_ok c T f = true ->
         (exists v : Z, parse_float c T BT L f b i fr e = Ok v) \/
         (exists p : panic_kind, parse_float c T BT L f b i fr e = Panic p).
Proof. exact parse_float_float_or_panic. Qed.


Print Assumptions C01_sfmt_ok_F64.
Print Assumptions C01_RN_spec.
Print Assumptions C01_RN_range.
Print Assumptions C01_overflow_threshold_iff.
Print Assumptions C01_underflow_threshold_iff.
Print Assumptions C01_RN_Qeq.
Print Assumptions C01_RN_monotone.
Print Assumptions C01_parse_number_exact.
Print Assumptions C01_parse_number_value_bracket.
Print Assumptions C01_try_fast_path_eq.
Print Assumptions C01_fast_ok_all.
Print Assumptions C01_parse_float_fast_correct.
Print Assumptions C01_parse_float_float_or_panic.
