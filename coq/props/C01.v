(** C01 - f64 results are correctly rounded (nearest, ties to even), in every feature configuration.
    MAIN THEOREM [C01_parse_float_correct] (proofs/EndToEnd6.v, closed by [exact]):
      for every shipped configuration c (all eight), f = F32 or F64, every build mode b (release /
      debug-assertions+overflow-checks), every valid input (ASCII digits, integer part without leading
      zero) of at most 2^28 digits and EVERY i32 exponent:
          parse_float c TABLES BTABLES LIMITS f b i fr e = Ok (RN f (dec_value i fr e))
      where RN is Flocq's round-to-nearest-even on the FLT format of the regenerated constants, +infinity
      from 2^emax on ([C01_RN_spec]); tables and constants are the ones dumped from the compiled crate.
      NO further premise: [C01_parse_float_correct_final] / [C01_C01_final].  (The theorem was first proved
      with one residual premise for the Eisel-Lemire configurations - "a declined estimate never has a
      biased exponent below -64" - which [C01_no_deep_fallback] discharges: a Euclid-like modular search
      written in Gallina, proved sound, and run by the kernel's VM over every deep (q, lz) instance of both
      formats on the regenerated table, proofs/DeepFallback.v.)
    How it is composed: stage 1 [parse_number_exact] -> fast path [try_fast_path_eq] (Flocq Bmult/Bdiv)
      -> extended-precision stage [lemire_sound] / [bellerophon_sound] (props/C11.v) -> if declined, the
      estimate lemmas [lemire_declined_estimate] / [bellerophon_declined_estimate] feed the big-integer
      path [slow_correct_q] (parse_mantissa, the MAX_DIGITS truncation argument, positive / negative
      digit comparison, capacity of the 62-limb buffer) -> final rounding (props/C18.v); exponents beyond
      +-2^29 incl. saturation at the i32 limits: [parse_float_far_small/large/zero].
    The model is tied to /repo by the correspondence harness on every run (see DESIGN.md 4).
    SOURCE TIE (tools/rs2coq): the functions named below are ALSO regenerated from the Rust source on every
    run by a syn-based translator (coq/gen/Src.v) and proved EQUAL to the hand-written model functions the
    theorems above are about ([rs_*_eq], proofs/SrcEq*.v) - for all inputs and both build modes; a change to
    that Rust code changes the generated file and breaks these equalities.
    Here: is_fast_path, try_fast_path (number.rs); scientific_exponent (slow.rs); and through props/C11.v, C17.v, C18.v both extended-precision stages, the float helpers and the rounding primitive.  parse.rs (iterators), parse_mantissa (macros), bigint.rs and the vectors are tied by the correspondence harness only. *)

From Coq Require Import ZArith QArith Qabs List Bool Reals Qreals.
From Coq Require Import Floats.SpecFloat.
From Flocq Require Import Core.Core.
From ML Require Import base.RustSem model.Fmt model.Num model.Number model.Parse model.Lemire model.Bellerophon model.Vec model.Bigint model.Slow model.Top
  spec.Decimal spec.Round spec.RoundFacts spec.DigitsSuffice gen.Consts gen.Tables gen.BTables gen.PowDump
  proofs.ParseFacts proofs.FastPathFacts proofs.EndToEnd proofs.EndToEnd2 proofs.EndToEnd3 proofs.EndToEnd4 proofs.EndToEnd5 proofs.EndToEnd6 proofs.EndToEnd7
  proofs.LemireFacts6 proofs.Glue proofs.TruncFacts proofs.TruncFacts2 proofs.SlowFacts1 proofs.DeepFallback proofs.DeepFallback2 proofs.Final gen.Src proofs.SrcEqBase proofs.SrcEqNumber proofs.SrcEqSci.
Import ListNotations.

Open Scope Z_scope.

Theorem C01_sfmt_ok_F64 :
  sfmt_ok F64 = true.
Proof. exact sfmt_ok_F64. Qed.

Theorem C01_C01_final :
  forall (c : config) (b : build) (i fr : list Z) (e : Z),
         In c ALL_CONFIGS -> in_domain i fr e -> PF c F64 b i fr e = Ok (RN F64 (dec_value i fr e)).
Proof. exact C01_final. Qed.

Theorem C01_parse_float_correct_final :
  forall (c : config) (f : format) (b : build) (i fr : list Z) (e : Z),
         In c ALL_CONFIGS ->
         f = F32 \/ f = F64 ->
         valid_inputb i fr e = true ->
         zlen i + zlen fr <= 2 ^ 28 -> PF c f b i fr e = Ok (RN f (dec_value i fr e)).
Proof. exact parse_float_correct_final. Qed.

Theorem C01_no_deep_fallback :
  forall (f : format) (b : build) (n : number),
         f = F32 \/ f = F64 ->
         0 <= nmant n < 2 ^ 64 ->
         (many n = true -> 2 ^ (MANTISSA_SIZE f + 3) <= nmant n /\ nmant n + 1 < 2 ^ 64) ->
         no_deep_fallback_at f b n.
Proof. exact no_deep_fallback. Qed.

Theorem C01_parse_float_correct :
  forall (c : config) (f : format) (b : build) (i fr : list Z) (e : Z),
         In c ALL_CONFIGS ->
         f = F32 \/ f = F64 ->
         valid_inputb i fr e = true ->
         zlen i + zlen fr <= 2 ^ 28 ->
         (compact c = false -> no_deep_fallback_at f b (parse_spec i fr e)) ->
         PF c f b i fr e = Ok (RN f (dec_value i fr e)).
Proof. exact parse_float_correct. Qed.

Theorem C01_parse_float_correct_compact :
  forall (c : config) (f : format) (b : build) (i fr : list Z) (e : Z),
         In c ALL_CONFIGS ->
         compact c = true ->
         f = F32 \/ f = F64 ->
         valid_inputb i fr e = true -> bounded_input i fr e -> PF c f b i fr e = Ok (RN f (dec_value i fr e)).
Proof. exact parse_float_correct_compact. Qed.

Theorem C01_parse_float_correct_noncompact :
  forall (c : config) (f : format) (b : build) (BT : btables) (i fr : list Z) (e : Z),
         In c ALL_CONFIGS ->
         compact c = false ->
         f = F32 \/ f = F64 ->
         valid_inputb i fr e = true ->
         bounded_input i fr e ->
         no_deep_fallback_at f b (parse_spec i fr e) ->
         parse_float c TABLES BT LIMITS f b i fr e = Ok (RN f (dec_value i fr e)).
Proof. exact parse_float_correct_noncompact. Qed.

Theorem C01_result_in_range_final :
  forall (c : config) (f : format) (b : build) (i fr : list Z) (e r : Z),
         In c ALL_CONFIGS ->
         f = F32 \/ f = F64 -> in_domain i fr e -> PF c f b i fr e = Ok r -> 0 <= r <= inf_bits f.
Proof. exact result_in_range_final. Qed.

Theorem C01_RN_spec :
  forall f : format,
         sfmt_ok f = true ->
         forall v : Q,
         (0 <= v)%Q ->
         let r := round radix2 (FLT_exp (femin f) (prec f)) ZnearestE (Q2R v) in
         if Rlt_bool r (bpow radix2 (emax f))
         then
          0 <= RN f v < inf_bits f /\
          (let s := FloatOps.sf_of_bits f (RN f v) in
           valid_binary (prec f) (emax f) s = true /\
           BinarySingleNaN.is_finite_SF s = true /\
           BinarySingleNaN.sign_SF s = false /\
           FloatOps.bits_of_sf f s = RN f v /\ BinarySingleNaN.SF2R radix2 s = r)
         else RN f v = inf_bits f /\ FloatOps.sf_of_bits f (RN f v) = S754_infinity false.
Proof. exact RN_spec. Qed.

Theorem C01_overflow_threshold_iff :
  forall f : format,
         sfmt_ok f = true -> forall v : Q, (0 <= v)%Q -> RN f v = inf_bits f <-> (overflow_thresholdQ f <= v)%Q.
Proof. exact overflow_threshold_iff. Qed.

Theorem C01_underflow_threshold_iff :
  forall f : format,
         sfmt_ok f = true -> forall v : Q, (0 <= v)%Q -> RN f v = 0 <-> (v <= underflow_thresholdQ f)%Q.
Proof. exact underflow_threshold_iff. Qed.

Theorem C01_parse_float_far_small :
  forall (c : config) (f : format) (b : build) (i fr : list Z) (e : Z),
         In c ALL_CONFIGS ->
         f = F32 \/ f = F64 ->
         valid_inputb i fr e = true ->
         e - zlen fr + (zlen i + zlen fr) < -400 -> PF c f b i fr e = Ok (RN f (dec_value i fr e)).
Proof. exact parse_float_far_small. Qed.

Theorem C01_parse_float_far_large :
  forall (c : config) (f : format) (b : build) (i fr : list Z) (e : Z),
         In c ALL_CONFIGS ->
         f = F32 \/ f = F64 ->
         valid_inputb i fr e = true ->
         0 < digits_to_Z (i ++ fr) -> 400 < e - zlen fr -> PF c f b i fr e = Ok (RN f (dec_value i fr e)).
Proof. exact parse_float_far_large. Qed.

Theorem C01_parse_float_far_zero :
  forall (c : config) (f : format) (b : build) (i fr : list Z) (e : Z),
         In c ALL_CONFIGS ->
         f = F32 \/ f = F64 ->
         valid_inputb i fr e = true ->
         digits_to_Z (i ++ fr) = 0 -> 400 < e - zlen fr -> PF c f b i fr e = Ok (RN f (dec_value i fr e)).
Proof. exact parse_float_far_zero. Qed.

Theorem C01_parse_float_fast_correct :
  forall (c : config) (f : format) (b : build) (BT : btables) (L : limits) (i fr : list Z) (e : Z),
         In c ALL_CONFIGS ->
         f = F32 \/ f = F64 ->
         valid_inputb i fr e = true ->
         fast_path_applies f (parse_spec i fr e) = true ->
         parse_float c TABLES BT L f b i fr e = Ok (RN f (dec_value i fr e)).
Proof. exact parse_float_fast_correct. Qed.

Theorem C01_parse_float_lemire_definite_correct :
  forall (c : config) (f : format) (b : build) (BT : btables) (L : limits) (i fr : list Z) 
           (e : Z) (fp : extfloat),
         In c ALL_CONFIGS ->
         compact c = false ->
         f = F32 \/ f = F64 ->
         valid_inputb i fr e = true ->
         unsaturated i fr e ->
         fast_path_applies f (parse_spec i fr e) = false ->
         lemire TABLES f b (parse_spec i fr e) = Ok fp ->
         0 <= exp fp -> parse_float c TABLES BT L f b i fr e = Ok (RN f (dec_value i fr e)).
Proof. exact parse_float_lemire_definite_correct. Qed.

Theorem C01_parse_float_lemire_declined_correct :
  forall (c : config) (f : format) (b : build) (BT : btables) (i fr : list Z) (e : Z) (fp : extfloat),
         In c ALL_CONFIGS ->
         compact c = false ->
         f = F32 \/ f = F64 ->
         valid_inputb i fr e = true ->
         bounded_input i fr e ->
         fast_path_applies f (parse_spec i fr e) = false ->
         lemire TABLES f b (parse_spec i fr e) = Ok fp ->
         exp fp < 0 ->
         -64 <= exp fp - INVALID_FP f ->
         parse_float c TABLES BT LIMITS f b i fr e = Ok (RN f (dec_value i fr e)).
Proof. exact parse_float_lemire_declined_correct. Qed.

Theorem C01_parse_float_compact_definite_correct :
  forall (c : config) (f : format) (b : build) (L : limits) (i fr : list Z) (e : Z) (fp : extfloat),
         In c ALL_CONFIGS ->
         compact c = true ->
         f = F32 \/ f = F64 ->
         valid_inputb i fr e = true ->
         unsaturated i fr e ->
         fast_path_applies f (parse_spec i fr e) = false ->
         bellerophon BTABLES f b (parse_spec i fr e) = Ok fp ->
         0 <= exp fp -> parse_float c TABLES BTABLES L f b i fr e = Ok (RN f (dec_value i fr e)).
Proof. exact parse_float_compact_definite_correct. Qed.

Theorem C01_parse_float_compact_declined_correct :
  forall (c : config) (f : format) (b : build) (i fr : list Z) (e : Z) (fp : extfloat),
         In c ALL_CONFIGS ->
         compact c = true ->
         f = F32 \/ f = F64 ->
         valid_inputb i fr e = true ->
         bounded_input i fr e ->
         fast_path_applies f (parse_spec i fr e) = false ->
         bellerophon BTABLES f b (parse_spec i fr e) = Ok fp ->
         exp fp < 0 -> PF c f b i fr e = Ok (RN f (dec_value i fr e)).
Proof. exact parse_float_compact_declined_correct. Qed.

Theorem C01_rs_try_fast_path_eq :
  forall (c : config) (T : tables) (f : format) (b : build) (n : number),
         rs_try_fast_path c T f b n = try_fast_path c T f b n.
Proof. exact rs_try_fast_path_eq. Qed.

Theorem C01_rs_is_fast_path_eq :
  forall (f : format) (b : build) (n : number), rs_is_fast_path f b n = Ok (is_fast_path f n).
Proof. exact rs_is_fast_path_eq. Qed.

Theorem C01_rs_scientific_exponent_eq :
  forall (b : build) (n : number), rs_scientific_exponent b n = scientific_exponent b n.
Proof. exact rs_scientific_exponent_eq. Qed.


Print Assumptions C01_sfmt_ok_F64.
Print Assumptions C01_C01_final.
Print Assumptions C01_parse_float_correct_final.
Print Assumptions C01_no_deep_fallback.
Print Assumptions C01_parse_float_correct.
Print Assumptions C01_parse_float_correct_compact.
Print Assumptions C01_parse_float_correct_noncompact.
Print Assumptions C01_result_in_range_final.
Print Assumptions C01_RN_spec.
Print Assumptions C01_overflow_threshold_iff.
Print Assumptions C01_underflow_threshold_iff.
Print Assumptions C01_parse_float_far_small.
Print Assumptions C01_parse_float_far_large.
Print Assumptions C01_parse_float_far_zero.
Print Assumptions C01_parse_float_fast_correct.
Print Assumptions C01_parse_float_lemire_definite_correct.
Print Assumptions C01_parse_float_lemire_declined_correct.
Print Assumptions C01_parse_float_compact_definite_correct.
Print Assumptions C01_parse_float_compact_declined_correct.
Print Assumptions C01_rs_try_fast_path_eq.
Print Assumptions C01_rs_is_fast_path_eq.
Print Assumptions C01_rs_scientific_exponent_eq.

(** END-TO-END ON THE REGENERATED SOURCE (tools/rs2coq, proofs/SrcFinal.v): rs_parse_float is the Gallina translation of minimal_lexical::parse_float regenerated from /repo/src on every run, calling the translations of every function below it (parse.rs, number.rs, lemire.rs / bellerophon.rs, slow.rs, bigint.rs, rounding.rs, mask.rs, num.rs, extended_float.rs).  It is proved EQUAL to the hand-written model for ARBITRARY byte lists shorter than 2^63 (rs_parse_float_eq_bytes), hence returns the correctly rounded value on every valid input (rs_parse_float_correct).  Trusted: the translator, model/SrcLib.v + model/Vec.v (vector primitives, tied at cell level by C13). *)
From ML Require Import model.SrcLib model.SrcLibFront gen.Src gen.SrcBigint gen.SrcSlow gen.SrcParse gen.SrcFrontSimple gen.SrcFrontEtc gen.SrcFrontFuzz gen.SrcFrontTest proofs.SrcEqParse proofs.SrcEqSlow proofs.SrcEqFront proofs.SrcFinal.

Theorem C01_rs_parse_float_eq_bytes :
  forall (c : config) (f : format) (b : build) (i fr : list Z) (e : Z),
         f = F32 \/ f = F64 ->
         zlen i + zlen fr < 2 ^ 63 -> rs_parse_float c TABLES BTABLES LIMITS f b i fr e = PF c f b i fr e.
Proof. exact rs_parse_float_eq_bytes. Qed.

Theorem C01_rs_parse_float_correct :
  forall (c : config) (f : format) (b : build) (i fr : list Z) (e : Z),
         In c ALL_CONFIGS ->
         f = F32 \/ f = F64 ->
         valid_inputb i fr e = true ->
         zlen i + zlen fr <= 2 ^ 28 ->
         rs_parse_float c TABLES BTABLES LIMITS f b i fr e = Ok (RN f (dec_value i fr e)).
Proof. exact rs_parse_float_correct. Qed.

Theorem C01_rs_moderate_path_eq_std :
  forall (c : config) (f : format) (b : build) (n : number),
         f = F32 \/ f = F64 ->
         u64_ok (nmant n) -> rs_moderate_path c TABLES BTABLES f b n = moderate_path c TABLES BTABLES f b n.
Proof. exact rs_moderate_path_eq_std. Qed.

Print Assumptions C01_rs_parse_float_eq_bytes.
Print Assumptions C01_rs_parse_float_correct.
Print Assumptions C01_rs_moderate_path_eq_std.
