(** C02 - f32 results are correctly rounded (nearest, ties to even).
    FULL STATEMENT (the goal; not yet closed):
      forall c b i fr e, In c ALL_CONFIGS -> valid_inputb i fr e = true ->
        parse_float c TABLES BTABLES LIMITS F32 b i fr e = Ok (RN F32 (dec_value i fr e)).
    PROVED so far (every theorem below is closed by [exact]; proofs in spec/RoundFacts.v,
    spec/RneBridge.v, proofs/ParseFacts.v, proofs/NoUB.v):
     - the MEANING of the oracle: RN is Flocq's round-to-nearest-even on the FLT format of the
       regenerated constants, +infinity from 2^emax on ([RN_spec]); thresholds exactly
       2^128 - 2^103 and 2^-150 ([overflow_threshold_iff], [underflow_threshold_iff]); never NaN /
       negative ([RN_range]); an integer-only characterisation ([rne_bits_iff_RN]);
     - stage 1: [parse_number] returns the first 19 significant digits, the truncation flag and the
       saturated exact exponent, for every valid input and both build modes ([parse_number_exact]),
       and the exact value is w*10^q resp. lies in [w,w+1)*10^q ([parse_number_value_bracket]);
     - END TO END for the fast-path class ([parse_float_fast_correct], no premise beyond the input
       domain): every valid input with at most 19 significant digits whose Number satisfies
       [fast_path_applies] is parsed to exactly RN (dec_value ...) in all eight configurations and both
       build modes; and the complete functional description of the fast path ([try_fast_path_eq]);
     - END TO END for the non-compact configurations whenever Eisel-Lemire is definite
       ([parse_float_lemire_definite_correct], from [lemire_sound], props/C11.v) - so with the two
       theorems around it the end-to-end statement is CLOSED for every valid input (exponent not
       saturated) that does not reach the big-integer path, in all eight configurations;
     - END TO END for the compact configurations whenever Bellerophon is definite
       ([parse_float_compact_definite_correct], from [bellerophon_sound], props/C11.v): valid input,
       exponent not saturated, fast path not applicable, stage definite => exactly RN (dec_value ..);
     - the big-integer SLOW PATH (proofs/SlowFacts1*.v, SlowFacts2*.v, TruncFacts*.v; integers only):
       [parse_mantissa_spec] (the digits re-read as a big integer: first MAX_DIGITS significant digits,
       + one sticky digit iff a later digit is non-zero; never panics), [truncation_preserves_rounding]
       (that truncation never changes the correctly rounded result), [positive_digit_comp_correct] /
       [slow_positive_exact] (exponent >= 0: the result is the correctly rounded exact value, no premise),
       [negative_digit_comp_correct] (exponent < 0: the result is the correctly rounded value PROVIDED the
       declined estimate is good enough that the true rounding is b or its successor - the one premise
       that the extended-precision stage must supply, see props/C11.v);
     - no unchecked access on any input ([parse_float_float_or_panic]).
    See props/C11.v (extended-precision stage), props/C12.v (big integers), props/C18.v (final
    rounding) for the other stages; what is not proved is attacked by the directed search of the
    check on every run (exact midpoints, closest approaches, fallback witnesses). *)

From Coq Require Import ZArith QArith List Bool Reals.
From Coq Require Import Floats.SpecFloat.
From Flocq Require Import Core.Core.
From ML Require Import base.RustSem model.Fmt model.FloatOps model.Number model.Parse model.Vec model.Bigint model.Slow model.Bellerophon model.Lemire model.Top spec.Decimal spec.Round spec.RoundFacts spec.DigitsSuffice spec.RneZ
  gen.Consts gen.Tables gen.BTables gen.PowDump proofs.ParseFacts proofs.Glue proofs.NoUB proofs.FastPathFacts proofs.EndToEnd proofs.BellFacts5 proofs.EndToEnd2 proofs.LemireFacts5 proofs.EndToEnd3 proofs.LimbVal proofs.RoundingFactsZ proofs.NumFacts proofs.TruncFacts proofs.TruncFacts2 proofs.SlowFacts1 proofs.SlowFacts1b proofs.SlowFacts2 proofs.SlowFacts2b proofs.SlowFacts2c.
Import ListNotations.

Open Scope Z_scope.

Theorem C02_sfmt_ok_F32 :
  sfmt_ok F32 = true.
Proof. exact sfmt_ok_F32. Qed.

Theorem C02_RN_spec :
  forall f : format,
         sfmt_ok f = true ->
         forall v : Q,
         (0 <= v)%Q ->
         let r := round radix2 (FLT_exp (femin f) (prec f)) ZnearestE (Q2R v) in
         if Rlt_bool r (bpow radix2 (emax f))
         then
          0 <= RN f v < RoundFacts.inf_bits f /\
          (let s := sf_of_bits f (RN f v) in
           valid_binary (prec f) (emax f) s = true /\
           BinarySingleNaN.is_finite_SF s = true /\
           BinarySingleNaN.sign_SF s = false /\ bits_of_sf f s = RN f v /\ BinarySingleNaN.SF2R radix2 s = r)
         else RN f v = RoundFacts.inf_bits f /\ sf_of_bits f (RN f v) = S754_infinity false.
Proof. exact RN_spec. Qed.

Theorem C02_RN_range :
  forall f : format,
         sfmt_ok f = true -> forall v : Q, (0 <= v)%Q -> 0 <= RN f v <= RoundFacts.inf_bits f.
Proof. exact RN_range. Qed.

Theorem C02_overflow_threshold_iff :
  forall f : format,
         sfmt_ok f = true ->
         forall v : Q, (0 <= v)%Q -> RN f v = RoundFacts.inf_bits f <-> (overflow_thresholdQ f <= v)%Q.
Proof. exact overflow_threshold_iff. Qed.

Theorem C02_underflow_threshold_iff :
  forall f : format,
         sfmt_ok f = true -> forall v : Q, (0 <= v)%Q -> RN f v = 0 <-> (v <= underflow_thresholdQ f)%Q.
Proof. exact underflow_threshold_iff. Qed.

Theorem C02_RN_Qeq :
  forall f : format, sfmt_ok f = true -> forall v v' : Q, (0 <= v)%Q -> v == v' -> RN f v = RN f v'.
Proof. exact RN_Qeq. Qed.

Theorem C02_RN_monotone :
  forall f : format, sfmt_ok f = true -> forall v v' : Q, (0 <= v)%Q -> (v <= v')%Q -> RN f v <= RN f v'.
Proof. exact RN_monotone. Qed.

Theorem C02_parse_number_exact :
  forall (b : build) (i f : list Z) (e : Z),
         valid_inputb i f e = true -> parse_number b i f e = Ok (parse_spec i f e).
Proof. exact parse_number_exact. Qed.

Theorem C02_parse_number_value_bracket :
  forall (b : build) (i f : list Z) (e : Z) (n : number),
         valid_inputb i f e = true ->
         parse_number b i f e = Ok n ->
         let X := e - zlen f in
         (many n = false -> dec_value i f e == inject_Z (nmant n) * pow10Q X /\ nexp n = clamp_i32 X) /\
         (many n = true ->
          exists k : Z,
            1 <= k /\
            k = zlen (strip0 (i ++ f)) - 19 /\
            nexp n = clamp_i32 (X + k) /\
            (inject_Z (nmant n) * pow10Q (X + k) <= dec_value i f e < inject_Z (nmant n + 1) * pow10Q (X + k))%Q).
Proof. exact parse_number_value_bracket. Qed.

Theorem C02_try_fast_path_eq :
  forall (c : config) (T : tables) (f : format) (b : build),
         fast_ok c T f = true ->
         forall n : number,
         0 <= nmant n < 2 ^ 64 ->
         - 2 ^ 31 <= nexp n < 2 ^ 31 ->
         try_fast_path c T f b n =
         Ok (if fast_path_applies f n then Some (RN f (inject_Z (nmant n) * pow10Q (nexp n))) else None).
Proof. exact try_fast_path_eq. Qed.

Theorem C02_fast_ok_all :
  forallb (fun c : config => fast_ok c TABLES F32 && fast_ok c TABLES F64) ALL_CONFIGS = true.
Proof. exact fast_ok_all. Qed.

Theorem C02_parse_float_fast_correct :
  forall (c : config) (f : format) (b : build) (BT : btables) (L : limits) (i fr : list Z) (e : Z),
         In c ALL_CONFIGS ->
         f = F32 \/ f = F64 ->
         valid_inputb i fr e = true ->
         fast_path_applies f (parse_spec i fr e) = true ->
         parse_float c TABLES BT L f b i fr e = Ok (RN f (dec_value i fr e)).
Proof. exact parse_float_fast_correct. Qed.

Theorem C02_lemire_sound :
  forall (f : format) (b : build) (n : number),
         LemireFacts0.lfmt_ok f = true ->
         0 <= nmant n < 2 ^ 64 ->
         (many n = true -> 0 < nmant n /\ nmant n + 1 < 2 ^ 64) ->
         exists fp : Num.extfloat,
           lemire TABLES f b n = Ok fp /\
           (0 <= Num.exp fp ->
            compute_float TABLES f b (nexp n) (nmant n) = Ok fp /\
            LemireFacts1.fields_ok f fp /\
            rne_bits f (dec_num (nmant n) (nexp n)) (dec_den (nexp n)) (LemireFacts0.pack f fp) /\
            (many n = true ->
             compute_float TABLES f b (nexp n) (nmant n + 1) = Ok fp /\
             rne_bits f (dec_num (nmant n + 1) (nexp n)) (dec_den (nexp n)) (LemireFacts0.pack f fp))).
Proof. exact lemire_sound. Qed.

Theorem C02_parse_float_lemire_definite_correct :
  forall (c : config) (f : format) (b : build) (BT : btables) (L : limits) (i fr : list Z) 
           (e : Z) (fp : Num.extfloat),
         In c ALL_CONFIGS ->
         compact c = false ->
         f = F32 \/ f = F64 ->
         valid_inputb i fr e = true ->
         unsaturated i fr e ->
         fast_path_applies f (parse_spec i fr e) = false ->
         lemire TABLES f b (parse_spec i fr e) = Ok fp ->
         0 <= Num.exp fp -> parse_float c TABLES BT L f b i fr e = Ok (RN f (dec_value i fr e)).
Proof. exact parse_float_lemire_definite_correct. Qed.

Theorem C02_bellerophon_sound :
  forall (f : format) (b : build) (w q : Z) (t : bool),
         bell_ok f = true ->
         0 <= w < 2 ^ 64 ->
         - 2 ^ 31 <= q < 2 ^ 31 ->
         (t = true -> 2 ^ 40 <= w) ->
         exists fp : Num.extfloat,
           bellerophon BTABLES f b {| nexp := q; nmant := w; many := t |} = Ok fp /\
           (0 <= Num.exp fp ->
            forall v : Q,
            (if t
             then (inject_Z w * pow10Q q <= v < inject_Z (w + 1) * pow10Q q)%Q
             else v == inject_Z w * pow10Q q) -> RN f v = pack f fp).
Proof. exact bellerophon_sound. Qed.

Theorem C02_parse_float_compact_definite_correct :
  forall (c : config) (f : format) (b : build) (L : limits) (i fr : list Z) (e : Z) (fp : Num.extfloat),
         In c ALL_CONFIGS ->
         compact c = true ->
         f = F32 \/ f = F64 ->
         valid_inputb i fr e = true ->
         unsaturated i fr e ->
         fast_path_applies f (parse_spec i fr e) = false ->
         bellerophon BTABLES f b (parse_spec i fr e) = Ok fp ->
         0 <= Num.exp fp -> parse_float c TABLES BTABLES L f b i fr e = Ok (RN f (dec_value i fr e)).
Proof. exact parse_float_compact_definite_correct. Qed.

Theorem C02_scientific_exponent_spec :
  forall (b : build) (n : number) (d : Z),
         ndigits_is (nmant n) d ->
         nmant n < 2 ^ 64 -> - 2 ^ 31 <= nexp n < 2 ^ 31 - 64 -> scientific_exponent b n = Ok (nexp n + d - 1).
Proof. exact scientific_exponent_spec. Qed.

Theorem C02_parse_mantissa_spec :
  forall (c : config) (T : tables) (L : limits) (b : build) (maxd : Z) (i fr : list Z),
         pm_tables_ok c T = true ->
         10 ^ (maxd + 1) <= B64 ^ BIGINT_LIMBS L ->
         0 < maxd ->
         forallb digitb i = true ->
         forallb digitb fr = true ->
         (forall (ch : Z) (r : list Z), i = ch :: r -> ch <> 48) ->
         let s := strip0 (i ++ fr) in
         let D := zlen s in
         let k := Z.to_nat maxd in
         exists (v : vec) (cnt : Z),
           parse_mantissa c T L b i fr maxd = Ok (v, cnt) /\
           vgood c L v /\
           (D <= maxd -> lval (vl v) = digits_to_Z s /\ cnt = D) /\
           (maxd < D ->
            if all0 (skipn k s)
            then lval (vl v) = digits_to_Z (firstn k s) /\ cnt = maxd
            else lval (vl v) = digits_to_Z (firstn k s) * 10 + 1 /\ cnt = maxd + 1) /\
           (s <> [] -> 0 < lval (vl v)) /\ 0 <= lval (vl v) < 10 ^ (maxd + 1) /\ 0 <= cnt <= maxd + 1.
Proof. exact parse_mantissa_spec. Qed.

Theorem C02_truncation_preserves_rounding :
  forall f : format,
         sfmt_ok f = true ->
         trunc_ok f = true ->
         forall (s : list Z) (X : Z),
         forallb digitb s = true ->
         hd 48 s <> 48 ->
         MAX_DIGITS f < zlen s ->
         let n := Z.to_nat (MAX_DIGITS f) in
         let N0 := digits_to_Z (firstn n s) in
         let rest := skipn n s in
         let k := X + zlen s - MAX_DIGITS f in
         10 ^ (MAX_DIGITS f - 1) <= N0 < 10 ^ MAX_DIGITS f /\
         (TruncFacts.all0 rest = false -> RN f (decQ (digits_to_Z s) X) = RN f (decQ (N0 * 10 + 1) (k - 1))) /\
         (TruncFacts.all0 rest = true ->
          digits_to_Z s = N0 * 10 ^ (zlen s - MAX_DIGITS f) /\
          decQ (digits_to_Z s) X == decQ N0 k /\ RN f (decQ (digits_to_Z s) X) = RN f (decQ N0 k)).
Proof. exact truncation_preserves_rounding. Qed.

Theorem C02_positive_digit_comp_correct :
  forall (c : config) (T : tables) (L : limits) (f : format) (b : build) (bigmant : vec) (exponent : Z),
         pdc_side c T L f = true ->
         vgood c L bigmant ->
         0 < lval (vl bigmant) ->
         0 <= exponent < 2 ^ 31 ->
         lval (vl bigmant) * 10 ^ exponent < B64 ^ BIGINT_LIMBS L ->
         exists (fp : Num.extfloat) (w : Z),
           positive_digit_comp c T L f b bigmant exponent = Ok fp /\
           Num.extended_to_float f b fp = Ok w /\ rne_bits f (lval (vl bigmant) * 10 ^ exponent) 1 w.
Proof. exact positive_digit_comp_correct. Qed.

Theorem C02_slow_positive_exact :
  forall (c : config) (T : tables) (L : limits) (f : format) (b : build) (fp : Num.extfloat)
           (i fr : list Z) (e : Z),
         slow_side c T L f = true ->
         2 ^ 63 <= Num.mant fp < 2 ^ 64 ->
         forallb digitb i = true ->
         forallb digitb fr = true ->
         (forall (ch : Z) (r : list Z), i = ch :: r -> ch <> 48) ->
         let s := strip0 (i ++ fr) in
         let D := zlen s in
         let X := e - zlen fr in
         let W := digits_to_Z (i ++ fr) in
         s <> [] ->
         0 <= X <= 2 ^ 29 ->
         zlen i + zlen fr <= 2 ^ 29 ->
         D <= MAX_DIGITS f \/ all0 (skipn (Z.to_nat (MAX_DIGITS f)) s) = true ->
         W * 10 ^ X < B64 ^ BIGINT_LIMBS L ->
         exists (r : Num.extfloat) (w : Z),
           slow c T L f b (parse_spec i fr e) fp i fr = Ok r /\
           Num.extended_to_float f b r = Ok w /\ rne_bits f (dec_num W X) (dec_den X) w.
Proof. exact slow_positive_exact. Qed.

Theorem C02_rne_bits_succ_mid :
  forall f : format,
         fmt_ok f = true ->
         2 <= ewidth f ->
         forall x n d w : Z,
         0 <= x < inf_bits f ->
         0 < n ->
         0 < d ->
         rne_bits f n d w ->
         x <= w <= x + 1 ->
         let M := dec_mant f x in
         let e := dec_exp f x - 1 in
         w = x + 1 <->
         sc_num n e > (2 * M + 1) * sc_den d e \/ sc_num n e = (2 * M + 1) * sc_den d e /\ Z.odd M = true.
Proof. exact rne_bits_succ_mid. Qed.

Theorem C02_negative_digit_comp_correct :
  forall (c : config) (f : format) (b : build) (bigmant : vec) (fp : Num.extfloat) (exponent N : Z),
         rfmt_ok f = true ->
         fmt_ok f = true ->
         limbs_ok (vl bigmant) ->
         is_normalized (vl bigmant) = true ->
         lval (vl bigmant) = N ->
         0 < N ->
         62 <= vcap bigmant ->
         (alloc c = false -> vcap bigmant = 62) ->
         zlen (vl bigmant) <= vcap bigmant ->
         2 ^ 63 <= Num.mant fp < 2 ^ 64 ->
         -63 <= Num.exp fp <= 2 ^ 30 ->
         - 2 ^ 30 <= exponent < 0 ->
         let bbits := rd_bits f fp in
         let Mb := dec_mant f bbits in
         let Eb := dec_exp f bbits in
         let beta := Eb - 1 - exponent in
         N * 2 ^ Z.max 0 (- beta) < B64 ^ 62 ->
         (2 * Mb + 1) * 5 ^ (- exponent) * 2 ^ Z.max 0 beta < B64 ^ 62 ->
         forall w : Z,
         rne_bits f N (10 ^ (- exponent)) w ->
         bbits <= w <= bbits + 1 ->
         exists r : Num.extfloat,
           negative_digit_comp c TABLES LIMITS f b bigmant fp exponent = Ok r /\
           Num.extended_to_float f b r = Ok w.
Proof. exact negative_digit_comp_correct. Qed.

Theorem C02_parse_float_float_or_panic :
  forall (c : config) (T : tables) (BT : btables) (L : limits) (f : format) 
           (b : build) (i fr : list Z) (e : Z),
         ub_params_ok c T f = true ->
         (exists v : Z, parse_float c T BT L f b i fr e = Ok v) \/
         (exists p : panic_kind, parse_float c T BT L f b i fr e = Panic p).
Proof. exact parse_float_float_or_panic. Qed.


Print Assumptions C02_sfmt_ok_F32.
Print Assumptions C02_RN_spec.
Print Assumptions C02_RN_range.
Print Assumptions C02_overflow_threshold_iff.
Print Assumptions C02_underflow_threshold_iff.
Print Assumptions C02_RN_Qeq.
Print Assumptions C02_RN_monotone.
Print Assumptions C02_parse_number_exact.
Print Assumptions C02_parse_number_value_bracket.
Print Assumptions C02_try_fast_path_eq.
Print Assumptions C02_fast_ok_all.
Print Assumptions C02_parse_float_fast_correct.
Print Assumptions C02_lemire_sound.
Print Assumptions C02_parse_float_lemire_definite_correct.
Print Assumptions C02_bellerophon_sound.
Print Assumptions C02_parse_float_compact_definite_correct.
Print Assumptions C02_scientific_exponent_spec.
Print Assumptions C02_parse_mantissa_spec.
Print Assumptions C02_truncation_preserves_rounding.
Print Assumptions C02_positive_digit_comp_correct.
Print Assumptions C02_slow_positive_exact.
Print Assumptions C02_rne_bits_succ_mid.
Print Assumptions C02_negative_digit_comp_correct.
Print Assumptions C02_parse_float_float_or_panic.
