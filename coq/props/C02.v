(** C02 - theorems under construction. *)
From Coq Require Import ZArith.
