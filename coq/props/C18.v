(** C18 - the shift-and-round primitive produces the nearest float for every shift.
    Statements only (closed by [exact]); proofs in proofs/RoundingFactsZ.v (integer level, closed
    under the global context), proofs/RoundingFacts.v (link to Flocq's [round radix2 (FLT_exp ..)
    ZnearestE] / [Zfloor] and to SpecFloat.binary_normalize), proofs/RoundingFactsRne.v +
    proofs/Glue.v (the packed result equals the oracle RN of significand * 2^(exponent - bias)).
    Every significand in [2^63, 2^64), every biased exponent in [-63, 2^30] (so [-63,2100] / [-63,320]
    in particular), arbitrary build mode; format constants are the regenerated F32 / F64 through
    the boolean side condition [rfmt_ok].
    NOTE on the truncating variant: for significand * 2^(exp-bias) >= 2^emax the code returns the
    +infinity fields, not the largest finite float ([round_down_correct] states exactly this); it
    is recorded in KNOWN_FINDINGS (F3) - no caller can observe it.
    SOURCE TIE (tools/rs2coq): the functions named below are ALSO regenerated from the Rust source on every
    run by a syn-based translator (coq/gen/Src.v) and proved EQUAL to the hand-written model functions the
    theorems above are about ([rs_*_eq], proofs/SrcEq*.v) - for all inputs and both build modes; a change to
    that Rust code changes the generated file and breaks these equalities.
    Here: round, round_nearest_tie_even, round_down (rounding.rs); lower_n_mask, lower_n_halfway, nth_bit (mask.rs). *)

From Coq Require Import ZArith QArith List Bool Reals.
From Coq Require Import Floats.SpecFloat.
From Flocq Require Import Core.Core.
From ML Require Import base.RustSem model.Fmt model.Mask model.Num model.Rounding model.FloatOps spec.Round spec.RneZ spec.RneBridge
  gen.Consts proofs.RoundingFactsZ proofs.RoundingFacts proofs.RoundingFactsRne proofs.Glue gen.Src proofs.SrcEqBase proofs.SrcEqMask proofs.SrcEqRounding.

Open Scope Z_scope.

Theorem C18_rfmt_ok_F32 :
  rfmt_ok F32 = true.
Proof. exact rfmt_ok_F32. Qed.

Theorem C18_rfmt_ok_F64 :
  rfmt_ok F64 = true.
Proof. exact rfmt_ok_F64. Qed.

Theorem C18_round_nearest_RN :
  forall (f : format) (b : build) (mant exp : Z),
         rfmt_ok f = true ->
         bfmt_ok f = true ->
         2 ^ 63 <= mant < 2 ^ 64 ->
         -63 <= exp <= 2 ^ 30 ->
         exists (r : extfloat) (w : Z),
           round f b {| mant := mant; exp := exp |}
             (fun (fp : extfloat) (s : Z) => round_nearest_tie_even b fp s cb_nearest_even) = 
           Ok r /\ extended_to_float f b r = Ok w /\ w = RN f (ext_num f mant exp # Z.to_pos (ext_den f exp)).
Proof. exact round_nearest_RN. Qed.

Theorem C18_round_nearest_RN_F64 :
  forall (b : build) (mant exp : Z),
         2 ^ 63 <= mant < 2 ^ 64 ->
         -63 <= exp <= 2100 ->
         exists (r : extfloat) (w : Z),
           round F64 b {| mant := mant; exp := exp |}
             (fun (fp : extfloat) (s : Z) => round_nearest_tie_even b fp s cb_nearest_even) = 
           Ok r /\
           extended_to_float F64 b r = Ok w /\ w = RN F64 (ext_num F64 mant exp # Z.to_pos (ext_den F64 exp)).
Proof. exact round_nearest_RN_F64. Qed.

Theorem C18_round_nearest_RN_F32 :
  forall (b : build) (mant exp : Z),
         2 ^ 63 <= mant < 2 ^ 64 ->
         -63 <= exp <= 320 ->
         exists (r : extfloat) (w : Z),
           round F32 b {| mant := mant; exp := exp |}
             (fun (fp : extfloat) (s : Z) => round_nearest_tie_even b fp s cb_nearest_even) = 
           Ok r /\
           extended_to_float F32 b r = Ok w /\ w = RN F32 (ext_num F32 mant exp # Z.to_pos (ext_den F32 exp)).
Proof. exact round_nearest_RN_F32. Qed.

Theorem C18_round_nearest_correct :
  forall f : format,
         rfmt_ok f = true ->
         forall (b : build) (mant0 exp0 : Z),
         2 ^ 63 <= mant0 < 2 ^ 64 ->
         -63 <= exp0 <= 2 ^ 30 ->
         let rx := Generic_fmt.round radix2 (ffexp f) ZnearestE (ext_val f mant0 exp0) in
         exists r : extfloat,
           round f b {| mant := mant0; exp := exp0 |}
             (fun (fp : extfloat) (s : Z) => round_nearest_tie_even b fp s cb_nearest_even) = 
           Ok r /\
           r = round_spec f (rnd_ne mant0) exp0 /\
           0 <= exp r <= INFINITE_POWER f /\
           (exp r < INFINITE_POWER f -> fields_val f r = rx /\ (0 <= rx < bpow radix2 (emax f))%R) /\
           (exp r = INFINITE_POWER f -> mant r = 0 /\ (bpow radix2 (emax f) <= rx)%R).
Proof. exact round_nearest_correct. Qed.

Theorem C18_round_down_correct :
  forall f : format,
         rfmt_ok f = true ->
         forall (b : build) (mant0 exp0 : Z),
         2 ^ 63 <= mant0 < 2 ^ 64 ->
         -63 <= exp0 <= 2 ^ 30 ->
         let x := ext_val f mant0 exp0 in
         let rx := Generic_fmt.round radix2 (ffexp f) Zfloor x in
         exists r : extfloat,
           round f b {| mant := mant0; exp := exp0 |} (round_down b) = Ok r /\
           r = round_spec f (fun s : Z => mant0 / 2 ^ s) exp0 /\
           0 <= exp r <= INFINITE_POWER f /\
           (exp r < INFINITE_POWER f ->
            fields_val f r = rx /\ (0 <= rx < bpow radix2 (emax f))%R /\ (x < bpow radix2 (emax f))%R) /\
           (exp r = INFINITE_POWER f ->
            mant r = 0 /\ (bpow radix2 (emax f) <= rx)%R /\ (bpow radix2 (emax f) <= x)%R).
Proof. exact round_down_correct. Qed.

Theorem C18_round_nearest_is_binary_normalize :
  forall f : format,
         rfmt_ok f = true ->
         forall (b : build) (mant exp : Z),
         2 ^ 63 <= mant < 2 ^ 64 ->
         -63 <= exp <= 2 ^ 30 ->
         exists (r : extfloat) (w : Z),
           round f b {| mant := mant; exp := exp |}
             (fun (fp : extfloat) (s : Z) => round_nearest_tie_even b fp s cb_nearest_even) = 
           Ok r /\
           extended_to_float f b r = Ok w /\
           0 <= w < 2 ^ (fbits f - 1) /\
           sf_of_bits f w = binary_normalize (prec f) (emax f) mant (exp - EXPONENT_BIAS f) false.
Proof. exact round_nearest_is_binary_normalize. Qed.

Theorem C18_round_nearest_packed :
  forall f : format,
         rfmt_ok f = true ->
         forall (b : build) (mant exp : Z),
         2 ^ 63 <= mant < 2 ^ 64 ->
         -63 <= exp <= 2 ^ 30 ->
         let rx := Generic_fmt.round radix2 (ffexp f) ZnearestE (ext_val f mant exp) in
         exists (r : extfloat) (w : Z),
           round f b {| mant := mant; exp := exp |}
             (fun (fp : extfloat) (s : Z) => round_nearest_tie_even b fp s cb_nearest_even) = 
           Ok r /\
           extended_to_float f b r = Ok w /\
           w = pack_fields f r /\
           0 <= w < 2 ^ (fbits f - 1) /\
           ((rx < bpow radix2 (emax f))%R ->
            BinarySingleNaN.is_finite_SF (sf_of_bits f w) = true /\
            BinarySingleNaN.sign_SF (sf_of_bits f w) = false /\
            BinarySingleNaN.SF2R radix2 (sf_of_bits f w) = rx) /\
           ((bpow radix2 (emax f) <= rx)%R -> sf_of_bits f w = S754_infinity false).
Proof. exact round_nearest_packed. Qed.

Theorem C18_round_down_packed :
  forall f : format,
         rfmt_ok f = true ->
         forall (b : build) (mant exp : Z),
         2 ^ 63 <= mant < 2 ^ 64 ->
         -63 <= exp <= 2 ^ 30 ->
         let x := ext_val f mant exp in
         let rx := Generic_fmt.round radix2 (ffexp f) Zfloor x in
         exists (r : extfloat) (w : Z),
           round f b {| mant := mant; exp := exp |} (round_down b) = Ok r /\
           extended_to_float f b r = Ok w /\
           w = pack_fields f r /\
           0 <= w < 2 ^ (fbits f - 1) /\
           ((x < bpow radix2 (emax f))%R ->
            BinarySingleNaN.is_finite_SF (sf_of_bits f w) = true /\
            BinarySingleNaN.sign_SF (sf_of_bits f w) = false /\
            BinarySingleNaN.SF2R radix2 (sf_of_bits f w) = rx) /\
           ((bpow radix2 (emax f) <= x)%R -> sf_of_bits f w = S754_infinity false).
Proof. exact round_down_packed. Qed.

Theorem C18_round_ne_Z :
  forall (f : format) (b : build) (mant exp : Z),
         rfmt_ok f = true ->
         2 ^ 63 <= mant < 2 ^ 64 ->
         -63 <= exp <= 2 ^ 30 ->
         round f b {| mant := mant; exp := exp |}
           (fun (fp : extfloat) (s : Z) => round_nearest_tie_even b fp s cb_nearest_even) =
         Ok (round_spec f (rnd_ne mant) exp).
Proof. exact round_ne_Z. Qed.

Theorem C18_round_cb_Z :
  forall (f : format) (b : build) (mant exp : Z) (cb : bool -> bool -> bool -> bool),
         rfmt_ok f = true ->
         2 ^ 63 <= mant < 2 ^ 64 ->
         -63 <= exp <= 2 ^ 30 ->
         round f b {| mant := mant; exp := exp |}
           (fun (fp : extfloat) (s : Z) => round_nearest_tie_even b fp s cb) =
         Ok (round_spec f (rnd_cb cb mant) exp).
Proof. exact round_cb_Z. Qed.

Theorem C18_round_down_round_Z :
  forall (f : format) (b : build) (mant exp : Z),
         rfmt_ok f = true ->
         2 ^ 63 <= mant < 2 ^ 64 ->
         -63 <= exp <= 2 ^ 30 ->
         round f b {| mant := mant; exp := exp |} (round_down b) =
         Ok (round_spec f (fun s : Z => mant / 2 ^ s) exp).
Proof. exact round_down_round_Z. Qed.

Theorem C18_round_nearest_tie_even_Z :
  forall (b : build) (mant exp s : Z) (cb : bool -> bool -> bool -> bool),
         0 <= mant < 2 ^ 64 ->
         1 <= s <= 64 ->
         - 2 ^ 31 <= exp + s < 2 ^ 31 ->
         round_nearest_tie_even b {| mant := mant; exp := exp |} s cb =
         Ok {| mant := rnd_cb cb mant s; exp := exp + s |}.
Proof. exact round_nearest_tie_even_Z. Qed.

Theorem C18_round_down_Z :
  forall (b : build) (mant exp s : Z),
         0 <= mant < 2 ^ 64 ->
         0 <= s <= 64 ->
         - 2 ^ 31 <= exp + s < 2 ^ 31 ->
         round_down b {| mant := mant; exp := exp |} s = Ok {| mant := mant / 2 ^ s; exp := exp + s |}.
Proof. exact round_down_Z. Qed.

Theorem C18_nth_bit_ok :
  forall (b : build) (n : Z), 0 <= n < 64 -> nth_bit b n = Ok (2 ^ n).
Proof. exact nth_bit_ok. Qed.

Theorem C18_lower_n_mask_ok :
  forall (b : build) (n : Z), 0 <= n <= 64 -> lower_n_mask b n = Ok (2 ^ n - 1).
Proof. exact lower_n_mask_ok. Qed.

Theorem C18_lower_n_halfway_ok :
  forall (b : build) (n : Z),
         0 <= n <= 64 -> lower_n_halfway b n = Ok (if n =? 0 then 0 else 2 ^ (n - 1)).
Proof. exact lower_n_halfway_ok. Qed.

Theorem C18_mask_helpers_release_outside :
  nth_bit release_build 64 = Ok 1 /\
         lower_n_mask release_build 65 = Ok 1 /\
         lower_n_halfway release_build 65 = Ok 1 /\
         nth_bit {| ovf := true; dbg := false |} 64 = Panic PkOverflow /\
         lower_n_mask {| ovf := true; dbg := false |} 65 = Panic PkOverflow /\
         lower_n_halfway {| ovf := true; dbg := false |} 65 = Panic PkOverflow.
Proof. exact mask_helpers_release_outside. Qed.

Theorem C18_round_nearest_rne_bits :
  forall f : format,
         rfmt_ok f = true ->
         forall (b : build) (mant exp n d : Z),
         2 ^ 63 <= mant < 2 ^ 64 ->
         -63 <= exp <= 2 ^ 30 ->
         0 < d ->
         same_value f n d mant exp ->
         exists (r : extfloat) (w : Z),
           round f b {| mant := mant; exp := exp |}
             (fun (fp : extfloat) (s : Z) => round_nearest_tie_even b fp s cb_nearest_even) = 
           Ok r /\ extended_to_float f b r = Ok w /\ rne_bits f n d w.
Proof. exact round_nearest_rne_bits. Qed.

Theorem C18_rs_round_eq :
  forall (f : format) (b : build) (fp : extfloat) (cb : extfloat -> Z -> outcome extfloat),
         fmt_ok f -> rs_round f b fp cb = round f b fp cb.
Proof. exact rs_round_eq. Qed.

Theorem C18_rs_round_eq_std :
  forall (f : format) (b : build) (fp : extfloat) (cb : extfloat -> Z -> outcome extfloat),
         f = F32 \/ f = F64 -> rs_round f b fp cb = round f b fp cb.
Proof. exact rs_round_eq_std. Qed.

Theorem C18_rs_round_nearest_tie_even_eq :
  forall (b : build) (fp : extfloat) (shift : Z) (cb : bool -> bool -> bool -> bool),
         rs_round_nearest_tie_even b fp shift cb = round_nearest_tie_even b fp shift cb.
Proof. exact rs_round_nearest_tie_even_eq. Qed.

Theorem C18_rs_round_down_eq :
  forall (b : build) (fp : extfloat) (shift : Z), rs_round_down b fp shift = round_down b fp shift.
Proof. exact rs_round_down_eq. Qed.

Theorem C18_rs_lower_n_mask_eq :
  forall (b : build) (n : Z), rs_lower_n_mask b n = lower_n_mask b n.
Proof. exact rs_lower_n_mask_eq. Qed.

Theorem C18_rs_lower_n_halfway_eq :
  forall (b : build) (n : Z), rs_lower_n_halfway b n = lower_n_halfway b n.
Proof. exact rs_lower_n_halfway_eq. Qed.

Theorem C18_rs_nth_bit_eq :
  forall (b : build) (n : Z), rs_nth_bit b n = nth_bit b n.
Proof. exact rs_nth_bit_eq. Qed.


Print Assumptions C18_rfmt_ok_F32.
Print Assumptions C18_rfmt_ok_F64.
Print Assumptions C18_round_nearest_RN.
Print Assumptions C18_round_nearest_RN_F64.
Print Assumptions C18_round_nearest_RN_F32.
Print Assumptions C18_round_nearest_correct.
Print Assumptions C18_round_down_correct.
Print Assumptions C18_round_nearest_is_binary_normalize.
Print Assumptions C18_round_nearest_packed.
Print Assumptions C18_round_down_packed.
Print Assumptions C18_round_ne_Z.
Print Assumptions C18_round_cb_Z.
Print Assumptions C18_round_down_round_Z.
Print Assumptions C18_round_nearest_tie_even_Z.
Print Assumptions C18_round_down_Z.
Print Assumptions C18_nth_bit_ok.
Print Assumptions C18_lower_n_mask_ok.
Print Assumptions C18_lower_n_halfway_ok.
Print Assumptions C18_mask_helpers_release_outside.
Print Assumptions C18_round_nearest_rne_bits.
Print Assumptions C18_rs_round_eq.
Print Assumptions C18_rs_round_eq_std.
Print Assumptions C18_rs_round_nearest_tie_even_eq.
Print Assumptions C18_rs_round_down_eq.
Print Assumptions C18_rs_lower_n_mask_eq.
Print Assumptions C18_rs_lower_n_halfway_eq.
Print Assumptions C18_rs_nth_bit_eq.
