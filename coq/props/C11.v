(** C11 - the extended-precision middle stage is never confidently wrong.
    FULL STATEMENT: for all (w, q, truncated) in u64 x i32 x bool, both formats, both implementations:
      the stage returns Ok fp (no panic) and, when fp is definite (exp fp >= 0), pack fp = RN f v for
      every v in the denoted range (v = w*10^q, resp. w*10^q <= v < (w+1)*10^q when truncated).
    PROVED for Bellerophon (compact builds), props below closed by [exact] (proofs/BellFacts0-5.v):
      [bellerophon_sound] is exactly the full statement, for every format with [bell_ok] (computed on
      the regenerated constants/tables), every build mode, every w, q - except the documented corner
      `truncated /\ w < 2^40` (KNOWN_FINDINGS F2c; [small_truncated_corner] shows it is real), which
      parse_float cannot produce (it passes 10^18 <= w when truncated).  Forward error analysis:
      [bmul_ok] (the 64x64 multiply is round-half-up of the 128-bit product), table entries are floors
      ([bell_tables_ok] on the regenerated tables), [stage2_bound], [accurate_band] (error_is_accurate
      means no rounding boundary within the band), then RN_monotone.
    Eisel-Lemire (default builds): see the Lemire theorems below when present (proofs/LemireFacts*.v);
      what is not yet proved of it is attacked on every run by the stage-level search (closest
      approaches, algebraic ties, all-ones fallback witnesses, degenerate products, every q). *)

From Coq Require Import ZArith QArith List Bool Reals.
From ML Require Import base.RustSem model.Fmt model.Num model.Number model.Rounding model.Bellerophon model.Lemire spec.Decimal spec.Round spec.RoundFacts spec.RneZ spec.RneBridge
  gen.Consts gen.Tables gen.BTables proofs.TableFacts proofs.BellFacts0 proofs.BellFacts1 proofs.BellFacts2 proofs.BellFacts3 proofs.BellFacts4 proofs.BellFacts5.

Open Scope Z_scope.

Theorem C11_bell_ok_F32 :
  bell_ok F32 = true.
Proof. exact bell_ok_F32. Qed.

Theorem C11_bell_ok_F64 :
  bell_ok F64 = true.
Proof. exact bell_ok_F64. Qed.

Theorem C11_bellerophon_sound :
  forall (f : format) (b : build) (w q : Z) (t : bool),
         bell_ok f = true ->
         0 <= w < 2 ^ 64 ->
         - 2 ^ 31 <= q < 2 ^ 31 ->
         (t = true -> 2 ^ 40 <= w) ->
         exists fp : extfloat,
           bellerophon BTABLES f b {| nexp := q; nmant := w; many := t |} = Ok fp /\
           (0 <= exp fp ->
            forall v : Q,
            (if t
             then (inject_Z w * pow10Q q <= v < inject_Z (w + 1) * pow10Q q)%Q
             else v == inject_Z w * pow10Q q) -> RN f v = pack f fp).
Proof. exact bellerophon_sound. Qed.

Theorem C11_bellerophon_sound_strong :
  forall (f : format) (b : build) (w q : Z) (t : bool),
         bell_ok f = true ->
         0 <= w < 2 ^ 64 ->
         - 2 ^ 31 <= q < 2 ^ 31 ->
         (t = true -> 2 ^ 40 <= w) ->
         exists fp : extfloat,
           bellerophon BTABLES f b {| nexp := q; nmant := w; many := t |} = Ok fp /\
           (0 <= exp fp ->
            extended_to_float f b fp = Ok (pack f fp) /\
            (forall v : Q,
             (if t
              then (inject_Z w * pow10Q q <= v < inject_Z (w + 1) * pow10Q q)%Q
              else v == inject_Z w * pow10Q q) -> RN f v = pack f fp)).
Proof. exact bellerophon_sound_strong. Qed.

Theorem C11_bmul_ok :
  forall (b : build) (x y : extfloat),
         2 ^ 32 <= mant x < 2 ^ 64 ->
         2 ^ 32 <= mant y < 2 ^ 64 ->
         - 2 ^ 31 <= exp x + exp y ->
         exp x + exp y + 64 < 2 ^ 31 ->
         bmul b x y = Ok {| mant := (mant x * mant y + 2 ^ 63) / 2 ^ 64; exp := exp x + exp y + 64 |}.
Proof. exact bmul_ok. Qed.

Theorem C11_bnormalize_ok :
  forall (b : build) (m e : Z),
         0 < m < 2 ^ 64 ->
         - 2 ^ 31 + 63 <= e < 2 ^ 31 ->
         bnormalize b {| mant := m; exp := e |} = Ok ({| mant := m * 2 ^ lz64 m; exp := e - lz64 m |}, lz64 m).
Proof. exact bnormalize_ok. Qed.

Theorem C11_error_is_accurate_ok :
  forall (f : format) (b : build) (errors M e : Z),
         RoundingFactsZ.rfmt_ok f = true ->
         0 <= M < 2 ^ 64 ->
         0 <= errors < 2 ^ 32 ->
         -64 <= e <= 2 ^ 30 -> error_is_accurate f b errors {| mant := M; exp := e |} = Ok (acc f errors M e).
Proof. exact error_is_accurate_ok. Qed.

Theorem C11_accurate_band :
  forall (f : format) (errors dlo M e : Z),
         RoundingFactsZ.rfmt_ok f = true ->
         2 ^ 63 <= M < 2 ^ 64 ->
         -63 <= e ->
         1 <= dlo < errors ->
         4 * dlo < 2 ^ (63 - MANTISSA_SIZE f) ->
         acc f errors M e = true ->
         let lo := M - dlo in
         let hi := M + errors - 2 in
         (2 ^ 63 <= lo -> res f lo e = res f M e) /\
         (lo < 2 ^ 63 -> -62 <= e /\ 2 ^ 62 <= lo /\ res f (2 * lo) (e - 1) = res f M e) /\
         (hi < 2 ^ 64 -> res f hi e = res f M e) /\
         (2 ^ 64 <= hi -> 2 ^ 63 <= (hi + 1) / 2 < 2 ^ 64 /\ res f ((hi + 1) / 2) (e + 1) = res f M e).
Proof. exact accurate_band. Qed.

Theorem C11_stage2_bound :
  forall (q w : Z) (t : bool) (x : R),
         0 < w < 2 ^ 64 ->
         0 <= q + BIAS ->
         lidx q < NLARGE ->
         (t = true -> 2 ^ 40 <= w) ->
         (if t
          then (IZR w * Raux.bpow r10 q <= x < IZR (w + 1) * Raux.bpow r10 q)%R
          else x = (IZR w * Raux.bpow r10 q)%R) ->
         let x3 := fst (stage2 q w) in
         let e3 := snd (stage2 q w) in
         ((IZR x3 - 1) * Raux.bpow Zaux.radix2 e3 <= x <=
          (IZR x3 + IZR (errs q w t) - 2) * Raux.bpow Zaux.radix2 e3)%R.
Proof. exact stage2_bound. Qed.

Theorem C11_small_truncated_corner :
  bellerophon BTABLES F32 checked_build {| nexp := 0; nmant := 1; many := true |} =
         Ok {| mant := 0; exp := 127 |} /\
         (inject_Z 1 * pow10Q 0 <= 3 # 2 < inject_Z (1 + 1) * pow10Q 0)%Q /\
         RN F32 (3 # 2) <> pack F32 {| mant := 0; exp := 127 |}.
Proof. exact small_truncated_corner. Qed.

Theorem C11_bell_F1_declined :
  match
           bellerophon BTABLES F64 checked_build {| nexp := -324; nmant := 1062871587088380183; many := true |}
         with
         | Ok fp => exp fp <? 0
         | _ => false
         end = true.
Proof. exact bell_F1_declined. Qed.


Print Assumptions C11_bell_ok_F32.
Print Assumptions C11_bell_ok_F64.
Print Assumptions C11_bellerophon_sound.
Print Assumptions C11_bellerophon_sound_strong.
Print Assumptions C11_bmul_ok.
Print Assumptions C11_bnormalize_ok.
Print Assumptions C11_error_is_accurate_ok.
Print Assumptions C11_accurate_band.
Print Assumptions C11_stage2_bound.
Print Assumptions C11_small_truncated_corner.
Print Assumptions C11_bell_F1_declined.
